/-
  C01, LZMA2 encoder side: the EXECUTABLE chunker `Lzma2Enc.lzma2Encode` / `encodeChunk` (the functions the driver runs over
  the H2 trace and whose bytes are compared with the C encoder's) produces a sequence of chunks each of which satisfies
  the chunk specification `ChunkOk`:
    * LZMA chunk: header `lzma2_header_lzma` for the current need_* flags and the true sizes, payload = `rc_reset`, the
      operations of a valid symbol sequence (`encSyms` from the encoder's position/state/probabilities — fresh ones after a
      state reset), `rc_flush`; compressed size = number of payload bytes;
    * uncompressed chunk: header `lzma2_header_uncompressed`, the raw bytes; `need_state_reset` afterwards;
  followed by the end marker 0x00, the chunks covering exactly the data.
-/
import XzVerif.Lemmas.Lzma1ExecFinal

namespace XzVerif.LzmaExec
open XzVerif.RangeDec XzVerif.RangeEnc XzVerif.RangeCoder XzVerif.LzDict XzVerif.Lzma XzVerif.LzmaEnc XzVerif.LzmaSymDec
open XzVerif.LzmaSym XzVerif.LzmaSpec XzVerif.Lzma2Enc

/-! ### `while` loops in `Except` -/

theorem loop_except_inv {β ε : Type} (f : Unit → β → Except ε (ForInStep β)) (P Q : β → Prop) (measure : β → Nat)
    (hstep : ∀ b, P b → match f () b with
      | .ok (.yield b') => P b' ∧ measure b' < measure b
      | .ok (.done b') => Q b'
      | .error _ => True) :
    ∀ (n : Nat) (b : β) (r : β), measure b ≤ n → P b → forIn Lean.Loop.mk b f = .ok r → Q r := by
  intro n
  induction n with
  | zero =>
    intro b r hm hP h
    have h' : Lean.Loop.forIn Lean.Loop.mk b f = .ok r := h
    rw [Lean.Loop.forIn_eq_of_monadTail] at h'
    have hs := hstep b hP
    cases hf : f () b with
    | error e => rw [hf] at h'; cases h'
    | ok st =>
      rw [hf] at h' hs
      cases st with
      | done b' => simp only [bind, Except.bind, pure, Except.pure] at h'; cases h'; exact hs
      | yield b' => exact absurd hs.2 (by omega)
  | succ n ih =>
    intro b r hm hP h
    have h' : Lean.Loop.forIn Lean.Loop.mk b f = .ok r := h
    rw [Lean.Loop.forIn_eq_of_monadTail] at h'
    have hs := hstep b hP
    cases hf : f () b with
    | error e => rw [hf] at h'; cases h'
    | ok st =>
      rw [hf] at h' hs
      cases st with
      | done b' => simp only [bind, Except.bind, pure, Except.pure] at h'; cases h'; exact hs
      | yield b' =>
        simp only [bind, Except.bind] at h'
        exact ih b' r (by omega) hs.1 h'

/-! ### `out_total` of the flushed range encoder is the number of bytes -/

def OutOk2 (e : Enc) : Prop := e.outTotal = e.outRev.length ∧ 1 ≤ e.cacheSize

theorem outOk2_init : OutOk2 Enc.init := ⟨rfl, by decide⟩

theorem outOk2_shiftLow {e : Enc} (h : OutOk2 e) : OutOk2 (shiftLow e) := by
  refine ⟨outOk_shiftLow h.1 h.2, ?_⟩
  unfold shiftLow
  split
  · exact Nat.le_refl _
  · simp only []; have := h.2; omega

theorem outOk2_range {e : Enc} (h : OutOk2 e) (r : Nat) : OutOk2 { e with range := r } := h

theorem outOk2_normalize {e : Enc} (h : OutOk2 e) : OutOk2 (normalize e) := by
  unfold normalize
  split
  · exact outOk2_range (outOk2_shiftLow h) _
  · exact h

theorem outOk2_encBit {e : Enc} (h : OutOk2 e) (p : Nat) (b : Bool) : OutOk2 (encBit e p b) := by
  have := outOk2_normalize h
  cases b
  · rw [encBit_false]; exact this
  · rw [encBit_true]; exact this

theorem outOk2_encDirect {e : Enc} (h : OutOk2 e) (b : Bool) : OutOk2 (encDirect e b) := by
  have := outOk2_normalize h
  cases b
  · rw [encDirect_false]; exact this
  · rw [encDirect_true]; exact this

theorem outOk2_encOps : ∀ (ops : List Op) (ps : Probs) (e : Enc), OutOk2 e → OutOk2 (encOps ps e ops).2
  | [], _, _, h => h
  | .bit ctx b :: ops, ps, e, h => by
    have := outOk2_encOps ops (ps.setIfInBounds ctx (probUpdate (ps.getD ctx 0) b)) (encBit e (ps.getD ctx 0) b)
      (outOk2_encBit h _ _)
    simpa only [encOps, List.foldl_cons, encOp] using this
  | .direct b :: ops, ps, e, h => by
    have := outOk2_encOps ops ps (encDirect e b) (outOk2_encDirect h _)
    simpa only [encOps, List.foldl_cons, encOp] using this

theorem outOk2_encFlush {e : Enc} (h : OutOk2 e) : OutOk2 (encFlush e) := by
  unfold encFlush
  exact outOk2_shiftLow (outOk2_shiftLow (outOk2_shiftLow (outOk2_shiftLow (outOk2_shiftLow
    (outOk2_range (outOk2_normalize h) _)))))

theorem flush_total {e : Enc} (h : OutOk2 e) : (encFlush e).outTotal = (encFlush e).out.length := by
  rw [(outOk2_encFlush h).1]; simp [Enc.out]

/-- `rc_shift_low`: one more byte written or pending -/
theorem shiftLow_T {e : Enc} (h : 1 ≤ e.cacheSize) :
    T (shiftLow e) = T e + 1 ∧ 1 ≤ (shiftLow e).cacheSize ∧ (shiftLow e).low = (e.low % 16777216) * 256 ∧
      (e.low = 0 → (shiftLow e).cacheSize = 1) := by
  by_cases hc : e.low % U32 < 0xFF000000 ∨ (e.low / U32) % U32 ≠ 0
  · rw [shiftLow_pos hc]
    refine ⟨?_, Nat.le_refl _, rfl, fun _ => rfl⟩
    simp only [T, length_pushN, List.length_cons]; omega
  · rw [shiftLow_neg hc]
    refine ⟨?_, by simp only []; omega, rfl, ?_⟩
    · simp only [T]; omega
    · intro h0
      exfalso; apply hc; left
      rw [h0]; simp only [U32]; omega

/-- a flushed range-coder stream has at least the five flush bytes -/
theorem flush_len5 {e : Enc} (h : 1 ≤ e.cacheSize) : 5 ≤ (encFlush e).out.length := by
  have hn : 1 ≤ (normalize e).cacheSize := by
    unfold normalize
    split
    · exact (shiftLow_T h).2.1
    · exact h
  generalize he0 : ({ normalize e with range := UINT32_MAX } : Enc) = e0
  have h0 : 1 ≤ e0.cacheSize := by rw [← he0]; exact hn
  obtain ⟨t1, c1, l1, _⟩ := shiftLow_T h0
  obtain ⟨t2, c2, l2, _⟩ := shiftLow_T c1
  obtain ⟨t3, c3, l3, _⟩ := shiftLow_T c2
  obtain ⟨t4, c4, l4, _⟩ := shiftLow_T c3
  obtain ⟨t5, c5, _, z5⟩ := shiftLow_T c4
  have hz : (shiftLow (shiftLow (shiftLow (shiftLow e0)))).low = 0 := by
    rw [l4, l3, l2, l1]; omega
  have hcs := z5 hz
  have hfl : encFlush e = shiftLow (shiftLow (shiftLow (shiftLow (shiftLow e0)))) := by rw [← he0]; rfl
  rw [hfl]
  simp only [T] at t1 t2 t3 t4 t5
  simp only [Enc.out, List.length_reverse]
  omega

/-! ### `encodeChunk` with its loop named -/

abbrev ChunkLoopSt := LzmaEnc × Nat × Nat × Nat × Nat × Nat

/-- body of the symbol loop of `encodeChunkL lim`: state (encoder, offset, trace index, symbols, read_ahead, fuel) -/
def chunkBodyL (lim : ChunkLimits) (dictSize : Nat) (buf : ByteArray) (base : Nat) (tr : Array TraceRec) (segEnd : Nat) (p : Props) (off : Nat)
    (_ : Unit) (s : ChunkLoopSt) : Except String (ForInStep ChunkLoopSt) :=
  if s.2.2.2.2.2 > 0 then
    if chunkFullL lim (s.2.1 - off) s.1.rc = true then
      pure (ForInStep.done (s.1, s.2.1, s.2.2.1, s.2.2.2.1, s.2.2.2.2.1, s.2.2.2.2.2 - 1))
    else if s.2.2.1 ≥ segEnd then
      pure (ForInStep.done (s.1, s.2.1, s.2.2.1, s.2.2.2.1, s.2.2.2.2.1, s.2.2.2.2.2 - 1))
    else if (tr[s.2.2.1]!.kind != 0) = true then
      .error s!"trace record {s.2.2.1}: unexpected kind {(tr[s.2.2.1]!).kind} inside a chunk"
    else if (tr[s.2.2.1]!.pos != s.1.uncompSize % 4294967296) = true then
      .error s!"trace record {s.2.2.1}: position {(tr[s.2.2.1]!).pos} but the model's uncomp_size is {s.1.uncompSize}"
    else
      checkSym dictSize buf base s.2.1 s.1.st tr[s.2.2.1]!.back tr[s.2.2.1]!.len >>= fun x =>
        pure (ForInStep.yield
          ({ (s.1.encode (symOps p s.1.st s.1.uncompSize x.2.1 x.2.2 x.1).1) with
              st := (symOps p s.1.st s.1.uncompSize x.2.1 x.2.2 x.1).2,
              uncompSize := (s.1.encode (symOps p s.1.st s.1.uncompSize x.2.1 x.2.2 x.1).1).uncompSize + tr[s.2.2.1]!.len },
           s.2.1 + tr[s.2.2.1]!.len, s.2.2.1 + 1, s.2.2.2.1 + 1, tr[s.2.2.1]!.ra, s.2.2.2.2.2 - 1))
  else pure (ForInStep.done (s.1, s.2.1, s.2.2.1, s.2.2.2.1, s.2.2.2.2.1, s.2.2.2.2.2))

/-- body of the symbol loop of `encodeChunk`: state (encoder, offset, trace index, symbols, read_ahead, fuel) -/
def chunkBody (dictSize : Nat) (buf : ByteArray) (base : Nat) (tr : Array TraceRec) (segEnd : Nat) (p : Props) (off : Nat)
    (_ : Unit) (s : ChunkLoopSt) : Except String (ForInStep ChunkLoopSt) :=
  if s.2.2.2.2.2 > 0 then
    if chunkFull (s.2.1 - off) s.1.rc = true then
      pure (ForInStep.done (s.1, s.2.1, s.2.2.1, s.2.2.2.1, s.2.2.2.2.1, s.2.2.2.2.2 - 1))
    else if s.2.2.1 ≥ segEnd then
      pure (ForInStep.done (s.1, s.2.1, s.2.2.1, s.2.2.2.1, s.2.2.2.2.1, s.2.2.2.2.2 - 1))
    else if (tr[s.2.2.1]!.kind != 0) = true then
      .error s!"trace record {s.2.2.1}: unexpected kind {(tr[s.2.2.1]!).kind} inside a chunk"
    else if (tr[s.2.2.1]!.pos != s.1.uncompSize % 4294967296) = true then
      .error s!"trace record {s.2.2.1}: position {(tr[s.2.2.1]!).pos} but the model's uncomp_size is {s.1.uncompSize}"
    else
      checkSym dictSize buf base s.2.1 s.1.st tr[s.2.2.1]!.back tr[s.2.2.1]!.len >>= fun x =>
        pure (ForInStep.yield
          ({ (s.1.encode (symOps p s.1.st s.1.uncompSize x.2.1 x.2.2 x.1).1) with
              st := (symOps p s.1.st s.1.uncompSize x.2.1 x.2.2 x.1).2,
              uncompSize := (s.1.encode (symOps p s.1.st s.1.uncompSize x.2.1 x.2.2 x.1).1).uncompSize + tr[s.2.2.1]!.len },
           s.2.1 + tr[s.2.2.1]!.len, s.2.2.1 + 1, s.2.2.2.1 + 1, tr[s.2.2.1]!.ra, s.2.2.2.2.2 - 1))
  else pure (ForInStep.done (s.1, s.2.1, s.2.2.1, s.2.2.2.1, s.2.2.2.2.1, s.2.2.2.2.2))

/-! The old names are the specialisations to the limits of xz 5.8.1 (`ChunkLimits.std`); they are kept written out because
    the end-to-end proofs unfold them. -/
theorem chunkFull_std (u : Nat) (rc : Enc) : chunkFull u rc = chunkFullL .std u rc := rfl
theorem encodeChunk_std : @encodeChunk = @encodeChunkL .std := rfl
theorem lzma2Encode_std : @lzma2Encode = @lzma2EncodeL .std := rfl
theorem chunkBody_std : @chunkBody = @chunkBodyL .std := rfl

/-- what `encodeChunk` does after the loop: `rc_flush`, choose LZMA / uncompressed chunk, header, new flags -/
def chunkTail (buf : ByteArray) (base : Nat) (c : L2Enc) (off : Nat) (ini : Bool) (s : ChunkLoopSt) :
    Except String (List UInt8 × Nat × Nat × L2Enc × Nat) :=
  if s.1.flush.2.1 ≥ s.2.1 - off then
    if base + off + (s.2.1 - off + s.2.2.2.2.1) > buf.size then
      .error s!"uncompressed chunk at {off}: read_ahead {s.2.2.2.2.1} runs past the end of the data"
    else if (decide (s.2.1 - off + s.2.2.2.2.1 > LZMA2_CHUNK_MAX) || s.2.1 - off + s.2.2.2.2.1 == 0) = true then
      .error s!"uncompressed chunk at {off} has size {s.2.1 - off + s.2.2.2.2.1}"
    else
      pure (headerUncompressed c.needDictReset (s.2.1 - off + s.2.2.2.2.1) ++
              sliceList buf (base + off) (s.2.1 - off + s.2.2.2.2.1),
            off + (s.2.1 - off + s.2.2.2.2.1), s.2.2.1,
            { lz := s.1.flush.2.2, needProps := c.needProps, needStateReset := true, needDictReset := false,
              initialized := ini },
            s.2.2.2.1)
  else
    if (decide (s.1.flush.2.1 > LZMA2_CHUNK_MAX) || decide (s.2.1 - off > LZMA2_UNCOMPRESSED_MAX) || s.2.1 - off == 0) = true then
      .error s!"LZMA chunk at {off}: sizes {s.2.1 - off}/{s.1.flush.2.1} out of range"
    else
      pure (headerLzma c.needProps c.needStateReset c.needDictReset (s.2.1 - off) s.1.flush.2.1 c.lz.props ++ s.1.flush.1,
            s.2.1, s.2.2.1,
            { lz := s.1.flush.2.2, needProps := false, needStateReset := false, needDictReset := false, initialized := ini },
            s.2.2.2.1)

/-- the encoder state at the start of a chunk (SEQ_INIT: `if (need_state_reset) lzma_lzma_encoder_reset()`) -/
def chunkE0 (c : L2Enc) : LzmaEnc := if c.needStateReset = true then c.lz.reset c.lz.props else c.lz

theorem encodeChunkL_eq (lim : ChunkLimits) (dictSize : Nat) (buf : ByteArray) (base : Nat) (tr : Array TraceRec) (segEnd : Nat) (c : L2Enc)
    (off ti : Nat) :
    encodeChunkL lim dictSize buf base tr segEnd c off ti =
      if (!c.initialized) = true then
        forIn Lean.Loop.mk
          (({ (chunkE0 c).encode (initOps (buf.get! (base + off))) with
                uncompSize := ((chunkE0 c).encode (initOps (buf.get! (base + off)))).uncompSize + 1 },
            off + 1, ti, 1, 0, tr.size + 1) : ChunkLoopSt)
          (chunkBodyL lim dictSize buf base tr segEnd c.lz.props off) >>= chunkTail buf base c off true
      else
        forIn Lean.Loop.mk ((chunkE0 c, off, ti, 0, 0, tr.size + 1) : ChunkLoopSt)
          (chunkBodyL lim dictSize buf base tr segEnd c.lz.props off) >>= chunkTail buf base c off c.initialized := by
  unfold encodeChunkL
  simp only [except_throw_bind]
  split <;> rfl

theorem encodeChunk_eq (dictSize : Nat) (buf : ByteArray) (base : Nat) (tr : Array TraceRec) (segEnd : Nat) (c : L2Enc)
    (off ti : Nat) :
    encodeChunk dictSize buf base tr segEnd c off ti =
      if (!c.initialized) = true then
        forIn Lean.Loop.mk
          (({ (chunkE0 c).encode (initOps (buf.get! (base + off))) with
                uncompSize := ((chunkE0 c).encode (initOps (buf.get! (base + off)))).uncompSize + 1 },
            off + 1, ti, 1, 0, tr.size + 1) : ChunkLoopSt)
          (chunkBody dictSize buf base tr segEnd c.lz.props off) >>= chunkTail buf base c off true
      else
        forIn Lean.Loop.mk ((chunkE0 c, off, ti, 0, 0, tr.size + 1) : ChunkLoopSt)
          (chunkBody dictSize buf base tr segEnd c.lz.props off) >>= chunkTail buf base c off c.initialized := by
  rw [encodeChunk_std, chunkBody_std]; exact encodeChunkL_eq .std dictSize buf base tr segEnd c off ti

/-! ### the chunk specification -/

/-- what both sides of LZMA2 carry from chunk to chunk (the encoder's view) -/
structure L2Cfg where
  /-- data offset (true number of bytes coded so far) -/
  off : Nat
  /-- the encoder's `uncomp_size` (lags after uncompressed chunks) -/
  encPos : Nat
  st : SymSt
  ps : Probs
  needProps : Bool
  needStateReset : Bool
  needDictReset : Bool

/-- state / probabilities an LZMA chunk starts from -/
def L2Cfg.st0 (C : L2Cfg) : SymSt := if C.needStateReset = true then {} else C.st
def L2Cfg.ps0 (p : Props) (C : L2Cfg) : Probs := if C.needStateReset = true then initProbs p else C.ps

inductive ChunkOk (p : Props) (dictSize : Nat) (buf : ByteArray) (base : Nat) : L2Cfg → List UInt8 → L2Cfg → Prop
  | lzma (C : L2Cfg) (syms : List Sym) (ops : List Op) (encPos' : Nat) (st' : SymSt) (usize : Nat) :
      encSyms p dictSize syms C.encPos C.st0 (win buf (base + C.off))
        = some (ops, encPos', st', win buf (base + C.off + usize)) →
      symsLen syms = usize → 1 ≤ usize → usize ≤ LZMA2_UNCOMPRESSED_MAX → base + C.off + usize ≤ buf.size →
      (encFlush (encOps (C.ps0 p) Enc.init ops).2).out.length ≤ LZMA2_CHUNK_MAX →
      ChunkOk p dictSize buf base C
        (headerLzma C.needProps C.needStateReset C.needDictReset usize
            (encFlush (encOps (C.ps0 p) Enc.init ops).2).out.length p
          ++ (encFlush (encOps (C.ps0 p) Enc.init ops).2).out)
        { off := C.off + usize, encPos := encPos', st := st', ps := (encOps (C.ps0 p) Enc.init ops).1,
          needProps := false, needStateReset := false, needDictReset := false }
  | uncomp (C : L2Cfg) (usize encPos' : Nat) (st' : SymSt) (ps' : Probs) :
      1 ≤ usize → usize ≤ LZMA2_CHUNK_MAX → base + C.off + usize ≤ buf.size →
      ChunkOk p dictSize buf base C
        (headerUncompressed C.needDictReset usize ++ sliceList buf (base + C.off) usize)
        { off := C.off + usize, encPos := encPos', st := st', ps := ps',
          needProps := C.needProps, needStateReset := true, needDictReset := false }

/-- a sequence of chunks, with the concatenated bytes -/
inductive Chunks (p : Props) (dictSize : Nat) (buf : ByteArray) (base : Nat) : L2Cfg → List UInt8 → L2Cfg → Prop
  | nil (C : L2Cfg) : Chunks p dictSize buf base C [] C
  | cons {C C1 C2 : L2Cfg} {b bs : List UInt8} : ChunkOk p dictSize buf base C b C1 → Chunks p dictSize buf base C1 bs C2 →
      Chunks p dictSize buf base C (b ++ bs) C2

theorem Chunks.snoc {p : Props} {dictSize : Nat} {buf : ByteArray} {base : Nat} {C C1 C2 : L2Cfg} {a b : List UInt8}
    (h : Chunks p dictSize buf base C a C1) (hc : ChunkOk p dictSize buf base C1 b C2) :
    Chunks p dictSize buf base C (a ++ b) C2 := by
  induction h with
  | nil C => simpa using Chunks.cons hc (Chunks.nil _)
  | cons h1 _ ih => rw [List.append_assoc]; exact Chunks.cons h1 (ih hc)

/-! ### the symbol loop of a chunk -/

/-- invariant of the symbol loop: the symbols so far, coded from the chunk's start state -/
def ChInv (p : Props) (dictSize : Nat) (buf : ByteArray) (base off : Nat) (e0 : LzmaEnc) (s : ChunkLoopSt) : Prop :=
  off ≤ s.2.1 ∧ base + s.2.1 ≤ buf.size ∧ s.1.props = e0.props ∧
    ∃ syms ops, encSyms p dictSize syms e0.uncompSize e0.st (win buf (base + off))
        = some (ops, s.1.uncompSize, s.1.st, win buf (base + s.2.1)) ∧
      encOps e0.probs Enc.init ops = (s.1.probs, s.1.rc) ∧ symsLen syms = s.2.1 - off

theorem symsLen_append (a b : List Sym) : symsLen (a ++ b) = symsLen a + symsLen b := by
  induction a with
  | nil => simp [symsLen]
  | cons x a ih => simp only [List.cons_append, symsLen, ih]; omega

set_option maxRecDepth 4000 in
theorem chunkBodyL_step (lim : ChunkLimits) (p : Props) (dictSize : Nat) (buf : ByteArray) (base : Nat) (tr : Array TraceRec) (segEnd off : Nat)
    (e0 : LzmaEnc) (s : ChunkLoopSt) (hinv : ChInv p dictSize buf base off e0 s) :
    match chunkBodyL lim dictSize buf base tr segEnd p off () s with
    | .ok (.yield s') => ChInv p dictSize buf base off e0 s' ∧ s'.2.2.2.2.2 < s.2.2.2.2.2
    | .ok (.done s') => ChInv p dictSize buf base off e0 s'
    | .error _ => True := by
  obtain ⟨hoff, hle, hprops, syms, ops, henc, heo, hlen⟩ := hinv
  unfold chunkBodyL
  by_cases hfuel : s.2.2.2.2.2 > 0
  · rw [if_pos hfuel]
    by_cases hfull : chunkFullL lim (s.2.1 - off) s.1.rc = true
    · rw [if_pos hfull]; exact ⟨hoff, hle, hprops, syms, ops, henc, heo, hlen⟩
    rw [if_neg hfull]
    by_cases hseg : s.2.2.1 ≥ segEnd
    · rw [if_pos hseg]; exact ⟨hoff, hle, hprops, syms, ops, henc, heo, hlen⟩
    rw [if_neg hseg]
    by_cases h2 : (tr[s.2.2.1]!.kind != 0) = true
    · rw [if_pos h2]; trivial
    rw [if_neg h2]
    by_cases h3 : (tr[s.2.2.1]!.pos != s.1.uncompSize % 4294967296) = true
    · rw [if_pos h3]; trivial
    rw [if_neg h3]
    cases hck : checkSym dictSize buf base s.2.1 s.1.st tr[s.2.2.1]!.back tr[s.2.2.1]!.len with
    | error e => trivial
    | ok x =>
      obtain ⟨sym, prev, mb⟩ := x
      obtain ⟨hsz, hprev, hmb, happ, hslen⟩ := checkSym_sound dictSize buf base s.2.1 s.1.st _ _ hck
      simp only [bind, Except.bind, pure, Except.pure]
      refine ⟨⟨by simp only []; omega, by simp only []; omega, hprops, syms ++ [sym],
        ops ++ (symOps p s.1.st s.1.uncompSize prev mb sym).1, ?_, ?_, ?_⟩, by show s.2.2.2.2.2 - 1 < s.2.2.2.2.2; omega⟩
      · rw [encSyms_append, henc]
        simp only [encSyms, happ, ← hprev, ← hmb, hslen, Nat.add_assoc, List.append_nil, encode_eq]
      · rw [encOps_append, heo]
        simp only [encode_eq]
      · rw [symsLen_append]
        simp only [symsLen, hslen, hlen]; omega
  · rw [if_neg hfuel]; exact ⟨hoff, hle, hprops, syms, ops, henc, heo, hlen⟩

theorem chunkBody_step (p : Props) (dictSize : Nat) (buf : ByteArray) (base : Nat) (tr : Array TraceRec) (segEnd off : Nat)
    (e0 : LzmaEnc) (s : ChunkLoopSt) (hinv : ChInv p dictSize buf base off e0 s) :
    match chunkBody dictSize buf base tr segEnd p off () s with
    | .ok (.yield s') => ChInv p dictSize buf base off e0 s' ∧ s'.2.2.2.2.2 < s.2.2.2.2.2
    | .ok (.done s') => ChInv p dictSize buf base off e0 s'
    | .error _ => True := by
  rw [chunkBody_std]; exact chunkBodyL_step .std p dictSize buf base tr segEnd off e0 s hinv

/-! ### one chunk -/

def cfgOf (c : L2Enc) (off : Nat) : L2Cfg :=
  { off := off, encPos := c.lz.uncompSize, st := c.lz.st, ps := c.lz.probs, needProps := c.needProps,
    needStateReset := c.needStateReset, needDictReset := c.needDictReset }

/-- invariant of the chunker between chunks -/
structure EncOk (p : Props) (base : Nat) (c : L2Enc) (off : Nat) : Prop where
  props : c.lz.props = p
  rc : c.lz.rc = Enc.init
  first : c.initialized = false → off = 0 ∧ base = 0 ∧ c.lz.uncompSize = 0 ∧ c.lz.st = {}

theorem chunkE0_fields (p : Props) (c : L2Enc) (hp : c.lz.props = p) (hrc : c.lz.rc = Enc.init) :
    (chunkE0 c).props = p ∧ (chunkE0 c).rc = Enc.init ∧ (chunkE0 c).uncompSize = c.lz.uncompSize ∧
    (chunkE0 c).st = (cfgOf c 0).st0 ∧ (chunkE0 c).probs = (cfgOf c 0).ps0 p := by
  by_cases h : c.needStateReset = true
  · have e : chunkE0 c = c.lz.reset c.lz.props := if_pos h
    rw [e]
    refine ⟨hp, rfl, rfl, ?_, ?_⟩
    · simp only [L2Cfg.st0, cfgOf, h, if_true]; rfl
    · simp only [L2Cfg.ps0, cfgOf, h, if_true, LzmaEnc.reset, hp]
  · have e : chunkE0 c = c.lz := if_neg h
    rw [e]
    refine ⟨hp, hrc, rfl, ?_, ?_⟩
    · simp only [L2Cfg.st0, cfgOf, h, Bool.false_eq_true, if_false]
    · simp only [L2Cfg.ps0, cfgOf, h, Bool.false_eq_true, if_false]

/-- the tail of `encodeChunk` from a loop state satisfying the invariant -/
theorem chunkTail_sound (p : Props) (dictSize : Nat) (buf : ByteArray) (base : Nat) (c : L2Enc) (off : Nat) (ini : Bool)
    (hok : EncOk p base c off) (s : ChunkLoopSt) (hinv : ChInv p dictSize buf base off (chunkE0 c) s)
    {bytes : List UInt8} {off' ti' k : Nat} {c' : L2Enc} (hini : ini = true)
    (h : chunkTail buf base c off ini s = .ok (bytes, off', ti', c', k)) :
    ChunkOk p dictSize buf base (cfgOf c off) bytes (cfgOf c' off') ∧ EncOk p base c' off' := by
  obtain ⟨hp, hrc, hfirst⟩ := hok
  obtain ⟨e0p, e0rc, e0u, e0st, e0ps⟩ := chunkE0_fields p c hp hrc
  obtain ⟨hoff, hle, hprops, syms, ops, henc, heo, hlen⟩ := hinv
  have hrcs : s.1.rc = (encOps (chunkE0 c).probs Enc.init ops).2 := by rw [heo]
  have hpss : s.1.probs = (encOps (chunkE0 c).probs Enc.init ops).1 := by rw [heo]
  have hout : OutOk2 s.1.rc := by rw [hrcs]; exact outOk2_encOps ops _ _ outOk2_init
  have hcs : s.1.flush.2.1 = (encFlush s.1.rc).out.length := flush_total hout
  have hpay : s.1.flush.1 = (encFlush s.1.rc).out := rfl
  have hsp : s.1.props = p := by rw [hprops, e0p]
  unfold chunkTail at h
  by_cases hu : s.1.flush.2.1 ≥ s.2.1 - off
  · rw [if_pos hu] at h
    by_cases h1 : base + off + (s.2.1 - off + s.2.2.2.2.1) > buf.size
    · rw [if_pos h1] at h; cases h
    rw [if_neg h1] at h
    by_cases h2 : (decide (s.2.1 - off + s.2.2.2.2.1 > LZMA2_CHUNK_MAX) || s.2.1 - off + s.2.2.2.2.1 == 0) = true
    · rw [if_pos h2] at h; cases h
    rw [if_neg h2] at h
    simp only [pure, Except.pure, Except.ok.injEq, Prod.mk.injEq] at h
    obtain ⟨rfl, rfl, rfl, rfl, rfl⟩ := h
    simp only [Bool.or_eq_true, decide_eq_true_eq, beq_iff_eq, not_or, not_lt] at h2
    refine ⟨ChunkOk.uncomp (cfgOf c off) _ _ _ _ (by omega) h2.1 (by show base + off + _ ≤ buf.size; omega), ?_⟩
    exact ⟨hsp, rfl, fun hf => by rw [hini] at hf; cases hf⟩
  · rw [if_neg hu] at h
    by_cases h2 : (decide (s.1.flush.2.1 > LZMA2_CHUNK_MAX) || decide (s.2.1 - off > LZMA2_UNCOMPRESSED_MAX) ||
        s.2.1 - off == 0) = true
    · rw [if_pos h2] at h; cases h
    rw [if_neg h2] at h
    simp only [pure, Except.pure, Except.ok.injEq, Prod.mk.injEq] at h
    obtain ⟨rfl, rfl, rfl, rfl, rfl⟩ := h
    simp only [Bool.or_eq_true, decide_eq_true_eq, beq_iff_eq, not_or, not_lt] at h2
    obtain ⟨⟨h2a, h2b⟩, h2c⟩ := h2
    have hus : off + (s.2.1 - off) = s.2.1 := by omega
    have hcfg : (cfgOf c off).st0 = (cfgOf c 0).st0 ∧ (cfgOf c off).ps0 p = (cfgOf c 0).ps0 p := ⟨rfl, rfl⟩
    have henc' : encSyms p dictSize syms (cfgOf c off).encPos (cfgOf c off).st0 (win buf (base + (cfgOf c off).off))
        = some (ops, s.1.uncompSize, s.1.st, win buf (base + (cfgOf c off).off + (s.2.1 - off))) := by
      rw [hcfg.1, ← e0st]
      show encSyms p dictSize syms c.lz.uncompSize (chunkE0 c).st (win buf (base + off))
        = some (ops, s.1.uncompSize, s.1.st, win buf (base + off + (s.2.1 - off)))
      rw [← e0u, Nat.add_assoc, hus]; exact henc
    have hflush : (encFlush s.1.rc).out = (encFlush (encOps ((cfgOf c off).ps0 p) Enc.init ops).2).out := by
      rw [hrcs, hcfg.2, ← e0ps]
    have hck := ChunkOk.lzma (p := p) (dictSize := dictSize) (buf := buf) (base := base) (cfgOf c off) syms ops
      s.1.uncompSize s.1.st (s.2.1 - off) henc' hlen (by omega) h2b (by show base + off + (s.2.1 - off) ≤ buf.size; omega)
      (by rw [← hflush, ← hcs]; exact h2a)
    refine ⟨?_, ⟨hsp, rfl, fun hf => by rw [hini] at hf; cases hf⟩⟩
    have e1 : c.lz.props = p := hp
    rw [e1, hcs, hpay, hflush]
    have e2 : (cfgOf (⟨s.1.flush.2.2, false, false, false, ini⟩ : L2Enc) s.2.1) =
        (⟨(cfgOf c off).off + (s.2.1 - off), s.1.uncompSize, s.1.st, (encOps ((cfgOf c off).ps0 p) Enc.init ops).1,
          false, false, false⟩ : L2Cfg) := by
      have e3 : (cfgOf c off).ps0 p = (chunkE0 c).probs := by rw [hcfg.2, ← e0ps]
      rw [e3]
      simp only [cfgOf, LzmaEnc.flush]
      rw [hpss, hus]
    rw [e2]
    exact hck

theorem encode_uncomp (e : LzmaEnc) (ops : List Op) : (e.encode ops).uncompSize = e.uncompSize := rfl
theorem encode_st (e : LzmaEnc) (ops : List Op) : (e.encode ops).st = e.st := rfl
theorem encode_props (e : LzmaEnc) (ops : List Op) : (e.encode ops).props = e.props := rfl

/-- the loop invariant after `encode_init` (operation list kept abstract: evaluating `encOps` on a concrete list is slow) -/
theorem chInv_first (p : Props) (dictSize : Nat) (buf : ByteArray) (e0 : LzmaEnc) (ti fu : Nat) (iops : List Op)
    (hops : symOps p {} 0 0 0 (.lit (buf.get! 0)) = (iops, {})) (he0st : e0.st = {}) (he0u : e0.uncompSize = 0)
    (hrc : e0.rc = Enc.init) (hsz : 0 < buf.size) :
    ChInv p dictSize buf 0 0 e0
      (({ e0.encode iops with uncompSize := (e0.encode iops).uncompSize + 1 }, 0 + 1, ti, 1, 0, fu) : ChunkLoopSt) := by
  have hw0 : win buf 0 = [] := by simp [win]
  have hw1 : win buf (0 + 1) = [buf.get! 0] := by rw [win_succ buf 0 (by omega), hw0]
  refine ⟨by simp only []; omega, by simp only []; omega, encode_props e0 iops, [.lit (buf.get! 0)], iops, ?_, ?_, ?_⟩
  · rw [he0st, he0u]
    simp only [encSyms, Nat.add_zero, hw0, applySym, prevByte, matchByte, List.getElem?_nil, hops,
      List.append_nil, Sym.len, encode_uncomp, encode_st, he0u, he0st, hw1]
  · rw [← hrc]; exact encode_pair e0 _
  · simp [symsLen, Sym.len]

theorem encodeChunkL_sound (lim : ChunkLimits) (p : Props) (dictSize : Nat) (buf : ByteArray) (base : Nat) (tr : Array TraceRec) (segEnd : Nat)
    (c : L2Enc) (off ti : Nat) (hok : EncOk p base c off) (hoff : base + off < buf.size)
    {bytes : List UInt8} {off' ti' k : Nat} {c' : L2Enc}
    (h : encodeChunkL lim dictSize buf base tr segEnd c off ti = .ok (bytes, off', ti', c', k)) :
    ChunkOk p dictSize buf base (cfgOf c off) bytes (cfgOf c' off') ∧ EncOk p base c' off' := by
  obtain ⟨e0p, e0rc, e0u, e0st, e0ps⟩ := chunkE0_fields p c hok.props hok.rc
  rw [encodeChunkL_eq] at h
  by_cases hini : (!c.initialized) = true
  · rw [if_pos hini] at h
    obtain ⟨s, hloop, htail⟩ := except_bind_ok h
    have hi : c.initialized = false := by simpa using hini
    obtain ⟨rfl, rfl, hu0, hst0⟩ := hok.first hi
    rw [hok.props] at hloop
    have hE0st : (chunkE0 c).st = {} := by
      unfold chunkE0; split
      · rfl
      · exact hst0
    have hE0u : (chunkE0 c).uncompSize = 0 := by rw [e0u]; exact hu0
    have hinit := chInv_first p dictSize buf (chunkE0 c) ti (tr.size + 1) (initOps (buf.get! (0 + 0)))
      (symOps_init p _) hE0st hE0u e0rc (by omega)
    have hfin := loop_except_inv (chunkBodyL lim dictSize buf 0 tr segEnd p 0) (ChInv p dictSize buf 0 0 (chunkE0 c))
      (ChInv p dictSize buf 0 0 (chunkE0 c)) (fun s => s.2.2.2.2.2)
      (fun b hP => by
        have := chunkBodyL_step lim p dictSize buf 0 tr segEnd 0 (chunkE0 c) b hP
        split <;> rename_i heq <;> rw [heq] at this <;> exact this)
      _ _ s (Nat.le_refl _) hinit hloop
    exact chunkTail_sound p dictSize buf 0 c 0 true hok s hfin rfl htail
  · rw [if_neg hini] at h
    obtain ⟨s, hloop, htail⟩ := except_bind_ok h
    have hi : c.initialized = true := by simpa using hini
    rw [hok.props] at hloop
    have hinit : ChInv p dictSize buf base off (chunkE0 c) ((chunkE0 c, off, ti, 0, 0, tr.size + 1) : ChunkLoopSt) := by
      refine ⟨Nat.le_refl _, by simp only []; omega, rfl, [], [], rfl, ?_, by simp [symsLen]⟩
      rw [← e0rc]; exact encode_pair (chunkE0 c) []
    have hfin := loop_except_inv (chunkBodyL lim dictSize buf base tr segEnd p off) (ChInv p dictSize buf base off (chunkE0 c))
      (ChInv p dictSize buf base off (chunkE0 c)) (fun s => s.2.2.2.2.2)
      (fun b hP => by
        have := chunkBodyL_step lim p dictSize buf base tr segEnd off (chunkE0 c) b hP
        split <;> rename_i heq <;> rw [heq] at this <;> exact this)
      _ _ s (Nat.le_refl _) hinit hloop
    exact chunkTail_sound p dictSize buf base c off c.initialized hok s hfin hi htail

theorem encodeChunk_sound (p : Props) (dictSize : Nat) (buf : ByteArray) (base : Nat) (tr : Array TraceRec) (segEnd : Nat)
    (c : L2Enc) (off ti : Nat) (hok : EncOk p base c off) (hoff : base + off < buf.size)
    {bytes : List UInt8} {off' ti' k : Nat} {c' : L2Enc}
    (h : encodeChunk dictSize buf base tr segEnd c off ti = .ok (bytes, off', ti', c', k)) :
    ChunkOk p dictSize buf base (cfgOf c off) bytes (cfgOf c' off') ∧ EncOk p base c' off' := by
  rw [encodeChunk_std] at h; exact encodeChunkL_sound .std p dictSize buf base tr segEnd c off ti hok hoff h

/-- a successful `encodeChunk` makes progress -/
theorem encodeChunkL_progress (lim : ChunkLimits) (dictSize : Nat) (buf : ByteArray) (base : Nat) (tr : Array TraceRec) (segEnd : Nat)
    (c : L2Enc) (off ti : Nat) {bytes : List UInt8} {off' ti' k : Nat} {c' : L2Enc}
    (h : encodeChunkL lim dictSize buf base tr segEnd c off ti = .ok (bytes, off', ti', c', k)) : off < off' := by
  have key : ∀ (ini : Bool) (s : ChunkLoopSt), chunkTail buf base c off ini s = .ok (bytes, off', ti', c', k) → off < off' := by
    intro ini s ht
    unfold chunkTail at ht
    by_cases hu : s.1.flush.2.1 ≥ s.2.1 - off
    · rw [if_pos hu] at ht
      by_cases h1 : base + off + (s.2.1 - off + s.2.2.2.2.1) > buf.size
      · rw [if_pos h1] at ht; cases ht
      rw [if_neg h1] at ht
      by_cases h2 : (decide (s.2.1 - off + s.2.2.2.2.1 > LZMA2_CHUNK_MAX) || s.2.1 - off + s.2.2.2.2.1 == 0) = true
      · rw [if_pos h2] at ht; cases ht
      rw [if_neg h2] at ht
      simp only [pure, Except.pure, Except.ok.injEq, Prod.mk.injEq] at ht
      simp only [Bool.or_eq_true, decide_eq_true_eq, beq_iff_eq, not_or, not_lt] at h2
      omega
    · rw [if_neg hu] at ht
      by_cases h2 : (decide (s.1.flush.2.1 > LZMA2_CHUNK_MAX) || decide (s.2.1 - off > LZMA2_UNCOMPRESSED_MAX) ||
          s.2.1 - off == 0) = true
      · rw [if_pos h2] at ht; cases ht
      rw [if_neg h2] at ht
      simp only [pure, Except.pure, Except.ok.injEq, Prod.mk.injEq] at ht
      simp only [Bool.or_eq_true, decide_eq_true_eq, beq_iff_eq, not_or, not_lt] at h2
      omega
  rw [encodeChunkL_eq] at h
  split at h
  · obtain ⟨s, _, htail⟩ := except_bind_ok h; exact key _ s htail
  · obtain ⟨s, _, htail⟩ := except_bind_ok h; exact key _ s htail

theorem encodeChunk_progress (dictSize : Nat) (buf : ByteArray) (base : Nat) (tr : Array TraceRec) (segEnd : Nat)
    (c : L2Enc) (off ti : Nat) {bytes : List UInt8} {off' ti' k : Nat} {c' : L2Enc}
    (h : encodeChunk dictSize buf base tr segEnd c off ti = .ok (bytes, off', ti', c', k)) : off < off' := by
  rw [encodeChunk_std] at h; exact encodeChunkL_progress .std dictSize buf base tr segEnd c off ti h

theorem chunkOk_off {p : Props} {dictSize : Nat} {buf : ByteArray} {base : Nat} {C C' : L2Cfg} {b : List UInt8}
    (h : ChunkOk p dictSize buf base C b C') : base + C'.off ≤ buf.size := by
  cases h with
  | lzma _ _ _ _ _ _ _ _ _ hle _ => simpa [Nat.add_assoc] using hle
  | uncomp _ _ _ _ _ _ hle => simpa [Nat.add_assoc] using hle

/-! ### the whole stream -/

abbrev L2LoopSt := L2Enc × Array (List UInt8) × Nat × Nat × Nat × Nat

/-- the configuration `lzma2_encoder_init` starts from -/
def cfg0 (p : Props) (base : Nat) : L2Cfg := cfgOf (L2Enc.new p (decide (base > 0))) 0

/-- invariant of the chunk loop: valid chunks so far (or the offset has run past the data, which the final test rejects) -/
def L2Inv (p : Props) (dictSize : Nat) (buf : ByteArray) (base : Nat) (s : L2LoopSt) : Prop :=
  (EncOk p base s.1 s.2.2.1 ∧ base + s.2.2.1 ≤ buf.size ∧
      Chunks p dictSize buf base (cfg0 p base) s.2.1.toList.flatten (cfgOf s.1 s.2.2.1)) ∨
    buf.size - base < s.2.2.1

/-- For ANY chunk-closing limits: the executable LZMA2 chunker produces a valid chunk sequence covering the data, then the end marker. -/
theorem lzma2EncodeL_sound (lim : ChunkLimits) (p : Props) (dictSize : Nat) (buf : ByteArray) (base : Nat) (tr : Array TraceRec)
    (res : EncResult) (hbase : base ≤ buf.size) (h : lzma2EncodeL lim p dictSize buf base tr = .ok res) :
    ∃ bytes CF, Chunks p dictSize buf base (cfg0 p base) bytes CF ∧ CF.off = buf.size - base ∧ res.out = bytes ++ [0] := by
  unfold lzma2EncodeL at h
  simp only [except_throw_bind] at h
  obtain ⟨s, hloop, hrest⟩ := except_bind_ok h
  have hinit : L2Inv p dictSize buf base
      ((L2Enc.new p (decide (base > 0)), #[], 0, 0, 0, buf.size - base + tr.size + 2) : L2LoopSt) := by
    left
    refine ⟨⟨rfl, rfl, ?_⟩, by simp only []; omega, Chunks.nil _⟩
    intro hi
    simp only [L2Enc.new, decide_eq_false_iff_not, not_lt, Nat.le_zero_eq] at hi
    exact ⟨rfl, hi, rfl, rfl⟩
  have hfin := loop_except_inv _ (L2Inv p dictSize buf base) (L2Inv p dictSize buf base) (fun s => s.2.2.2.2.2)
    (fun b hP => by
      by_cases hfuel : b.2.2.2.2.2 > 0
      · rw [if_pos hfuel]
        generalize (if nextMarker tr b.2.2.2.1 < tr.size then tr[nextMarker tr b.2.2.2.1]!.pos else buf.size - base) = L
        by_cases h1 : b.2.2.1 > L
        · rw [if_pos h1]; trivial
        rw [if_neg h1]
        by_cases h2 : (b.2.2.1 == L) = true
        · rw [if_pos h2]
          by_cases h3 : (b.2.2.2.1 != nextMarker tr b.2.2.2.1) = true
          · rw [if_pos h3]; trivial
          rw [if_neg h3]
          by_cases h4 : nextMarker tr b.2.2.2.1 < tr.size
          · rw [if_pos h4]; exact ⟨hP, by show b.2.2.2.2.2 - 1 < b.2.2.2.2.2; omega⟩
          · rw [if_neg h4]; exact hP
        rw [if_neg h2]
        cases hck : encodeChunkL lim dictSize buf base tr (nextMarker tr b.2.2.2.1) b.1 b.2.2.1 b.2.2.2.1 with
        | error e => trivial
        | ok x =>
          obtain ⟨bytes, off', ti', c', k⟩ := x
          simp only [bind, Except.bind]
          by_cases h5 : off' > L
          · rw [if_pos h5]; trivial
          rw [if_neg h5]
          simp only [pure, Except.pure]
          refine ⟨?_, by show b.2.2.2.2.2 - 1 < b.2.2.2.2.2; omega⟩
          have hprog := encodeChunkL_progress lim dictSize buf base tr _ _ _ _ hck
          rcases hP with ⟨hok, hle, hch⟩ | hbad
          · by_cases hlt : base + b.2.2.1 < buf.size
            · obtain ⟨hc1, hok'⟩ := encodeChunkL_sound lim p dictSize buf base tr _ b.1 b.2.2.1 b.2.2.2.1 hok hlt hck
              left
              refine ⟨hok', chunkOk_off hc1, ?_⟩
              have : (b.2.1.push bytes).toList.flatten = b.2.1.toList.flatten ++ bytes := by simp
              show Chunks p dictSize buf base (cfg0 p base) (b.2.1.push bytes).toList.flatten (cfgOf c' off')
              rw [this]
              exact hch.snoc hc1
            · right
              show buf.size - base < off'
              omega
          · right
            show buf.size - base < off'
            omega
      · rw [if_neg hfuel]; exact hP)
    _ _ s (Nat.le_refl _) hinit hloop
  by_cases hcov : (s.2.2.1 != buf.size - base) = true
  · rw [if_pos hcov] at hrest; cases hrest
  · rw [if_neg hcov] at hrest
    simp only [bne_iff_ne, ne_eq, Decidable.not_not] at hcov
    simp only [pure, Except.pure, Except.ok.injEq] at hrest
    rcases hfin with ⟨_, _, hch⟩ | hbad
    · exact ⟨_, _, hch, hcov, by rw [← hrest]⟩
    · omega

/-- The executable LZMA2 chunker produces a valid chunk sequence covering the data, then the end marker. -/
theorem lzma2Encode_sound (p : Props) (dictSize : Nat) (buf : ByteArray) (base : Nat) (tr : Array TraceRec)
    (res : EncResult) (hbase : base ≤ buf.size) (h : lzma2Encode p dictSize buf base tr = .ok res) :
    ∃ bytes CF, Chunks p dictSize buf base (cfg0 p base) bytes CF ∧ CF.off = buf.size - base ∧ res.out = bytes ++ [0] := by
  rw [lzma2Encode_std] at h; exact lzma2EncodeL_sound .std p dictSize buf base tr res hbase h

end XzVerif.LzmaExec
