/-
  A small Hoare logic for the decoding monad `M = EStateM Exit St` of Model/Lzma.lean, and the frame facts of the
  range-decoder level and of the symbol decoder: what a symbol decode (up to, not including, its output step) can change.
  Used for the coder laws (consumed ≤ input, produced ≤ capacity) and the fuel theorems. Core Lean only.
-/
import XzVerif.Model.Lzma

namespace XzVerif.Lzma
open XzVerif.RangeDec XzVerif.LzDict

/-- What the symbol decoder never touches, and how the input cursor moves. -/
structure Fr (s s' : St) : Prop where
  inp : s'.inp = s.inp
  pos_mono : s.inPos ≤ s'.inPos
  pos_le : s.inPos ≤ s.inp.size → s'.inPos ≤ s'.inp.size
  dp : s'.dp = s.dp
  hist : s'.hist = s.hist
  outBase : s'.outBase = s.outBase
  uncomp : s'.uncomp = s.uncomp
  allowEopm : s'.allowEopm = s.allowEopm
  l2 : s'.l2 = s.l2
  lclppb : s'.lc = s.lc ∧ s'.lp = s.lp ∧ s'.pb = s.pb

theorem Fr.refl (s : St) : Fr s s := ⟨rfl, Nat.le_refl _, id, rfl, rfl, rfl, rfl, rfl, rfl, ⟨rfl, rfl, rfl⟩⟩

theorem Fr.trans {a b c : St} (h1 : Fr a b) (h2 : Fr b c) : Fr a c :=
  ⟨h2.inp.trans h1.inp, Nat.le_trans h1.pos_mono h2.pos_mono, fun h => h2.pos_le (h1.inp ▸ h1.pos_le h),
   h2.dp.trans h1.dp, h2.hist.trans h1.hist, h2.outBase.trans h1.outBase, h2.uncomp.trans h1.uncomp,
   h2.allowEopm.trans h1.allowEopm, h2.l2.trans h1.l2,
   ⟨h2.lclppb.1.trans h1.lclppb.1, h2.lclppb.2.1.trans h1.lclppb.2.1, h2.lclppb.2.2.trans h1.lclppb.2.2⟩⟩

/-- `Sat x Q`: every outcome of `x` (normal or exit) is `Fr`-related to the start state, a normal result satisfies `Q`,
    and `x` never exits with `Exit.fuel`. -/
def Sat {α : Type} (x : M α) (Q : α → Prop) : Prop :=
  ∀ s, Fr s (resSt (x s)) ∧ (∀ a s', x s = .ok a s' → Q a) ∧ (∀ s', x s ≠ .error .fuel s')

/-- frame only -/
abbrev Keeps {α : Type} (x : M α) : Prop := Sat x (fun _ => True)

theorem Sat.weaken {α} {x : M α} {P Q : α → Prop} (h : Sat x P) (hpq : ∀ a, P a → Q a) : Sat x Q :=
  fun s => ⟨(h s).1, fun a s' e => hpq a ((h s).2.1 a s' e), (h s).2.2⟩

theorem Sat.pure {α} (a : α) {Q : α → Prop} (h : Q a) : Sat (pure a : M α) Q := by
  intro s
  refine ⟨Fr.refl s, ?_, ?_⟩
  · intro b s' e
    have : (EStateM.Result.ok a s : EStateM.Result Exit St α) = .ok b s' := e
    injection this with h1 _
    exact h1 ▸ h
  · intro s' e
    have : (EStateM.Result.ok a s : EStateM.Result Exit St α) = .error .fuel s' := e
    cases this

theorem Sat.throw {α} (e : Exit) (he : e ≠ .fuel) {Q : α → Prop} : Sat (throw e : M α) Q := by
  intro s
  refine ⟨Fr.refl s, ?_, ?_⟩
  · intro b s' h
    have : (EStateM.Result.error e s : EStateM.Result Exit St α) = .ok b s' := h
    cases this
  · intro s' h
    have : (EStateM.Result.error e s : EStateM.Result Exit St α) = .error .fuel s' := h
    injection this with h1 _
    exact he h1

theorem Sat.bind {α β} {x : M α} {f : α → M β} {P : α → Prop} {Q : β → Prop}
    (hx : Sat x P) (hf : ∀ a, P a → Sat (f a) Q) : Sat (x >>= f) Q := by
  intro s
  have h1 := hx s
  show Fr s (resSt (EStateM.bind x f s)) ∧ (∀ b s', EStateM.bind x f s = .ok b s' → Q b)
      ∧ (∀ s', EStateM.bind x f s ≠ .error .fuel s')
  unfold EStateM.bind
  cases hxs : x s with
  | ok a s1 =>
    rw [hxs] at h1
    have hp := h1.2.1 a s1 rfl
    have h2 := hf a hp s1
    exact ⟨h1.1.trans h2.1, fun b s' e => h2.2.1 b s' e, h2.2.2⟩
  | error e s1 =>
    rw [hxs] at h1
    refine ⟨h1.1, ?_, ?_⟩
    · intro b s' e'; cases e'
    · intro s' e'; exact h1.2.2 s' (by simpa using e')

/-- a pure read of the state -/
theorem Sat.read {α} (g : St → α) {Q : α → Prop} (h : ∀ s, Q (g s)) :
    Sat (fun s => EStateM.Result.ok (g s) s : M α) Q := by
  intro s
  refine ⟨Fr.refl s, ?_, ?_⟩
  · intro a s' e; injection e with h1 _; exact h1 ▸ h s
  · intro s' e; cases e

/-- a state update that respects the frame -/
theorem Sat.modify (f : St → St) (h : ∀ s, Fr s (f s)) : Sat (modify f : M PUnit) (fun _ => True) := by
  intro s
  refine ⟨h s, fun _ _ _ => trivial, ?_⟩
  intro s' e
  have : (EStateM.Result.ok PUnit.unit (f s) : EStateM.Result Exit St PUnit) = .error .fuel s' := e
  cases this

theorem Sat.ite {α} {c : Prop} [Decidable c] {x y : M α} {Q : α → Prop} (hx : Sat x Q) (hy : Sat y Q) :
    Sat (if c then x else y) Q := by
  split
  · exact hx
  · exact hy

/-! ### range-decoder level -/

theorem sat_rcNormalize : Sat rcNormalize (fun _ => True) := by
  intro s
  refine ⟨?_, fun _ _ _ => trivial, ?_⟩
  · unfold rcNormalize
    split
    · split
      · refine ⟨rfl, ?_, ?_, rfl, rfl, rfl, rfl, rfl, rfl, ⟨rfl, rfl, rfl⟩⟩
        · simp [resSt]
        · intro _; simp only [resSt]; omega
      · exact Fr.refl s
    · exact Fr.refl s
  · intro s' e
    unfold rcNormalize at e
    split at e
    · split at e
      · cases e
      · injection e with h1 _; cases h1
    · cases e

theorem bitCore_bit_le (rc : Rc) (p : Nat) : (bitCore rc p).1 ≤ 1 := by
  unfold bitCore
  dsimp only
  split <;> simp

/-- the decoded bit is 0 or 1 -/
theorem sat_rcBit (idx : Nat) : Sat (rcBit idx) (fun b => b ≤ 1) := by
  intro s
  have h := (sat_rcNormalize s).1
  have hnf := (sat_rcNormalize s).2.2
  unfold rcBit
  cases hn : rcNormalize s with
  | error e s1 =>
    rw [hn] at h
    refine ⟨h, ?_, ?_⟩
    · intro _ _ e'; cases e'
    · intro s' e'
      injection e' with h1 h2
      subst h1; subst h2
      exact hnf _ hn
  | ok a s1 =>
    rw [hn] at h
    refine ⟨h.trans ⟨rfl, Nat.le_refl _, id, rfl, rfl, rfl, rfl, rfl, rfl, ⟨rfl, rfl, rfl⟩⟩, ?_, ?_⟩
    · intro b s' e
      simp only [] at e
      injection e with h1 _
      rw [← h1]
      exact bitCore_bit_le _ _
    · intro s' e; cases e

theorem fr_directStep (s : St) :
    Fr s (let r := directCore (Rc.mk s.range s.code); { s with range := r.2.range, code := r.2.code }) := by
  constructor
  · rfl
  · exact Nat.le_refl _
  · exact id
  · rfl
  · rfl
  · rfl
  · rfl
  · rfl
  · rfl
  · exact ⟨rfl, rfl, rfl⟩

theorem sat_directStep : Sat (fun s : St =>
      let r := directCore (Rc.mk s.range s.code)
      EStateM.Result.ok r.1 { s with range := r.2.range, code := r.2.code } : M Nat) (fun _ => True) := by
  intro s
  refine ⟨fr_directStep s, fun _ _ _ => trivial, ?_⟩
  intro s' e; cases e

theorem sat_rcDirect (n : Nat) : ∀ dest, Sat (rcDirect n dest) (fun _ => True) := by
  induction n with
  | zero => intro dest; exact Sat.pure dest trivial
  | succ n ih =>
    intro dest
    unfold rcDirect
    exact Sat.bind sat_rcNormalize (fun _ _ => Sat.bind sat_directStep (fun b _ => ih _))

theorem sat_bittree (base : Nat) : ∀ n sym, Sat (bittree base n sym) (fun _ => True)
  | 0, sym => Sat.pure sym trivial
  | n + 1, sym => by
    unfold bittree
    exact Sat.bind (sat_rcBit _) (fun b _ => sat_bittree base n _)

theorem sat_litMatched (base : Nat) : ∀ n sym offset len, Sat (litMatched base n sym offset len) (fun _ => True)
  | 0, sym, _, _ => Sat.pure sym trivial
  | n + 1, sym, offset, len => by
    unfold litMatched
    exact Sat.bind (sat_rcBit _) (fun b _ => sat_litMatched base n _ _ _)

theorem sat_revBittree (base : Nat) : ∀ n sym offset acc, Sat (revBittree base n sym offset acc) (fun _ => True)
  | 0, _, _, acc => Sat.pure acc trivial
  | n + 1, sym, offset, acc => by
    unfold revBittree
    exact Sat.bind (sat_rcBit _) (fun b _ => sat_revBittree base n _ _ _)

theorem sat_revAlign : ∀ n sym offset, Sat (revAlign n sym offset) (fun _ => True)
  | 0, sym, _ => Sat.pure sym trivial
  | n + 1, sym, offset => by
    unfold revAlign
    exact Sat.bind (sat_rcBit _) (fun b _ => sat_revAlign n _ _)

/-- decoded lengths are at least MATCH_LEN_MIN -/
theorem sat_lenDecode (lenBase posState : Nat) : Sat (lenDecode lenBase posState) (fun len => 2 ≤ len) := by
  unfold lenDecode
  refine Sat.bind (sat_rcBit _) (fun c _ => ?_)
  split
  · exact Sat.bind (sat_bittree _ _ _) (fun s _ => Sat.pure _ (by simp only [MATCH_LEN_MIN]; omega))
  · refine Sat.bind (sat_rcBit _) (fun c2 _ => ?_)
    split
    · exact Sat.bind (sat_bittree _ _ _) (fun s _ => Sat.pure _ (by simp only [MATCH_LEN_MIN]; omega))
    · exact Sat.bind (sat_bittree _ _ _) (fun s _ => Sat.pure _ (by simp only [MATCH_LEN_MIN]; omega))

theorem sat_distDecode (len : Nat) : Sat (distDecode len) (fun _ => True) := by
  unfold distDecode
  refine Sat.bind (sat_bittree _ _ _) (fun slot1 _ => ?_)
  simp only []
  split
  · exact Sat.pure _ trivial
  · split
    · exact sat_revBittree _ _ _ _ _
    · exact Sat.bind (sat_rcDirect _ _) (fun r _ => Sat.bind (sat_revAlign _ _ _) (fun a _ => Sat.pure _ trivial))

end XzVerif.Lzma
