/-
  C12 ↔ C01, continued: (1) the TRUNCATED form — the bytes written after LZMA_SYNC_FLUSH, as they are (no end marker
  appended), are decoded by the executable LZMA2 decoder to all the input so far, and the decoder stops with LZMA_OK at a
  chunk boundary; (2) histories in which `lzma_filters_update` CHANGES lc/lp/pb: the chunk invariant with C01's chunk
  specification extended by such changes (`ChunksP`, Lemmas/FlushChunksP.lean).
-/
import XzVerif.Lemmas.FlushC01Chunks
import XzVerif.Lemmas.FlushChunksP
import XzVerif.Lemmas.FlushTrunc
import XzVerif.Lemmas.FlushTruncP

namespace XzVerif.FlushC01
open XzVerif XzVerif.Flush XzVerif.Lzma XzVerif.LzmaSym XzVerif.LzmaSpec XzVerif.LzmaExec XzVerif.Lzma2Enc

/-- from the chunk invariant of a fully flushed encoder to the executable LZMA2 decoder, WITHOUT an end marker:
    everything is decoded, everything is consumed, the decoder waits for the next chunk (LZMA_OK) -/
theorem chunkInv_decodes_trunc (dictSize : Nat) (hd : dictSize ≤ 4294967295) (p0 : Flush.Props) (hp : p0.valid = true)
    {l : L2 St} {bytes : Bytes} (h : ChunkInv p0 dictSize l bytes) (hun : l.unenc = []) (cap : Nat) (hcap : l.hist.length < cap) :
    Lzma2.lzma2Decode dictSize bytes [] cap = { ret := .ok, out := l.hist, consumed := bytes.length } := by
  have hpo : PropsOk (toProps p0) := by
    simp only [Flush.Props.valid, Bool.and_eq_true, decide_eq_true_eq] at hp
    exact ⟨hp.1.2, hp.2⟩
  have hbuf : (hl (ByteArray.mk l.hist.toArray)).take (l.hist.length + l.unenc.length) = l.hist ++ l.unenc := by
    rw [hl_mk, hun]; simp
  have hch := h.2 _ hbuf
  have hsz : (ByteArray.mk l.hist.toArray).size = l.hist.length := by rw [← hl_length, hl_mk]
  have := lzma2Decode_of_chunks_trunc (toProps p0) hpo dictSize hd (ByteArray.mk l.hist.toArray) bytes _ hch
    (by simp [cfgOfL2, hsz]) cap (by rw [hsz]; exact hcap)
  simpa [hl_mk] using this

/-! ## lc/lp/pb changes -/

theorem propsOk_of_valid {p : Flush.Props} (hp : p.valid = true) : PropsOk (toProps p) := by
  simp only [Flush.Props.valid, Bool.and_eq_true, decide_eq_true_eq] at hp
  exact ⟨hp.1.2, hp.2⟩

/-- `ChunkInv` with changes of lc/lp/pb: for every data buffer that starts with the bytes taken so far, `out` is a valid
    chunk sequence (in the sense of `ChunksP`) from the initial configuration with `p0` to the encoder's current
    configuration with the encoder's current lc/lp/pb. -/
def ChunkInvP (sw : Bool) (p0 : Flush.Props) (dictSize : Nat) (l : L2 St) (out : Bytes) : Prop :=
  ∀ buf : ByteArray, (hl buf).take (l.hist.length + l.unenc.length) = l.hist ++ l.unenc →
    ChunksP dictSize buf 0 sw (toProps p0) (cfg0 (toProps p0) 0) out (toProps l.opt) (cfgOfL2 l)

theorem ChunkInv.toP {p0 : Flush.Props} {dictSize : Nat} {l : L2 St} {out : Bytes} (h : ChunkInv p0 dictSize l out) :
    ChunkInvP false p0 dictSize l out := by
  intro buf hbuf
  rw [h.1]
  exact ChunksP.ofChunks (h.2 buf hbuf)

theorem ChunkInvP.toChunkInv {p0 : Flush.Props} {dictSize : Nat} {l : L2 St} {out : Bytes} (h : ChunkInvP false p0 dictSize l out)
    (hopt : l.opt = p0) : ChunkInv p0 dictSize l out :=
  ⟨hopt, fun buf hbuf => (h buf hbuf).toChunks.2⟩

theorem ChunkInvP.init (p0 : Flush.Props) (dictSize : Nat) (P : Parser) :
    ChunkInvP false p0 dictSize (L2.init (lzmaCodec dictSize P) p0) [] := (ChunkInv.init p0 dictSize P).toP

theorem ChunkInvP.feed {sw : Bool} {p0 : Flush.Props} {dictSize : Nat} {l : L2 St} {out : Bytes}
    (h : ChunkInvP sw p0 dictSize l out) (inp : Bytes) : ChunkInvP sw p0 dictSize { l with unenc := l.unenc ++ inp } out := by
  intro buf hbuf
  exact h buf (by
    have := congrArg (List.take (l.hist.length + l.unenc.length)) hbuf
    simp only [List.length_append, List.take_take] at this
    rw [Nat.min_eq_left (by omega)] at this
    rw [this, ← List.append_assoc, List.take_append_of_le_length (by simp), List.take_of_length_le (by simp)])

theorem closeChunks_chunksP (dictSize : Nat) (hd : dictSize ≤ 4294967295) (P : Parser) (hS : (lzmaCodec dictSize P).Sound)
    (sw : Bool) (p0 : Flush.Props) (fl : Bool) : ∀ (fuel : Nat) (l : L2 St) (out : Bytes), ChunkInvP sw p0 dictSize l out →
      ChunkInvP sw p0 dictSize (L2.closeChunks (lzmaCodec dictSize P) fl fuel l).1
        (out ++ (L2.closeChunks (lzmaCodec dictSize P) fl fuel l).2) := by
  intro fuel
  induction fuel with
  | zero => intro l out h; simpa [L2.closeChunks] using h
  | succ fuel ih =>
    intro l out h
    unfold L2.closeChunks
    by_cases he : l.unenc.isEmpty = true
    · simp only [he, if_true]; simpa using h
    · simp only [he]
      cases hch : (lzmaCodec dictSize P).choose fl l.opt (l.startState (lzmaCodec dictSize P)) l.hist l.unenc with
      | none => simp only [Bool.false_eq_true, if_false]; simpa using h
      | some pr =>
        obtain ⟨ch, st1⟩ := pr
        have hwf := hS.wf _ _ _ _ _ _ _ hch
        have hn0 : ¬ ch.n = 0 := by omega
        simp only [Bool.false_eq_true, if_false, hn0]
        obtain ⟨f1, f2, f3⟩ := emit_fields (l := l) (l.startState (lzmaCodec dictSize P)) ch st1
        have hnext : ChunkInvP sw p0 dictSize (l.emit (l.startState (lzmaCodec dictSize P)) ch st1).1
            (out ++ (l.emit (l.startState (lzmaCodec dictSize P)) ch st1).2) := by
          intro buf hbuf
          have hsame : (l.emit (l.startState (lzmaCodec dictSize P)) ch st1).1.hist ++ (l.emit (l.startState (lzmaCodec dictSize P)) ch st1).1.unenc
              = l.hist ++ l.unenc := by rw [f2, f3, List.append_assoc, List.take_append_drop]
          have hlen : (l.emit (l.startState (lzmaCodec dictSize P)) ch st1).1.hist.length + (l.emit (l.startState (lzmaCodec dictSize P)) ch st1).1.unenc.length
              = l.hist.length + l.unenc.length := by
            have := congrArg List.length hsame; simpa using this
          rw [hlen, hsame] at hbuf
          have hok := emit_chunkOk dictSize hd P hS l hch buf hbuf
          rw [f1]
          exact ChunksP.snoc (h buf hbuf) hok
        have := ih _ _ hnext
        simpa [List.append_assoc] using this

/-- `L2.code` in terms of the chunk loop, lc/lp/pb changes allowed before -/
theorem l2_code_chunksP (dictSize : Nat) (hd : dictSize ≤ 4294967295) (P : Parser) (hS : (lzmaCodec dictSize P).Sound)
    (sw : Bool) (p0 : Flush.Props) {l : L2 St} {out : Bytes} (h : ChunkInvP sw p0 dictSize l out) (inp : Bytes) (a : Action) :
    (a ≠ .finish → ChunkInvP sw p0 dictSize (l.code (lzmaCodec dictSize P) inp a).1 (out ++ (l.code (lzmaCodec dictSize P) inp a).2.1)) ∧
    (a = .finish → (l.code (lzmaCodec dictSize P) inp a).2.2 = .streamEnd →
      ∃ bytes, out ++ (l.code (lzmaCodec dictSize P) inp a).2.1 = bytes ++ [0] ∧
        ChunkInvP sw p0 dictSize (l.code (lzmaCodec dictSize P) inp a).1 bytes) := by
  have h0 := h.feed inp
  have hcc := closeChunks_chunksP dictSize hd P hS sw p0 (lzFlushing a true) ((l.unenc ++ inp).length + 1) _ out h0
  obtain ⟨cc, hcce⟩ : ∃ cc, L2.closeChunks (lzmaCodec dictSize P) (lzFlushing a true) ((l.unenc ++ inp).length + 1)
      { l with unenc := l.unenc ++ inp } = cc := ⟨_, rfl⟩
  rw [hcce] at hcc
  rw [L2.code_eq _ l inp a cc hcce]
  obtain ⟨l1, o1⟩ := cc
  simp only at hcc ⊢
  by_cases hne : (!l1.unenc.isEmpty) = true
  · rw [if_pos hne]
    refine ⟨fun _ => hcc, fun haf hret => ?_⟩
    subst haf
    simp at hret
  · rw [if_neg hne]
    constructor
    · intro hanf
      have : (lzma2SeqInitNoInput a).2 = false := by cases a <;> simp [lzma2SeqInitNoInput] at hanf ⊢
      simp only [this, Bool.false_eq_true, if_false]; exact hcc
    · intro haf _
      subst haf
      have : (lzma2SeqInitNoInput Action.finish).2 = true := rfl
      simp only [this, if_true]
      exact ⟨out ++ o1, by simp [List.append_assoc], hcc⟩

/-- `lzma2_encoder_options_update`: accepted new lc/lp/pb are a switch step of the specification -/
theorem optionsUpdate_chunksP {sw : Bool} {p0 : Flush.Props} {dictSize : Nat} {l : L2 St} {out : Bytes}
    (h : ChunkInvP sw p0 dictSize l out) (p : Flush.Props) :
    ∃ sw', ChunkInvP sw' p0 dictSize (l.optionsUpdate p).1 out := by
  unfold L2.optionsUpdate
  by_cases h1 : (!l.atSeqInit) = true
  · rw [if_pos h1]; exact ⟨sw, h⟩
  · rw [if_neg h1]
    by_cases h2 : (l.opt != p) = true
    · rw [if_pos h2]
      by_cases h3 : (!p.valid) = true
      · rw [if_pos h3]; exact ⟨sw, h⟩
      · rw [if_neg h3]
        have hv : p.valid = true := by simpa using h3
        refine ⟨true, fun buf hbuf => ?_⟩
        exact (h buf hbuf).snocSwitch (toProps p) (propsOk_of_valid hv)
    · rw [if_neg h2]; exact ⟨sw, h⟩

theorem RawEnc.update_l2_cases {σ : Type} (r : RawEnc σ) (fs : Chain) :
    (r.update fs).1.l2 = r.l2 ∨ ∃ p, (r.update fs).1.l2 = (r.l2.optionsUpdate p).1 := by
  unfold RawEnc.update
  cases hrev : fs.reverse with
  | nil => exact Or.inl rfl
  | cons f rest =>
    simp only
    by_cases h1 : r.isLzma1 = true
    · simp [h1]
    · simp only [h1, Bool.false_eq_true, if_false]
      split
      · exact Or.inl rfl
      · exact Or.inr ⟨f.props, rfl⟩

/-- `RawChunkInv` without the restriction to lc/lp/pb-preserving updates -/
structure RawChunkInvP (dictSize : Nat) (P : Parser) (p0 : Flush.Props) (e : Enc St) (t : Trace) : Prop where
  raw : RawInv (lzmaEnv dictSize P) e t
  running : e.finished = false → ∃ r sw, e.core = .raw r ∧ ChunkInvP sw p0 dictSize r.l2 (bodies t.segs)
  ended : e.finished = true → ∃ bytes l sw, bodies t.segs = bytes ++ [0] ∧ ChunkInvP sw p0 dictSize l bytes ∧ l.unenc = [] ∧ l.hist = t.input

theorem RawChunkInvP.step (dictSize : Nat) (hd : dictSize ≤ 4294967295) (P : Parser) (hS : (lzmaCodec dictSize P).Sound)
    (p0 : Flush.Props) {e : Enc St} {t : Trace} (h : RawChunkInvP dictSize P p0 e t) (op : Flush.Op) :
    RawChunkInvP dictSize P p0 (Enc.exec (lzmaEnv dictSize P) (e, t) op).1 (Enc.exec (lzmaEnv dictSize P) (e, t) op).2 := by
  have hE : ∀ i, ((lzmaEnv dictSize P).codec i).Sound := fun _ => hS
  have hraw' := RawInv.step hE h.raw op
  obtain ⟨⟨r, hcore, hok⟩, hsup, halive⟩ := h.raw
  have hcodec : (lzmaEnv dictSize P).codec 0 = lzmaCodec dictSize P := rfl
  cases op with
  | update fs =>
    by_cases hm : memusageOk fs = true
    · refine ⟨hraw', ?_, ?_⟩
      · simp only [Enc.exec, Enc.step, Enc.updateOp, Flush.Op.data, List.take_nil, List.append_nil, hm, Bool.not_true,
          Bool.false_eq_true, if_false, hcore]
        intro hf
        obtain ⟨r0, sw, hc0, hci⟩ := h.running hf
        rw [hcore] at hc0; cases hc0
        rcases RawEnc.update_l2_cases r fs with he | ⟨p, he⟩
        · exact ⟨_, sw, rfl, by rw [he]; exact hci⟩
        · obtain ⟨sw', hci'⟩ := optionsUpdate_chunksP hci p
          exact ⟨_, sw', rfl, by rw [he]; exact hci'⟩
      · simp only [Enc.exec, Enc.step, Enc.updateOp, Flush.Op.data, List.take_nil, List.append_nil, hm, Bool.not_true,
          Bool.false_eq_true, if_false, hcore]
        intro hf; exact h.ended hf
    · refine ⟨hraw', ?_, ?_⟩
      · simp only [Enc.exec, Enc.step, Enc.updateOp, Flush.Op.data, List.take_nil, List.append_nil, hm, Bool.not_false, if_true]
        intro hf; exact h.running hf
      · simp only [Enc.exec, Enc.step, Enc.updateOp, Flush.Op.data, List.take_nil, List.append_nil, hm, Bool.not_false, if_true]
        intro hf; exact h.ended hf
  | code a data =>
    by_cases hs : e.supported.testBit a.code = true
    · by_cases hfin : e.finished = true
      · refine ⟨hraw', ?_, ?_⟩
        · simp only [Enc.exec, Enc.step, Enc.codeOp, halive, Bool.false_eq_true, if_false, Flush.Op.data, hs, Bool.not_true,
            hfin, if_true, List.take_zero, List.append_nil]
          intro hf; cases hf
        · simp only [Enc.exec, Enc.step, Enc.codeOp, halive, Bool.false_eq_true, if_false, Flush.Op.data, hs, Bool.not_true,
            hfin, if_true, List.take_zero, List.append_nil]
          intro _; exact h.ended hfin
      · have hfin' : e.finished = false := by simpa using hfin
        obtain ⟨r0, sw, hc0, hci⟩ := h.running hfin'
        rw [hcore] at hc0; cases hc0
        obtain ⟨d, hd0, hag, hh⟩ := hok.running hfin' []
        rw [hcodec] at hag
        obtain ⟨c1, _, c3, c4, _, _⟩ := l2_code_spec hS r.l2 d hag data a []
        obtain ⟨k1, k2⟩ := l2_code_chunksP dictSize hd P hS sw p0 hci data a
        have hex : Enc.exec (lzmaEnv dictSize P) (e, t) (.code a data) =
            ({ e with core := .raw { r with l2 := (r.l2.code (lzmaCodec dictSize P) data a).1 },
                      dead := (r.l2.code (lzmaCodec dictSize P) data a).2.2 != .ok && (r.l2.code (lzmaCodec dictSize P) data a).2.2 != .streamEnd,
                      finished := (r.l2.code (lzmaCodec dictSize P) data a).2.2 == .streamEnd && a == .finish },
             { segs := t.segs ++ [Seg.body (r.l2.code (lzmaCodec dictSize P) data a).2.1], input := t.input ++ data,
               rets := t.rets ++ [(r.l2.code (lzmaCodec dictSize P) data a).2.2] }) := by
          simp only [Enc.exec, Enc.step, Enc.codeOp, halive, Bool.false_eq_true, if_false, Flush.Op.data, hs, Bool.not_true,
            hfin', hcore]
          rw [RawEnc.code_sync (lzmaEnv dictSize P) ((lzmaEnv dictSize P).codec 0) r hok.lzma2 hok.pre data a]
          simp [hcodec]
        rw [hex] at hraw' ⊢
        refine ⟨hraw', ?_, ?_⟩
        · simp only [bodies_append, bodies_body]
          intro hf
          by_cases haf : a = .finish
          · subst haf
            obtain ⟨hret, _⟩ := c4 (by decide)
            simp [hret] at hf
          · exact ⟨_, sw, rfl, k1 haf⟩
        · simp only [bodies_append, bodies_body]
          intro hf
          have haf : a = .finish := by
            by_contra hne
            have : (a == Action.finish) = false := by cases a <;> simp at hne ⊢
            simp [this] at hf
          subst haf
          obtain ⟨hret, hun⟩ := c4 (by decide)
          obtain ⟨bytes, hb, hcb⟩ := k2 rfl hret
          refine ⟨bytes, _, sw, hb, hcb, hun, ?_⟩
          rw [hun, List.append_nil] at c1
          rw [c1, hh]
    · refine ⟨hraw', ?_, ?_⟩
      · simp only [Enc.exec, Enc.step, Enc.codeOp, halive, Bool.false_eq_true, if_false, Flush.Op.data, hs, Bool.not_false,
          if_true, List.take_zero, List.append_nil]
        intro hf; exact h.running hf
      · simp only [Enc.exec, Enc.step, Enc.codeOp, halive, Bool.false_eq_true, if_false, Flush.Op.data, hs, Bool.not_false,
          if_true, List.take_zero, List.append_nil]
        intro hf; exact h.ended hf

theorem RawChunkInvP.execAll (dictSize : Nat) (hd : dictSize ≤ 4294967295) (P : Parser) (hS : (lzmaCodec dictSize P).Sound)
    (p0 : Flush.Props) : ∀ (ops : List Flush.Op) (e : Enc St) (t : Trace),
      RawChunkInvP dictSize P p0 e t →
      RawChunkInvP dictSize P p0 (ops.foldl (Enc.exec (lzmaEnv dictSize P)) (e, t)).1 (ops.foldl (Enc.exec (lzmaEnv dictSize P)) (e, t)).2
  | [], e, t, h => h
  | op :: rest, e, t, h => by
    simp only [List.foldl_cons]
    exact RawChunkInvP.execAll dictSize hd P hS p0 rest _ _ (RawChunkInvP.step dictSize hd P hS p0 h op)

theorem RawChunkInvP.init (dictSize : Nat) (P : Parser) {fs : Chain} (hfs : SyncChain fs) :
    RawChunkInvP dictSize P (lastProps fs) (Enc.rawInit (lzmaEnv dictSize P) fs) {} := by
  refine ⟨RawInv.init _ hfs, fun _ => ⟨_, false, rfl, ?_⟩, fun h => by cases h⟩
  exact ChunkInvP.init (lastProps fs) dictSize P

/-- from the chunk invariant WITH lc/lp/pb changes of a fully flushed encoder to the executable LZMA2 decoder: with the end
    marker appended the decoder ends with LZMA_STREAM_END, ... -/
theorem chunkInvP_decodes (dictSize : Nat) (hd : dictSize ≤ 4294967295) (p0 : Flush.Props) (hp : p0.valid = true) {sw : Bool}
    {l : L2 St} {bytes : Bytes} (h : ChunkInvP sw p0 dictSize l bytes) (hun : l.unenc = []) (cap : Nat) (hcap : l.hist.length < cap) :
    Lzma2.lzma2Decode dictSize (bytes ++ [0]) [] cap = { ret := .streamEnd, out := l.hist, consumed := bytes.length + 1 } := by
  have hbuf : (hl (ByteArray.mk l.hist.toArray)).take (l.hist.length + l.unenc.length) = l.hist ++ l.unenc := by
    rw [hl_mk, hun]; simp
  have hch := h _ hbuf
  have hsz : (ByteArray.mk l.hist.toArray).size = l.hist.length := by rw [← hl_length, hl_mk]
  have := lzma2Decode_of_chunksP (toProps p0) (propsOk_of_valid hp) dictSize hd (ByteArray.mk l.hist.toArray) sw bytes _ _ hch
    (by simp [cfgOfL2, hsz]) cap (by rw [hsz]; exact hcap)
  simpa [hl_mk] using this

/-- ... and as they are (no end marker) it decodes everything, consumes everything and waits at the chunk boundary -/
theorem chunkInvP_decodes_trunc (dictSize : Nat) (hd : dictSize ≤ 4294967295) (p0 : Flush.Props) (hp : p0.valid = true) {sw : Bool}
    {l : L2 St} {bytes : Bytes} (h : ChunkInvP sw p0 dictSize l bytes) (hun : l.unenc = []) (cap : Nat) (hcap : l.hist.length < cap) :
    Lzma2.lzma2Decode dictSize bytes [] cap = { ret := .ok, out := l.hist, consumed := bytes.length } := by
  have hbuf : (hl (ByteArray.mk l.hist.toArray)).take (l.hist.length + l.unenc.length) = l.hist ++ l.unenc := by
    rw [hl_mk, hun]; simp
  have hch := h _ hbuf
  have hsz : (ByteArray.mk l.hist.toArray).size = l.hist.length := by rw [← hl_length, hl_mk]
  have := lzma2Decode_of_chunksP_trunc (toProps p0) (propsOk_of_valid hp) dictSize hd (ByteArray.mk l.hist.toArray) sw bytes _ _ hch
    (by simp [cfgOfL2, hsz]) cap (by rw [hsz]; exact hcap)
  simpa [hl_mk] using this

end XzVerif.FlushC01

namespace XzVerif.Flush

/-- an operation that is not LZMA_FINISH -/
def Op.notFinish : Op → Bool
  | .code a _ => a != .finish
  | .update _ => true

/-- only LZMA_FINISH finishes an encoder -/
theorem Enc.step_finished {σ : Type} (E : Env σ) (e : Enc σ) (op : Op) (hf : e.finished = false) (hop : op.notFinish = true) :
    (e.step E op).1.finished = false := by
  cases op with
  | update fs =>
    simp only [Enc.step, Enc.updateOp]
    split
    · exact hf
    · cases e.core <;> exact hf
  | code a d =>
    have ha : (a == Action.finish) = false := by
      simp only [Op.notFinish, bne_iff_ne, ne_eq] at hop
      cases a <;> simp at hop ⊢
    simp only [Enc.step, Enc.codeOp]
    split
    · exact hf
    · split
      · exact hf
      · split
        · exact hf
        · simp [ha]

theorem Enc.execAll_finished {σ : Type} (E : Env σ) : ∀ (ops : List Op) (et : Enc σ × Trace), et.1.finished = false →
    (∀ op ∈ ops, op.notFinish = true) → (ops.foldl (Enc.exec E) et).1.finished = false
  | [], _, hf, _ => hf
  | op :: rest, et, hf, hk => by
    simp only [List.foldl_cons]
    exact Enc.execAll_finished E rest _ (Enc.step_finished E et.1 op hf (hk op List.mem_cons_self))
      (fun o ho => hk o (List.mem_cons_of_mem _ ho))

end XzVerif.Flush
