/-
  CLMUL CRC64: folding by 128 bits (kernel-evaluated basis check, see CrcClmulId64.lean).
-/
import XzVerif.Lemmas.CrcClmulId64
namespace XzVerif.Clmul
open XzVerif.Crc

/-- folding by 128 bits: `fold(v, fold128) ≡ v·x^128`. -/
theorem fold128_64_eq (v : V) : stepN P64' 128 (fold v p64.fold128) = stepN P64' 256 v := by
  refine basisAll_sound (Lin.comp (lin_fold _) (lin_stepN P64' 128)) (lin_stepN P64' 256) ?_ v
  rw [p64_eq]; decide +kernel

end XzVerif.Clmul
