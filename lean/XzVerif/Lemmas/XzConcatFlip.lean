/-
  Single-bit damage under LZMA_CONCATENATED: lifting the single-Stream theorems (`streamHeaderDecode_flip`,
  `streamOne_blocks_flip`, `streamOne_index_footer_flip`) to any Stream of a concatenated file, and Stream Padding.

  `XzBit E fl first inp cap i` locates bit `i` of `inp` (read by `xzLoop` with `first_stream = first`):
    * `here`    — inside the Stream at the front, at a position where the single-Stream decoder is known to reject the flip;
    * `padding` — inside the zero bytes of the Stream Padding that follows the Stream at the front;
    * `later`   — in a later Stream / its padding (recursively), after a padding that is a multiple of four bytes.
  `xzLoop_flip`: in all three cases the flipped input is not accepted.
  Kernel proofs, core Lean only.
-/
import XzVerif.Lemmas.XzLocal
import XzVerif.Lemmas.XzFlip

namespace XzVerif.XzDecode
open XzVerif XzVerif.Vli XzVerif.Container XzVerif.CrcFlip

/-! ### small facts -/

theorem streamHeaderDecode_head (x : List UInt8) (hdr : StreamFlags) (h : streamHeaderDecode x = .ok hdr) :
    x.head? = some 0xFD := by
  unfold streamHeaderDecode at h
  split at h
  · cases h
  · split at h
    · cases h
    · rename_i hm
      have hm' : x.take 6 = HEADER_MAGIC := Decidable.of_not_not hm
      cases x with
      | nil => simp [HEADER_MAGIC] at hm'
      | cons a t =>
        simp only [HEADER_MAGIC, List.take_succ_cons, List.cons.injEq] at hm'
        simp [hm'.1]

/-- a Stream cannot start with a byte other than 0xFD -/
theorem streamOne_bad_first_byte (E : Env) (fl : Flags) (b : UInt8) (t : List UInt8) (cap : Nat) (hb : b ≠ 0xFD) :
    (streamOne E fl false (b :: t) cap).ret ≠ .streamEnd := by
  intro hc
  obtain ⟨hdr, _, _, _, _, hh, _⟩ := streamOne_streamEnd E fl false (b :: t) cap _ rfl hc
  have := streamHeaderDecode_head _ hdr hh
  simp only [STREAM_HEADER_SIZE, List.take_succ_cons, List.head?_cons, Option.some.injEq] at this
  exact hb this

theorem streamOne_head (E : Env) (fl : Flags) (first : Bool) (inp : List UInt8) (cap : Nat)
    (h : (streamOne E fl first inp cap).ret = .streamEnd) : inp.head? = some 0xFD := by
  obtain ⟨hdr, _, _, _, hl, hh, _⟩ := streamOne_streamEnd E fl first inp cap _ rfl h
  have := streamHeaderDecode_head _ hdr hh
  cases inp with
  | nil => simp [STREAM_HEADER_SIZE] at hl
  | cons a t => simpa [STREAM_HEADER_SIZE] using this

theorem streamOne_consumed_le (E : Env) (fl : Flags) (first : Bool) (inp : List UInt8) (cap : Nat)
    (h : (streamOne E fl first inp cap).ret = .streamEnd) : (streamOne E fl first inp cap).consumed ≤ inp.length := by
  obtain ⟨_, _, _, _, _, _, _, _, _, hle⟩ := streamOne_streamEnd E fl first inp cap _ rfl h
  exact hle

theorem xzLoop_ne_of_streamOne (E : Env) (fl : Flags) (fuel : Nat) (first : Bool) (inp : List UInt8) (cap : Nat)
    (h : (streamOne E fl first inp cap).ret ≠ .streamEnd) : (xzLoop E fl fuel first inp cap).ret ≠ .streamEnd := by
  cases fuel with
  | zero => simp [xzLoop]
  | succ f => rw [xzLoop_of_not_streamEnd E fl f first inp cap h]; exact h

/-- a zero byte with one bit flipped is neither zero nor the first magic byte -/
theorem flipped_zero (j : Nat) : (0 : UInt8) ^^^ UInt8.ofNat (1 <<< (j % 8)) ≠ 0 ∧ (0 : UInt8) ^^^ UInt8.ofNat (1 <<< (j % 8)) ≠ 0xFD := by
  have h : j % 8 = 0 ∨ j % 8 = 1 ∨ j % 8 = 2 ∨ j % 8 = 3 ∨ j % 8 = 4 ∨ j % 8 = 5 ∨ j % 8 = 6 ∨ j % 8 = 7 := by omega
  rcases h with h | h | h | h | h | h | h | h <;> rw [h] <;> decide

theorem flipped_magic (j : Nat) : (0xFD : UInt8) ^^^ UInt8.ofNat (1 <<< (j % 8)) ≠ 0 := by
  have h : j % 8 = 0 ∨ j % 8 = 1 ∨ j % 8 = 2 ∨ j % 8 = 3 ∨ j % 8 = 4 ∨ j % 8 = 5 ∨ j % 8 = 6 ∨ j % 8 = 7 := by omega
  rcases h with h | h | h | h | h | h | h | h <;> rw [h] <;> decide

theorem flipBit_getD_eq (b : List UInt8) (i : Nat) (h : i / 8 < b.length) :
    (flipBit b i).getD (i / 8) 0 = b.getD (i / 8) 0 ^^^ UInt8.ofNat (1 <<< (i % 8)) := by
  unfold flipBit
  simp only [List.getD_eq_getElem?_getD, List.getElem?_modify_eq]
  rw [List.getElem?_eq_getElem h]
  rfl

/-! ### Stream Padding with one bit flipped -/

/-- flipping a bit of the `k`-th byte of a run of at least `k + 1` zero bytes: the scan stops there -/
theorem streamPadding_flip_zero : ∀ (k : Nat) (l : List UInt8) (pos n j : Nat), pos < 4 →
    (∀ m, m ≤ k → l.getD m 1 = 0) →
    streamPadding (flipBit l (8 * k + j % 8)) pos n =
      if (pos + k) % 4 ≠ 0 then .inl (.dataError, n + k + 1) else .inr (n + k)
  | 0, l, pos, n, j, hpos, hz => by
    cases l with
    | nil => have := hz 0 (Nat.le_refl _); simp at this
    | cons a t =>
      have ha : a = 0 := by simpa using hz 0 (Nat.le_refl _)
      subst ha
      have e : flipBit ((0 : UInt8) :: t) (8 * 0 + j % 8) = ((0 : UInt8) ^^^ UInt8.ofNat (1 <<< (j % 8))) :: t := by
        unfold flipBit
        have h1 : (8 * 0 + j % 8) / 8 = 0 := by omega
        have h2 : (8 * 0 + j % 8) % 8 = j % 8 := by omega
        rw [h1, h2]; rfl
      rw [e]
      simp only [streamPadding]
      rw [if_neg (flipped_zero j).1]
      by_cases hp : pos = 0
      · subst hp; simp
      · have : (pos + 0) % 4 ≠ 0 := by omega
        rw [if_pos hp, if_pos this]
  | k + 1, l, pos, n, j, hpos, hz => by
    cases l with
    | nil => have := hz 0 (Nat.zero_le _); simp at this
    | cons a t =>
      have ha : a = 0 := by simpa using hz 0 (Nat.zero_le _)
      subst ha
      have e : flipBit ((0 : UInt8) :: t) (8 * (k + 1) + j % 8) = (0 : UInt8) :: flipBit t (8 * k + j % 8) := by
        unfold flipBit
        have h1 : (8 * (k + 1) + j % 8) / 8 = k + 1 := by omega
        have h2 : (8 * (k + 1) + j % 8) % 8 = j % 8 := by omega
        have h3 : (8 * k + j % 8) / 8 = k := by omega
        have h4 : (8 * k + j % 8) % 8 = j % 8 := by omega
        rw [h1, h2, h3, h4, List.modify_succ_cons]
      rw [e]
      simp only [streamPadding, if_true]
      rw [streamPadding_flip_zero k t ((pos + 1) % 4) (n + 1) j (Nat.mod_lt _ (by decide))
        (fun m hm => by have := hz (m + 1) (by omega); simpa using this)]
      have h5 : ((pos + 1) % 4 + k) % 4 = (pos + (k + 1)) % 4 := by omega
      rw [h5]
      have h6 : n + 1 + k = n + (k + 1) := by omega
      rw [h6]

/-- the padding scan only looks at the zero bytes and the first non-zero byte -/
theorem streamPadding_inr_local : ∀ (l l' : List UInt8) (pos n0 n : Nat), streamPadding l pos n0 = .inr n →
    l'.take (n - n0) = l.take (n - n0) → l'.getD (n - n0) 0 ≠ 0 → streamPadding l' pos n0 = .inr n
  | [], l', pos, n0, n, h, _, _ => by simp [streamPadding] at h
  | b :: t, l', pos, n0, n, h, ht, hne => by
    simp only [streamPadding] at h
    by_cases hb : b = 0
    · rw [if_pos hb] at h
      subst hb
      -- n ≥ n0 + 1
      have hge : n0 + 1 ≤ n := by
        have := (streamPadding_facts t ((pos + 1) % 4) (n0 + 1)).2 n h (Nat.mod_lt _ (by decide))
        exact this.1
      cases l' with
      | nil =>
        have := congrArg List.length ht
        simp only [List.take_nil, List.length_nil, List.length_take, List.length_cons] at this
        omega
      | cons b' t' =>
        have e : n - n0 = (n - (n0 + 1)) + 1 := by omega
        rw [e, List.take_succ_cons, List.take_succ_cons] at ht
        simp only [List.cons.injEq] at ht
        rw [e] at hne
        simp only [List.getD_cons_succ] at hne
        simp only [streamPadding]
        rw [if_pos ht.1]
        exact streamPadding_inr_local t t' _ _ n h ht.2 hne
    · rw [if_neg hb] at h
      by_cases hp : pos ≠ 0
      · rw [if_pos hp] at h; cases h
      · rw [if_neg hp] at h
        simp only [Sum.inr.injEq] at h
        subst h
        simp only [Nat.sub_self, List.take_zero] at ht hne
        cases l' with
        | nil => simp at hne
        | cons b' t' =>
          simp only [List.getD_cons_zero] at hne
          simp only [streamPadding]
          rw [if_neg hne, if_neg hp]

/-! ### locating a bit in a concatenated file -/

inductive XzBit (E : Env) (fl : Flags) : Bool → List UInt8 → Nat → Nat → Prop
  | here (first : Bool) (inp : List UInt8) (cap i : Nat) :
      (streamOne E fl first (flipBit inp i) cap).ret ≠ .streamEnd → XzBit E fl first inp cap i
  | padding (first : Bool) (inp : List UInt8) (cap i z : Nat) (tail : List UInt8) :
      (streamOne E fl first inp cap).ret = .streamEnd → fl.concatenated = true →
      inp.drop (streamOne E fl first inp cap).consumed = List.replicate z 0 ++ tail →
      8 * (streamOne E fl first inp cap).consumed ≤ i → i < 8 * ((streamOne E fl first inp cap).consumed + z) →
      XzBit E fl first inp cap i
  | later (first : Bool) (inp : List UInt8) (cap n j : Nat) :
      (streamOne E fl first inp cap).ret = .streamEnd → fl.concatenated = true →
      streamPadding (inp.drop (streamOne E fl first inp cap).consumed) 0 0 = .inr n →
      (streamOne E fl false (inp.drop ((streamOne E fl first inp cap).consumed + n))
        (cap - (streamOne E fl first inp cap).out.length)).ret = .streamEnd →
      XzBit E fl false (inp.drop ((streamOne E fl first inp cap).consumed + n))
        (cap - (streamOne E fl first inp cap).out.length) j →
      XzBit E fl first inp cap (8 * ((streamOne E fl first inp cap).consumed + n) + j)

theorem streamOne_flip_after (E : Env) (hloc : PayloadLocal E) (hbd : PayloadBounded E) (fl : Flags) (first : Bool)
    (inp : List UInt8) (cap i : Nat) (hs : (streamOne E fl first inp cap).ret = .streamEnd)
    (hi : 8 * (streamOne E fl first inp cap).consumed ≤ i) :
    streamOne E fl first (flipBit inp i) cap = streamOne E fl first inp cap := by
  apply streamOne_local E hloc hbd fl first inp _ cap hs
  rw [flipBit_take, flipBit_out_of_range]
  rw [List.length_take]
  omega

/-- **Single-bit damage in a concatenated file.**  A flip at a located bit (`XzBit`) makes the whole decode fail, whatever the
    loop fuel. -/
theorem xzLoop_flip (E : Env) (hloc : PayloadLocal E) (hbd : PayloadBounded E) (fl : Flags)
    {first : Bool} {inp : List UInt8} {cap i : Nat} (hbit : XzBit E fl first inp cap i) :
    ∀ fuel, (xzLoop E fl fuel first (flipBit inp i) cap).ret ≠ .streamEnd := by
  induction hbit with
  | here first inp cap i h => intro fuel; exact xzLoop_ne_of_streamOne E fl fuel first _ cap h
  | padding first inp cap i z tail hs hc hrest hlo hhi =>
    intro fuel
    cases fuel with
    | zero => simp [xzLoop]
    | succ f =>
      have hsame := streamOne_flip_after E hloc hbd fl first inp cap i hs hlo
      simp only [xzLoop]
      rw [hsame, if_neg (by rw [hs]; simp), if_neg (by simp [hc])]
      generalize hcs : (streamOne E fl first inp cap).consumed = c at hrest hlo hhi
      have hdrop : (flipBit inp i).drop c = flipBit (inp.drop c) (8 * ((i - 8 * c) / 8) + (i - 8 * c) % 8) := by
        rw [flipBit_drop_ge inp i c (by omega)]
        congr 1; omega
      rw [hdrop, hrest]
      have hk : (i - 8 * c) / 8 < z := by omega
      rw [streamPadding_flip_zero ((i - 8 * c) / 8) _ 0 0 (i - 8 * c) (by decide) (by
        intro m hm
        rw [List.getD_eq_getElem?_getD, List.getElem?_append_left (by rw [List.length_replicate]; omega),
          List.getElem?_replicate, if_pos (by omega)]
        rfl)]
      simp only [Nat.zero_add]
      by_cases hm : (i - 8 * c) / 8 % 4 ≠ 0
      · rw [if_pos hm]; simp
      · rw [if_neg hm]
        simp only [prepend]
        -- the "next Stream" starts with the damaged padding byte
        apply xzLoop_ne_of_streamOne
        have hd2 : (flipBit inp i).drop (c + (i - 8 * c) / 8) =
            ((0 : UInt8) ^^^ UInt8.ofNat (1 <<< ((i - 8 * c) % 8))) ::
              ((List.replicate z (0 : UInt8) ++ tail).drop ((i - 8 * c) / 8 + 1)) := by
          rw [← List.drop_drop, hdrop, hrest]
          have hj : (i - 8 * c) % 8 < 8 := Nat.mod_lt _ (by decide)
          generalize (i - 8 * c) / 8 = k at hk
          generalize (i - 8 * c) % 8 = j at hj
          unfold flipBit
          have h1 : (8 * k + j) / 8 = k := by omega
          have h2 : (8 * k + j) % 8 = j := by omega
          rw [h1, h2]
          have hlen : k < (List.replicate z (0 : UInt8) ++ tail).length := by
            rw [List.length_append, List.length_replicate]; omega
          have hget : (List.replicate z (0 : UInt8) ++ tail)[k]'hlen = 0 := by
            rw [List.getElem_append_left (by rw [List.length_replicate]; exact hk)]
            simp
          rw [List.drop_modify_of_ge _ _ _ _ (Nat.le_refl k)]
          rw [Nat.sub_self, List.drop_eq_getElem_cons hlen, List.modify_zero_cons, hget]
        rw [hd2]
        have hne := (flipped_zero ((i - 8 * c) % 8)).2
        have hmod : (i - 8 * c) % 8 % 8 = (i - 8 * c) % 8 := by omega
        rw [hmod] at hne
        exact streamOne_bad_first_byte E fl _ _ _ hne
  | later first inp cap n j hs hc hpad hnext hsub ih =>
    intro fuel
    cases fuel with
    | zero => simp [xzLoop]
    | succ f =>
      generalize hcs : (streamOne E fl first inp cap).consumed = c at hpad hnext hsub ih
      have hsame := streamOne_flip_after E hloc hbd fl first inp cap (8 * (c + n) + j) hs (by rw [hcs]; omega)
      simp only [xzLoop]
      rw [hsame, if_neg (by rw [hs]; simp), if_neg (by simp [hc]), hcs]
      -- the padding scan sees the same zero bytes and a non-zero byte after them
      have hfacts := (streamPadding_facts _ 0 0).2 n hpad (by decide)
      obtain ⟨_, _, b, rest, hb, hl⟩ := hfacts
      simp only [Nat.sub_zero] at hl
      have hdropn : inp.drop (c + n) = b :: rest := by
        have := drop_add_of_drop inp c _ _ hl
        rwa [List.length_replicate] at this
      have hhead := streamOne_head E fl false _ _ hnext
      rw [hdropn] at hhead
      simp only [List.head?_cons, Option.some.injEq] at hhead
      have hdropc : (flipBit inp (8 * (c + n) + j)).drop c = flipBit (inp.drop c) (8 * n + j) := by
        rw [flipBit_drop_ge inp _ c (by omega)]
        congr 1; omega
      have hpad' : streamPadding ((flipBit inp (8 * (c + n) + j)).drop c) 0 0 = .inr n := by
        apply streamPadding_inr_local _ _ 0 0 n hpad
        · rw [hdropc, Nat.sub_zero, flipBit_take, flipBit_out_of_range]
          rw [List.length_take]; omega
        · rw [hdropc, Nat.sub_zero]
          by_cases hj : j < 8
          · -- the first byte of the next Stream is hit: 0xFD with one bit flipped is not zero
            have h1 : (8 * n + j) / 8 = n := by omega
            have h2 : (8 * n + j) % 8 = j % 8 := by omega
            have hg0 := flipBit_getD_eq (inp.drop c) (8 * n + j) (by
              rw [hl, List.length_append, List.length_replicate, List.length_cons]; omega)
            rw [h1, h2] at hg0
            rw [hg0]
            have hg : (inp.drop c).getD n 0 = 0xFD := by
              rw [hl, List.getD_eq_getElem?_getD, List.getElem?_append_right (by rw [List.length_replicate]; omega)]
              simp [hhead]
            rw [hg]
            exact flipped_magic j
          · rw [flipBit_getD_other _ _ _ (by omega)]
            rw [hl, List.getD_eq_getElem?_getD, List.getElem?_append_right (by rw [List.length_replicate]; omega)]
            simpa using hb
      rw [hpad']
      simp only [prepend]
      have hdropcn : (flipBit inp (8 * (c + n) + j)).drop (c + n) = flipBit (inp.drop (c + n)) j := by
        rw [flipBit_drop_ge inp _ (c + n) (by omega)]
        congr 1; omega
      rw [hdropcn]
      exact ih f

/-! ### the three kinds of located bits inside one Stream -/

/-- Stream Header of an accepted Stream: every one of its 96 bits -/
theorem streamOne_header_flip (E : Env) (fl : Flags) (first : Bool) (inp : List UInt8) (cap : Nat)
    (hs : (streamOne E fl first inp cap).ret = .streamEnd) (i : Nat) (hi : i < 96) :
    (streamOne E fl first (flipBit inp i) cap).ret ≠ .streamEnd := by
  obtain ⟨hdr, _, _, _, _, hh, _⟩ := streamOne_streamEnd E fl first inp cap _ rfl hs
  obtain ⟨e, he⟩ := streamHeaderDecode_flip _ hdr hh i hi
  unfold streamOne
  split
  · simp
  · rw [flipBit_take, he]
    simp only []
    split
    · simp
    · exact streamHeaderDecode_error_ne _ _ he

theorem XzBit.of_header (E : Env) (fl : Flags) (first : Bool) (inp : List UInt8) (cap : Nat)
    (hs : (streamOne E fl first inp cap).ret = .streamEnd) (i : Nat) (hi : i < 96) : XzBit E fl first inp cap i :=
  XzBit.here first inp cap i (streamOne_header_flip E fl first inp cap hs i hi)

end XzVerif.XzDecode
