/-
  Simulation logic between the executable decoding monad `M` and the checked monad `MC` (Lemmas/C04Checked.lean), and the
  range-decoder level: probability reads/writes of bits, bit trees, length and distance decoding are in bounds whenever
  the probability array has the size `probsSize lc lp` of `lzma_decoder_reset`.

    Sim P x xc Q :  from every state satisfying `P`, the checked computation `xc` yields exactly the (lifted) outcome of
                    the executable computation `x` — in particular it is not `oob` — and a normal result satisfies `Q`.
-/
import XzVerif.Lemmas.C04Checked
import XzVerif.Lemmas.C03HoareC
import XzVerif.Lemmas.C03Probs

namespace XzVerif.Lzma
open XzVerif.RangeDec XzVerif.LzDict

def Sim {α : Type} (P : St → Prop) (x : M α) (xc : MC α) (Q : α → St → Prop) : Prop :=
  ∀ s, P s → xc s = liftR (x s) ∧ ∀ a s', x s = .ok a s' → Q a s'

theorem Sim.weaken {α} {P P' : St → Prop} {x : M α} {xc : MC α} {Q Q' : α → St → Prop} (h : Sim P x xc Q)
    (hp : ∀ s, P' s → P s) (hq : ∀ a s, Q a s → Q' a s) : Sim P' x xc Q' :=
  fun s hs => ⟨(h s (hp s hs)).1, fun a s' e => hq a s' ((h s (hp s hs)).2 a s' e)⟩

theorem Sim.pure {α} {P : St → Prop} (a : α) {Q : α → St → Prop} (h : ∀ s, P s → Q a s) :
    Sim P (pure a : M α) (pure a : MC α) Q := by
  intro s hp
  refine ⟨rfl, ?_⟩
  intro b s' e
  have : (EStateM.Result.ok a s : EStateM.Result Exit St α) = .ok b s' := e
  injection this with h1 h2
  subst h1; subst h2; exact h s hp

theorem Sim.throw {α} {P : St → Prop} (e : Exit) {Q : α → St → Prop} :
    Sim P (throw e : M α) (throw (XExit.exit e) : MC α) Q := by
  intro s _
  refine ⟨rfl, ?_⟩
  intro b s' h
  have : (EStateM.Result.error e s : EStateM.Result Exit St α) = .ok b s' := h
  cases this

theorem Sim.bind {α β} {P : St → Prop} {x : M α} {xc : MC α} {f : α → M β} {fc : α → MC β}
    {R : α → St → Prop} {Q : β → St → Prop}
    (hx : Sim P x xc R) (hf : ∀ a, Sim (R a) (f a) (fc a) Q) : Sim P (x >>= f) (xc >>= fc) Q := by
  intro s hp
  obtain ⟨h1, h2⟩ := hx s hp
  show EStateM.bind xc fc s = liftR (EStateM.bind x f s) ∧ ∀ b s', EStateM.bind x f s = .ok b s' → Q b s'
  unfold EStateM.bind
  rw [h1]
  cases hxs : x s with
  | ok a s1 =>
    simp only [liftR]
    exact hf a s1 (h2 a s1 hxs)
  | error e s1 =>
    simp only [liftR]
    refine ⟨trivial, ?_⟩
    intro b s' e'; cases e'

/-- nothing after a `throw` matters -/
theorem Sim.throw_bind {α β} {P : St → Prop} (e : Exit) (f : α → M β) (fc : α → MC β) {Q : β → St → Prop} :
    Sim P ((MonadExcept.throw e : M α) >>= f) ((MonadExcept.throw (XExit.exit e) : MC α) >>= fc) Q := by
  intro s _
  refine ⟨rfl, ?_⟩
  intro b s' h
  have : (EStateM.Result.error e s : EStateM.Result Exit St β) = .ok b s' := h
  cases this

/-- a computation without array accesses, reused through `liftM` -/
theorem Sim.lift {α} {P : St → Prop} (x : M α) {Q : α → St → Prop} (h : ∀ s, P s → ∀ a s', x s = .ok a s' → Q a s') :
    Sim P x (liftM x) Q :=
  fun s hp => ⟨rfl, h s hp⟩

theorem Sim.modify {P : St → Prop} (f : St → St) {Q : PUnit → St → Prop} (h : ∀ s, P s → Q PUnit.unit (f s)) :
    Sim P (modify f : M PUnit) (modify f : MC PUnit) Q := by
  intro s hp
  refine ⟨rfl, ?_⟩
  intro a s' e
  have : (EStateM.Result.ok PUnit.unit (f s) : EStateM.Result Exit St PUnit) = .ok a s' := e
  injection this with h1 h2
  subst h2; exact h s hp

/-! ### what a symbol decode keeps fixed -/

/-- the fields the in-bounds argument needs, all constant during one symbol decode: size of the probability array,
    lc, lp, the dictionary positions, number of bytes in the history -/
structure SCtx where
  n : Nat
  lc : Nat
  lp : Nat
  dp : DictPos
  hsize : Nat

def Stat (K : SCtx) (s : St) : Prop :=
  s.probs.size = K.n ∧ s.lc = K.lc ∧ s.lp = K.lp ∧ s.dp = K.dp ∧ s.hist.size = K.hsize

theorem Stat.of_fc {K : SCtx} {s s' : St} (h : Stat K s) (hf : Fc s s') (hs : s'.probs.size = s.probs.size) : Stat K s' := by
  obtain ⟨a, b, c, d, e⟩ := h
  exact ⟨hs.trans a, hf.lclppb.1.trans b, hf.lclppb.2.1.trans c, by rw [hf.dp]; exact d, by rw [hf.hist]; exact e⟩

/-- predicates that survive every step of the range-decoder level -/
def Stable (G : St → Prop) : Prop := ∀ s s', G s → Fc s s' → G s'

theorem stable_true : Stable (fun _ => True) := fun _ _ _ _ => trivial

theorem stable_rep0 (r0 : Nat) : Stable (fun s => s.rep0 = r0) := fun _ _ h hf => hf.core.2.1.trans h

/-! ### size of the probability array -/

theorem rcNormalize_probs (s : St) : (resSt (rcNormalize s)).probs = s.probs := by
  unfold rcNormalize
  split
  · split <;> rfl
  · rfl

theorem rcDirect_probs : ∀ n dest s, (resSt (rcDirect n dest s)).probs = s.probs
  | 0, _, _ => rfl
  | n + 1, dest, s => by
    unfold rcDirect
    show (resSt (EStateM.bind rcNormalize _ s)).probs = s.probs
    unfold EStateM.bind
    have h1 := rcNormalize_probs s
    cases hn : rcNormalize s with
    | error e s1 => rw [hn] at h1; exact h1
    | ok u s1 =>
      rw [hn] at h1
      show (resSt (EStateM.bind _ _ s1)).probs = s.probs
      unfold EStateM.bind
      simp only []
      rw [rcDirect_probs n _ _]
      exact h1

/-- lifted range-decoder computations keep `Stat` and every stable predicate -/
theorem Sim.liftRc {α} {K : SCtx} {G : St → Prop} (hG : Stable G) (x : M α) {T : α → Prop} (hx : SatC x T)
    (hp : ∀ s, (resSt (x s)).probs = s.probs) :
    Sim (fun s => Stat K s ∧ G s) x (liftM x) (fun a s' => (Stat K s' ∧ G s') ∧ T a) := by
  refine Sim.lift x ?_
  intro s h a s' e
  have hs := hx s
  have hpp := hp s
  rw [e] at hs hpp
  exact ⟨⟨h.1.of_fc hs.1 (by rw [show s'.probs = s.probs from hpp]), hG s s' h.2 hs.1⟩, hs.2.1 a s' rfl⟩

/-! ### one bit -/

theorem getD_eq_getElem (a : Array Nat) (i : Nat) (h : i < a.size) : a.getD i 0 = a[i] := by
  simp [Array.getD, h]

theorem setIfInBounds_eq_set (a : Array Nat) (i v : Nat) (h : i < a.size) : a.setIfInBounds i v = a.set i v h := by
  simp [Array.setIfInBounds, h]

/-- with the index inside the array, the checked bit decoder is the executable one -/
theorem rcBitC_eq (m : Nat × Nat) (idx : Nat) (s : St) (h : idx < s.probs.size) (hm : m.1 ≤ idx ∧ idx < m.1 + m.2) :
    rcBitC m idx s = liftR (rcBit idx s) := by
  have hp := rcNormalize_probs s
  unfold rcBitC rcBit
  cases hn : rcNormalize s with
  | error e s1 => rfl
  | ok u s1 =>
    rw [hn] at hp
    have hp' : s1.probs = s.probs := hp
    have h1 : idx < s1.probs.size := by rw [hp']; exact h
    have h1m : idx < s1.probs.size ∧ m.1 ≤ idx ∧ idx < m.1 + m.2 := ⟨h1, hm⟩
    simp only [dif_pos h1m, liftR, St.setProb, getD_eq_getElem _ _ h1, setIfInBounds_eq_set _ _ _ h1]

theorem rcBit_size (idx : Nat) (s : St) : (resSt (rcBit idx s)).probs.size = s.probs.size := by
  have hp := rcNormalize_probs s
  unfold rcBit
  cases hn : rcNormalize s with
  | error e s1 => rw [hn] at hp; simp only [resSt]; rw [show s1.probs = s.probs from hp]
  | ok u s1 =>
    rw [hn] at hp
    simp only [resSt, St.setProb, Array.size_setIfInBounds]
    rw [show s1.probs = s.probs from hp]

theorem sim_rcBit {K : SCtx} {G : St → Prop} (hG : Stable G) (m : Nat × Nat) (idx : Nat) (h : idx < K.n)
    (hm : m.1 ≤ idx ∧ idx < m.1 + m.2) :
    Sim (fun s => Stat K s ∧ G s) (rcBit idx) (rcBitC m idx) (fun b s' => (Stat K s' ∧ G s') ∧ b ≤ 1) := by
  intro s hp
  refine ⟨rcBitC_eq m idx s (by rw [hp.1.1]; exact h) hm, ?_⟩
  intro b s' e
  have hs := satc_rcBit idx s
  have hz := rcBit_size idx s
  rw [e] at hs hz
  exact ⟨⟨hp.1.of_fc hs.1 hz, hG s s' hp.2 hs.1⟩, hs.2.1 b s' rfl⟩

/-! ### bit trees -/

/-- a bit tree of `k` levels from node `sym` inside a row of `W` probabilities at `base`: every node read is
    `< W` (hypothesis `(sym + 1) · 2^k ≤ 2·W`: the nodes of the last level are `< (sym + 1) · 2^(k−1)`), and the result
    lies in `[sym · 2^k, (sym + 1) · 2^k)`. -/
theorem sim_bittree {K : SCtx} {G : St → Prop} (hG : Stable G) (m : Nat × Nat) (base W : Nat) (hW : base + W ≤ K.n)
    (hm : m.1 ≤ base ∧ base + W ≤ m.1 + m.2) :
    ∀ k sym, (sym + 1) * 2 ^ k ≤ 2 * W →
      Sim (fun s => Stat K s ∧ G s) (bittree base k sym) (bittreeC m base k sym)
        (fun r s' => (Stat K s' ∧ G s') ∧ sym * 2 ^ k ≤ r ∧ r < (sym + 1) * 2 ^ k)
  | 0, sym, _ => Sim.pure sym (fun _ h => ⟨h, by simp⟩)
  | k + 1, sym, hk => by
    unfold bittree bittreeC
    have h2 : 1 ≤ 2 ^ k := Nat.one_le_two_pow
    have hlt : sym < W := by
      rw [Nat.pow_succ] at hk
      have : (sym + 1) * 1 ≤ (sym + 1) * 2 ^ k := Nat.mul_le_mul_left _ h2
      have e : (sym + 1) * (2 ^ k * 2) = 2 * ((sym + 1) * 2 ^ k) := by
        rw [Nat.mul_comm (2 ^ k) 2, ← Nat.mul_assoc, Nat.mul_comm (sym + 1) 2, Nat.mul_assoc]
      omega
    refine Sim.bind (sim_rcBit hG m _ (by omega) (by omega)) (fun b => ?_)
    intro s hp
    have hb : b ≤ 1 := hp.2
    have e1 : (sym + 1) * 2 ^ (k + 1) = ((sym + 1) * 2) * 2 ^ k := by
      rw [Nat.pow_succ, Nat.mul_comm (2 ^ k) 2, Nat.mul_assoc]
    have e2 : sym * 2 ^ (k + 1) = (sym * 2) * 2 ^ k := by
      rw [Nat.pow_succ, Nat.mul_comm (2 ^ k) 2, Nat.mul_assoc]
    have hup : (sym * 2 + b + 1) * 2 ^ k ≤ ((sym + 1) * 2) * 2 ^ k := Nat.mul_le_mul_right _ (by omega)
    have hlo : (sym * 2) * 2 ^ k ≤ (sym * 2 + b) * 2 ^ k := Nat.mul_le_mul_right _ (by omega)
    have hk' : (sym * 2 + b + 1) * 2 ^ k ≤ 2 * W := by rw [e1] at hk; omega
    have ih := sim_bittree hG m base W hW hm k _ hk' s hp.1
    refine ⟨ih.1, fun r s' e => ?_⟩
    obtain ⟨i1, i2, i3⟩ := ih.2 r s' e
    exact ⟨i1, by rw [e2]; omega, by rw [e1]; omega⟩

/-- matched literal: `offset ∈ {0, 0x100}`, nodes `offset + match_bit + symbol < 0x300` -/
theorem sim_litMatched {K : SCtx} {G : St → Prop} (hG : Stable G) (base : Nat) (hW : base + LITERAL_CODER_SIZE ≤ K.n)
    (hmem : P_LITERAL ≤ base ∧ base + LITERAL_CODER_SIZE ≤ P_LITERAL + LITERAL_CODER_SIZE <<< LZMA_LCLP_MAX) :
    ∀ k sym offset len, (sym + 1) * 2 ^ k ≤ 2 * 0x100 → (offset = 0 ∨ offset = 0x100) →
      Sim (fun s => Stat K s ∧ G s) (litMatched base k sym offset len) (litMatchedC base k sym offset len)
        (fun _ s' => Stat K s' ∧ G s')
  | 0, sym, _, _, _, _ => Sim.pure sym (fun _ h => h)
  | k + 1, sym, offset, len, hk, ho => by
    unfold litMatched litMatchedC
    have h2 : 1 ≤ 2 ^ k := Nat.one_le_two_pow
    have hlt : sym < 0x100 := by
      rw [Nat.pow_succ] at hk
      have : (sym + 1) * 1 ≤ (sym + 1) * 2 ^ k := Nat.mul_le_mul_left _ h2
      have e : (sym + 1) * (2 ^ k * 2) = 2 * ((sym + 1) * 2 ^ k) := by
        rw [Nat.mul_comm (2 ^ k) 2, ← Nat.mul_assoc, Nat.mul_comm (sym + 1) 2, Nat.mul_assoc]
      omega
    have hm := matchedLit_idx offset len sym ho hlt
    simp only []
    refine Sim.bind (sim_rcBit hG M_LITERAL _ (by have := hm.1; simp only [LITERAL_CODER_SIZE] at hW this; omega)
      (by have := hm.1; have h1 := hmem.1; have h2 := hmem.2; simp only [LITERAL_CODER_SIZE] at h2 this ⊢; omega)) (fun b => ?_)
    intro s hp
    have hb : b ≤ 1 := hp.2
    have hk' : (sym * 2 + b + 1) * 2 ^ k ≤ 2 * 0x100 := by
      rw [Nat.pow_succ] at hk
      have : (sym * 2 + b + 1) * 2 ^ k ≤ ((sym + 1) * 2) * 2 ^ k := Nat.mul_le_mul_right _ (by omega)
      have e : (sym + 1) * (2 ^ k * 2) = ((sym + 1) * 2) * 2 ^ k := by
        rw [Nat.mul_comm (2 ^ k) 2, Nat.mul_assoc]
      omega
    have ho' : (if b == 0 then offset ^^^ (len &&& offset) else len &&& offset) = 0
        ∨ (if b == 0 then offset ^^^ (len &&& offset) else len &&& offset) = 0x100 := by
      split
      · exact hm.2.2
      · rcases hm.2.1 with h | h
        · left; exact h
        · rcases ho with ho | ho
          · left; rw [h, ho]
          · right; rw [h, ho]
    exact sim_litMatched hG base hW hmem k _ _ _ hk' ho' s hp.1

/-- reverse bit tree of SEQ_DIST_MODEL: nodes `1 ≤ m < 2^limit` relative to `base` -/
theorem sim_revBittree {K : SCtx} {G : St → Prop} (hG : Stable G) (base B : Nat)
    (hB : ∀ m, 1 ≤ m → m < B → base + m < K.n ∧ P_POS_SPECIAL ≤ base + m ∧ base + m < P_POS_SPECIAL + (FULL_DISTANCES - DIST_MODEL_END)) :
    ∀ k sym offset acc, 1 ≤ sym → (sym + 1) * 2 ^ k ≤ 2 * B →
      Sim (fun s => Stat K s ∧ G s) (revBittree base k sym offset acc) (revBittreeC base k sym offset acc)
        (fun _ s' => Stat K s' ∧ G s')
  | 0, _, _, acc, _, _ => Sim.pure acc (fun _ h => h)
  | k + 1, sym, offset, acc, h1, hk => by
    unfold revBittree revBittreeC
    have h2 : 1 ≤ 2 ^ k := Nat.one_le_two_pow
    have hlt : sym < B := by
      rw [Nat.pow_succ] at hk
      have : (sym + 1) * 1 ≤ (sym + 1) * 2 ^ k := Nat.mul_le_mul_left _ h2
      have e : (sym + 1) * (2 ^ k * 2) = 2 * ((sym + 1) * 2 ^ k) := by
        rw [Nat.mul_comm (2 ^ k) 2, ← Nat.mul_assoc, Nat.mul_comm (sym + 1) 2, Nat.mul_assoc]
      omega
    refine Sim.bind (sim_rcBit hG M_POS_SPECIAL _ (hB sym h1 hlt).1 (hB sym h1 hlt).2) (fun b => ?_)
    intro s hp
    have hb : b ≤ 1 := hp.2
    have hk' : (sym * 2 + b + 1) * 2 ^ k ≤ 2 * B := by
      rw [Nat.pow_succ] at hk
      have : (sym * 2 + b + 1) * 2 ^ k ≤ ((sym + 1) * 2) * 2 ^ k := Nat.mul_le_mul_right _ (by omega)
      have e : (sym + 1) * (2 ^ k * 2) = ((sym + 1) * 2) * 2 ^ k := by
        rw [Nat.mul_comm (2 ^ k) 2, Nat.mul_assoc]
      omega
    exact sim_revBittree hG base B hB k _ _ _ (by omega) hk' s hp.1

/-- SEQ_ALIGN: `pos_align[offset + symbol]`, `offset = 1, 2, 4, 8`, `symbol < offset` -/
theorem sim_revAlign {K : SCtx} {G : St → Prop} (hG : Stable G) (hn : P_MATCH_LEN ≤ K.n) :
    ∀ k sym offset, sym < offset → (offset = 1 ∧ k ≤ 4 ∨ offset = 2 ∧ k ≤ 3 ∨ offset = 4 ∧ k ≤ 2 ∨ offset = 8 ∧ k ≤ 1 ∨ k = 0) →
      Sim (fun s => Stat K s ∧ G s) (revAlign k sym offset) (revAlignC k sym offset) (fun _ s' => Stat K s' ∧ G s')
  | 0, sym, _, _, _ => Sim.pure sym (fun _ h => h)
  | k + 1, sym, offset, hs, ho => by
    unfold revAlign revAlignC
    have ho4 : offset = 1 ∨ offset = 2 ∨ offset = 4 ∨ offset = 8 := by omega
    have hi := (posAlign_idx offset sym ho4 hs).1
    refine Sim.bind (sim_rcBit hG M_POS_ALIGN _ (by omega) (by simp only [P_POS_ALIGN, P_MATCH_LEN, ALIGN_SIZE] at *; omega)) (fun b => ?_)
    intro s hp
    have hb : b ≤ 1 := hp.2
    have hs' : sym + b * offset < offset * 2 := by
      have : b * offset ≤ 1 * offset := Nat.mul_le_mul_right _ hb
      omega
    exact sim_revAlign hG hn k _ _ hs' (by omega) s hp.1

/-! ### lengths and distances -/

theorem probsSize_ge (lc lp : Nat) : P_LITERAL + LITERAL_CODER_SIZE ≤ probsSize lc lp := by
  unfold probsSize
  have : LITERAL_CODER_SIZE ≤ LITERAL_CODER_SIZE <<< (lc + lp) := by
    rw [Nat.shiftLeft_eq]
    exact Nat.le_mul_of_pos_right _ (Nat.two_pow_pos _)
  omega

theorem sim_lenDecode {K : SCtx} {G : St → Prop} (hG : Stable G) (hn : P_LITERAL ≤ K.n) (lenBase posState : Nat)
    (hb : lenBase = P_MATCH_LEN ∨ lenBase = P_REP_LEN) (hps : posState < POS_STATES_MAX) :
    Sim (fun s => Stat K s ∧ G s) (lenDecode lenBase posState) (lenDecodeC lenBase posState)
      (fun len s' => (Stat K s' ∧ G s') ∧ len ≤ LzDict.MATCH_LEN_MAX) := by
  have hl := len_idx posState hps
  have hend : lenBase + LEN_CODER_SIZE ≤ K.n := by
    rcases hb with h | h <;> rw [h] <;> simp only [P_MATCH_LEN, P_REP_LEN, LEN_CODER_SIZE, P_LITERAL] at * <;> omega
  unfold lenDecode lenDecodeC
  refine Sim.bind (sim_rcBit hG _ _ (by simp only [LEN_CHOICE, LEN_CODER_SIZE] at *; omega) (by simp)) (fun c => ?_)
  refine Sim.weaken (P := fun s => Stat K s ∧ G s) ?_ (fun s h => h.1) (fun _ _ h => h)
  split
  · refine Sim.bind (sim_bittree hG _ _ LEN_LOW_SYMBOLS ?_ ?_ 3 1 (by decide)) (fun s => Sim.pure _ (fun _ h => ⟨h.1, ?_⟩))
    · have := hl.2.2.1 7 (by decide)
      simp only [LEN_LOW, LEN_MID, LEN_LOW_SYMBOLS, LEN_CODER_SIZE] at *; omega
    · have := hl.2.2.1 7 (by decide)
      simp only [LEN_LOW, LEN_MID, LEN_LOW_SYMBOLS, POS_STATES_MAX] at *; omega
    · have := h.2
      simp only [MATCH_LEN_MIN, LEN_LOW_SYMBOLS, LzDict.MATCH_LEN_MAX] at *; omega
  · refine Sim.bind (sim_rcBit hG _ _ (by simp only [LEN_CHOICE2, LEN_CODER_SIZE] at *; omega) (by simp)) (fun c2 => ?_)
    refine Sim.weaken (P := fun s => Stat K s ∧ G s) ?_ (fun s h => h.1) (fun _ _ h => h)
    split
    · refine Sim.bind (sim_bittree hG _ _ LEN_MID_SYMBOLS ?_ ?_ 3 1 (by decide)) (fun s => Sim.pure _ (fun _ h => ⟨h.1, ?_⟩))
      · have := hl.2.2.2.1 7 (by decide)
        simp only [LEN_HIGH, LEN_MID, LEN_MID_SYMBOLS, LEN_CODER_SIZE] at *; omega
      · have := hl.2.2.2.1 7 (by decide)
        simp only [LEN_HIGH, LEN_MID, LEN_MID_SYMBOLS, POS_STATES_MAX] at *; omega
      · have := h.2
        simp only [MATCH_LEN_MIN, LEN_LOW_SYMBOLS, LEN_MID_SYMBOLS, LzDict.MATCH_LEN_MAX] at *; omega
    · refine Sim.bind (sim_bittree hG _ _ LEN_HIGH_SYMBOLS ?_ ?_ 8 1 (by decide)) (fun s => Sim.pure _ (fun _ h => ⟨h.1, ?_⟩))
      · simp only [LEN_HIGH, LEN_HIGH_SYMBOLS, LEN_CODER_SIZE] at *; omega
      · simp
      · have := h.2
        simp only [MATCH_LEN_MIN, LEN_LOW_SYMBOLS, LEN_MID_SYMBOLS, LEN_HIGH_SYMBOLS, LzDict.MATCH_LEN_MAX] at *; omega

theorem pow_limit_le (slot : Nat) (h : slot < 14) : 2 ^ ((slot >>> 1) - 1) ≤ 32 := by
  have : slot = 0 ∨ slot = 1 ∨ slot = 2 ∨ slot = 3 ∨ slot = 4 ∨ slot = 5 ∨ slot = 6 ∨ slot = 7 ∨ slot = 8 ∨ slot = 9
      ∨ slot = 10 ∨ slot = 11 ∨ slot = 12 ∨ slot = 13 := by omega
  rcases this with e | e | e | e | e | e | e | e | e | e | e | e | e | e <;> subst e <;> decide

theorem sim_distDecode {K : SCtx} {G : St → Prop} (hG : Stable G) (hn : P_LITERAL ≤ K.n) (len : Nat) :
    Sim (fun s => Stat K s ∧ G s) (distDecode len) (distDecodeC len) (fun _ s' => Stat K s' ∧ G s') := by
  unfold distDecode distDecodeC
  refine Sim.bind (sim_bittree hG _ _ DIST_SLOTS ?_ ?_ 6 1 (by decide)) (fun slot1 => ?_)
  · have := distSlot_idx len 63 (by decide)
    simp only [P_DIST_SLOT, DIST_SLOTS, P_POS_SPECIAL, P_LITERAL] at *; omega
  · have := distSlot_idx len 63 (by decide)
    simp only [P_DIST_SLOT, DIST_SLOTS, P_POS_SPECIAL, DIST_STATES] at *; omega
  refine Sim.weaken (P := fun s => Stat K s ∧ G s) ?_ (fun s h => h.1) (fun _ _ h => h)
  simp only []
  split
  · exact Sim.pure _ (fun _ h => h)
  · next h4 =>
    split
    · next h14 =>
      have hslot : slot1 - DIST_SLOTS < 14 := h14
      have h4' : 4 ≤ slot1 - DIST_SLOTS := by simp only [DIST_MODEL_START] at h4; omega
      refine sim_revBittree hG _ (2 ^ (((slot1 - DIST_SLOTS) >>> 1) - 1)) ?_ _ 1 0 _ (Nat.le_refl 1) ?_
      · intro m hm1 hm2
        have hm32 : m < 32 := Nat.lt_of_lt_of_le hm2 (pow_limit_le _ hslot)
        have hps := posSpecial_idx (slot1 - DIST_SLOTS) hslot m hm32 ⟨h4', hm1, hm2⟩
        have := hps.2.2.1
        have hlo := hps.2.2.2
        simp only [P_POS_ALIGN, P_LITERAL, P_POS_SPECIAL, FULL_DISTANCES, DIST_MODEL_END] at *
        refine ⟨by omega, ?_, ?_⟩ <;> omega
      · omega
    · refine Sim.bind (Sim.liftRc hG _ (satc_rcDirect _ _) (rcDirect_probs _ _)) (fun r => ?_)
      refine Sim.weaken (P := fun s => Stat K s ∧ G s) ?_ (fun s h => h.1) (fun _ _ h => h)
      refine Sim.bind (sim_revAlign hG (by simp only [P_MATCH_LEN, P_LITERAL] at *; omega) 4 0 1 (by decide) (by omega))
        (fun a => Sim.pure _ (fun _ h => h))

end XzVerif.Lzma
