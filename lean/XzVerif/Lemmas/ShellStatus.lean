/-
  Helper lemmas for the exit-status part of C20: symbolic execution of the status blocks cut from the scripts
  (Gen/C20.lean) and the arithmetic of `resUpdate` / `grepFold`.
-/
import XzVerif.Model.Shell
import XzVerif.Gen.C20

set_option linter.unusedSimpArgs false

namespace XzVerif.Shell
open XzVerif.Gen.C20

def Flow.verdict : Flow → Nat ⊕ Nat
  | .exit n => .inl n
  | .go e => .inr e.res
  | .next e => .inr e.res

def gs1 : Stmt := .simple ⟨[.cmp .ge (.v .r) (.n 128)], .exit (.v .r)⟩
def gs2 : Stmt := .ifChain [
      ([.empty .xz], [⟨[], .exit (.n 2)⟩]),
      ([.cmp .ge (.v .xz) (.n 128)], [⟨[.isPipe .xz false], .exit (.v .xz)⟩]),
      ([.cmp .gt (.v .xz) (.n 0)], [⟨[.cmp .lt (.v .r) (.n 2)], .set .r (.n 2)⟩])]
def gs3 : Stmt := .ifChain [
      ([.cmp .ge (.v .r) (.n 2)], [⟨[.cmp .lt (.v .res) (.v .r)], .set .res (.v .r)⟩]),
      ([.cmp .eq (.v .r) (.n 0)], [⟨[.cmp .eq (.v .res) (.n 1)], .set .res (.n 0)⟩])]

theorem gs_eq : grepFileStatus = [gs1, gs2, gs3] := rfl

theorem gs1_run (e : Env) : gs1.run e = if e.r ≥ 128 then .exit e.r else .go e := by
  simp [gs1, Stmt.run, Simple.run, Cond.eval, CmpOp.eval, Opnd.eval, Env.get, Act.run]

theorem gs2_run (e : Env) : gs2.run e =
    if e.xzEmpty then .exit 2
    else if e.xz ≥ 128 then (if e.xz = 141 then .go e else .exit e.xz)
    else if e.xz > 0 then .go { e with r := if e.r < 2 then 2 else e.r }
    else .go e := by
  obtain ⟨r, xz, sed, res, num, cmp, pipe, xzEmpty⟩ := e
  simp only []
  by_cases h0 : xzEmpty = true <;> by_cases h1 : xz ≥ 128 <;> by_cases h2 : xz = 141 <;> by_cases h3 : xz > 0 <;>
    by_cases h4 : r < 2 <;>
    simp [gs2, Stmt.run, runArms, runSimples, Simple.run, Cond.eval, CmpOp.eval, Opnd.eval, Env.get, Env.put, Act.run, pipeStatus, *]

theorem gs3_run (e : Env) : gs3.run e = .go { e with res := resUpdate e.r e.res } := by
  obtain ⟨r, xz, sed, res, num, cmp, pipe, xzEmpty⟩ := e
  simp only []
  by_cases h1 : r ≥ 2 <;> by_cases h2 : res < r <;> by_cases h3 : r = 0 <;> by_cases h4 : res = 1 <;>
    simp [gs3, Stmt.run, runArms, runSimples, Simple.run, Cond.eval, CmpOp.eval, Opnd.eval, Env.get, Env.put, Act.run, resUpdate, *] <;>
    (try split) <;> (try simp_all) <;> (try omega)

/-- One round of xzdiff's loop over the decompressor statuses. -/
theorem diff_body_run (e : Env) : runStmts diffStatusBody e = if e.num = 0 ∨ e.num = pipeStatus then .next e else .exit 2 := by
  obtain ⟨r, xz, sed, res, num, cmp, pipe, xzEmpty⟩ := e
  by_cases h0 : num = 0 <;> by_cases h1 : num ≥ 128 <;> by_cases h2 : num = 141 <;>
    simp [diffStatusBody, runStmts, Stmt.run, Simple.run, Cond.eval, CmpOp.eval, Opnd.eval, Env.get, Act.run, pipeStatus, *] <;>
    (try omega)

/-! ### the documented exit-status table of xzgrep -/

/-- The file had an error: grep/sed failed (≥ 2) or the decompressor did not exit with 0. -/
def fileErr (f : Nat × Option Nat) : Prop := f.1 ≥ 2 ∨ f.2 ≠ some 0
/-- No signal involved: both statuses are ordinary exit statuses (< 128). -/
def noSignal (f : Nat × Option Nat) : Prop := f.1 < 128 ∧ ∃ x, f.2 = some x ∧ x < 128

theorem fileStep_noSignal (r x res : Nat) (hr : r < 128) (hx : x < 128) :
    grepFileStep r (some x) res = .inr (resUpdate (if x > 0 then (if r < 2 then 2 else r) else r) res) := by
  have h1 : ¬ r ≥ 128 := by omega
  have h2 : ¬ x ≥ 128 := by omega
  by_cases h3 : x > 0 <;> simp [grepFileStep, h1, h2, h3]

theorem resUpdate_ge2_of_res (r res : Nat) (h : res ≥ 2) : resUpdate r res ≥ 2 := by
  by_cases a : r ≥ 2 <;> by_cases b : res < r <;> by_cases c : r = 0 <;> by_cases d : res = 1 <;>
    simp [resUpdate, a, b, c, d] <;> omega

theorem resUpdate_ge2_of_r (r res : Nat) (h : r ≥ 2) : resUpdate r res ≥ 2 := by
  by_cases b : res < r <;> simp [resUpdate, h, b] <;> omega

theorem resUpdate_small (r res : Nat) (hr : r < 2) (h : res ≤ 1) :
    resUpdate r res = if r = 0 ∨ res = 0 then 0 else 1 := by
  have a : ¬ r ≥ 2 := by omega
  by_cases c : r = 0 <;> by_cases d : res = 1 <;> by_cases e : res = 0 <;> simp [resUpdate, a, c, d, e] <;> omega

theorem grepFold_spec (fs : List (Nat × Option Nat)) (hns : ∀ f ∈ fs, noSignal f) (res0 : Nat) :
    (res0 ≥ 2 → grepFold fs res0 ≥ 2) ∧
    ((∃ f ∈ fs, fileErr f) → grepFold fs res0 ≥ 2) ∧
    ((∀ f ∈ fs, ¬ fileErr f) → res0 ≤ 1 → grepFold fs res0 = if res0 = 0 ∨ ∃ f ∈ fs, f.1 = 0 then 0 else 1) := by
  induction fs generalizing res0 with
  | nil =>
    refine ⟨fun h => by simpa [grepFold] using h, fun ⟨f, hf, _⟩ => by simp at hf, fun _ h => ?_⟩
    simp only [grepFold, List.not_mem_nil, false_and, exists_false, or_false]
    split <;> omega
  | cons f fs ih =>
    obtain ⟨r, xz⟩ := f
    obtain ⟨hr, x, hxz, hx⟩ := hns (r, xz) (by simp)
    simp only [] at hr hxz
    subst hxz
    have hns' : ∀ g ∈ fs, noSignal g := fun g hg => hns g (by simp [hg])
    simp only [grepFold, fileStep_noSignal r x _ hr hx]
    obtain ⟨ihA, ihB, ihC⟩ := ih hns' (resUpdate (if x > 0 then (if r < 2 then 2 else r) else r) res0)
    refine ⟨fun h => ihA ?_, fun ⟨g, hg, he⟩ => ?_, fun hne h1 => ?_⟩
    · exact resUpdate_ge2_of_res _ _ h
    · rcases List.mem_cons.mp hg with rfl | hg'
      · apply ihA
        have : r ≥ 2 ∨ x ≠ 0 := by
          rcases he with h | h
          · exact Or.inl h
          · exact Or.inr (by simpa using h)
        apply resUpdate_ge2_of_r
        by_cases hx0 : x > 0 <;> by_cases hr2 : r < 2 <;> simp [hx0, hr2] <;> omega
      · exact ihB ⟨g, hg', he⟩
    · have hf : ¬ fileErr (r, some x) := hne _ (by simp)
      have hr2 : r < 2 := by
        apply Nat.lt_of_not_le; intro h; exact hf (Or.inl h)
      have hx0 : x = 0 := by
        apply Classical.byContradiction; intro h; exact hf (Or.inr (by simpa using h))
      subst hx0
      have hne' : ∀ g ∈ fs, ¬ fileErr g := fun g hg => hne g (by simp [hg])
      simp only [Nat.lt_irrefl, gt_iff_lt, if_false] at ihC ⊢
      have hs := resUpdate_small r res0 hr2 h1
      have hu : resUpdate r res0 ≤ 1 := by rw [hs]; split <;> omega
      rw [ihC hne' hu, hs]
      have e1 : (∃ g ∈ (r, some 0) :: fs, g.1 = 0) ↔ (r = 0 ∨ ∃ g ∈ fs, g.1 = 0) := by
        constructor
        · rintro ⟨g, hg, h0⟩
          rcases List.mem_cons.mp hg with rfl | hg'
          · exact Or.inl h0
          · exact Or.inr ⟨g, hg', h0⟩
        · rintro (h | ⟨g, hg, h0⟩)
          · exact ⟨(r, some 0), by simp, h⟩
          · exact ⟨g, by simp [hg], h0⟩
      simp only [e1]
      by_cases a : r = 0 <;> by_cases b : res0 = 0 <;> by_cases c : ∃ g ∈ fs, g.1 = 0 <;> simp [a, b, c]

end XzVerif.Shell
