/-
  The linked `lzma_fastpos[8192]` (Gen/KernelsTables.lean) read by `get_dist_slot` of fastpos.h (table version, translated
  into Gen/Kernels.lean; the final theorem is in Lemmas/Kernels.lean):
  the table lookup equals the bit-scan definition `2·⌊log2 d⌋ + (bit below the top bit)` for EVERY `uint32_t`
  distance: the table is checked entry by entry (kernel evaluation), distances ≥ 2^13 by the shift law of `slotOf`.
-/
import XzVerif.Gen.KernelsTables
import XzVerif.Model.Container
namespace XzVerif.KernelLemmas
open XzVerif.Gen.Kernels

/-! ### `get_dist_slot`: the fastpos table against the bit-scan definition -/

/-- `2·⌊log2 x⌋ + (the bit below the top bit)`: the distance slot of `x ≥ 2`. -/
def slotOf (x : Nat) : Nat := 2 * Nat.log2 x + (x >>> (Nat.log2 x - 1)) % 2

theorem log2_div_pow (x k : Nat) (h : 2 ≤ x / 2 ^ k) : Nat.log2 x = Nat.log2 (x / 2 ^ k) + k := by
  have hp : 0 < 2 ^ k := Nat.pow_pos (by decide)
  have hy0 : x / 2 ^ k ≠ 0 := by omega
  have hx0 : x ≠ 0 := by
    intro h0; subst h0; simp at h
  rw [Nat.log2_eq_iff hx0]
  constructor
  · calc 2 ^ (Nat.log2 (x / 2 ^ k) + k) = 2 ^ Nat.log2 (x / 2 ^ k) * 2 ^ k := Nat.pow_add ..
      _ ≤ (x / 2 ^ k) * 2 ^ k := Nat.mul_le_mul_right _ (Nat.log2_self_le hy0)
      _ ≤ x := Nat.div_mul_le_self x (2 ^ k)
  · have h1 : x / 2 ^ k + 1 ≤ 2 ^ (Nat.log2 (x / 2 ^ k) + 1) := Nat.lt_log2_self
    calc x < (x / 2 ^ k + 1) * 2 ^ k := by
            have := Nat.lt_mul_div_succ x hp
            rw [Nat.mul_comm]; exact this
      _ ≤ 2 ^ (Nat.log2 (x / 2 ^ k) + 1) * 2 ^ k := Nat.mul_le_mul_right _ h1
      _ = 2 ^ (Nat.log2 (x / 2 ^ k) + k + 1) := by rw [← Nat.pow_add]; congr 1; omega

theorem slotOf_div_pow (x k : Nat) (h : 2 ≤ x / 2 ^ k) : slotOf x = slotOf (x / 2 ^ k) + 2 * k := by
  unfold slotOf
  have hl := log2_div_pow x k h
  have h1 : 1 ≤ Nat.log2 (x / 2 ^ k) := (Nat.le_log2 (by omega)).mpr (by simpa using h)
  rw [hl]
  have e : Nat.log2 (x / 2 ^ k) + k - 1 = k + (Nat.log2 (x / 2 ^ k) - 1) := by omega
  rw [e, Nat.shiftRight_add, Nat.shiftRight_eq_div_pow x k]
  omega

theorem container_slot_eq (x : Nat) (h : 2 ≤ x) : XzVerif.Container.getDistSlot x = slotOf x := by
  unfold XzVerif.Container.getDistSlot slotOf
  by_cases h4 : x < 4
  · have : x = 2 ∨ x = 3 := by omega
    rcases this with rfl | rfl <;> decide
  · simp [h4]

/-- the linked `lzma_fastpos[8192]`, chunk by chunk, is the bit-scan slot of every index -/
theorem fastpos_chunks_eq : lzma_fastpos_chunks
    = (List.range 32).map (fun c => (List.range 256).map (fun j => XzVerif.Container.getDistSlot (c * 256 + j))) := by
  decide +kernel

theorem getD_map_range (f : Nat → α) (n i : Nat) (d : α) (h : i < n) : ((List.range n).map f).getD i d = f i := by
  simp [List.getD, h]

theorem fastpos_table (i : Nat) (h : i < 8192) : lzma_fastpos_at i = XzVerif.Container.getDistSlot i := by
  unfold lzma_fastpos_at
  rw [fastpos_chunks_eq, getD_map_range _ 32 (i / 256) [] (by omega), getD_map_range _ 256 (i % 256) 0 (Nat.mod_lt _ (by decide))]
  congr 1; omega

theorem slotOf_le (x : Nat) (h : x < 8192) : slotOf x ≤ 25 := by
  unfold slotOf
  by_cases h0 : x = 0
  · subst h0; decide
  · have : Nat.log2 x < 13 := (Nat.log2_lt h0).mpr (by simpa using h)
    omega

theorem fastpos_le (i : Nat) (h : i < 8192) : lzma_fastpos_at i ≤ 25 := by
  rw [fastpos_table i h]
  by_cases h2 : 2 ≤ i
  · rw [container_slot_eq i h2]; exact slotOf_le i h
  · have : i = 0 ∨ i = 1 := by omega
    rcases this with rfl | rfl <;> decide

end XzVerif.KernelLemmas
