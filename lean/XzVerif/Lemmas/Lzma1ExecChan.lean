/-
  C01, executable decoder ↔ specification decoder, part 4: the channel.
  `Chan ps rc rest ops tail`: the range decoder `(rc, rest)` with probabilities `ps` is in step with a range encoder that
  still has to code `ops` and then flush, after which `tail` follows. Trees whose requests match a prefix of `ops` decode
  exactly what was coded (`chan_step`, from `prog_sync`), at the end the decoder is finished (`chan_end`), and renaming
  the contexts of a tree together with those of the operation list changes nothing (`runOps_mapCtx`).
-/
import XzVerif.Lemmas.Lzma1ExecSym
import XzVerif.Lemmas.LzmaChunk

namespace XzVerif.LzmaExec
open XzVerif.RangeDec XzVerif.RangeEnc XzVerif.RangeCoder XzVerif.Lzma XzVerif.LzmaEnc XzVerif.LzmaSymDec XzVerif.LzmaSym

/-- `psF`: the probabilities both sides will have after `ops` -/
def Chan (ps : Probs) (rc : Rc) (rest : List UInt8) (ops : List Op) (tail : List UInt8) (psF : Probs) : Prop :=
  ∃ e, ProbsOk ps ops ∧ Inv e ∧ Sync e (resolve ps ops).1 tail rc rest ∧ (resolve ps ops).2 = psF

theorem resolve_append : ∀ (a b : List Op) (ps : Probs), (resolve ps (a ++ b)).2 = (resolve (resolve ps a).2 b).2
  | [], _, _ => rfl
  | .bit ctx v :: a, b, ps => by simp only [List.cons_append, resolve]; exact resolve_append a b _
  | .direct v :: a, b, ps => by simp only [List.cons_append, resolve]; exact resolve_append a b _

theorem chan_step {α : Type} (prog : Prog α) {ops opsRest : List Op} {a : α} {ps psF : Probs} {rc : Rc}
    {rest tail : List UInt8} (hc : Chan ps rc rest ops tail psF) (h : prog.runOps ops = some (a, opsRest)) :
    ∃ ps' rc' rest', prog.runRc ps rc rest = some (a, ps', rc', rest') ∧ Chan ps' rc' rest' opsRest tail psF := by
  obtain ⟨e, hok, hI, hs, hF⟩ := hc
  obtain ⟨consumed, ps', e', rc', rest', hcons, henc, hrun, hok', hI', hs'⟩ :=
    prog_sync prog ops opsRest a ps e tail rc rest h hok hI hs
  refine ⟨ps', rc', rest', hrun, e', hok', hI', hs', ?_⟩
  have : ps' = (resolve ps consumed).2 := by
    rw [encOps_resolve] at henc
    exact (Prod.mk.inj henc).1.symm
  rw [this, ← resolve_append, ← hcons]; exact hF

theorem chan_end {ps psF : Probs} {rc : Rc} {rest tail : List UInt8} (hc : Chan ps rc rest [] tail psF) :
    (∃ rc', normalizeL rc rest = some (rc', tail) ∧ rc'.code = 0) ∧ ps = psF := by
  obtain ⟨e, _, hI, hs, hF⟩ := hc
  simp only [resolve] at hs hF
  exact ⟨sync_end hI hs, hF⟩

/-- the bytes of `rc_reset`, `ops`, `rc_flush` (from any probabilities), read by `rc_read_init` -/
theorem chan_init (ps : Probs) (ops : List Op) (tail : List UInt8) (hok : ProbsOk ps ops) :
    ∃ rc rest, readInit ((encFlush (encOps ps Enc.init ops).2).out ++ tail) = .ok rc rest ∧
      Chan ps rc rest ops tail (encOps ps Enc.init ops).1 ∧
      (encFlush (encOps ps Enc.init ops).2).out.head? = some 0 := by
  have hres := encOps_resolve ops ps Enc.init
  have hrok := resolve_ok _ _ hok
  have hbytes : (encFlush (encOps ps Enc.init ops).2).out = (finish Enc.init (resolve ps ops).1).out := by
    simp only [hres, finish]
  obtain ⟨rc, rest, hinit, hsync, hhead⟩ := sync_init hrok tail
  exact ⟨rc, rest, by rw [hbytes]; exact hinit, ⟨Enc.init, hok, inv_init, hsync, by rw [hres]⟩, by rw [hbytes]; exact hhead⟩

/-- a tree with renamed contexts, run against the renamed operations -/
theorem runOps_mapCtx {α : Type} (g : Nat → Nat) (prog : Prog α) : ∀ (ops opsRest : List Op) (a : α),
    prog.runOps ops = some (a, opsRest) →
    ∃ consumed, ops = consumed ++ opsRest ∧
      ∀ rest', (prog.mapCtx g).runOps (consumed.map (opRename g) ++ rest') = some (a, rest') := by
  induction prog with
  | ret a0 =>
    intro ops opsRest a h
    simp only [Prog.runOps, Option.some.injEq, Prod.mk.injEq] at h
    obtain ⟨rfl, rfl⟩ := h
    exact ⟨[], rfl, fun rest' => rfl⟩
  | bit ctx k ih =>
    intro ops opsRest a h
    cases ops with
    | nil => simp [Prog.runOps] at h
    | cons op ops' =>
      cases op with
      | direct b => simp [Prog.runOps] at h
      | bit ctx' b =>
        simp only [Prog.runOps] at h
        by_cases hc : ctx = ctx'
        · subst hc
          simp only [if_true] at h
          obtain ⟨consumed, hcons, hrun⟩ := ih b ops' opsRest a h
          refine ⟨.bit ctx b :: consumed, by rw [hcons]; rfl, fun rest' => ?_⟩
          simp only [List.map_cons, opRename, List.cons_append, Prog.mapCtx, Prog.runOps, if_true]
          exact hrun rest'
        · simp [hc] at h
  | direct k ih =>
    intro ops opsRest a h
    cases ops with
    | nil => simp [Prog.runOps] at h
    | cons op ops' =>
      cases op with
      | bit ctx' b => simp [Prog.runOps] at h
      | direct b =>
        simp only [Prog.runOps] at h
        obtain ⟨consumed, hcons, hrun⟩ := ih b ops' opsRest a h
        refine ⟨.direct b :: consumed, by rw [hcons]; rfl, fun rest' => ?_⟩
        simp only [List.map_cons, opRename, List.cons_append, Prog.mapCtx, Prog.runOps]
        exact hrun rest'
  | fail =>
    intro ops opsRest a h
    simp [Prog.runOps] at h

/-- one symbol through the channel: the renamed specification tree decodes the symbol from the renamed operations of
    `encode_symbol` and leaves the channel ready for the remaining operations -/
theorem sym_chan_step (p : Props) (g : Nat → Nat) (st : SymSt) (pos prev mb : Nat) (sym : Sym) (hv : ValidSym sym)
    {ps psF : Probs} {rc : Rc} {rest tail : List UInt8} {restOps : List Op}
    (hc : Chan ps rc rest ((symOps p st pos prev mb sym).1.map (opRename g) ++ restOps) tail psF) :
    ∃ ps' rc' rest', ((decodeSym p st pos prev mb).mapCtx g).runRc ps rc rest
        = some ((sym, (symOps p st pos prev mb sym).2), ps', rc', rest') ∧ Chan ps' rc' rest' restOps tail psF := by
  have h0 := decodeSym_ops p st pos prev mb sym hv []
  obtain ⟨consumed, hcons, hrun⟩ := runOps_mapCtx g _ _ _ _ h0
  have hc' : consumed = (symOps p st pos prev mb sym).1 := by simpa using hcons.symm
  subst hc'
  exact chan_step _ hc (hrun restOps)

end XzVerif.LzmaExec
