/-
  `simple_code()` buffering is slicing independent for every filter that satisfies the BCJ contract (C06).
  Configuration proved: `next.code == NULL` (`Src.null`), i.e. the filter reads the caller's input directly — the encoder
  configuration of every BCJ filter. (Behind a real next coder the same argument needs that coder's own slicing independence.)
-/
import XzVerif.Model.CoderSmall

namespace XzVerif.Coder

variable {φ : Type}

/-- The contract `simple_coder.c` relies on. `F state buf = (buf', n, state')`. -/
structure BcjContract (F : Filter φ) (unfilteredMax : Nat) : Prop where
  /-- the size never changes -/
  len : ∀ s b, (F s b).1.length = b.length
  /-- a prefix of `n` bytes is processed -/
  count : ∀ s b, (F s b).2.1 ≤ b.length
  /-- … and the rest is left untouched -/
  tail : ∀ s b, (F s b).1.drop (F s b).2.1 = b.drop (F s b).2.1
  /-- at most `unfiltered_max` bytes are left unprocessed (`assert(unfiltered <= coder->allocated / 2)`) -/
  leaves : ∀ s b, b.length - (F s b).2.1 ≤ unfilteredMax
  /-- prefix stability: one call on `a ++ b` = a call on `a`, then a call on (what that left) ++ `b` -/
  chunk : ∀ s a b, F s (a ++ b) =
    ((F s a).1.take (F s a).2.1 ++ (F (F s a).2.2 ((F s a).1.drop (F s a).2.1 ++ b)).1,
     (F s a).2.1 + (F (F s a).2.2 ((F s a).1.drop (F s a).2.1 ++ b)).2.1,
     (F (F s a).2.2 ((F s a).1.drop (F s a).2.1 ++ b)).2.2)

/-- `D` = input consumed so far, `T` = bytes already filtered (written or pending), `f` = filter state, `U` = unfiltered bytes carried:
    whatever input follows, filtering everything at once equals `T` followed by filtering `U ++ more` from `f`. -/
def LiveInv (F : Filter φ) (φ₀ : φ) (D T : List UInt8) (f : φ) (U : List UInt8) : Prop :=
  ∀ more, F φ₀ (D ++ more) = (T ++ (F f (U ++ more)).1, T.length + (F f (U ++ more)).2.1, (F f (U ++ more)).2.2)

theorem LiveInv.init (F : Filter φ) (φ₀ : φ) : LiveInv F φ₀ [] [] φ₀ [] := by
  intro more; simp

theorem LiveInv.step {F : Filter φ} {umax : Nat} (hc : BcjContract F umax) {φ₀ : φ} {D T : List UInt8} {f : φ} {U : List UInt8}
    (h : LiveInv F φ₀ D T f U) (c : List UInt8) :
    LiveInv F φ₀ (D ++ c) (T ++ (F f (U ++ c)).1.take (F f (U ++ c)).2.1) (F f (U ++ c)).2.2
      ((F f (U ++ c)).1.drop (F f (U ++ c)).2.1) := by
  intro more
  have h1 := h (c ++ more)
  rw [← List.append_assoc] at h1
  rw [h1, ← List.append_assoc U c more, hc.chunk f (U ++ c) more]
  have hl : ((F f (U ++ c)).1.take (F f (U ++ c)).2.1).length = (F f (U ++ c)).2.1 := by
    rw [List.length_take, hc.len]; exact Nat.min_eq_left (hc.count _ _)
  simp only [List.append_assoc, List.length_append, hl, Nat.add_assoc]

theorem LiveInv.final {F : Filter φ} {φ₀ : φ} {D T : List UInt8} {f : φ} {U : List UInt8}
    (h : LiveInv F φ₀ D T f U) (c : List UInt8) : (F φ₀ (D ++ c)).1 = T ++ (F f (U ++ c)).1 := by
  rw [h c]

/-- The invariant of `lzma_simple_coder` relative to the whole `input`, the consumed part `D` and the output so far `O`. -/
structure SInv (F : Filter φ) (φ₀ : φ) (input : List UInt8) (s : Simple φ Unit) (D O : List UInt8) : Prop where
  ord1 : s.pos ≤ s.filtered
  ord2 : s.filtered ≤ s.buffer.length
  live : s.endReached = false →
    LiveInv F φ₀ D (O ++ (s.buffer.take s.filtered).drop s.pos) s.filt (s.buffer.drop s.filtered)
  dead : s.endReached = true → D = input ∧ O ++ s.buffer.drop s.pos = (F φ₀ input).1 ∧ s.filtered = s.buffer.length

theorem SInv.init (F : Filter φ) (φ₀ : φ) (input : List UInt8) : SInv F φ₀ input (Simple.init φ₀ ()) [] [] :=
  ⟨by simp [Simple.init], by simp [Simple.init], fun _ => by simpa [Simple.init] using LiveInv.init F φ₀,
   fun h => by simp [Simple.init] at h⟩

theorem drop_take_self (l : List UInt8) (n : Nat) : (l.take n).drop n = [] := by
  apply List.drop_eq_nil_of_le; simp [List.length_take]; omega

theorem flush_split (l : List UInt8) (p n f : Nat) (h : p + n ≤ f) :
    (l.drop p).take n ++ (l.take f).drop (p + n) = (l.take f).drop p := by
  have e2 : (l.take f).drop p = (l.drop p).take (f - p) := List.drop_take ..
  have e3 : (l.take f).drop (p + n) = ((l.drop p).take (f - p)).drop n := by
    rw [← e2, List.drop_drop]
  have e4 : (l.drop p).take n = ((l.drop p).take (f - p)).take n := by
    rw [List.take_take]; congr; omega
  rw [e2, e3, e4, List.take_append_drop]

theorem take_take_drop (l : List UInt8) (k n : Nat) (h : k ≤ n) : l.take k ++ (l.take n).drop k = l.take n := by
  have : l.take k = (l.take n).take k := by rw [List.take_take]; congr; omega
  rw [this, List.take_append_drop]

/-- `runPiece` field by field (all `rfl`), with the action spelled the way `runPiece` spells it. -/
def pieceAct (fin : Bool) (restLen inLen : Nat) : Action := if fin && decide (restLen ≤ inLen) then Action.finish else Action.run

theorem runPiece_eq {σ : Type} (c : Coder σ) (fin : Bool) (r : Run σ) (inLen cap : Nat) :
    runPiece c fin r inLen cap =
      { state := (c.code r.state (r.rest.take inLen) cap (pieceAct fin r.rest.length inLen)).1
        rest := r.rest.drop (c.code r.state (r.rest.take inLen) cap (pieceAct fin r.rest.length inLen)).2.consumed
        out := r.out ++ (c.code r.state (r.rest.take inLen) cap (pieceAct fin r.rest.length inLen)).2.out
        consumed := r.consumed + (c.code r.state (r.rest.take inLen) cap (pieceAct fin r.rest.length inLen)).2.consumed
        ret := (c.code r.state (r.rest.take inLen) cap (pieceAct fin r.rest.length inLen)).2.ret
        settled := decide ((c.code r.state (r.rest.take inLen) cap (pieceAct fin r.rest.length inLen)).2.ret ≠ .ok)
          || (decide (r.rest.length ≤ inLen)
              && decide ((c.code r.state (r.rest.take inLen) cap (pieceAct fin r.rest.length inLen)).2.out.length < cap)) } := rfl

section stages
variable {F : Filter φ} {umax : Nat} (hc : BcjContract F umax) {φ₀ : φ} {input : List UInt8}
include hc

theorem stageACore_inv (s : Simple φ Unit) (copied : List UInt8) (used : Nat) (ended : Bool) (D O out0 : List UInt8)
    (hinv : SInv F φ₀ input s D O) (hend : s.endReached = false) (hpos : s.pos = s.filtered)
    (hfin : ended = true → D ++ copied = input) :
    ∃ new, (simpleStageACore F s (s.buffer.drop s.pos) ((), copied, used, ended) out0).2.1 = out0 ++ new
      ∧ SInv F φ₀ input (simpleStageACore F s (s.buffer.drop s.pos) ((), copied, used, ended) out0).1 (D ++ copied) (O ++ new)
      ∧ (simpleStageACore F s (s.buffer.drop s.pos) ((), copied, used, ended) out0).2.2 = used
      ∧ (simpleStageACore F s (s.buffer.drop s.pos) ((), copied, used, ended) out0).1.pos = 0
      ∧ (simpleStageACore F s (s.buffer.drop s.pos) ((), copied, used, ended) out0).1.filtered = 0
      ∧ ((simpleStageACore F s (s.buffer.drop s.pos) ((), copied, used, ended) out0).1.endReached = true →
          (simpleStageACore F s (s.buffer.drop s.pos) ((), copied, used, ended) out0).1.buffer = []) := by
  have hlive := hinv.live hend
  rw [hpos, drop_take_self, List.append_nil] at hlive
  rw [← hpos] at hlive
  cases ended with
  | true =>
    simp only [simpleStageACore, hend, Bool.false_or, if_true]
    refine ⟨_, rfl, ⟨by simp, by simp, fun h => by simp at h, fun _ => ⟨hfin rfl, ?_, by simp⟩⟩, by simp, by simp, by simp, by simp⟩
    have hf := hlive.final copied
    rw [← hfin rfl, hf]
    simp only [List.drop_zero, List.append_nil]
    congr 1
    split
    · rename_i hreg; rw [hreg]
      exact (List.eq_nil_of_length_eq_zero (by rw [hc.len]; rfl)).symm
    · rfl
  | false =>
    simp only [simpleStageACore, hend, Bool.false_or, Bool.false_eq_true, if_false]
    refine ⟨_, rfl, ⟨by simp, by simp, fun _ => ?_, fun h => by simp at h⟩, by simp, by simp, by simp, by simp⟩
    simp only [List.take_zero, List.drop_zero, List.append_nil]
    split
    · rename_i hreg
      have hU : s.buffer.drop s.pos = [] := (List.append_eq_nil_iff.mp hreg).1
      have hC : copied = [] := (List.append_eq_nil_iff.mp hreg).2
      subst hC
      simpa [hU] using hlive
    · exact hlive.step hc copied

theorem stageA_inv (isEnc : Bool) (s : Simple φ Unit) (D O out0 inp : List UInt8) (cap : Nat) (finish : Bool)
    (hinv : SInv F φ₀ input s D O) (hend : s.endReached = false) (hpos : s.pos = s.filtered)
    (hfin : finish = true → D ++ inp = input) :
    ∃ new, (simpleStageA F (Src.null isEnc) s inp cap finish out0).2.1 = out0 ++ new
      ∧ SInv F φ₀ input (simpleStageA F (Src.null isEnc) s inp cap finish out0).1
          (D ++ inp.take (simpleStageA F (Src.null isEnc) s inp cap finish out0).2.2) (O ++ new)
      ∧ (simpleStageA F (Src.null isEnc) s inp cap finish out0).2.2 ≤ inp.length
      ∧ (simpleStageA F (Src.null isEnc) s inp cap finish out0).1.pos = 0
      ∧ (simpleStageA F (Src.null isEnc) s inp cap finish out0).1.filtered = 0
      ∧ ((simpleStageA F (Src.null isEnc) s inp cap finish out0).1.endReached = true →
          (simpleStageA F (Src.null isEnc) s inp cap finish out0).1.buffer = []) := by
  simp only [simpleStageA, Src.null]
  split
  · have hn : min inp.length (cap - out0.length - (s.buffer.drop s.pos).length) ≤ inp.length := Nat.min_le_left _ _
    revert hn
    generalize min inp.length (cap - out0.length - (s.buffer.drop s.pos).length) = n
    intro hn
    obtain ⟨new, h1, h2, h3, h4, h5, h6⟩ := stageACore_inv hc s (inp.take n) n (isEnc && finish && decide (n = inp.length)) D O out0
      hinv hend hpos (by
        intro h
        simp only [Bool.and_eq_true, decide_eq_true_eq] at h
        rw [h.2, List.take_length]; exact hfin h.1.2)
    refine ⟨new, h1, ?_, by rw [h3]; exact hn, h4, h5, h6⟩
    rw [h3]; exact h2
  · refine ⟨[], by simp, ⟨by simp, by simp, fun _ => ?_, fun h => by simp [hend] at h⟩, by simp, rfl, rfl, fun h => by simp [hend] at h⟩
    have hlive := hinv.live hend
    rw [hpos, drop_take_self, List.append_nil] at hlive
    simpa [hpos] using hlive

theorem stageBCore_inv (a : Simple φ Unit × List UInt8 × Nat) (copied : List UInt8) (used : Nat) (ended : Bool)
    (D O : List UInt8) (cap : Nat)
    (hinv : SInv F φ₀ input a.1 D O) (hp : a.1.pos = 0) (hf : a.1.filtered = 0) (hend : a.1.endReached = false)
    (hfin : ended = true → D ++ copied = input) :
    ∃ new, (simpleStageBCore F a ((), copied, used, ended) cap).2.1 = a.2.1 ++ new
      ∧ (simpleStageBCore F a ((), copied, used, ended) cap).2.2 = a.2.2 + used
      ∧ SInv F φ₀ input (simpleStageBCore F a ((), copied, used, ended) cap).1 (D ++ copied) (O ++ new) := by
  have hlive := hinv.live hend
  simp only [hp, hf, List.take_zero, List.drop_zero, List.append_nil] at hlive
  have hlen := hc.len a.1.filt (a.1.buffer ++ copied)
  have hcnt := hc.count a.1.filt (a.1.buffer ++ copied)
  cases ended with
  | true =>
    simp only [simpleStageBCore, hend, Bool.false_or, if_true]
    refine ⟨_, rfl, by simp, ⟨Nat.min_le_left _ _, by simp, fun h => by simp at h, fun _ => ⟨hfin rfl, ?_, by simp⟩⟩⟩
    have hfz := hlive.final copied
    rw [← hfin rfl, hfz]
    simp only [List.append_assoc]
    congr 1
    exact List.take_append_drop _ _
  | false =>
    simp only [simpleStageBCore, hend, Bool.false_or, Bool.false_eq_true, if_false]
    refine ⟨_, rfl, by simp, ⟨Nat.min_le_left _ _, ?_, fun _ => ?_, fun h => by simp at h⟩⟩
    · simp only; rw [hlen]; exact hcnt
    · have hs := hlive.step hc copied
      simp only
      rw [List.append_assoc, take_take_drop _ _ _ (Nat.min_le_left _ _)]
      exact hs

theorem stageB_inv (isEnc : Bool) (allocated : Nat) (a : Simple φ Unit × List UInt8 × Nat) (D O inp : List UInt8) (cap : Nat)
    (finish : Bool) (hinv : SInv F φ₀ input a.1 D O) (hp : a.1.pos = 0) (hf : a.1.filtered = 0)
    (he : a.1.endReached = true → a.1.buffer = []) (hfin : finish = true → D ++ inp.drop a.2.2 = input) :
    ∃ new k, (simpleStageB F (Src.null isEnc) allocated a inp cap finish).2.1 = a.2.1 ++ new
      ∧ (simpleStageB F (Src.null isEnc) allocated a inp cap finish).2.2 = a.2.2 + k
      ∧ k ≤ (inp.drop a.2.2).length
      ∧ SInv F φ₀ input (simpleStageB F (Src.null isEnc) allocated a inp cap finish).1 (D ++ (inp.drop a.2.2).take k) (O ++ new) := by
  simp only [simpleStageB, Src.null]
  split
  · rename_i hne
    have hend : a.1.endReached = false := by
      cases h : a.1.endReached
      · rfl
      · exact absurd (he h) hne
    have hn : min (inp.drop a.2.2).length (allocated - a.1.buffer.length) ≤ (inp.drop a.2.2).length := Nat.min_le_left _ _
    revert hn
    generalize min (inp.drop a.2.2).length (allocated - a.1.buffer.length) = n
    intro hn
    obtain ⟨new, h1, h2, h3⟩ := stageBCore_inv hc a ((inp.drop a.2.2).take n) n
      (isEnc && finish && decide (n = (inp.drop a.2.2).length)) D O cap hinv hp hf hend (by
        intro h
        simp only [Bool.and_eq_true, decide_eq_true_eq] at h
        rw [h.2, List.take_length]; exact hfin h.1.2)
    exact ⟨new, n, h1, h2, hn, h3⟩
  · exact ⟨[], 0, by simp, by simp, by simp, by simpa using hinv⟩

/-- One whole `simple_code()` call keeps the invariant. -/
theorem simpleCode_inv (isEnc : Bool) (allocated : Nat) (s : Simple φ Unit) (D O inp : List UInt8) (cap : Nat) (a : Action)
    (hinv : SInv F φ₀ input s D O) (hlive : ¬(s.endReached = true ∧ s.pos = s.buffer.length)) (ha : a ≠ .syncFlush)
    (hfin : (a == .finish) = true → D ++ inp = input) :
    let r := simpleCode F (Src.null isEnc) allocated s inp cap a
    SInv F φ₀ input r.1 (D ++ inp.take r.2.consumed) (O ++ r.2.out) ∧ r.2.consumed ≤ inp.length
      ∧ (r.2.ret = .streamEnd ↔ (r.1.endReached = true ∧ r.1.pos = r.1.buffer.length))
      ∧ (r.2.ret = .ok ∨ r.2.ret = .streamEnd) := by
  -- the part after the flush, from a state with pos = filtered, not ended, having written out0 in this call
  have main : ∀ (s1 : Simple φ Unit) (out0 : List UInt8), SInv F φ₀ input s1 D (O ++ out0) → s1.endReached = false →
      s1.pos = s1.filtered →
      let r := simpleMain F (Src.null isEnc) allocated s1 inp cap (a == .finish) out0
      SInv F φ₀ input r.1 (D ++ inp.take r.2.2) (O ++ r.2.1) ∧ r.2.2 ≤ inp.length := by
    intro s1 out0 hi he hp
    simp only [simpleMain]
    obtain ⟨n1, a1, a2, a3, a4, a5, a6⟩ := stageA_inv hc isEnc s1 D (O ++ out0) out0 inp cap (a == .finish) hi he hp hfin
    have hfin2 : (a == .finish) = true →
        D ++ inp.take (simpleStageA F (Src.null isEnc) s1 inp cap (a == .finish) out0).2.2
          ++ inp.drop (simpleStageA F (Src.null isEnc) s1 inp cap (a == .finish) out0).2.2 = input := by
      intro h; rw [List.append_assoc, List.take_append_drop]; exact hfin h
    obtain ⟨n2, k, b1, b2, b3, b4⟩ := stageB_inv hc isEnc allocated _ _ _ inp cap (a == .finish) a2 a4 a5 a6 hfin2
    rw [b1, b2, a1]
    have hlen : k ≤ inp.length - (simpleStageA F (Src.null isEnc) s1 inp cap (a == .finish) out0).2.2 := by
      simpa using b3
    refine ⟨?_, by omega⟩
    have e : inp.take ((simpleStageA F (Src.null isEnc) s1 inp cap (a == .finish) out0).2.2 + k)
        = inp.take (simpleStageA F (Src.null isEnc) s1 inp cap (a == .finish) out0).2.2
          ++ (inp.drop (simpleStageA F (Src.null isEnc) s1 inp cap (a == .finish) out0).2.2).take k := by
      rw [List.take_add]
    rw [e, ← List.append_assoc D, ← List.append_assoc O, ← List.append_assoc O]
    exact b4
  have retIff : ∀ (s2 : Simple φ Unit), (simpleRet s2 = .streamEnd ↔ (s2.endReached = true ∧ s2.pos = s2.buffer.length))
      ∧ (simpleRet s2 = .ok ∨ simpleRet s2 = .streamEnd) := by
    intro s2
    simp only [simpleRet]
    split
    · rename_i h; simp only [Bool.and_eq_true, decide_eq_true_eq] at h; simp [h]
    · rename_i h; simp only [Bool.and_eq_true, decide_eq_true_eq] at h; simp [h]
  simp only [simpleCode, ha, if_false]
  split
  · -- flush already filtered data
    rename_i hpf
    have hn : min (s.filtered - s.pos) cap ≤ s.filtered - s.pos := Nat.min_le_left _ _
    revert hn
    generalize min (s.filtered - s.pos) cap = n
    intro hn
    have hi1 : SInv F φ₀ input { s with pos := s.pos + n } D (O ++ (s.buffer.drop s.pos).take n) := by
      refine ⟨by simp; omega, hinv.ord2, fun he => ?_, fun he => ?_⟩
      · have := hinv.live he
        simp only
        rw [List.append_assoc, flush_split _ _ _ _ (by omega)]
        exact this
      · obtain ⟨d1, d2, d3⟩ := hinv.dead he
        refine ⟨d1, ?_, d3⟩
        simp only
        rw [List.append_assoc, ← d2]
        congr 1
        rw [← List.drop_drop, List.take_append_drop]
    split
    · rename_i hlt
      refine ⟨by simpa using hi1, by simp, ?_, Or.inl rfl⟩
      simp only
      constructor
      · intro h; cases h
      · rintro ⟨_, h2⟩
        have := hinv.ord2
        omega
    · rename_i hge
      split
      · rename_i hend
        refine ⟨by simpa using hi1, by simp, ?_, Or.inr rfl⟩
        simp only [true_iff]
        refine ⟨hend, ?_⟩
        have := (hinv.dead hend).2.2
        omega
      · rename_i hend
        simp only [Bool.not_eq_true] at hend
        have hm := main { s with pos := s.pos + n } ((s.buffer.drop s.pos).take n) hi1 hend (by simp; omega)
        obtain ⟨m1, m2⟩ := hm
        exact ⟨m1, m2, retIff _⟩
  · rename_i hpf
    have hpe : s.pos = s.filtered := by have := hinv.ord1; omega
    have hend : s.endReached = false := by
      cases h : s.endReached
      · rfl
      · exfalso
        apply hlive
        refine ⟨h, ?_⟩
        have := (hinv.dead h).2.2
        omega
    have hm := main s [] (by simpa using hinv) hend hpe
    obtain ⟨m1, m2⟩ := hm
    exact ⟨m1, m2, retIff _⟩

/-- Invariant of a sliced run of the simple coder over `input`. -/
structure SRunInv (F : Filter φ) (φ₀ : φ) (input : List UInt8) (r : Run (Simple φ Unit)) : Prop where
  split : ∃ D, D ++ r.rest = input ∧ r.consumed = D.length ∧ SInv F φ₀ input r.state D r.out
  retOk : r.ret = .ok → ¬(r.state.endReached = true ∧ r.state.pos = r.state.buffer.length)
  retEnd : r.ret ≠ .ok → r.ret = .streamEnd ∧ r.state.endReached = true ∧ r.state.pos = r.state.buffer.length

omit hc in
theorem SRunInv.init (F : Filter φ) (φ₀ : φ) (input : List UInt8) : SRunInv F φ₀ input (Run.init (Simple.init φ₀ ()) input) :=
  ⟨⟨[], by simp [Run.init], by simp [Run.init], by simpa [Run.init] using SInv.init F φ₀ input⟩,
   fun _ => by simp [Run.init, Simple.init], fun h => by simp [Run.init] at h⟩

theorem SRunInv.piece (isEnc : Bool) (allocated : Nat) (fin : Bool) {r : Run (Simple φ Unit)} (h : SRunInv F φ₀ input r)
    (hok : r.ret = .ok) (inLen cap : Nat) :
    SRunInv F φ₀ input (runPiece (simpleCoder F (Src.null isEnc) allocated) fin r inLen cap) := by
  obtain ⟨D, hD, hcons, hinv⟩ := h.split
  have hact : pieceAct fin r.rest.length inLen ≠ Action.syncFlush := by
    unfold pieceAct; split <;> simp
  have hfinish : (pieceAct fin r.rest.length inLen == Action.finish) = true → D ++ r.rest.take inLen = input := by
    intro hf
    unfold pieceAct at hf
    cases hc' : (fin && decide (r.rest.length ≤ inLen)) with
    | false => simp [hc'] at hf
    | true =>
      simp only [Bool.and_eq_true, decide_eq_true_eq] at hc'
      rw [List.take_of_length_le hc'.2]; exact hD
  have key := simpleCode_inv hc isEnc allocated r.state D r.out (r.rest.take inLen) cap (pieceAct fin r.rest.length inLen)
    hinv (h.retOk hok) hact hfinish
  rw [runPiece_eq]
  simp only [simpleCoder]
  dsimp only at key
  obtain ⟨k1, k2, k3, k4⟩ := key
  have k2' := k2
  simp only [List.length_take] at k2'
  have hc1 := Nat.le_trans k2' (Nat.min_le_left _ _)
  have hc2 := Nat.le_trans k2' (Nat.min_le_right _ _)
  rw [List.take_take, Nat.min_eq_left hc1] at k1
  refine ⟨⟨_, ?_, ?_, k1⟩, ?_, ?_⟩
  · simp only
    rw [List.append_assoc, List.take_append_drop]; exact hD
  · simp only [List.length_append, List.length_take]
    rw [hcons, Nat.min_eq_left hc2]
  · intro hr
    simp only at hr ⊢
    intro hcontra
    have := k3.mpr hcontra
    rw [hr] at this; cases this
  · intro hr
    simp only at hr ⊢
    rcases k4 with k4 | k4
    · exact absurd k4 hr
    · exact ⟨k4, k3.mp k4⟩

theorem SRunInv.sliced (isEnc : Bool) (allocated : Nat) (fin : Bool) (sl : List (Nat × Nat)) {r : Run (Simple φ Unit)}
    (h : SRunInv F φ₀ input r) : SRunInv F φ₀ input (runSliced (simpleCoder F (Src.null isEnc) allocated) fin sl r) := by
  induction sl generalizing r with
  | nil => simpa [runSliced] using h
  | cons p sl ih =>
    obtain ⟨inLen, cap⟩ := p
    simp only [runSliced]
    split
    · exact h
    · rename_i hok
      exact ih (h.piece hc isEnc allocated fin (by simpa using hok) inLen cap)

omit hc in
/-- What a run has written so far is a prefix of the whole-input result; at `LZMA_STREAM_END` it is all of it. -/
theorem SRunInv.result {r : Run (Simple φ Unit)} (h : SRunInv F φ₀ input r) :
    (∃ o, (F φ₀ input).1 = r.out ++ o) ∧ (r.ret = .streamEnd → r.out = (F φ₀ input).1 ∧ r.consumed = input.length) := by
  obtain ⟨D, hD, hcons, hinv⟩ := h.split
  constructor
  · cases he : r.state.endReached with
    | false =>
      have := hinv.live he r.rest
      rw [hD] at this
      exact ⟨(r.state.buffer.take r.state.filtered).drop r.state.pos ++ (F r.state.filt (r.state.buffer.drop r.state.filtered ++ r.rest)).1,
        by rw [this]; simp only [List.append_assoc]⟩
    | true =>
      obtain ⟨_, d2, _⟩ := hinv.dead he
      exact ⟨_, d2.symm⟩
  · intro hr
    obtain ⟨_, e1, e2⟩ := h.retEnd (by rw [hr]; simp)
    obtain ⟨d1, d2, _⟩ := hinv.dead e1
    rw [e2, List.drop_length, List.append_nil] at d2
    exact ⟨d2, by rw [hcons, d1]⟩

end stages

end XzVerif.Coder
