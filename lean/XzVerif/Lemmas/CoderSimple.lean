/-
  `simple_code()` buffering is slicing independent for every filter that satisfies the BCJ contract (C06).
  Configuration proved: the filter's input comes from `lzma_bufcpy` (`Src.null`): `next.code == NULL` — the encoder configuration
  of every BCJ filter — or a next coder that behaves like it (C15's pass-through). Behind a real next coder the same argument needs
  that coder's own slicing independence.
  The contract is proved for the eight real filters in Lemmas/CoderBcj.lean (from C15's chunk-stability theorems); the transfer to
  C15's model of `simple_code()` is in Lemmas/CoderBcjEquiv.lean / CoderBcjRun.lean.
-/
import XzVerif.Model.CoderSmall

namespace XzVerif.Coder

variable {φ ν : Type}

/-- The contract `simple_coder.c` relies on. `F state buf = (buf', n, state')`; `state` contains `now_pos` and whatever the
    filter carries between calls (x86: `prev_mask`, `prev_pos`). `lim` bounds the buffer lengths for which prefix stability is
    claimed (x86: the 32-bit `prev_pos` arithmetic is only faithful below 4 GiB; the other filters satisfy it for every `lim`).
    Prefix stability speaks about bytes and counts only: the state reached by one call on `a ++ b` and by two calls may differ
    (x86 re-clamps `prev_pos` at the start of every call) as long as all later results agree — which is what the law, applied
    again from the state actually reached, says. -/
structure BcjContract (F : Filter φ) (unfilteredMax : Nat) (lim : Nat) : Prop where
  /-- the size never changes -/
  len : ∀ s b, (F s b).1.length = b.length
  /-- a prefix of `n` bytes is processed -/
  count : ∀ s b, (F s b).2.1 ≤ b.length
  /-- … and the rest is left untouched -/
  tail : ∀ s b, (F s b).1.drop (F s b).2.1 = b.drop (F s b).2.1
  /-- at most `unfiltered_max` bytes are left unprocessed (`assert(unfiltered <= coder->allocated / 2)`) -/
  leaves : ∀ s b, b.length - (F s b).2.1 ≤ unfilteredMax
  /-- prefix stability: one call on `a ++ b` = a call on `a`, then a call on (what that left) ++ `b` -/
  chunk : ∀ s a b, (a ++ b).length < lim →
    (F s (a ++ b)).1 = (F s a).1.take (F s a).2.1 ++ (F (F s a).2.2 ((F s a).1.drop (F s a).2.1 ++ b)).1
    ∧ (F s (a ++ b)).2.1 = (F s a).2.1 + (F (F s a).2.2 ((F s a).1.drop (F s a).2.1 ++ b)).2.1

/-- `D` = input consumed so far, `T` = bytes already filtered (written or pending), `f` = filter state, `U` = unfiltered bytes carried:
    whatever input follows (below the length limit), filtering everything at once yields `T` followed by filtering `U ++ more` from `f`. -/
structure LiveInv (F : Filter φ) (lim : Nat) (φ₀ : φ) (D T : List UInt8) (f : φ) (U : List UInt8) : Prop where
  size : T.length + U.length = D.length
  eq : ∀ more, (D ++ more).length < lim → (F φ₀ (D ++ more)).1 = T ++ (F f (U ++ more)).1

theorem LiveInv.init (F : Filter φ) (lim : Nat) (φ₀ : φ) : LiveInv F lim φ₀ [] [] φ₀ [] :=
  ⟨rfl, fun more _ => by simp⟩

theorem LiveInv.step {F : Filter φ} {umax lim : Nat} (hc : BcjContract F umax lim) {φ₀ : φ} {D T : List UInt8} {f : φ} {U : List UInt8}
    (h : LiveInv F lim φ₀ D T f U) (c : List UInt8) :
    LiveInv F lim φ₀ (D ++ c) (T ++ (F f (U ++ c)).1.take (F f (U ++ c)).2.1) (F f (U ++ c)).2.2
      ((F f (U ++ c)).1.drop (F f (U ++ c)).2.1) := by
  have hl := hc.len f (U ++ c)
  have hn := hc.count f (U ++ c)
  have hsz := h.size
  constructor
  · simp only [List.length_append, List.length_take, List.length_drop, hl] at hn ⊢
    omega
  · intro more hlim
    have h1 := h.eq (c ++ more) (by simpa [List.append_assoc] using hlim)
    rw [← List.append_assoc, ← List.append_assoc] at h1
    have hlim' : (U ++ c ++ more).length < lim := by
      simp only [List.length_append] at hlim ⊢; omega
    rw [h1, (hc.chunk f (U ++ c) more hlim').1, List.append_assoc]

theorem LiveInv.final {F : Filter φ} {lim : Nat} {φ₀ : φ} {D T : List UInt8} {f : φ} {U : List UInt8}
    (h : LiveInv F lim φ₀ D T f U) (c : List UInt8) (hl : (D ++ c).length < lim) : (F φ₀ (D ++ c)).1 = T ++ (F f (U ++ c)).1 :=
  h.eq c hl

/-- The invariant of `lzma_simple_coder` relative to `X` (the whole byte stream the source delivers: the caller's input when there is
    no next coder, the next coder's total output otherwise), the part `D` of it delivered so far and the output so far `O`. -/
structure SInv (F : Filter φ) (lim : Nat) (φ₀ : φ) (X : List UInt8) (E : ν → Prop) (s : Simple φ ν) (D O : List UInt8) : Prop where
  bound : X.length < lim
  ord1 : s.pos ≤ s.filtered
  ord2 : s.filtered ≤ s.buffer.length
  live : s.endReached = false →
    LiveInv F lim φ₀ D (O ++ (s.buffer.take s.filtered).drop s.pos) s.filt (s.buffer.drop s.filtered)
  dead : s.endReached = true → D = X ∧ O ++ s.buffer.drop s.pos = (F φ₀ X).1 ∧ s.filtered = s.buffer.length
  /-- once the end was reached the source is in an "ended" state (`E`) -/
  deadE : s.endReached = true → E s.next

theorem SInv.init (F : Filter φ) (lim : Nat) (φ₀ : φ) (X : List UInt8) (E : ν → Prop) (hlim : X.length < lim) (n₀ : ν) :
    SInv F lim φ₀ X E (Simple.init φ₀ n₀) [] [] :=
  ⟨hlim, by simp [Simple.init], by simp [Simple.init], fun _ => by simpa [Simple.init] using LiveInv.init F lim φ₀,
   fun h => by simp [Simple.init] at h, fun h => by simp [Simple.init] at h⟩

theorem drop_take_self (l : List UInt8) (n : Nat) : (l.take n).drop n = [] := by
  apply List.drop_eq_nil_of_le; simp [List.length_take]; omega

theorem flush_split (l : List UInt8) (p n f : Nat) (h : p + n ≤ f) :
    (l.drop p).take n ++ (l.take f).drop (p + n) = (l.take f).drop p := by
  have e2 : (l.take f).drop p = (l.drop p).take (f - p) := List.drop_take ..
  have e3 : (l.take f).drop (p + n) = ((l.drop p).take (f - p)).drop n := by
    rw [← e2, List.drop_drop]
  have e4 : (l.drop p).take n = ((l.drop p).take (f - p)).take n := by
    rw [List.take_take]; congr; omega
  rw [e2, e3, e4, List.take_append_drop]

theorem take_take_drop (l : List UInt8) (k n : Nat) (h : k ≤ n) : l.take k ++ (l.take n).drop k = l.take n := by
  have : l.take k = (l.take n).take k := by rw [List.take_take]; congr; omega
  rw [this, List.take_append_drop]

theorem take_drop_append (l : List UInt8) (n c : Nat) (hc : c ≤ (l.take n).length) :
    (l.take n).drop c ++ l.drop n = l.drop c := by
  induction l generalizing n c with
  | nil => simp
  | cons x xs ih =>
    cases n with
    | zero => simp at hc; subst hc; simp
    | succ n =>
      cases c with
      | zero => simp
      | succ c =>
        simp only [List.take_succ_cons, List.drop_succ_cons]
        exact ih n c (by simpa using hc)

/-- `runPiece` field by field (all `rfl`), with the action spelled the way `runPiece` spells it. -/
def pieceAct (fin : Bool) (restLen inLen : Nat) : Action := if fin && decide (restLen ≤ inLen) then Action.finish else Action.run

theorem runPiece_eq {σ : Type} (c : Coder σ) (fin : Bool) (r : Run σ) (inLen cap : Nat) :
    runPiece c fin r inLen cap =
      { state := (c.code r.state (r.rest.take inLen) cap (pieceAct fin r.rest.length inLen)).1
        rest := r.rest.drop (c.code r.state (r.rest.take inLen) cap (pieceAct fin r.rest.length inLen)).2.consumed
        out := r.out ++ (c.code r.state (r.rest.take inLen) cap (pieceAct fin r.rest.length inLen)).2.out
        consumed := r.consumed + (c.code r.state (r.rest.take inLen) cap (pieceAct fin r.rest.length inLen)).2.consumed
        ret := (c.code r.state (r.rest.take inLen) cap (pieceAct fin r.rest.length inLen)).2.ret
        settled := decide ((c.code r.state (r.rest.take inLen) cap (pieceAct fin r.rest.length inLen)).2.ret ≠ .ok)
          || (decide (r.rest.length ≤ inLen)
              && decide ((c.code r.state (r.rest.take inLen) cap (pieceAct fin r.rest.length inLen)).2.out.length < cap)) } := rfl

/-- **What `simple_code()` needs from whatever feeds it** (`copy_or_code()`): a ghost relation `G n D rest` — "in source state `n` the
    bytes `D` have been delivered and `rest` of the caller's input is unread" — such that a pull on `inp` (with `tail` not shown to this
    call; nothing is hidden when the action is `LZMA_FINISH`) consumes at most `inp`, keeps the relation with the delivered bytes
    appended, and reports the end only when the whole stream `X` has been delivered.
    Instances: no next coder (`G () D rest := D ++ rest = input`, `X = input`), and any byte machine as next coder
    (`G (st, eof) D rest := Reach … input D st eof rest`, `X` = what the machine has written when it is done). -/
structure SrcLaw (src : Src ν) (fin : Bool) (X : List UInt8) (G : ν → List UInt8 → List UInt8 → Prop) (E : ν → Prop) : Prop where
  pull : ∀ n D inp tail cap (finish : Bool), G n D (inp ++ tail) → (finish = true → tail = [] ∧ fin = true) →
    (src.pull n inp cap finish).2.2.1 ≤ inp.length
    ∧ G (src.pull n inp cap finish).1 (D ++ (src.pull n inp cap finish).2.1) (inp.drop (src.pull n inp cap finish).2.2.1 ++ tail)
    ∧ ((src.pull n inp cap finish).2.2.2 = true → D ++ (src.pull n inp cap finish).2.1 = X ∧ E (src.pull n inp cap finish).1)

section stages
variable {F : Filter φ} {umax lim : Nat} (hc : BcjContract F umax lim) {φ₀ : φ} {X : List UInt8} {E : ν → Prop}
include hc

theorem stageACore_inv (s : Simple φ ν) (n' : ν) (copied : List UInt8) (used : Nat) (ended : Bool) (D O out0 : List UInt8)
    (hinv : SInv F lim φ₀ X E s D O) (hend : s.endReached = false) (hpos : s.pos = s.filtered)
    (hfin : ended = true → D ++ copied = X ∧ E n') :
    ∃ new, (simpleStageACore F s (s.buffer.drop s.pos) (n', copied, used, ended) out0).2.1 = out0 ++ new
      ∧ SInv F lim φ₀ X E (simpleStageACore F s (s.buffer.drop s.pos) (n', copied, used, ended) out0).1 (D ++ copied) (O ++ new)
      ∧ (simpleStageACore F s (s.buffer.drop s.pos) (n', copied, used, ended) out0).2.2 = used
      ∧ (simpleStageACore F s (s.buffer.drop s.pos) (n', copied, used, ended) out0).1.next = n'
      ∧ (simpleStageACore F s (s.buffer.drop s.pos) (n', copied, used, ended) out0).1.pos = 0
      ∧ (simpleStageACore F s (s.buffer.drop s.pos) (n', copied, used, ended) out0).1.filtered = 0
      ∧ ((simpleStageACore F s (s.buffer.drop s.pos) (n', copied, used, ended) out0).1.endReached = true →
          (simpleStageACore F s (s.buffer.drop s.pos) (n', copied, used, ended) out0).1.buffer = []) := by
  have hlive := hinv.live hend
  rw [hpos, drop_take_self, List.append_nil] at hlive
  rw [← hpos] at hlive
  cases ended with
  | true =>
    simp only [simpleStageACore, hend, Bool.false_or, if_true]
    refine ⟨_, rfl, ⟨hinv.bound, by simp, by simp, fun h => by simp at h, fun _ => ⟨(hfin rfl).1, ?_, by simp⟩, fun _ => (hfin rfl).2⟩,
      by simp, by simp, by simp, by simp, by simp⟩
    have hf := hlive.final copied (by rw [(hfin rfl).1]; exact hinv.bound)
    rw [← (hfin rfl).1, hf]
    simp only [List.drop_zero, List.append_nil]
    congr 1
    split
    · rename_i hreg; rw [hreg]
      exact (List.eq_nil_of_length_eq_zero (by rw [hc.len]; rfl)).symm
    · rfl
  | false =>
    simp only [simpleStageACore, hend, Bool.false_or, Bool.false_eq_true, if_false]
    refine ⟨_, rfl, ⟨hinv.bound, by simp, by simp, fun _ => ?_, fun h => by simp at h, fun h => by simp at h⟩, by simp, by simp, by simp,
      by simp, by simp⟩
    simp only [List.take_zero, List.drop_zero, List.append_nil]
    split
    · rename_i hreg
      have hU : s.buffer.drop s.pos = [] := (List.append_eq_nil_iff.mp hreg).1
      have hC : copied = [] := (List.append_eq_nil_iff.mp hreg).2
      subst hC
      simpa [hU] using hlive
    · exact hlive.step hc copied

theorem stageA_inv {src : Src ν} {fin : Bool} {G : ν → List UInt8 → List UInt8 → Prop} (hl : SrcLaw src fin X G E)
    (s : Simple φ ν) (D O out0 inp tail : List UInt8) (cap : Nat) (finish : Bool)
    (hinv : SInv F lim φ₀ X E s D O) (hG : G s.next D (inp ++ tail)) (hend : s.endReached = false) (hpos : s.pos = s.filtered)
    (hfin : finish = true → tail = [] ∧ fin = true) :
    ∃ new C, (simpleStageA F src s inp cap finish out0).2.1 = out0 ++ new
      ∧ SInv F lim φ₀ X E (simpleStageA F src s inp cap finish out0).1 (D ++ C) (O ++ new)
      ∧ (simpleStageA F src s inp cap finish out0).2.2 ≤ inp.length
      ∧ G (simpleStageA F src s inp cap finish out0).1.next (D ++ C) (inp.drop (simpleStageA F src s inp cap finish out0).2.2 ++ tail)
      ∧ (simpleStageA F src s inp cap finish out0).1.pos = 0
      ∧ (simpleStageA F src s inp cap finish out0).1.filtered = 0
      ∧ ((simpleStageA F src s inp cap finish out0).1.endReached = true →
          (simpleStageA F src s inp cap finish out0).1.buffer = []) := by
  simp only [simpleStageA]
  split
  · obtain ⟨p1, p2, p3⟩ := hl.pull s.next D inp tail (cap - out0.length - (s.buffer.drop s.pos).length) finish hG hfin
    generalize src.pull s.next inp (cap - out0.length - (s.buffer.drop s.pos).length) finish = p at p1 p2 p3
    obtain ⟨n', copied, used, ended⟩ := p
    obtain ⟨new, h1, h2, h3, h4, h5, h6, h7⟩ := stageACore_inv hc s n' copied used ended D O out0 hinv hend hpos p3
    refine ⟨new, copied, h1, h2, by rw [h3]; exact p1, ?_, h5, h6, h7⟩
    rw [h3, h4]; exact p2
  · refine ⟨[], [], by simp, ?_, by simp, by simpa using hG, rfl, rfl, fun h => by simp [hend] at h⟩
    refine ⟨hinv.bound, by simp, by simp, fun _ => ?_, fun h => by simp [hend] at h, fun h => by simp [hend] at h⟩
    have hlive := hinv.live hend
    rw [hpos, drop_take_self, List.append_nil] at hlive
    simpa [hpos] using hlive

theorem stageBCore_inv (a : Simple φ ν × List UInt8 × Nat) (n' : ν) (copied : List UInt8) (used : Nat) (ended : Bool)
    (D O : List UInt8) (cap : Nat)
    (hinv : SInv F lim φ₀ X E a.1 D O) (hp : a.1.pos = 0) (hf : a.1.filtered = 0) (hend : a.1.endReached = false)
    (hfin : ended = true → D ++ copied = X ∧ E n') :
    ∃ new, (simpleStageBCore F a (n', copied, used, ended) cap).2.1 = a.2.1 ++ new
      ∧ (simpleStageBCore F a (n', copied, used, ended) cap).2.2 = a.2.2 + used
      ∧ (simpleStageBCore F a (n', copied, used, ended) cap).1.next = n'
      ∧ SInv F lim φ₀ X E (simpleStageBCore F a (n', copied, used, ended) cap).1 (D ++ copied) (O ++ new) := by
  have hlive := hinv.live hend
  simp only [hp, hf, List.take_zero, List.drop_zero, List.append_nil] at hlive
  have hlen := hc.len a.1.filt (a.1.buffer ++ copied)
  have hcnt := hc.count a.1.filt (a.1.buffer ++ copied)
  cases ended with
  | true =>
    simp only [simpleStageBCore, hend, Bool.false_or, if_true]
    refine ⟨_, rfl, by simp, by simp, ⟨hinv.bound, Nat.min_le_left _ _, by simp, fun h => by simp at h, fun _ => ⟨(hfin rfl).1, ?_, by simp⟩,
      fun _ => (hfin rfl).2⟩⟩
    have hfz := hlive.final copied (by rw [(hfin rfl).1]; exact hinv.bound)
    rw [← (hfin rfl).1, hfz]
    simp only [List.append_assoc]
    congr 1
    exact List.take_append_drop _ _
  | false =>
    simp only [simpleStageBCore, hend, Bool.false_or, Bool.false_eq_true, if_false]
    refine ⟨_, rfl, by simp, by simp, ⟨hinv.bound, Nat.min_le_left _ _, ?_, fun _ => ?_, fun h => by simp at h, fun h => by simp at h⟩⟩
    · simp only; rw [hlen]; exact hcnt
    · have hs := hlive.step hc copied
      simp only
      rw [List.append_assoc, take_take_drop _ _ _ (Nat.min_le_left _ _)]
      exact hs

theorem stageB_inv {src : Src ν} {fin : Bool} {G : ν → List UInt8 → List UInt8 → Prop} (hl : SrcLaw src fin X G E)
    (allocated : Nat) (a : Simple φ ν × List UInt8 × Nat) (D O inp tail : List UInt8) (cap : Nat)
    (finish : Bool) (hinv : SInv F lim φ₀ X E a.1 D O) (hG : G a.1.next D (inp.drop a.2.2 ++ tail)) (hp : a.1.pos = 0)
    (hf : a.1.filtered = 0) (he : a.1.endReached = true → a.1.buffer = []) (hfin : finish = true → tail = [] ∧ fin = true) :
    ∃ new C k, (simpleStageB F src allocated a inp cap finish).2.1 = a.2.1 ++ new
      ∧ (simpleStageB F src allocated a inp cap finish).2.2 = a.2.2 + k
      ∧ k ≤ (inp.drop a.2.2).length
      ∧ G (simpleStageB F src allocated a inp cap finish).1.next (D ++ C) ((inp.drop a.2.2).drop k ++ tail)
      ∧ SInv F lim φ₀ X E (simpleStageB F src allocated a inp cap finish).1 (D ++ C) (O ++ new) := by
  simp only [simpleStageB]
  split
  · rename_i hne
    have hend : a.1.endReached = false := by
      cases h : a.1.endReached
      · rfl
      · exact absurd (he h) hne
    obtain ⟨p1, p2, p3⟩ := hl.pull a.1.next D (inp.drop a.2.2) tail (allocated - a.1.buffer.length) finish hG hfin
    generalize src.pull a.1.next (inp.drop a.2.2) (allocated - a.1.buffer.length) finish = p at p1 p2 p3
    obtain ⟨n', copied, used, ended⟩ := p
    obtain ⟨new, h1, h2, h3, h4⟩ := stageBCore_inv hc a n' copied used ended D O cap hinv hp hf hend p3
    exact ⟨new, copied, used, h1, h2, p1, by rw [h3]; exact p2, h4⟩
  · exact ⟨[], [], 0, by simp, by simp, by simp, by simpa using hG, by simpa using hinv⟩

/-- One whole `simple_code()` call keeps the invariant. `C` = what the source delivered during this call. -/
theorem simpleCode_inv {src : Src ν} {fin : Bool} {G : ν → List UInt8 → List UInt8 → Prop} (hl : SrcLaw src fin X G E)
    (allocated : Nat) (s : Simple φ ν) (D O inp tail : List UInt8) (cap : Nat) (a : Action)
    (hinv : SInv F lim φ₀ X E s D O) (hG : G s.next D (inp ++ tail)) (hlive : ¬(s.endReached = true ∧ s.pos = s.buffer.length))
    (ha : a ≠ .syncFlush) (hfin : (a == .finish) = true → tail = [] ∧ fin = true) :
    let r := simpleCode F src allocated s inp cap a
    ∃ C, SInv F lim φ₀ X E r.1 (D ++ C) (O ++ r.2.out) ∧ r.2.consumed ≤ inp.length
      ∧ G r.1.next (D ++ C) (inp.drop r.2.consumed ++ tail)
      ∧ (r.2.ret = .streamEnd ↔ (r.1.endReached = true ∧ r.1.pos = r.1.buffer.length))
      ∧ (r.2.ret = .ok ∨ r.2.ret = .streamEnd) := by
  -- the part after the flush, from a state with pos = filtered, not ended, having written out0 in this call
  have main : ∀ (s1 : Simple φ ν) (out0 : List UInt8), SInv F lim φ₀ X E s1 D (O ++ out0) → s1.next = s.next → s1.endReached = false →
      s1.pos = s1.filtered →
      let r := simpleMain F src allocated s1 inp cap (a == .finish) out0
      ∃ C, SInv F lim φ₀ X E r.1 (D ++ C) (O ++ r.2.1) ∧ r.2.2 ≤ inp.length ∧ G r.1.next (D ++ C) (inp.drop r.2.2 ++ tail) := by
    intro s1 out0 hi hn he hp
    simp only [simpleMain]
    obtain ⟨n1, C1, a1, a2, a3, a4, a5, a6, a7⟩ := stageA_inv hc hl s1 D (O ++ out0) out0 inp tail cap (a == .finish) hi
      (by rw [hn]; exact hG) he hp hfin
    obtain ⟨n2, C2, k, b1, b2, b3, b4, b5⟩ := stageB_inv hc hl allocated _ _ _ inp tail cap (a == .finish) a2 a4 a5 a6 a7 hfin
    rw [b1, b2, a1]
    have hlen : k ≤ inp.length - (simpleStageA F src s1 inp cap (a == .finish) out0).2.2 := by
      simpa using b3
    refine ⟨C1 ++ C2, ?_, by omega, ?_⟩
    · rw [← List.append_assoc D, ← List.append_assoc O, ← List.append_assoc O]
      exact b5
    · rw [← List.append_assoc D, ← List.drop_drop]
      exact b4
  have retIff : ∀ (s2 : Simple φ ν), (simpleRet s2 = .streamEnd ↔ (s2.endReached = true ∧ s2.pos = s2.buffer.length))
      ∧ (simpleRet s2 = .ok ∨ simpleRet s2 = .streamEnd) := by
    intro s2
    simp only [simpleRet]
    split
    · rename_i h; simp only [Bool.and_eq_true, decide_eq_true_eq] at h; simp [h]
    · rename_i h; simp only [Bool.and_eq_true, decide_eq_true_eq] at h; simp [h]
  simp only [simpleCode, ha, if_false]
  split
  · -- flush already filtered data
    rename_i hpf
    have hn : min (s.filtered - s.pos) cap ≤ s.filtered - s.pos := Nat.min_le_left _ _
    revert hn
    generalize min (s.filtered - s.pos) cap = n
    intro hn
    have hi1 : SInv F lim φ₀ X E { s with pos := s.pos + n } D (O ++ (s.buffer.drop s.pos).take n) := by
      refine ⟨hinv.bound, by simp; omega, hinv.ord2, fun he => ?_, fun he => ?_, fun he => hinv.deadE he⟩
      · have := hinv.live he
        simp only
        rw [List.append_assoc, flush_split _ _ _ _ (by omega)]
        exact this
      · obtain ⟨d1, d2, d3⟩ := hinv.dead he
        refine ⟨d1, ?_, d3⟩
        simp only
        rw [List.append_assoc, ← d2]
        congr 1
        rw [← List.drop_drop, List.take_append_drop]
    split
    · rename_i hlt
      refine ⟨[], by simpa using hi1, by simp, by simpa using hG, ?_, Or.inl rfl⟩
      simp only
      constructor
      · intro h; cases h
      · rintro ⟨_, h2⟩
        have := hinv.ord2
        omega
    · rename_i hge
      split
      · rename_i hend
        refine ⟨[], by simpa using hi1, by simp, by simpa using hG, ?_, Or.inr rfl⟩
        simp only [true_iff]
        refine ⟨hend, ?_⟩
        have := (hinv.dead hend).2.2
        omega
      · rename_i hend
        simp only [Bool.not_eq_true] at hend
        obtain ⟨C, m1, m2, m3⟩ := main { s with pos := s.pos + n } ((s.buffer.drop s.pos).take n) hi1 rfl hend (by simp; omega)
        exact ⟨C, m1, m2, m3, retIff _⟩
  · rename_i hpf
    have hpe : s.pos = s.filtered := by have := hinv.ord1; omega
    have hend : s.endReached = false := by
      cases h : s.endReached
      · rfl
      · exfalso
        apply hlive
        refine ⟨h, ?_⟩
        have := (hinv.dead h).2.2
        omega
    obtain ⟨C, m1, m2, m3⟩ := main s [] (by simpa using hinv) rfl hend hpe
    exact ⟨C, m1, m2, m3, retIff _⟩

/-- Invariant of a sliced run of the simple coder over `input` (`total` = its length). -/
structure SRunInv (F : Filter φ) (lim : Nat) (φ₀ : φ) (X : List UInt8) (G : ν → List UInt8 → List UInt8 → Prop) (E : ν → Prop) (total : Nat)
    (r : Run (Simple φ ν)) : Prop where
  split : ∃ D, G r.state.next D r.rest ∧ SInv F lim φ₀ X E r.state D r.out
  len : r.consumed + r.rest.length = total
  retOk : r.ret = .ok → ¬(r.state.endReached = true ∧ r.state.pos = r.state.buffer.length)
  retEnd : r.ret ≠ .ok → r.ret = .streamEnd ∧ r.state.endReached = true ∧ r.state.pos = r.state.buffer.length

omit hc in
theorem SRunInv.init (F : Filter φ) (lim : Nat) (φ₀ : φ) (X : List UInt8) (G : ν → List UInt8 → List UInt8 → Prop) (E : ν → Prop)
    (input : List UInt8) (hlim : X.length < lim) (n₀ : ν) (hG : G n₀ [] input) :
    SRunInv F lim φ₀ X G E input.length (Run.init (Simple.init φ₀ n₀) input) :=
  ⟨⟨[], by simpa [Run.init, Simple.init] using hG, by simpa [Run.init] using SInv.init F lim φ₀ X E hlim n₀⟩, by simp [Run.init],
   fun _ => by simp [Run.init, Simple.init], fun h => by simp [Run.init] at h⟩

theorem SRunInv.piece {src : Src ν} {fin : Bool} {G : ν → List UInt8 → List UInt8 → Prop} {total : Nat} (hl : SrcLaw src fin X G E)
    (allocated : Nat) {r : Run (Simple φ ν)} (h : SRunInv F lim φ₀ X G E total r)
    (hok : r.ret = .ok) (inLen cap : Nat) :
    SRunInv F lim φ₀ X G E total (runPiece (simpleCoder F src allocated) fin r inLen cap) := by
  obtain ⟨D, hG, hinv⟩ := h.split
  have hact : pieceAct fin r.rest.length inLen ≠ Action.syncFlush := by
    unfold pieceAct; split <;> simp
  have hfinish : (pieceAct fin r.rest.length inLen == Action.finish) = true → r.rest.drop inLen = [] ∧ fin = true := by
    intro hf
    unfold pieceAct at hf
    cases hc' : (fin && decide (r.rest.length ≤ inLen)) with
    | false => simp [hc'] at hf
    | true =>
      simp only [Bool.and_eq_true, decide_eq_true_eq] at hc'
      exact ⟨List.drop_eq_nil_of_le hc'.2, hc'.1⟩
  have key := simpleCode_inv hc hl allocated r.state D r.out (r.rest.take inLen) (r.rest.drop inLen) cap (pieceAct fin r.rest.length inLen)
    hinv (by rw [List.take_append_drop]; exact hG) (h.retOk hok) hact hfinish
  rw [runPiece_eq]
  simp only [simpleCoder]
  dsimp only at key
  obtain ⟨C, k1, k2, k3, k4, k5⟩ := key
  have k2' := k2
  simp only [List.length_take] at k2'
  have hc2 := Nat.le_trans k2' (Nat.min_le_right _ _)
  refine ⟨⟨D ++ C, ?_, k1⟩, ?_, ?_, ?_⟩
  · simp only
    have e := take_drop_append r.rest inLen _ k2
    rw [← e]; exact k3
  · simp only [List.length_drop]
    have := h.len
    omega
  · intro hr
    simp only at hr ⊢
    intro hcontra
    have := k4.mpr hcontra
    rw [hr] at this; cases this
  · intro hr
    simp only at hr ⊢
    rcases k5 with k5 | k5
    · exact absurd k5 hr
    · exact ⟨k5, k4.mp k5⟩

theorem SRunInv.sliced {src : Src ν} {fin : Bool} {G : ν → List UInt8 → List UInt8 → Prop} {total : Nat} (hl : SrcLaw src fin X G E)
    (allocated : Nat) (sl : List (Nat × Nat)) {r : Run (Simple φ ν)}
    (h : SRunInv F lim φ₀ X G E total r) : SRunInv F lim φ₀ X G E total (runSliced (simpleCoder F src allocated) fin sl r) := by
  induction sl generalizing r with
  | nil => simpa [runSliced] using h
  | cons p sl ih =>
    obtain ⟨inLen, cap⟩ := p
    simp only [runSliced]
    split
    · exact h
    · rename_i hok
      exact ih (h.piece hc hl allocated (by simpa using hok) inLen cap)

omit hc in
/-- What a run has written so far is a prefix of the filter applied to what the source has delivered so far (if that is below the
    length limit); at `LZMA_STREAM_END` the source has delivered all of `X` and the output is the filter applied to `X`. -/
theorem SRunInv.result {G : ν → List UInt8 → List UInt8 → Prop} {total : Nat} {r : Run (Simple φ ν)} (h : SRunInv F lim φ₀ X G E total r) :
    (∃ D, G r.state.next D r.rest ∧ (D.length < lim → ∃ o, (F φ₀ D).1 = r.out ++ o))
      ∧ (r.ret = .streamEnd → r.out = (F φ₀ X).1 ∧ G r.state.next X r.rest ∧ E r.state.next) := by
  obtain ⟨D, hG, hinv⟩ := h.split
  constructor
  · refine ⟨D, hG, fun hD => ?_⟩
    cases he : r.state.endReached with
    | false =>
      have := (hinv.live he).eq [] (by simpa using hD)
      rw [List.append_nil] at this
      exact ⟨(r.state.buffer.take r.state.filtered).drop r.state.pos ++ (F r.state.filt (r.state.buffer.drop r.state.filtered ++ [])).1,
        by rw [this]; simp only [List.append_assoc]⟩
    | true =>
      obtain ⟨d1, d2, _⟩ := hinv.dead he
      rw [d1]
      exact ⟨_, d2.symm⟩
  · intro hr
    obtain ⟨_, e1, e2⟩ := h.retEnd (by rw [hr]; simp)
    obtain ⟨d1, d2, _⟩ := hinv.dead e1
    rw [e2, List.drop_length, List.append_nil] at d2
    exact ⟨d2, by rw [← d1]; exact hG, hinv.deadE e1⟩

end stages

/-! ### Instance 1: no next coder (`lzma_bufcpy`) -/

/-- `copy_or_code()` with `next.code == NULL`: the delivered bytes are the consumed input. -/
def NullG (input : List UInt8) : Unit → List UInt8 → List UInt8 → Prop := fun _ D rest => D ++ rest = input

theorem nullLaw (endsAtFinish : Bool) (fin : Bool) (input : List UInt8) :
    SrcLaw (Src.null endsAtFinish) fin input (NullG input) (fun _ => True) := by
  constructor
  intro n D inp tail cap finish hG hfin
  simp only [Src.null, NullG] at hG ⊢
  have hn : min inp.length cap ≤ inp.length := Nat.min_le_left _ _
  revert hn
  generalize min inp.length cap = k
  intro hn
  refine ⟨hn, ?_, fun he => ⟨?_, trivial⟩⟩
  · rw [List.append_assoc, ← List.append_assoc (inp.take k), List.take_append_drop]; exact hG
  · simp only [Bool.and_eq_true, decide_eq_true_eq] at he
    obtain ⟨⟨_, hf⟩, hk⟩ := he
    obtain ⟨ht, _⟩ := hfin hf
    rw [hk, List.take_length]
    rw [ht, List.append_nil] at hG
    exact hG

/-- What a run with no next coder has written so far is a prefix of the whole-input result; at `LZMA_STREAM_END` it is all of it and
    all input has been consumed. -/
theorem SRunInv.result_null {F : Filter φ} {lim : Nat} {φ₀ : φ} {input : List UInt8} {r : Run (Simple φ Unit)}
    (h : SRunInv F lim φ₀ input (NullG input) (fun _ => True) input.length r) :
    (∃ o, (F φ₀ input).1 = r.out ++ o) ∧ (r.ret = .streamEnd → r.out = (F φ₀ input).1 ∧ r.consumed = input.length) := by
  obtain ⟨D, hG, hinv⟩ := h.split
  have hG' : D ++ r.rest = input := hG
  constructor
  · cases he : r.state.endReached with
    | false =>
      have := (hinv.live he).eq r.rest (by rw [hG']; exact hinv.bound)
      rw [hG'] at this
      exact ⟨(r.state.buffer.take r.state.filtered).drop r.state.pos ++ (F r.state.filt (r.state.buffer.drop r.state.filtered ++ r.rest)).1,
        by rw [this]; simp only [List.append_assoc]⟩
    | true =>
      obtain ⟨_, d2, _⟩ := hinv.dead he
      exact ⟨_, d2.symm⟩
  · intro hr
    obtain ⟨e1, e2, _⟩ := h.result.2 hr
    refine ⟨e1, ?_⟩
    have e3 : input ++ r.rest = input := e2
    have hnil : r.rest = [] := by
      have := congrArg List.length e3
      simp only [List.length_append] at this
      exact List.eq_nil_of_length_eq_zero (by omega)
    have := h.len
    rw [hnil] at this
    simpa using this

end XzVerif.Coder
