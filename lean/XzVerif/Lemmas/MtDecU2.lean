/-
  UInv: main-thread steps and reachability.
-/
import XzVerif.Lemmas.MtDecU

namespace XzVerif.MtDec

structure UCore (a b : State) : Prop where
  len : b.workers.length = a.workers.length
  free : b.threadsFree = a.threadsFree
  cfg : b.cfg = a.cfg
  pw : ∀ j, (getW b j).pc = (getW a j).pc ∧ ((getW b j).st = .run → (getW a j).st = .run) ∧
    (getW b j).hasOut = (getW a j).hasOut ∧ (getW b j).inPos = (getW a j).inPos ∧
    ((getW a j).pu = .start → (getW b j).pu = .start)

theorem UCore.refl (a : State) : UCore a a := ⟨rfl, rfl, rfl, fun _ => ⟨rfl, fun h => h, rfl, rfl, fun h => h⟩⟩

theorem UCore.trans {a b c : State} (h1 : UCore a b) (h2 : UCore b c) : UCore a c :=
  ⟨h2.len.trans h1.len, h2.free.trans h1.free, h2.cfg.trans h1.cfg, fun j =>
    ⟨(h2.pw j).1.trans (h1.pw j).1, fun h => (h1.pw j).2.1 ((h2.pw j).2.1 h), (h2.pw j).2.2.1.trans (h1.pw j).2.2.1,
     (h2.pw j).2.2.2.1.trans (h1.pw j).2.2.2.1, fun h => (h2.pw j).2.2.2.2 ((h1.pw j).2.2.2.2 h)⟩⟩

theorem UCore.fields {a b : State} (e1 : b.workers = a.workers) (e2 : b.threadsFree = a.threadsFree) (e3 : b.cfg = a.cfg) :
    UCore a b :=
  ⟨by rw [e1], e2, e3, fun j => by simp [getW, e1]⟩

theorem UCore.setW (s : State) (i : Nat) (w : Worker) (e1 : w.pc = (getW s i).pc) (e2 : w.st = .run → (getW s i).st = .run)
    (e3 : w.hasOut = (getW s i).hasOut) (e4 : w.inPos = (getW s i).inPos) (e5 : (getW s i).pu = .start → w.pu = .start) :
    UCore s (MtDec.setW s i w) := by
  refine ⟨by simp, rfl, rfl, ?_⟩
  intro j
  by_cases hi : i < s.workers.length
  · rw [getW_setW s i j w hi]
    by_cases e : i = j
    · subst e; simp only [if_true]; exact ⟨e1, e2, e3, e4, e5⟩
    · simp [e]
  · have : (MtDec.setW s i w).workers = s.workers := by
      simp only [MtDec.setW]; exact List.set_eq_of_length_le (by omega)
    have eg : getW (MtDec.setW s i w) j = getW s j := by simp [getW, this]
    rw [eg]; exact ⟨rfl, fun h => h, rfl, rfl, fun h => h⟩

theorem UInv.ofCore {a b : State} (h : UInv a) (c : UCore a b) (q3 : b.pc ≠ .init3) (q4 : b.pc ≠ .init4) : UInv b := by
  refine ⟨?_, ?_, ?_, ?_, ?_, by rw [c.free]; exact h.nodup, by rw [c.len, c.cfg]; exact h.len, ?_⟩
  · intro i hi; rw [c.len] at hi; rw [(c.pw i).1, (c.pw i).2.2.1]; exact h.busy i hi
  · intro i hi hr; rw [c.len] at hi; rw [(c.pw i).2.2.1]; exact h.run i hi ((c.pw i).2.1 hr)
  · intro i hi hp hr; rw [c.len] at hi; rw [(c.pw i).1] at hp; exact h.fin i hi hp ((c.pw i).2.1 hr)
  · intro hp; rcases hp with e | e
    · exact absurd e q3
    · exact absurd e q4
  · intro i hi; rw [c.free] at hi
    obtain ⟨a1, a2, a3⟩ := h.free i hi
    rw [c.len, (c.pw i).1]
    exact ⟨a1, a2, fun hr => a3 ((c.pw i).2.1 hr)⟩
  · intro i hi lim pu hp
    rw [c.len] at hi; rw [(c.pw i).1] at hp
    obtain ⟨a1, a2⟩ := h.snap i hi lim pu hp
    rw [(c.pw i).2.2.2.1]
    exact ⟨a1, fun hs => (c.pw i).2.2.2.2 (a2 hs)⟩

theorem enablePartialHead_u (s : State) : UCore s (enablePartialHead s) := by
  unfold enablePartialHead
  split
  · split
    · split
      · rename_i w _
        exact (UCore.setW s w (signalW { getW s w with pu := .start }) rfl (fun h => h) rfl rfl (fun _ => rfl)).trans
          (UCore.fields rfl rfl rfl)
      · exact UCore.refl s
    · exact UCore.refl s
  · exact UCore.refl s

theorem outqRead_u (s : State) : UCore s (outqRead s).1 := by
  unfold outqRead
  split
  · exact UCore.refl s
  · dsimp only
    split
    · exact UCore.fields rfl rfl rfl
    · exact UCore.fields rfl rfl rfl

theorem readLoop_u : ∀ (n : Nat) (s : State), UCore s (readLoop n s).1
  | 0, s => UCore.refl s
  | n + 1, s => by
    unfold readLoop
    have h1 := outqRead_u s
    generalize outqRead s = p at h1 ⊢
    obtain ⟨s1, r⟩ := p
    dsimp only at h1 ⊢
    split
    · exact (h1.trans (enablePartialHead_u s1)).trans (readLoop_u n (enablePartialHead s1))
    · exact h1

theorem rowIterate_u (s : State) (k : RowK) (w : Bool) : UCore s (rowIterate s k w) := by
  have r := readLoop_u (s.queue.length + 1) s
  unfold rowIterate
  dsimp only
  split
  · exact r.trans (UCore.fields rfl rfl rfl)
  · have m : UCore (readLoop (s.queue.length + 1) s).1 (markFilled (readLoop (s.queue.length + 1) s).1 s.outCap) := by
      unfold markFilled; split
      · exact UCore.fields rfl rfl rfl
      · exact UCore.refl _
    split
    · exact (r.trans m).trans (UCore.fields rfl rfl rfl)
    · have f : UCore (markFilled (readLoop (s.queue.length + 1) s).1 s.outCap)
          (flagPend (markFilled (readLoop (s.queue.length + 1) s).1 s.outCap)) := by
        unfold flagPend; split
        · exact UCore.fields rfl rfl rfl
        · exact UCore.refl _
      refine ((r.trans m).trans f).trans ?_
      unfold rowLeaveOrWait
      repeat' split
      all_goals exact UCore.fields rfl rfl rfl

theorem UInv.ofSetW {s s' : State} (h : UInv s) {i : Nat} {w : Worker} (ew : s'.workers = (MtDec.setW s i w).workers)
    (e1 : w.pc = (getW s i).pc) (e2 : w.st = .run → (getW s i).st = .run)
    (e3 : w.hasOut = (getW s i).hasOut) (e4 : w.inPos = (getW s i).inPos) (e5 : (getW s i).pu = .start → w.pu = .start)
    (ef : s'.threadsFree = s.threadsFree) (ec : s'.cfg = s.cfg) (q3 : s'.pc ≠ .init3) (q4 : s'.pc ≠ .init4) : UInv s' :=
  h.ofCore ((UCore.setW s i w e1 e2 e3 e4 e5).trans (UCore.fields ew ef ec)) q3 q4

def Label.uSimple : Label → Bool
  | .getThread | .assign | .startThr | .endJoin | .enablePartial | .rowIter _ => false
  | _ => true

theorem UInv.mainSimple {s s' : State} {l : Label} (h : UInv s) (hl : l.worker? = none)
    (hsim : l.uSimple = true) (hs : step s l = some s') : UInv s' := by
  cases l <;> simp only [Label.worker?, reduceCtorEq] at hl <;> simp only [Label.uSimple, reduceCtorEq] at hsim <;>
    simp only [step] at hs
  all_goals (repeat' split at hs)
  all_goals first | (cases hs; done) | skip
  all_goals (cases hs)
  all_goals first
    | (refine h.ofCore (UCore.fields rfl rfl rfl) ?_ ?_ <;> simp_all <;> done)
    | (refine h.ofSetW rfl rfl ?_ rfl rfl ?_ rfl rfl ?_ ?_ <;> simp_all [signalW] <;> done)

theorem getW_app_lt' (s s' : State) (x : Worker) (e : s'.workers = s.workers ++ [x]) (j : Nat) (hj : j < s.workers.length) :
    getW s' j = getW s j := getW_app_lt s s' x e j hj

theorem UInv.mainOther {s s' : State} {l : Label} (h : UInv s) (hl : l.worker? = none)
    (hsim : l.uSimple = false) (hs : step s l = some s') : UInv s' := by
  cases l <;> simp only [Label.worker?, reduceCtorEq] at hl <;> simp only [Label.uSimple, reduceCtorEq] at hsim <;>
    simp only [step] at hs
  case getThread =>
    split at hs
    case isFalse => cases hs
    rename_i hp
    have hp : s.pc = .init2 := by simpa using hp
    split at hs
    · rename_i w rest hpop
      cases hs
      have hfree : s.threadsFree = w :: rest := by
        unfold popFree at hpop
        split at hpop
        · injection hpop with e; injection e with e1 e2; subst e1; subst e2; assumption
        · cases hpop
      have hnd := h.nodup
      rw [hfree] at hnd
      obtain ⟨hw1, hw2⟩ := List.nodup_cons.mp hnd
      refine ⟨h.busy, h.run, h.fin, ?_, ?_, hw2, h.len, h.snap⟩
      · intro _ t ht
        have ht' : some w = some t := ht
        injection ht' with e; subst e
        obtain ⟨a1, a2, a3⟩ := h.free w (by rw [hfree]; simp)
        exact ⟨a1, a2, a3, hw1, fun hq => by cases hq⟩
      · intro j hj
        exact h.free j (by rw [hfree]; exact List.mem_cons_of_mem _ hj)
    · split at hs
      case isFalse => cases hs
      rename_i hlt
      cases hs
      have eL : ∀ j, j < s.workers.length → getW { s with workers := s.workers ++ [({} : Worker)], thr := some s.workers.length, pc := .init3 } j = getW s j :=
        fun j hj => getW_app_lt s _ {} rfl j hj
      have eN : getW { s with workers := s.workers ++ [({} : Worker)], thr := some s.workers.length, pc := .init3 } s.workers.length = {} :=
        getW_app_eq s _ {} rfl
      have key : ∀ (P : Worker → Prop), P {} → (∀ j, j < s.workers.length → P (getW s j)) →
          ∀ j, j < s.workers.length + 1 → P (getW { s with workers := s.workers ++ [({} : Worker)], thr := some s.workers.length, pc := .init3 } j) := by
        intro P p0 pj j hj
        by_cases e : j < s.workers.length
        · rw [eL j e]; exact pj j e
        · have : j = s.workers.length := by omega
          subst this; rw [eN]; exact p0
      refine ⟨?_, ?_, ?_, ?_, ?_, h.nodup, ?_, ?_⟩
      · intro j hj; exact key (fun w => busyPc w.pc → w.hasOut = true) (fun x => x.elim) h.busy j (by simpa using hj)
      · intro j hj; exact key (fun w => w.st = .run → w.hasOut = true) (fun x => by cases x) h.run j (by simpa using hj)
      · intro j hj; exact key (fun w => (∃ r, w.pc = .fin2 r ∨ w.pc = .fin3 r) → w.st ≠ .run) (fun _ x => by cases x) h.fin j (by simpa using hj)
      · intro _ t ht
        have ht' : some s.workers.length = some t := ht
        injection ht' with e; subst e
        rw [eN]
        refine ⟨?_, ?_, ?_, ?_, ?_⟩
        · simp
        · trivial
        · intro x; cases x
        · intro hm
          have := (h.free _ hm).1
          omega
        · intro hq; cases hq
      · intro j hj
        obtain ⟨a1, a2, a3⟩ := h.free j hj
        rw [eL j a1]
        exact ⟨by simp; omega, a2, a3⟩
      · show (s.workers ++ [({} : Worker)]).length ≤ s.cfg.threadsMax
        simp; omega
      · intro j hj
        exact key (fun w => ∀ lim pu, w.pc = .decode lim pu → (lim = w.inPos → pu = .start) ∧ (pu = .start → w.pu = .start))
          (fun _ _ x => by cases x) h.snap j (by simpa using hj)
  case assign =>
    split at hs
    case h_2 => cases hs
    rename_i t hp hthr
    cases hs
    obtain ⟨a1, a2, a3, a4, _⟩ := h.thr3 (Or.inl hp) t hthr
    have eg : ∀ j, getW (MtDec.setW s t (assignW s t)) j = if t = j then assignW s t else getW s j :=
      fun j => getW_setW s t j _ a1
    have hidle : ∀ {pc : WPc}, idlePc pc → ¬ busyPc pc := by intro pc h1 h2; cases pc <;> simp_all [idlePc, busyPc]
    refine ⟨?_, ?_, ?_, ?_, ?_, h.nodup, by simpa using h.len, ?_⟩
    · intro j hj
      have hj' : j < s.workers.length := by simpa using hj
      show busyPc (getW (MtDec.setW s t (assignW s t)) j).pc → (getW (MtDec.setW s t (assignW s t)) j).hasOut = true
      rw [eg]
      by_cases e : t = j
      · subst e; simp only [if_true]; intro _; rfl
      · simp only [e, if_false]; exact h.busy j hj'
    · intro j hj
      have hj' : j < s.workers.length := by simpa using hj
      show (getW (MtDec.setW s t (assignW s t)) j).st = .run → (getW (MtDec.setW s t (assignW s t)) j).hasOut = true
      rw [eg]
      by_cases e : t = j
      · subst e; simp only [if_true]; intro _; rfl
      · simp only [e, if_false]; exact h.run j hj'
    · intro j hj
      have hj' : j < s.workers.length := by simpa using hj
      show (∃ r, (getW (MtDec.setW s t (assignW s t)) j).pc = .fin2 r ∨ (getW (MtDec.setW s t (assignW s t)) j).pc = .fin3 r) →
        (getW (MtDec.setW s t (assignW s t)) j).st ≠ .run
      rw [eg]
      by_cases e : t = j
      · subst e; simp only [if_true]; intro _; exact a3
      · simp only [e, if_false]; exact h.fin j hj'
    · intro _ t' ht'
      have ht2 : s.thr = some t' := ht'
      rw [hthr] at ht2; injection ht2 with e; subst e
      show t < (MtDec.setW s t (assignW s t)).workers.length ∧ idlePc (getW (MtDec.setW s t (assignW s t)) t).pc ∧
        (getW (MtDec.setW s t (assignW s t)) t).st ≠ .run ∧ t ∉ s.threadsFree ∧ (_ → (getW (MtDec.setW s t (assignW s t)) t).hasOut = true)
      rw [eg]; simp only [if_true]
      exact ⟨by simpa using a1, a2, a3, a4, fun _ => rfl⟩
    · intro j hj
      obtain ⟨b1, b2, b3⟩ := h.free j hj
      show j < (MtDec.setW s t (assignW s t)).workers.length ∧ idlePc (getW (MtDec.setW s t (assignW s t)) j).pc ∧
        (getW (MtDec.setW s t (assignW s t)) j).st ≠ .run
      rw [eg]
      have e : t ≠ j := fun e => a4 (e ▸ hj)
      simp only [e, if_false]
      exact ⟨by simpa using b1, b2, b3⟩
    · intro j hj
      have hj' : j < s.workers.length := by simpa using hj
      show ∀ lim pu, (getW (MtDec.setW s t (assignW s t)) j).pc = .decode lim pu →
        (lim = (getW (MtDec.setW s t (assignW s t)) j).inPos → pu = .start) ∧
        (pu = .start → (getW (MtDec.setW s t (assignW s t)) j).pu = .start)
      rw [eg]
      by_cases e : t = j
      · subst e; simp only [if_true]
        intro lim pu x
        have : (getW s t).pc = .decode lim pu := x
        rw [this] at a2; exact a2.elim
      · simp only [e, if_false]; exact h.snap j hj'
  case startThr =>
    split at hs
    case h_2 => cases hs
    rename_i t hp hthr
    cases hs
    obtain ⟨a1, a2, a3, a4, a5⟩ := h.thr3 (Or.inr hp) t hthr
    have ho := a5 hp
    have eg : ∀ j, getW (MtDec.setW s t (signalW { getW s t with st := .run })) j =
        if t = j then signalW { getW s t with st := .run } else getW s j := fun j => getW_setW s t j _ a1
    refine ⟨?_, ?_, ?_, ?_, ?_, h.nodup, by simpa using h.len, ?_⟩
    · intro j hj
      have hj' : j < s.workers.length := by simpa using hj
      show busyPc (getW (MtDec.setW s t _) j).pc → (getW (MtDec.setW s t _) j).hasOut = true
      rw [eg]
      by_cases e : t = j
      · subst e; simp only [if_true]; intro _; exact ho
      · simp only [e, if_false]; exact h.busy j hj'
    · intro j hj
      have hj' : j < s.workers.length := by simpa using hj
      show (getW (MtDec.setW s t _) j).st = .run → (getW (MtDec.setW s t _) j).hasOut = true
      rw [eg]
      by_cases e : t = j
      · subst e; simp only [if_true]; intro _; exact ho
      · simp only [e, if_false]; exact h.run j hj'
    · intro j hj
      have hj' : j < s.workers.length := by simpa using hj
      show (∃ r, (getW (MtDec.setW s t _) j).pc = .fin2 r ∨ (getW (MtDec.setW s t _) j).pc = .fin3 r) → (getW (MtDec.setW s t _) j).st ≠ .run
      rw [eg]
      by_cases e : t = j
      · subst e; simp only [if_true]
        rintro ⟨r, x | x⟩
        · have : (getW s t).pc = .fin2 r := x
          rw [this] at a2; exact a2.elim
        · have : (getW s t).pc = .fin3 r := x
          rw [this] at a2; exact a2.elim
      · simp only [e, if_false]; exact h.fin j hj'
    · intro hq; rcases hq with x | x <;> cases x
    · intro j hj
      obtain ⟨b1, b2, b3⟩ := h.free j hj
      show j < (MtDec.setW s t _).workers.length ∧ idlePc (getW (MtDec.setW s t _) j).pc ∧ (getW (MtDec.setW s t _) j).st ≠ .run
      rw [eg]
      have e : t ≠ j := fun e => a4 (e ▸ hj)
      simp only [e, if_false]
      exact ⟨by simpa using b1, b2, b3⟩
    · intro j hj
      have hj' : j < s.workers.length := by simpa using hj
      show ∀ lim pu, (getW (MtDec.setW s t (signalW { getW s t with st := .run })) j).pc = .decode lim pu →
        (lim = (getW (MtDec.setW s t (signalW { getW s t with st := .run })) j).inPos → pu = .start) ∧
        (pu = .start → (getW (MtDec.setW s t (signalW { getW s t with st := .run })) j).pu = .start)
      rw [eg]
      by_cases e : t = j
      · subst e; simp only [if_true]
        intro lim pu x
        have : (getW s t).pc = .decode lim pu := x
        rw [this] at a2; exact a2.elim
      · simp only [e, if_false]; exact h.snap j hj'
  case endJoin =>
    split at hs
    case h_2 => cases hs
    rename_i i k hp
    split at hs
    · split at hs
      · cases hs
        exact h.ofCore (UCore.fields rfl rfl rfl) (by simp) (by simp)
      · cases hs
    · cases k <;> (cases hs; constructor <;> simp)
  case enablePartial =>
    split at hs
    case isFalse => cases hs
    cases hs
    exact h.ofCore ((enablePartialHead_u s).trans (UCore.fields rfl rfl rfl)) (by simp) (by simp)
  case rowIter c =>
    have key : ∀ k w, UInv (rowIterate s k w) := by
      intro k w
      have hk := (rowIterate_core s k w).2
      refine h.ofCore (rowIterate_u s k w) ?_ ?_
      · intro e; rw [e] at hk; cases hk
      · intro e; rw [e] at hk; cases hk
    split at hs
    · cases hs; exact key _ _
    · split at hs
      · cases hs; exact key _ _
      · cases hs
    · cases hs; exact key _ _
    · cases hs

theorem UInv.reachable {cfg : Cfg} {blocks : List Block} {s : State} (h : Reachable cfg blocks s) : UInv s := by
  induction h with
  | init => exact UInv.init cfg blocks
  | @step s s' l _ hs ih =>
    cases hw : l.worker? with
    | some i => exact ih.worker hw hs
    | none =>
      cases hsim : l.uSimple with
      | true => exact ih.mainSimple hw hsim hs
      | false => exact ih.mainOther hw hsim hs

end XzVerif.MtDec
