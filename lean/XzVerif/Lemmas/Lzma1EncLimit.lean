/-
  C01, MicroLZMA: with an output limit (`outLimit ≥ 6`, as `set_out_limit` requires) the output of the executable LZMA1
  encoder model is at most `outLimit` bytes long: every symbol is accepted only if `rc_encode_dummy` says that it and the
  flush fit (`encodeDummy_fits`), and `encode_init` alone (first byte, before any test) needs at most 6 bytes.
-/
import XzVerif.Lemmas.LzmaCtxNodup

namespace XzVerif.LzmaExec
open XzVerif.RangeDec XzVerif.RangeEnc XzVerif.RangeCoder XzVerif.LzDict XzVerif.Lzma XzVerif.LzmaEnc XzVerif.LzmaSymDec
open XzVerif.LzmaSym XzVerif.LzmaSpec

/-! ### `encode_init` needs at most 6 bytes -/

/-- forget the context of an operation -/
def zeroCtx : Op → Op
  | .bit _ b => .bit 0 b
  | .direct b => .direct b

theorem dummyOps_const (L : Nat) (ps : Probs) : ∀ (ops : List Op) (d : Dummy), (∀ c ∈ ctxs ops, ps.getD c 0 = 1024) →
    dummyOps L ps d ops = dummyOps L #[1024] d (ops.map zeroCtx)
  | [], d, _ => rfl
  | .bit c false :: ops, d, h => by
    have hc : ps.getD c 0 = 1024 := h c (by simp [ctxs])
    have ih := fun d => dummyOps_const L ps ops d (fun c' hc' => h c' (by simp [ctxs, hc']))
    simp only [dummyOps, List.map, zeroCtx, hc, ih]
    rfl
  | .bit c true :: ops, d, h => by
    have hc : ps.getD c 0 = 1024 := h c (by simp [ctxs])
    have ih := fun d => dummyOps_const L ps ops d (fun c' hc' => h c' (by simp [ctxs, hc']))
    simp only [dummyOps, List.map, zeroCtx, hc, ih]
    rfl
  | .direct false :: ops, d, h => by
    have ih := fun d => dummyOps_const L ps ops d (fun c' hc' => h c' (by simpa [ctxs] using hc'))
    simp only [dummyOps, List.map, zeroCtx, ih]
  | .direct true :: ops, d, h => by
    have ih := fun d => dummyOps_const L ps ops d (fun c' hc' => h c' (by simpa [ctxs] using hc'))
    simp only [dummyOps, List.map, zeroCtx, ih]

def initOpsN (n : Nat) : List Op := .bit 0 false :: bittreeOps 1846 8 n 1

theorem initOps_eq (b : UInt8) : initOps b = initOpsN b.toNat := rfl

theorem init_dummy_all : ∀ n, n < 256 → encodeDummy #[1024] Enc.init ((initOpsN n).map zeroCtx) 6 = false := by
  decide +kernel

theorem initProbs_get (p : Props) (c : Nat) (hc : c < 2102) : (initProbs p).getD c 0 = 1024 := by
  have := shl_ge (p.lc + p.lp)
  have hsz : c < probsSize p.lc p.lp := by rw [probsSize_eq]; omega
  simp [initProbs, Array.getD, hsz, PROB_INIT]

/-- `encode_init` followed by the flush gives at most 6 bytes -/
theorem init_fits (p : Props) (b : UInt8) :
    (encFlush (encOps (initProbs p) Enc.init (initOps b)).2).out.length ≤ 6 ∧
      (encOps (initProbs p) Enc.init (initOps b)).2.outTotal ≤ 6 := by
  have hnd := initOps_nd b
  have hget : ∀ c ∈ ctxs (initOps b), (initProbs p).getD c 0 = 1024 := fun c hc => initProbs_get p c (hnd.2 c hc).2
  have hdum : encodeDummy (initProbs p) Enc.init (initOps b) 6 = false := by
    have h0 := init_dummy_all b.toNat (UInt8.toNat_lt b)
    unfold encodeDummy at h0 ⊢
    rw [dummyOps_const _ _ _ _ hget, initOps_eq]
    exact h0
  exact encodeDummy_fits _ _ _ 6 outOk2_init (by decide) hnd.1 hdum

/-! ### the loop keeps "what is coded so far, plus the flush, fits" -/

def EncInvF (L : Nat) (s : EncLoopSt) : Prop :=
  OutOk2 s.1.rc ∧ s.1.rc.outTotal ≤ L ∧ (encFlush s.1.rc).out.length ≤ L

theorem lzma1Body_stepF (p : Props) (hp : PropsOk p) (dictSize : Nat) (hds : dictSize ≤ 4294967295) (outLimit : Nat)
    (hlim : outLimit ≠ 0) (buf : ByteArray) (base : Nat) (tr : Array TraceRec) (i : Nat)
    (s : EncLoopSt) (hinv : EncInvL p dictSize buf base s) (hf : EncInvF outLimit s) :
    match lzma1Body p dictSize outLimit buf base tr i s with
    | .ok (.yield s') => EncInvF outLimit s'
    | .ok (.done s') => EncInvF outLimit s'
    | .error _ => True := by
  obtain ⟨hle, hunc, syms, ops, henc, heo⟩ := hinv
  have hst : s.1.st.state < 12 := (encSyms_allLt' p hp dictSize hds syms 0 {} (by decide) _ henc).2
  unfold lzma1Body
  by_cases h0 : s.2.2.2 = true
  · rw [if_pos h0]; trivial
  rw [if_neg h0]
  by_cases h1 : (tr[i]!.kind == 1) = true
  · rw [if_pos h1]; trivial
  rw [if_neg h1]
  by_cases h2 : (tr[i]!.kind != 0) = true
  · rw [if_pos h2]; trivial
  rw [if_neg h2]
  by_cases h3 : (tr[i]!.pos != s.1.uncompSize % 4294967296) = true
  · rw [if_pos h3]; trivial
  rw [if_neg h3]
  cases hck : checkSym dictSize buf base s.2.1 s.1.st tr[i]!.back tr[i]!.len with
  | error e => trivial
  | ok x =>
    obtain ⟨sym, prev, mb⟩ := x
    obtain ⟨hsz, hprev, hmb, happ, hlen⟩ := checkSym_sound dictSize buf base s.2.1 s.1.st _ _ hck
    have hvalid := (applySym_valid hds happ).1
    simp only [bind, Except.bind, pure, Except.pure]
    by_cases hd : (outLimit != 0 && encodeDummy s.1.probs s.1.rc (symOps p s.1.st s.1.uncompSize prev mb sym).1 outLimit) = true
    · rw [if_pos hd]
      by_cases hlast : (decide (i + 1 < tr.size) && tr[i + 1]!.kind == 1 && i + 2 == tr.size) = true
      · rw [if_pos hlast]; exact hf
      · rw [if_neg hlast]; trivial
    · rw [if_neg hd]
      have hl0 : (outLimit != 0) = true := by simpa using hlim
      rw [hl0, Bool.true_and, Bool.not_eq_true] at hd
      have hfit := encodeDummy_fits _ _ _ outLimit hf.1 hf.2.1
        (symOps_nodup p hp s.1.st hst s.1.uncompSize prev mb sym hvalid) hd
      exact ⟨outOk2_encOps _ _ _ hf.1, hfit.2, hfit.1⟩

/-- The output of the executable LZMA1 encoder model with an output limit of at least 6 bytes (no end marker) is within
    the limit. -/
theorem lzma1Encode_limit_fits (p : Props) (hp : PropsOk p) (dictSize : Nat) (hds : dictSize ≤ 4294967295) (outLimit : Nat)
    (hlim : 6 ≤ outLimit) (buf : ByteArray) (base : Nat) (tr : Array TraceRec) (res : EncResult) (hbase : base ≤ buf.size)
    (h : lzma1Encode p dictSize false outLimit buf base tr = .ok res) : res.out.length ≤ outLimit := by
  have hlim0 : outLimit ≠ 0 := by omega
  rw [lzma1Encode_eq] at h
  obtain ⟨s, hloop, hrest⟩ := except_bind_ok h
  have hinit : EncInvL p dictSize buf base
      (if (base == 0 && decide (buf.size - base > 0)) = true then
        (({ (LzmaEnc.new p).encode (initOps (buf.get! 0)) with uncompSize := 1 }, 1, 1, false) : EncLoopSt)
       else (LzmaEnc.new p, 0, 0, false)) ∧ EncInvF outLimit
      (if (base == 0 && decide (buf.size - base > 0)) = true then
        (({ (LzmaEnc.new p).encode (initOps (buf.get! 0)) with uncompSize := 1 }, 1, 1, false) : EncLoopSt)
       else (LzmaEnc.new p, 0, 0, false)) := by
    by_cases hfirst : (base == 0 && decide (buf.size - base > 0)) = true
    · rw [if_pos hfirst]
      simp only [Bool.and_eq_true, beq_iff_eq, decide_eq_true_eq] at hfirst
      obtain ⟨rfl, hpos⟩ := hfirst
      refine ⟨⟨by simp only []; omega, rfl, [.lit (buf.get! 0)], initOps (buf.get! 0), ?_, encode_pair_first p _⟩, ?_⟩
      · have hw0 : win buf 0 = [] := by simp [win]
        have hw1 : win buf (0 + 1) = [buf.get! 0] := by rw [win_succ buf 0 (by omega), hw0]
        simp only [encSyms, hw0, applySym, prevByte, matchByte, List.getElem?_nil, symOps_init, List.append_nil, Sym.len]
        rw [hw1]
        rfl
      · have hfit := init_fits p (buf.get! 0)
        exact ⟨outOk2_encOps _ _ _ outOk2_init, Nat.le_trans hfit.2 hlim, Nat.le_trans hfit.1 hlim⟩
    · rw [if_neg hfirst]
      refine ⟨⟨by simp only []; omega, rfl, [], [], rfl, encode_pair (LzmaEnc.new p) []⟩, outOk2_init, Nat.zero_le _, ?_⟩
      have h5 : (encFlush Enc.init).out.length = 5 := by decide +kernel
      show (encFlush Enc.init).out.length ≤ outLimit
      omega
  have hfin := forIn_except_inv (lzma1Body p dictSize outLimit buf base tr)
    (fun s => EncInvL p dictSize buf base s ∧ EncInvF outLimit s) _
    (fun _ s => EncInvL p dictSize buf base s ∧ EncInvF outLimit s) 0
    (fun i hi b hP => by
      have h1 := lzma1Body_stepL p dictSize outLimit buf base tr (List.range' 0 [:tr.size].size)[i] b hP.1
      have h2 := lzma1Body_stepF p hp dictSize hds outLimit hlim0 buf base tr (List.range' 0 [:tr.size].size)[i] b hP.1 hP.2
      split <;> rename_i heq <;> rw [heq] at h1 h2 <;> first | exact ⟨h1, h2⟩ | trivial)
    (fun b hP => hP) _ s hinit hloop
  obtain ⟨_, _, _, hF⟩ := hfin
  have hl0 : (outLimit == 0) = false := by simpa using hlim0
  simp only [hl0, Bool.false_and, Bool.false_eq_true, if_false, pure, Except.pure, Except.ok.injEq] at hrest
  rw [← hrest]
  exact hF

end XzVerif.LzmaExec
