/-
  Slicing independence of the resumable LZMA decoder model ACROSS dictionary wraps, LZ layer, part 1: the wrap step on coder states,
  equality up to a pending wrap (`normW`, `SameW`, `EqvW` of Lemmas/LzmaResumeWrapDefs.lean), the invariant `InvW` (no restriction on
  the window), what one `code` call / one iteration of `decodeBufferR` does (`code_facts`, `iter_w`), and: the fuel of
  `decodeBufferR` is never exhausted (`dB_noProg_w`). ASSUMES `CodeAbsorb P code`, `CodeWrap P code`. Core Lean only.
-/
import XzVerif.Lemmas.LzmaResumeIdle
import XzVerif.Lemmas.LzmaResumeWrapDefs

namespace XzVerif.LzmaR
open XzVerif.RangeDec XzVerif.LzDict XzVerif.Lzma XzVerif.Lzma2

/-! ### the wrap step -/

theorem dwrap_size (p : DictPos) : p.wrap.size = p.size := by unfold DictPos.wrap; split <;> rfl
theorem dwrap_needReset (p : DictPos) : p.wrap.needReset = p.needReset := by unfold DictPos.wrap; split <;> rfl
theorem dwrap_of_ne {p : DictPos} (h : p.pos ≠ p.size) : p.wrap = p := by unfold DictPos.wrap; simp [h]
theorem dwrap_of_eq {p : DictPos} (h : p.pos = p.size) : p.wrap = { p with pos := LZ_DICT_REPEAT_MAX, hasWrapped := true } := by
  unfold DictPos.wrap; simp [h]

theorem wrap_of_ne {r : RSt} (h : r.s.dp.pos ≠ r.s.dp.size) : r.wrap = r := by
  show ({ r with s := { r.s with dp := r.s.dp.wrap } } : RSt) = r
  rw [dwrap_of_ne h]

theorem wrap_dp (r : RSt) : r.wrap.s.dp = r.s.dp.wrap := rfl

/-- the limit `decode_buffer` computes for a state that is already wrapped -/
def lim0 (N : Nat) (q : RSt) : Nat := q.s.dp.pos + min (N - q.s.produced) (q.s.dp.size - q.s.dp.pos)

theorem prep_w (N : Nat) (r : RSt) (b : ByteArray) : prep N (r.withInp b) = r.wrap.view b (lim0 N r.wrap) := rfl

theorem wrap_norm (r : RSt) : r.norm.wrap.norm = r.wrap.norm := by
  unfold RSt.wrap RSt.norm RSt.view RSt.map DictPos.wrap
  simp only []
  split <;> rfl

theorem normW_of_norm {q q' : RSt} (h : q.norm = q'.norm) : q.normW = q'.normW := by
  have t : q.norm.wrap.norm = q'.norm.wrap.norm := congrArg (fun r : RSt => r.wrap.norm) h
  rw [wrap_norm, wrap_norm] at t
  exact t

theorem rst_wrap (q : RSt) : rst q.wrap = rst q := by
  unfold rst RSt.wrap RSt.map DictPos.wrap DictPos.reset
  simp only []
  split <;> rfl

theorem Same.toW {x y : Ret × RSt} (h : Same x y) : SameW x y := ⟨h.1, normW_of_norm h.2⟩
theorem Eqv.toW {x y : Ret × RSt} (h : Eqv x y) : EqvW x y := by
  rcases h with h | h
  · exact Or.inl h.toW
  · exact Or.inr h

theorem normW_overrun {q q' : RSt} (h : q.normW = q'.normW) : q.overrun = q'.overrun := by
  have t : q.normW.overrun = q'.normW.overrun := congrArg (fun r : RSt => r.overrun) h
  exact t
theorem normW_produced {q q' : RSt} (h : q.normW = q'.normW) : q.s.produced = q'.s.produced := by
  have t : q.normW.s.produced = q'.normW.s.produced := congrArg (fun r : RSt => r.s.produced) h
  exact t
theorem normW_inPos {q q' : RSt} (h : q.normW = q'.normW) : q.s.inPos = q'.s.inPos := by
  have t : q.normW.s.inPos = q'.normW.s.inPos := congrArg (fun r : RSt => r.s.inPos) h
  exact t
theorem normW_output {q q' : RSt} (h : q.normW = q'.normW) : q.output = q'.output := by
  have t : q.normW.output = q'.normW.output := congrArg (fun r : RSt => r.output) h
  exact t

theorem SameW.refl (x : Ret × RSt) : SameW x x := ⟨rfl, rfl⟩
theorem SameW.symm {x y : Ret × RSt} (h : SameW x y) : SameW y x := ⟨h.1.symm, h.2.symm⟩
theorem SameW.trans {x y z : Ret × RSt} (h1 : SameW x y) (h2 : SameW y z) : SameW x z := ⟨h1.1.trans h2.1, h1.2.trans h2.2⟩
theorem EqvW.refl (x : Ret × RSt) : EqvW x x := Or.inl (SameW.refl x)
theorem EqvW.symm {x y : Ret × RSt} (h : EqvW x y) : EqvW y x := by
  rcases h with h | ⟨a, b, c, d⟩
  · exact Or.inl h.symm
  · exact Or.inr ⟨b, a, d, c⟩
theorem EqvW.trans {x y z : Ret × RSt} (h1 : EqvW x y) (h2 : EqvW y z) : EqvW x z := by
  rcases h1 with h1 | ⟨a1, a2, a3, a4⟩
  · rcases h2 with h2 | ⟨b1, b2, b3, b4⟩
    · exact Or.inl (h1.trans h2)
    · exact Or.inr ⟨h1.1.trans b1, b2, (normW_overrun h1.2).trans b3, b4⟩
  · rcases h2 with h2 | ⟨b1, b2, b3, b4⟩
    · exact Or.inr ⟨a1, h2.1.symm.trans a2, a3, (normW_overrun h2.2).symm.trans a4⟩
    · exact Or.inr ⟨a1, b2, a3, b4⟩

/-- a run of `decodeBufferR` depends on the start state only through `normW` -/
theorem dB_congr_w (code : RSt → Ret × RSt) (f N : Nat) {r r' : RSt} (b : ByteArray) (h : r.normW = r'.normW) :
    decodeBufferR code (f + 1) N (r.withInp b) = decodeBufferR code (f + 1) N (r'.withInp b) := by
  rw [dB_succ, dB_succ, prep_w, prep_w]
  have e1 : lim0 N r.wrap = lim0 N r'.wrap := by
    have t : lim0 N r.wrap.norm = lim0 N r'.wrap.norm := congrArg (lim0 N) h
    exact t
  rw [e1, RSt.view_congr h b _]

/-! ### invariants -/

/-- invariant of the coder between `code` calls (no restriction on the window) -/
structure CInv (P : RSt → Prop) (q : RSt) (b : ByteArray) : Prop where
  p : P q
  inPos : q.s.inPos ≤ b.size
  agree : Agree q.s.inPos q.s.inp b
  base : q.s.outBase ≤ q.s.hist.size
  noReset : q.s.dp.needReset = false
  size_ge : 2 * LZ_DICT_REPEAT_MAX < q.s.dp.size
  pos_le : q.s.dp.pos ≤ q.s.dp.size
  align : AlignOk q.s
  full : FullOkS q.s

/-- … between calls of the LZ layer with output allowance `N` -/
structure InvW (P : RSt → Prop) (r : RSt) (b : ByteArray) (N : Nat) : Prop where
  c : CInv P r b
  prod : r.s.produced ≤ N

theorem CInv.mono {P : RSt → Prop} {q : RSt} {b b' : ByteArray} (h : CInv P q b) (hb : Agree b.size b b') : CInv P q b' :=
  ⟨h.p, Nat.le_trans h.inPos hb.le', agree_trans_le h.agree hb h.inPos, h.base, h.noReset, h.size_ge, h.pos_le, h.align, h.full⟩

theorem InvW.mono {P : RSt → Prop} {N N' : Nat} {r : RSt} {b b' : ByteArray} (h : InvW P r b N) (hb : Agree b.size b b')
    (hN : N ≤ N') : InvW P r b' N' := ⟨h.c.mono hb, Nat.le_trans h.prod hN⟩

theorem cinv_wrap {P : RSt → Prop} {code : RSt → Ret × RSt} (hw : CodeWrap P code) {q : RSt} {b : ByteArray} (h : CInv P q b) :
    CInv P q.wrap b ∧ q.wrap.s.dp.pos < q.wrap.s.dp.size := by
  by_cases hp : q.s.dp.pos = q.s.dp.size
  · have e : q.wrap.s.dp = { q.s.dp with pos := LZ_DICT_REPEAT_MAX, hasWrapped := true } := dwrap_of_eq hp
    have hs := h.size_ge
    refine ⟨⟨hw.frame_wrap q h.p h.align h.full hp, h.inPos, h.agree, h.base, ?_, ?_, ?_, ?_, ?_⟩, ?_⟩
    · rw [e]; exact h.noReset
    · rw [e]; exact hs
    · rw [e]; simp only [LZ_DICT_REPEAT_MAX] at hs ⊢; omega
    · have := h.align
      unfold AlignOk at this ⊢
      rw [e]; exact this
    · intro hh; rw [e] at hh; cases hh
    · rw [e]; simp only [LZ_DICT_REPEAT_MAX] at hs ⊢; omega
  · rw [wrap_of_ne hp]
    exact ⟨h, Nat.lt_of_le_of_ne h.pos_le hp⟩

/-- what one `code` call does to a state satisfying `CInv`, under the view `(b, L)` -/
structure CodeFacts (P : RSt → Prop) (q : RSt) (b : ByteArray) (L : Nat) (c : Ret × RSt) : Prop where
  inp : c.2.s.inp = b
  limit : c.2.s.dp.limit = L
  size : c.2.s.dp.size = q.s.dp.size
  ret : c.1 ≠ .progError
  pos_mono : q.s.dp.pos ≤ c.2.s.dp.pos
  pos_le : c.2.s.dp.pos ≤ L
  inPos_mono : q.s.inPos ≤ c.2.s.inPos
  inPos_le : c.2.s.inPos ≤ b.size
  hist : c.2.s.hist.size + q.s.dp.pos = q.s.hist.size + c.2.s.dp.pos
  outBase : c.2.s.outBase = q.s.outBase
  reset : c.2.s.dp.needReset = true → q.s.inPos < c.2.s.inPos
  cinv : c.2.s.dp.needReset = false → CInv P c.2 b
  cinvR : c.2.s.dp.needReset = true → CInv P (rst c.2) b

theorem code_facts {P : RSt → Prop} {code : RSt → Ret × RSt} (hc : CodeAbsorb P code) (hw : CodeWrap P code) {q : RSt}
    {b : ByteArray} {L : Nat} (h : CInv P q b) (hL : q.s.dp.pos ≤ L) (hLs : L ≤ q.s.dp.size) :
    CodeFacts P q b L (code (q.view b L)) := by
  have hp1 : P (q.view b L) := hc.frame_view q b L h.p h.agree
  have sp := hc.spec _ hp1 h.noReset h.inPos hL
  have al : AlignOk (code (q.view b L)).2.s := hw.align _ hp1 h.noReset h.inPos hL h.align
  generalize code (q.view b L) = c at sp al ⊢
  obtain ⟨ret, r2⟩ := c
  obtain ⟨hcr, hret, hp2, hrs, h5, h6⟩ := sp
  have a1 : r2.s.inp = b := hcr.inp
  have a2 : q.s.inPos ≤ r2.s.inPos := hcr.pos_mono
  have a3 : r2.s.inPos ≤ r2.s.inp.size := hcr.pos_le h.inPos
  have a4 : r2.s.outBase = q.s.outBase := hcr.outBase
  have a5 : r2.s.dp.limit = L := hcr.limit
  have a6 : r2.s.dp.size = q.s.dp.size := hcr.size
  have a7 : q.s.dp.pos ≤ r2.s.dp.pos := hcr.dpos_mono
  have a8 : r2.s.hist.size + q.s.dp.pos = q.s.hist.size + r2.s.dp.pos := hcr.hist_eq
  have a9 : r2.s.dp.pos ≤ r2.s.dp.limit := hcr.in_limit hL
  have hrs' : r2.s.dp.needReset = true → q.s.dp.needReset = true ∨ q.s.inPos < r2.s.inPos := hrs
  have h5' : r2.s.dp.hasWrapped = q.s.dp.hasWrapped := h5
  have h6' : q.s.dp.hasWrapped = false → q.s.dp.full + LZ_DICT_INIT_POS = q.s.dp.pos →
      r2.s.dp.full + LZ_DICT_INIT_POS = r2.s.dp.pos := h6
  rw [a1] at a3
  have hag2 : Agree r2.s.inPos r2.s.inp b := by rw [a1]; exact agree_self a3
  have b1 := h.base
  have hbase : r2.s.outBase ≤ r2.s.hist.size := by omega
  have hal : AlignOk r2.s := al
  have hsz := h.size_ge
  have g6 : r2.s.dp.pos ≤ L := by omega
  have g7 : r2.s.dp.pos ≤ r2.s.dp.size := by omega
  have g8 : 2 * LZ_DICT_REPEAT_MAX < r2.s.dp.size := by rw [a6]; exact hsz
  refine ⟨a1, a5, a6, hret, a7, g6, a2, a3, a8, a4, ?_, ?_, ?_⟩
  · intro hr
    rcases hrs' hr with h1 | h1
    · rw [h.noReset] at h1; cases h1
    · exact h1
  · intro hr
    refine ⟨hp2, a3, hag2, hbase, hr, g8, g7, hal, ?_⟩
    intro hh
    have hh' : q.s.dp.hasWrapped = false := h5'.symm.trans hh
    exact h6' hh' (h.full hh')
  · intro hr
    refine ⟨hc.frame_reset r2 hp2 hr, a3, hag2, hbase, rfl, ?_, ?_, ?_, ?_⟩
    · show 2 * LZ_DICT_REPEAT_MAX < r2.s.dp.size; rw [a6]; exact hsz
    · show LZ_DICT_INIT_POS ≤ r2.s.dp.size; rw [a6]; simp only [LZ_DICT_INIT_POS, LZ_DICT_REPEAT_MAX] at hsz ⊢; omega
    · exact hal
    · intro _; rfl


/-! ### one iteration, fuel -/

theorem post_flag_reset {N : Nat} {c : Ret × RSt} (h : c.2.s.dp.needReset = true) :
    (post N c).2 = true ↔ c.1 = .ok ∧ c.2.s.produced ≠ N := by
  rw [post_reset h]
  simp only [Bool.not_eq_true', Bool.or_eq_false_iff, bne_eq_false_iff_eq, beq_eq_false_iff_ne, ne_eq]

theorem post_flag_noreset {N : Nat} {c : Ret × RSt} (h : c.2.s.dp.needReset = false) :
    (post N c).2 = true ↔ c.1 = .ok ∧ c.2.s.produced ≠ N ∧ ¬ (c.2.s.dp.pos < c.2.s.dp.size) := by
  rw [post_noreset h]
  simp only [Bool.not_eq_true', Bool.or_eq_false_iff, bne_eq_false_iff_eq, beq_eq_false_iff_ne, ne_eq, decide_eq_false_iff_not,
    and_assoc]

theorem post_fst_reset {N : Nat} {c : Ret × RSt} (h : c.2.s.dp.needReset = true) : (post N c).1 = (c.1, rst c.2) := by
  rw [post_reset h]
theorem post_fst_noreset {N : Nat} {c : Ret × RSt} (h : c.2.s.dp.needReset = false) : (post N c).1 = c := by
  rw [post_noreset h]

theorem bool_false_of_ne_true {x : Bool} (h : ¬ x = true) : x = false := by cases x <;> simp_all

/-- termination measure of the LZ loop -/
def nuW (r : RSt) (b : ByteArray) (N : Nat) : Nat := (b.size - r.s.inPos) + (N - r.s.produced)

structure IterW (P : RSt → Prop) (r : RSt) (b : ByteArray) (N : Nat) (c : Ret × RSt) : Prop where
  cq : CInv P r.wrap b
  cf : CodeFacts P r.wrap b (lim0 N r.wrap) c
  qlt : r.wrap.s.dp.pos < r.wrap.s.dp.size
  lim_ge : r.wrap.s.dp.pos ≤ lim0 N r.wrap
  lim_le : lim0 N r.wrap ≤ r.wrap.s.dp.size
  prod : c.2.s.produced ≤ N
  inv : InvW P (post N c).1.2 b N
  pinp : (post N c).1.2.s.inp = b
  pret : (post N c).1.1 = c.1
  dec : (post N c).2 = true → nuW (post N c).1.2 b N < nuW r b N

theorem iter_w {P : RSt → Prop} {code : RSt → Ret × RSt} (hc : CodeAbsorb P code) (hw : CodeWrap P code) {N : Nat} {r : RSt}
    {b : ByteArray} (hi : InvW P r b N) : IterW P r b N (code (r.wrap.view b (lim0 N r.wrap))) := by
  obtain ⟨hq, qlt⟩ := cinv_wrap hw hi.c
  have e0 : r.wrap.s.produced = r.s.produced := rfl
  have e0' : r.wrap.s.inPos = r.s.inPos := rfl
  have hpr := hi.prod
  have hL1 : r.wrap.s.dp.pos ≤ lim0 N r.wrap := Nat.le_add_right _ _
  have hL2 : lim0 N r.wrap ≤ r.wrap.s.dp.size := by
    unfold lim0; have := Nat.min_le_right (N - r.wrap.s.produced) (r.wrap.s.dp.size - r.wrap.s.dp.pos); omega
  have hL3 : lim0 N r.wrap ≤ r.wrap.s.dp.pos + (N - r.s.produced) := by
    unfold lim0; have := Nat.min_le_left (N - r.wrap.s.produced) (r.wrap.s.dp.size - r.wrap.s.dp.pos); omega
  have cf := code_facts hc hw hq hL1 hL2
  generalize hLd : lim0 N r.wrap = L at *
  generalize code (r.wrap.view b L) = c at *
  have e1 : r.s.produced = r.wrap.s.hist.size - r.wrap.s.outBase := rfl
  have e2 : c.2.s.produced = c.2.s.hist.size - c.2.s.outBase := rfl
  have f1 := cf.pos_mono; have f2 := cf.pos_le; have f3 := cf.hist; have f4 := cf.outBase; have f5 := hq.base
  have f6 := cf.inPos_mono; have f7 := cf.inPos_le
  have hprod : c.2.s.produced ≤ N := by omega
  have hnu : c.2.s.dp.pos = c.2.s.dp.size → c.2.s.produced ≠ N → N - c.2.s.produced < N - r.s.produced := by
    have := cf.size; omega
  subst hLd
  by_cases hr : c.2.s.dp.needReset = true
  · have e3 : (rst c.2).s.produced = c.2.s.produced := rfl
    have e4 : (rst c.2).s.inPos = c.2.s.inPos := rfl
    refine ⟨hq, cf, qlt, hL1, hL2, hprod, ?_, ?_, ?_, ?_⟩
    · rw [post_fst_reset hr]; exact ⟨cf.cinvR hr, hprod⟩
    · rw [post_fst_reset hr]; exact cf.inp
    · rw [post_fst_reset hr]
    · intro _
      rw [post_fst_reset hr]
      have := cf.reset hr
      unfold nuW
      rw [e3, e4]
      omega
  · have hr' := bool_false_of_ne_true hr
    refine ⟨hq, cf, qlt, hL1, hL2, hprod, ?_, ?_, ?_, ?_⟩
    · rw [post_fst_noreset hr']; exact ⟨cf.cinv hr', hprod⟩
    · rw [post_fst_noreset hr']; exact cf.inp
    · rw [post_fst_noreset hr']
    · intro hfl
      have hh := (post_flag_noreset hr').mp hfl
      rw [post_fst_noreset hr']
      have h1 := hh.2.1; have h2 := hh.2.2
      have h3 := cf.size
      have h4 := hnu (by omega) h1
      unfold nuW
      omega

/-- the fuel of `decodeBufferR` is never exhausted; the invariant holds for the result -/
theorem dB_noProg_w {P : RSt → Prop} {code : RSt → Ret × RSt} (hc : CodeAbsorb P code) (hw : CodeWrap P code) {N : Nat}
    {b : ByteArray} : ∀ (f : Nat) (r : RSt), InvW P r b N → nuW r b N < f →
      (decodeBufferR code f N (r.withInp b)).1 ≠ .progError
      ∧ InvW P (decodeBufferR code f N (r.withInp b)).2 b N
      ∧ (decodeBufferR code f N (r.withInp b)).2.s.inp = b
  | 0, r, _, hf => by omega
  | f + 1, r, hi, hf => by
    rw [dB_succ, prep_w]
    have st := iter_w hc hw hi
    generalize code (r.wrap.view b (lim0 N r.wrap)) = c at st
    cases hb : (post N c).2
    · simp only [Bool.false_eq_true, if_false]
      exact ⟨by rw [st.pret]; exact st.cf.ret, st.inv, st.pinp⟩
    · simp only [if_true]
      rw [← withInp_self st.pinp]
      have := st.dec hb
      exact dB_noProg_w hc hw f _ st.inv (by omega)

end XzVerif.LzmaR
