/-
  C13 helper lemmas: init, stream_flags, stream_padding, file size and checks getters of the concrete model
  refine the specification.
-/
import XzVerif.Lemmas.IndexRefineOps

namespace XzVerif.Index
namespace Impl

theorem indexFileSize_eq_ite (cb us rc ls pad : Nat) :
    indexFileSize cb us rc ls pad =
      if cb + 2 * STREAM_HEADER_SIZE + pad + vliCeil4 us + indexSize rc ls > VLI_MAX then VLI_UNKNOWN
      else cb + 2 * STREAM_HEADER_SIZE + pad + vliCeil4 us + indexSize rc ls := by
  split
  · next h => exact indexFileSize_eq_unknown_iff.mpr h
  · next h => exact indexFileSize_of_le (by omega)

theorem fileSize_snoc {j : Index} {front : List Stream} {last : Stream} (h : j.streams.root.toList = front ++ [last]) :
    Impl.fileSize j = indexFileSize last.compressedBase last.lastSums.unpaddedSum last.recordCount last.indexListSize last.padding := by
  unfold Impl.fileSize; rw [rightmost_snoc h]

/-- file size of the index whose last Stream got padding `q` (all other fields as in `i`) -/
theorem fileSize_with_padding {i j : Index} (hi : Inv i) {front : List Stream} {last : Stream}
    (h : i.streams.root.toList = front ++ [last]) (q : Nat)
    (hj : j.streams.root.toList = front ++ [{ last with padding := q }]) :
    Impl.fileSize j = Spec.fileSize (front.map absStream ++ [{ absStream last with padding := q }]) := by
  obtain ⟨q1, _, q3, q4, q5⟩ := append_quantities hi h
  rw [fileSize_snoc hj, indexFileSize_eq_ite]
  have e2 : (abs i).dropLast = front.map absStream := by rw [abs_snoc h]; simp
  have key : last.compressedBase + 2 * STREAM_HEADER_SIZE + q + vliCeil4 last.lastSums.unpaddedSum
        + indexSize last.recordCount last.indexListSize
      = Spec.rawFileSize (front.map absStream ++ [{ absStream last with padding := q }]) := by
    rw [q1, q3, q4, q5, e2, Spec.rawFileSize_append]
    simp only [Spec.rawFileSize, List.map_cons, List.map_nil, List.sum_cons, List.sum_nil, StreamRec.span,
      StreamRec.compressedSize]
    omega
  show (if last.compressedBase + 2 * STREAM_HEADER_SIZE + q + vliCeil4 last.lastSums.unpaddedSum
        + indexSize last.recordCount last.indexListSize > VLI_MAX then VLI_UNKNOWN
      else last.compressedBase + 2 * STREAM_HEADER_SIZE + q + vliCeil4 last.lastSums.unpaddedSum
        + indexSize last.recordCount last.indexListSize) = _
  unfold Spec.fileSize
  simp only [key]

/-- `lzma_index_file_size` -/
theorem fileSize_refines {i : Index} (hi : Inv i) : Impl.fileSize i = Spec.fileSize (abs i) := by
  obtain ⟨front, last, h⟩ := exists_snoc hi.ne
  unfold CTree.toList at h
  have := fileSize_with_padding hi h last.padding (j := i) h
  rw [this, abs_snoc h]
  rfl

theorem spec_checks_foldl (l : List StreamRec) (m : Nat) :
    l.foldl (fun m s => m ||| Spec.checkBit s) m = m ||| Spec.checks l := by
  unfold Spec.checks
  induction l generalizing m with
  | nil => simp
  | cons a r ih =>
    simp only [List.foldl_cons]
    rw [ih, ih (0 ||| Spec.checkBit a)]
    simp [Nat.or_assoc]

theorem spec_checks_append (a b : List StreamRec) : Spec.checks (a ++ b) = Spec.checks a ||| Spec.checks b := by
  unfold Spec.checks
  rw [List.foldl_append, spec_checks_foldl]
  rfl

/-- `lzma_index_checks` -/
theorem checks_refines {i : Index} (hi : Inv i) : Impl.checks i = Spec.checks (abs i) := by
  obtain ⟨front, last, h⟩ := exists_snoc hi.ne
  unfold CTree.toList at h
  unfold Impl.checks
  rw [rightmost_snoc h, hi.checks, abs_snoc h]
  simp only [List.dropLast_concat]
  rw [spec_checks_append]
  cases hf : last.flags with
  | none => simp [Spec.checks, Spec.checkBit, absStream, hf]
  | some f => simp [Spec.checks, Spec.checkBit, absStream, hf]

/-! ### init -/

theorem init_toList : Impl.init.streams.root.toList = [] ++ [streamInit 0 0 1 0] := rfl

theorem abs_init : abs Impl.init = Spec.init := rfl

theorem inv_init : Inv Impl.init := by
  have hs : StreamInv (streamInit 0 0 1 0) :=
    ⟨by intro g hg; simp [streamInit, CTree.toList, CTree.empty, Tree.toList] at hg,
     by simp [Stream.allRecs, streamInit, CTree.empty, Tree.toList, RecsOk], rfl, rfl, rfl, groupsOk_nil⟩
  refine ⟨by simp [CTree.toList, init_toList], rfl, ?_, ?_, rfl, rfl, rfl, rfl, rfl, by rw [abs_init]; exact Spec.valid_init⟩
  · intro s hs'
    have : s = streamInit 0 0 1 0 := by simpa [CTree.toList, init_toList] using hs'
    subst this; exact hs
  · intro k s hk
    have hk' : ([streamInit 0 0 1 0] : List Stream)[k]? = some s := hk
    have : k = 0 := by
      have := (List.getElem?_eq_some_iff.mp hk').1; simpa using this
    subst this
    have : s = streamInit 0 0 1 0 := by simpa using hk'.symm
    subst this
    simp [streamInit, Spec.rawFileSize, Spec.uncompressedSize, Spec.blockCount]

/-! ### stream_flags -/

theorem setLast_comp (i : Index) (f g : Stream → Stream) :
    setLastStream (setLastStream i f) g = setLastStream i (g ∘ f) := by
  unfold setLastStream; simp [Tree.modifyRightmost_comp]

theorem setLast_id {i : Index} {front : List Stream} {last : Stream} (h : i.streams.root.toList = front ++ [last])
    (f : Stream → Stream) (hf : f last = last) : setLastStream i f = i := by
  unfold setLastStream
  rw [Tree.modifyRightmost_id_of f i.streams.root (by
    intro v hv; rw [rightmost_snoc h] at hv; cases hv; exact hf)]

theorem streamInv_congr {s s' : Stream} (hs : StreamInv s) (hg : s'.groups = s.groups) (hc : s'.recordCount = s.recordCount)
    (hl : s'.indexListSize = s.indexListSize) : StreamInv s' := by
  have hr : s'.allRecs = s.allRecs := by unfold Stream.allRecs; rw [hg]
  have hb : (absStream s').blocks = (absStream s).blocks := by unfold absStream; simp [hr]
  exact ⟨by rw [hg]; exact hs.groupsNe, by rw [hr]; exact hs.recs, by rw [hc, hr]; exact hs.count,
         by rw [hl, hb]; exact hs.listSz, by rw [hg]; exact hs.gcount, by rw [hg]; exact hs.gbases⟩

/-- replacing flags or padding of the last Stream: totals and Blocks stay -/
theorem inv_of_meta {i i' : Index} (hi : Inv i) {front : List Stream} {last last' : Stream}
    (h : i.streams.root.toList = front ++ [last]) (h' : i'.streams.root.toList = front ++ [last'])
    (hcount : i'.streams.count = i.streams.count)
    (hg : last'.groups = last.groups) (hc : last'.recordCount = last.recordCount) (hl : last'.indexListSize = last.indexListSize)
    (hb1 : last'.compressedBase = last.compressedBase) (hb2 : last'.uncompressedBase = last.uncompressedBase)
    (hb3 : last'.number = last.number) (hb4 : last'.blockNumberBase = last.blockNumberBase)
    (t1 : i'.totalSize = i.totalSize) (t2 : i'.uncompressedSize = i.uncompressedSize)
    (t3 : i'.recordCount = i.recordCount) (t4 : i'.indexListSize = i.indexListSize) (t5 : i'.checks = i.checks)
    (hvalid : Spec.Valid (abs i')) : Inv i' := by
  have hs : StreamInv last := hi.streams last (by unfold CTree.toList; rw [h]; simp)
  have hr : last'.allRecs = last.allRecs := by unfold Stream.allRecs; rw [hg]
  have hb : (absStream last').blocks = (absStream last).blocks := by unfold absStream; simp [hr]
  have e0 := abs_snoc h
  have e1 := abs_snoc h'
  apply inv_of_replace hi h h' hcount (streamInv_congr hs hg hc hl) hb1 hb2 hb3 hb4 _ _ _ _ t5 hvalid
  · rw [t2, hi.unc, e0, e1]; simp [Spec.uncompressedSize, StreamRec.uncompressedSize, hb]
  · rw [t1, hi.total, e0, e1]; simp [Spec.totalSize, hb]
  · rw [t3, hi.rcount, e0, e1]; simp [Spec.blockCount, hb]
  · rw [t4, hi.lsize, e0, e1]; simp [Spec.listSizeAll, hb]

/-- `lzma_index_stream_flags` refines the specification and keeps the invariant -/
theorem streamFlags_refines {i : Index} (hi : Inv i) (f : StreamFlags) :
    (Impl.streamFlags i f).1 = (Spec.streamFlags (abs i) f).1
    ∧ abs (Impl.streamFlags i f).2 = (Spec.streamFlags (abs i) f).2 ∧ Inv (Impl.streamFlags i f).2 := by
  obtain ⟨front, last, h⟩ := exists_snoc hi.ne
  unfold CTree.toList at h
  unfold Impl.streamFlags Spec.streamFlags
  cases hc : Spec.flagsCheck f with
  | some r => exact ⟨rfl, rfl, hi⟩
  | none =>
    simp only
    have h' := setLast_toList h (fun s => { s with flags := some f })
    have habs : abs (setLastStream i fun s => { s with flags := some f })
        = Spec.modifyLast (fun s => { s with flags := some f }) (abs i) := by
      rw [abs_snoc h', abs_snoc h, Spec.modifyLast_append_singleton]; rfl
    have hsp : Spec.streamFlags (abs i) f = (.ok, abs (setLastStream i fun s => { s with flags := some f })) := by
      unfold Spec.streamFlags; rw [hc, habs]
    refine ⟨trivial, habs, ?_⟩
    exact inv_of_meta hi h h' rfl rfl rfl rfl rfl rfl rfl rfl rfl rfl rfl rfl rfl (Spec.streamFlags_valid hi.valid hsp)

/-! ### stream_padding -/

theorem streamPadding_refines {i : Index} (hi : Inv i) (p : Nat) :
    (Impl.streamPadding i p).1 = (Spec.streamPadding (abs i) p).1
    ∧ abs (Impl.streamPadding i p).2 = (Spec.streamPadding (abs i) p).2 ∧ Inv (Impl.streamPadding i p).2
    ∧ ((Impl.streamPadding i p).1 ≠ .ok → (Impl.streamPadding i p).2 = i) := by
  obtain ⟨front, last, h⟩ := exists_snoc hi.ne
  unfold CTree.toList at h
  unfold Impl.streamPadding Spec.streamPadding Spec.paddingCheck
  split
  · exact ⟨rfl, rfl, hi, fun _ => rfl⟩
  · next hprog =>
    rw [rightmost_snoc h]
    simp only
    have h0 := setLast_toList h (fun s => { s with padding := 0 })
    have hfs := fileSize_with_padding hi h 0 h0
    have hsp0 : Spec.modifyLast (fun s => { s with padding := 0 }) (abs i)
        = front.map absStream ++ [{ absStream last with padding := 0 }] := by
      rw [abs_snoc h, Spec.modifyLast_append_singleton]
    rw [hfs, hsp0]
    split
    · next hgt =>
      have hback : setLastStream (setLastStream i fun s => { s with padding := 0 }) (fun s => { s with padding := last.padding }) = i := by
        rw [setLast_comp]; exact setLast_id h _ rfl
      rw [hback]
      exact ⟨rfl, rfl, hi, fun _ => rfl⟩
    · next hle =>
      have hcomp : setLastStream (setLastStream i fun s => { s with padding := 0 }) (fun s => { s with padding := p })
          = setLastStream i (fun s => { s with padding := p }) := by
        rw [setLast_comp]; rfl
      rw [hcomp]
      have h' := setLast_toList h (fun s => { s with padding := p })
      have habs : abs (setLastStream i fun s => { s with padding := p })
          = Spec.modifyLast (fun s => { s with padding := p }) (abs i) := by
        rw [abs_snoc h', abs_snoc h, Spec.modifyLast_append_singleton]; rfl
      have hsp : Spec.streamPadding (abs i) p = (.ok, abs (setLastStream i fun s => { s with padding := p })) := by
        unfold Spec.streamPadding Spec.paddingCheck
        rw [hsp0, habs, if_neg hprog, if_neg hle]
      refine ⟨rfl, habs, ?_, fun hne => absurd rfl hne⟩
      exact inv_of_meta hi h h' rfl rfl rfl rfl rfl rfl rfl rfl rfl rfl rfl rfl rfl (Spec.streamPadding_valid hi.valid hsp)

end Impl
end XzVerif.Index
