/-
  C10 helper lemmas, part 3: the handle (`lzma_stream`), the caller-owned indexes, and every public API call
  (`runOp`) preserve the ownership invariant; histories (`runOps`) and the final clean-up.
-/
import XzVerif.Lemmas.AllocCoders

namespace XzVerif.Alloc

variable (S : Sizes)

def WSafe (op : World → M (Ret × World)) : Prop := ∀ w, Spec (op w) w.ids (fun r => r.2.ids)

@[simp] theorem ixListIds_nil : ixListIds [] = [] := rfl
@[simp] theorem ixListIds_cons (x : Option Index) (t : List (Option Index)) : ixListIds (x :: t) = ixIds x ++ ixListIds t := rfl

theorem getIx_some_lt (l : List (Option Index)) (s : Nat) (x : Index) (h : getIx l s = some x) : s < l.length := by
  induction l generalizing s with
  | nil => simp [getIx] at h
  | cons y t ih =>
    cases s with
    | zero => simp
    | succ k => simp [getIx] at h; have := ih k h; simp; omega

theorem count_ixListIds_setIx (l : List (Option Index)) (s : Nat) (v : Option Index) (hs : s < l.length) (i : Nat) :
    (ixListIds (setIx l s v)).count i + (ixIds (getIx l s)).count i = (ixListIds l).count i + (ixIds v).count i := by
  induction l generalizing s with
  | nil => simp at hs
  | cons y t ih =>
    cases s with
    | zero => simp [setIx, getIx, List.count_append]; omega
    | succ k =>
      have := ih k (by simp at hs; omega)
      simp [setIx, getIx, List.count_append] at *; omega

theorem setIx_ge (l : List (Option Index)) (s : Nat) (v : Option Index) (hs : l.length ≤ s) : setIx l s v = l := by
  induction l generalizing s with
  | nil => cases s <;> rfl
  | cons y t ih =>
    cases s with
    | zero => simp at hs
    | succ k => simp [setIx]; exact ih k (by simp at hs; omega)

theorem getIx_ge (l : List (Option Index)) (s : Nat) (hs : l.length ≤ s) : getIx l s = none := by
  induction l generalizing s with
  | nil => cases s <;> rfl
  | cons y t ih =>
    cases s with
    | zero => simp at hs
    | succ k => simp [getIx]; exact ih k (by simp at hs; omega)

/-- removing (or never having) an index: works for every slot number -/
theorem count_ixListIds_setIx_none (l : List (Option Index)) (s : Nat) (i : Nat) :
    (ixListIds (setIx l s none)).count i + (ixIds (getIx l s)).count i = (ixListIds l).count i := by
  by_cases hs : s < l.length
  · have := count_ixListIds_setIx l s none hs i; simpa using this
  · rw [setIx_ge l s none (by omega), getIx_ge l s (by omega)]; simp

theorem length_setIx (l : List (Option Index)) (s : Nat) (v : Option Index) : (setIx l s v).length = l.length := by
  induction l generalizing s with
  | nil => cases s <;> rfl
  | cons y t ih => cases s <;> simp [setIx, ih]

theorem getIx_setIx_other (l : List (Option Index)) (s t : Nat) (v : Option Index) (h : s ≠ t) :
    getIx (setIx l s v) t = getIx l t := by
  induction l generalizing s t with
  | nil => cases s <;> rfl
  | cons y r ih =>
    cases s with
    | zero =>
      cases t with
      | zero => exact absurd rfl h
      | succ k => simp [setIx, getIx]
    | succ k =>
      cases t with
      | zero => simp [setIx, getIx]
      | succ m => simpa [setIx, getIx] using ih k m (by omega)


theorem getIx_setIx_same (l : List (Option Index)) (s : Nat) (v : Option Index) (hs : s < l.length) :
    getIx (setIx l s v) s = v := by
  induction l generalizing s with
  | nil => simp at hs
  | cons y t ih =>
    cases s with
    | zero => simp [setIx, getIx]
    | succ k => simpa [setIx, getIx] using ih k (by simp at hs; omega)

theorem World.ids_def (w : World) :
    w.ids = (match w.strm with | none => [] | some (i, n) => i :: n.ids) ++ ixListIds w.ix := rfl

macro "ceqW" : tactic =>
  `(tactic| (intro i; simp only [World.ids_def, ids_mk, ids_null, List.count_append, List.count_cons, List.count_nil,
      List.append_assoc, List.nil_append, List.append_nil, List.cons_append, beq_iff_eq, optIds_cons, optIds_append,
      optIds_nil, toL_none, toL_some, ixIds_none, ixIds_some, ixListIds_nil, ixListIds_cons]
      <;> (try split) <;> (try split) <;> (try split) <;> omega))

theorem spec_lzmaEnd (w : World) : Spec (lzmaEnd w) w.ids (fun w' => w'.ids) := by
  unfold lzmaEnd
  split
  · rename_i h; exact Spec.pure (by ceqW)
  · rename_i i n h
    refine Spec.bind (mid := fun _ => i :: ixListIds w.ix)
      (Spec.frame (i :: ixListIds w.ix) (spec_endNode n) (by simp [World.ids_def, h]; ceqW) (by intro _; ceqW)) (fun _ => ?_)
    refine Spec.bind (mid := fun _ => ixListIds w.ix)
      (Spec.frame (ixListIds w.ix) (spec_free1 i) (by ceqW) (by intro _; ceqW)) (fun _ => ?_)
    exact Spec.pure (by ceqW)

theorem lzmaEnd_strm (w : World) (f : Oracle) (h : Heap) : ((lzmaEnd w) f h).1.strm = none := by
  cases hs : w.strm with
  | none => simp [lzmaEnd, hs]
  | some p => obtain ⟨i, n⟩ := p; simp [lzmaEnd, hs]

theorem lzmaEnd_ix (w : World) (f : Oracle) (h : Heap) : ((lzmaEnd w) f h).1.ix = w.ix := by
  cases hs : w.strm with
  | none => simp [lzmaEnd, hs]
  | some p => obtain ⟨i, n⟩ := p; simp [lzmaEnd, hs]

def curIds : Option (Nat × Node) → List Nat
  | none => []
  | some (i, n) => i :: n.ids

theorem spec_strmEnsure (w : World) : Spec (strmEnsure S w) w.ids (fun cur => curIds cur ++ ixListIds w.ix) := by
  unfold strmEnsure
  split
  · rename_i s hs; obtain ⟨i, n⟩ := s; exact Spec.pure (by simp [World.ids_def, hs, curIds]; ceqW)
  · rename_i hs
    refine Spec.bind (mid := fun r => toL r ++ ixListIds w.ix)
      (Spec.frame (ixListIds w.ix) (spec_alloc _) (by simp [World.ids_def, hs]; ceqW) (by intro _; ceqW)) (fun r => ?_)
    cases r with
    | none => exact Spec.pure (by simp [curIds]; ceqW)
    | some i => exact Spec.pure (by simp [curIds]; ceqW)

theorem wsafe_strmInit {op : NodeOp} (hop : Safe op) : WSafe (strmInit S op) := by
  intro w
  unfold strmInit
  refine Spec.bind (spec_strmEnsure S w) (fun cur => ?_)
  cases cur with
  | none => exact Spec.pure (by simp [curIds]; ceqW)
  | some p =>
    obtain ⟨i, n⟩ := p
    simp only []
    refine Spec.bind (mid := fun r => r.2.ids ++ (i :: ixListIds w.ix))
      (Spec.frame (i :: ixListIds w.ix) (hop n) (by simp [curIds]; ceqW) (by intro _; ceqW)) (fun r => ?_)
    split
    · refine Spec.bind (mid := fun w' => w'.ids)
        (Spec.conseq (spec_lzmaEnd { w with strm := some (i, r.2) }) (by ceqW) (by intro _; ceqW)) (fun w' => ?_)
      exact Spec.pure (by ceqW)
    · exact Spec.pure (by ceqW)

theorem wsafe_onRoot {op : NodeOp} (hop : Safe op) : WSafe (onRoot op) := by
  intro w
  unfold onRoot
  split
  · exact Spec.pure (by ceqW)
  · rename_i i n hs
    refine Spec.bind (mid := fun r => r.2.ids ++ (i :: ixListIds w.ix))
      (Spec.frame (i :: ixListIds w.ix) (hop n) (by simp [World.ids_def, hs]; ceqW) (by intro _; ceqW)) (fun r => ?_)
    exact Spec.pure (by ceqW)

theorem count_world_setIx (w : World) (s : Nat) (v : Option Index) (hs : s < w.ix.length) (i : Nat) :
    ({ w with ix := setIx w.ix s v } : World).ids.count i + (ixIds (getIx w.ix s)).count i
      = w.ids.count i + (ixIds v).count i := by
  have := count_ixListIds_setIx w.ix s v hs i
  simp only [World.ids_def, List.count_append] at *
  omega

theorem count_world_setIx_none (w : World) (s : Nat) (i : Nat) :
    ({ w with ix := setIx w.ix s none } : World).ids.count i + (ixIds (getIx w.ix s)).count i = w.ids.count i := by
  have := count_ixListIds_setIx_none w.ix s i
  simp only [World.ids_def, List.count_append] at *
  omega

theorem ceq_takeIndex (slot : Nat) (w : World) : CEq (takeIndex slot w).ids w.ids := by
  unfold takeIndex
  split
  · rename_i i k self bufs data opts ix0 ix1 s0 s1 hs
    split
    · exact CEq.rfl'
    · rename_i hc
      have hlt : slot < w.ix.length := by
        simp at hc; omega
      have hnone : getIx w.ix slot = none := by
        simp at hc
        cases hg : getIx w.ix slot with
        | none => rfl
        | some x => simp [hg] at hc
      split
      · intro j
        have := count_ixListIds_setIx w.ix slot ix0 hlt j
        simp only [hnone, World.ids_def, hs, ids_mk, List.count_append, List.count_cons, ixIds_none, List.count_nil] at *
        omega
      · split
        · intro j
          have := count_ixListIds_setIx w.ix slot ix1 hlt j
          simp only [hnone, World.ids_def, hs, ids_mk, List.count_append, List.count_cons, ixIds_none, List.count_nil] at *
          omega
        · exact CEq.rfl'
  · exact CEq.rfl'

theorem spec_tempCoder {op : NodeOp} (hop : Safe op) : Spec (tempCoder op) [] (fun _ => []) := by
  unfold tempCoder
  refine Spec.bind (mid := fun r => r.2.ids) (Spec.conseq (hop (.null 0)) (by ceqn) (by intro _; ceqn)) (fun r => ?_)
  refine Spec.bind (mid := fun _ => []) (spec_endNode r.2) (fun _ => ?_)
  exact Spec.pure (by ceqn)

/-- a call that allocates and frees only temporaries leaves the world as it is -/
theorem spec_temp_world {m : M Ret} (hm : Spec m [] (fun _ => [])) (w : World) :
    Spec (do let r ← m; pure (r, w)) w.ids (fun r => r.2.ids) := by
  refine Spec.bind (mid := fun _ => w.ids) (Spec.frame w.ids hm (by ceqW) (by intro _; ceqW)) (fun r => ?_)
  exact Spec.pure (by ceqW)

theorem wsafe_ixInit (s : Nat) : WSafe (fun w => runOp S w (.ixInit s)) := by
  intro w
  simp only [runOp]
  split
  · exact Spec.pure (by ceqW)
  · rename_i hc
    have hlt : s < w.ix.length := by simp at hc; omega
    have hnone : getIx w.ix s = none := by
      simp at hc
      cases hg : getIx w.ix s with
      | none => rfl
      | some x => simp [hg] at hc
    refine Spec.bind (mid := fun r => ixIds r ++ w.ids) (Spec.frame w.ids (spec_indexInit S) (by ceqW) (by intro _; ceqW)) (fun r => ?_)
    cases r with
    | none => exact Spec.pure (by ceqW)
    | some i =>
      exact Spec.pure (by
        intro j; have := count_world_setIx w s (some i) hlt j
        simp only [hnone, ixIds_none, ixIds_some, List.count_nil, List.count_append] at *; omega)

theorem wsafe_ixAppend (s cnt : Nat) : WSafe (fun w => runOp S w (.ixAppend s cnt)) := by
  intro w
  simp only [runOp]
  split
  · exact Spec.pure (by ceqW)
  · rename_i x hx
    have hlt := getIx_some_lt _ _ _ hx
    have h0 := count_world_setIx_none w s
    refine Spec.bind (mid := fun r => r.2.ids ++ ({ w with ix := setIx w.ix s none } : World).ids)
      (Spec.frame ({ w with ix := setIx w.ix s none } : World).ids (spec_indexAppendN S cnt x)
        (by intro j; have := h0 j; simp only [hx, ixIds_some, List.count_append] at *; omega) (by intro _; ceqW)) (fun r => ?_)
    exact Spec.pure (by
      intro j; have := h0 j; have := count_world_setIx w s (some r.2) hlt j
      simp only [hx, ixIds_some, List.count_append] at *; omega)

theorem wsafe_ixCat (d s : Nat) : WSafe (fun w => runOp S w (.ixCat d s)) := by
  intro w
  simp only [runOp]
  split
  · exact Spec.pure (by ceqW)
  · rename_i hds
    have hne : d ≠ s := by simpa using hds
    split
    · rename_i di si hd hs
      have hdl := getIx_some_lt _ _ _ hd
      have hsl := getIx_some_lt _ _ _ hs
      have hs1 : getIx (setIx w.ix d none) s = some si := by
        rw [getIx_setIx_other _ _ _ _ hne]; exact hs
      have c1 := count_ixListIds_setIx_none w.ix d
      have c2 := count_ixListIds_setIx_none (setIx w.ix d none) s
      -- w0 = the world without both indexes
      have hpre : CEq w.ids ((di.ids ++ si.ids) ++ ({ w with ix := setIx (setIx w.ix d none) s none } : World).ids) := by
        intro j; have := c1 j; have := c2 j
        simp only [World.ids_def, hd, hs1, ixIds_some, List.count_append] at *; omega
      refine Spec.bind (mid := fun r => r.ids ++ ({ w with ix := setIx (setIx w.ix d none) s none } : World).ids)
        (Spec.frame ({ w with ix := setIx (setIx w.ix d none) s none } : World).ids (spec_indexCat S di si) hpre (by intro _; ceqW)) (fun r => ?_)
      have key : ∀ (x : Option Index) (y : Option Index),
          CEq ({ w with ix := setIx (setIx w.ix d x) s y } : World).ids
              (ixIds x ++ ixIds y ++ ({ w with ix := setIx (setIx w.ix d none) s none } : World).ids) := by
        intro x y j
        have a1 := count_ixListIds_setIx w.ix d x hdl j
        have a2 := count_ixListIds_setIx (setIx w.ix d x) s y (by simpa [length_setIx] using hsl) j
        have a3 : getIx (setIx w.ix d x) s = some si := by rw [getIx_setIx_other _ _ _ _ hne]; exact hs
        have := c1 j; have := c2 j
        simp only [World.ids_def, hd, hs1, a3, ixIds_some, List.count_append] at *
        omega
      cases r with
      | ok x => exact Spec.pure (by
          intro j; have := key (some x) none j
          simp only [CatRes.ids, ixIds_some, ixIds_none, List.count_append, List.count_nil] at *; omega)
      | fail e x y => exact Spec.pure (by
          intro j; have := key (some x) (some y) j
          simp only [CatRes.ids, ixIds_some, List.count_append] at *; omega)
    · exact Spec.pure (by ceqW)


theorem wsafe_ixDup (d s : Nat) : WSafe (fun w => runOp S w (.ixDup d s)) := by
  intro w
  simp only [runOp]
  split
  · exact Spec.pure (by ceqW)
  · rename_i hc
    have hlt : d < w.ix.length := by simp at hc; omega
    have hnone : getIx w.ix d = none := by
      simp at hc
      cases hg : getIx w.ix d with
      | none => rfl
      | some x => simp [hg] at hc
    split
    · exact Spec.pure (by ceqW)
    · rename_i si hs
      refine Spec.bind (mid := fun r => ixIds r ++ w.ids) (Spec.frame w.ids (spec_indexDup S si) (by ceqW) (by intro _; ceqW)) (fun r => ?_)
      cases r with
      | none => exact Spec.pure (by ceqW)
      | some c =>
        exact Spec.pure (by
          intro j; have := count_world_setIx w d (some c) hlt j
          simp only [hnone, ixIds_none, ixIds_some, List.count_nil, List.count_append] at *; omega)

theorem wsafe_ixEnd (s : Nat) : WSafe (fun w => runOp S w (.ixEnd s)) := by
  intro w
  simp only [runOp]
  have h0 := count_world_setIx_none w s
  refine Spec.bind (mid := fun _ => ({ w with ix := setIx w.ix s none } : World).ids)
    (Spec.frame ({ w with ix := setIx w.ix s none } : World).ids (spec_indexEnd (getIx w.ix s))
      (by intro j; have := h0 j; simp only [List.count_append] at *; omega) (by intro _; ceqW)) (fun _ => ?_)
  exact Spec.pure (by ceqW)

theorem wsafe_ixBufDecode (s cnt : Nat) : WSafe (fun w => runOp S w (.ixBufDecode s cnt)) := by
  intro w
  simp only [runOp]
  split
  · exact Spec.pure (by ceqW)
  · rename_i hc
    have hlt : s < w.ix.length := by simp at hc; omega
    have hnone : getIx w.ix s = none := by
      simp at hc
      cases hg : getIx w.ix s with
      | none => rfl
      | some x => simp [hg] at hc
    refine Spec.bind (mid := fun r => ixIds r ++ w.ids) (Spec.frame w.ids (spec_indexInit S) (by ceqW) (by intro _; ceqW)) (fun r => ?_)
    cases r with
    | none => exact Spec.pure (by ceqW)
    | some i0 =>
      simp only []
      have hids : ∀ c : Nat, ({ i0 with prealloc := c } : Index).ids = i0.ids := fun _ => rfl
      refine Spec.bind (mid := fun r => r.2.ids ++ w.ids)
        (Spec.frame w.ids (spec_indexAppendN S cnt (if cnt == 0 then i0 else { i0 with prealloc := cnt }))
          (by split <;> (simp only [ixIds_some, hids]; ceqW)) (by intro _; ceqW)) (fun r => ?_)
      split
      · refine Spec.bind (mid := fun _ => w.ids)
          (Spec.frame w.ids (spec_indexEnd (some r.2)) (by ceqW) (by intro _; ceqW)) (fun _ => ?_)
        exact Spec.pure (by ceqW)
      · exact Spec.pure (by
          intro j; have := count_world_setIx w s (some r.2) hlt j
          simp only [hnone, ixIds_none, ixIds_some, List.count_nil, List.count_append] at *; omega)

theorem wsafe_decode (r : Recipe) (slot : Nat) : WSafe (fun w => runOp S w (.decode r slot)) := by
  intro w
  simp only [runOp]
  refine Spec.bind (wsafe_onRoot (safe_decodeOp S r) w) (fun res => ?_)
  split
  · exact Spec.pure (ceq_takeIndex slot res.2).symm
  · exact Spec.pure (by ceqW)

theorem wsafe_strToFilters (nalloc : Nat) (sz : List Nat) (perr : Option Nat) (fails : Bool) :
    WSafe (fun w => runOp S w (.strToFilters nalloc sz perr fails)) := by
  intro w
  simp only [runOp]
  refine Spec.bind (mid := fun r => optPost r ++ w.ids)
    (Spec.frame w.ids (spec_allocOpts true _ []) (by ceqW) (by intro _; ceqW)) (fun r => ?_)
  cases r with
  | none => exact Spec.pure (by simp [optPost]; ceqW)
  | some tmp =>
    simp only []
    cases perr with
    | some k =>
      simp only []
      have hrev := count_optIds_reverse tmp
      split
      · rename_i hnil
        exact Spec.pure (by
          intro j; have := hrev j; rw [hnil] at this
          simp only [optPost, optIds_nil, List.count_nil, List.count_append] at *; omega)
      · rename_i last before hcons
        refine Spec.bind (mid := fun _ => optIds before ++ w.ids)
          (Spec.frame (optIds before ++ w.ids) (spec_free last)
            (by intro j; have := hrev j; rw [hcons] at this
                simp only [optPost, optIds_cons, List.count_append] at *; omega) (by intro _; ceqW)) (fun _ => ?_)
        refine Spec.bind (mid := fun _ => w.ids)
          (Spec.frame w.ids (spec_freeOpts before) (by ceqW) (by intro _; ceqW)) (fun _ => ?_)
        exact Spec.pure (by ceqW)
    | none =>
      simp only []
      split
      · refine Spec.bind (mid := fun _ => w.ids)
          (Spec.frame w.ids (spec_freeOptsRev tmp) (by simp [optPost]; ceqW) (by intro _; ceqW)) (fun _ => ?_)
        exact Spec.pure (by ceqW)
      · refine Spec.bind (mid := fun _ => w.ids)
          (Spec.frame w.ids (spec_freeOpts tmp) (by simp [optPost]; ceqW) (by intro _; ceqW)) (fun _ => ?_)
        exact Spec.pure (by ceqW)

theorem wsafe_streamBufferEncode (c : Chain) : WSafe (fun w => runOp S w (.streamBufferEncode c)) := by
  intro w
  simp only [runOp]
  refine Spec.bind (mid := fun _ => w.ids)
    (Spec.frame w.ids (spec_tempCoder (safe_rawCoderInit S true c)) (by ceqW) (by intro _; ceqW)) (fun r => ?_)
  split
  · exact Spec.pure (by ceqW)
  · refine Spec.bind (mid := fun r => ixIds r ++ w.ids) (Spec.frame w.ids (spec_indexInit S) (by ceqW) (by intro _; ceqW)) (fun r => ?_)
    cases r with
    | none => exact Spec.pure (by ceqW)
    | some i =>
      simp only []
      refine Spec.bind (mid := fun a => a.2.ids ++ w.ids)
        (Spec.frame w.ids (spec_indexAppend S i) (by ceqW) (by intro _; ceqW)) (fun a => ?_)
      refine Spec.bind (mid := fun _ => w.ids)
        (Spec.frame w.ids (spec_indexEnd (some a.2)) (by ceqW) (by intro _; ceqW)) (fun _ => ?_)
      exact Spec.pure (by ceqW)

theorem wsafe_runOp (op : Op) : WSafe (fun w => runOp S w op) := by
  cases op with
  | streamEncoder c => intro w; simp only [runOp]; exact wsafe_strmInit S (safe_streamEncoderInit S c) w
  | aloneEncoder f => intro w; simp only [runOp]; exact wsafe_strmInit S (safe_aloneEncoderInit S f) w
  | microEncoder f => intro w; simp only [runOp]; exact wsafe_strmInit S (safe_microEncoderInit S f) w
  | rawEncoder c => intro w; simp only [runOp]; exact wsafe_strmInit S (safe_rawCoderInit S true c) w
  | rawDecoder c => intro w; simp only [runOp]; exact wsafe_strmInit S (safe_rawCoderInit S false c) w
  | blockEncoder c => intro w; simp only [runOp]; exact wsafe_strmInit S (safe_blockEncoderInit S c) w
  | blockDecoder c => intro w; simp only [runOp]; exact wsafe_strmInit S (safe_blockDecoderInit S c) w
  | indexEncoder => intro w; simp only [runOp]; exact wsafe_strmInit S (safe_indexEncoderInit S) w
  | streamDecoder ml => intro w; simp only [runOp]; exact wsafe_strmInit S (safe_streamDecoderInit S ml) w
  | autoDecoder ml => intro w; simp only [runOp]; exact wsafe_strmInit S (safe_autoDecoderInit S ml) w
  | memlimitSet new =>
    intro w; simp only [runOp]
    exact wsafe_onRoot (safe_ite (fun n => n.init == I_SDEC) (safe_streamDecoderMemlimit new)
      (safe_ite (fun n => n.init == I_AUTODEC) (safe_autoDecoderMemlimit S new) (fun n => Spec.pure (by ceqn)))) w
  | aloneDecoder => intro w; simp only [runOp]; exact wsafe_strmInit S (safe_aloneDecoderInit S) w
  | lzipDecoder => intro w; simp only [runOp]; exact wsafe_strmInit S (safe_lzipDecoderInit S) w
  | microDecoder => intro w; simp only [runOp]; exact wsafe_strmInit S (safe_microDecoderInit S) w
  | indexDecoder => intro w; simp only [runOp]; exact wsafe_strmInit S (safe_indexDecoderInit S) w
  | fileInfoDecoder => intro w; simp only [runOp]; exact wsafe_strmInit S (safe_fileInfoDecoderInit S) w
  | encode c act len =>
    intro w; simp only [runOp]
    exact wsafe_onRoot (safe_ite (fun n => n.init == I_SENC) (safe_streamEncode S c act len) safe_skip) w
  | decode r slot => exact wsafe_decode S r slot
  | filtersUpdate cur c =>
    intro w; simp only [runOp]
    split
    · exact Spec.pure (by ceqW)
    · exact wsafe_onRoot (safe_ite (fun n => n.init == I_SENC) (safe_streamEncoderUpdate S cur c) (fun n => Spec.pure (by ceqn))) w
  | badFlagsInit which =>
    intro w; simp only [runOp]; exact wsafe_strmInit S (safe_seq (safe_guard _) (safe_failOp _)) w
  | lzmaEnd =>
    intro w; simp only [runOp]
    refine Spec.bind (spec_lzmaEnd w) (fun w' => ?_)
    exact Spec.pure (by ceqW)
  | ixInit s => exact wsafe_ixInit S s
  | ixAppend s cnt => exact wsafe_ixAppend S s cnt
  | ixCat d s => exact wsafe_ixCat S d s
  | ixDup d s => exact wsafe_ixDup S d s
  | ixEnd s => exact wsafe_ixEnd S s
  | ixBufDecode s cnt => exact wsafe_ixBufDecode S s cnt
  | filtersCopy c =>
    intro w; simp only [runOp]
    refine Spec.bind (mid := fun r => optPost r ++ w.ids)
      (Spec.frame w.ids (spec_filtersCopy _) (by ceqW) (by intro _; ceqW)) (fun r => ?_)
    cases r with
    | none => exact Spec.pure (by simp [optPost]; ceqW)
    | some d =>
      simp only []
      refine Spec.bind (mid := fun _ => w.ids)
        (Spec.frame w.ids (spec_freeOpts d) (by simp [optPost]; ceqW) (by intro _; ceqW)) (fun _ => ?_)
      exact Spec.pure (by ceqW)
  | blockHeaderDecode c => intro w; simp only [runOp]; exact spec_temp_world (spec_allocFreeList _) w
  | propsDecode f => intro w; simp only [runOp]; exact spec_temp_world (spec_allocFreeList _) w
  | strToFilters nalloc sz perr fails => exact wsafe_strToFilters S nalloc sz perr fails
  | strAlloc => intro w; simp only [runOp]; exact spec_temp_world (spec_allocFreeList _) w
  | streamBufferDecode c b s =>
    intro w; simp only [runOp]
    exact spec_temp_world (spec_tempCoder (safe_seq (safe_streamDecoderInit S _) (safe_streamDecode S c b s))) w
  | streamBufferEncode c => exact wsafe_streamBufferEncode S c
  | rawBufferCode enc c => intro w; simp only [runOp]; exact spec_temp_world (spec_tempCoder (safe_rawCoderInit S enc c)) w
  | blockBufferDecode c => intro w; simp only [runOp]; exact spec_temp_world (spec_tempCoder (safe_blockDecoderInit S c)) w

theorem spec_runOps (ops : List Op) (w : World) : Spec (runOps S ops w) w.ids (fun r => r.2.ids) := by
  induction ops generalizing w with
  | nil => exact Spec.pure (by ceqW)
  | cons op rest ih =>
    unfold runOps
    refine Spec.bind (wsafe_runOp S op w) (fun r => ?_)
    refine Spec.bind (ih r.2) (fun rs => ?_)
    exact Spec.pure (by ceqW)

theorem spec_cleanup_go (l : List (Option Index)) : Spec (cleanup.go l) (ixListIds l) (fun _ => []) := by
  induction l with
  | nil => exact Spec.pure (by ceqW)
  | cons x t ih =>
    unfold cleanup.go
    refine Spec.bind (mid := fun _ => ixListIds t)
      (Spec.frame (ixListIds t) (spec_indexEnd x) (by ceqW) (by intro _; ceqW)) (fun _ => ?_)
    exact ih

theorem spec_lzmaEnd' (w : World) : Spec (lzmaEnd w) w.ids (fun _ => ixListIds w.ix) := by
  unfold lzmaEnd
  split
  · rename_i h; exact Spec.pure (by simp [World.ids_def, h]; ceqW)
  · rename_i i n h
    refine Spec.bind (mid := fun _ => i :: ixListIds w.ix)
      (Spec.frame (i :: ixListIds w.ix) (spec_endNode n) (by simp [World.ids_def, h]; ceqW) (by intro _; ceqW)) (fun _ => ?_)
    refine Spec.bind (mid := fun _ => ixListIds w.ix)
      (Spec.frame (ixListIds w.ix) (spec_free1 i) (by ceqW) (by intro _; ceqW)) (fun _ => ?_)
    exact Spec.pure (by ceqW)

theorem spec_cleanup (w : World) : Spec (cleanup w) w.ids (fun _ => []) := by
  unfold cleanup
  refine Spec.bind (spec_lzmaEnd' w) (fun _ => ?_)
  refine Spec.bind (mid := fun _ => []) (spec_cleanup_go w.ix) (fun _ => ?_)
  exact Spec.pure (by ceqW)


/-! ## facts used by the property statements -/

/-- a sane heap to start from: whatever else the application has allocated (`live`), nothing freed wrongly -/
def HeapWF (h : Heap) : Prop := h.bad = false ∧ h.live.Nodup ∧ ∀ i ∈ h.live, i < h.next

theorem good_of_wf {h : Heap} (hw : HeapWF h) : Good h ([] ++ h.live) := by
  obtain ⟨h1, h2, h3⟩ := hw
  refine ⟨h1, fun _ => rfl, fun i => ?_, fun i hi => ?_⟩
  · exact List.nodup_iff_count.mp h2 i
  · exact List.count_eq_zero_of_not_mem (fun hm => by have := h3 i hm; omega)

/-- the 15 public initialisation functions on a `lzma_stream` -/
def isInit : Op → Bool
  | .streamEncoder _ | .aloneEncoder _ | .microEncoder _ | .rawEncoder _ | .rawDecoder _ | .blockEncoder _
  | .blockDecoder _ | .indexEncoder | .streamDecoder _ | .autoDecoder _ | .aloneDecoder | .lzipDecoder | .microDecoder
  | .indexDecoder | .fileInfoDecoder | .badFlagsInit _ => true
  | _ => false

/-- calls that work on the handle only (they get no caller-owned index or filter array to write to) -/
def isHandleOp : Op → Bool
  | .encode .. | .filtersUpdate .. | .memlimitSet _ | .lzmaEnd => true
  | op => isInit op

theorem strmInit_fail (op : NodeOp) (w : World) (f : Oracle) (h : Heap)
    (hr : (strmInit S op w f h).1.1 ≠ OK) :
    (strmInit S op w f h).1.2.strm = none ∧ (strmInit S op w f h).1.2.ix = w.ix := by
  unfold strmInit at hr ⊢
  simp only [run_bind] at hr ⊢
  cases hc : (strmEnsure S w f h).1 with
  | none => simp [hc]
  | some p =>
    obtain ⟨i, n⟩ := p
    simp only [hc, run_bind] at hr ⊢
    by_cases hne : ((op n f (strmEnsure S w f h).2).1.1 != OK) = true
    · simp only [hne, if_true, run_bind, run_pure]
      exact ⟨lzmaEnd_strm _ _ _, lzmaEnd_ix _ _ _⟩
    · simp only [hne] at hr
      simp at hr

theorem runOp_init_eq (op : Op) (hop : isInit op = true) (w : World) :
    ∃ nop : NodeOp, runOp S w op = strmInit S nop w := by
  cases op <;> simp [isInit] at hop <;> exact ⟨_, rfl⟩

theorem onRoot_ix (op : NodeOp) (w : World) (f : Oracle) (h : Heap) : (onRoot op w f h).1.2.ix = w.ix := by
  unfold onRoot
  cases hs : w.strm with
  | none => simp
  | some p => obtain ⟨i, n⟩ := p; simp

theorem strmInit_ix (op : NodeOp) (w : World) (f : Oracle) (h : Heap) : (strmInit S op w f h).1.2.ix = w.ix := by
  by_cases hr : (strmInit S op w f h).1.1 = OK
  · unfold strmInit at hr ⊢
    simp only [run_bind] at hr ⊢
    cases hc : (strmEnsure S w f h).1 with
    | none => simp [hc]
    | some p =>
      obtain ⟨i, n⟩ := p
      simp only [hc, run_bind] at hr ⊢
      by_cases hne : ((op n f (strmEnsure S w f h).2).1.1 != OK) = true
      · simp only [hne, if_true, run_bind, run_pure]; exact lzmaEnd_ix _ _ _
      · simp [hne]
  · exact (strmInit_fail S op w f h hr).2

/-- the op keeps the coder struct, its init id and its filter-option array -/
def KeepsOpts (op : NodeOp) : Prop :=
  ∀ (i self : Nat) (bufs : List (Option Nat)) (data : List Nat) (opts : List (Option Nat)) (ix0 ix1 : Option Index)
    (s0 s1 : Node) (f : Oracle) (h : Heap),
    ∃ bufs' data' ix0' ix1' s0' s1',
      (op (.mk i self bufs data opts ix0 ix1 s0 s1) f h).1.2 = .mk i self bufs' data' opts ix0' ix1' s0' s1'

theorem keeps_setData (k v : Nat) : KeepsOpts (setData k v) := by
  intro i self bufs data opts ix0 ix1 s0 s1 f h
  exact ⟨_, _, _, _, _, _, rfl⟩

theorem keeps_onSub0 (op : NodeOp) : KeepsOpts (onSub0 op) := by
  intro i self bufs data opts ix0 ix1 s0 s1 f h
  exact ⟨_, _, _, _, _, _, rfl⟩

theorem keeps_seq {a b : NodeOp} (ha : KeepsOpts a) (hb : KeepsOpts b) : KeepsOpts (a ⨟ b) := by
  intro i self bufs data opts ix0 ix1 s0 s1 f h
  obtain ⟨b1, d1, x0, x1, t0, t1, e1⟩ := ha i self bufs data opts ix0 ix1 s0 s1 f h
  unfold seq
  simp only [run_bind]
  split
  · exact ⟨_, _, _, _, _, _, e1⟩
  · rw [e1]; exact hb i self b1 d1 opts x0 x1 t0 t1 f _

theorem replaceOpts_fail_keeps (sizes : List (Option Nat)) {body : NodeOp} (hb : KeepsOpts body)
    (i self : Nat) (bufs : List (Option Nat)) (data : List Nat)
    (opts : List (Option Nat)) (ix0 ix1 : Option Index) (s0 s1 : Node) (fail : Oracle) (h : Heap)
    (hr : (replaceOpts sizes body (.mk i self bufs data opts ix0 ix1 s0 s1) fail h).1.1 ≠ OK) :
    ∃ bufs' data' ix0' ix1' s0' s1',
      (replaceOpts sizes body (.mk i self bufs data opts ix0 ix1 s0 s1) fail h).1.2 = .mk i self bufs' data' opts ix0' ix1' s0' s1' := by
  unfold replaceOpts at hr ⊢
  simp only [run_bind] at hr ⊢
  cases hc : (filtersCopy sizes fail h).1 with
  | none => simp only [hc, run_pure]; exact ⟨_, _, _, _, _, _, rfl⟩
  | some tmp =>
    simp only [hc, run_bind] at hr ⊢
    obtain ⟨b1, d1, x0, x1, t0, t1, e1⟩ := hb i self bufs data opts ix0 ix1 s0 s1 fail (filtersCopy sizes fail h).2
    generalize body (.mk i self bufs data opts ix0 ix1 s0 s1) fail (filtersCopy sizes fail h).2 = rb at hr e1 ⊢
    obtain ⟨⟨ret, n'⟩, h'⟩ := rb
    simp only at e1
    subst e1
    by_cases hne : (ret != OK) = true
    · simp only [hne, if_true, run_bind, run_pure]; exact ⟨_, _, _, _, _, _, rfl⟩
    · simp only [hne, run_bind, run_pure] at hr
      simp [OK] at hr

theorem keeps_failOp (r : Ret) : KeepsOpts (failOp r) := by
  intro i self bufs data opts ix0 ix1 s0 s1 f h
  exact ⟨_, _, _, _, _, _, rfl⟩

theorem keeps_skip : KeepsOpts skip := by
  intro i self bufs data opts ix0 ix1 s0 s1 f h
  exact ⟨_, _, _, _, _, _, rfl⟩

theorem streamEncoderUpdate_fail_keeps (cur c : Chain) (i self : Nat) (bufs : List (Option Nat)) (data : List Nat)
    (opts : List (Option Nat)) (ix0 ix1 : Option Index) (s0 s1 : Node) (fail : Oracle) (h : Heap)
    (hr : (streamEncoderUpdate S cur c (.mk i self bufs data opts ix0 ix1 s0 s1) fail h).1.1 ≠ OK) :
    ∃ bufs' data' ix0' ix1' s0' s1',
      (streamEncoderUpdate S cur c (.mk i self bufs data opts ix0 ix1 s0 s1) fail h).1.2 = .mk i self bufs' data' opts ix0' ix1' s0' s1' := by
  unfold streamEncoderUpdate at hr ⊢
  refine replaceOpts_fail_keeps _ ?_ i self bufs data opts ix0 ix1 s0 s1 fail h hr
  intro i self bufs data opts ix0 ix1 s0 s1 f h
  simp only []
  split
  · exact keeps_seq (keeps_setData _ _) (keeps_seq (keeps_onSub0 _) (keeps_setData _ _)) i self bufs data opts ix0 ix1 s0 s1 f h
  · split
    · split
      · exact keeps_failOp _ i self bufs data opts ix0 ix1 s0 s1 f h
      · exact keeps_skip i self bufs data opts ix0 ix1 s0 s1 f h
    · exact ⟨_, _, _, _, _, _, rfl⟩

end XzVerif.Alloc
