/- C17 invariant Q6: preservation by `exec` (generated layout; one lemma per program counter). -/
import XzVerif.Lemmas.XzIoQ6Def

namespace XzVerif.XzIo
variable {α : Type}
set_option linter.unusedSimpArgs false
set_option linter.unusedVariables false

theorem q6_exec_openSrc {c : Cfg α} {s : St α} (hi : c.init = .ok) (hf : c.fin = .ok) (hk : c.srcSkip = false)
    (hpc : s.pc = .openSrc) (q : Q6 s) : Q6 (exec c s) := by
  unfold exec; simp only [hpc]
  repeat' split
  all_goals
    intro hall hua
    simp only [closeSrcPhase_trace, closeDestPhase_trace, afterAttrs_trace, closeBlock_trace, ioClose_trace, ioFail_trace,
      openDestErr_trace, finish_trace, doInit_trace, continueLoop_trace, afterWrite_trace, appendData_trace,
      closeSrcPhase_userAbort, closeDestPhase_userAbort, afterAttrs_userAbort, closeBlock_userAbort, ioClose_userAbort,
      ioFail_userAbort, openDestErr_userAbort, finish_userAbort, doInit_userAbort, continueLoop_userAbort,
      afterWrite_userAbort, appendData_userAbort, emit, msgError, msgWarn, List.forall_mem_cons] at hall hua
    obtain ⟨hev, hall⟩ := hall
    have hp := q hall hua
    have hs := hp.ok
    have hb := hp.nb
    first
      | (simp [hpc, Pc.bad] at hb; done)
      | (simp [benign] at hev; done)
      | (simp_all [benign, EINTR, EAGAIN, ENOENT, emit, isRetry]; done)
      | (have hua' : ∀ (s1 : St α), s1.userAbort = s.userAbort → s1.userAbort = false := fun s1 e => by rw [e]; exact hua
         first
           | exact happy_continueLoop c hi hf _ (hua' _ rfl)
           | exact happy_afterWrite c hi hf _ (hua' _ rfl))
      | (have hsucc : s.success = true := hs (by rw [hpc]; rfl)
         first
           | exact happy_closeSrcPhase c _ hsucc
           | exact happy_closeDestPhase c _ hsucc
           | exact happy_afterAttrs c _ hsucc
           | exact happy_closeBlock c _ hsucc
           | exact ⟨rfl, fun _ => hsucc⟩)
      | (refine ⟨?_, ?_⟩
         · simp [Pc.bad, emit, msgWarn, hpc]
         · simp [Pc.fin, emit, msgWarn, hpc])
      | (have hsucc : s.success = true := hs (by rw [hpc]; rfl)
         rename_i hx
         exact absurd hsucc hx)
      | (have hu2 : ∀ d, (appendData c (emit s (Call.write s.wr.length) (Res.ok (count (c.fault s.k) s.wr.length))) d).userAbort = false := by
           intro d; rw [appendData_userAbort]; exact hua
         exact happy_afterWrite c hi hf _ (hu2 _))

theorem q6_exec_fstatSrc {c : Cfg α} {s : St α} (hi : c.init = .ok) (hf : c.fin = .ok) (hk : c.srcSkip = false)
    (hpc : s.pc = .fstatSrc) (q : Q6 s) : Q6 (exec c s) := by
  unfold exec; simp only [hpc]
  repeat' split
  all_goals
    intro hall hua
    simp only [closeSrcPhase_trace, closeDestPhase_trace, afterAttrs_trace, closeBlock_trace, ioClose_trace, ioFail_trace,
      openDestErr_trace, finish_trace, doInit_trace, continueLoop_trace, afterWrite_trace, appendData_trace,
      closeSrcPhase_userAbort, closeDestPhase_userAbort, afterAttrs_userAbort, closeBlock_userAbort, ioClose_userAbort,
      ioFail_userAbort, openDestErr_userAbort, finish_userAbort, doInit_userAbort, continueLoop_userAbort,
      afterWrite_userAbort, appendData_userAbort, emit, msgError, msgWarn, List.forall_mem_cons] at hall hua
    obtain ⟨hev, hall⟩ := hall
    have hp := q hall hua
    have hs := hp.ok
    have hb := hp.nb
    first
      | (simp [hpc, Pc.bad] at hb; done)
      | (simp [benign] at hev; done)
      | (simp_all [benign, EINTR, EAGAIN, ENOENT, emit, isRetry]; done)
      | (have hua' : ∀ (s1 : St α), s1.userAbort = s.userAbort → s1.userAbort = false := fun s1 e => by rw [e]; exact hua
         first
           | exact happy_continueLoop c hi hf _ (hua' _ rfl)
           | exact happy_afterWrite c hi hf _ (hua' _ rfl))
      | (have hsucc : s.success = true := hs (by rw [hpc]; rfl)
         first
           | exact happy_closeSrcPhase c _ hsucc
           | exact happy_closeDestPhase c _ hsucc
           | exact happy_afterAttrs c _ hsucc
           | exact happy_closeBlock c _ hsucc
           | exact ⟨rfl, fun _ => hsucc⟩)
      | (refine ⟨?_, ?_⟩
         · simp [Pc.bad, emit, msgWarn, hpc]
         · simp [Pc.fin, emit, msgWarn, hpc])
      | (have hsucc : s.success = true := hs (by rw [hpc]; rfl)
         rename_i hx
         exact absurd hsucc hx)
      | (have hu2 : ∀ d, (appendData c (emit s (Call.write s.wr.length) (Res.ok (count (c.fault s.k) s.wr.length))) d).userAbort = false := by
           intro d; rw [appendData_userAbort]; exact hua
         exact happy_afterWrite c hi hf _ (hu2 _))

theorem q6_exec_closeSrcErr {c : Cfg α} {s : St α} (hi : c.init = .ok) (hf : c.fin = .ok) (hk : c.srcSkip = false)
    (hpc : s.pc = .closeSrcErr) (q : Q6 s) : Q6 (exec c s) := by
  unfold exec; simp only [hpc]
  repeat' split
  all_goals
    intro hall hua
    simp only [closeSrcPhase_trace, closeDestPhase_trace, afterAttrs_trace, closeBlock_trace, ioClose_trace, ioFail_trace,
      openDestErr_trace, finish_trace, doInit_trace, continueLoop_trace, afterWrite_trace, appendData_trace,
      closeSrcPhase_userAbort, closeDestPhase_userAbort, afterAttrs_userAbort, closeBlock_userAbort, ioClose_userAbort,
      ioFail_userAbort, openDestErr_userAbort, finish_userAbort, doInit_userAbort, continueLoop_userAbort,
      afterWrite_userAbort, appendData_userAbort, emit, msgError, msgWarn, List.forall_mem_cons] at hall hua
    obtain ⟨hev, hall⟩ := hall
    have hp := q hall hua
    have hs := hp.ok
    have hb := hp.nb
    first
      | (simp [hpc, Pc.bad] at hb; done)
      | (simp [benign] at hev; done)
      | (simp_all [benign, EINTR, EAGAIN, ENOENT, emit, isRetry]; done)
      | (have hua' : ∀ (s1 : St α), s1.userAbort = s.userAbort → s1.userAbort = false := fun s1 e => by rw [e]; exact hua
         first
           | exact happy_continueLoop c hi hf _ (hua' _ rfl)
           | exact happy_afterWrite c hi hf _ (hua' _ rfl))
      | (have hsucc : s.success = true := hs (by rw [hpc]; rfl)
         first
           | exact happy_closeSrcPhase c _ hsucc
           | exact happy_closeDestPhase c _ hsucc
           | exact happy_afterAttrs c _ hsucc
           | exact happy_closeBlock c _ hsucc
           | exact ⟨rfl, fun _ => hsucc⟩)
      | (refine ⟨?_, ?_⟩
         · simp [Pc.bad, emit, msgWarn, hpc]
         · simp [Pc.fin, emit, msgWarn, hpc])
      | (have hsucc : s.success = true := hs (by rw [hpc]; rfl)
         rename_i hx
         exact absurd hsucc hx)
      | (have hu2 : ∀ d, (appendData c (emit s (Call.write s.wr.length) (Res.ok (count (c.fault s.k) s.wr.length))) d).userAbort = false := by
           intro d; rw [appendData_userAbort]; exact hua
         exact happy_afterWrite c hi hf _ (hu2 _))

theorem q6_exec_openDir {c : Cfg α} {s : St α} (hi : c.init = .ok) (hf : c.fin = .ok) (hk : c.srcSkip = false)
    (hpc : s.pc = .openDir) (q : Q6 s) : Q6 (exec c s) := by
  unfold exec; simp only [hpc]
  repeat' split
  all_goals
    intro hall hua
    simp only [closeSrcPhase_trace, closeDestPhase_trace, afterAttrs_trace, closeBlock_trace, ioClose_trace, ioFail_trace,
      openDestErr_trace, finish_trace, doInit_trace, continueLoop_trace, afterWrite_trace, appendData_trace,
      closeSrcPhase_userAbort, closeDestPhase_userAbort, afterAttrs_userAbort, closeBlock_userAbort, ioClose_userAbort,
      ioFail_userAbort, openDestErr_userAbort, finish_userAbort, doInit_userAbort, continueLoop_userAbort,
      afterWrite_userAbort, appendData_userAbort, emit, msgError, msgWarn, List.forall_mem_cons] at hall hua
    obtain ⟨hev, hall⟩ := hall
    have hp := q hall hua
    have hs := hp.ok
    have hb := hp.nb
    first
      | (simp [hpc, Pc.bad] at hb; done)
      | (simp [benign] at hev; done)
      | (simp_all [benign, EINTR, EAGAIN, ENOENT, emit, isRetry]; done)
      | (have hua' : ∀ (s1 : St α), s1.userAbort = s.userAbort → s1.userAbort = false := fun s1 e => by rw [e]; exact hua
         first
           | exact happy_continueLoop c hi hf _ (hua' _ rfl)
           | exact happy_afterWrite c hi hf _ (hua' _ rfl))
      | (have hsucc : s.success = true := hs (by rw [hpc]; rfl)
         first
           | exact happy_closeSrcPhase c _ hsucc
           | exact happy_closeDestPhase c _ hsucc
           | exact happy_afterAttrs c _ hsucc
           | exact happy_closeBlock c _ hsucc
           | exact ⟨rfl, fun _ => hsucc⟩)
      | (refine ⟨?_, ?_⟩
         · simp [Pc.bad, emit, msgWarn, hpc]
         · simp [Pc.fin, emit, msgWarn, hpc])
      | (have hsucc : s.success = true := hs (by rw [hpc]; rfl)
         rename_i hx
         exact absurd hsucc hx)
      | (have hu2 : ∀ d, (appendData c (emit s (Call.write s.wr.length) (Res.ok (count (c.fault s.k) s.wr.length))) d).userAbort = false := by
           intro d; rw [appendData_userAbort]; exact hua
         exact happy_afterWrite c hi hf _ (hu2 _))

theorem q6_exec_unlinkForce {c : Cfg α} {s : St α} (hi : c.init = .ok) (hf : c.fin = .ok) (hk : c.srcSkip = false)
    (hpc : s.pc = .unlinkForce) (q : Q6 s) : Q6 (exec c s) := by
  unfold exec; simp only [hpc]
  repeat' split
  all_goals
    intro hall hua
    simp only [closeSrcPhase_trace, closeDestPhase_trace, afterAttrs_trace, closeBlock_trace, ioClose_trace, ioFail_trace,
      openDestErr_trace, finish_trace, doInit_trace, continueLoop_trace, afterWrite_trace, appendData_trace,
      closeSrcPhase_userAbort, closeDestPhase_userAbort, afterAttrs_userAbort, closeBlock_userAbort, ioClose_userAbort,
      ioFail_userAbort, openDestErr_userAbort, finish_userAbort, doInit_userAbort, continueLoop_userAbort,
      afterWrite_userAbort, appendData_userAbort, emit, msgError, msgWarn, List.forall_mem_cons] at hall hua
    obtain ⟨hev, hall⟩ := hall
    have hp := q hall hua
    have hs := hp.ok
    have hb := hp.nb
    first
      | (simp [hpc, Pc.bad] at hb; done)
      | (simp [benign] at hev; done)
      | (simp_all [benign, EINTR, EAGAIN, ENOENT, emit, isRetry]; done)
      | (have hua' : ∀ (s1 : St α), s1.userAbort = s.userAbort → s1.userAbort = false := fun s1 e => by rw [e]; exact hua
         first
           | exact happy_continueLoop c hi hf _ (hua' _ rfl)
           | exact happy_afterWrite c hi hf _ (hua' _ rfl))
      | (have hsucc : s.success = true := hs (by rw [hpc]; rfl)
         first
           | exact happy_closeSrcPhase c _ hsucc
           | exact happy_closeDestPhase c _ hsucc
           | exact happy_afterAttrs c _ hsucc
           | exact happy_closeBlock c _ hsucc
           | exact ⟨rfl, fun _ => hsucc⟩)
      | (refine ⟨?_, ?_⟩
         · simp [Pc.bad, emit, msgWarn, hpc]
         · simp [Pc.fin, emit, msgWarn, hpc])
      | (have hsucc : s.success = true := hs (by rw [hpc]; rfl)
         rename_i hx
         exact absurd hsucc hx)
      | (have hu2 : ∀ d, (appendData c (emit s (Call.write s.wr.length) (Res.ok (count (c.fault s.k) s.wr.length))) d).userAbort = false := by
           intro d; rw [appendData_userAbort]; exact hua
         exact happy_afterWrite c hi hf _ (hu2 _))

theorem q6_exec_openDest {c : Cfg α} {s : St α} (hi : c.init = .ok) (hf : c.fin = .ok) (hk : c.srcSkip = false)
    (hpc : s.pc = .openDest) (q : Q6 s) : Q6 (exec c s) := by
  unfold exec; simp only [hpc]
  repeat' split
  all_goals
    intro hall hua
    simp only [closeSrcPhase_trace, closeDestPhase_trace, afterAttrs_trace, closeBlock_trace, ioClose_trace, ioFail_trace,
      openDestErr_trace, finish_trace, doInit_trace, continueLoop_trace, afterWrite_trace, appendData_trace,
      closeSrcPhase_userAbort, closeDestPhase_userAbort, afterAttrs_userAbort, closeBlock_userAbort, ioClose_userAbort,
      ioFail_userAbort, openDestErr_userAbort, finish_userAbort, doInit_userAbort, continueLoop_userAbort,
      afterWrite_userAbort, appendData_userAbort, emit, msgError, msgWarn, List.forall_mem_cons] at hall hua
    obtain ⟨hev, hall⟩ := hall
    have hp := q hall hua
    have hs := hp.ok
    have hb := hp.nb
    first
      | (simp [hpc, Pc.bad] at hb; done)
      | (simp [benign] at hev; done)
      | (simp_all [benign, EINTR, EAGAIN, ENOENT, emit, isRetry]; done)
      | (have hua' : ∀ (s1 : St α), s1.userAbort = s.userAbort → s1.userAbort = false := fun s1 e => by rw [e]; exact hua
         first
           | exact happy_continueLoop c hi hf _ (hua' _ rfl)
           | exact happy_afterWrite c hi hf _ (hua' _ rfl))
      | (have hsucc : s.success = true := hs (by rw [hpc]; rfl)
         first
           | exact happy_closeSrcPhase c _ hsucc
           | exact happy_closeDestPhase c _ hsucc
           | exact happy_afterAttrs c _ hsucc
           | exact happy_closeBlock c _ hsucc
           | exact ⟨rfl, fun _ => hsucc⟩)
      | (refine ⟨?_, ?_⟩
         · simp [Pc.bad, emit, msgWarn, hpc]
         · simp [Pc.fin, emit, msgWarn, hpc])
      | (have hsucc : s.success = true := hs (by rw [hpc]; rfl)
         rename_i hx
         exact absurd hsucc hx)
      | (have hu2 : ∀ d, (appendData c (emit s (Call.write s.wr.length) (Res.ok (count (c.fault s.k) s.wr.length))) d).userAbort = false := by
           intro d; rw [appendData_userAbort]; exact hua
         exact happy_afterWrite c hi hf _ (hu2 _))

theorem q6_exec_closeDirErr {c : Cfg α} {s : St α} (hi : c.init = .ok) (hf : c.fin = .ok) (hk : c.srcSkip = false)
    (hpc : s.pc = .closeDirErr) (q : Q6 s) : Q6 (exec c s) := by
  unfold exec; simp only [hpc]
  repeat' split
  all_goals
    intro hall hua
    simp only [closeSrcPhase_trace, closeDestPhase_trace, afterAttrs_trace, closeBlock_trace, ioClose_trace, ioFail_trace,
      openDestErr_trace, finish_trace, doInit_trace, continueLoop_trace, afterWrite_trace, appendData_trace,
      closeSrcPhase_userAbort, closeDestPhase_userAbort, afterAttrs_userAbort, closeBlock_userAbort, ioClose_userAbort,
      ioFail_userAbort, openDestErr_userAbort, finish_userAbort, doInit_userAbort, continueLoop_userAbort,
      afterWrite_userAbort, appendData_userAbort, emit, msgError, msgWarn, List.forall_mem_cons] at hall hua
    obtain ⟨hev, hall⟩ := hall
    have hp := q hall hua
    have hs := hp.ok
    have hb := hp.nb
    first
      | (simp [hpc, Pc.bad] at hb; done)
      | (simp [benign] at hev; done)
      | (simp_all [benign, EINTR, EAGAIN, ENOENT, emit, isRetry]; done)
      | (have hua' : ∀ (s1 : St α), s1.userAbort = s.userAbort → s1.userAbort = false := fun s1 e => by rw [e]; exact hua
         first
           | exact happy_continueLoop c hi hf _ (hua' _ rfl)
           | exact happy_afterWrite c hi hf _ (hua' _ rfl))
      | (have hsucc : s.success = true := hs (by rw [hpc]; rfl)
         first
           | exact happy_closeSrcPhase c _ hsucc
           | exact happy_closeDestPhase c _ hsucc
           | exact happy_afterAttrs c _ hsucc
           | exact happy_closeBlock c _ hsucc
           | exact ⟨rfl, fun _ => hsucc⟩)
      | (refine ⟨?_, ?_⟩
         · simp [Pc.bad, emit, msgWarn, hpc]
         · simp [Pc.fin, emit, msgWarn, hpc])
      | (have hsucc : s.success = true := hs (by rw [hpc]; rfl)
         rename_i hx
         exact absurd hsucc hx)
      | (have hu2 : ∀ d, (appendData c (emit s (Call.write s.wr.length) (Res.ok (count (c.fault s.k) s.wr.length))) d).userAbort = false := by
           intro d; rw [appendData_userAbort]; exact hua
         exact happy_afterWrite c hi hf _ (hu2 _))

theorem q6_exec_fstatDest {c : Cfg α} {s : St α} (hi : c.init = .ok) (hf : c.fin = .ok) (hk : c.srcSkip = false)
    (hpc : s.pc = .fstatDest) (q : Q6 s) : Q6 (exec c s) := by
  unfold exec; simp only [hpc]
  repeat' split
  all_goals
    intro hall hua
    simp only [closeSrcPhase_trace, closeDestPhase_trace, afterAttrs_trace, closeBlock_trace, ioClose_trace, ioFail_trace,
      openDestErr_trace, finish_trace, doInit_trace, continueLoop_trace, afterWrite_trace, appendData_trace,
      closeSrcPhase_userAbort, closeDestPhase_userAbort, afterAttrs_userAbort, closeBlock_userAbort, ioClose_userAbort,
      ioFail_userAbort, openDestErr_userAbort, finish_userAbort, doInit_userAbort, continueLoop_userAbort,
      afterWrite_userAbort, appendData_userAbort, emit, msgError, msgWarn, List.forall_mem_cons] at hall hua
    obtain ⟨hev, hall⟩ := hall
    have hp := q hall hua
    have hs := hp.ok
    have hb := hp.nb
    first
      | (simp [hpc, Pc.bad] at hb; done)
      | (simp [benign] at hev; done)
      | (simp_all [benign, EINTR, EAGAIN, ENOENT, emit, isRetry]; done)
      | (have hua' : ∀ (s1 : St α), s1.userAbort = s.userAbort → s1.userAbort = false := fun s1 e => by rw [e]; exact hua
         first
           | exact happy_continueLoop c hi hf _ (hua' _ rfl)
           | exact happy_afterWrite c hi hf _ (hua' _ rfl))
      | (have hsucc : s.success = true := hs (by rw [hpc]; rfl)
         first
           | exact happy_closeSrcPhase c _ hsucc
           | exact happy_closeDestPhase c _ hsucc
           | exact happy_afterAttrs c _ hsucc
           | exact happy_closeBlock c _ hsucc
           | exact ⟨rfl, fun _ => hsucc⟩)
      | (refine ⟨?_, ?_⟩
         · simp [Pc.bad, emit, msgWarn, hpc]
         · simp [Pc.fin, emit, msgWarn, hpc])
      | (have hsucc : s.success = true := hs (by rw [hpc]; rfl)
         rename_i hx
         exact absurd hsucc hx)
      | (have hu2 : ∀ d, (appendData c (emit s (Call.write s.wr.length) (Res.ok (count (c.fault s.k) s.wr.length))) d).userAbort = false := by
           intro d; rw [appendData_userAbort]; exact hua
         exact happy_afterWrite c hi hf _ (hu2 _))

theorem q6_exec_lseekOut {c : Cfg α} {s : St α} (hi : c.init = .ok) (hf : c.fin = .ok) (hk : c.srcSkip = false)
    (hpc : s.pc = .lseekOut) (q : Q6 s) : Q6 (exec c s) := by
  unfold exec; simp only [hpc]
  repeat' split
  all_goals
    intro hall hua
    simp only [closeSrcPhase_trace, closeDestPhase_trace, afterAttrs_trace, closeBlock_trace, ioClose_trace, ioFail_trace,
      openDestErr_trace, finish_trace, doInit_trace, continueLoop_trace, afterWrite_trace, appendData_trace,
      closeSrcPhase_userAbort, closeDestPhase_userAbort, afterAttrs_userAbort, closeBlock_userAbort, ioClose_userAbort,
      ioFail_userAbort, openDestErr_userAbort, finish_userAbort, doInit_userAbort, continueLoop_userAbort,
      afterWrite_userAbort, appendData_userAbort, emit, msgError, msgWarn, List.forall_mem_cons] at hall hua
    obtain ⟨hev, hall⟩ := hall
    have hp := q hall hua
    have hs := hp.ok
    have hb := hp.nb
    first
      | (simp [hpc, Pc.bad] at hb; done)
      | (simp [benign] at hev; done)
      | (simp_all [benign, EINTR, EAGAIN, ENOENT, emit, isRetry]; done)
      | (have hua' : ∀ (s1 : St α), s1.userAbort = s.userAbort → s1.userAbort = false := fun s1 e => by rw [e]; exact hua
         first
           | exact happy_continueLoop c hi hf _ (hua' _ rfl)
           | exact happy_afterWrite c hi hf _ (hua' _ rfl))
      | (have hsucc : s.success = true := hs (by rw [hpc]; rfl)
         first
           | exact happy_closeSrcPhase c _ hsucc
           | exact happy_closeDestPhase c _ hsucc
           | exact happy_afterAttrs c _ hsucc
           | exact happy_closeBlock c _ hsucc
           | exact ⟨rfl, fun _ => hsucc⟩)
      | (refine ⟨?_, ?_⟩
         · simp [Pc.bad, emit, msgWarn, hpc]
         · simp [Pc.fin, emit, msgWarn, hpc])
      | (have hsucc : s.success = true := hs (by rw [hpc]; rfl)
         rename_i hx
         exact absurd hsucc hx)
      | (have hu2 : ∀ d, (appendData c (emit s (Call.write s.wr.length) (Res.ok (count (c.fault s.k) s.wr.length))) d).userAbort = false := by
           intro d; rw [appendData_userAbort]; exact hua
         exact happy_afterWrite c hi hf _ (hu2 _))

theorem q6_exec_read {c : Cfg α} {s : St α} (hi : c.init = .ok) (hf : c.fin = .ok) (hk : c.srcSkip = false)
    (hpc : s.pc = .read) (q : Q6 s) : Q6 (exec c s) := by
  unfold exec; simp only [hpc]
  repeat' split
  all_goals
    intro hall hua
    simp only [closeSrcPhase_trace, closeDestPhase_trace, afterAttrs_trace, closeBlock_trace, ioClose_trace, ioFail_trace,
      openDestErr_trace, finish_trace, doInit_trace, continueLoop_trace, afterWrite_trace, appendData_trace,
      closeSrcPhase_userAbort, closeDestPhase_userAbort, afterAttrs_userAbort, closeBlock_userAbort, ioClose_userAbort,
      ioFail_userAbort, openDestErr_userAbort, finish_userAbort, doInit_userAbort, continueLoop_userAbort,
      afterWrite_userAbort, appendData_userAbort, emit, msgError, msgWarn, List.forall_mem_cons] at hall hua
    obtain ⟨hev, hall⟩ := hall
    have hp := q hall hua
    have hs := hp.ok
    have hb := hp.nb
    first
      | (simp [hpc, Pc.bad] at hb; done)
      | (simp [benign] at hev; done)
      | (simp_all [benign, EINTR, EAGAIN, ENOENT, emit, isRetry]; done)
      | (have hua' : ∀ (s1 : St α), s1.userAbort = s.userAbort → s1.userAbort = false := fun s1 e => by rw [e]; exact hua
         first
           | exact happy_continueLoop c hi hf _ (hua' _ rfl)
           | exact happy_afterWrite c hi hf _ (hua' _ rfl))
      | (have hsucc : s.success = true := hs (by rw [hpc]; rfl)
         first
           | exact happy_closeSrcPhase c _ hsucc
           | exact happy_closeDestPhase c _ hsucc
           | exact happy_afterAttrs c _ hsucc
           | exact happy_closeBlock c _ hsucc
           | exact ⟨rfl, fun _ => hsucc⟩)
      | (refine ⟨?_, ?_⟩
         · simp [Pc.bad, emit, msgWarn, hpc]
         · simp [Pc.fin, emit, msgWarn, hpc])
      | (have hsucc : s.success = true := hs (by rw [hpc]; rfl)
         rename_i hx
         exact absurd hsucc hx)
      | (have hu2 : ∀ d, (appendData c (emit s (Call.write s.wr.length) (Res.ok (count (c.fault s.k) s.wr.length))) d).userAbort = false := by
           intro d; rw [appendData_userAbort]; exact hua
         exact happy_afterWrite c hi hf _ (hu2 _))

end XzVerif.XzIo
