/-
  Concrete streams decoded by the model INSIDE THE KERNEL (`decide +kernel`): non-vacuity of the C03 model theorems and a
  check that the definitions really compute. Kept apart from Props/C03.lean because kernel evaluation of the symbol decoder
  costs seconds per symbol. The streams were produced by tools/lzmagen.py; the C decoder gives the same answers
  (they are part of the correspondence corpus of tools/props/c03.py).
-/
import XzVerif.Model.Lzma2

namespace XzVerif.C03
open XzVerif XzVerif.Lzma XzVerif.Lzma2

/-- lc = lp = pb = 0, unknown size: literal 'a', literal 'b', match (distance 1, length 4), short rep, end marker.
    Exercises literal coder, length coder, distance slot, state machine, rep0, `dict_repeat` with overlap,
    distance slot 63 with 26 direct bits and the align bits (EOPM), `rc_is_finished`. -/
theorem ex_lzma1_eopm :
    lzmaDecode { lc := 0, lp := 0, pb := 0 } 4096 none true [0, 48, 153, 198, 144, 233, 251, 103, 255, 255, 237, 105, 128, 0]
      = { ret := .streamEnd, out := [0x61, 0x62, 0x61, 0x62, 0x61, 0x62, 0x61], consumed := 14 } := by
  decide +kernel

end XzVerif.C03
