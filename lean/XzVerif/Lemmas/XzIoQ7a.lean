/- C17 invariant Q7: preservation by `exec`, program counters before io_close. -/
import XzVerif.Lemmas.XzIoQ7Def

namespace XzVerif.XzIo
variable {α : Type}

theorem msgWarn_exit_ne (s : St α) : (msgWarn s).exitSt ≠ 0 := by
  unfold msgWarn; simp only; split <;> simp

section
variable {c : Cfg α} {s : St α} (q : Q7 s)
include q

set_option hygiene false in
local macro "m_loop" : tactic => `(tactic| exact q7_loop c q hnf rfl rfl)
set_option hygiene false in
local macro "m_fail_exit" : tactic => `(tactic| exact q7_ioFail c _ (Or.inl Nat.one_ne_zero))
set_option hygiene false in
local macro "m_fail_abort" : tactic => `(tactic| (rename_i hua; exact q7_ioFail c _ (Or.inr hua)))
set_option hygiene false in
local macro "m_mid" : tactic => `(tactic| exact q7_mid q hnf rfl rfl rfl (fun h => Bool.noConfusion h))
set_option hygiene false in
/-- stays at the same pc after a retryable error -/
local macro "m_stay" : tactic =>
  `(tactic| (refine q7_mid q hnf rfl ?_ ?_ ?_
             · simp_all [hardErr, isRetry] <;> omega
             · simp [emit, hpc, Pc.finBad, Pc.fin, Pc.bad]
             · simp [emit, hpc, Pc.early]))

theorem q7_exec_openSrc (hpc : s.pc = .openSrc) : Q7 (exec c s) := by
  have hnf : s.pc.finBad = false := by rw [hpc]; rfl
  have hs : s.success = false := q.early (by rw [hpc]; rfl)
  unfold exec; simp only [hpc]
  repeat' split
  all_goals first
    | exact q7_end hs rfl (Or.inl Nat.one_ne_zero) (by simp)
    | exact q7_mid q hnf rfl rfl rfl (fun _ => hs)

theorem q7_exec_fstatSrc (hpc : s.pc = .fstatSrc) : Q7 (exec c s) := by
  have hnf : s.pc.finBad = false := by rw [hpc]; rfl
  have hs : s.success = false := q.early (by rw [hpc]; rfl)
  unfold exec; simp only [hpc]
  repeat' split
  all_goals first
    | exact q7_end hs rfl (Or.inl Nat.one_ne_zero) (by simp)
    | exact q7_end hs rfl (Or.inl (msgWarn_exit_ne _)) (by simp)
    | m_loop

theorem q7_exec_closeSrcErr (hpc : s.pc = .closeSrcErr) : Q7 (exec c s) := by
  have hfb : s.pc.finBad = true := by rw [hpc]; rfl
  have hs : s.success = false := q.early (by rw [hpc]; rfl)
  have hl := q.sad hfb hs
  unfold exec; simp only [hpc]
  refine q7_end hs rfl ?_ (by simp)
  rcases hl with h | h
  · exact Or.inl h
  · exact Or.inr h

theorem q7_exec_openDir (hpc : s.pc = .openDir) : Q7 (exec c s) := by
  have hnf : s.pc.finBad = false := by rw [hpc]; rfl
  unfold exec; simp only [hpc]
  repeat' split
  all_goals first
    | m_fail_exit
    | m_mid

theorem q7_exec_unlinkForce (hpc : s.pc = .unlinkForce) : Q7 (exec c s) := by
  have hnf : s.pc.finBad = false := by rw [hpc]; rfl
  unfold exec; simp only [hpc]
  repeat' split
  all_goals first
    | m_mid
    | (refine q7_mid q hnf rfl ?_ rfl (fun h => Bool.noConfusion h); simp_all [hardErr])
    | (unfold openDestErr; split
       · exact q7_closeDirErr rfl Nat.one_ne_zero
       · m_fail_exit)

theorem q7_exec_openDest (hpc : s.pc = .openDest) : Q7 (exec c s) := by
  have hnf : s.pc.finBad = false := by rw [hpc]; rfl
  unfold exec; simp only [hpc]
  repeat' split
  all_goals first
    | m_mid
    | (unfold openDestErr; split
       · exact q7_closeDirErr rfl Nat.one_ne_zero
       · m_fail_exit)

theorem q7_exec_closeDirErr (hpc : s.pc = .closeDirErr) : Q7 (exec c s) := by
  have hfb : s.pc.finBad = true := by rw [hpc]; rfl
  unfold exec; simp only [hpc]
  exact q7_ioFail c _ (Or.inl (q.cde hpc))

theorem q7_exec_fstatDest (hpc : s.pc = .fstatDest) : Q7 (exec c s) := by
  have hnf : s.pc.finBad = false := by rw [hpc]; rfl
  unfold exec; simp only [hpc]
  repeat' split
  all_goals first
    | m_loop
    | m_mid

theorem q7_exec_lseekOut (hpc : s.pc = .lseekOut) : Q7 (exec c s) := by
  have hnf : s.pc.finBad = false := by rw [hpc]; rfl
  unfold exec; simp only [hpc]
  repeat' split
  all_goals m_loop

theorem q7_exec_read (hpc : s.pc = .read) : Q7 (exec c s) := by
  have hnf : s.pc.finBad = false := by rw [hpc]; rfl
  unfold exec; simp only [hpc]
  repeat' split
  all_goals first
    | m_fail_exit
    | m_fail_abort
    | m_loop
    | m_mid
    | m_stay

theorem q7_exec_readPoll (hpc : s.pc = .readPoll) : Q7 (exec c s) := by
  have hnf : s.pc.finBad = false := by rw [hpc]; rfl
  unfold exec; simp only [hpc]
  repeat' split
  all_goals first
    | m_fail_exit
    | m_fail_abort
    | m_mid
    | m_stay

theorem q7_exec_writePoll (hpc : s.pc = .writePoll) : Q7 (exec c s) := by
  have hnf : s.pc.finBad = false := by rw [hpc]; rfl
  unfold exec; simp only [hpc]
  repeat' split
  all_goals first
    | m_fail_exit
    | m_fail_abort
    | m_mid
    | m_stay

theorem q7_exec_fixPos (hpc : s.pc = .fixPos) : Q7 (exec c s) := by
  have hnf : s.pc.finBad = false := by rw [hpc]; rfl
  unfold exec; simp only [hpc]
  repeat' split
  all_goals m_loop

theorem q7_exec_seekHole (hpc : s.pc = .seekHole) : Q7 (exec c s) := by
  have hnf : s.pc.finBad = false := by rw [hpc]; rfl
  unfold exec; simp only [hpc]
  repeat' split
  all_goals first
    | m_fail_exit
    | m_mid

theorem q7_exec_write (hpc : s.pc = .write) : Q7 (exec c s) := by
  have hnf : s.pc.finBad = false := by rw [hpc]; rfl
  unfold exec; simp only [hpc]
  split
  · repeat' split
    all_goals first
      | m_fail_exit
      | m_fail_abort
      | m_mid
      | m_stay
  · generalize count (c.fault s.k) s.wr.length = n
    split
    · exact q7_afterWrite c q hnf (ev := ⟨.write s.wr.length, .ok n⟩) (by simp [emit]) rfl
    · exact q7_mid q hnf (ev := ⟨.write s.wr.length, .ok n⟩) (by simp [emit]) rfl
        (by simp [emit, hpc, Pc.finBad, Pc.fin, Pc.bad]) (by simp [emit, hpc, Pc.early])

end
end XzVerif.XzIo
