/-
  C13 helper lemmas: the shape of the sequentially filled tree of index.c after `n` calls of `index_tree_append`,
  for every `n < 2^32` (the node count is a `uint32_t`), and the height bound that follows.

  With `k = ⌊log₂ n⌋` the right spine has `k + 1` nodes; the left subtree of the spine node for bit position `p`
  (`p = k-1, …, 0` from the root down) is a perfect tree of height `p + bit_p(n)`, and the last spine node has no left
  subtree.  `index_tree_append` adds a spine node and — unless the count becomes a power of two — rotates left at the
  spine node `ctz(count) + 2` parents above it, which merges two perfect subtrees of equal height: a binary carry.
-/
import XzVerif.Lemmas.IndexTree

namespace XzVerif.Index

/-! ### numbers -/

theorem xor_eq_zero_iff (a b : Nat) : a ^^^ b = 0 ↔ a = b := by
  constructor
  · intro h
    apply Nat.eq_of_testBit_eq
    intro i
    have := congrArg (fun x => x.testBit i) h
    simp only [Nat.testBit_xor, Nat.zero_testBit] at this
    cases ha : a.testBit i <;> cases hb : b.testBit i <;> simp [ha, hb] at this ⊢
  · intro h; subst h; exact Nat.xor_self a

/-- `count ^ (1 << bsr32(count))` is zero exactly for powers of two -/
def isPow2 (c : Nat) : Prop := c ^^^ (1 <<< bsr32 c) = 0

instance (c : Nat) : Decidable (isPow2 c) := by unfold isPow2; infer_instance

theorem isPow2_iff (c : Nat) : isPow2 c ↔ c = 2 ^ Nat.log2 c := by
  unfold isPow2 bsr32; rw [xor_eq_zero_iff, Nat.one_shiftLeft]

theorem isPow2_two_mul {c : Nat} (hc : c ≠ 0) : isPow2 (2 * c) ↔ isPow2 c := by
  rw [isPow2_iff, isPow2_iff, Nat.log2_two_mul hc, Nat.pow_succ]
  omega

theorem not_isPow2_odd {c : Nat} (h1 : c % 2 = 1) (h3 : 3 ≤ c) : ¬ isPow2 c := by
  rw [isPow2_iff]
  intro h
  have hk : 1 ≤ Nat.log2 c := by
    have : ¬ Nat.log2 c < 1 := by
      rw [Nat.log2_lt (by omega)]; omega
    omega
  obtain ⟨k, hk'⟩ : ∃ k, Nat.log2 c = k + 1 := ⟨Nat.log2 c - 1, by omega⟩
  rw [hk', Nat.pow_succ] at h
  omega

theorem isPow2_two : isPow2 2 := by decide

theorem ctzGo_fuel : ∀ (f x : Nat), 0 < x → x < 2 ^ f → ctzGo (f + 1) x = ctzGo f x
  | 0, x, h0, h => by simp at h; omega
  | f + 1, x, h0, h => by
    unfold ctzGo
    by_cases hodd : x % 2 = 1
    · simp [hodd]
    · simp only [hodd, if_false]
      rw [ctzGo_fuel f (x / 2) (by omega) (by rw [Nat.pow_succ] at h; omega)]

theorem ctz32_two_mul {x : Nat} (h0 : 0 < x) (h : 2 * x < 2 ^ 32) : ctz32 (2 * x) = ctz32 x + 1 := by
  unfold ctz32
  have e : ctzGo 32 (2 * x) = ctzGo 31 x + 1 := by
    rw [show (32 : Nat) = 31 + 1 from rfl]
    conv => lhs; unfold ctzGo
    have h1 : ¬ (2 * x) % 2 = 1 := by omega
    have h2 : 2 * x / 2 = x := by omega
    simp only [h1, if_false, h2]
  rw [e, show (32 : Nat) = 31 + 1 from rfl, ctzGo_fuel 31 x h0 (by omega)]

theorem ctz32_odd {x : Nat} (h : x % 2 = 1) : ctz32 x = 0 := by
  unfold ctz32 ctzGo; simp [h]

/-! ### the spine heights -/

/-- heights of the perfect left subtrees along the right spine after `n` appends, from the root down
    (`p + bit_p(n)` for `p = ⌊log₂ n⌋ - 1, …, 0`), by recursion on the binary representation -/
def spineHeights (n : Nat) : List Nat :=
  if h : n < 2 then [] else (spineHeights (n / 2)).map (· + 1) ++ [n % 2]
termination_by n
decreasing_by omega

theorem spineHeights_small {n : Nat} (h : n < 2) : spineHeights n = [] := by
  rw [spineHeights]; simp [h]

theorem spineHeights_big {n : Nat} (h : 2 ≤ n) :
    spineHeights n = (spineHeights (n / 2)).map (· + 1) ++ [n % 2] := by
  rw [spineHeights]; simp [Nat.not_lt.mpr h]

theorem spineHeights_length : ∀ (n : Nat), (spineHeights n).length = Nat.log2 n := by
  intro n
  induction n using Nat.strongRecOn with
  | _ n ih =>
    by_cases h : n < 2
    · rw [spineHeights_small h, Nat.log2_def]; simp [Nat.not_le.mpr h]
    · rw [spineHeights_big (by omega), Nat.log2_def]
      simp only [Nat.not_lt.mp h, if_true, List.length_append, List.length_map, List.length_cons, List.length_nil]
      rw [ih (n / 2) (by omega)]

/-- every entry leaves room: the subtree at spine depth `idx` has height at most `length - idx` -/
theorem spineHeights_bound : ∀ (n idx h : Nat), (spineHeights n)[idx]? = some h → idx + h ≤ (spineHeights n).length := by
  intro n
  induction n using Nat.strongRecOn with
  | _ n ih =>
    intro idx h hh
    by_cases hn : n < 2
    · rw [spineHeights_small hn] at hh; simp at hh
    · rw [spineHeights_big (by omega)] at hh ⊢
      simp only [List.length_append, List.length_map, List.length_cons, List.length_nil]
      by_cases hi : idx < (spineHeights (n / 2)).length
      · rw [List.getElem?_append_left (by simpa using hi), List.getElem?_map] at hh
        obtain ⟨h', hh', rfl⟩ := Option.map_eq_some_iff.mp hh
        have := ih (n / 2) (by omega) idx h' hh'
        omega
      · rw [List.getElem?_append_right (by simpa using Nat.not_lt.mp hi)] at hh
        simp only [List.length_map] at hh
        have hlt := (List.getElem?_eq_some_iff.mp hh).1
        simp only [List.length_cons, List.length_nil] at hlt
        have h0 : idx - (spineHeights (n / 2)).length = 0 := by omega
        rw [h0] at hh
        simp only [List.getElem?_cons_zero, Option.some.injEq] at hh
        omega

/-- **The carry.** One more node: a new last spine entry `0`; unless the new count is a power of two, the two equal
    entries at depth `length + 1 - (ctz(count) + 2)` merge into one that is one higher. -/
theorem spineHeights_step : ∀ (n : Nat), 1 ≤ n → n + 1 < 2 ^ 32 →
    (isPow2 (n + 1) ∧ spineHeights n ++ [0] = spineHeights (n + 1))
    ∨ (¬ isPow2 (n + 1) ∧ ∃ a h b, spineHeights n ++ [0] = a ++ h :: h :: b ∧ spineHeights (n + 1) = a ++ (h + 1) :: b
        ∧ a.length + ctz32 (n + 1) + 2 = (spineHeights n).length + 1) := by
  intro n
  induction n using Nat.strongRecOn with
  | _ n ih =>
    intro h1 hlt
    by_cases hn1 : n = 1
    · subst hn1
      left
      refine ⟨isPow2_two, ?_⟩
      rw [spineHeights_small (by omega), spineHeights_big (by omega), spineHeights_small (by omega)]
      rfl
    · by_cases hev : n % 2 = 0
      · -- n = 2m: the count becomes odd
        right
        have hodd : (n + 1) % 2 = 1 := by omega
        refine ⟨not_isPow2_odd hodd (by omega), (spineHeights (n / 2)).map (· + 1), 0, [], ?_, ?_, ?_⟩
        · rw [spineHeights_big (by omega), hev]; simp
        · rw [spineHeights_big (by omega), hodd]
          have : (n + 1) / 2 = n / 2 := by omega
          rw [this]
        · have hl : (spineHeights n).length = (spineHeights (n / 2)).length + 1 := by
            rw [spineHeights_big (by omega)]; simp
          rw [ctz32_odd hodd, hl]; simp
      · -- n = 2m + 1: the count becomes 2 (m + 1)
        have hm1 : 1 ≤ n / 2 := by omega
        have hcnt : n + 1 = 2 * (n / 2 + 1) := by omega
        have hHn : spineHeights n = (spineHeights (n / 2)).map (· + 1) ++ [1] := by
          rw [spineHeights_big (by omega)]; congr 2; omega
        have hHn1 : spineHeights (n + 1) = (spineHeights (n / 2 + 1)).map (· + 1) ++ [0] := by
          rw [spineHeights_big (by omega)]
          have e1 : (n + 1) / 2 = n / 2 + 1 := by omega
          have e2 : (n + 1) % 2 = 0 := by omega
          rw [e1, e2]
        rcases ih (n / 2) (by omega) hm1 (by omega) with ⟨hp, heq⟩ | ⟨hp, a, h, b, e1, e2, e3⟩
        · left
          refine ⟨by rw [hcnt, isPow2_two_mul (by omega)]; exact hp, ?_⟩
          rw [hHn, hHn1, ← heq]; simp
        · right
          refine ⟨by rw [hcnt, isPow2_two_mul (by omega)]; exact hp,
            a.map (· + 1), h + 1, b.map (· + 1) ++ [0], ?_, ?_, ?_⟩
          · rw [hHn]
            have : (spineHeights (n / 2)).map (· + 1) ++ [1] = (spineHeights (n / 2) ++ [0]).map (· + 1) := by simp
            rw [this, e1]; simp
          · rw [hHn1, e2]; simp
          · rw [hcnt, ctz32_two_mul (by omega) (by omega), hHn]
            simp only [List.length_map, List.length_append, List.length_cons, List.length_nil]
            omega

/-! ### trees with a given spine -/

namespace Tree
variable {α : Type}

/-- perfect binary tree of the given height -/
def Perfect : Nat → Tree α → Prop
  | 0, t => t = nil
  | h + 1, t => ∃ l v r, t = node l v r ∧ Perfect h l ∧ Perfect h r

/-- right spine whose left subtrees are perfect trees of the listed heights, ended by a node without children -/
def SpineL : List Nat → Tree α → Prop
  | [], t => ∃ v, t = node nil v nil
  | h :: hs, t => ∃ l v r, t = node l v r ∧ Perfect h l ∧ SpineL hs r

theorem Perfect.height_eq : ∀ {h : Nat} {t : Tree α}, Perfect h t → t.height = h
  | 0, _, hp => by cases hp; rfl
  | h + 1, _, hp => by
    obtain ⟨l, v, r, rfl, hl, hr⟩ := hp
    simp [height, hl.height_eq, hr.height_eq]

theorem SpineL.ne_nil : ∀ {hs : List Nat} {t : Tree α}, SpineL hs t → ∃ l v r, t = node l v r
  | [], _, ⟨v, h⟩ => ⟨nil, v, nil, h⟩
  | _ :: _, _, ⟨l, v, r, h, _, _⟩ => ⟨l, v, r, h⟩

theorem SpineL.insertRight (x : α) : ∀ {hs : List Nat} {t : Tree α}, SpineL hs t → SpineL (hs ++ [0]) (t.insertRight x)
  | [], _, ⟨v, h⟩ => by
    subst h
    exact ⟨nil, v, node nil x nil, rfl, rfl, x, rfl⟩
  | _ :: _, _, ⟨l, v, r, h, hl, hr⟩ => by
    subst h
    exact ⟨l, v, r.insertRight x, rfl, hl, hr.insertRight x⟩

theorem SpineL.rightDepth : ∀ {hs : List Nat} {t : Tree α}, SpineL hs t → t.rightDepth = hs.length
  | [], _, ⟨v, h⟩ => by subst h; rfl
  | _ :: hs, _, ⟨l, v, r, h, _, hr⟩ => by
    subst h
    obtain ⟨l', v', r', hr'⟩ := hr.ne_nil
    have := hr.rightDepth
    subst hr'
    simp only [Tree.rightDepth, List.length_cons] at this ⊢
    omega

/-- the left rotation at spine depth `|a|` merges the two perfect subtrees of equal height below it -/
theorem SpineL.rotLeftAt : ∀ {a : List Nat} {h : Nat} {b : List Nat} {t : Tree α},
    SpineL (a ++ h :: h :: b) t → SpineL (a ++ (h + 1) :: b) (t.rotLeftAt a.length)
  | [], h, b, _, ⟨A, x, r1, ht, hA, ⟨B, y, C, hr1, hB, hC⟩⟩ => by
    subst ht; subst hr1
    exact ⟨node A x B, y, C, rfl, ⟨A, x, B, rfl, hA, hB⟩, hC⟩
  | _ :: a, h, b, _, ⟨l, v, r, ht, hl, hr⟩ => by
    subst ht
    exact ⟨l, v, r.rotLeftAt a.length, rfl, hl, hr.rotLeftAt⟩

/-- changing the value of the last node (what `lzma_index_stream_flags`, `…_padding`, and adding a Record to the last
    group do) does not change the shape -/
theorem SpineL.modifyRightmost (f : α → α) : ∀ {hs : List Nat} {t : Tree α}, SpineL hs t → SpineL hs (t.modifyRightmost f)
  | [], _, ⟨v, h⟩ => by subst h; exact ⟨f v, rfl⟩
  | _ :: _, _, ⟨l, v, r, h, hl, hr⟩ => by
    subst h
    obtain ⟨l', v', r', hr'⟩ := hr.ne_nil
    have ih := hr.modifyRightmost f
    subst hr'
    exact ⟨l, v, (Tree.node l' v' r').modifyRightmost f, rfl, hl, ih⟩

/-- the height of a spine whose entries leave room -/
theorem SpineL.height_le : ∀ {hs : List Nat} {t : Tree α}, SpineL hs t →
    (∀ idx h, hs[idx]? = some h → idx + h ≤ hs.length) → t.height ≤ hs.length + 1
  | [], _, ⟨v, h⟩, _ => by subst h; simp [height]
  | h0 :: hs, _, ⟨l, v, r, ht, hl, hr⟩, hb => by
    subst ht
    have h1 := hl.height_eq
    have h2 := hr.height_le (fun idx h hh => by
      have := hb (idx + 1) h (by simpa using hh)
      simp only [List.length_cons] at this; omega)
    have h3 := hb 0 h0 (by simp)
    simp only [height, List.length_cons] at h3 ⊢
    omega

end Tree

/-! ### `index_tree_append` keeps the shape -/

namespace CTree
variable {α : Type}

/-- the tree after `count ≥ 1` appends has the spine of `count`; the empty tree is empty -/
def Shaped (t : CTree α) : Prop :=
  (t.count = 0 ∧ t.root = .nil) ∨ (1 ≤ t.count ∧ Tree.SpineL (spineHeights t.count) t.root)

theorem shaped_empty : Shaped (CTree.empty : CTree α) := Or.inl ⟨rfl, rfl⟩

theorem append_root_nil {t : CTree α} (h : t.root = .nil) (x : α) : (t.append x).root = .node .nil x .nil := by
  unfold append; rw [h]

theorem append_root_node {t : CTree α} {l : Tree α} {v : α} {r : Tree α} (h : t.root = .node l v r) (x : α) :
    (t.append x).root =
      if isPow2 (t.count + 1) then (Tree.node l v r).insertRight x
      else ((Tree.node l v r).insertRight x).rotLeftAt
        (((Tree.node l v r).insertRight x).rightDepth - (ctz32 (t.count + 1) + 2)) := by
  unfold append; rw [h]
  simp only
  by_cases hp : isPow2 (t.count + 1)
  · have hp' : (t.count + 1) ^^^ (1 <<< bsr32 (t.count + 1)) = 0 := hp
    rw [if_neg (by simpa using hp'), if_pos hp]
  · have hp' : ¬ (t.count + 1) ^^^ (1 <<< bsr32 (t.count + 1)) = 0 := hp
    rw [if_pos hp', if_neg hp]

theorem shaped_append {t : CTree α} (h : Shaped t) (x : α) (hlt : t.count + 1 < 2 ^ 32) : Shaped (t.append x) := by
  right
  refine ⟨by rw [count_append]; omega, ?_⟩
  rw [count_append]
  rcases h with ⟨hc, hr⟩ | ⟨hc, hs⟩
  · rw [append_root_nil hr, hc, spineHeights_small (by omega)]
    exact ⟨x, rfl⟩
  · obtain ⟨l, v, r, hroot⟩ := hs.ne_nil
    have hins := hs.insertRight x
    have hrd := hins.rightDepth
    rw [append_root_node hroot]
    rw [hroot] at hins hrd
    rcases spineHeights_step t.count hc hlt with ⟨hp, heq⟩ | ⟨hp, a, h, b, e1, e2, e3⟩
    · rw [if_pos hp, ← heq]; exact hins
    · rw [if_neg hp]
      rw [e1] at hins
      have hj : ((Tree.node l v r).insertRight x).rightDepth = a.length + (ctz32 (t.count + 1) + 2) := by
        rw [hrd]; simp only [List.length_append, List.length_cons, List.length_nil]; omega
      rw [hj, Nat.add_sub_cancel, e2]
      exact hins.rotLeftAt

theorem shaped_modifyRightmost {t : CTree α} (h : Shaped t) (f : α → α) :
    Shaped ⟨t.root.modifyRightmost f, t.count⟩ := by
  rcases h with ⟨hc, hr⟩ | ⟨hc, hs⟩
  · left; exact ⟨hc, by show t.root.modifyRightmost f = .nil; rw [hr]; rfl⟩
  · right; exact ⟨hc, hs.modifyRightmost f⟩

/-- height bound: at most `⌊log₂ count⌋ + 1` -/
theorem shaped_height {t : CTree α} (h : Shaped t) : t.root.height ≤ Nat.log2 t.count + 1 := by
  rcases h with ⟨_, hr⟩ | ⟨_, hs⟩
  · rw [hr]; simp [Tree.height]
  · have := hs.height_le (spineHeights_bound t.count)
    rw [spineHeights_length] at this
    exact this

end CTree

/-! ### the evaluated balance test holds for every count -/

theorem balancedGo_of_shaped : ∀ (n : Nat) (t : CTree Unit), CTree.Shaped t → t.root.size = t.count →
    t.count + n < 2 ^ 32 → balancedGo n t = true
  | 0, _, _, _, _ => rfl
  | n + 1, t, hs, hsz, hlt => by
    unfold balancedGo
    have hs' := CTree.shaped_append hs () (by omega)
    have hsz' : (t.append ()).root.size = (t.append ()).count := by
      rw [Tree.size_eq_length, CTree.count_append]
      have := CTree.toList_append t ()
      unfold CTree.toList at this
      rw [this, List.length_append, ← Tree.size_eq_length, hsz]; rfl
    have hh := CTree.shaped_height hs'
    simp only [hsz', hh, and_self, if_true]
    exact balancedGo_of_shaped n (t.append ()) hs' hsz' (by rw [CTree.count_append]; omega)

end XzVerif.Index
