/-
  No lost wake-up: preservation by the main-thread transitions, and the global statement.
-/
import XzVerif.Lemmas.MtDecWake

namespace XzVerif.MtDec

/-- Main-thread labels that do not write worker fields and are not read_output_and_wait's critical section. -/
def Label.wakeSimple : Label → Bool
  | .rowIter _ | .assign | .enablePartial | .stopOne | .endSet | .endJoin | .getThread | .startThr | .tell => false
  | _ => true

theorem WakeInv.mainSimple {s s' : State} {l : Label} (h : WakeInv s) (hl : l.worker? = none)
    (hsimple : l.wakeSimple = true) (hs : step s l = some s') : WakeInv s' := by
  obtain ⟨h1, h2, h3⟩ := h
  cases l <;> simp only [Label.worker?, reduceCtorEq] at hl <;> simp only [Label.wakeSimple, reduceCtorEq] at hsimple <;>
    simp only [step] at hs
  all_goals (repeat' split at hs)
  all_goals first | (cases hs; done) | skip
  all_goals (cases hs)
  all_goals (refine ⟨h1, h2, ?_⟩; intro k w hp; first | (cases hp; done) | (simp_all; done))

/-- The worker half of WakeInv. -/
def WorkersOk (s : State) : Prop :=
  (∀ i, i < s.workers.length → waitOk (getW s i)) ∧
  (∀ i, i < s.workers.length → ∀ lim p, (getW s i).pc = .decode lim p → p ≠ .disabled → (getW s i).pu ≠ .disabled)

theorem WorkersOk.setW {s : State} (h : WorkersOk s) (i : Nat) (w' : Worker)
    (h1 : i < s.workers.length → waitOk w')
    (h2 : i < s.workers.length → ∀ lim p, w'.pc = .decode lim p → p ≠ .disabled → w'.pu ≠ .disabled) :
    WorkersOk (MtDec.setW s i w') := by
  refine ⟨?_, ?_⟩
  · intro j hj
    simp only [setW_workers_length] at hj
    rw [getW_setW_any]
    split
    · rename_i e; exact h1 e.2
    · exact h.1 j hj
  · intro j hj
    simp only [setW_workers_length] at hj
    rw [getW_setW_any]
    split
    · rename_i e; exact h2 e.2
    · exact h.2 j hj

theorem WorkersOk.congr {s s' : State} (h : WorkersOk s) (e : s'.workers = s.workers) : WorkersOk s' := by
  have eg : ∀ j, getW s' j = getW s j := fun j => by simp [getW, e]
  refine ⟨fun i hi => by rw [eg]; exact h.1 i (e ▸ hi), fun i hi => by rw [eg]; exact h.2 i (e ▸ hi)⟩

/-- Writing `st` (not RUN without a signal), or anything together with a signal, keeps a worker's wait justified. -/
theorem waitOk_signal (w : Worker) : waitOk (signalW w) := fun _ => Or.inl rfl

theorem WorkersOk.enablePartialHead {s : State} (h : WorkersOk s) : WorkersOk (enablePartialHead s) := by
  unfold MtDec.enablePartialHead
  split
  · split
    · split
      · rename_i w hw
        refine (h.setW w _ (fun _ => waitOk_signal _) ?_).congr rfl
        intro _ lim p _ _
        show PU.start ≠ PU.disabled
        simp
      · exact h
    · exact h
  · exact h

theorem outqRead_workers (s : State) : (outqRead s).1.workers = s.workers := by
  rw [outqRead_eq]
  split
  · rfl
  · split <;> rfl

theorem WorkersOk.readLoop (fuel : Nat) : ∀ {s : State}, WorkersOk s → WorkersOk (readLoop fuel s).1 := by
  induction fuel with
  | zero => intro s h; exact h
  | succ fuel ih =>
    intro s h
    simp only [MtDec.readLoop]
    split
    · exact ih ((h.congr (outqRead_workers s)).enablePartialHead)
    · exact h.congr (outqRead_workers s)

theorem rowLeaveOrWait_wait {s : State} {k k' : RowK} {w w' : Bool}
    (h : (rowLeaveOrWait s k w).pc = .rowWait k' w') : k' = k ∧ (rowLeaveOrWait s k w).mwoken = false ∧
      MainIdle (rowLeaveOrWait s k w) k := by
  unfold rowLeaveOrWait at h ⊢
  split at h
  · cases h
  · split at h
    · cases h
    · split at h
      · cases h
      · split at h
        · cases h
        · split at h
          · cases h
          · rename_i h1 h2 h3 h4 h5
            injection h with e1 e2
            refine ⟨e1.symm, ?_, ?_⟩
            · simp [h1, h2, h3, h4, h5]
            · simp only [h1, h2, h3, h4, h5, if_false, Bool.false_eq_true]
              have base : MainIdle s k :=
                ⟨by simpa using h3, by simpa using h4, by simpa using h5, by simpa using h1⟩
              exact base.congr rfl rfl rfl (fun _ _ => ⟨rfl, rfl⟩) rfl rfl rfl rfl rfl rfl

theorem WakeInv.rowIterate {s : State} (h : WakeInv s) (k : RowK) (w : Bool) : WakeInv (rowIterate s k w) := by
  have hw : WorkersOk (readLoop (s.queue.length + 1) s).1 := WorkersOk.readLoop _ ⟨h.wk, h.pu⟩
  have m := markFilled_core (readLoop (s.queue.length + 1) s).1 s.outCap
  unfold MtDec.rowIterate
  dsimp only
  split
  · have := hw.congr (s' := { (readLoop (s.queue.length + 1) s).1 with pc := MPc.rowDone k (readLoop (s.queue.length + 1) s).2 false }) rfl
    exact ⟨this.1, this.2, fun _ _ hp => by cases hp⟩
  · split
    · have := (hw.congr m.1.workers).congr
        (s' := { markFilled (readLoop (s.queue.length + 1) s).1 s.outCap with
                 pc := MPc.rowDone k (markFilled (readLoop (s.queue.length + 1) s).1 s.outCap).threadError false }) rfl
      exact ⟨this.1, this.2, fun _ _ hp => by cases hp⟩
    · have fp := flagPend_core (markFilled (readLoop (s.queue.length + 1) s).1 s.outCap)
      have lw := rowLeaveOrWait_core (flagPend (markFilled (readLoop (s.queue.length + 1) s).1 s.outCap)) k w
      have := ((hw.congr m.1.workers).congr fp.1.workers).congr lw.1.workers
      refine ⟨this.1, this.2, ?_⟩
      intro k' w' hp _
      have := rowLeaveOrWait_wait hp
      rw [this.1]; exact this.2.2

theorem WorkersOk.addWorker {s : State} (h : WorkersOk s) : WorkersOk { s with workers := s.workers ++ [{}] } := by
  refine ⟨?_, ?_⟩
  · intro j hj
    have hj' : j < s.workers.length + 1 := by simpa using hj
    by_cases e : j < s.workers.length
    · rw [getW_append_lt s _ j e]; exact h.1 j e
    · have : j = s.workers.length := by omega
      subst this
      rw [getW_append_eq]; intro hp; cases hp
  · intro j hj
    have hj' : j < s.workers.length + 1 := by simpa using hj
    by_cases e : j < s.workers.length
    · rw [getW_append_lt s _ j e]; exact h.2 j e
    · have : j = s.workers.length := by omega
      subst this
      rw [getW_append_eq]; intro _ _ hp; cases hp

theorem WakeInv.ofWorkers {s : State} (h : WorkersOk s) (hp : ∀ k w, s.pc ≠ .rowWait k w) : WakeInv s :=
  ⟨h.1, h.2, fun k w e => absurd e (hp k w)⟩

/-- The remaining main-thread labels. `hT` supplies, for `assign`, that coder->thr is idle and not running (from CtlInv). -/
theorem WakeInv.mainOther {s s' : State} {l : Label} (h : WakeInv s) (hT : s.pc = .init3 → ∃ t, ThrIdle s t false)
    (hl : l.worker? = none) (hsimple : l.wakeSimple = false) (hs : step s l = some s') : WakeInv s' := by
  have hw : WorkersOk s := ⟨h.wk, h.pu⟩
  cases l <;> simp only [Label.worker?, reduceCtorEq] at hl <;> simp only [Label.wakeSimple, reduceCtorEq] at hsimple <;>
    simp only [step] at hs
  case rowIter c =>
    split at hs
    · cases hs; exact h.rowIterate _ _
    · split at hs
      · cases hs; exact h.rowIterate _ _
      · cases hs
    · cases hs; exact h.rowIterate _ _
    · cases hs
  case stopOne =>
    split at hs
    case h_2 => cases hs
    rename_i i r hpc
    split at hs
    · cases hs
      refine WakeInv.ofWorkers ((hw.setW i _ ?_ ?_).congr rfl) (fun _ _ e => by cases e)
      · intro _ _; exact Or.inr (Or.inl rfl)
      · intro hi; exact h.pu i hi
    · cases hs; exact WakeInv.ofWorkers (hw.congr rfl) (fun _ _ e => by cases e)
  case endSet =>
    split at hs
    case h_2 => cases hs
    rename_i i k hpc
    split at hs
    · cases hs
      refine WakeInv.ofWorkers ((hw.setW i _ (fun _ => waitOk_signal _) ?_).congr rfl) (fun _ _ e => by cases e)
      intro hi; exact h.pu i hi
    · cases hs; exact WakeInv.ofWorkers (hw.congr rfl) (fun _ _ e => by cases e)
  case endJoin =>
    split at hs
    case h_2 => cases hs
    rename_i i k hpc
    split at hs
    · split at hs
      · cases hs; exact WakeInv.ofWorkers (hw.congr rfl) (fun _ _ e => by cases e)
      · cases hs
    · cases k <;> (cases hs; exact WakeInv.ofWorkers ⟨fun i hi => by simp at hi, fun i hi => by simp at hi⟩ (fun _ _ e => by cases e))
  case getThread =>
    split at hs
    case isFalse => cases hs
    split at hs
    · cases hs; exact WakeInv.ofWorkers (hw.congr rfl) (fun _ _ e => by cases e)
    · split at hs
      case isFalse => cases hs
      cases hs
      exact WakeInv.ofWorkers ((WorkersOk.addWorker hw).congr rfl) (fun _ _ e => by cases e)
  case startThr =>
    split at hs
    case h_2 => cases hs
    rename_i t hpc hthr
    cases hs
    refine WakeInv.ofWorkers ((hw.setW t _ (fun _ => waitOk_signal _) ?_).congr rfl) (fun _ _ e => by cases e)
    intro hi; exact h.pu t hi
  case tell =>
    split at hs
    case h_2 => cases hs
    rename_i f n t hpc hthr
    cases hs
    refine WakeInv.ofWorkers ((hw.setW t _ (fun _ => waitOk_signal _) ?_).congr rfl) (fun _ _ e => by cases e)
    intro hi; exact h.pu t hi
  case enablePartial =>
    split at hs
    · cases hs
      exact WakeInv.ofWorkers ((hw.enablePartialHead).congr rfl) (fun _ _ e => by cases e)
    · cases hs
  case assign =>
    split at hs
    case h_2 => cases hs
    rename_i t hpc hthr
    cases hs
    obtain ⟨t', ht1, ht2, ht3, ht4, _, _⟩ := hT hpc
    have : t' = t := by rw [hthr] at ht1; injection ht1 with e; exact e.symm
    subst this
    refine WakeInv.ofWorkers ((hw.setW t' _ ?_ ?_).congr rfl) (fun _ _ e => by cases e)
    · intro hi hp
      rcases h.wk t' hi hp with hx | hx | hx
      · exact Or.inl hx
      · exact Or.inr (Or.inl hx)
      · exact absurd hx.1 ht4
    · intro _ lim p hp
      have hp' : (getW s t').pc = .decode lim p := hp
      rw [hp'] at ht3; cases ht3

/-- WakeInv holds in every reachable state. -/
theorem WakeInv.reachable {cfg : Cfg} {blocks : List Block} (hwf : ∀ b ∈ blocks, b.WF) {s : State}
    (h : Reachable cfg blocks s) : WakeInv s := by
  induction h with
  | init => exact WakeInv.init cfg blocks
  | @step s s' l hr hs ih =>
    have g := GInv.reachable hwf hr
    cases hw : l.worker? with
    | some i => exact ih.worker (by simp [hw]) hs
    | none =>
      cases hsim : l.wakeSimple with
      | true => exact ih.mainSimple hw hsim hs
      | false =>
        refine ih.mainOther ?_ hw hsim hs
        intro hpc
        have hx : exitCode s = none := by
          have hr' : s.returned = none := by
            cases hrr : s.returned with
            | none => rfl
            | some r =>
              rcases g.retPc r hrr with e | e | ⟨i, e | e⟩ <;> (rw [e] at hpc; cases hpc)
          simp [exitCode, hr', hpc]
        exact (g.inv hx).2.init3 hpc

end XzVerif.MtDec
