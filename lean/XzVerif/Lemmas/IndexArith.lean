/-
  C13 helper lemmas: scalar kernels (vli_ceil4, lzma_vli_size) and the VLI byte codec.
-/
import XzVerif.Model.IndexSpec

namespace XzVerif.Index

/-! ### vli_ceil4 -/

theorem vliCeil4_mod (v : Nat) : vliCeil4 v % 4 = 0 := by unfold vliCeil4; omega
theorem vliCeil4_ge (v : Nat) : v ≤ vliCeil4 v := by unfold vliCeil4; omega
theorem vliCeil4_lt (v : Nat) : vliCeil4 v < v + 4 := by unfold vliCeil4; omega
theorem vliCeil4_of_mod (v : Nat) (h : v % 4 = 0) : vliCeil4 v = v := by unfold vliCeil4; omega
theorem vliCeil4_mono {a b : Nat} (h : a ≤ b) : vliCeil4 a ≤ vliCeil4 b := by unfold vliCeil4; omega
theorem vliCeil4_idem (v : Nat) : vliCeil4 (vliCeil4 v) = vliCeil4 v := by unfold vliCeil4; omega
/-- adding to an aligned value: the rounding only concerns the added part -/
theorem vliCeil4_add_ceil (a b : Nat) : vliCeil4 (vliCeil4 a + b) = vliCeil4 a + vliCeil4 b := by
  unfold vliCeil4; omega
theorem vliCeil4_le_max {v : Nat} (h : v ≤ UNPADDED_SIZE_MAX) : vliCeil4 v ≤ UNPADDED_SIZE_MAX := by
  unfold vliCeil4 UNPADDED_SIZE_MAX at *; omega

/-! ### index_file_size -/

theorem indexFileSize_ne_unknown {cb us rc ls pad : Nat} (h : indexFileSize cb us rc ls pad ≠ VLI_UNKNOWN) :
    cb + 2 * STREAM_HEADER_SIZE + pad + vliCeil4 us + indexSize rc ls ≤ VLI_MAX := by
  unfold indexFileSize at h
  by_cases h1 : cb + 2 * STREAM_HEADER_SIZE + pad + vliCeil4 us > VLI_MAX
  · simp [h1] at h
  · by_cases h2 : cb + 2 * STREAM_HEADER_SIZE + pad + vliCeil4 us + indexSize rc ls > VLI_MAX
    · simp [h1, h2] at h
    · omega

theorem indexFileSize_of_le {cb us rc ls pad : Nat}
    (h : cb + 2 * STREAM_HEADER_SIZE + pad + vliCeil4 us + indexSize rc ls ≤ VLI_MAX) :
    indexFileSize cb us rc ls pad = cb + 2 * STREAM_HEADER_SIZE + pad + vliCeil4 us + indexSize rc ls := by
  unfold indexFileSize
  have h1 : ¬ cb + 2 * STREAM_HEADER_SIZE + pad + vliCeil4 us > VLI_MAX := by omega
  have h2 : ¬ cb + 2 * STREAM_HEADER_SIZE + pad + vliCeil4 us + indexSize rc ls > VLI_MAX := by omega
  simp [h1, h2]

theorem indexFileSize_eq_unknown_iff {cb us rc ls pad : Nat} :
    indexFileSize cb us rc ls pad = VLI_UNKNOWN ↔
      cb + 2 * STREAM_HEADER_SIZE + pad + vliCeil4 us + indexSize rc ls > VLI_MAX := by
  constructor
  · intro h
    apply Classical.byContradiction
    intro hn
    rw [indexFileSize_of_le (by omega)] at h
    unfold VLI_UNKNOWN VLI_MAX at *; omega
  · intro h
    apply Classical.byContradiction
    intro hn
    have := indexFileSize_ne_unknown hn
    omega

/-! ### VLI encoding -/

theorem vliEncode_lt {v : Nat} (h : v < 128) : vliEncode v = [UInt8.ofNat v] := by
  rw [vliEncode]; simp [h]

theorem vliEncode_ge {v : Nat} (h : ¬ v < 128) :
    vliEncode v = UInt8.ofNat (v % 128 + 128) :: vliEncode (v / 128) := by
  rw [vliEncode]; simp [h]

theorem vliEncode_length_pos (v : Nat) : 0 < (vliEncode v).length := by
  by_cases h : v < 128
  · simp [vliEncode_lt h]
  · simp [vliEncode_ge h]

/-- an integer below `128^k` needs at most `k` bytes -/
theorem vliEncode_length_le : ∀ (k : Nat) (v : Nat), v < 128 ^ (k + 1) → (vliEncode v).length ≤ k + 1
  | 0, v, h => by
    have : v < 128 := by simpa using h
    simp [vliEncode_lt this]
  | k + 1, v, h => by
    by_cases h1 : v < 128
    · simp [vliEncode_lt h1]
    · rw [vliEncode_ge h1]
      have : v / 128 < 128 ^ (k + 1) := by
        rw [Nat.div_lt_iff_lt_mul (by decide)]
        rw [Nat.pow_succ] at h; exact h
      have := vliEncode_length_le k (v / 128) this
      simp; omega

theorem vliEncode_length_le_nine {v : Nat} (h : v ≤ VLI_MAX) : (vliEncode v).length ≤ 9 := by
  apply vliEncode_length_le 8 v
  unfold VLI_MAX at h
  have : (128 : Nat) ^ 9 = 9223372036854775808 := by decide
  omega

/-- the loop of `lzma_vli_size` counts the bytes of the encoding -/
theorem vliSizeGo_eq : ∀ (f v i : Nat), (vliEncode v).length ≤ f → vliSizeGo f v i = i + (vliEncode v).length
  | 0, v, i, h => by have := vliEncode_length_pos v; omega
  | f + 1, v, i, h => by
    unfold vliSizeGo
    by_cases h1 : v < 128
    · have : v / 128 = 0 := by omega
      simp [this, vliEncode_lt h1]
    · have h2 : ¬ v / 128 = 0 := by omega
      rw [vliEncode_ge h1] at h ⊢
      simp only [h2, if_false, List.length_cons] at h ⊢
      rw [vliSizeGo_eq f (v / 128) (i + 1) (by omega)]
      omega

/-- `lzma_vli_size(v)` is the length of the encoding of `v` (for valid VLIs) -/
theorem vliSize_eq_length {v : Nat} (h : v ≤ VLI_MAX) : vliSize v = (vliEncode v).length := by
  unfold vliSize
  have h9 := vliEncode_length_le_nine h
  simp [Nat.not_lt.mpr h, vliSizeGo_eq 10 v 0 (by omega)]

theorem vliSize_pos {v : Nat} (h : v ≤ VLI_MAX) : 1 ≤ vliSize v := by
  rw [vliSize_eq_length h]; exact vliEncode_length_pos v

theorem vliSize_le_nine {v : Nat} (h : v ≤ VLI_MAX) : vliSize v ≤ 9 := by
  rw [vliSize_eq_length h]; exact vliEncode_length_le_nine h

theorem vliSize_le_nine' (v : Nat) : vliSize v ≤ 9 := by
  by_cases h : v ≤ VLI_MAX
  · exact vliSize_le_nine h
  · unfold vliSize; simp [Nat.lt_of_not_le h]

/-! ### VLI decoding inverts the encoding -/

theorem vliDecodeGo_encode : ∀ (len : Nat) (v : Nat) (rest : List UInt8) (n acc used : Nat),
    (vliEncode v).length = len → n + len ≤ VLI_BYTES_MAX → (0 < n → 0 < v) →
    vliDecodeGo (vliEncode v ++ rest) n acc used = .done (acc + v * 2 ^ (7 * n)) (used + len)
  | 0, v, _, _, _, _, hl, _, _ => by have := vliEncode_length_pos v; omega
  | len + 1, v, rest, n, acc, used, hl, hn, hv => by
    by_cases h1 : v < 128
    · rw [vliEncode_lt h1] at hl ⊢
      simp only [List.length_cons, List.length_nil] at hl
      have hb : (UInt8.ofNat v).toNat = v := by
        simp [UInt8.toNat_ofNat']; omega
      simp only [List.cons_append, List.nil_append, vliDecodeGo]
      simp only [hb]
      have h5 : v % 128 = v := Nat.mod_eq_of_lt h1
      have h6 : ¬ (v = 0 ∧ n + 1 > 1) := by
        intro ⟨a, b⟩; have := hv (by omega); omega
      simp only [h5, h1, if_true, h6, if_false]
      have : len = 0 := by omega
      subst this; rfl
    · rw [vliEncode_ge h1] at hl ⊢
      simp only [List.length_cons] at hl
      have hb : (UInt8.ofNat (v % 128 + 128)).toNat = v % 128 + 128 := by
        simp [UInt8.toNat_ofNat']; omega
      simp only [List.cons_append, vliDecodeGo]
      simp only [hb]
      have h2 : ¬ v % 128 + 128 < 128 := by omega
      have h3 : ¬ n + 1 = VLI_BYTES_MAX := by
        have := vliEncode_length_pos (v / 128); omega
      simp only [h2, h3, if_false]
      rw [vliDecodeGo_encode len (v / 128) rest (n + 1) _ (used + 1) (by omega) (by omega) (by intro; omega)]
      have e1 : (v % 128 + 128) % 128 = v % 128 := by omega
      have e2 : 2 ^ (7 * (n + 1)) = 128 * 2 ^ (7 * n) := by
        rw [Nat.mul_add, Nat.pow_add]; simp [Nat.mul_comm]
      rw [e1, e2]
      have : v % 128 * 2 ^ (7 * n) + v / 128 * (128 * 2 ^ (7 * n)) = v * 2 ^ (7 * n) := by
        have hv := Nat.div_add_mod v 128
        calc v % 128 * 2 ^ (7 * n) + v / 128 * (128 * 2 ^ (7 * n))
            = (128 * (v / 128) + v % 128) * 2 ^ (7 * n) := by
              rw [Nat.add_mul, Nat.mul_assoc, Nat.mul_comm (v / 128) (128 * _), Nat.mul_assoc]
              rw [Nat.mul_comm (2 ^ (7 * n)) (v / 128)]; omega
          _ = v * 2 ^ (7 * n) := by rw [hv]
      congr 1
      · omega
      · omega

/-- `lzma_vli_decode(lzma_vli_encode(v) ++ rest)` returns `v` and consumes exactly the encoding -/
theorem vliDecode_encode {v : Nat} (h : v ≤ VLI_MAX) (rest : List UInt8) (used : Nat) :
    vliDecodeGo (vliEncode v ++ rest) 0 0 used = .done v (used + (vliEncode v).length) := by
  have := vliDecodeGo_encode (vliEncode v).length v rest 0 0 used rfl
    (by have := vliEncode_length_le_nine h; unfold VLI_BYTES_MAX; omega) (by intro h; omega)
  simpa using this

end XzVerif.Index
