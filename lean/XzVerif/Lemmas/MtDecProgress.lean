/-
  Private positions of the workers (an invariant of every reachable state, also while a fatal value is on its way out or
  threads_end is running): needed to show that a worker that is not waiting can always take a step.
-/
import XzVerif.Lemmas.MtDecLive8

namespace XzVerif.MtDec

def PrivOk (s : State) (w : Worker) : Prop :=
  w.inPos ≤ w.inFilled ∧ w.inPos ≤ (blk s w.blk).needIn ∧ w.outPos ≤ (blk s w.blk).data.length ∧
  (∀ lim pu, w.pc = .decode lim pu → w.inPos ≤ lim ∧ lim ≤ w.inFilled)

def PrivInv (s : State) : Prop := ∀ i, i < s.workers.length → PrivOk s (getW s i)

theorem PrivInv.init (cfg : Cfg) (blocks : List Block) : PrivInv (init cfg blocks) := by
  intro i hi; simp [MtDec.init] at hi

theorem PrivInv.setW {s s' : State} (h : PrivInv s) (i : Nat) (w' : Worker)
    (ew : s'.workers = (MtDec.setW s i w').workers) (eb : s'.blocks = s.blocks) (hw : i < s.workers.length → PrivOk s w') :
    PrivInv s' := by
  intro j hj
  have ebk : ∀ k, blk s' k = blk s k := fun k => by simp [blk, eb]
  have hj' : j < s.workers.length := by rw [ew] at hj; simpa using hj
  have : getW s' j = getW (MtDec.setW s i w') j := by simp [getW, ew]
  rw [this, getW_setW_any]
  unfold PrivOk
  simp only [ebk]
  split
  · rename_i e; exact hw e.2
  · exact h j hj'

theorem PrivInv.same {s s' : State} (h : PrivInv s) (el : s'.workers.length = s.workers.length)
    (ew : ∀ j, WSame (getW s j) (getW s' j)) (eb : s'.blocks = s.blocks) : PrivInv s' := by
  intro j hj
  have ebk : ∀ k, blk s' k = blk s k := fun k => by simp [blk, eb]
  obtain ⟨_, a2, a3, _, _, a6, a7, a8, _, _⟩ := ew j
  have := h j (el ▸ hj)
  unfold PrivOk at this ⊢
  rw [a7, a6, a3, a8, a2, ebk]; exact this

theorem workerDecide_outPos (w : Worker) : (workerDecide w).outPos = w.outPos := by
  unfold workerDecide; split <;> (try split) <;> rfl

theorem PrivInv.worker {s s' : State} {l : Label} (h : PrivInv s) (hl : l.worker?.isSome = true)
    (hs : step s l = some s') : PrivInv s' := by
  cases l <;> simp only [Label.worker?, Option.isSome, reduceCtorEq] at hl <;> simp only [step] at hs
  case wLoop i c =>
    split at hs
    · rename_i hi
      have key : s' = MtDec.setW s i (workerDecide (getW s i)) := by
        split at hs <;> first
          | (injection hs with hs; exact hs.symm)
          | (split at hs <;> first | (injection hs with hs; exact hs.symm) | cases hs)
          | cases hs
      subst key
      refine h.setW i _ rfl rfl (fun _ => ?_)
      have hp := h i hi
      unfold PrivOk at hp ⊢
      rw [workerDecide_inPos, workerDecide_inFilled, workerDecide_blk, workerDecide_outPos]
      refine ⟨hp.1, hp.2.1, hp.2.2.1, ?_⟩
      intro lim pu hpc
      rcases workerDecide_pc_cases (getW s i) with ⟨x, _⟩ | x | ⟨x, _⟩
      · rw [x] at hpc; cases hpc
      · rw [x] at hpc; cases hpc
      · rw [x] at hpc; injection hpc with e1 _
        rw [← e1]
        exact ⟨hp.1, Nat.le_refl _⟩
    · cases hs
  case wDecode i a b v =>
    split at hs
    case isFalse => cases hs
    rename_i hi
    split at hs
    case h_2 => cases hs
    rename_i lim pu hpc
    split at hs
    case isFalse => cases hs
    rename_i hg
    simp only [Bool.and_eq_true, decide_eq_true_eq, Bool.or_eq_true] at hg
    obtain ⟨⟨⟨⟨⟨g1, g2⟩, g3⟩, g4⟩, g5⟩, _⟩ := hg
    have hp := h i hi
    have hlf : lim ≤ (getW s i).inFilled := (hp.2.2.2 lim pu hpc).2
    have base : ∀ pc' pu', (∀ l p, pc' ≠ .decode l p) →
        PrivInv (MtDec.setW s i { getW s i with inPos := a, outPos := b, pu := pu', pc := pc' }) := by
      intro pc' pu' hnd
      exact h.setW i _ rfl rfl (fun _ => ⟨Nat.le_trans g2 hlf, g3, g5, fun l p hp' => absurd hp' (hnd l p)⟩)
    split at hs
    · split at hs
      case isFalse => cases hs
      cases hs; exact base _ _ (fun l p hp' => by cases hp')
    · split at hs
      · cases hs; exact base _ _ (fun l p hp' => by cases hp')
      · cases hs; exact base _ _ (fun l p hp' => by cases hp')
  case wPublish i =>
    split at hs
    case isFalse => cases hs
    rename_i hg
    simp only [Bool.and_eq_true, decide_eq_true_eq] at hg
    cases hs
    have hp := h i hg.1
    exact h.setW i { getW s i with pc := .top } rfl rfl (fun _ => ⟨hp.1, hp.2.1, hp.2.2.1, fun l p hp' => by cases hp'⟩)
  case wFin1 i =>
    split at hs
    case isFalse => cases hs
    rename_i hi
    split at hs
    case h_2 => cases hs
    cases hs
    have hp := h i hi
    exact h.setW i _ rfl rfl (fun _ => ⟨hp.1, hp.2.1, hp.2.2.1, fun l p hp' => by cases hp'⟩)
  case wFin2 i =>
    split at hs
    case isFalse => cases hs
    rename_i hi
    split at hs
    case h_2 => cases hs
    cases hs
    have hp := h i hi
    exact h.setW i _ rfl rfl (fun _ => ⟨hp.1, hp.2.1, hp.2.2.1, fun l p hp' => by cases hp'⟩)
  case wCleanup i =>
    split at hs
    case isFalse => cases hs
    rename_i hg
    simp only [Bool.and_eq_true, decide_eq_true_eq] at hg
    cases hs
    have hp := h i hg.1
    exact h.setW i _ rfl rfl (fun _ => ⟨hp.1, hp.2.1, hp.2.2.1, fun l p hp' => by cases hp'⟩)
  case wFin3 i =>
    split at hs
    case isFalse => cases hs
    rename_i hi
    split at hs
    case h_2 => cases hs
    rename_i r hpc
    have hp := h i hi
    have fin : ∀ s2 : State,
        s2.workers = (MtDec.setW s i { getW s i with hasOut := false, failed := r != END, pc := .top }).workers →
        s2.blocks = s.blocks → PrivInv s2 := by
      intro s2 e1 e2
      exact h.setW i _ e1 e2 (fun _ => ⟨hp.1, hp.2.1, hp.2.2.1, fun l p hp' => by cases hp'⟩)
    by_cases hend : r = END
    · simp only [hend, bne_self_eq_false, Bool.false_and, Bool.false_eq_true, if_false, if_true] at hs
      cases hs; subst hend; exact fin _ rfl rfl
    · simp only [hend, if_false] at hs
      cases hs; split <;> exact fin _ rfl rfl

end XzVerif.MtDec
