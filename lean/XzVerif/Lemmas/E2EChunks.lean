/-
  C01 end-to-end, step 2: facts about LZMA2 chunk sequences (`LzmaExec.Chunks`) needed to plug the LZMA2 models into the
  container:
  * a description that is valid for dictionary size `d` is valid for every larger one (the Block Header stores the
    dictionary size rounded UP, so the decoder runs with `d' ≥ d`); same for the LZMA1 specification encoder;
  * the uncompressed-chunk stream of `block_encode_uncompressed` (`Container.lzma2UncompressedChunks`) is a valid chunk
    sequence, hence the executable LZMA2 decoder returns the data, LZMA_STREAM_END, everything consumed.
-/
import XzVerif.Lemmas.E2ECap
import XzVerif.Model.Container

namespace XzVerif.LzmaExec
open XzVerif.RangeDec XzVerif.RangeEnc XzVerif.RangeCoder XzVerif.LzDict XzVerif.Lzma XzVerif.LzmaEnc XzVerif.LzmaSymDec
open XzVerif.LzmaSym XzVerif.LzmaSpec XzVerif.Lzma2Enc XzVerif.Lzma2

/-! ## monotonicity in the dictionary size -/

theorem applySym_mono {d d' : Nat} (hdd : d ≤ d') (rb : List UInt8) (s : SymSt) (sym : Sym) (rb' : List UInt8)
    (h : applySym d rb s sym = some rb') : applySym d' rb s sym = some rb' := by
  cases sym with
  | lit b => simpa [applySym] using h
  | mtch dist len =>
    simp only [applySym] at h ⊢
    split at h
    · rename_i hc
      rw [if_pos ⟨hc.1, hc.2.1, by omega⟩]; exact h
    · cases h
  | rep idx len =>
    simp only [applySym] at h ⊢
    split at h
    · rename_i hc
      rw [if_pos ⟨hc.1, hc.2.1, hc.2.2.1, by omega⟩]; exact h
    · cases h
  | shortrep =>
    simp only [applySym] at h ⊢
    split at h
    · rename_i hc
      rw [if_pos (by omega)]; exact h
    · cases h

theorem encSyms_mono (p : Props) {d d' : Nat} (hdd : d ≤ d') : ∀ (syms : List Sym) (pos : Nat) (s : SymSt) (rb : List UInt8)
    (r : List Op × Nat × SymSt × List UInt8), encSyms p d syms pos s rb = some r → encSyms p d' syms pos s rb = some r
  | [], pos, s, rb, r, h => by simpa [encSyms] using h
  | sym :: rest, pos, s, rb, r, h => by
    simp only [encSyms] at h ⊢
    cases ha : applySym d rb s sym with
    | none => rw [ha] at h; cases h
    | some rb' =>
      rw [ha] at h
      rw [applySym_mono hdd rb s sym rb' ha]
      simp only [] at h ⊢
      cases hr : encSyms p d rest (pos + sym.len) (symOps p s pos (prevByte rb) (matchByte rb s.rep0) sym).2 rb' with
      | none => rw [hr] at h; cases h
      | some q =>
        rw [hr] at h
        rw [encSyms_mono p hdd rest _ _ _ q hr]
        exact h

theorem lzExpand_mono {d d' : Nat} (hdd : d ≤ d') : ∀ (syms : List Sym) (s : SymSt) (rb r : List UInt8),
    lzExpand d syms s rb = some r → lzExpand d' syms s rb = some r
  | [], s, rb, r, h => by simpa [lzExpand] using h
  | sym :: rest, s, rb, r, h => by
    simp only [lzExpand] at h ⊢
    cases ha : applySym d rb s sym with
    | none => rw [ha] at h; cases h
    | some rb' =>
      rw [ha] at h
      rw [applySym_mono hdd rb s sym rb' ha]
      exact lzExpand_mono hdd rest _ _ _ h

theorem describes_mono {d d' : Nat} (hdd : d ≤ d') (hist : List UInt8) (s : SymSt) (syms : List Sym) (data : List UInt8)
    (h : Describes d hist s syms data) : Describes d' hist s syms data :=
  lzExpand_mono hdd syms s _ _ h

theorem lzma1EncodeSpec_mono (p : Props) {d d' : Nat} (hdd : d ≤ d') (hist : List UInt8) (syms : List Sym) (bytes : List UInt8)
    (h : lzma1EncodeSpec p d hist syms = some bytes) : lzma1EncodeSpec p d' hist syms = some bytes := by
  unfold lzma1EncodeSpec lzma1Ops at h ⊢
  cases he : encSyms p d syms 0 {} hist.reverse with
  | none => rw [he] at h; cases h
  | some r => rw [he] at h; rw [encSyms_mono p hdd syms 0 {} _ r he]; exact h

theorem ChunkOk.mono {p : Props} {d d' : Nat} (hdd : d ≤ d') {buf : ByteArray} {base : Nat} {C C' : L2Cfg} {b : List UInt8}
    (h : ChunkOk p d buf base C b C') : ChunkOk p d' buf base C b C' := by
  cases h with
  | lzma syms ops encPos' st' usize henc hlen hu1 hu2 hoff hcs =>
    exact ChunkOk.lzma C syms ops encPos' st' usize (encSyms_mono p hdd _ _ _ _ _ henc) hlen hu1 hu2 hoff hcs
  | uncomp usize encPos' st' ps' hu1 hu2 hoff => exact ChunkOk.uncomp C usize encPos' st' ps' hu1 hu2 hoff

theorem Chunks.mono {p : Props} {d d' : Nat} (hdd : d ≤ d') {buf : ByteArray} {base : Nat} {C CF : L2Cfg} {bytes : List UInt8}
    (h : Chunks p d buf base C bytes CF) : Chunks p d' buf base C bytes CF := by
  induction h with
  | nil C => exact Chunks.nil C
  | cons hc _ ih => exact Chunks.cons (hc.mono hdd) ih

/-! ## the uncompressed chunks of `block_encode_uncompressed` -/

open XzVerif.Container in
/-- The loop of `block_encode_uncompressed` from data offset `C.off` on, as a chunk sequence. -/
theorem uncompressedChunks_chunks (p : Props) (d : Nat) (buf : ByteArray) :
    ∀ (fuel : Nat) (C : L2Cfg), C.off ≤ buf.size → buf.size - C.off ≤ fuel →
      ∃ bytes CF, Chunks p d buf 0 C bytes CF ∧ CF.off = buf.size ∧
        lzma2UncompressedChunksAux fuel C.needDictReset ((hl buf).drop C.off) = bytes ++ [0]
  | 0, C, hle, hf => by
    refine ⟨[], C, Chunks.nil C, by omega, ?_⟩
    simp [lzma2UncompressedChunksAux]
  | fuel + 1, C, hle, hf => by
    by_cases he : ((hl buf).drop C.off).isEmpty = true
    · have hlen : ((hl buf).drop C.off).length = 0 := by
        have : (hl buf).drop C.off = [] := by simpa using he
        rw [this]; rfl
      rw [List.length_drop, hl_length] at hlen
      refine ⟨[], C, Chunks.nil C, by omega, ?_⟩
      simp only [lzma2UncompressedChunksAux, he, if_true, List.nil_append]
    · have hlen : ((hl buf).drop C.off).length = buf.size - C.off := by rw [List.length_drop, hl_length]
      have hpos : 0 < buf.size - C.off := by
        cases hd : (hl buf).drop C.off with
        | nil => rw [hd] at he; simp at he
        | cons _ _ => rw [hd] at hlen; simp at hlen; omega
      generalize hn : (if ((hl buf).drop C.off).length < Container.LZMA2_CHUNK_MAX then ((hl buf).drop C.off).length
          else Container.LZMA2_CHUNK_MAX) = n
      have hn1 : 1 ≤ n ∧ n ≤ 65536 ∧ C.off + n ≤ buf.size := by
        rw [hlen] at hn
        have : Container.LZMA2_CHUNK_MAX = 65536 := rfl
        rw [this] at hn
        split at hn <;> omega
      let C1 : L2Cfg := { off := C.off + n, encPos := C.encPos, st := C.st, ps := C.ps, needProps := C.needProps,
                          needStateReset := true, needDictReset := false }
      obtain ⟨bytes, CF, hch, hoff, hrest⟩ := uncompressedChunks_chunks p d buf fuel C1 (by show C.off + n ≤ buf.size; omega)
        (by show buf.size - (C.off + n) ≤ fuel; omega)
      have hc : ChunkOk p d buf 0 C (headerUncompressed C.needDictReset n ++ sliceList buf (0 + C.off) n) C1 :=
        ChunkOk.uncomp C n C.encPos C.st C.ps hn1.1 hn1.2.1 (by omega)
      refine ⟨_, CF, Chunks.cons hc hch, hoff, ?_⟩
      simp only [lzma2UncompressedChunksAux, he, Bool.false_eq_true, if_false]
      rw [hn]
      have hdd : ((hl buf).drop C.off).drop n = (hl buf).drop C1.off := by rw [List.drop_drop]
      rw [hdd]
      have hfl : C1.needDictReset = false := rfl
      rw [hfl] at hrest
      rw [hrest, sliceList_eq, Nat.zero_add]
      simp only [headerUncompressed, List.cons_append, List.nil_append, List.append_assoc]

open XzVerif.Container in
/-- **Uncompressed chunks decode.**  The executable LZMA2 decoder, any dictionary size `d < 2^32`, on the stream
    `block_encode_uncompressed` writes for `x` (control 0x01 for the first chunk = dictionary reset, 0x02 afterwards, at
    most 65536 bytes per chunk, end marker): LZMA_STREAM_END, exactly `x`, every byte consumed — with output space for
    exactly `x`. -/
theorem lzma2Decode_uncompressedChunks (d : Nat) (hd : d ≤ 4294967295) (x : List UInt8) (cap : Nat) (hcap : x.length ≤ cap) :
    lzma2Decode d (lzma2UncompressedChunks x) [] cap =
      { ret := .streamEnd, out := x, consumed := (lzma2UncompressedChunks x).length } := by
  let p : Props := { lc := 0, lp := 0, pb := 0 }
  have hp : PropsOk p := by unfold PropsOk; decide
  let buf : ByteArray := ByteArray.mk x.toArray
  have hbuf : hl buf = x := by simp [hl, buf]
  have hsz : buf.size = x.length := by rw [← hl_length, hbuf]
  obtain ⟨bytes, CF, hch, hoff, hb⟩ := uncompressedChunks_chunks p d buf x.length (cfg0 p 0) (Nat.zero_le _)
    (by rw [hsz]; exact Nat.sub_le _ _)
  have hndr : (cfg0 p 0).needDictReset = true := rfl
  have hoff0 : (cfg0 p 0).off = 0 := rfl
  rw [hndr, hoff0, List.drop_zero, hbuf] at hb
  have := lzma2Decode_of_chunks_le p hp d hd buf 0 (Nat.zero_le _) bytes CF hch (by rw [hoff]; rfl) cap (by rw [hsz]; exact hcap)
  rw [List.take_zero, List.drop_zero, hbuf] at this
  unfold lzma2UncompressedChunks
  rw [hb, this]
  simp

end XzVerif.LzmaExec
