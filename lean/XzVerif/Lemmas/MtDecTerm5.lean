/-
  Termination of the threaded-decoder scheduler model: every transition that is not an application call, not a wake-up
  without a signal / timer expiry, and (for a Block decoder call) makes progress strictly decreases `mu`; application calls
  raise it by at most `33 + 4 * threads`; expiries never raise it. Hence the number of internal steps of any run is bounded.
-/
import XzVerif.Lemmas.MtDecTerm4

namespace XzVerif.MtDec

theorem MainFacts.ofReachable {cfg : Cfg} {blocks : List Block} (hwf : ∀ b ∈ blocks, b.WF) {s : State}
    (hr : Reachable cfg blocks s) : MainFacts s := by
  have g := GInv.reachable hwf hr
  have hU := UInv.reachable hr
  have retNone : (∀ i, s.pc ≠ .endSet i .final) → (∀ i, s.pc ≠ .endJoin i .final) → s.pc ≠ .idle → s.pc ≠ .ended →
      s.returned = none := by
    intro h1 h2 h3 h4
    cases hrr : s.returned with
    | none => rfl
    | some r =>
      exfalso
      rcases g.retPc r hrr with e | e | ⟨i, e | e⟩
      · exact h3 e
      · exact h4 e
      · exact h1 i e
      · exact h2 i e
  refine ⟨?_, ?_, ?_, ?_, hU.len, ?_⟩
  · intro k c hp
    have hx : exitCode s = none := by
      have := retNone (by simp [hp]) (by simp [hp]) (by simp [hp]) (by simp [hp])
      simp [exitCode, this, hp]
    exact (g.inv hx).2.rowK k (by rw [hp]; rfl)
  · intro h
    have hx : exitCode s = none := by
      rcases h with ⟨hp, _⟩ | hp <;>
      · have := retNone (by simp [hp]) (by simp [hp]) (by simp [hp]) (by simp [hp])
        simp [exitCode, this, hp]
    have hC := (g.inv hx).2
    rcases h with ⟨hp, hq | hq⟩ | hp
    · exact hC.seqCur (Or.inr (Or.inr (Or.inr (Or.inl hq))))
    · exact hC.seqCur (Or.inr (Or.inr (Or.inr (Or.inr (Or.inr hq)))))
    · exact hC.seqCur (Or.inr (Or.inl ⟨hC.initSeq (Or.inr (Or.inr (Or.inl hp))), by simp [hp], by simp [hp]⟩))
  · intro i hp
    have hx : exitCode s = none := by
      have := retNone (by simp [hp]) (by simp [hp]) (by simp [hp]) (by simp [hp])
      simp [exitCode, this, hp]
    exact ((g.inv hx).2.endDirect ⟨i, Or.inr hp⟩).1
  · intro hp
    have hx : exitCode s = none := by
      have := retNone (by simp [hp]) (by simp [hp]) (by simp [hp]) (by simp [hp])
      simp [exitCode, this, hp]
    exact (g.inv hx).2.initSeq (Or.inr (Or.inr (Or.inr (Or.inr hp))))
  · intro hp t ht
    have hx : exitCode s = none := by
      have := retNone (by simp [hp]) (by simp [hp]) (by simp [hp]) (by simp [hp])
      simp [exitCode, this, hp]
    obtain ⟨t', a1, a2, _, _, a5, _⟩ := (g.inv hx).2.init3 hp
    rw [ht] at a1; cases a1
    exact ⟨a2, a5⟩

/-- **The measure decreases.** -/
theorem mu_step {cfg : Cfg} {blocks : List Block} (hwf : ∀ b ∈ blocks, b.WF) {s s' : State} {l : Label}
    (hr : Reachable cfg blocks s) (hs : step s l = some s') (hne : l.isExpiry = false) (hna : l.isApp = false)
    (hprog : Progressive s l) : mu s' < mu s := by
  have F := MainFacts.ofReachable hwf hr
  cases hw : l.worker? with
  | some i => exact mu_worker (blk_wf_of_reachable hwf hr) (UInv.reachable hr) hw hs hne hprog
  | none =>
    cases hsim : l.muSimple with
    | true => exact mu_mainSimple F hw hsim hs
    | false =>
      cases l <;> simp only [Label.muSimple, reduceCtorEq] at hsim <;> simp only [Label.isApp, reduceCtorEq] at hna <;>
        simp only [Label.isExpiry, reduceCtorEq] at hne
      · exact mu_rowIter hs (by simpa [Label.isExpiry] using hne)
      · exact mu_stopOne F hs
      · exact mu_getThread hs
      · exact mu_assign F hs
      · exact mu_startThr hs
      · exact mu_enablePartial F hs
      · exact mu_tell hs
      · exact mu_directStep F hs
      · exact mu_indexStep F hs
      · exact mu_endSet F hs
      · exact mu_endJoin F hs

-- ---------------------------------------------------------------------------------------------
-- expiries never raise the measure, application calls raise it by a bounded amount
-- ---------------------------------------------------------------------------------------------

theorem mu_final_le (s x : State) (c : PCore s x) (hq : qw x ≤ qw s) (P : MPc) (M : Bool)
    (hP : P ≠ .init4 ∧ P ≠ .init5) (hs : s.pc ≠ .init4 ∧ s.pc ≠ .init5)
    (h : mloc s.cfg.threadsMax P + (if M then 1 else 0) ≤ mloc s.cfg.threadsMax s.pc + (if s.mwoken then 1 else 0)) :
    mu { x with pc := P, mwoken := M } ≤ mu s := by
  rw [mu_eq, mu_eq]
  show muC x.cfg.threadsMax x.blocks x.cur x.seq P M x.queue.length (wSum x) ≤ _
  rw [c.cfg, c.blocks, c.cur, c.seq]
  have h1 := stagePotC_congr s.cfg.threadsMax s.seq hs hP
  unfold qw at hq
  unfold muC
  omega

theorem mu_rowIterate_le (s : State) (k : RowK) (w : Bool) (hp : s.pc = .rowWait k w) : mu (rowIterate s k w) ≤ mu s := by
  obtain ⟨c, _, hm, hq⟩ := readLoop_pot (s.queue.length + 1) s
  have hs45 : s.pc ≠ .init4 ∧ s.pc ≠ .init5 := by simp [hp]
  have hl : mloc s.cfg.threadsMax s.pc = 28 + 4 * s.cfg.threadsMax := by rw [hp]; rfl
  have hloc : ∀ (P : MPc) (M : Bool), (mloc s.cfg.threadsMax P = 27 + 4 * s.cfg.threadsMax ∨
      (mloc s.cfg.threadsMax P = 28 + 4 * s.cfg.threadsMax ∧ M = false)) →
      mloc s.cfg.threadsMax P + (if M then 1 else 0) ≤ mloc s.cfg.threadsMax s.pc + (if s.mwoken then 1 else 0) := by
    intro P M hP
    rw [hl]
    rcases hP with x | ⟨x, y⟩
    · rw [x]; split <;> split <;> omega
    · rw [x, y]; simp
  unfold rowIterate
  dsimp only
  split
  · exact mu_final_le s _ c hq _ _ (by simp) hs45 (hloc _ _ (Or.inl rfl))
  · have m : ∀ cap, PCore (readLoop (s.queue.length + 1) s).1 (markFilled (readLoop (s.queue.length + 1) s).1 cap) ∧
        qw (markFilled (readLoop (s.queue.length + 1) s).1 cap) = qw (readLoop (s.queue.length + 1) s).1 := by
      intro cap; unfold markFilled; split
      · exact ⟨⟨rfl, rfl, rfl, rfl⟩, rfl⟩
      · exact ⟨PCore.refl _, rfl⟩
    obtain ⟨mc, mq⟩ := m s.outCap
    split
    · exact mu_final_le s _ (c.trans mc) (by rw [mq]; exact hq) _ _ (by simp) hs45 (hloc _ _ (Or.inl rfl))
    · have f : PCore (markFilled (readLoop (s.queue.length + 1) s).1 s.outCap)
            (flagPend (markFilled (readLoop (s.queue.length + 1) s).1 s.outCap)) ∧
          qw (flagPend (markFilled (readLoop (s.queue.length + 1) s).1 s.outCap)) =
            qw (markFilled (readLoop (s.queue.length + 1) s).1 s.outCap) := by
        unfold flagPend; split
        · exact ⟨⟨rfl, rfl, rfl, rfl⟩, rfl⟩
        · exact ⟨PCore.refl _, rfl⟩
      obtain ⟨fc, fq⟩ := f
      have cc := (c.trans mc).trans fc
      have qq : qw (flagPend (markFilled (readLoop (s.queue.length + 1) s).1 s.outCap)) ≤ qw s := by rw [fq, mq]; exact hq
      unfold rowLeaveOrWait
      repeat' split
      all_goals first
        | exact mu_final_le s _ cc qq _ _ (by simp) hs45 (hloc _ _ (Or.inl rfl))
        | exact mu_final_le s _ cc qq _ false (by simp) hs45 (hloc _ _ (Or.inr ⟨rfl, rfl⟩))

theorem wPot_workerDecide_wait_le (bs : List Block) (w : Worker) (hp : w.pc = .wait) : wPot bs (workerDecide w) ≤ wPot bs w := by
  unfold workerDecide wPot
  split <;> (try split) <;> simp [hp, wpc] <;> (repeat' split)
  all_goals first | omega | simp_all

theorem mu_expiry_le {s s' : State} {l : Label} (hs : step s l = some s') (he : l.isExpiry = true) : mu s' ≤ mu s := by
  cases l <;> simp only [Label.isExpiry, reduceCtorEq] at he
  case rowIter c =>
    cases c <;> simp only [Label.isExpiry, reduceCtorEq] at he
    simp only [step] at hs
    split at hs
    · rename_i h1 h2; cases h2
    · rename_i h1 h2; cases h2
    · rename_i k w hp _; cases hs; exact mu_rowIterate_le s k w hp
    · cases hs
  case rowTimeout =>
    simp only [step] at hs
    split at hs
    · rename_i k w hp
      split at hs
      · cases hs
        simp only [mu_eq, wSum]
        have : stagePotC s.cfg.threadsMax s.seq (.rowDone k TIMED_OUT false) = stagePotC s.cfg.threadsMax s.seq s.pc :=
          stagePotC_congr _ _ (by simp [hp]) (by simp)
        simp only [muC, this, hp, mloc]; omega
      · cases hs
    · cases hs
  case wLoop i c =>
    cases c <;> simp only [Label.isExpiry, reduceCtorEq] at he
    simp only [step] at hs
    split at hs
    case isFalse => cases hs
    rename_i hi
    split at hs
    · rename_i h1 h2; cases h2
    · rename_i h1 h2; cases h2
    · rename_i hp _
      cases hs
      have h1 := wSum_setW s i (workerDecide (getW s i)) hi
      have h2 := wPot_workerDecide_wait_le s.blocks (getW s i) hp
      simp only [mu_eq]
      show muC s.cfg.threadsMax s.blocks s.cur s.seq s.pc s.mwoken s.queue.length (wSum (setW s i (workerDecide (getW s i)))) ≤ _
      unfold muC; omega
    · cases hs

theorem mu_app_le {s s' : State} {l : Label} (hs : step s l = some s') (ha : l.isApp = true) :
    mu s' ≤ mu s + (33 + 4 * s.cfg.threadsMax) := by
  cases l <;> simp only [Label.isApp, reduceCtorEq] at ha
  case call f n c =>
    simp only [step] at hs
    split at hs
    case isFalse => cases hs
    rename_i hg
    simp only [Bool.and_eq_true, decide_eq_true_eq] at hg
    have hp := hg.1
    cases hs
    simp only [mu_eq, wSum]
    have : stagePotC s.cfg.threadsMax s.seq .seq = stagePotC s.cfg.threadsMax s.seq s.pc :=
      stagePotC_congr _ _ (by simp [hp]) (by simp)
    simp only [muC, this, hp, mloc]; omega
  case endCall =>
    simp only [step] at hs
    split at hs
    case isFalse => cases hs
    rename_i hp
    cases hs
    simp only [mu_eq, wSum]
    have : stagePotC s.cfg.threadsMax s.seq (.endSet 0 .final) = stagePotC s.cfg.threadsMax s.seq s.pc :=
      stagePotC_congr _ _ (by simp [hp]) (by simp)
    simp only [muC, this, hp, mloc]; omega

-- ---------------------------------------------------------------------------------------------
-- runs
-- ---------------------------------------------------------------------------------------------

/-- A transition of the library that is not a wake-up without signal / timer expiry. -/
def Label.internal (l : Label) : Bool := !l.isApp && !l.isExpiry

/-- Every Block decoder call along the run makes progress. -/
def ProgRun : State → List Label → Prop
  | _, [] => True
  | s, l :: ls => Progressive s l ∧ ∀ s', step s l = some s' → ProgRun s' ls

/-- The measure at the start. -/
def muInit (cfg : Cfg) (blocks : List Block) : Nat := (blocks.map (cost cfg.threadsMax)).sum + 4 * MS cfg.threadsMax

theorem mu_init (cfg : Cfg) (blocks : List Block) : mu (init cfg blocks) = muInit cfg blocks := by
  simp [mu, muInit, MtDec.init, rem, stagePot, stagePotC, mloc, wSum]

theorem step_cfg {cfg : Cfg} {blocks : List Block} (hwf : ∀ b ∈ blocks, b.WF) {s : State} (hr : Reachable cfg blocks s) :
    s.cfg = cfg := (GInv.reachable hwf hr).hcfg

/-- **Bounded runs.** Along any run of the model from a reachable state in which every Block decoder call makes progress,
    (number of internal steps) + (measure at the end) ≤ (measure at the start) + (33 + 4·threads)·(number of application calls).
    Wake-ups without a signal and timer expiries are free: they never raise the measure. -/
theorem run_bound {cfg : Cfg} {blocks : List Block} (hwf : ∀ b ∈ blocks, b.WF) :
    ∀ (ls : List Label) (s s' : State), Reachable cfg blocks s → run s ls = some s' → ProgRun s ls →
      (ls.filter Label.internal).length + mu s' ≤ mu s + (33 + 4 * cfg.threadsMax) * (ls.filter Label.isApp).length
  | [], s, s', _, h, _ => by
    simp only [run, Option.some.injEq] at h
    subst h; simp
  | l :: ls, s, s', hr, h, hp => by
    simp only [run] at h
    split at h
    case h_2 => cases h
    rename_i s1 hs1
    have hr1 : Reachable cfg blocks s1 := Reachable.step l hr hs1
    have ih := run_bound hwf ls s1 s' hr1 h (hp.2 s1 hs1)
    have hc := step_cfg hwf hr
    cases ha : l.isApp with
    | true =>
      have h1 := mu_app_le hs1 ha
      rw [hc] at h1
      have hi : l.internal = false := by simp [Label.internal, ha]
      simp only [List.filter_cons, ha, hi, if_true, List.length_cons, Bool.false_eq_true, if_false, Nat.mul_succ]
      omega
    | false =>
      cases he : l.isExpiry with
      | true =>
        have h1 := mu_expiry_le hs1 he
        have hi : l.internal = false := by simp [Label.internal, he]
        simp only [List.filter_cons, ha, hi, Bool.false_eq_true, if_false]
        omega
      | false =>
        have h1 := mu_step hwf hr hs1 he ha hp.1
        have hi : l.internal = true := by simp [Label.internal, ha, he]
        simp only [List.filter_cons, ha, hi, if_true, Bool.false_eq_true, if_false, List.length_cons]
        omega

/-- A state in which no progressive internal transition is enabled has the main thread back in the application (or the
    handle has been freed): under every schedule, every lzma_code / lzma_end call returns. -/
theorem stuck_is_idle {cfg : Cfg} {blocks : List Block} (hwf : ∀ b ∈ blocks, b.WF) {s : State} (hr : Reachable cfg blocks s)
    (hstuck : ∀ l s', step s l = some s' → l.internal = true → ¬ Progressive s l) : s.pc = .idle ∨ s.pc = .ended := by
  by_cases he : s.pc = .ended
  · exact Or.inr he
  by_cases hi : s.pc = .idle
  · exact Or.inl hi
  exfalso
  obtain ⟨l, s', hs, hex, hpr⟩ := progress hwf hr he
  have hna : l.isApp = false := by
    cases l <;> first | rfl | (exfalso; simp only [step] at hs; revert hs; simp [hi])
  exact hstuck l s' hs (by simp [Label.internal, hna, hex]) hpr

/-- Executable form of `Progressive` / `ProgRun` (for examples). -/
def progressiveB (s : State) : Label → Bool
  | .wDecode i a b v => v || decide ((getW s i).inPos < a) || decide ((getW s i).outPos < b) ||
      (match (getW s i).pc with
       | .decode lim _ => decide (lim = (getW s i).inPos)
       | _ => false)
  | _ => true

theorem progressiveB_sound {s : State} {l : Label} (h : progressiveB s l = true) : Progressive s l := by
  cases l <;> try exact True.intro
  rename_i i a b v
  simp only [progressiveB, Bool.or_eq_true, decide_eq_true_eq] at h
  rcases h with ((h | h) | h) | h
  · exact Or.inl h
  · exact Or.inr (Or.inl h)
  · exact Or.inr (Or.inr (Or.inl h))
  · split at h
    · rename_i lim pu hpc
      exact Or.inr (Or.inr (Or.inr ⟨lim, pu, hpc, by simpa using h⟩))
    · cases h

def progRunB : State → List Label → Bool
  | _, [] => true
  | s, l :: ls => progressiveB s l && (match step s l with
      | some s' => progRunB s' ls
      | none => true)

theorem progRunB_sound : ∀ (ls : List Label) (s : State), progRunB s ls = true → ProgRun s ls
  | [], _, _ => True.intro
  | l :: ls, s, h => by
    simp only [progRunB, Bool.and_eq_true] at h
    refine ⟨progressiveB_sound h.1, ?_⟩
    intro s' hs
    have := h.2
    rw [hs] at this
    exact progRunB_sound ls s' this

end XzVerif.MtDec
