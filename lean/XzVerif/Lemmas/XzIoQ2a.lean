/- C17 invariant Q2: preservation by `exec`, program counters up to the coding loop. -/
import XzVerif.Lemmas.XzIoQ2Def

namespace XzVerif.XzIo
variable {α : Type}

section
variable {c : Cfg α} {s : St α} (i : Inv c s) (hl : s.fs.srcLinked = true) (q : Q2 c s)
include i hl q

set_option hygiene false in
/-- leaf whose state is written out (only pc, trace, exit status, open flags … change) -/
local macro "q2_explicit" : tactic =>
  `(tactic| exact q2_neutral q hne _ rfl (by simp) id id id id (by simp [emit, msgError, msgWarn, hpc])
      (by simp [Pc.isCloseD, emit, msgError, msgWarn, hpc]) (fun h1 _ h3 => ⟨h1, h3⟩))
set_option hygiene false in
local macro "q2_iofail" : tactic =>
  `(tactic| exact q2_via_fail q hne (frame_ioFail c _).1 rfl (by simp) rfl rfl (ioFail_ne_fsyncFile c _) (ioFail_success c _))
set_option hygiene false in
local macro "q2_loop" : tactic =>
  `(tactic| exact q2_via q hne (frame_continueLoop c _).1 rfl (by simp) rfl rfl (continueLoop_ne_fsyncFile c _)
      (fun h1 h2 => by have := continueLoop_origin c _ (by exact hs) h1; rw [this] at h2; simp at h2)
      (fun _ h2 h3 => by have h3' : s.destOpen = false := h3; rw [hW h2] at h3'; simp at h3'))

theorem q2_exec_openSrc (hpc : s.pc = .openSrc) : Q2 c (exec c s) := by
  have hne : s.pc ≠ .done := by rw [hpc]; simp
  unfold exec; simp only [hpc]
  repeat' split
  all_goals q2_explicit

theorem q2_exec_fstatSrc (hpc : s.pc = .fstatSrc) : Q2 c (exec c s) := by
  have hne : s.pc ≠ .done := by rw [hpc]; simp
  have b := i.toBase hl
  have h := i.pcinv; simp only [PcInv, hpc] at h
  have hs : s.success = false := (b.preMain h.1).2.2.1
  have hW : s.fs.ownLinked = true → s.destOpen = true := by
    intro ho; rw [q.preOwn h.1] at ho; simp at ho
  unfold exec; simp only [hpc]
  repeat' split
  all_goals first
    | q2_explicit
    | q2_loop

theorem q2_exec_closeSrcErr (hpc : s.pc = .closeSrcErr) : Q2 c (exec c s) := by
  have hne : s.pc ≠ .done := by rw [hpc]; simp
  unfold exec; simp only [hpc]
  q2_explicit

theorem q2_exec_openDir (hpc : s.pc = .openDir) : Q2 c (exec c s) := by
  have hne : s.pc ≠ .done := by rw [hpc]; simp
  unfold exec; simp only [hpc]
  repeat' split
  all_goals first
    | q2_explicit
    | q2_iofail

theorem q2_exec_closeDirErr (hpc : s.pc = .closeDirErr) : Q2 c (exec c s) := by
  have hne : s.pc ≠ .done := by rw [hpc]; simp
  unfold exec; simp only [hpc]
  q2_iofail

theorem q2_exec_fstatDest (hpc : s.pc = .fstatDest) : Q2 c (exec c s) := by
  have hne : s.pc ≠ .done := by rw [hpc]; simp
  have h := i.pcinv; simp only [PcInv, hpc] at h
  have hs : s.success = false := h.2.2.1
  have hW : s.fs.ownLinked = true → s.destOpen = true := fun ho => (h.2.2.2.2.2.2.2.2 (q.ownFile ho).1).1
  unfold exec; simp only [hpc]
  repeat' split
  all_goals first
    | q2_explicit
    | q2_loop

theorem q2_exec_lseekOut (hpc : s.pc = .lseekOut) : Q2 c (exec c s) := by
  have hne : s.pc ≠ .done := by rw [hpc]; simp
  have h := i.pcinv; simp only [PcInv, hpc] at h
  have hs : s.success = false := h.2.2.1
  have hW : s.fs.ownLinked = true → s.destOpen = true := fun ho => (h.2.2.2.2.2.2.2.2 (q.ownFile ho).1).1
  unfold exec; simp only [hpc]
  repeat' split
  all_goals q2_loop

/-- facts shared by read / readPoll / fixPos -/
theorem loop_facts (h : (s.main = false → s.wr = [] ∧ s.pending = 0) ∧ (s.main = true → LoopSt c s s.ops)) :
    s.success = false ∧ (s.fs.ownLinked = true → s.destOpen = true) := by
  have b := i.toBase hl
  cases hm : s.main with
  | false =>
    refine ⟨(b.preMain hm).2.2.1, fun ho => ?_⟩
    rw [q.preOwn hm] at ho; simp at ho
  | true =>
    have l := h.2 hm
    exact ⟨l.nosucc, fun ho => l.dest (q.ownFile ho).1 (q.ownFile ho).2⟩

theorem q2_exec_read (hpc : s.pc = .read) : Q2 c (exec c s) := by
  have hne : s.pc ≠ .done := by rw [hpc]; simp
  have h := i.pcinv; simp only [PcInv, hpc] at h
  obtain ⟨hs, hW⟩ := loop_facts i hl q h
  unfold exec; simp only [hpc]
  repeat' split
  all_goals first
    | q2_explicit
    | q2_iofail
    | q2_loop

theorem q2_exec_fixPos (hpc : s.pc = .fixPos) : Q2 c (exec c s) := by
  have hne : s.pc ≠ .done := by rw [hpc]; simp
  have h := i.pcinv; simp only [PcInv, hpc] at h
  obtain ⟨hs, hW⟩ := loop_facts i hl q h
  unfold exec; simp only [hpc]
  repeat' split
  all_goals q2_loop

theorem q2_exec_readPoll (hpc : s.pc = .readPoll) : Q2 c (exec c s) := by
  have hne : s.pc ≠ .done := by rw [hpc]; simp
  unfold exec; simp only [hpc]
  repeat' split
  all_goals first
    | q2_explicit
    | q2_iofail

theorem q2_exec_writePoll (hpc : s.pc = .writePoll) : Q2 c (exec c s) := by
  have hne : s.pc ≠ .done := by rw [hpc]; simp
  unfold exec; simp only [hpc]
  repeat' split
  all_goals first
    | q2_explicit
    | q2_iofail

theorem q2_exec_seekHole (hpc : s.pc = .seekHole) : Q2 c (exec c s) := by
  have hne : s.pc ≠ .done := by rw [hpc]; simp
  unfold exec; simp only [hpc]
  repeat' split
  all_goals first
    | q2_explicit
    | q2_iofail

end
end XzVerif.XzIo
