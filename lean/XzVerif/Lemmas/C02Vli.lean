/-
  Helper lemmas for C02: variable-length integers (Model/Vli.lean).
-/
import XzVerif.Model.Vli

namespace XzVerif.Vli

theorem u8_toNat_ofNat (n : Nat) (h : n < 256) : (UInt8.ofNat n).toNat = n := by
  simp [UInt8.toNat_ofNat']
  omega

theorem u8_ofNat_toNat (b : UInt8) : UInt8.ofNat b.toNat = b := by
  simp

theorem vliEncodeAux_length (f v : Nat) : (vliEncodeAux f v).length = vliSizeAux f v := by
  induction f generalizing v with
  | zero => simp [vliEncodeAux, vliSizeAux]
  | succ f ih =>
    simp only [vliEncodeAux, vliSizeAux]
    split
    · simp
    · simp [ih]; omega

theorem vliSizeAux_pos (f v : Nat) : 1 ≤ vliSizeAux f v := by
  cases f with
  | zero => simp [vliSizeAux]
  | succ f => simp only [vliSizeAux]; split <;> omega

theorem vliSizeAux_le (f v : Nat) : vliSizeAux f v ≤ f + 1 := by
  induction f generalizing v with
  | zero => simp [vliSizeAux]
  | succ f ih =>
    simp only [vliSizeAux]
    split
    · omega
    · have := ih (v / 128); omega

/-- Decoding what the encoder wrote (at any byte position `pos` inside the integer) gives the value back. -/
theorem vliDecodeAux_encodeAux (f : Nat) : ∀ (v pos : Nat) (t : List UInt8),
    pos + f = 8 → v < 128 ^ (f + 1) → (pos > 0 → v > 0) →
    vliDecodeAux pos (vliEncodeAux f v ++ t) = some (v, t) := by
  induction f with
  | zero =>
    intro v pos t hp hv hpos
    have hv' : v < 128 := by simpa using hv
    simp only [vliEncodeAux, List.cons_append, List.nil_append, vliDecodeAux]
    rw [u8_toNat_ofNat v (by omega)]
    have : ¬ (v = 0 ∧ pos > 0) := by omega
    simp [hv', this]
  | succ f ih =>
    intro v pos t hp hv hpos
    simp only [vliEncodeAux]
    by_cases h : v < 128
    · simp only [h, if_true, List.cons_append, List.nil_append, vliDecodeAux]
      rw [u8_toNat_ofNat v (by omega)]
      have : ¬ (v = 0 ∧ pos > 0) := by omega
      simp [h, this]
    · simp only [h, if_false, List.cons_append, vliDecodeAux]
      rw [u8_toNat_ofNat (v % 128 + 128) (by omega)]
      have h1 : ¬ (v % 128 + 128 < 128) := by omega
      have h2 : ¬ (pos + 1 = VLI_BYTES_MAX) := by simp [VLI_BYTES_MAX]; omega
      have hdiv : v / 128 < 128 ^ (f + 1) := by
        apply Nat.div_lt_of_lt_mul
        rw [Nat.pow_succ] at hv
        omega
      have := ih (v / 128) (pos + 1) t (by omega) hdiv (by intro _; omega)
      simp only [h1, h2, if_false, this]
      congr 2
      omega

/-- Anything the decoder accepts is exactly the encoder's output for the decoded value, followed by the rest. -/
theorem vliDecodeAux_minimal : ∀ (b : List UInt8) (pos v : Nat) (t : List UInt8),
    pos ≤ 8 → vliDecodeAux pos b = some (v, t) →
    b = vliEncodeAux (8 - pos) v ++ t ∧ (pos > 0 → v > 0) ∧ v < 128 ^ (9 - pos) := by
  intro b
  induction b with
  | nil => intro pos v t _ h; simp [vliDecodeAux] at h
  | cons byte rest ih =>
    intro pos v t hp h
    simp only [vliDecodeAux] at h
    by_cases hb : byte.toNat < 128
    · simp only [hb, if_true] at h
      by_cases hz : byte.toNat = 0 ∧ pos > 0
      · simp [hz] at h
      · simp only [hz, if_false, Option.some.injEq, Prod.mk.injEq] at h
        obtain ⟨hv, ht⟩ := h
        subst hv ht
        refine ⟨?_, by omega, ?_⟩
        · cases hf : 8 - pos with
          | zero => simp [vliEncodeAux]
          | succ f => simp [vliEncodeAux, hb]
        · have : 128 ^ 1 ≤ 128 ^ (9 - pos) := Nat.pow_le_pow_right (by omega) (by omega)
          omega
    · simp only [hb, if_false] at h
      by_cases h9 : pos + 1 = VLI_BYTES_MAX
      · simp [h9] at h
      · simp only [h9, if_false] at h
        have hp7 : pos ≤ 7 := by simp [VLI_BYTES_MAX] at h9; omega
        cases hrec : vliDecodeAux (pos + 1) rest with
        | none => simp [hrec] at h
        | some p =>
          obtain ⟨v', r⟩ := p
          simp only [hrec, Option.some.injEq, Prod.mk.injEq] at h
          obtain ⟨hv, ht⟩ := h
          subst ht
          obtain ⟨hrest, hpos', hlt⟩ := ih (pos + 1) v' r (by omega) hrec
          have hv'pos : v' > 0 := hpos' (by omega)
          have h8 : 8 - pos = (8 - (pos + 1)) + 1 := by omega
          have hbyte : byte.toNat < 256 := byte.toNat_lt
          refine ⟨?_, by omega, ?_⟩
          · rw [h8]
            simp only [vliEncodeAux]
            have hge : ¬ (v < 128) := by omega
            simp only [hge, if_false, List.cons_append]
            have e1 : v % 128 + 128 = byte.toNat := by omega
            have e2 : v / 128 = v' := by omega
            rw [e1, e2, u8_ofNat_toNat, ← hrest]
          · have : 9 - pos = (9 - (pos + 1)) + 1 := by omega
            rw [this, Nat.pow_succ]
            omega

/-! ### The multi-call loop (`vliDecLoop`, the way the C code accumulates) agrees with the specification form -/

theorem shift_step (a w pos : Nat) :
    (a <<< (pos * 7)) + (w <<< ((pos + 1) * 7)) = (a + 128 * w) <<< (pos * 7) := by
  simp only [Nat.shiftLeft_eq]
  have h : (pos + 1) * 7 = pos * 7 + 7 := by omega
  rw [h, Nat.pow_add]
  generalize 2 ^ (pos * 7) = k
  have : (2 : Nat) ^ 7 = 128 := by decide
  rw [this, Nat.add_mul, Nat.mul_assoc]
  congr 1
  rw [Nat.mul_comm k 128, ← Nat.mul_assoc, Nat.mul_comm w 128, Nat.mul_assoc]

/-- If the multi-call loop ends an integer (`LZMA_STREAM_END`) then the specification decoder accepts the same bytes,
    with the accumulated value, the consumed count and the final `vli_pos` related as expected. -/
theorem vliDecLoop_streamEnd_aux : ∀ (inp : List UInt8) (vli pos used v p u : Nat),
    vliDecLoop inp vli pos used = (.streamEnd, v, p, u) →
    ∃ w, vliDecodeAux pos inp = some (w, inp.drop (u - used)) ∧ v = vli + (w <<< (pos * 7)) ∧ used < u
      ∧ u - used ≤ inp.length ∧ p = pos + (u - used) := by
  intro inp
  induction inp with
  | nil => intro vli pos used v p u h; simp [vliDecLoop] at h
  | cons b t ih =>
    intro vli pos used v p u h
    simp only [vliDecLoop] at h
    by_cases hb : b.toNat < 128
    · simp only [hb, if_true] at h
      by_cases hz : b.toNat = 0 ∧ pos + 1 > 1
      · simp [hz] at h
      · simp only [hz, if_false, Prod.mk.injEq, true_and] at h
        obtain ⟨hv, hp, hu⟩ := h
        subst hu
        have hz' : ¬ (b.toNat = 0 ∧ pos > 0) := by omega
        refine ⟨b.toNat, ?_, ?_, by omega, by simp, by omega⟩
        · simp only [vliDecodeAux, hb, if_true, hz', if_false]
          have : used + 1 - used = 1 := by omega
          simp [this]
        · rw [← hv]
          have : b.toNat % 128 = b.toNat := by omega
          rw [this]
    · simp only [hb, if_false] at h
      by_cases h9 : pos + 1 = VLI_BYTES_MAX
      · simp [h9] at h
      · simp only [h9, if_false] at h
        obtain ⟨w, hdec, hv, hlt, hle, hp⟩ := ih _ _ _ _ _ _ h
        refine ⟨b.toNat % 128 + 128 * w, ?_, ?_, by omega, by simp only [List.length_cons]; omega, by omega⟩
        · simp only [vliDecodeAux, hb, if_false, h9, hdec]
          have : u - used = (u - (used + 1)) + 1 := by omega
          rw [this]
          simp
        · rw [hv, Nat.add_assoc, shift_step]

/-- Bridge used by stream decoders that run the multi-call loop over a whole buffer: a finished integer is exactly what
    the specification decoder returns, and `used` bytes were consumed. -/
theorem vliDecLoop_streamEnd (inp : List UInt8) (v p used : Nat) (h : vliDecLoop inp 0 0 0 = (.streamEnd, v, p, used)) :
    vliDecode inp = some (v, inp.drop used) ∧ 0 < used ∧ used ≤ inp.length ∧ p = used := by
  obtain ⟨w, hdec, hv, hlt, hle, hp⟩ := vliDecLoop_streamEnd_aux inp 0 0 0 v p used h
  simp only [Nat.sub_zero, Nat.zero_mul, Nat.shiftLeft_zero, Nat.zero_add] at hdec hv hle hp
  subst hv
  exact ⟨hdec, hlt, hle, hp⟩

/-- Conversely, whatever the specification decoder accepts the loop accepts, with the same value and count. -/
theorem vliDecLoop_of_decodeAux : ∀ (inp : List UInt8) (vli pos used w : Nat) (r : List UInt8),
    vliDecodeAux pos inp = some (w, r) →
    vliDecLoop inp vli pos used = (.streamEnd, vli + (w <<< (pos * 7)), pos + (inp.length - r.length), used + (inp.length - r.length))
      ∧ r.length < inp.length := by
  intro inp
  induction inp with
  | nil => intro vli pos used w r h; simp [vliDecodeAux] at h
  | cons b t ih =>
    intro vli pos used w r h
    simp only [vliDecodeAux] at h
    by_cases hb : b.toNat < 128
    · simp only [hb, if_true] at h
      by_cases hz : b.toNat = 0 ∧ pos > 0
      · simp [hz] at h
      · simp only [hz, if_false, Option.some.injEq, Prod.mk.injEq] at h
        obtain ⟨hw, hr⟩ := h
        subst hw hr
        have hz' : ¬ (b.toNat = 0 ∧ pos + 1 > 1) := by omega
        have hm : b.toNat % 128 = b.toNat := by omega
        have hl : (b :: t).length - t.length = 1 := by simp
        simp only [vliDecLoop, hb, if_true, hz', if_false, hm, hl]
        simp
    · simp only [hb, if_false] at h
      by_cases h9 : pos + 1 = VLI_BYTES_MAX
      · simp [h9] at h
      · simp only [h9, if_false] at h
        cases hrec : vliDecodeAux (pos + 1) t with
        | none => simp [hrec] at h
        | some q =>
          obtain ⟨w', r'⟩ := q
          simp only [hrec, Option.some.injEq, Prod.mk.injEq] at h
          obtain ⟨hw, hr⟩ := h
          subst hw hr
          obtain ⟨hl, hlen⟩ := ih (vli + ((b.toNat % 128) <<< (pos * 7))) (pos + 1) (used + 1) w' r' hrec
          simp only [vliDecLoop, hb, if_false, h9, hl]
          have e1 : (b :: t).length - r'.length = (t.length - r'.length) + 1 := by simp only [List.length_cons]; omega
          refine ⟨?_, by simp only [List.length_cons]; omega⟩
          rw [e1, Nat.add_assoc, shift_step]
          simp only [Prod.mk.injEq, true_and]
          omega

end XzVerif.Vli
