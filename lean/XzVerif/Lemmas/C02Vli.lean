/-
  Helper lemmas for C02: variable-length integers (Model/Vli.lean).
-/
import XzVerif.Model.Vli

namespace XzVerif.Vli

theorem u8_toNat_ofNat (n : Nat) (h : n < 256) : (UInt8.ofNat n).toNat = n := by
  simp [UInt8.toNat_ofNat']
  omega

theorem u8_ofNat_toNat (b : UInt8) : UInt8.ofNat b.toNat = b := by
  simp

theorem vliEncodeAux_length (f v : Nat) : (vliEncodeAux f v).length = vliSizeAux f v := by
  induction f generalizing v with
  | zero => simp [vliEncodeAux, vliSizeAux]
  | succ f ih =>
    simp only [vliEncodeAux, vliSizeAux]
    split
    · simp
    · simp [ih]; omega

theorem vliSizeAux_pos (f v : Nat) : 1 ≤ vliSizeAux f v := by
  cases f with
  | zero => simp [vliSizeAux]
  | succ f => simp only [vliSizeAux]; split <;> omega

theorem vliSizeAux_le (f v : Nat) : vliSizeAux f v ≤ f + 1 := by
  induction f generalizing v with
  | zero => simp [vliSizeAux]
  | succ f ih =>
    simp only [vliSizeAux]
    split
    · omega
    · have := ih (v / 128); omega

/-- Decoding what the encoder wrote (at any byte position `pos` inside the integer) gives the value back. -/
theorem vliDecodeAux_encodeAux (f : Nat) : ∀ (v pos : Nat) (t : List UInt8),
    pos + f = 8 → v < 128 ^ (f + 1) → (pos > 0 → v > 0) →
    vliDecodeAux pos (vliEncodeAux f v ++ t) = some (v, t) := by
  induction f with
  | zero =>
    intro v pos t hp hv hpos
    have hv' : v < 128 := by simpa using hv
    simp only [vliEncodeAux, List.cons_append, List.nil_append, vliDecodeAux]
    rw [u8_toNat_ofNat v (by omega)]
    have : ¬ (v = 0 ∧ pos > 0) := by omega
    simp [hv', this]
  | succ f ih =>
    intro v pos t hp hv hpos
    simp only [vliEncodeAux]
    by_cases h : v < 128
    · simp only [h, if_true, List.cons_append, List.nil_append, vliDecodeAux]
      rw [u8_toNat_ofNat v (by omega)]
      have : ¬ (v = 0 ∧ pos > 0) := by omega
      simp [h, this]
    · simp only [h, if_false, List.cons_append, vliDecodeAux]
      rw [u8_toNat_ofNat (v % 128 + 128) (by omega)]
      have h1 : ¬ (v % 128 + 128 < 128) := by omega
      have h2 : ¬ (pos + 1 = VLI_BYTES_MAX) := by simp [VLI_BYTES_MAX]; omega
      have hdiv : v / 128 < 128 ^ (f + 1) := by
        apply Nat.div_lt_of_lt_mul
        rw [Nat.pow_succ] at hv
        omega
      have := ih (v / 128) (pos + 1) t (by omega) hdiv (by intro _; omega)
      simp only [h1, h2, if_false, this]
      congr 2
      omega

/-- Anything the decoder accepts is exactly the encoder's output for the decoded value, followed by the rest. -/
theorem vliDecodeAux_minimal : ∀ (b : List UInt8) (pos v : Nat) (t : List UInt8),
    pos ≤ 8 → vliDecodeAux pos b = some (v, t) →
    b = vliEncodeAux (8 - pos) v ++ t ∧ (pos > 0 → v > 0) ∧ v < 128 ^ (9 - pos) := by
  intro b
  induction b with
  | nil => intro pos v t _ h; simp [vliDecodeAux] at h
  | cons byte rest ih =>
    intro pos v t hp h
    simp only [vliDecodeAux] at h
    by_cases hb : byte.toNat < 128
    · simp only [hb, if_true] at h
      by_cases hz : byte.toNat = 0 ∧ pos > 0
      · simp [hz] at h
      · simp only [hz, if_false, Option.some.injEq, Prod.mk.injEq] at h
        obtain ⟨hv, ht⟩ := h
        subst hv ht
        refine ⟨?_, by omega, ?_⟩
        · cases hf : 8 - pos with
          | zero => simp [vliEncodeAux]
          | succ f => simp [vliEncodeAux, hb]
        · have : 128 ^ 1 ≤ 128 ^ (9 - pos) := Nat.pow_le_pow_right (by omega) (by omega)
          omega
    · simp only [hb, if_false] at h
      by_cases h9 : pos + 1 = VLI_BYTES_MAX
      · simp [h9] at h
      · simp only [h9, if_false] at h
        have hp7 : pos ≤ 7 := by simp [VLI_BYTES_MAX] at h9; omega
        cases hrec : vliDecodeAux (pos + 1) rest with
        | none => simp [hrec] at h
        | some p =>
          obtain ⟨v', r⟩ := p
          simp only [hrec, Option.some.injEq, Prod.mk.injEq] at h
          obtain ⟨hv, ht⟩ := h
          subst ht
          obtain ⟨hrest, hpos', hlt⟩ := ih (pos + 1) v' r (by omega) hrec
          have hv'pos : v' > 0 := hpos' (by omega)
          have h8 : 8 - pos = (8 - (pos + 1)) + 1 := by omega
          have hbyte : byte.toNat < 256 := byte.toNat_lt
          refine ⟨?_, by omega, ?_⟩
          · rw [h8]
            simp only [vliEncodeAux]
            have hge : ¬ (v < 128) := by omega
            simp only [hge, if_false, List.cons_append]
            have e1 : v % 128 + 128 = byte.toNat := by omega
            have e2 : v / 128 = v' := by omega
            rw [e1, e2, u8_ofNat_toNat, ← hrest]
          · have : 9 - pos = (9 - (pos + 1)) + 1 := by omega
            rw [this, Nat.pow_succ]
            omega

end XzVerif.Vli
