/-
  Error bookkeeping invariant of the threaded-decoder model: thread_error / pending_error versus the queue and the cursor.
-/
import XzVerif.Lemmas.MtDecAll

namespace XzVerif.MtDec

structure ErrInv (s : State) : Prop where
  /-- a worker error means a finished failed outbuf is still in the queue (it is returned when it reaches the head) -/
  e1 : s.threadError ≠ OK → ∃ o ∈ s.queue, o.finished = true ∧ o.finishRet ≠ END
  e2 : s.pend = .flag → s.threadError ≠ OK
  /-- a header-level error code in pending_error is the verdict of the item at the cursor -/
  e3 : ∀ r, s.pend = .code r → s.seq = .error ∧ s.cur < s.blocks.length ∧ (blk s s.cur).kind = .badHeader ∧ r = (blk s s.cur).ret
  e4 : s.seq = .error → s.pend ≠ .none

theorem ErrInv.init (cfg : Cfg) (blocks : List Block) : ErrInv (init cfg blocks) := by
  constructor <;> simp [MtDec.init]

/-- Main-thread labels that touch neither the queue nor thread_error. -/
def Label.errSimple : Label → Bool
  | .rowIter _ | .assign | .enablePartial => false
  | _ => true

theorem ErrInv.mainSimple {s s' : State} {l : Label} (h : ErrInv s) (hc : CtlInv s) (hl : l.worker? = none)
    (hsimple : l.errSimple = true) (hs : step s l = some s') : ErrInv s' := by
  obtain ⟨e1, e2, e3, e4⟩ := h
  have c5 := hc.rowK
  have c6b := hc.endDirect
  cases l <;> simp only [Label.worker?, reduceCtorEq] at hl <;> simp only [Label.errSimple, reduceCtorEq] at hsimple <;>
    simp only [step] at hs
  all_goals (repeat' split at hs)
  all_goals first | (cases hs; done) | skip
  all_goals (cases hs)
  all_goals (constructor <;> first
    | assumption
    | (intros; simp_all [blk, rowKOf, seqOfRowK]; done))

/-- ErrInv only looks at these fields. -/
theorem ErrInv.congr {s s' : State} (h : ErrInv s) (h1 : s'.threadError = s.threadError) (h2 : s'.pend = s.pend)
    (h3 : s'.queue = s.queue) (h4 : s'.seq = s.seq) (h5 : s'.cur = s.cur) (h6 : s'.blocks = s.blocks) : ErrInv s' := by
  have eb : ∀ j, blk s' j = blk s j := fun j => by simp [blk, h6]
  exact ⟨by rw [h1, h3]; exact h.e1, by rw [h1, h2]; exact h.e2, by rw [h2, h4, h5, h6, eb]; exact h.e3,
         by rw [h2, h4]; exact h.e4⟩

theorem ErrInv.setW {s : State} (h : ErrInv s) (i : Nat) (w : Worker) : ErrInv (MtDec.setW s i w) :=
  h.congr rfl rfl rfl rfl rfl rfl

theorem ErrInv.worker {s s' : State} {l : Label} (h : ErrInv s) (hD : DataInv s) (hl : l.worker?.isSome = true)
    (hs : step s l = some s') : ErrInv s' := by
  cases l <;> simp only [Label.worker?, Option.isSome, reduceCtorEq] at hl <;> simp only [step] at hs
  case wPublish i =>
    split at hs
    case isFalse => cases hs
    injection hs with hs; subst hs
    refine ⟨?_, h.e2, h.e3, h.e4⟩
    intro hne
    obtain ⟨o, ho, hf, hr⟩ := h.e1 hne
    refine ⟨if o.blk = (getW s i).blk then { o with pos := (getW s i).outPos, decInPos := (getW s i).inPos } else o, ?_, ?_, ?_⟩
    · show _ ∈ updOut s.queue _ _
      simp only [updOut, List.mem_map]; exact ⟨o, ho, rfl⟩
    · split <;> exact hf
    · split <;> exact hr
  case wFin3 i =>
    split at hs
    case isFalse => cases hs
    rename_i hi
    split at hs
    case h_2 => cases hs
    rename_i r hpc
    injection hs with hs; subst hs
    have hw := hD.wk i hi
    have hpcI := hw.pcInv
    rw [hpc] at hpcI
    simp only at hpcI
    have hhas := hw.has hpcI.1
    -- shape of the resulting state: queue updated for this worker's Block, threadError possibly set
    have hq : ∀ (te : Ret) (tf : List Nat) (m : Nat), (te = s.threadError ∨ (s.threadError = OK ∧ te = r ∧ r ≠ END)) →
        ErrInv { MtDec.setW s i { getW s i with hasOut := false, failed := r != END, pc := .top } with
                 queue := updOut s.queue (getW s i).blk (fun o =>
                   { o with pos := (getW s i).outPos, decInPos := (getW s i).inPos, finished := true, finishRet := r }),
                 threadError := te, threadsFree := tf, memInUse := m, mwoken := true } := by
      intro te tf m hte
      refine ⟨?_, ?_, h.e3, h.e4⟩
      · intro hne
        rcases hte with rfl | ⟨hok, rfl, hrne⟩
        · obtain ⟨o, ho, hf, hr⟩ := h.e1 hne
          have hob : o.blk ≠ (getW s i).blk := by
            intro e; have := (hhas.2.2 o ho e).1; rw [hf] at this; cases this
          refine ⟨o, ?_, hf, hr⟩
          show o ∈ updOut s.queue _ _
          simp only [updOut, List.mem_map]; exact ⟨o, ho, by simp [hob]⟩
        · obtain ⟨o, ho, e⟩ := hhas.2.1
          refine ⟨{ o with pos := (getW s i).outPos, decInPos := (getW s i).inPos, finished := true, finishRet := te }, ?_, rfl, hrne⟩
          show _ ∈ updOut s.queue _ _
          simp only [updOut, List.mem_map]; exact ⟨o, ho, by simp [e]⟩
      · intro hp
        have := h.e2 hp
        rcases hte with rfl | ⟨hok, _, _⟩
        · exact this
        · exact absurd hok this
    by_cases hend : r = END
    · simp only [hend, bne_self_eq_false, Bool.false_and, Bool.false_eq_true, if_false, if_true]
      have := hq s.threadError (i :: s.threadsFree) (s.memInUse - (blk s (getW s i).blk).memThr) (Or.inl rfl)
      subst hend
      exact this.congr rfl rfl rfl rfl rfl rfl
    · simp only [hend, if_false]
      split
      · rename_i hc
        simp only [Bool.and_eq_true, decide_eq_true_eq] at hc
        have := hq r s.threadsFree s.memInUse (Or.inr ⟨hc.2, rfl, hend⟩)
        exact this.congr rfl rfl rfl rfl rfl rfl
      · rename_i hc
        simp only [Bool.and_eq_true, decide_eq_true_eq, not_and] at hc
        have := hq s.threadError s.threadsFree s.memInUse (Or.inl rfl)
        exact this.congr rfl rfl rfl rfl rfl rfl
  all_goals (repeat' split at hs)
  all_goals first | (cases hs; done) | skip
  all_goals (cases hs; exact h.setW _ _)

end XzVerif.MtDec
