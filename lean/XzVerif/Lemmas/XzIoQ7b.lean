/- C17 invariant Q7: preservation by `exec`, io_close. -/
import XzVerif.Lemmas.XzIoQ7a

namespace XzVerif.XzIo
variable {α : Type}

section
variable {c : Cfg α} {s : St α} (q : Q7 s)
include q

set_option hygiene false in
local macro "m_fail_exit" : tactic => `(tactic| exact q7_ioFail c _ (Or.inl Nat.one_ne_zero))
set_option hygiene false in
local macro "m_mid" : tactic => `(tactic| exact q7_mid q hnf rfl rfl rfl (fun h => Bool.noConfusion h))
set_option hygiene false in
/-- explicit next state inside io_close, success kept, possibly after a warning -/
local macro "m_close_explicit" : tactic =>
  `(tactic| first
     | exact q7_close q hfb hncd (Frame.refl _) rfl rfl rfl (by simp) rfl id rfl (Or.inl ⟨rfl, rfl⟩)
     | exact q7_close q hfb hncd (Frame.refl _) rfl rfl rfl (by simp) rfl (fun _ => msgWarn_exit_ne _) rfl (Or.inl ⟨rfl, rfl⟩))
set_option hygiene false in
/-- closeSrcPhase after an event, success kept -/
local macro "m_close_csp" : tactic =>
  `(tactic| first
     | exact q7_close q hfb hncd (frame_closeSrcPhase c _).1 (frame_closeSrcPhase c _).2.2
         (closing_finBad (frame_closeSrcPhase c _).2.1 (by unfold closeSrcPhase; split <;> simp))
         (landing_notEarly (closeSrcPhase_landing c _)) (closing_ne_closeDirErr (frame_closeSrcPhase c _).2.1)
         rfl id rfl (Or.inl ⟨rfl, rfl⟩)
     | exact q7_close q hfb hncd (frame_closeSrcPhase c _).1 (frame_closeSrcPhase c _).2.2
         (closing_finBad (frame_closeSrcPhase c _).2.1 (by unfold closeSrcPhase; split <;> simp))
         (landing_notEarly (closeSrcPhase_landing c _)) (closing_ne_closeDirErr (frame_closeSrcPhase c _).2.1)
         rfl (fun _ => msgWarn_exit_ne _) rfl (Or.inl ⟨rfl, rfl⟩))

theorem closeDestPhase_ne_tailSeek (s1 : St α) : (closeDestPhase c s1).pc ≠ .tailSeek := by
  unfold closeDestPhase closeSrcPhase; repeat' split
  all_goals simp

set_option hygiene false in
/-- closeDestPhase after an event: success kept (`Or.inl`) or dropped with an error message (`Or.inr`) -/
local macro "m_close_cdp" : tactic =>
  `(tactic| first
     | exact q7_close q hfb hncd (frame_closeDestPhase c _).1 (frame_closeDestPhase c _).2.2
         (closing_finBad (frame_closeDestPhase c _).2.1 (closeDestPhase_ne_tailSeek q _))
         (landing_notEarly (closeDestPhase_landing c _)) (closing_ne_closeDirErr (frame_closeDestPhase c _).2.1)
         rfl id rfl (Or.inl ⟨rfl, rfl⟩)
     | exact q7_close q hfb hncd (frame_closeDestPhase c _).1 (frame_closeDestPhase c _).2.2
         (closing_finBad (frame_closeDestPhase c _).2.1 (closeDestPhase_ne_tailSeek q _))
         (landing_notEarly (closeDestPhase_landing c _)) (closing_ne_closeDirErr (frame_closeDestPhase c _).2.1)
         rfl (fun _ => Nat.one_ne_zero) rfl (Or.inr ⟨rfl, Nat.one_ne_zero⟩))

theorem q7_exec_tailSeek (hpc : s.pc = .tailSeek) : Q7 (exec c s) := by
  have hnf : s.pc.finBad = false := by rw [hpc]; rfl
  unfold exec; simp only [hpc]
  split
  · exact q7_end (by rw [closeBlock_success]) (closeBlock_finBad c _)
      (Loud.frame (frame_closeBlock c _).1 (Or.inl Nat.one_ne_zero)) (closing_ne_closeDirErr (closeBlock_closing c _))
  · m_mid

theorem q7_exec_attrs (hpc : s.pc = .fchownUid ∨ s.pc = .fchownGid ∨ s.pc = .fchmod) : Q7 (exec c s) := by
  rcases hpc with hpc | hpc | hpc
  all_goals
    have hfb : s.pc.finBad = true := by rw [hpc]; rfl
    have hncd : s.pc ≠ .closeDirErr := by rw [hpc]; simp
    unfold exec; simp only [hpc]
    repeat' split
    all_goals m_close_explicit

theorem q7_futimens_aux (hfb : s.pc.finBad = true) (hncd : s.pc ≠ .closeDirErr) (r : Res)
    (hr : hardErr ⟨.futimens, r⟩ = false) : Q7 (afterAttrs c (emit s .futimens r)) := by
  have ht : (afterAttrs c (emit s .futimens r)).pc ≠ .tailSeek := by
    unfold afterAttrs; split
    · simp
    · exact closeDestPhase_ne_tailSeek q _
  exact q7_close q hfb hncd (frame_afterAttrs c _).1 (frame_afterAttrs c _).2.2
    (closing_finBad (frame_afterAttrs c _).2.1 ht) (landing_notEarly (afterAttrs_landing c _))
    (closing_ne_closeDirErr (frame_afterAttrs c _).2.1) rfl id rfl (Or.inl ⟨rfl, hr⟩)

theorem q7_exec_futimens (hpc : s.pc = .futimens) : Q7 (exec c s) := by
  have hfb : s.pc.finBad = true := by rw [hpc]; rfl
  have hncd : s.pc ≠ .closeDirErr := by rw [hpc]; simp
  unfold exec; simp only [hpc]
  split <;> exact q7_futimens_aux q hfb hncd _ rfl

theorem q7_exec_fsyncFile (hpc : s.pc = .fsyncFile) : Q7 (exec c s) := by
  have hfb : s.pc.finBad = true := by rw [hpc]; rfl
  have hncd : s.pc ≠ .closeDirErr := by rw [hpc]; simp
  unfold exec; simp only [hpc]
  split
  · m_close_cdp
  · m_close_explicit

theorem q7_exec_fsyncDir (hpc : s.pc = .fsyncDir) : Q7 (exec c s) := by
  have hfb : s.pc.finBad = true := by rw [hpc]; rfl
  have hncd : s.pc ≠ .closeDirErr := by rw [hpc]; simp
  unfold exec; simp only [hpc]
  split
  · m_close_cdp
  · m_close_cdp

theorem q7_exec_closeDir (hpc : s.pc = .closeDir) : Q7 (exec c s) := by
  have hfb : s.pc.finBad = true := by rw [hpc]; rfl
  have hncd : s.pc ≠ .closeDirErr := by rw [hpc]; simp
  unfold exec; simp only [hpc]
  split <;> m_close_explicit

theorem q7_exec_closeDest (hpc : s.pc = .closeDest) : Q7 (exec c s) := by
  have hfb : s.pc.finBad = true := by rw [hpc]; rfl
  have hncd : s.pc ≠ .closeDirErr := by rw [hpc]; simp
  unfold exec; simp only [hpc]
  split
  · exact q7_close q hfb hncd (Frame.refl _) rfl rfl rfl (by simp) rfl (fun _ => Nat.one_ne_zero) rfl
      (Or.inr ⟨rfl, Nat.one_ne_zero⟩)
  · split
    · m_close_csp
    · m_close_explicit

theorem q7_exec_statDest (hpc : s.pc = .statDest) : Q7 (exec c s) := by
  have hfb : s.pc.finBad = true := by rw [hpc]; rfl
  have hncd : s.pc ≠ .closeDirErr := by rw [hpc]; simp
  unfold exec; simp only [hpc]
  repeat' split
  all_goals first
    | m_close_csp
    | m_close_explicit

theorem q7_exec_unlinkDest (hpc : s.pc = .unlinkDest) : Q7 (exec c s) := by
  have hfb : s.pc.finBad = true := by rw [hpc]; rfl
  have hncd : s.pc ≠ .closeDirErr := by rw [hpc]; simp
  unfold exec; simp only [hpc]
  repeat' split
  all_goals m_close_csp

theorem q7_exec_closeSrc (hpc : s.pc = .closeSrc) : Q7 (exec c s) := by
  have hfb : s.pc.finBad = true := by rw [hpc]; rfl
  have hncd : s.pc ≠ .closeDirErr := by rw [hpc]; simp
  unfold exec; simp only [hpc]
  repeat' split
  all_goals m_close_explicit

theorem q7_exec_statSrc (hpc : s.pc = .statSrc) : Q7 (exec c s) := by
  have hfb : s.pc.finBad = true := by rw [hpc]; rfl
  have hncd : s.pc ≠ .closeDirErr := by rw [hpc]; simp
  unfold exec; simp only [hpc]
  repeat' split
  all_goals m_close_explicit

theorem q7_exec_unlinkSrc (hpc : s.pc = .unlinkSrc) : Q7 (exec c s) := by
  have hfb : s.pc.finBad = true := by rw [hpc]; rfl
  have hncd : s.pc ≠ .closeDirErr := by rw [hpc]; simp
  unfold exec; simp only [hpc]
  repeat' split
  all_goals m_close_explicit

end
end XzVerif.XzIo
