/-
  Helper lemmas for C02: the uncompressed-chunk Block encoder (`lzma_block_uncomp_encode`, the fall-back of every
  single-call encoder) never needs more than `lzma_block_buffer_bound64`.
-/
import XzVerif.Lemmas.C02Block

namespace XzVerif.Container
open XzVerif XzVerif.Vli

/-- The chunk loop writes exactly `uncompressedChunksSize` bytes. -/
theorem lzma2UncompressedChunksAux_length : ∀ (fuel : Nat) (first : Bool) (data : List UInt8), data.length ≤ fuel →
    (lzma2UncompressedChunksAux fuel first data).length = data.length + ((data.length + 65535) / 65536 * 3 + 1) := by
  intro fuel
  induction fuel with
  | zero =>
    intro first data h
    have : data.length = 0 := by omega
    simp [lzma2UncompressedChunksAux, this]
  | succ fuel ih =>
    intro first data h
    simp only [lzma2UncompressedChunksAux]
    by_cases he : data.isEmpty = true
    · have : data.length = 0 := by simpa using he
      simp [he, this]
    · simp only [he, Bool.false_eq_true, if_false]
      have hpos : 0 < data.length := by
        cases data with
        | nil => simp at he
        | cons _ _ => simp
      simp only [LZMA2_CHUNK_MAX]
      by_cases hl : data.length < 65536
      · simp only [hl, if_true, List.length_cons, List.length_append, List.take_length, List.drop_length]
        have := ih false (data.drop data.length) (by simp)
        simp only [List.drop_length, List.length_nil] at this
        rw [this]
        omega
      · simp only [hl, if_false, List.length_cons, List.length_append, List.length_take]
        have hd : (data.drop 65536).length ≤ fuel := by simp only [List.length_drop]; omega
        rw [ih false (data.drop 65536) hd]
        simp only [List.length_drop]
        omega

theorem lzma2UncompressedChunks_length (data : List UInt8) :
    (lzma2UncompressedChunks data).length = uncompressedChunksSize data.length := by
  unfold lzma2UncompressedChunks
  rw [lzma2UncompressedChunksAux_length _ _ _ (Nat.le_refl _), uncompressedChunksSize_eq]

theorem vliEncodeSingle_succeeds (v avail : Nat) (h1 : v ≤ VLI_MAX) (h2 : vliSize v ≤ avail) :
    vliEncodeSingle v avail = .ok (vliEncode v) := by
  have hp := vliSize_pos v h1
  have hl := vliEncode_length v h1
  unfold vliEncodeSingle
  rw [if_neg (by omega), if_neg (by omega), if_neg (by omega)]

theorem filterFlagsEncode_lzma2_min (avail : Nat) (h : 3 ≤ avail) :
    filterFlagsEncodeOpts (.lzma2 DICT_SIZE_MIN) avail = .ok [0x21, 0x01, 0x00] := by
  have e1 : vliEncodeSingle (FilterOpts.lzma2 DICT_SIZE_MIN).id avail = .ok [0x21] := by
    show vliEncodeSingle 0x21 avail = _
    rw [vliEncodeSingle_succeeds _ _ (by decide) (by have : vliSize 0x21 = 1 := by decide
                                                     omega)]
    decide
  have e2 : vliEncodeSingle 1 (avail - 1) = .ok [0x01] := by
    rw [vliEncodeSingle_succeeds _ _ (by decide) (by have : vliSize 1 = 1 := by decide
                                                     omega)]
    decide
  have e3 : propsEncode (.lzma2 DICT_SIZE_MIN) = .ok [0x00] := by decide
  have e4 : propsSize (.lzma2 DICT_SIZE_MIN) = .ok 1 := rfl
  unfold filterFlagsEncodeOpts
  rw [if_neg (by decide), e1]
  simp only [e4, List.length_singleton, e2, e3]
  rw [if_neg (by omega)]
  rfl

/-- The Block Header for the uncompressed fall-back (both sizes present, LZMA2 with the minimum dictionary) always
    encodes, and is 12 to 28 bytes long. -/
theorem blockHeaderEncode_uncomp (check n l2 : Nat) (hc : check ≤ 15) (hl0 : l2 ≠ 0) (hl : l2 ≤ 9223372036854774716) (hn : n ≤ l2) :
    ∃ hdr, blockHeaderEncode check (some l2) (some n) [.lzma2 DICT_SIZE_MIN] = .ok hdr ∧ 12 ≤ hdr.length ∧ hdr.length ≤ 28 := by
  have hlv : l2 ≤ VLI_MAX := by simp only [VLI_MAX]; omega
  have hnv : n ≤ VLI_MAX := by omega
  have ha1 := vliSize_pos l2 hlv
  have ha9 := vliSize_le l2
  have hb1 := vliSize_pos n hnv
  have hb9 := vliSize_le n
  have hcs := checkSize_le check hc
  have hff : filterFlagsSize (.lzma2 DICT_SIZE_MIN) = .ok 3 := by decide
  -- header size
  have hsize : blockHeaderSize 0 (some l2) (some n) [.lzma2 DICT_SIZE_MIN]
      = .ok ((1 + 1 + 4 + vliSize l2 + vliSize n + 3 + 3) / 4 * 4) := by
    unfold blockHeaderSize
    rw [if_neg (by omega)]
    have s1 : sizeOptVli true (some l2) = .ok (vliSize l2) := by
      simp only [sizeOptVli]
      rw [if_neg (by omega)]
    have s2 : sizeOptVli false (some n) = .ok (vliSize n) := by
      simp only [sizeOptVli]
      rw [if_neg (by simp; omega)]
    simp [s1, s2, headerSizeFilters, hff, FILTERS_MAX]
  generalize hhs : (1 + 1 + 4 + vliSize l2 + vliSize n + 3 + 3) / 4 * 4 = hs at hsize
  have hhs12 : 12 ≤ hs ∧ hs ≤ 28 ∧ hs % 4 = 0 ∧ 2 + vliSize l2 + vliSize n + 3 ≤ hs - 4 := by omega
  unfold blockHeaderEncode
  rw [hsize]
  simp only
  -- the encoder proper
  have hU : blockUnpaddedSize 0 hs check (some l2) ≠ 0 := by
    unfold blockUnpaddedSize
    have g : ¬ (0 > 1 ∨ hs < BLOCK_HEADER_SIZE_MIN ∨ hs > BLOCK_HEADER_SIZE_MAX ∨ hs % 4 ≠ 0
        ∨ (!vliIsValid (some l2)) = true ∨ some l2 = some 0 ∨ check > CHECK_ID_MAX) := by
      simp only [BLOCK_HEADER_SIZE_MIN, BLOCK_HEADER_SIZE_MAX, CHECK_ID_MAX, vliIsValid, Option.some.injEq]
      simp
      omega
    rw [if_neg g]
    simp only
    rw [if_neg (by simp only [UNPADDED_SIZE_MAX]; omega)]
    omega
  have e1 : encOptVli (some l2) (hs - 4 - 2) = .ok (vliEncode l2) := by
    simp only [encOptVli]; exact vliEncodeSingle_succeeds _ _ hlv (by omega)
  have l1 := vliEncode_length l2 hlv
  have e2 : encOptVli (some n) (hs - 4 - 2 - (vliEncode l2).length) = .ok (vliEncode n) := by
    simp only [encOptVli]; exact vliEncodeSingle_succeeds _ _ hnv (by omega)
  have l2' := vliEncode_length n hnv
  have e3 : headerEncodeFilters [.lzma2 DICT_SIZE_MIN] 0 (hs - 4 - 2 - (vliEncode l2).length - (vliEncode n).length)
      = .ok [0x21, 0x01, 0x00] := by
    simp only [headerEncodeFilters]
    rw [if_neg (by decide), filterFlagsEncode_lzma2_min _ (by omega)]
    simp
  have hres : ∃ hdr, blockHeaderEncodeWith 0 hs check (some l2) (some n) [.lzma2 DICT_SIZE_MIN] = .ok hdr := by
    unfold blockHeaderEncodeWith
    have g : ¬ (blockUnpaddedSize 0 hs check (some l2) = 0 ∨ (!vliIsValid (some n)) = true) := by
      simp only [vliIsValid, not_or]
      exact ⟨hU, by simp; omega⟩
    rw [if_neg g]
    simp only [e1, e2, e3]
    simp
  obtain ⟨hdr, hh⟩ := hres
  refine ⟨hdr, hh, ?_⟩
  have hw : ∀ o ∈ [FilterOpts.lzma2 DICT_SIZE_MIN], o.wf := by
    intro o ho
    simp only [List.mem_singleton] at ho
    subst ho
    simp [FilterOpts.wf, DICT_SIZE_MIN]
  have := (blockHeader_roundtrip 0 hs check (some l2) (some n) _ hdr [] hw hh).1
  omega

theorem checkValue_length (check : Nat) (data cv : List UInt8) (h : checkValue check data = some cv) :
    cv.length = checkSize check ∧ check ≤ 15 ∧ checkSize check % 4 = 0 := by
  unfold checkValue at h
  by_cases h0 : check = 0
  · subst h0; simp at h; subst h; decide
  · rw [if_neg h0] at h
    by_cases h1 : check = 1
    · subst h1; simp at h; subst h; simp [le32, checkSize, checkSizes, CHECK_ID_MAX]
    · rw [if_neg h1] at h
      by_cases h4 : check = 4
      · subst h4; simp at h; subst h; simp [le64, le32, checkSize, checkSizes, CHECK_ID_MAX]
      · rw [if_neg h4] at h; simp at h

/-- With `out_size − out_pos ≥ lzma_block_buffer_bound64(n) ≠ 0` the uncompressed-chunk Block encoder succeeds
    (in particular it never returns LZMA_BUF_ERROR), and the Block it writes is no longer than the bound and a
    multiple of four bytes plus the Check. -/
theorem blockUncompEncode_fits (check : Nat) (data cv : List UInt8) (avail : Nat)
    (hcv : checkValue check data = some cv) (hb : blockBufferBound64 data.length ≠ 0)
    (ha : blockBufferBound64 data.length ≤ avail) :
    ∃ b, blockUncompEncode check data avail = .ok b ∧ b.length ≤ blockBufferBound64 data.length := by
  obtain ⟨hcvlen, hc15, -⟩ := checkValue_length check data cv hcv
  have hcs := checkSize_le check hc15
  have hl0 : lzma2Bound data.length ≠ 0 := fun h => hb ((blockBufferBound64_zero_iff _).2 h)
  have hl2 := (lzma2Bound_spec data.length).2 hl0
  have hle := lzma2Bound_le data.length
  have hn : data.length ≤ lzma2Bound data.length := by rw [hl2, uncompressedChunksSize_eq]; omega
  obtain ⟨hdr, hhdr, h12, h28⟩ := blockHeaderEncode_uncomp check data.length _ hc15 hl0 hle hn
  have hbb : blockBufferBound64 data.length = 92 + (lzma2Bound data.length + 3) / 4 * 4 := by
    rw [blockBufferBound64_eq, if_neg hl0]
  unfold blockUncompEncode
  rw [if_neg (by simp only [CHECK_ID_MAX]; omega)]
  simp only [hcv]
  rw [if_neg (by omega), if_neg hl0]
  simp only [hhdr]
  rw [if_neg (by omega)]
  refine ⟨_, rfl, ?_⟩
  simp only [List.length_append, List.length_replicate, lzma2UncompressedChunks_length, hcvlen, ← hl2]
  omega

/-- Every field of the Block `lzma_block_uncomp_encode` writes is truthful: the header decodes to Compressed Size =
    the real length of the LZMA2 data that follows, Uncompressed Size = the input length, the single filter LZMA2 with
    the minimum dictionary; then come the chunks, 0–3 zero bytes up to a multiple of four, and the Check of the input. -/
theorem blockUncompEncode_valid (check : Nat) (data b : List UInt8) (avail : Nat)
    (h : blockUncompEncode check data avail = .ok b) :
    ∃ hdr cv, checkValue check data = some cv ∧
      b = hdr ++ lzma2UncompressedChunks data ++ List.replicate ((4 - (lzma2UncompressedChunks data).length % 4) % 4) (0 : UInt8) ++ cv ∧
      hdr.length = ((hdr.getD 0 0).toNat + 1) * 4 ∧
      (∀ t, blockHeaderDecode check (hdr ++ t) = .ok { compressedSize := some (lzma2UncompressedChunks data).length,
                                                         uncompressedSize := some data.length,
                                                         filters := [⟨FILTER_LZMA2, [0x00]⟩] }) ∧
      b.length ≤ avail := by
  unfold blockUncompEncode at h
  by_cases g1 : check > CHECK_ID_MAX
  · rw [if_pos g1] at h; simp at h
  · rw [if_neg g1] at h
    cases hcv : checkValue check data with
    | none => simp [hcv] at h
    | some cv =>
      simp only [hcv] at h
      obtain ⟨hcvlen, -, hcs4⟩ := checkValue_length check data cv hcv
      by_cases g2 : avail - avail % 4 ≤ checkSize check
      · rw [if_pos g2] at h; simp at h
      · rw [if_neg g2] at h
        by_cases g3 : lzma2Bound data.length = 0
        · rw [if_pos g3] at h; simp at h
        · rw [if_neg g3] at h
          have hl2 := (lzma2Bound_spec data.length).2 g3
          have hclen := lzma2UncompressedChunks_length data
          cases hh : blockHeaderEncode check (some (lzma2Bound data.length)) (some data.length) [.lzma2 DICT_SIZE_MIN] with
          | error e => simp [hh] at h
          | ok hdr =>
            simp only [hh] at h
            by_cases g4 : avail - avail % 4 - checkSize check < hdr.length + lzma2Bound data.length
            · rw [if_pos g4] at h; simp at h
            · rw [if_neg g4] at h
              simp only [Except.ok.injEq] at h
              have hw : ∀ o ∈ [FilterOpts.lzma2 DICT_SIZE_MIN], o.wf := by
                intro o ho
                simp only [List.mem_singleton] at ho
                subst ho
                simp [FilterOpts.wf, DICT_SIZE_MIN]
              -- the header was produced by size + encode
              unfold blockHeaderEncode at hh
              cases hsz : blockHeaderSize 0 (some (lzma2Bound data.length)) (some data.length) [.lzma2 DICT_SIZE_MIN] with
              | error e => simp [hsz] at hh
              | ok hs =>
                simp only [hsz] at hh
                have hrt := fun t => blockHeader_roundtrip 0 hs check _ _ _ hdr t hw hh
                obtain ⟨hlen, hs4, -, -, hb0, -⟩ := hrt []
                refine ⟨hdr, cv, rfl, ?_, by rw [hb0, hlen], ?_, ?_⟩
                · rw [← h, hclen, ← hl2]
                · intro t
                  obtain ⟨-, -, -, -, -, raws, hfa, hdec⟩ := hrt t
                  rw [hdec, hclen, ← hl2]
                  -- the only filter is LZMA2 with properties byte 0
                  cases hfa with
                  | cons hm hrest =>
                    cases hrest
                    obtain ⟨hid, hpe, -⟩ := hm
                    rename_i r
                    have hp : propsEncode (.lzma2 DICT_SIZE_MIN) = .ok [0x00] := by decide
                    rw [hp] at hpe
                    simp only [Except.ok.injEq] at hpe
                    cases r
                    simp only [FilterOpts.id] at hid
                    simp_all
                · rw [← h]
                  simp only [List.length_append, List.length_replicate, hclen, hcvlen, ← hl2]
                  omega

end XzVerif.Container
