/-
  Frame facts of the LZMA symbol decoder (Model/Lzma.lean): a symbol decode up to its output step only moves the input
  cursor forward (within the input) and changes range-coder/probability/state/rep fields; it returns an output step.
-/
import XzVerif.Lemmas.C03Hoare
namespace XzVerif.Lzma
open XzVerif.RangeDec XzVerif.LzDict

/-- the output steps a symbol decode can ask for -/
def IsWrite : Pending → Prop
  | .litWrite _ => True
  | .shortRep => True
  | .copy len => 2 ≤ len
  | _ => False

theorem fr_fieldsOnly (s : St) (state rep0 rep1 rep2 rep3 : Nat) (ev : Bool) :
    Fr s { s with state := state, rep0 := rep0, rep1 := rep1, rep2 := rep2, rep3 := rep3, eopmValid := ev } := by
  constructor
  · rfl
  · exact Nat.le_refl _
  · exact id
  · rfl
  · rfl
  · rfl
  · rfl
  · rfl
  · rfl
  · exact ⟨rfl, rfl, rfl⟩

theorem sat_decodeSymbol (eopmValid : Bool) : Sat (decodeSymbol eopmValid) IsWrite := by
  unfold decodeSymbol
  refine Sat.bind (Sat.read _ (Q := fun _ => True) (fun _ => trivial)) (fun t _ => ?_)
  obtain ⟨state, posState, full⟩ := t
  simp only []
  refine Sat.bind (sat_rcBit _) (fun isMatch _ => ?_)
  split
  · -- literal
    refine Sat.bind (Sat.read _ (Q := fun _ => True) (fun _ => trivial)) (fun base _ => ?_)
    split
    · refine Sat.bind (Sat.modify _ (fun s => fr_fieldsOnly s _ _ _ _ _ _)) (fun _ _ => ?_)
      exact Sat.bind (sat_bittree _ _ _) (fun sym _ => Sat.pure _ trivial)
    · refine Sat.bind (Sat.modify _ (fun s => fr_fieldsOnly s _ _ _ _ _ _)) (fun _ _ => ?_)
      refine Sat.bind (Sat.read _ (Q := fun _ => True) (fun _ => trivial)) (fun mb _ => ?_)
      exact Sat.bind (sat_litMatched _ _ _ _ _) (fun sym _ => Sat.pure _ trivial)
  · refine Sat.bind (sat_rcBit _) (fun isRep _ => ?_)
    split
    · -- simple match
      refine Sat.bind (Sat.modify _ (fun s => fr_fieldsOnly s _ _ _ _ _ _)) (fun _ _ => ?_)
      refine Sat.bind (sat_lenDecode _ _) (fun len hlen => ?_)
      refine Sat.bind (sat_distDecode _) (fun d _ => ?_)
      refine Sat.bind (Sat.modify _ (fun s => fr_fieldsOnly s _ _ _ _ _ _)) (fun _ _ => ?_)
      split
      · have hrest : Sat (do
              rcNormalize
              let fin ← (fun s : St => EStateM.Result.ok (s.code == 0) s)
              if fin then throw .streamEnd else throw .dataError : M Pending) IsWrite := by
          refine Sat.bind sat_rcNormalize (fun _ _ => ?_)
          refine Sat.bind (Sat.read _ (Q := fun _ => True) (fun _ => trivial)) (fun fin _ => ?_)
          split
          · exact Sat.throw _ (by decide)
          · exact Sat.throw _ (by decide)
        split
        · exact Sat.bind (P := fun _ => True) (Sat.throw _ (by decide)) (fun _ _ => hrest)
        · exact hrest
      · split
        · exact Sat.throw _ (by decide)
        · exact Sat.pure _ hlen
    · -- repeated match
      split
      · exact Sat.throw _ (by decide)
      · refine Sat.bind (sat_rcBit _) (fun isRep0 _ => ?_)
        refine Sat.bind (P := fun _ => True) ?_ (fun isShort _ => ?_)
        · split
          · exact Sat.bind (sat_rcBit _) (fun isLong _ => Sat.pure (Q := fun _ => True) _ trivial)
          · refine Sat.bind (sat_rcBit _) (fun isRep1 _ => ?_)
            have hm : ∀ f : St → St, (∀ s, Fr s (f s)) → Sat (do modify f; pure false : M Bool) (fun _ => True) :=
              fun f hf => Sat.bind (Sat.modify f hf) (fun _ _ => Sat.pure (Q := fun _ => True) _ trivial)
            split
            · exact hm _ (fun s => fr_fieldsOnly s _ _ _ _ _ _)
            · refine Sat.bind (sat_rcBit _) (fun isRep2 _ => ?_)
              split
              · exact hm _ (fun s => fr_fieldsOnly s _ _ _ _ _ _)
              · exact hm _ (fun s => fr_fieldsOnly s _ _ _ _ _ _)
        · split
          · exact Sat.bind (Sat.modify _ (fun s => fr_fieldsOnly s _ _ _ _ _ _)) (fun _ _ => Sat.pure _ trivial)
          · refine Sat.bind (Sat.modify _ (fun s => fr_fieldsOnly s _ _ _ _ _ _)) (fun _ _ => ?_)
            exact Sat.bind (sat_lenDecode _ _) (fun len hlen => Sat.pure _ hlen)

theorem sat_symPrelude (ev mf : Bool) : Sat (symPrelude ev mf) (fun _ => True) := by
  unfold symPrelude
  refine Sat.bind (Sat.read _ (Q := fun _ => True) (fun _ => trivial)) (fun atLimit _ => ?_)
  split
  · refine Sat.bind sat_rcNormalize (fun _ _ => ?_)
    refine Sat.bind (Sat.read _ (Q := fun _ => True) (fun _ => trivial)) (fun t _ => ?_)
    obtain ⟨fin, allow⟩ := t
    simp only []
    split
    · exact Sat.throw _ (by decide)
    · split
      · exact Sat.throw _ (by decide)
      · exact Sat.bind (Sat.modify _ (fun s => fr_fieldsOnly s _ _ _ _ _ _)) (fun _ _ => Sat.pure _ trivial)
  · exact Sat.pure _ trivial

end XzVerif.Lzma
