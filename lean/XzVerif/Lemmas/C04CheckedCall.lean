/-
  The checked main loop and ONE CHECKED CALL of `lzma_decode` (Lemmas/C04Checked.lean `lzmaCallC`) agree with the executable
  ones (`lzmaCall`) and never report an out-of-bounds access, from every state that satisfies the access invariant

    Live s :=  ProbsOk s   probability array of size `probsSize lc lp`, lc + lp ≤ 4, pb ≤ 4, state < 12
             ∧ HistOk s    dict.full ≤ bytes in the history
             ∧ RepsOk s    rep-register invariant (Lemmas/C03Reps.lean)
             ∧ PosInv s.dp dictionary position invariant (Lemmas/C03Dict.lean)
    PendOk s :=  a pending SEQ_SHORTREP / SEQ_COPY has `rep0 < dict.full`, a pending SEQ_COPY has `len ≤ MATCH_LEN_MAX`

  and the invariant holds again after the call whenever decoding can continue from the resulting state (the state is not
  "stuck", and the call did not end with an accepted end-of-payload marker, which leaves `rep0 = UINT32_MAX`).
-/
import XzVerif.Lemmas.C04CheckedSym
import XzVerif.Lemmas.C03RepsCall

namespace XzVerif.Lzma
open XzVerif.RangeDec XzVerif.LzDict

/-- what the probability indices need -/
structure ProbsOk (s : St) : Prop where
  size : s.probs.size = probsSize s.lc s.lp
  lclp : s.lc + s.lp ≤ 4
  pb : s.pb ≤ 4
  state : s.state < 12

/-- every valid distance is inside the model's history -/
def HistOk (s : St) : Prop := s.dp.full ≤ s.hist.size

structure Live (s : St) : Prop where
  probs : ProbsOk s
  hist : HistOk s
  reps : RepsOk s
  pos : PosInv s.dp

/-- what an output step needs: a valid distance if it uses `rep0`, and a copy length within `MATCH_LEN_MAX` -/
def WriteOk (p : Pending) (s : St) : Prop := (usesRep0 p → s.rep0 < s.dp.full) ∧ CopyLen p

/-- the pending output step of a state is in order -/
def PendOk (s : St) : Prop := WriteOk s.pending s

theorem ProbsOk.congr {s t : St} (h : ProbsOk s) (e1 : t.probs.size = s.probs.size) (e2 : t.lc = s.lc) (e3 : t.lp = s.lp)
    (e4 : t.pb = s.pb) (e5 : t.state = s.state) : ProbsOk t :=
  ⟨by rw [e1, e2, e3]; exact h.size, by rw [e2, e3]; exact h.lclp, by rw [e4]; exact h.pb, by rw [e5]; exact h.state⟩

/-- `Live` only reads these fields -/
theorem Live.congr {s t : St} (h : Live s) (e1 : t.probs.size = s.probs.size) (e2 : t.lc = s.lc) (e3 : t.lp = s.lp)
    (e4 : t.pb = s.pb) (e5 : t.state = s.state) (r0 : t.rep0 = s.rep0) (r1 : t.rep1 = s.rep1) (r2 : t.rep2 = s.rep2)
    (r3 : t.rep3 = s.rep3) (ed : t.dp = s.dp) (eh : t.hist.size = s.hist.size) : Live t :=
  ⟨h.probs.congr e1 e2 e3 e4 e5, by unfold HistOk; rw [ed, eh]; exact h.hist,
   repsOk_congr h.reps (by rw [ed]) e5 r0 r1 r2 r3, by rw [ed]; exact h.pos⟩

theorem Live.of_fc {s t : St} (h : Live s) (hf : Fc s t) (hp : t.probs = s.probs) : Live t :=
  h.congr (by rw [hp]) hf.lclppb.1 hf.lclppb.2.1 hf.lclppb.2.2 hf.core.1 hf.core.2.1 hf.core.2.2.1 hf.core.2.2.2.1
    hf.core.2.2.2.2 hf.dp (by rw [hf.hist])

/-! ### one symbol -/

theorem decodeSymbol_acc (ev : Bool) (s : St) (h : Live s) :
    decodeSymbolC ev s = liftR (decodeSymbol ev s)
    ∧ ∀ act s', decodeSymbol ev s = .ok act s' → Live s' ∧ WriteOk act s' ∧ s'.allowEopm = s.allowEopm := by
  have hsim := sim_decodeSymbol ev ⟨s.probs.size, s.lc, s.lp, s.dp, s.hist.size⟩ s.state s.rep0 s.pb
    h.probs.size h.probs.lclp h.probs.pb h.probs.state h.pos h.hist (fun h7 => (ROv.lt h.reps (h.reps.1 h7)).1)
    s ⟨⟨rfl, rfl, rfl, rfl, rfl⟩, rfl, rfl, rfl⟩
  refine ⟨hsim.1, fun act s' e => ?_⟩
  obtain ⟨⟨⟨k1, k2, k3, _, k5⟩, kst⟩, kl⟩ := hsim.2 act s' e
  have hfr := (sat_decodeSymbol ev s).1
  rw [e] at hfr
  have hfr' : Fr s s' := hfr
  have hro := decodeSymbol_repsOk ev s act s' h.reps e
  have k1' : s'.probs.size = s.probs.size := k1
  have k2' : s'.lc = s.lc := k2
  have k3' : s'.lp = s.lp := k3
  have k5' : s'.hist.size = s.hist.size := k5
  refine ⟨⟨⟨?_, ?_, ?_, kst⟩, ?_, hro.1, ?_⟩, ⟨hro.2.2, kl⟩, hfr'.allowEopm⟩
  · rw [k1', k2', k3']; exact h.probs.size
  · rw [k2', k3']; exact h.probs.lclp
  · rw [hfr'.lclppb.2.2]; exact h.probs.pb
  · unfold HistOk; rw [hro.2.1, k5']; exact h.hist
  · rw [hro.2.1]; exact h.pos

/-! ### the top of the loop -/

theorem symPrelude_eq (ev mf : Bool) (s : St) :
    symPrelude ev mf s =
      if (mf && (s.dp.pos == s.dp.limit)) = true then
        match rcNormalize s with
        | .error e s1 => .error e s1
        | .ok _ s1 =>
          if (s1.code == 0) = true then .error .streamEnd s1
          else if (!s1.allowEopm) = true then .error .dataError s1
          else .ok true { s1 with eopmValid := true }
      else .ok ev s := by
  unfold symPrelude
  show EStateM.bind _ _ s = _
  unfold EStateM.bind
  simp only []
  split
  · show EStateM.bind _ _ s = _
    unfold EStateM.bind
    cases rcNormalize s with
    | error e s1 => rfl
    | ok u s1 =>
      simp only []
      show EStateM.bind _ _ s1 = _
      unfold EStateM.bind
      simp only []
      split
      · rfl
      · split
        · rfl
        · rfl
  · rfl

/-- the top of the loop keeps `Live` on every way out and changes `allow_eopm` never; when `allow_eopm` is false it
    hands `eopm_is_valid` through -/
theorem symPrelude_acc (ev mf : Bool) (s : St) (h : Live s) :
    Live (resSt (symPrelude ev mf s)) ∧ (resSt (symPrelude ev mf s)).allowEopm = s.allowEopm
    ∧ (∀ a s', symPrelude ev mf s = .ok a s' → s.allowEopm = false → a = ev) := by
  rw [symPrelude_eq]
  split
  · have hf := (satc_rcNormalize s).1
    have hp := rcNormalize_probs s
    cases hn : rcNormalize s with
    | error e s1 =>
      rw [hn] at hf hp
      have hf' : Fc s s1 := hf
      exact ⟨h.of_fc hf' hp, hf'.allowEopm, fun a s' e' => by cases e'⟩
    | ok u s1 =>
      rw [hn] at hf hp
      have hf' : Fc s s1 := hf
      have hp' : s1.probs = s.probs := hp
      have hl1 : Live s1 := h.of_fc hf' hp'
      simp only []
      split
      · exact ⟨hl1, hf'.allowEopm, fun a s' e' => by cases e'⟩
      · split
        · exact ⟨hl1, hf'.allowEopm, fun a s' e' => by cases e'⟩
        · next hna =>
          refine ⟨hl1.congr rfl rfl rfl rfl rfl rfl rfl rfl rfl rfl rfl, hf'.allowEopm, fun a s' _ hfalse => ?_⟩
          rw [hf'.allowEopm, hfalse] at hna
          simp at hna
  · refine ⟨h, rfl, fun a s' e' _ => ?_⟩
    injection e' with e1 _
    exact e1.symm

/-! ### the output step -/

theorem full_le_advance {p : DictPos} (hp : PosInv p) (n : Nat) : p.full ≤ (p.advance n).full := by
  unfold DictPos.advance
  simp only []
  cases hb : p.hasWrapped
  · have := (hp.not_wrapped hb).2
    simp only [LZ_DICT_INIT_POS] at this ⊢
    simp; omega
  · simp

theorem full_advance_le {p : DictPos} (hp : PosInv p) (n : Nat) : (p.advance n).full ≤ p.full + n := by
  unfold DictPos.advance
  simp only []
  cases hb : p.hasWrapped
  · have := hp.not_wrapped hb
    simp only [LZ_DICT_INIT_POS] at this ⊢
    simp; omega
  · simp

/-- a state that differs from a live one by an advance of the dictionary within the limit, with as many bytes appended
    to the history, is live -/
theorem live_advance {s t : St} (n : Nat) (h : Live s) (hn : n ≤ s.dp.avail)
    (e1 : t.state = s.state) (e2 : t.rep0 = s.rep0) (e3 : t.rep1 = s.rep1) (e4 : t.rep2 = s.rep2) (e5 : t.rep3 = s.rep3)
    (e6 : t.dp = s.dp.advance n) (e7 : t.probs = s.probs) (e8 : t.lc = s.lc) (e9 : t.lp = s.lp) (e10 : t.pb = s.pb)
    (e11 : t.hist.size = s.hist.size + n) : Live t ∧ s.dp.full ≤ t.dp.full := by
  have ha := advance_inv n h.reps h.pos hn e1 e2 e3 e4 e5 e6
  refine ⟨⟨h.probs.congr (by rw [e7]) e8 e9 e10 e1, ?_, ha.1, ha.2⟩, by rw [e6]; exact full_le_advance h.pos n⟩
  unfold HistOk
  rw [e6, e11]
  have := full_advance_le h.pos n
  have := h.hist
  unfold HistOk at this
  omega

theorem doWrite_acc (p : Pending) (s : St) (h : Live s) (hw : WriteOk p s) :
    doWriteC p s = liftR (doWrite p s)
    ∧ Live (resSt (doWrite p s)) ∧ (resSt (doWrite p s)).rep0 = s.rep0 ∧ s.dp.full ≤ (resSt (doWrite p s)).dp.full
    ∧ (resSt (doWrite p s)).allowEopm = s.allowEopm
    ∧ (∀ p' s', doWrite p s = .error (.outFull p') s' → (usesRep0 p' → usesRep0 p) ∧ CopyLen p') := by
  refine ⟨doWriteC_eq p s h.pos h.hist hw.1 hw.2, ?_⟩
  have one : s.dp.pos ≠ s.dp.limit → 1 ≤ s.dp.avail := by
    intro hne
    unfold DictPos.avail
    have := h.pos.pos_le_limit
    omega
  unfold doWrite
  cases p with
  | none => exact ⟨h, rfl, Nat.le_refl _, rfl, fun p' s' e => by cases e⟩
  | stuck => exact ⟨h, rfl, Nat.le_refl _, rfl, fun p' s' e => by cases e⟩
  | litWrite sym =>
    simp only []
    split
    · refine ⟨h, rfl, Nat.le_refl _, rfl, fun p' s' e => ?_⟩
      injection e with e1 _
      injection e1 with e1
      rw [← e1]; exact ⟨id, trivial⟩
    · next hne =>
      have hne' : s.dp.pos ≠ s.dp.limit := by simpa using hne
      have := live_advance (t := s.put (UInt8.ofNat sym)) 1 h (one hne') rfl rfl rfl rfl rfl rfl rfl rfl rfl rfl
        (by simp [St.put, ByteArray.size_push])
      exact ⟨this.1, rfl, this.2, rfl, fun p' s' e => by cases e⟩
  | shortRep =>
    simp only []
    split
    · refine ⟨h, rfl, Nat.le_refl _, rfl, fun p' s' e => ?_⟩
      injection e with e1 _
      injection e1 with e1
      rw [← e1]; exact ⟨id, trivial⟩
    · next hne =>
      have hne' : s.dp.pos ≠ s.dp.limit := by simpa using hne
      have := live_advance (t := s.put (s.dictGet s.rep0)) 1 h (one hne') rfl rfl rfl rfl rfl rfl rfl rfl rfl rfl
        (by simp [St.put, ByteArray.size_push])
      exact ⟨this.1, rfl, this.2, rfl, fun p' s' e => by cases e⟩
  | copy len =>
    simp only []
    have := live_advance (t := s.repeatN (s.dp.repeatLeft len)) (s.dp.repeatLeft len) h
      (by unfold DictPos.repeatLeft; exact Nat.min_le_left _ _) rfl rfl rfl rfl rfl rfl rfl rfl rfl rfl
      (by simp [St.repeatN, copyBytes_size])
    have hlen : len ≤ LzDict.MATCH_LEN_MAX := hw.2
    split
    · refine ⟨this.1, rfl, this.2, rfl, fun p' s' e => ⟨fun _ => trivial, ?_⟩⟩
      injection e with e1 _
      injection e1 with e1
      rw [← e1]
      show len - s.dp.repeatLeft len ≤ LzDict.MATCH_LEN_MAX
      omega
    · exact ⟨this.1, rfl, this.2, rfl, fun p' s' e => by cases e⟩

/-! ### the main loop -/

/-- what a run guarantees about the state it ends in, per way out. `N` = "the end-of-payload marker is excluded". -/
def StepPost {α : Type} (N : Prop) : EStateM.Result Exit St α → Prop
  | .ok _ s' => Live s'
  | .error (.outFull p) s' => Live s' ∧ WriteOk p s'
  | .error .streamEnd s' => N → Live s'
  | _ => True

theorem StepPost.error_cast {α β : Type} {N : Prop} {e : Exit} {s : St}
    (h : StepPost N (.error e s : EStateM.Result Exit St α)) : StepPost N (.error e s : EStateM.Result Exit St β) := by
  cases e <;> exact h

theorem symStep_acc (ev mf : Bool) (s : St) (h : Live s) :
    symStepC ev mf s = liftR (symStep ev mf s)
    ∧ StepPost (ev = false ∧ s.allowEopm = false) (symStep ev mf s)
    ∧ (∀ a s', symStep ev mf s = .ok a s' → s'.allowEopm = s.allowEopm ∧ (s.allowEopm = false → a = ev))
    ∧ HistOk (resSt (symStep ev mf s)) := by
  have hpre := symPrelude_acc ev mf s h
  show EStateM.bind (liftM (symPrelude ev mf)) _ s = liftR (EStateM.bind (symPrelude ev mf) _ s)
    ∧ StepPost _ (EStateM.bind (symPrelude ev mf) _ s)
    ∧ (∀ a s', EStateM.bind (symPrelude ev mf) _ s = .ok a s' → _)
    ∧ HistOk (resSt (EStateM.bind (symPrelude ev mf) _ s))
  unfold EStateM.bind
  simp only [liftM]
  cases h1 : symPrelude ev mf s with
  | error e s1 =>
    rw [h1] at hpre
    simp only [liftR]
    refine ⟨trivial, ?_, (fun a s' e' => by cases e'), hpre.1.hist⟩
    cases e with
    | outFull p =>
      -- the top of the loop never exits with `outFull`
      exfalso
      rw [symPrelude_eq] at h1
      split at h1
      · cases hn : rcNormalize s with
        | error e2 s2 =>
          rw [hn] at h1
          simp only [] at h1
          injection h1 with h1 _
          have := (satc_rcNormalize s).2.2 _ _ hn
          rw [h1] at this; cases this
        | ok u s2 =>
          rw [hn] at h1
          simp only [] at h1
          split at h1
          · cases h1
          · split at h1 <;> cases h1
      · cases h1
    | streamEnd => exact fun _ => hpre.1
    | needInput => trivial
    | dataError => trivial
    | fuel => trivial
  | ok ev' s1 =>
    rw [h1] at hpre
    have hl1 : Live s1 := hpre.1
    have ha1 : s1.allowEopm = s.allowEopm := hpre.2.1
    have hev : s.allowEopm = false → ev' = ev := hpre.2.2 ev' s1 rfl
    simp only [liftR]
    have hd := decodeSymbol_acc ev' s1 hl1
    have hfe := sate_decodeSymbol ev' s1
    have hfr := (sat_decodeSymbol ev' s1).1
    show EStateM.bind (decodeSymbolC ev') _ s1 = liftR (EStateM.bind (decodeSymbol ev') _ s1)
      ∧ StepPost _ (EStateM.bind (decodeSymbol ev') _ s1)
      ∧ (∀ a s', EStateM.bind (decodeSymbol ev') _ s1 = .ok a s' → _)
      ∧ HistOk (resSt (EStateM.bind (decodeSymbol ev') _ s1))
    unfold EStateM.bind
    rw [hd.1]
    cases h2 : decodeSymbol ev' s1 with
    | error e s2 =>
      rw [h2] at hfe hfr
      simp only [liftR]
      have hfr' : Fr s1 s2 := hfr
      have hh2 : HistOk s2 := by unfold HistOk; rw [hfr'.dp, hfr'.hist]; exact hl1.hist
      refine ⟨trivial, ?_, (fun a s' e' => by cases e'), hh2⟩
      rcases hfe.2 e s2 rfl with he | he | ⟨he, hev'⟩
      · subst he; trivial
      · subst he; trivial
      · subst he
        intro hN
        have := hev hN.2
        rw [this, hN.1] at hev'
        cases hev'
    | ok act s2 =>
      obtain ⟨hl2, hr2, ha2⟩ := hd.2 act s2 h2
      simp only [liftR]
      have hw := doWrite_acc act s2 hl2 hr2
      show EStateM.bind (doWriteC act) _ s2 = liftR (EStateM.bind (doWrite act) _ s2)
        ∧ StepPost _ (EStateM.bind (doWrite act) _ s2)
        ∧ (∀ a s', EStateM.bind (doWrite act) _ s2 = .ok a s' → _)
        ∧ HistOk (resSt (EStateM.bind (doWrite act) _ s2))
      unfold EStateM.bind
      rw [hw.1]
      cases h3 : doWrite act s2 with
      | error e s3 =>
        rw [h3] at hw
        simp only [liftR]
        have hl3 : Live s3 := hw.2.1
        refine ⟨trivial, ?_, (fun a s' e' => by cases e'), hl3.hist⟩
        cases e with
        | outFull p =>
          have hpp := hw.2.2.2.2.2 p s3 rfl
          refine ⟨hl3, fun hu => ?_, hpp.2⟩
          have h0 : s3.rep0 = s2.rep0 := hw.2.2.1
          have hF : s2.dp.full ≤ s3.dp.full := hw.2.2.2.1
          have := hr2.1 (hpp.1 hu)
          rw [h0]; omega
        | streamEnd => exact fun _ => hl3
        | needInput => trivial
        | dataError => trivial
        | fuel => trivial
      | ok u s3 =>
        rw [h3] at hw
        simp only [liftR]
        have hl3 : Live s3 := hw.2.1
        have ha3 : s3.allowEopm = s2.allowEopm := hw.2.2.2.2.1
        refine ⟨rfl, hl3, fun a s' e' => ?_, hl3.hist⟩
        have : (EStateM.Result.ok ev' s3 : EStateM.Result Exit St Bool) = .ok a s' := e'
        injection this with e1 e2
        subst e1; subst e2
        exact ⟨by rw [ha3, ha2, ha1], hev⟩

theorem symLoop_acc (mf : Bool) : ∀ (fuel : Nat) (ev : Bool) (s : St), Live s →
    symLoopC fuel ev mf s = liftR (symLoop fuel ev mf s)
    ∧ StepPost (ev = false ∧ s.allowEopm = false) (symLoop fuel ev mf s)
    ∧ HistOk (resSt (symLoop fuel ev mf s))
  | 0, ev, s, h => ⟨rfl, trivial, h.hist⟩
  | fuel + 1, ev, s, h => by
    unfold symLoopC symLoop
    have hs := symStep_acc ev mf s h
    show EStateM.bind (symStepC ev mf) _ s = liftR (EStateM.bind (symStep ev mf) _ s)
      ∧ StepPost _ (EStateM.bind (symStep ev mf) _ s)
      ∧ HistOk (resSt (EStateM.bind (symStep ev mf) _ s))
    unfold EStateM.bind
    rw [hs.1]
    cases h1 : symStep ev mf s with
    | error e s1 =>
      rw [h1] at hs
      simp only [liftR]
      exact ⟨trivial, hs.2.1.error_cast, hs.2.2.2⟩
    | ok ev' s1 =>
      rw [h1] at hs
      simp only [liftR]
      have hl1 : Live s1 := hs.2.1
      obtain ⟨ha1, hev⟩ := hs.2.2.1 ev' s1 rfl
      have ih := symLoop_acc mf fuel ev' s1 hl1
      refine ⟨ih.1, ?_, ih.2.2⟩
      replace ih := ih.2.1
      -- transport the "no end marker" condition
      generalize symLoop fuel ev' mf s1 = r at ih
      cases r with
      | ok a s2 => exact ih
      | error e s2 =>
        cases e with
        | streamEnd =>
          intro hN
          exact ih ⟨by rw [hev hN.2]; exact hN.1, by rw [ha1]; exact hN.2⟩
        | outFull p => exact ih
        | needInput => trivial
        | dataError => trivial
        | fuel => trivial

/-! ### one call of `lzma_decode` -/

theorem rcReadInitN_probs : ∀ n s, (resSt (rcReadInitN n s)).probs = s.probs
  | 0, _ => rfl
  | n + 1, s => by
    unfold rcReadInitN
    split
    · dsimp only
      split
      · rfl
      · rw [rcReadInitN_probs n _]
    · rfl

/-- the access invariant between calls of `lzma_decode`: no symbol will ever be decoded from this state again, or the
    state is live and a pending output step has a valid distance -/
def AccSt (s : St) : Prop := s.pending = .stuck ∨ (Live s ∧ PendOk s)

theorem lzmaRun_acc (s : St) (h : Live s) (hp : PendOk s) :
    lzmaRunC s = liftR (lzmaRun s)
    ∧ StepPost ((s.uncomp.isNone || s.eopmValid) = false ∧ s.allowEopm = false) (lzmaRun s)
    ∧ HistOk (resSt (lzmaRun s)) := by
  have hcl := clampedLimit_bounds s h.pos.pos_le_limit
  unfold lzmaRunC lzmaRun
  simp only []
  generalize hs1 : ({ s with dp := { s.dp with limit := clampedLimit s }, pending := .none } : St) = s1
  have l1 : Live s1 := by
    rw [← hs1]
    refine ⟨h.probs.congr rfl rfl rfl rfl rfl, h.hist, repsOk_congr h.reps rfl rfl rfl rfl rfl rfl, ?_⟩
    exact posInv_limit h.pos _ hcl.1 (Nat.le_trans hcl.2 h.pos.limit_le_size)
  have hr1 : WriteOk s.pending s1 := by rw [← hs1]; exact hp
  have a1 : s1.allowEopm = s.allowEopm := by rw [← hs1]
  have hw := doWrite_acc s.pending s1 l1 hr1
  show EStateM.bind (doWriteC s.pending) _ s1 = liftR (EStateM.bind (doWrite s.pending) _ s1)
    ∧ StepPost _ (EStateM.bind (doWrite s.pending) _ s1)
    ∧ HistOk (resSt (EStateM.bind (doWrite s.pending) _ s1))
  unfold EStateM.bind
  rw [hw.1]
  cases h1 : doWrite s.pending s1 with
  | error e s2 =>
    rw [h1] at hw
    simp only [liftR]
    have hl2 : Live s2 := hw.2.1
    refine ⟨trivial, ?_, hl2.hist⟩
    cases e with
    | outFull p =>
      have hpp := hw.2.2.2.2.2 p s2 rfl
      refine ⟨hl2, fun hu => ?_, hpp.2⟩
      have h0 : s2.rep0 = s1.rep0 := hw.2.2.1
      have hF : s1.dp.full ≤ s2.dp.full := hw.2.2.2.1
      have := hr1.1 (hpp.1 hu)
      rw [h0]; omega
    | streamEnd => exact fun _ => hl2
    | needInput => trivial
    | dataError => trivial
    | fuel => trivial
  | ok u s2 =>
    rw [h1] at hw
    simp only [liftR]
    have hl2 : Live s2 := hw.2.1
    have a2 : s2.allowEopm = s1.allowEopm := hw.2.2.2.2.1
    have ih := symLoop_acc (mightFinish s) (clampedLimit s - s.dp.pos + 2) (s.uncomp.isNone || s.eopmValid) s2 hl2
    refine ⟨ih.1, ?_, ih.2.2⟩
    rw [a2, a1] at ih
    exact ih.2.1

/-- the state after the epilogue of `lzma_decode` is live when the state the run ended in is, given the caller's limit -/
theorem lzmaFinish_live (r : EStateM.Result Exit St Unit) (cl st : Nat) (u : Option Nat) (h : Live (resSt r))
    (h1 : (resSt r).dp.pos ≤ cl) (h2 : cl ≤ (resSt r).dp.size) : Live (lzmaFinish r cl st u).2 := by
  obtain ⟨f1, f2, f3, f4, f5, f6, _, _, _⟩ := lzmaFinish_fields r cl st u
  have fs := lzmaFinish_state r cl st u
  have fp : (lzmaFinish r cl st u).2.probs = (resSt r).probs ∧ (lzmaFinish r cl st u).2.lc = (resSt r).lc
      ∧ (lzmaFinish r cl st u).2.lp = (resSt r).lp ∧ (lzmaFinish r cl st u).2.pb = (resSt r).pb := by
    unfold lzmaFinish; exact ⟨rfl, rfl, rfl, rfl⟩
  refine ⟨h.probs.congr (by rw [fp.1]) fp.2.1 fp.2.2.1 fp.2.2.2 f1, ?_, repsOk_congr h.reps (by rw [f6]) f1 f2 f3 f4 f5, ?_⟩
  · unfold HistOk; rw [f6, fs.2.2.2.2.1]; exact h.hist
  · rw [f6]; exact posInv_limit h.pos _ h1 h2

/-- ONE CALL of `lzma_decode` from a state satisfying the access invariant: the checked call is the executable call
    (no access out of bounds), and the invariant holds afterwards unless the call returned LZMA_STREAM_END; in the LZMA2
    chunk configuration (`NoEopm`: no end marker possible) it holds in every case. -/
theorem lzmaCall_acc (s : St) (h : AccSt s) :
    lzmaCallC s = some (lzmaCall s)
    ∧ ((lzmaCall s).1 ≠ .streamEnd → AccSt (lzmaCall s).2)
    ∧ (NoEopm s → AccSt (lzmaCall s).2)
    ∧ (HistOk s → HistOk (lzmaCall s).2) := by
  unfold lzmaCallC lzmaCall
  split
  · exact ⟨rfl, fun _ => h, fun _ => h, id⟩
  · next hns =>
    have hns' : s.pending ≠ .stuck := by simpa using hns
    obtain ⟨hl, hpd⟩ : Live s ∧ PendOk s := by
      rcases h with h | h
      · exact absurd h hns'
      · exact h
    have hfc := fc_rcReadInitN s.initLeft s
    have hpr := rcReadInitN_probs s.initLeft s
    unfold rcReadInit
    cases hri : rcReadInitN s.initLeft s with
    | error e s0 =>
      rw [hri] at hfc hpr
      have hfc0 : Fc s s0 := hfc
      simp only []
      have acc0 : AccSt s0 := by
        right
        refine ⟨hl.of_fc hfc0 hpr, ?_⟩
        unfold PendOk WriteOk
        rw [hfc0.pending, hfc0.core.2.1, hfc0.dp]; exact hpd
      exact ⟨by first | rfl | trivial, fun _ => acc0, fun _ => acc0, fun _ => (hl.of_fc hfc0 hpr).hist⟩
    | ok b s0 =>
      rw [hri] at hfc hpr
      have hfc0 : Fc s s0 := hfc
      have hl0 : Live s0 := hl.of_fc hfc0 hpr
      have hpd0 : PendOk s0 := by
        unfold PendOk WriteOk
        rw [hfc0.pending, hfc0.core.2.1, hfc0.dp]; exact hpd
      cases b with
      | false =>
        simp only []
        exact ⟨by first | rfl | trivial, fun _ => Or.inl rfl, fun _ => Or.inl rfl, fun _ => hl0.hist⟩
      | true =>
        simp only []
        have hrun := lzmaRun_acc s0 hl0 hpd0
        rw [hrun.1, unliftR_liftR]
        refine ⟨rfl, ?_⟩
        have hcl := clampedLimit_bounds s0 hl0.pos.pos_le_limit
        have hwr := (lzmaRun_spec s0 hl0.pos.pos_le_limit).1
        have hlim : (resSt (lzmaRun s0)).dp.limit = clampedLimit s0 := hwr.limit
        have hsize : (resSt (lzmaRun s0)).dp.size = s0.dp.size := hwr.size
        -- `Live` of the final state from `Live` of the state the run ended in
        have fin : Live (resSt (lzmaRun s0)) →
            Live (lzmaFinish (lzmaRun s0) s0.dp.limit s0.hist.size s0.uncomp).2 := by
          intro hlr
          refine lzmaFinish_live _ _ _ _ hlr ?_ ?_
          · have := hlr.pos.pos_le_limit; rw [hlim] at this; exact Nat.le_trans this hcl.2
          · rw [hsize]; exact hl0.pos.limit_le_size
        have hpost := hrun.2.1
        have hfld := lzmaFinish_fields (lzmaRun s0) s0.dp.limit s0.hist.size s0.uncomp
        -- the saved sequence and the return code, per way out
        have key : ∀ (N : Prop), (N → (s0.uncomp.isNone || s0.eopmValid) = false ∧ s0.allowEopm = false) →
            ((lzmaFinish (lzmaRun s0) s0.dp.limit s0.hist.size s0.uncomp).1 ≠ .streamEnd ∨ N) →
            AccSt (lzmaFinish (lzmaRun s0) s0.dp.limit s0.hist.size s0.uncomp).2 := by
          intro N hN hcase
          generalize hr : lzmaRun s0 = r at hpost fin hfld hcase
          cases r with
          | ok a s' =>
            right
            have hl' : Live s' := hpost
            refine ⟨fin hl', ?_⟩
            unfold PendOk WriteOk lzmaFinish
            simp [exitRet, exitPending, usesRep0, CopyLen]
          | error e s' =>
            cases e with
            | needInput => left; unfold lzmaFinish; simp [exitRet, exitPending]
            | dataError => left; unfold lzmaFinish; simp [exitRet, exitPending]
            | fuel => left; unfold lzmaFinish; simp [exitRet, exitPending]
            | outFull p =>
              right
              have hl' : Live s' ∧ WriteOk p s' := hpost
              refine ⟨fin hl'.1, ?_⟩
              have hpend : (lzmaFinish (.error (.outFull p) s') s0.dp.limit s0.hist.size s0.uncomp).2.pending = p := by
                unfold lzmaFinish
                simp only [exitRet, exitPending]
                have key : ∀ c : Bool, (if ((if c then Ret.dataError else Ret.ok) == Ret.streamEnd) then Pending.none else p) = p := by
                  intro c; cases c <;> rfl
                exact key _
              unfold PendOk WriteOk
              rw [hpend, hfld.2.1, hfld.2.2.2.2.2.1]
              exact hl'.2
            | streamEnd =>
              have hret : (lzmaFinish (.error .streamEnd s') s0.dp.limit s0.hist.size s0.uncomp).1 = .streamEnd := by
                unfold lzmaFinish
                simp [exitRet, exitPending]
              rcases hcase with hc | hc
              · exact absurd hret hc
              · right
                have hl' : Live s' := hpost (hN hc)
                refine ⟨fin hl', ?_⟩
                unfold PendOk WriteOk lzmaFinish
                simp [exitRet, exitPending, usesRep0, CopyLen]
        refine ⟨fun hne => key False (fun hf => hf.elim) (Or.inl hne), fun hno => ?_, fun _ => ?_⟩
        rotate_left
        · have fs := lzmaFinish_state (lzmaRun s0) s0.dp.limit s0.hist.size s0.uncomp
          have hh := hrun.2.2
          unfold HistOk at hh ⊢
          rw [hfld.2.2.2.2.2.1, fs.2.2.2.2.1]; exact hh
        have hno0 : NoEopm s0 := by
          unfold NoEopm; rw [hfc0.uncomp, hfc0.allowEopm, hfc0.eopmValid]; exact hno
        refine key True (fun _ => ⟨?_, hno0.2.1⟩) (Or.inr trivial)
        have h1 := hno0.1; have h3 := hno0.2.2
        cases hu : s0.uncomp with
        | none => rw [hu] at h1; simp at h1
        | some v => rw [h3]; simp

end XzVerif.Lzma
