/-
  Lemmas for C14: the table-driven CRC models (slice-by-8 CRC32, slice-by-4 CRC64, byte-at-a-time) equal the
  bit-at-a-time reference for every buffer, alignment and initial value, when run over the tables generated from the
  polynomial (`genTable`).  Props/C14.lean combines these with `Gen.C14.crc32Table = genTable P32 8`.
  Route: step1 is xor-linear; `n` bit steps of a word whose low `n` bits are zero are a right shift;
  table[s][b] = 8(s+1) bit steps of b; k ≤ w/8 message bytes = xor the LE word in, then 8k bit steps;
  a 32-bit word splits into its four bytes.  At the end: error detection (the shift-register step is injective because
  the top bit of the reflected polynomial is set, hence any change confined to one byte, in particular one flipped bit,
  changes the CRC; used by C05).  Core Lean only, kernel proofs only.
-/
import XzVerif.Model.Crc
namespace XzVerif.Crc

theorem xor_cancel_mid {w : Nat} (x y p : BitVec w) : (x ^^^ p) ^^^ (y ^^^ p) = x ^^^ y := by
  have : (x ^^^ p) ^^^ (y ^^^ p) = (x ^^^ y) ^^^ (p ^^^ p) := by ac_rfl
  rw [this, BitVec.xor_self, BitVec.xor_zero]

theorem step1_xor {w : Nat} (P x y : BitVec w) : step1 P (x ^^^ y) = step1 P x ^^^ step1 P y := by
  unfold step1
  rw [BitVec.getLsbD_xor, BitVec.ushiftRight_xor_distrib]
  cases x.getLsbD 0 <;> cases y.getLsbD 0 <;> simp only [Bool.xor_false, Bool.xor_true, Bool.not_false, Bool.not_true, if_true, if_false, Bool.false_eq_true]
  · ac_rfl
  · ac_rfl
  · exact (xor_cancel_mid _ _ _).symm

theorem stepN_xor {w : Nat} (P : BitVec w) (n : Nat) (x y : BitVec w) :
    stepN P n (x ^^^ y) = stepN P n x ^^^ stepN P n y := by
  induction n generalizing x y with
  | zero => rfl
  | succ n ih => simp only [stepN, step1_xor, ih]

theorem step8_xor {w : Nat} (P x y : BitVec w) : step8 P (x ^^^ y) = step8 P x ^^^ step8 P y :=
  stepN_xor P 8 x y

theorem stepN_add {w : Nat} (P : BitVec w) (m n : Nat) (x : BitVec w) :
    stepN P (m + n) x = stepN P n (stepN P m x) := by
  induction m generalizing x with
  | zero => simp [stepN]
  | succ m ih => rw [Nat.add_right_comm]; simp only [stepN, ih]

theorem stepN_low_zero {w : Nat} (P : BitVec w) (n : Nat) (x : BitVec w)
    (h : ∀ i, i < n → x.getLsbD i = false) : stepN P n x = x >>> n := by
  induction n generalizing x with
  | zero => simp [stepN]
  | succ n ih =>
    have h0 : step1 P x = x >>> 1 := by simp [step1, h 0 (Nat.succ_pos n)]
    rw [stepN, h0, ih, Nat.add_comm, BitVec.shiftRight_add]
    intro i hi
    rw [BitVec.getLsbD_ushiftRight]
    exact h (1 + i) (by omega)

/-- split off the low `n` bits -/
theorem split_low {w : Nat} (x : BitVec w) (n : Nat) :
    x = BitVec.ofNat w (x.toNat % 2 ^ n) ^^^ ((x >>> n) <<< n) := by
  apply BitVec.eq_of_getLsbD_eq
  intro i hi
  simp only [BitVec.getLsbD_xor, BitVec.getLsbD_ofNat, Nat.testBit_mod_two_pow, BitVec.getLsbD_shiftLeft,
    BitVec.getLsbD_ushiftRight, BitVec.testBit_toNat]
  by_cases h : i < n
  · simp [h, hi]
  · have : n + (i - n) = i := by omega
    simp [h, this, hi]

theorem shl_shr_shr {w : Nat} (x : BitVec w) (n : Nat) : ((x >>> n) <<< n) >>> n = x >>> n := by
  apply BitVec.eq_of_getLsbD_eq
  intro i hi
  simp only [BitVec.getLsbD_shiftLeft, BitVec.getLsbD_ushiftRight]
  by_cases h : n + i < w
  · simp [h]
  · simp [h]
    apply BitVec.getLsbD_of_ge; omega

theorem step8_split {w : Nat} (P x : BitVec w) :
    step8 P x = (x >>> 8) ^^^ tab0 P (x.toNat % 256) := by
  unfold tab0 step8
  conv => lhs; rw [split_low x 8]
  rw [stepN_xor, BitVec.xor_comm]
  congr 1
  rw [stepN_low_zero, shl_shr_shr]
  intro i hi
  simp [hi]

/-- `table[s][b]` is `8*(s+1)` bit steps applied to `b`. -/
theorem tabS_eq {w : Nat} (P : BitVec w) (s b : Nat) :
    tabS P s b = stepN P (8 * (s + 1)) (BitVec.ofNat w b) := by
  induction s with
  | zero => rfl
  | succ s ih =>
    simp only [tabS]
    rw [← step8_split, ih, step8, ← stepN_add]
    congr 1

theorem look_genTable {w : Nat} (P : BitVec w) (n s i : Nat) (hs : s < n) (hi : i < 256) :
    look w (genTable P n) s i = tabS P s i := by
  simp [look, genTable, List.getD, hs, hi]

theorem ofNat_split8 {w : Nat} (a m : Nat) (ha : a < 256) :
    BitVec.ofNat w (a + 256 * m) = BitVec.ofNat w a ^^^ (BitVec.ofNat w m <<< 8) := by
  apply BitVec.eq_of_getLsbD_eq
  intro i hi
  have h256 : (256 : Nat) = 2 ^ 8 := rfl
  rw [Nat.add_comm, h256]
  simp only [BitVec.getLsbD_xor, BitVec.getLsbD_ofNat, BitVec.getLsbD_shiftLeft,
    Nat.testBit_two_pow_mul_add m (h256 ▸ ha)]
  by_cases h : i < 8
  · simp [h, hi]
  · have : a.testBit i = false := Nat.testBit_lt_two_pow (Nat.lt_of_lt_of_le ha (by
      rw [h256]; exact Nat.pow_le_pow_right (by decide) (by omega)))
    have h2 : i - 8 < w := by omega
    simp [h, hi, this, h2]

theorem stepN_shl8 {w : Nat} (P : BitVec w) (n m : Nat) (hm : m < 2 ^ (w - 8)) (hw : 8 ≤ w) :
    stepN P (8 + n) (BitVec.ofNat w m <<< 8) = stepN P n (BitVec.ofNat w m) := by
  rw [stepN_add, stepN_low_zero P 8]
  · congr 1
    apply BitVec.eq_of_getLsbD_eq
    intro i hi
    simp only [BitVec.getLsbD_ushiftRight, BitVec.getLsbD_shiftLeft, BitVec.getLsbD_ofNat]
    by_cases h : 8 + i < w
    · simp [h, hi]
    · have : m.testBit i = false := Nat.testBit_lt_two_pow (Nat.lt_of_lt_of_le hm
        (Nat.pow_le_pow_right (by decide) (by omega)))
      simp [h, this]
  · intro i hi
    simp [hi]

theorem stepN_ofNat_split {w : Nat} (P : BitVec w) (n a m : Nat) (ha : a < 256) (hm : m < 2 ^ (w - 8)) (hw : 8 ≤ w) :
    stepN P (8 + n) (BitVec.ofNat w (a + 256 * m))
      = stepN P (8 + n) (BitVec.ofNat w a) ^^^ stepN P n (BitVec.ofNat w m) := by
  rw [ofNat_split8 a m ha, stepN_xor, stepN_shl8 P n m hm hw]

/-- `crc = table[0][*buf++ ^ A(crc)] ^ S8(crc)` is the reference byte step. -/
theorem tblByte_eq {w : Nat} (P : BitVec w) (n : Nat) (hn : 0 < n) (c : BitVec w) (b : UInt8) :
    tblByte w (genTable P n) c b = byteStep P c b := by
  have hlt : (c.toNat % 256) ^^^ b.toNat < 256 :=
    Nat.xor_lt_two_pow (n := 8) (Nat.mod_lt _ (by decide)) b.toNat_lt
  unfold tblByte byteStep
  rw [look_genTable P n 0 _ hn hlt, step8_xor, step8_split P c]
  simp only [tabS, tab0]
  rw [BitVec.ofNat_xor, step8_xor]
  ac_rfl

/-- little-endian value of a byte list -/
def leN : List UInt8 → Nat
  | [] => 0
  | b :: r => b.toNat + 256 * leN r

theorem leN_lt (bs : List UInt8) : leN bs < 2 ^ (8 * bs.length) := by
  induction bs with
  | nil => simp [leN]
  | cons b r ih =>
    have hb := b.toNat_lt
    have : 2 ^ (8 * (r.length + 1)) = 256 * 2 ^ (8 * r.length) := by
      rw [Nat.mul_add, Nat.pow_add]; simp [Nat.mul_comm]
    simp only [leN, List.length_cons, this]
    omega

theorem refRaw_cons {w : Nat} (P : BitVec w) (b : UInt8) (r : List UInt8) (c : BitVec w) :
    refRaw P (b :: r) c = refRaw P r (byteStep P c b) := rfl

theorem refRaw_append {w : Nat} (P : BitVec w) (a b : List UInt8) (c : BitVec w) :
    refRaw P (a ++ b) c = refRaw P b (refRaw P a c) := by
  simp [refRaw, List.foldl_append]

/-- `k ≤ w/8` message bytes = xor the little-endian word into the register, then `8k` bit steps. -/
theorem refRaw_le {w : Nat} (P : BitVec w) (bs : List UInt8) (c : BitVec w) (h : 8 * bs.length ≤ w) :
    refRaw P bs c = stepN P (8 * bs.length) (c ^^^ BitVec.ofNat w (leN bs)) := by
  induction bs generalizing c with
  | nil => simp [refRaw, leN, stepN]
  | cons b r ih =>
    simp only [List.length_cons] at h
    have hm : leN r < 2 ^ (w - 8) :=
      Nat.lt_of_lt_of_le (leN_lt r) (Nat.pow_le_pow_right (by decide) (by omega))
    have e : 8 * (r.length + 1) = 8 + 8 * r.length := by omega
    rw [refRaw_cons, ih _ (by omega), List.length_cons, e, leN, stepN_xor, stepN_xor,
      stepN_ofNat_split P _ _ _ b.toNat_lt hm (by omega), byteStep, step8_xor, stepN_xor,
      stepN_add, stepN_add, step8, step8, BitVec.xor_assoc]

theorem le32_eq (b0 b1 b2 b3 : UInt8) : le32 b0 b1 b2 b3 = BitVec.ofNat 32 (leN [b0, b1, b2, b3]) := by
  simp only [le32, leN]; congr 1; omega

theorem stepN_bytes4 {w : Nat} (P : BitVec w) (k x : Nat) (hx : x < 2 ^ 32) (hw : 32 ≤ w) :
    stepN P (k + 32) (BitVec.ofNat w x)
      = stepN P (k + 32) (BitVec.ofNat w (x % 256)) ^^^ stepN P (k + 24) (BitVec.ofNat w (x / 256 % 256))
        ^^^ stepN P (k + 16) (BitVec.ofNat w (x / 65536 % 256)) ^^^ stepN P (k + 8) (BitVec.ofNat w (x / 16777216)) := by
  have e : x = x % 256 + 256 * (x / 256 % 256 + 256 * (x / 65536 % 256 + 256 * (x / 16777216))) := by omega
  have p24 : 2 ^ 24 ≤ 2 ^ (w - 8) := Nat.pow_le_pow_right (by decide) (by omega)
  have e1 : k + 32 = 8 + (k + 24) := by omega
  have e2 : k + 24 = 8 + (k + 16) := by omega
  have e3 : k + 16 = 8 + (k + 8) := by omega
  conv => lhs; rw [e, e1]
  rw [stepN_ofNat_split P _ _ _ (Nat.mod_lt _ (by decide)) (by omega) (by omega)]
  conv => lhs; rw [e2]
  rw [stepN_ofNat_split P _ _ _ (Nat.mod_lt _ (by decide)) (by omega) (by omega)]
  conv => lhs; rw [e3]
  rw [stepN_ofNat_split P _ _ _ (Nat.mod_lt _ (by decide)) (by omega) (by omega)]
  rw [← e3, ← e2, ← e1]
  ac_rfl

theorem A_lt (x : BitVec 32) : A x < 256 := Nat.mod_lt _ (by decide)
theorem B_lt (x : BitVec 32) : B x < 256 := Nat.mod_lt _ (by decide)
theorem C_lt (x : BitVec 32) : C x < 256 := Nat.mod_lt _ (by decide)
theorem D_lt (x : BitVec 32) : D x < 256 := by have := x.isLt; unfold D; omega

/-- One slice-by-eight iteration equals eight reference byte steps. -/
theorem slice8_eq (c : BitVec 32) (b0 b1 b2 b3 b4 b5 b6 b7 : UInt8) :
    slice8 (genTable P32 8) c b0 b1 b2 b3 b4 b5 b6 b7 = refRaw P32 [b0, b1, b2, b3, b4, b5, b6, b7] c := by
  have hsplit : [b0, b1, b2, b3, b4, b5, b6, b7] = [b0, b1, b2, b3] ++ [b4, b5, b6, b7] := rfl
  rw [hsplit, refRaw_append, refRaw_le P32 [b0, b1, b2, b3] c (by simp), refRaw_le P32 [b4, b5, b6, b7] _ (by simp),
    ← le32_eq, ← le32_eq, stepN_xor, ← stepN_add]
  simp only [List.length_cons, List.length_nil]
  unfold slice8
  simp only [look_genTable P32 8 _ _ (by decide : 7 < 8) (A_lt _), look_genTable P32 8 _ _ (by decide : 6 < 8) (B_lt _),
    look_genTable P32 8 _ _ (by decide : 5 < 8) (C_lt _), look_genTable P32 8 _ _ (by decide : 4 < 8) (D_lt _),
    look_genTable P32 8 _ _ (by decide : 3 < 8) (A_lt _), look_genTable P32 8 _ _ (by decide : 2 < 8) (B_lt _),
    look_genTable P32 8 _ _ (by decide : 1 < 8) (C_lt _), look_genTable P32 8 _ _ (by decide : 0 < 8) (D_lt _),
    tabS_eq]
  have h1 := stepN_bytes4 P32 32 (c ^^^ le32 b0 b1 b2 b3).toNat (BitVec.isLt _) (by decide)
  have h2 := stepN_bytes4 P32 0 (le32 b4 b5 b6 b7).toNat (BitVec.isLt _) (by decide)
  rw [BitVec.ofNat_toNat, BitVec.setWidth_eq] at h1 h2
  simp only [Nat.zero_add] at h1 h2
  show _ = stepN P32 (32 + 32) _ ^^^ stepN P32 32 _
  rw [h1, h2]
  simp only [A, B, C, D]
  ac_rfl

theorem slice8Loop_eq (c : BitVec 32) (bs : List UInt8) :
    refRaw P32 (slice8Loop (genTable P32 8) c bs).2 (slice8Loop (genTable P32 8) c bs).1 = refRaw P32 bs c := by
  induction c, bs using slice8Loop.induct (genTable P32 8) with
  | case1 c b0 b1 b2 b3 b4 b5 b6 b7 rest ih =>
    rw [slice8Loop, ih, slice8_eq]; rfl
  | case2 c rest h =>
    rw [slice8Loop]; exact h

theorem foldl_tblByte {w : Nat} (P : BitVec w) (n : Nat) (hn : 0 < n) (bs : List UInt8) (c : BitVec w) :
    bs.foldl (tblByte w (genTable P n)) c = refRaw P bs c := by
  unfold refRaw
  congr 1
  funext c b
  exact tblByte_eq P n hn c b

theorem crc32Generic_genTable (align : Nat) (bs : List UInt8) (init : BitVec 32) :
    crc32Generic (genTable P32 8) align bs init = crc32Ref bs init := by
  unfold crc32Generic crc32Ref
  simp only [foldl_tblByte P32 8 (by decide)]
  split
  · rw [slice8Loop_eq, ← refRaw_append, List.take_append_drop]
  · rfl

/-- One slice-by-four iteration of CRC64 equals four reference byte steps. -/
theorem slice4_eq (c : BitVec 64) (b0 b1 b2 b3 : UInt8) :
    slice4 (genTable P64 4) c b0 b1 b2 b3 = refRaw P64 [b0, b1, b2, b3] c := by
  have hL : leN [b0, b1, b2, b3] < 2 ^ 32 := leN_lt [b0, b1, b2, b3]
  have htmp : ((BitVec.ofNat 32 c.toNat) ^^^ le32 b0 b1 b2 b3).toNat = (c.toNat % 2 ^ 32) ^^^ leN [b0, b1, b2, b3] := by
    rw [le32_eq, BitVec.toNat_xor, BitVec.toNat_ofNat, BitVec.toNat_ofNat, Nat.mod_eq_of_lt hL]
  rw [refRaw_le P64 [b0, b1, b2, b3] c (by simp)]
  simp only [List.length_cons, List.length_nil]
  conv => rhs; rw [split_low c 32]
  have hcomm : ∀ a b d : BitVec 64, a ^^^ b ^^^ d = (a ^^^ d) ^^^ b := by intros; ac_rfl
  rw [hcomm, ← BitVec.ofNat_xor, stepN_xor, stepN_low_zero P64 32 ((c >>> 32) <<< 32), shl_shr_shr,
    ← htmp]
  · unfold slice4
    simp only [look_genTable P64 4 _ _ (by decide : 3 < 4) (A_lt _), look_genTable P64 4 _ _ (by decide : 2 < 4) (B_lt _),
      look_genTable P64 4 _ _ (by decide : 1 < 4) (C_lt _), look_genTable P64 4 _ _ (by decide : 0 < 4) (D_lt _), tabS_eq]
    have h := stepN_bytes4 P64 0 (BitVec.ofNat 32 c.toNat ^^^ le32 b0 b1 b2 b3).toNat (BitVec.isLt _) (by decide)
    simp only [Nat.zero_add] at h
    show _ = stepN P64 32 _ ^^^ _
    rw [h]
    simp only [A, B, C, D]
    ac_rfl
  · intro i hi
    simp [hi]

theorem slice4Loop_eq (c : BitVec 64) (bs : List UInt8) :
    refRaw P64 (slice4Loop (genTable P64 4) c bs).2 (slice4Loop (genTable P64 4) c bs).1 = refRaw P64 bs c := by
  induction c, bs using slice4Loop.induct (genTable P64 4) with
  | case1 c b0 b1 b2 b3 rest ih =>
    rw [slice4Loop, ih, slice4_eq]; rfl
  | case2 c rest h =>
    rw [slice4Loop]; exact h

theorem crc64Generic_genTable (align : Nat) (bs : List UInt8) (init : BitVec 64) :
    crc64Generic (genTable P64 4) align bs init = crc64Ref bs init := by
  unfold crc64Generic crc64Ref
  simp only [foldl_tblByte P64 4 (by decide)]
  split
  · rw [slice4Loop_eq, ← refRaw_append, List.take_append_drop]
  · rfl

/-! ### error detection: a change confined to one byte always changes the CRC -/

theorem step1_eq_zero {w : Nat} (P : BitVec w) (hP : P.msb = true) (z : BitVec w) (h : step1 P z = 0#w) : z = 0#w := by
  unfold step1 at h
  have hw : 0 < w := by
    cases w with
    | zero => simp [BitVec.msb] at hP
    | succ n => omega
  by_cases h0 : z.getLsbD 0 = true
  · rw [if_pos h0] at h
    have : (z >>> 1 ^^^ P).msb = true := by
      rw [BitVec.msb_xor, hP]
      have : (z >>> 1).msb = false := by
        rw [BitVec.msb_eq_getLsbD_last, BitVec.getLsbD_ushiftRight]
        apply BitVec.getLsbD_of_ge; omega
      simp [this]
    rw [h] at this
    simp at this
  · have h0' : z.getLsbD 0 = false := by simpa using h0
    rw [if_neg h0] at h
    apply BitVec.eq_of_getLsbD_eq
    intro i hi
    cases i with
    | zero => simpa using h0'
    | succ i =>
      have := congrArg (fun v => v.getLsbD i) h
      simp only [BitVec.getLsbD_ushiftRight, BitVec.getLsbD_zero] at this
      rw [Nat.add_comm] at this
      simpa using this

theorem stepN_eq_zero {w : Nat} (P : BitVec w) (hP : P.msb = true) (n : Nat) (z : BitVec w) (h : stepN P n z = 0#w) : z = 0#w := by
  induction n generalizing z with
  | zero => exact h
  | succ n ih => exact step1_eq_zero P hP z (ih _ h)

theorem stepN_injective {w : Nat} (P : BitVec w) (hP : P.msb = true) (n : Nat) (x y : BitVec w)
    (h : stepN P n x = stepN P n y) : x = y := by
  have : stepN P n (x ^^^ y) = 0#w := by rw [stepN_xor, h, BitVec.xor_self]
  have := stepN_eq_zero P hP n _ this
  exact BitVec.xor_eq_zero_iff.mp this

theorem refRaw_injective {w : Nat} (P : BitVec w) (hP : P.msb = true) (t : List UInt8) (c c' : BitVec w)
    (h : refRaw P t c = refRaw P t c') : c = c' := by
  induction t generalizing c c' with
  | nil => exact h
  | cons b t ih =>
    rw [refRaw_cons, refRaw_cons] at h
    have := stepN_injective P hP 8 _ _ (ih _ _ h)
    have h2 := congrArg (· ^^^ BitVec.ofNat w b.toNat) this
    simpa [BitVec.xor_assoc] using h2

theorem ofNat_byte_ne {w : Nat} (hw : 8 ≤ w) (b b' : UInt8) (h : b ≠ b') : BitVec.ofNat w b.toNat ≠ BitVec.ofNat w b'.toNat := by
  intro e
  apply h
  have := congrArg BitVec.toNat e
  simp only [BitVec.toNat_ofNat] at this
  have h1 : b.toNat < 2 ^ w := Nat.lt_of_lt_of_le b.toNat_lt (Nat.pow_le_pow_right (by decide) hw)
  have h2 : b'.toNat < 2 ^ w := Nat.lt_of_lt_of_le b'.toNat_lt (Nat.pow_le_pow_right (by decide) hw)
  rw [Nat.mod_eq_of_lt h1, Nat.mod_eq_of_lt h2] at this
  exact UInt8.toNat_inj.mp this

/-- Changing exactly one byte of a message (any nonzero change, in particular one flipped bit) changes the raw CRC. -/
theorem refRaw_byte_change {w : Nat} (P : BitVec w) (hP : P.msb = true) (hw : 8 ≤ w) (a t : List UInt8) (b b' : UInt8)
    (hb : b ≠ b') (c : BitVec w) : refRaw P (a ++ b :: t) c ≠ refRaw P (a ++ b' :: t) c := by
  intro h
  rw [refRaw_append, refRaw_append, refRaw_cons, refRaw_cons] at h
  have h1 := refRaw_injective P hP t _ _ h
  have h2 := stepN_injective P hP 8 _ _ h1
  have h3 := congrArg (refRaw P a c ^^^ ·) h2
  simp only [← BitVec.xor_assoc, BitVec.xor_self, BitVec.zero_xor] at h3
  exact ofNat_byte_ne hw b b' hb h3

/-- Flip bit `i` (bit `i % 8` of byte `i / 8`) of a message. -/
def flipBit (m : List UInt8) (i : Nat) : List UInt8 :=
  m.take (i / 8) ++ (m.drop (i / 8)).head?.toList.map (· ^^^ (1 <<< (i % 8).toUInt8)) ++ m.drop (i / 8 + 1)

theorem flipBit_split (m : List UInt8) (i : Nat) (h : i / 8 < m.length) :
    ∃ a b t, m = a ++ b :: t ∧ flipBit m i = a ++ (b ^^^ (1 <<< (i % 8).toUInt8)) :: t := by
  refine ⟨m.take (i / 8), m[i / 8], m.drop (i / 8 + 1), ?_, ?_⟩
  · rw [List.getElem_cons_drop, List.take_append_drop]
  · unfold flipBit
    rw [← List.getElem_cons_drop (h := h)]
    simp [List.getElem?_eq_getElem h]

theorem mask_ne (b : UInt8) (j : Nat) : b ≠ b ^^^ (1 <<< (j % 8).toUInt8) := by
  have hj : j % 8 < 8 := Nat.mod_lt _ (by decide)
  have hm : (1 : UInt8) <<< (j % 8).toUInt8 ≠ 0 := by
    have : j % 8 = 0 ∨ j % 8 = 1 ∨ j % 8 = 2 ∨ j % 8 = 3 ∨ j % 8 = 4 ∨ j % 8 = 5 ∨ j % 8 = 6 ∨ j % 8 = 7 := by omega
    rcases this with h|h|h|h|h|h|h|h <;> rw [h] <;> decide
  intro h
  apply hm
  have := congrArg (b ^^^ ·) h
  simp only [UInt8.xor_self, ← UInt8.xor_assoc, UInt8.zero_xor] at this
  exact this.symm


/-- Any change confined to one byte of the message changes the CRC-32 (whatever the other bytes and the initial value). -/
theorem crc32_byte_error (a t : List UInt8) (b b' : UInt8) (h : b ≠ b') (init : BitVec 32) :
    crc32Ref (a ++ b :: t) init ≠ crc32Ref (a ++ b' :: t) init := by
  intro e
  exact refRaw_byte_change P32 (by decide) (by decide) a t b b' h _ (BitVec.not_inj.mp e)

theorem crc64_byte_error (a t : List UInt8) (b b' : UInt8) (h : b ≠ b') (init : BitVec 64) :
    crc64Ref (a ++ b :: t) init ≠ crc64Ref (a ++ b' :: t) init := by
  intro e
  exact refRaw_byte_change P64 (by decide) (by decide) a t b b' h _ (BitVec.not_inj.mp e)

/-- A single flipped bit anywhere in the message changes the CRC-32. -/
theorem crc32_flip_ne (m : List UInt8) (i : Nat) (hi : i < 8 * m.length) (init : BitVec 32) :
    crc32Ref (flipBit m i) init ≠ crc32Ref m init := by
  obtain ⟨a, b, t, hm, hf⟩ := flipBit_split m i (by omega)
  rw [hf]
  conv => rhs; rw [hm]
  exact (crc32_byte_error a t b _ (mask_ne b i) init).symm

theorem crc64_flip_ne (m : List UInt8) (i : Nat) (hi : i < 8 * m.length) (init : BitVec 64) :
    crc64Ref (flipBit m i) init ≠ crc64Ref m init := by
  obtain ⟨a, b, t, hm, hf⟩ := flipBit_split m i (by omega)
  rw [hf]
  conv => rhs; rw [hm]
  exact (crc64_byte_error a t b _ (mask_ne b i) init).symm

/-- `crc32_tablegen.c` / `crc64_tablegen.c` build slice `s+1` from slice `s` by eight more shift steps. -/
theorem tabS_succ {w : Nat} (P : BitVec w) (s b : Nat) : tabS P (s + 1) b = step8 P (tabS P s b) := by
  rw [tabS_eq, tabS_eq, step8, ← stepN_add]
  congr 1

end XzVerif.Crc
