/- C17 trace invariant Q5: assembled step theorem. -/
import XzVerif.Lemmas.XzIoQ5a
import XzVerif.Lemmas.XzIoQ5b
import XzVerif.Lemmas.XzIoQ5c

namespace XzVerif.XzIo
variable {α : Type}

theorem q5_exec {c : Cfg α} {s : St α} (h : Q5 s) : Q5 (exec c s) := by
  cases hpc : s.pc with
  | openSrc => exact q5_exec_openSrc hpc h
  | fstatSrc => exact q5_exec_fstatSrc hpc h
  | closeSrcErr => exact q5_exec_closeSrcErr hpc h
  | openDir => exact q5_exec_openDir hpc h
  | unlinkForce => exact q5_exec_unlinkForce hpc h
  | openDest => exact q5_exec_openDest hpc h
  | closeDirErr => exact q5_exec_closeDirErr hpc h
  | fstatDest => exact q5_exec_fstatDest hpc h
  | lseekOut => exact q5_exec_lseekOut hpc h
  | read => exact q5_exec_read hpc h
  | readPoll => exact q5_exec_readPoll hpc h
  | write => exact q5_exec_write hpc h
  | writePoll => exact q5_exec_writePoll hpc h
  | seekHole => exact q5_exec_seekHole hpc h
  | fixPos => exact q5_exec_fixPos hpc h
  | tailSeek => exact q5_exec_tailSeek hpc h
  | fchownUid => exact q5_exec_fchownUid hpc h
  | fchownGid => exact q5_exec_fchownGid hpc h
  | fchmod => exact q5_exec_fchmod hpc h
  | futimens => exact q5_exec_futimens hpc h
  | fsyncFile => exact q5_exec_fsyncFile hpc h
  | fsyncDir => exact q5_exec_fsyncDir hpc h
  | closeDir => exact q5_exec_closeDir hpc h
  | closeDest => exact q5_exec_closeDest hpc h
  | statDest => exact q5_exec_statDest hpc h
  | unlinkDest => exact q5_exec_unlinkDest hpc h
  | closeSrc => exact q5_exec_closeSrc hpc h
  | statSrc => exact q5_exec_statSrc hpc h
  | unlinkSrc => exact q5_exec_unlinkSrc hpc h
  | done => unfold exec; simp only [hpc]; exact h



theorem q5_step {c : Cfg α} {s : St α} (h : Q5 s) : Q5 (step c s) := by
  unfold step
  split
  · exact h
  · exact q5_exec (q5_preActions h)

theorem q5_runN {c : Cfg α} (n : Nat) (s : St α) (h : Q5 s) : Q5 (runN c n s) := by
  induction n generalizing s with
  | zero => exact h
  | succ n ih => exact ih _ (q5_step h)

theorem q5_start {c : Cfg α} (de : Bool) (k0 e0 : Nat) : Q5 (start c de k0 e0) := by
  have b : Q5 ({ pc := .openSrc, k := k0, exitSt := e0, ops := c.pre,
                 fs := { dstName := if de then some inoPre else none } } : St α) := by
    refine ⟨by simp [UnlinkGuarded], by simp, by simp, ?_⟩
    cases de <;> simp [inoPre]
  unfold start
  simp only
  split
  · refine ⟨?_, ?_, ?_, ?_⟩
    · simp only [continueLoop_trace]; exact b.guarded
    · simp
    · simp only [continueLoop_trace, continueLoop_destStIno]; exact b.stIno
    · simp only [continueLoop_fs]; exact b.name0
  · exact ⟨b.guarded, b.atUnlink, b.stIno, b.name0⟩

end XzVerif.XzIo
