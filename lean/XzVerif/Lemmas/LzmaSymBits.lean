/-
  Symbol-level round trip, part 1: the bit-tree helpers. For each queue-building helper of the encoder
  (`bittreeOps`, `bittreeRevOps`, `directOps`, `litMatchedOps`) the corresponding decision tree of the specification
  decoder, run against the queued operations, asks for exactly those contexts and returns the encoded value.
-/
import XzVerif.Model.LzmaSymDec
import Mathlib.Tactic.Ring
import Mathlib.Tactic.Linarith

namespace XzVerif.LzmaSym
open XzVerif.RangeDec XzVerif.RangeEnc XzVerif.Lzma XzVerif.LzmaEnc XzVerif.LzmaSymDec

/-! ### Prog basics -/

theorem runOps_bind {α β : Type} (p : Prog α) (f : α → Prog β) (ops : List Op) :
    (p.bind f).runOps ops = (p.runOps ops).bind fun r => (f r.1).runOps r.2 := by
  induction p generalizing ops with
  | ret a => simp [Prog.bind, Prog.runOps]
  | bit ctx k ih =>
    cases ops with
    | nil => simp [Prog.bind, Prog.runOps]
    | cons op ops =>
      cases op with
      | bit ctx' b =>
        simp only [Prog.bind, Prog.runOps]
        by_cases h : ctx = ctx'
        · simp [h, ih]
        · simp [h]
      | direct b => simp [Prog.bind, Prog.runOps]
  | direct k ih =>
    cases ops with
    | nil => simp [Prog.bind, Prog.runOps]
    | cons op ops =>
      cases op with
      | bit ctx' b => simp [Prog.bind, Prog.runOps]
      | direct b => simp [Prog.bind, Prog.runOps, ih]
  | fail => simp [Prog.bind, Prog.runOps]

/-- if a tree consumes exactly `ops1`, then after it the continuation sees the rest -/
theorem runOps_bind_of {α β : Type} {p : Prog α} {ops1 rest : List Op} {a : α} (f : α → Prog β)
    (h : p.runOps (ops1 ++ rest) = some (a, rest)) :
    (p.bind f).runOps (ops1 ++ rest) = (f a).runOps rest := by
  rw [runOps_bind, h]; rfl

theorem b2n_beq (x : Nat) (h : x < 2) : b2n (x == 1) = x := by
  have : x = 0 ∨ x = 1 := by omega
  rcases this with rfl | rfl <;> rfl

theorem shr_and_one (sym n : Nat) : (sym >>> n) &&& 1 = (sym / 2 ^ n) % 2 := by
  rw [Nat.shiftRight_eq_div_pow, Nat.and_one_is_mod]

/-! ### normal bittree -/

theorem pBittree_ops (base : Nat) : ∀ (n sym m : Nat) (rest : List Op),
    (pBittree base n m).runOps (bittreeOps base n sym m ++ rest) = some (2 ^ n * m + sym % 2 ^ n, rest)
  | 0, sym, m, rest => by simp [pBittree, bittreeOps, Prog.runOps, Nat.mod_one]
  | n + 1, sym, m, rest => by
    simp only [pBittree, bittreeOps, List.cons_append, Prog.runOps, if_true]
    rw [shr_and_one, b2n_beq _ (Nat.mod_lt _ (by norm_num)), pBittree_ops base n sym]
    congr 2
    have h := Nat.mod_pow_succ (x := sym) (b := 2) (k := n)
    rw [h, pow_succ]; ring

/-! ### reverse bittree -/

theorem pBittreeRev_ops (base : Nat) : ∀ (n sym m sh acc : Nat) (rest : List Op),
    (pBittreeRev base n m sh acc).runOps (bittreeRevOps base n sym m ++ rest) = some (acc + (sym % 2 ^ n) * 2 ^ sh, rest)
  | 0, sym, m, sh, acc, rest => by simp [pBittreeRev, bittreeRevOps, Prog.runOps, Nat.mod_one]
  | n + 1, sym, m, sh, acc, rest => by
    simp only [pBittreeRev, bittreeRevOps, List.cons_append, Prog.runOps, if_true]
    rw [Nat.and_one_is_mod, b2n_beq _ (Nat.mod_lt _ (by norm_num)), Nat.shiftRight_eq_div_pow, pBittreeRev_ops base n]
    congr 2
    have h : sym % 2 ^ (n + 1) = sym % 2 + 2 * ((sym / 2) % 2 ^ n) := by
      rw [pow_succ, Nat.mul_comm, Nat.mod_mul]
    rw [h, pow_one, pow_succ]; ring

/-! ### direct bits -/

theorem pDirectBits_ops : ∀ (n value acc : Nat) (rest : List Op),
    (pDirectBits n acc).runOps (directOps value n ++ rest) = some (2 ^ n * acc + value % 2 ^ n, rest)
  | 0, value, acc, rest => by simp [pDirectBits, directOps, Prog.runOps, Nat.mod_one]
  | n + 1, value, acc, rest => by
    simp only [pDirectBits, directOps, List.cons_append, Prog.runOps]
    rw [shr_and_one, b2n_beq _ (Nat.mod_lt _ (by norm_num)), pDirectBits_ops n value]
    congr 2
    have h := Nat.mod_pow_succ (x := value) (b := 2) (k := n)
    rw [h, pow_succ]; ring

end XzVerif.LzmaSym
