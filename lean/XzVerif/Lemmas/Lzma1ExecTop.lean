/-
  C01, executable decoder ↔ specification decoder, part 10: the raw LZMA1 decoder `Lzma.lzmaDecode` (the model that is
  compared with the C decoder by ./check C03) decodes the bytes of every valid LZMA1 stream with end marker — the output
  of the specification encoder `lzma1EncodeSpec` for any valid description `syms` of `data` over the preset dictionary
  `hist` — to exactly `data`, returns LZMA_STREAM_END and consumes exactly the stream.
-/
import XzVerif.Lemmas.Lzma1ExecBuf

namespace XzVerif.LzmaExec
open XzVerif.RangeDec XzVerif.RangeEnc XzVerif.RangeCoder XzVerif.LzDict XzVerif.Lzma XzVerif.LzmaEnc XzVerif.LzmaSymDec
open XzVerif.LzmaSym XzVerif.LzmaSpec

/-- `code = (code << 8) | byte` over a list of bytes -/
def initFold (code : Nat) : List UInt8 → Nat
  | [] => code
  | b :: r => initFold ((code * 256) % U32 + b.toNat) r

theorem rcReadInitN_run : ∀ (n : Nat) (s : St) (bs rest' : List UInt8), n ≤ 4 → bs.length = n →
    s.inp.data.toList.drop s.inPos = bs ++ rest' →
    rcReadInitN n s = .ok true { s with code := initFold s.code bs, inPos := s.inPos + n,
                                        initLeft := if n = 0 then s.initLeft else 0 }
  | 0, s, bs, rest', _, hl, _ => by
    have : bs = [] := List.eq_nil_of_length_eq_zero hl
    subst this
    cases s; rfl
  | n + 1, s, bs, rest', hn, hl, hdrop => by
    cases bs with
    | nil => simp at hl
    | cons b bs' =>
      have hlt : s.inPos < s.inp.size := by
        by_contra hc
        have : s.inp.data.toList.drop s.inPos = [] := by
          apply List.drop_eq_nil_of_le
          rw [Array.length_toList, ByteArray.size_data]; omega
        rw [this] at hdrop; cases hdrop
      have hlt' : s.inPos < s.inp.data.toList.length := by
        rw [Array.length_toList, ByteArray.size_data]; exact hlt
      have hb : s.inp[s.inPos] = b := by
        have := List.drop_eq_getElem_cons hlt'
        rw [hdrop] at this
        simp only [List.cons_append, List.cons.injEq] at this
        show s.inp.data[s.inPos] = b
        rw [this.1]; simp
      have hnext : s.inp.data.toList.drop (s.inPos + 1) = bs' ++ rest' := by
        rw [← List.drop_drop, hdrop]; rfl
      unfold rcReadInitN
      have hne : (n + 1 == 5 && b != 0) = false := by
        have : (n + 1 == 5) = false := by simp; omega
        rw [this]; rfl
      simp only [hlt, dite_true, hb, hne, Bool.false_eq_true, if_false]
      have := rcReadInitN_run n { s with code := ((Rc.mk s.range s.code).initByte b.toNat).code, inPos := s.inPos + 1, initLeft := n }
        bs' rest' (by omega) (by simpa using hl) hnext
      rw [this]
      simp only [Rc.initByte, initFold]
      congr 2
      · omega
      · by_cases h0 : n = 0 <;> simp [h0]

/-- `rc_read_init` at the start of a range-coded segment -/
theorem rcReadInit_five (s : St) (h5 : s.initLeft = 5) (hr : s.range = UINT32_MAX) (hc : s.code = 0)
    {bytes : List UInt8} {rc : Rc} {rest' : List UInt8} (hdrop : s.inp.data.toList.drop s.inPos = bytes)
    (hinit : readInit bytes = .ok rc rest') :
    rcReadInit s = .ok true { s with code := rc.code, inPos := s.inPos + 5, initLeft := 0 } ∧ rc.range = UINT32_MAX ∧
      ∃ pre, bytes = pre ++ rest' ∧ pre.length = 5 := by
  unfold readInit at hinit
  cases bytes with
  | nil => cases hinit
  | cons b0 r0 =>
    simp only [] at hinit
    split at hinit
    · cases hinit
    · rename_i hb0
      have hb0' : b0 = 0 := by simpa using hb0
      subst hb0'
      cases r0 with
      | nil => cases hinit
      | cons b1 r1 =>
        cases r1 with
        | nil => cases hinit
        | cons b2 r2 =>
          cases r2 with
          | nil => cases hinit
          | cons b3 r3 =>
            cases r3 with
            | nil => cases hinit
            | cons b4 r4 =>
              simp only [InitResult.ok.injEq] at hinit
              obtain ⟨hrc, hrest⟩ := hinit
              subst hrest
              have hlt : s.inPos < s.inp.size := by
                by_contra hcn
                have : s.inp.data.toList.drop s.inPos = [] := by
                  apply List.drop_eq_nil_of_le
                  rw [Array.length_toList, ByteArray.size_data]; omega
                rw [this] at hdrop; cases hdrop
              have hlt' : s.inPos < s.inp.data.toList.length := by
                rw [Array.length_toList, ByteArray.size_data]; exact hlt
              have hb : s.inp[s.inPos] = 0 := by
                have := List.drop_eq_getElem_cons hlt'
                rw [hdrop] at this
                simp only [List.cons.injEq] at this
                show s.inp.data[s.inPos] = 0
                rw [this.1]; simp
              have hnext : s.inp.data.toList.drop (s.inPos + 1) = [b1, b2, b3, b4] ++ r4 := by
                rw [← List.drop_drop, hdrop]; rfl
              refine ⟨?_, by rw [← hrc]; rfl, [0, b1, b2, b3, b4], rfl, rfl⟩
              unfold rcReadInit
              rw [h5]
              show rcReadInitN (4 + 1) s = _
              unfold rcReadInitN
              simp only [hlt, dite_true, hb, show ((4 + 1 == 5) && ((0 : UInt8) != 0)) = false from rfl,
                Bool.false_eq_true, if_false]
              rw [rcReadInitN_run 4 _ [b1, b2, b3, b4] r4 (by norm_num) rfl hnext]
              rw [← hrc, hr, hc]
              simp only [Rc.initByte, Rc.reset, initFold]
              rfl

theorem lzmaCall_of_init (s s' : St) (hp : (s.pending == Pending.stuck) = false) (h : rcReadInit s = .ok true s')
    (h0 : s'.initLeft = 0) (hp' : s'.pending = s.pending) : lzmaCall s = lzmaCall s' := by
  unfold lzmaCall
  rw [hp, hp', hp, h, rcReadInit_zero s' h0]
  simp only [Bool.false_eq_true, if_false]

theorem applySym_length {dictSize : Nat} {rb rb1 : List UInt8} {st : SymSt} {sym : Sym}
    (h : applySym dictSize rb st sym = some rb1) : rb1.length = rb.length + sym.len := by
  cases sym with
  | lit b => simp only [applySym, Option.some.injEq] at h; rw [← h]; rfl
  | mtch d len =>
    simp only [applySym] at h
    split at h
    · exact lzCopy_length h
    · cases h
  | rep idx len =>
    simp only [applySym] at h
    split at h
    · exact lzCopy_length h
    · cases h
  | shortrep =>
    simp only [applySym] at h
    split at h
    · exact lzCopy_length h
    · cases h

theorem encSyms_len (p : Props) (dictSize : Nat) : ∀ (syms : List Sym) (pos : Nat) (st : SymSt) (rb : List UInt8)
    {ops : List Op} {posF : Nat} {stF : SymSt} {rbF : List UInt8},
    encSyms p dictSize syms pos st rb = some (ops, posF, stF, rbF) →
    rbF.length = rb.length + symsLen syms ∧ posF = pos + symsLen syms
  | [], pos, st, rb, ops, posF, stF, rbF, h => by
    simp only [encSyms, Option.some.injEq, Prod.mk.injEq] at h
    obtain ⟨_, rfl, _, rfl⟩ := h
    simp [symsLen]
  | sym :: syms, pos, st, rb, ops, posF, stF, rbF, h => by
    simp only [encSyms] at h
    cases happ : applySym dictSize rb st sym with
    | none => rw [happ] at h; cases h
    | some rb1 =>
      rw [happ] at h
      simp only [] at h
      cases hrec : encSyms p dictSize syms (pos + sym.len) (symOps p st pos (prevByte rb) (matchByte rb st.rep0) sym).2 rb1 with
      | none => rw [hrec] at h; cases h
      | some q =>
        obtain ⟨ops1, fin⟩ := q
        rw [hrec] at h
        simp only [Option.some.injEq, Prod.mk.injEq] at h
        obtain ⟨_, rfl⟩ := h
        obtain ⟨h1, h2⟩ := encSyms_len p dictSize syms _ _ _ hrec
        have := applySym_length happ
        simp only [symsLen]
        omega

/-- reading the output off the final window -/
theorem out_of_win (h : List UInt8) (extra data hist : List UInt8) (c : Nat) (hc : c ≤ hist.length)
    (hpre : data.reverse ++ hist.reverse = h.reverse ++ extra) (hlen : h.length = c + data.length) :
    h.drop c = data := by
  have h1 : h.reverse = (data.reverse ++ hist.reverse).take (data.reverse.length + c) := by
    rw [hpre, List.take_append_of_le_length (by simp; omega), List.take_of_length_le (by simp; omega)]
  rw [List.take_length_add_append] at h1
  have h2 : h = (hist.reverse.take c).reverse ++ data := by
    have := congrArg List.reverse h1
    simpa using this
  rw [h2, List.drop_left' (by simp; omega)]

theorem allLt_rename (p : Props) (k : Nat) (hp : PropsOk p) (ops : List Op) (h : AllLt (probsSize p.lc p.lp) ops) :
    AllLt (probsSize p.lc p.lp) (ops.map (opRename (ctxMap p k))) := by
  intro op hop
  obtain ⟨o, ho, rfl⟩ := List.mem_map.mp hop
  have := h o ho
  cases o with
  | bit c b =>
    simp only [opRename, Op.ctxOk, decide_eq_true_eq] at this ⊢
    exact (ctxMap_lt p k c hp).mpr this
  | direct b => rfl

/-- The executable LZMA1 decoder on the bytes of the specification encoder. -/
theorem lzmaDecode_spec_bytes (p : Props) (hp : PropsOk p) (dictSize : Nat) (hd : dictSize ≤ 4294967295)
    (hist data : List UInt8) (syms : List Sym) (hdesc : Describes dictSize hist {} syms data)
    (bytes : List UInt8) (hbytes : lzma1EncodeSpec p dictSize hist syms = some bytes) (outCap : Nat)
    (hcap : data.length < outCap) :
    lzmaDecode p dictSize none true bytes hist outCap = { ret := .streamEnd, out := data, consumed := bytes.length } := by
  unfold Describes at hdesc
  obtain ⟨ops, posF, stF, henc, hsF, hall⟩ :=
    encSyms_of_expand p hp dictSize hd syms 0 {} hist.reverse _ (by decide) hdesc
  simp only [lzma1EncodeSpec, lzma1Ops, henc, Option.map_some, Option.some.injEq] at hbytes
  have hvE : ValidSym (.mtch 4294967295 2) := ⟨by norm_num, by norm_num, by norm_num⟩
  have hallE : AllLt (probsSize p.lc p.lp) (eopmOps p stF posF) := by
    rw [eopmOps_eq p stF posF 0 0]; exact symOps_bound p hp stF hsF posF 0 0 _ hvE
  have hallAll := allLt_append hall hallE
  -- the decoder's view of the contexts
  generalize hcopy : min hist.length (roundDictSize dictSize) = copy
  have hcopy1 : copy ≤ hist.length := by omega
  have hcopy2 : copy ≤ roundDictSize dictSize := by omega
  have hallD := allLt_rename p (copy % 16) hp _ hallAll
  have hsz : (initProbs p).size = probsSize p.lc p.lp := by simp [initProbs]
  have hrename : (rcEncode (initProbs p) ((ops ++ eopmOps p stF posF).map (opRename (ctxMap p (copy % 16))))).1
      = (rcEncode (initProbs p) (ops ++ eopmOps p stF posF)).1 :=
    rcEncode_rename _ (ctxMap_inj p _ hp) _ _ _ (renamedT_init p _ hp).toRenamed (by rw [hsz]; exact hallAll)
  have hokD := initProbs_ok p _ hallD
  obtain ⟨rc, rest, hinit, hchan, _⟩ := chan_init (initProbs p) _ [] hokD
  have hbytes' : (encFlush (encOps (initProbs p) Enc.init
      ((ops ++ eopmOps p stF posF).map (opRename (ctxMap p (copy % 16))))).2).out = bytes := by
    rw [← hbytes, ← hrename]; rfl
  rw [hbytes', List.append_nil] at hinit
  rw [List.map_append] at hchan
  generalize (encOps (initProbs p) Enc.init (ops.map (opRename (ctxMap p (copy % 16))) ++
    (eopmOps p stF posF).map (opRename (ctxMap p (copy % 16))))).1 = psF at hchan
  -- the decoder
  unfold lzmaDecode
  generalize hs0 : St.initLzma1 p dictSize none (true || (none : Option Nat).isNone) hist (ByteArray.mk bytes.toArray) = s0
  have hinp : s0.inp.data.toList = bytes := by rw [← hs0]; simp [St.initLzma1, St.resetLzma]
  have hinpsz : s0.inp.size = bytes.length := by rw [← ByteArray.size_data, ← Array.length_toList, hinp]
  have htail : (presetTail dictSize hist).length = copy := by
    simp only [presetTail, List.length_drop]; omega
  have hf0 : s0.initLeft = 5 ∧ s0.range = UINT32_MAX ∧ s0.code = 0 ∧ s0.inPos = 0 ∧ s0.pending = Pending.none ∧
      s0.uncomp = none ∧ s0.outBase = copy ∧ s0.dp.needReset = false ∧ s0.probs = initProbs p ∧ s0.lc = p.lc ∧
      s0.lp = p.lp ∧ s0.pb = p.pb ∧ s0.state = 0 ∧ s0.rep0 = 0 ∧ s0.rep1 = 0 ∧ s0.rep2 = 0 ∧ s0.rep3 = 0 ∧
      hl s0.hist = presetTail dictSize hist ∧ s0.dp = DictPos.init dictSize hist.length := by
    rw [← hs0]
    refine ⟨rfl, rfl, rfl, rfl, rfl, rfl, htail, rfl, rfl, rfl, rfl, rfl, rfl, rfl, rfl, rfl, rfl, ?_, rfl⟩
    simp [St.initLzma1, St.resetLzma, hl]
  obtain ⟨h5, hr0, hc0, hip0, hpd0, hun0, hob0, hnr0, hps0, hlc0, hlp0, hpb0, hst0, hr00, hr01, hr02, hr03, hhl0, hdp0⟩ := hf0
  have hdrop0 : s0.inp.data.toList.drop s0.inPos = bytes := by rw [hip0, hinp]; rfl
  obtain ⟨hri, hrange, pre5, hpre5, hpre5len⟩ := rcReadInit_five s0 h5 hr0 hc0 hdrop0 hinit
  -- the state with the five init bytes read
  generalize hs1 : ({ s0 with code := rc.code, inPos := s0.inPos + 5, initLeft := 0 } : St) = s1 at hri
  have hcall0 : ∀ a, lzmaCall (relimit s0 a) = lzmaCall (relimit s1 a) := by
    intro a
    have hri' : rcReadInit (relimit s0 a) = .ok true (relimit s1 a) := by
      have := rcReadInit_five (relimit s0 a) h5 hr0 hc0 hdrop0 hinit
      rw [this.1, ← hs1]; rfl
    exact lzmaCall_of_init _ _ (by show (s0.pending == Pending.stuck) = false; rw [hpd0]; rfl) hri'
      (by rw [← hs1]; rfl) (by rw [← hs1]; rfl)
  have hbuf0 : ∀ f, decodeBuffer lzmaCall (f + 1) outCap s0 = decodeBuffer lzmaCall (f + 1) outCap s1 := by
    intro f
    rw [decodeBuffer_succ, decodeBuffer_succ, hcall0]
    have : s1.produced = s0.produced := by rw [← hs1]; rfl
    rw [this]
  -- the invariant at the first call
  have hfields1 : s1.initLeft = 0 ∧ s1.pending = Pending.none ∧ s1.uncomp = none ∧ s1.outBase = copy ∧
      s1.dp.needReset = false ∧ s1.hist = s0.hist ∧ s1.inp = s0.inp ∧ s1.inPos = 5 ∧ s1.dp = s0.dp := by
    rw [← hs1]; exact ⟨rfl, hpd0, hun0, hob0, hnr0, rfl, rfl, by simp [hip0], rfl⟩
  obtain ⟨hi1, hpd1, hun1, hob1, hnr1, hh1, hinp1, hip1, hdp1⟩ := hfields1
  have hsim1 : Sim p dictSize (copy % 16) s1 0 {} hist.reverse := by
    have hhsz : s1.hist.size = copy := by rw [hh1, ← hl_length, hhl0, htail]
    refine ⟨by rw [← hs1]; exact hlc0, by rw [← hs1]; exact hlp0, by rw [← hs1]; exact hpb0,
      ⟨by rw [← hs1]; exact hst0, by rw [← hs1]; exact hr00, by rw [← hs1]; exact hr01, by rw [← hs1]; exact hr02,
       by rw [← hs1]; exact hr03⟩, by decide, ?_, ?_⟩
    · refine ⟨⟨(hist.take (hist.length - copy)).reverse, ?_⟩, ?_, ?_, (by rw [hdp1, hdp0]; rfl), ?_, ?_, ?_, ?_⟩
      · rw [hh1, hhl0]
        simp only [presetTail, hcopy]
        rw [← List.reverse_append, List.take_append_drop]
      · rw [hdp1, hdp0]; simp only [DictPos.init, hcopy]; omega
      · rw [hdp1, hdp0]; simp only [DictPos.init, hcopy, List.length_reverse]; omega
      · rw [hdp1, hdp0]; intro _; simp only [DictPos.init, hcopy, LZ_DICT_INIT_POS]; omega
      · rw [hdp1, hdp0]; intro h; simp [DictPos.init] at h
      · rw [hdp1, hdp0]; simp only [DictPos.init]; omega
      · rw [hdp1, hdp0]
        have := (allocSize_mod dictSize).2.2
        simp only [DictPos.init, hcopy, LZ_DICT_INIT_POS]; omega
    · rw [hdp1, hdp0]; simp only [DictPos.init, hcopy, LZ_DICT_INIT_POS]; omega
  have hview1 : View s1 (initProbs p) rc rest := by
    have hlen : bytes.length = 5 + rest.length := by rw [hpre5]; simp [hpre5len]
    refine ⟨by rw [← hs1]; exact hps0, by rw [← hs1]; exact hr0.trans hrange.symm, by rw [← hs1], ?_, ?_⟩
    · rw [hip1, hinp1, hinpsz]; omega
    · rw [hip1, hinp1, hinp, hpre5, List.drop_left' hpre5len]
  have hcallst : CallSt p dictSize (copy % 16) true [] psF s1 data.length posF stF (data.reverse ++ hist.reverse) := by
    refine ⟨⟨0, {}, hist.reverse, 0, hist.reverse, syms, initProbs p, rc, rest, ops, hsim1, ?_, ?_, hview1, henc, ?_, ?_⟩,
      hi1, fun _ => hun1, fun h => by cases h⟩
    · rw [hpd1]; exact ⟨rfl, rfl⟩
    · intro h; simp [isLiteralState, LIT_STATES] at h
    · simp only [endOps, if_true]; exact hchan
    · -- the symbols produce `data.length` bytes
      have := encSyms_len p dictSize syms 0 {} hist.reverse henc
      simp at this; omega
  have hprod1 : s1.produced = 0 := by
    simp only [St.produced, hob1, hh1, ← hl_length, hhl0, htail]; omega
  obtain ⟨fu, hfu⟩ : ∃ fu, decodeBufferFuel s0 outCap = fu + 1 := ⟨_, rfl⟩
  have hfuel : data.length < fu + 1 := by
    rw [← hfu]; simp only [decodeBufferFuel, St.produced, hob0, ← hl_length, hhl0, htail]; omega
  obtain ⟨sF, hrun, ⟨stF', hsimF⟩, hsizeF, hinF, hobF, hinpF⟩ := buf1_run p hp dictSize hd (copy % 16) [] psF outCap posF stF
    (data.reverse ++ hist.reverse) data.length (fu + 1) s1 hcallst hnr1
    (by rw [hob1, hh1, ← hl_length, hhl0, htail]) (by rw [hprod1]; omega) hfuel
  show (match decodeBuffer lzmaCall (decodeBufferFuel s0 outCap) outCap s0 with
    | (ret, s) => ({ ret := ret, out := histFrom s.hist s.outBase, consumed := s.inPos } : DecResult)) = _
  rw [hfu, hbuf0, hrun]
  simp only [List.length_nil, Nat.add_zero] at hinF
  have hout : histFrom sF.hist sF.outBase = data := by
    obtain ⟨extra, hpre⟩ := hsimF.win.pre
    show (hl sF.hist).drop sF.outBase = data
    rw [hobF, hob1]
    exact out_of_win (hl sF.hist) extra data hist copy hcopy1 hpre
      (by rw [hl_length, hsizeF, hh1, ← hl_length, hhl0, htail])
  have hcons : sF.inPos = bytes.length := by rw [hinF, hinpF, hinp1, hinpsz]
  show ({ ret := Ret.streamEnd, out := histFrom sF.hist sF.outBase, consumed := sF.inPos } : DecResult) = _
  rw [hout, hcons]

/-- the operations of a successful `encSyms` use existing contexts only (as in Lemmas/Lzma2ExecChunk.lean) -/
theorem encSyms_allLt' (p : Props) (hp : PropsOk p) (dictSize : Nat) (hd : dictSize ≤ 4294967295) (syms : List Sym)
    (pos : Nat) (st : SymSt) (hst : st.state < 12) (rb : List UInt8) {ops : List Op} {posF : Nat} {stF : SymSt}
    {rbF : List UInt8} (h : encSyms p dictSize syms pos st rb = some (ops, posF, stF, rbF)) :
    AllLt (probsSize p.lc p.lp) ops ∧ stF.state < 12 := by
  have hexp : lzExpand dictSize syms st rb = some rbF := by
    -- a successful `encSyms` is a successful expansion
    revert pos st rb ops posF stF rbF
    induction syms with
    | nil =>
      intro pos st _ rb ops posF stF rbF h
      simp only [encSyms, Option.some.injEq, Prod.mk.injEq] at h
      obtain ⟨_, _, _, rfl⟩ := h
      rfl
    | cons sym syms ih =>
      intro pos st hst rb ops posF stF rbF h
      simp only [encSyms] at h
      cases happ : applySym dictSize rb st sym with
      | none => rw [happ] at h; cases h
      | some rb1 =>
        rw [happ] at h
        simp only [] at h
        obtain ⟨hvalid, _⟩ := applySym_valid hd happ
        rw [symOps_next p st pos _ _ sym hvalid] at h
        cases hrec : encSyms p dictSize syms (pos + sym.len) (st.next sym) rb1 with
        | none => rw [hrec] at h; cases h
        | some q =>
          obtain ⟨ops1, fin⟩ := q
          rw [hrec] at h
          simp only [Option.some.injEq, Prod.mk.injEq] at h
          obtain ⟨_, rfl⟩ := h
          simp only [lzExpand, happ]
          exact ih _ _ (next_state_lt st sym hst) _ hrec
  obtain ⟨ops', pos', st', henc', hs', hall⟩ := encSyms_of_expand p hp dictSize hd syms pos st rb rbF hst hexp
  rw [h] at henc'
  simp only [Option.some.injEq, Prod.mk.injEq] at henc'
  obtain ⟨rfl, _, rfl, _⟩ := henc'
  exact ⟨hall, hs'⟩

/-- The executable LZMA1 decoder with a KNOWN uncompressed size and no end marker (MicroLZMA, LZMA1EXT) on the flushed
    range-coder bytes of a valid symbol sequence. -/
theorem lzmaDecode_known_size (p : Props) (hp : PropsOk p) (dictSize : Nat) (hd : dictSize ≤ 4294967295)
    (hist data : List UInt8) (syms : List Sym) (ops : List Op) (posF : Nat) (stF : SymSt)
    (henc : encSyms p dictSize syms 0 {} hist.reverse = some (ops, posF, stF, data.reverse ++ hist.reverse))
    (bytes : List UInt8) (hbytes : (rcEncode (initProbs p) ops).1 = bytes) (outCap : Nat)
    (hcap : data.length < outCap) :
    lzmaDecode p dictSize (some data.length) false bytes hist outCap =
      { ret := .streamEnd, out := data, consumed := bytes.length } := by
  obtain ⟨hallAll, hsF⟩ := encSyms_allLt' p hp dictSize hd syms 0 {} (by decide) hist.reverse henc
  -- the decoder's view of the contexts
  generalize hcopy : min hist.length (roundDictSize dictSize) = copy
  have hcopy1 : copy ≤ hist.length := by omega
  have hcopy2 : copy ≤ roundDictSize dictSize := by omega
  have hallD := allLt_rename p (copy % 16) hp _ hallAll
  have hsz : (initProbs p).size = probsSize p.lc p.lp := by simp [initProbs]
  have hrename : (rcEncode (initProbs p) (ops.map (opRename (ctxMap p (copy % 16))))).1
      = (rcEncode (initProbs p) ops).1 :=
    rcEncode_rename _ (ctxMap_inj p _ hp) _ _ _ (renamedT_init p _ hp).toRenamed (by rw [hsz]; exact hallAll)
  have hokD := initProbs_ok p _ hallD
  obtain ⟨rc, rest, hinit, hchan, _⟩ := chan_init (initProbs p) _ [] hokD
  have hbytes' : (encFlush (encOps (initProbs p) Enc.init
      (ops.map (opRename (ctxMap p (copy % 16))))).2).out = bytes := by
    rw [← hbytes, ← hrename]; rfl
  rw [hbytes', List.append_nil] at hinit
  generalize (encOps (initProbs p) Enc.init (ops.map (opRename (ctxMap p (copy % 16))))).1 = psF at hchan
  -- the decoder
  unfold lzmaDecode
  generalize hs0 : St.initLzma1 p dictSize (some data.length) (false || (some data.length : Option Nat).isNone) hist (ByteArray.mk bytes.toArray) = s0
  have hinp : s0.inp.data.toList = bytes := by rw [← hs0]; simp [St.initLzma1, St.resetLzma]
  have hinpsz : s0.inp.size = bytes.length := by rw [← ByteArray.size_data, ← Array.length_toList, hinp]
  have htail : (presetTail dictSize hist).length = copy := by
    simp only [presetTail, List.length_drop]; omega
  have hf0 : s0.initLeft = 5 ∧ s0.range = UINT32_MAX ∧ s0.code = 0 ∧ s0.inPos = 0 ∧ s0.pending = Pending.none ∧
      s0.uncomp = some data.length ∧ s0.outBase = copy ∧ s0.dp.needReset = false ∧ s0.probs = initProbs p ∧ s0.lc = p.lc ∧
      s0.lp = p.lp ∧ s0.pb = p.pb ∧ s0.state = 0 ∧ s0.rep0 = 0 ∧ s0.rep1 = 0 ∧ s0.rep2 = 0 ∧ s0.rep3 = 0 ∧
      hl s0.hist = presetTail dictSize hist ∧ s0.dp = DictPos.init dictSize hist.length := by
    rw [← hs0]
    refine ⟨rfl, rfl, rfl, rfl, rfl, rfl, htail, rfl, rfl, rfl, rfl, rfl, rfl, rfl, rfl, rfl, rfl, ?_, rfl⟩
    simp [St.initLzma1, St.resetLzma, hl]
  obtain ⟨h5, hr0, hc0, hip0, hpd0, hun0, hob0, hnr0, hps0, hlc0, hlp0, hpb0, hst0, hr00, hr01, hr02, hr03, hhl0, hdp0⟩ := hf0
  have hdrop0 : s0.inp.data.toList.drop s0.inPos = bytes := by rw [hip0, hinp]; rfl
  obtain ⟨hri, hrange, pre5, hpre5, hpre5len⟩ := rcReadInit_five s0 h5 hr0 hc0 hdrop0 hinit
  -- the state with the five init bytes read
  generalize hs1 : ({ s0 with code := rc.code, inPos := s0.inPos + 5, initLeft := 0 } : St) = s1 at hri
  have hcall0 : ∀ a, lzmaCall (relimit s0 a) = lzmaCall (relimit s1 a) := by
    intro a
    have hri' : rcReadInit (relimit s0 a) = .ok true (relimit s1 a) := by
      have := rcReadInit_five (relimit s0 a) h5 hr0 hc0 hdrop0 hinit
      rw [this.1, ← hs1]; rfl
    exact lzmaCall_of_init _ _ (by show (s0.pending == Pending.stuck) = false; rw [hpd0]; rfl) hri'
      (by rw [← hs1]; rfl) (by rw [← hs1]; rfl)
  have hbuf0 : ∀ f, decodeBuffer lzmaCall (f + 1) outCap s0 = decodeBuffer lzmaCall (f + 1) outCap s1 := by
    intro f
    rw [decodeBuffer_succ, decodeBuffer_succ, hcall0]
    have : s1.produced = s0.produced := by rw [← hs1]; rfl
    rw [this]
  -- the invariant at the first call
  have hfields1 : s1.initLeft = 0 ∧ s1.pending = Pending.none ∧ s1.uncomp = some data.length ∧ s1.outBase = copy ∧
      s1.dp.needReset = false ∧ s1.hist = s0.hist ∧ s1.inp = s0.inp ∧ s1.inPos = 5 ∧ s1.dp = s0.dp := by
    rw [← hs1]; exact ⟨rfl, hpd0, hun0, hob0, hnr0, rfl, rfl, by simp [hip0], rfl⟩
  obtain ⟨hi1, hpd1, hun1, hob1, hnr1, hh1, hinp1, hip1, hdp1⟩ := hfields1
  have hsim1 : Sim p dictSize (copy % 16) s1 0 {} hist.reverse := by
    have hhsz : s1.hist.size = copy := by rw [hh1, ← hl_length, hhl0, htail]
    refine ⟨by rw [← hs1]; exact hlc0, by rw [← hs1]; exact hlp0, by rw [← hs1]; exact hpb0,
      ⟨by rw [← hs1]; exact hst0, by rw [← hs1]; exact hr00, by rw [← hs1]; exact hr01, by rw [← hs1]; exact hr02,
       by rw [← hs1]; exact hr03⟩, by decide, ?_, ?_⟩
    · refine ⟨⟨(hist.take (hist.length - copy)).reverse, ?_⟩, ?_, ?_, (by rw [hdp1, hdp0]; rfl), ?_, ?_, ?_, ?_⟩
      · rw [hh1, hhl0]
        simp only [presetTail, hcopy]
        rw [← List.reverse_append, List.take_append_drop]
      · rw [hdp1, hdp0]; simp only [DictPos.init, hcopy]; omega
      · rw [hdp1, hdp0]; simp only [DictPos.init, hcopy, List.length_reverse]; omega
      · rw [hdp1, hdp0]; intro _; simp only [DictPos.init, hcopy, LZ_DICT_INIT_POS]; omega
      · rw [hdp1, hdp0]; intro h; simp [DictPos.init] at h
      · rw [hdp1, hdp0]; simp only [DictPos.init]; omega
      · rw [hdp1, hdp0]
        have := (allocSize_mod dictSize).2.2
        simp only [DictPos.init, hcopy, LZ_DICT_INIT_POS]; omega
    · rw [hdp1, hdp0]; simp only [DictPos.init, hcopy, LZ_DICT_INIT_POS]; omega
  have hview1 : View s1 (initProbs p) rc rest := by
    have hlen : bytes.length = 5 + rest.length := by rw [hpre5]; simp [hpre5len]
    refine ⟨by rw [← hs1]; exact hps0, by rw [← hs1]; exact hr0.trans hrange.symm, by rw [← hs1], ?_, ?_⟩
    · rw [hip1, hinp1, hinpsz]; omega
    · rw [hip1, hinp1, hinp, hpre5, List.drop_left' hpre5len]
  have hcallst : CallSt p dictSize (copy % 16) false [] psF s1 data.length posF stF (data.reverse ++ hist.reverse) := by
    refine ⟨⟨0, {}, hist.reverse, 0, hist.reverse, syms, initProbs p, rc, rest, ops, hsim1, ?_, ?_, hview1, henc, ?_, ?_⟩,
      hi1, (fun h => by cases h), fun _ => hun1⟩
    · rw [hpd1]; exact ⟨rfl, rfl⟩
    · intro h; simp [isLiteralState, LIT_STATES] at h
    · simp only [endOps, Bool.false_eq_true, if_false, List.append_nil]; exact hchan
    · -- the symbols produce `data.length` bytes
      have := encSyms_len p dictSize syms 0 {} hist.reverse henc
      simp at this; omega
  have hprod1 : s1.produced = 0 := by
    simp only [St.produced, hob1, hh1, ← hl_length, hhl0, htail]; omega
  obtain ⟨fu, hfu⟩ : ∃ fu, decodeBufferFuel s0 outCap = fu + 1 := ⟨_, rfl⟩
  have hfuel : data.length < fu + 1 := by
    rw [← hfu]; simp only [decodeBufferFuel, St.produced, hob0, ← hl_length, hhl0, htail]; omega
  obtain ⟨sF, hrun, ⟨stF', hsimF⟩, hsizeF, hinF, hobF, hinpF⟩ := bufE_run p hp dictSize hd (copy % 16) false [] psF outCap posF stF
    (data.reverse ++ hist.reverse) data.length (fu + 1) s1 hcallst hnr1
    (by rw [hob1, hh1, ← hl_length, hhl0, htail]) (by rw [hprod1]; omega) hfuel
  show (match decodeBuffer lzmaCall (decodeBufferFuel s0 outCap) outCap s0 with
    | (ret, s) => ({ ret := ret, out := histFrom s.hist s.outBase, consumed := s.inPos } : DecResult)) = _
  rw [hfu, hbuf0, hrun]
  simp only [List.length_nil, Nat.add_zero] at hinF
  have hout : histFrom sF.hist sF.outBase = data := by
    obtain ⟨extra, hpre⟩ := hsimF.win.pre
    show (hl sF.hist).drop sF.outBase = data
    rw [hobF, hob1]
    exact out_of_win (hl sF.hist) extra data hist copy hcopy1 hpre
      (by rw [hl_length, hsizeF, hh1, ← hl_length, hhl0, htail])
  have hcons : sF.inPos = bytes.length := by rw [hinF, hinpF, hinp1, hinpsz]
  show ({ ret := Ret.streamEnd, out := histFrom sF.hist sF.outBase, consumed := sF.inPos } : DecResult) = _
  rw [hout, hcons]


end XzVerif.LzmaExec
