/-
  C01, executable decoder ↔ specification decoder, part 7: the main loop of `lzma_decode` (`symLoop`).
  From a symbol boundary that is in step with the specification, with the operations of the remaining symbols `syms`
  (then the end marker if `eopm`, else nothing) in the channel, the loop either
    * decodes everything and ends with LZMA_STREAM_END (end marker found / known size reached with a finished range
      decoder), or
    * fills the dictionary up to `dict.limit` and leaves with a pending output step, the rest of the symbols still in the
      channel.
-/
import XzVerif.Lemmas.Lzma1ExecStep

namespace XzVerif.LzmaExec
open XzVerif.RangeDec XzVerif.RangeEnc XzVerif.RangeCoder XzVerif.LzDict XzVerif.Lzma XzVerif.LzmaEnc XzVerif.LzmaSymDec
open XzVerif.LzmaSym XzVerif.LzmaSpec

theorem symPrelude_skip (ev mf : Bool) (s : St) (h : ¬ (mf = true ∧ s.dp.pos = s.dp.limit)) :
    symPrelude ev mf s = .ok ev s := by
  have hb : (mf && (s.dp.pos == s.dp.limit)) = false := by
    cases mf <;> simp at h ⊢
    exact h
  simp only [symPrelude, bind, EStateM.bind, hb, Bool.false_eq_true, if_false]
  rfl

theorem symPrelude_end (ev : Bool) {s : St} {ps : Probs} {rc rc' : Rc} {rest rest' : List UInt8} (hv : View s ps rc rest)
    (hl : s.dp.pos = s.dp.limit) (hn : normalizeL rc rest = some (rc', rest')) (hcode : rc'.code = 0) :
    symPrelude ev true s = .error .streamEnd (rcSet s ps rc' rest'.length) := by
  have hb : (true && (s.dp.pos == s.dp.limit)) = true := by simp [hl]
  have hnorm := rcNormalize_run hv hn
  simp only [symPrelude, bind, EStateM.bind, hb, if_true, hnorm]
  have : ((rcSet s ps rc' rest'.length).code == 0) = true := by simp [rcSet, hcode]
  simp only [this, if_true]
  rfl

/-- the end marker at a symbol boundary -/
theorem eopm_step (p : Props) (hp : PropsOk p) (dictSize k : Nat) {s : St} {pos : Nat} {st : SymSt} {rb : List UInt8}
    (hs : Sim p dictSize k s pos st rb) (hr : RepOk s st) {ps psF : Probs} {rc : Rc} {rest tail : List UInt8}
    (hv : View s ps rc rest) (hc : Chan ps rc rest ((eopmOps p st pos).map (opRename (ctxMap p k))) tail psF) :
    ∃ sF psF rcF stF, decodeSymbol true s = .error .streamEnd sF ∧ View sF psF rcF tail ∧ rcF.code = 0 ∧
      Sim p dictSize k sF pos stF rb ∧ Keep s sF ∧ sF.dp = s.dp ∧ sF.hist = s.hist := by
  obtain ⟨hlc, hlp, hpb, hst, hstlt, hwin, hk⟩ := hs
  have hvalid : ValidSym (.mtch 4294967295 2) := ⟨by norm_num, by norm_num, by norm_num⟩
  rw [eopmOps_eq p st pos (prevByte rb) (matchByte rb st.rep0)] at hc
  have hc' : Chan ps rc rest ((symOps p st pos (prevByte rb) (matchByte rb st.rep0) (.mtch 4294967295 2)).1.map
      (opRename (ctxMap p k)) ++ []) tail psF := by rw [List.append_nil]; exact hc
  obtain ⟨ps1, rc1, rest1, hrun, hc1⟩ := sym_chan_step p (ctxMap p k) st pos _ _ _ hvalid hc'
  obtain ⟨⟨rc2, hnorm, hcode⟩, _⟩ := chan_end hc1
  obtain ⟨pre, hpre⟩ := Prog.runRc_suffix _ _ _ _ _ _ _ _ hrun
  obtain ⟨pre2, hpre2⟩ := normalizeL_suffix hnorm
  have hmb : isLiteralState st.state = false → (s.dictGet st.rep0).toNat = matchByte rb st.rep0 :=
    fun hl => hwin.matchByte st.rep0 (hr hl)
  rcases decodeSymbol_run p k pos _ _ st s true hp hstlt hst hlc hlp hpb hk hwin.prev hmb hv hrun with
    ⟨n, hsym, _⟩ | ⟨d, len, hsym, _, _, hdec⟩ | ⟨hsym, _⟩ | ⟨idx, len, hsym, _, _⟩
  · cases hsym
  · simp only [Sym.mtch.injEq] at hsym
    obtain ⟨rfl, rfl⟩ := hsym
    have := hdec rfl rfl rc2 tail hnorm hcode
    refine ⟨_, ps1, rc2, (symOps p st pos (prevByte rb) (matchByte rb st.rep0) (.mtch 4294967295 2)).2, this, ?_, hcode,
      ?_, ?_, rfl, rfl⟩
    · have hv1 := view_rcSet hv ps1 rc2 (pre := pre ++ pre2) (rest' := tail) (by rw [hpre, hpre2]; simp)
      exact hv1.congr rfl rfl rfl rfl rfl
    · exact ⟨hlc, hlp, hpb, ⟨rfl, rfl, rfl, rfl, rfl⟩, by
        simp only [symOps, matchOps, updateMatch, LIT_STATES]; split <;> omega, hwin.congr rfl rfl, hk⟩
    · exact keep_setSt_rcSet _ _ _ _ _ (view_le hv (pre := pre ++ pre2) (by rw [hpre, hpre2]; simp))
  · cases hsym
  · cases hsym

/-! ### result shapes -/

/-- the loop ended the stream: everything decoded, range decoder finished, exactly `tail` unread -/
def LoopEnd (p : Props) (dictSize k : Nat) (eopm mf : Bool) (tail : List UInt8) (psF : Probs) (s : St)
    (r : EStateM.Result Exit St Unit) (n posF : Nat) (stF : SymSt) (rbF : List UInt8) : Prop :=
  ∃ sF psF' rcF stF', r = .error .streamEnd sF ∧ View sF psF' rcF tail ∧ rcF.code = 0 ∧
    Sim p dictSize k sF posF stF' rbF ∧ (eopm = false → stF' = stF ∧ psF' = psF ∧ RepOk sF stF) ∧ Keep s sF ∧
    sF.dp.pos = s.dp.pos + n ∧ (eopm = true ∨ mf = true)

/-- the loop filled the dictionary: pending output step `pend` (`m` more bytes), then the symbols `syms2` -/
def LoopFull (p : Props) (dictSize k : Nat) (mf : Bool) (endOps : List Op) (tail : List UInt8) (psF : Probs) (s : St)
    (r : EStateM.Result Exit St Unit) (n posF : Nat) (stF : SymSt) (rbF : List UInt8) : Prop :=
  ∃ s2 pend m syms2 pos2 st2 rb2 rb3 ps2 rc2 rest2 ops2,
    r = .error (.outFull pend) s2 ∧ s2.dp.pos = s.dp.limit ∧ Sim p dictSize k s2 pos2 st2 rb2 ∧
    PendOk s2 st2 rb2 pend m rb3 ∧ 0 < m ∧ RepOk s2 st2 ∧ View s2 ps2 rc2 rest2 ∧
    encSyms p dictSize syms2 (pos2 + m) st2 rb3 = some (ops2, posF, stF, rbF) ∧
    Chan ps2 rc2 rest2 (ops2.map (opRename (ctxMap p k)) ++ endOps) tail psF ∧ Keep s s2 ∧
    m + symsLen syms2 + (s.dp.limit - s.dp.pos) = n ∧ mf = false

theorem symLoop_succ (fuel : Nat) (ev mf : Bool) :
    symLoop (fuel + 1) ev mf = (symStep ev mf >>= fun ev' => symLoop fuel ev' mf) := rfl

theorem symStep_eq (ev mf : Bool) :
    symStep ev mf = (symPrelude ev mf >>= fun ev' => decodeSymbol ev' >>= fun act => doWrite act >>= fun _ => pure ev') := rfl

/-- the end-of-stream operations: the end marker (LZMA1) or nothing (LZMA2 chunk) -/
def endOps (p : Props) (k : Nat) (eopm : Bool) (stF : SymSt) (posF : Nat) : List Op :=
  if eopm then (eopmOps p stF posF).map (opRename (ctxMap p k)) else []

theorem symLoop_run (p : Props) (hp : PropsOk p) (dictSize : Nat) (hd : dictSize ≤ 4294967295) (k : Nat)
    (tail : List UInt8) (psF : Probs) (eopm ev mf : Bool) (hA : eopm = true → ev = true ∧ mf = false) :
    ∀ (syms : List Sym) (fuel : Nat) (s : St) (pos : Nat) (st : SymSt) (rb : List UInt8) (ps : Probs) (rc : Rc)
      (rest : List UInt8) (ops : List Op) (posF : Nat) (stF : SymSt) (rbF : List UInt8),
      Sim p dictSize k s pos st rb → RepOk s st → View s ps rc rest →
      encSyms p dictSize syms pos st rb = some (ops, posF, stF, rbF) →
      Chan ps rc rest (ops.map (opRename (ctxMap p k)) ++ endOps p k eopm stF posF) tail psF →
      (eopm = false → (mf = true → s.dp.limit = s.dp.pos + symsLen syms) ∧
        (mf = false → s.dp.limit - s.dp.pos < symsLen syms)) →
      s.dp.limit - s.dp.pos + 2 ≤ fuel →
      LoopEnd p dictSize k eopm mf tail psF s (symLoop fuel ev mf s) (symsLen syms) posF stF rbF ∨
      LoopFull p dictSize k mf (endOps p k eopm stF posF) tail psF s (symLoop fuel ev mf s) (symsLen syms) posF stF rbF
  | [], fuel, s, pos, st, rb, ps, rc, rest, ops, posF, stF, rbF, hs, hr, hv, henc, hc, hB, hfuel => by
    simp only [encSyms, Option.some.injEq, Prod.mk.injEq] at henc
    obtain ⟨rfl, rfl, rfl, rfl⟩ := henc
    obtain ⟨f, rfl⟩ : ∃ f, fuel = f + 1 := ⟨fuel - 1, by omega⟩
    left
    rw [symLoop_succ, symStep_eq]
    simp only [List.map_nil, List.nil_append] at hc
    cases heo : eopm with
    | true =>
      obtain ⟨rfl, rfl⟩ := hA heo
      simp only [endOps, heo, if_true] at hc
      rw [bind_bind_ok (symPrelude_skip true false s (by simp))]
      obtain ⟨sF, psF, rcF, stF', hdec, hvF, hcode, hsF, hkeep, hdp, _⟩ := eopm_step p hp dictSize k hs hr hv hc
      rw [bind_err (bind_err hdec)]
      exact ⟨sF, psF, rcF, stF', rfl, hvF, hcode, hsF, (fun h => by cases h), hkeep, (by rw [hdp]; simp [symsLen]), Or.inl rfl⟩
    | false =>
      obtain ⟨hB1, hB2⟩ := hB heo
      simp only [endOps, heo, Bool.false_eq_true, if_false] at hc
      cases hmf : mf with
      | false => have := hB2 hmf; simp [symsLen] at this
      | true =>
        have hlim := hB1 hmf
        simp only [symsLen, Nat.add_zero] at hlim
        obtain ⟨⟨rc', hnorm, hcode⟩, hpsF⟩ := chan_end hc
        obtain ⟨pre, hpre⟩ := normalizeL_suffix hnorm
        rw [bind_err (bind_err (symPrelude_end ev hv hlim.symm hnorm hcode))]
        refine ⟨rcSet s ps rc' tail.length, ps, rc', st, rfl, view_rcSet hv ps rc' hpre, hcode, ?_,
          fun _ => ⟨rfl, hpsF, hr⟩, keep_rcSet _ _ _ _ (view_le hv hpre), (by simp [symsLen, rcSet]), Or.inr rfl⟩
        obtain ⟨hlc, hlp, hpb, hst, hstlt, hwin, hk⟩ := hs
        exact ⟨hlc, hlp, hpb, ⟨hst.state, hst.rep0, hst.rep1, hst.rep2, hst.rep3⟩, hstlt, hwin.congr rfl rfl, hk⟩
  | sym :: syms, fuel, s, pos, st, rb, ps, rc, rest, ops, posF, stF, rbF, hs, hr, hv, henc, hc, hB, hfuel => by
    obtain ⟨f, rfl⟩ : ∃ f, fuel = f + 1 := ⟨fuel - 1, by omega⟩
    simp only [encSyms] at henc
    cases happ : applySym dictSize rb st sym with
    | none => rw [happ] at henc; cases henc
    | some rb1 =>
      rw [happ] at henc
      simp only [] at henc
      obtain ⟨hvalid, _⟩ := applySym_valid hd happ
      rw [symOps_next p st pos _ _ sym hvalid] at henc
      cases hrec : encSyms p dictSize syms (pos + sym.len) (st.next sym) rb1 with
      | none => rw [hrec] at henc; cases henc
      | some q =>
        obtain ⟨ops1, fin⟩ := q
        rw [hrec] at henc
        simp only [Option.some.injEq, Prod.mk.injEq] at henc
        obtain ⟨rfl, rfl⟩ := henc
        rw [List.map_append, List.append_assoc] at hc
        -- the prelude does nothing
        have hskip : ¬ (mf = true ∧ s.dp.pos = s.dp.limit) := by
          rintro ⟨hmf, hl⟩
          cases heo : eopm with
          | true => have := (hA heo).2; rw [hmf] at this; cases this
          | false =>
            have := (hB heo).1 hmf
            have hlen := sym_len_pos sym hvalid
            simp only [symsLen] at this
            omega
        obtain ⟨pend, ps1, rc1, rest1, hdec, hc1, ⟨pre, hpre⟩, hpend, hlenpos, hrep⟩ :=
          sym_step p hp dictSize hd k ev hs hr hv happ hc
        have hs0 := hs
        obtain ⟨hlc, hlp, hpb, hst, hstlt, hwin, hk⟩ := hs
        have hs1 : Sim p dictSize k (setSt (rcSet s ps1 rc1 rest1.length) (st.next sym)) pos (st.next sym) rb :=
          ⟨hlc, hlp, hpb, ⟨rfl, rfl, rfl, rfl, rfl⟩, next_state_lt st sym hstlt, hwin.congr rfl rfl, hk⟩
        have hv1 : View (setSt (rcSet s ps1 rc1 rest1.length) (st.next sym)) ps1 rc1 rest1 :=
          (view_rcSet hv ps1 rc1 hpre).congr rfl rfl rfl rfl rfl
        have hpend1 : PendOk (setSt (rcSet s ps1 rc1 rest1.length) (st.next sym)) (st.next sym) rb pend sym.len rb1 :=
          hpend.congr (Nat.le_refl _)
        rw [symLoop_succ, symStep_eq, bind_bind_ok (symPrelude_skip ev mf s hskip), bind_bind_ok hdec]
        by_cases hroom : s.dp.pos + sym.len ≤ s.dp.limit
        · -- the output step completes; go on with the next symbol
          obtain ⟨s2, hw, hs2, hsame, hpos2⟩ := doWrite_ok hs1 hpend1 hroom
          rw [bind_bind_ok hw, bind_ok (pure_run _ _)]
          have hkeep : Keep s s2 := (keep_setSt_rcSet s ps1 rc1 rest1.length (st.next sym) (view_le hv hpre)).trans hsame.keep
          have hr2 : RepOk s2 (st.next sym) := fun hl => Nat.lt_of_lt_of_le (hrep hl) hkeep.grow
          have hlim2 : s2.dp.limit = s.dp.limit := hkeep.limit
          have hpos2' : s2.dp.pos = s.dp.pos + sym.len := hpos2
          have hB2 : eopm = false → (mf = true → s2.dp.limit = s2.dp.pos + symsLen syms) ∧
              (mf = false → s2.dp.limit - s2.dp.pos < symsLen syms) := by
            intro heo
            obtain ⟨h1, h2⟩ := hB heo
            simp only [symsLen] at h1 h2
            exact ⟨fun hmf => by have := h1 hmf; omega, fun hmf => by have := h2 hmf; omega⟩
          rcases symLoop_run p hp dictSize hd k tail psF eopm ev mf hA syms f s2 (pos + sym.len) (st.next sym) rb1 ps1 rc1 rest1
              ops1 posF stF rbF hs2 hr2 (hsame.view hv1) hrec hc1 hB2 (by omega) with hE | hF
          · left
            obtain ⟨sF, psF, rcF, stF', hres, hvF, hcode, hsF, hst', hkF, hposF, hmode⟩ := hE
            exact ⟨sF, psF, rcF, stF', hres, hvF, hcode, hsF, hst', hkeep.trans hkF, (by
              simp only [symsLen]; omega), hmode⟩
          · right
            obtain ⟨s3, pend3, m, syms3, pos3, st3, rb3, rb4, ps3, rc3, rest3, ops3, hres, hp3, hs3, hpend3, hm, hr3, hv3,
              henc3, hc3, hk3, hsum, hmf⟩ := hF
            exact ⟨s3, pend3, m, syms3, pos3, st3, rb3, rb4, ps3, rc3, rest3, ops3, hres, (by rw [hp3, hlim2]), hs3, hpend3,
              hm, hr3, hv3, henc3, hc3, hkeep.trans hk3, (by simp only [symsLen]; omega), hmf⟩
        · -- the dictionary is full in the middle of this symbol
          right
          have hroom' : (setSt (rcSet s ps1 rc1 rest1.length) (st.next sym)).dp.limit
              < (setSt (rcSet s ps1 rc1 rest1.length) (st.next sym)).dp.pos + sym.len := by
            show s.dp.limit < s.dp.pos + sym.len
            omega
          obtain ⟨s2, pend2, rb2, hw, hs2, hpend2, hsame, hpos2⟩ := doWrite_full hs1 hpend1 hroom'
          rw [bind_err (bind_err hw)]
          have hkeep : Keep s s2 := (keep_setSt_rcSet s ps1 rc1 rest1.length (st.next sym) (view_le hv hpre)).trans hsame.keep
          have hpl := hwin.pos_le
          have hmf : mf = false := by
            cases hmf : mf with
            | false => rfl
            | true =>
              exfalso
              cases heo : eopm with
              | true => have := (hA heo).2; rw [hmf] at this; cases this
              | false =>
                have := (hB heo).1 hmf
                simp only [symsLen] at this
                omega
          refine ⟨s2, pend2, sym.len - (s.dp.limit - s.dp.pos), syms, pos + (s.dp.limit - s.dp.pos), st.next sym, rb2, rb1,
            ps1, rc1, rest1, ops1, rfl, hpos2, hs2, hpend2, (by omega), (fun hl => Nat.lt_of_lt_of_le (hrep hl) hkeep.grow),
            hsame.view hv1, ?_, hc1, hkeep, (by simp only [symsLen]; omega), hmf⟩
          have e : pos + (s.dp.limit - s.dp.pos) + (sym.len - (s.dp.limit - s.dp.pos)) = pos + sym.len := by omega
          rw [e]; exact hrec

/-- a call's work: finish the pending output step, then the loop -/
theorem pend_loop_run (p : Props) (hp : PropsOk p) (dictSize : Nat) (hd : dictSize ≤ 4294967295) (k : Nat)
    (tail : List UInt8) (psF : Probs) (eopm ev mf : Bool) (hA : eopm = true → ev = true ∧ mf = false)
    (syms : List Sym) (fuel : Nat) (s : St) (pos : Nat) (st : SymSt) (rb rb3 : List UInt8) (pend : Pending) (m : Nat)
    (ps : Probs) (rc : Rc) (rest : List UInt8) (ops : List Op) (posF : Nat) (stF : SymSt) (rbF : List UInt8)
    (hs : Sim p dictSize k s pos st rb) (hpend : PendOk s st rb pend m rb3) (hr : RepOk s st) (hv : View s ps rc rest)
    (henc : encSyms p dictSize syms (pos + m) st rb3 = some (ops, posF, stF, rbF))
    (hc : Chan ps rc rest (ops.map (opRename (ctxMap p k)) ++ endOps p k eopm stF posF) tail psF)
    (hB : eopm = false → (mf = true → s.dp.limit = s.dp.pos + (m + symsLen syms)) ∧
        (mf = false → s.dp.limit - s.dp.pos < m + symsLen syms))
    (hfuel : s.dp.limit - s.dp.pos + 2 ≤ fuel) :
    LoopEnd p dictSize k eopm mf tail psF s ((doWrite pend >>= fun _ => symLoop fuel ev mf) s) (m + symsLen syms) posF stF rbF ∨
    LoopFull p dictSize k mf (endOps p k eopm stF posF) tail psF s ((doWrite pend >>= fun _ => symLoop fuel ev mf) s)
      (m + symsLen syms) posF stF rbF := by
  by_cases hroom : s.dp.pos + m ≤ s.dp.limit
  · obtain ⟨s2, hw, hs2, hsame, hpos2⟩ := doWrite_ok hs hpend hroom
    rw [bind_ok hw]
    have hr2 : RepOk s2 st := fun hl => Nat.lt_of_lt_of_le (hr hl) hsame.grow
    have hB2 : eopm = false → (mf = true → s2.dp.limit = s2.dp.pos + symsLen syms) ∧
        (mf = false → s2.dp.limit - s2.dp.pos < symsLen syms) := by
      intro heo
      obtain ⟨h1, h2⟩ := hB heo
      have := hsame.limit
      exact ⟨fun hmf => by have := h1 hmf; omega, fun hmf => by have := h2 hmf; omega⟩
    have hl2 := hsame.limit
    rcases symLoop_run p hp dictSize hd k tail psF eopm ev mf hA syms fuel s2 (pos + m) st rb3 ps rc rest ops posF stF rbF
        hs2 hr2 (hsame.view hv) henc hc hB2 (by omega) with hE | hF
    · left
      obtain ⟨sF, psF, rcF, stF', hres, hvF, hcode, hsF, hst', hkF, hposF, hmode⟩ := hE
      exact ⟨sF, psF, rcF, stF', hres, hvF, hcode, hsF, hst', hsame.keep.trans hkF, (by omega), hmode⟩
    · right
      obtain ⟨s3, pend3, m3, syms3, pos3, st3, rb4, rb5, ps3, rc3, rest3, ops3, hres, hp3, hs3, hpend3, hm, hr3, hv3,
        henc3, hc3, hk3, hsum, hmf⟩ := hF
      exact ⟨s3, pend3, m3, syms3, pos3, st3, rb4, rb5, ps3, rc3, rest3, ops3, hres, (by rw [hp3, hl2]), hs3, hpend3,
        hm, hr3, hv3, henc3, hc3, hsame.keep.trans hk3, (by omega), hmf⟩
  · right
    obtain ⟨s2, pend2, rb2, hw, hs2, hpend2, hsame, hpos2⟩ := doWrite_full hs hpend (by omega)
    rw [bind_err hw]
    have hpl := hs.win.pos_le
    have hmf : mf = false := by
      cases hmf : mf with
      | false => rfl
      | true =>
        exfalso
        cases heo : eopm with
        | true => have := (hA heo).2; rw [hmf] at this; cases this
        | false => have := (hB heo).1 hmf; omega
    refine ⟨s2, pend2, m - (s.dp.limit - s.dp.pos), syms, pos + (s.dp.limit - s.dp.pos), st, rb2, rb3, ps, rc, rest, ops,
      rfl, hpos2, hs2, hpend2, (by omega), (fun hl => Nat.lt_of_lt_of_le (hr hl) hsame.grow), hsame.view hv, ?_, hc,
      hsame.keep, (by omega), hmf⟩
    have e : pos + (s.dp.limit - s.dp.pos) + (m - (s.dp.limit - s.dp.pos)) = pos + m := by omega
    rw [e]; exact henc

end XzVerif.LzmaExec
