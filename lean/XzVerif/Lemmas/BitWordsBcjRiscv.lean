/-
  Quantifier-free facts about the RISC-V BCJ filter, discharged by `bv_decide`. Namespace `XzVerif.BitWords`.
-/
import Std.Tactic.BVDecide
import XzVerif.Model.BcjRiscv
namespace XzVerif.BitWords
open XzVerif.Bcj

/-! ### bytes ↔ words -/

theorem le32_bytes (x : BitVec 32) : le32 (u8 x) (u8 (x >>> 8)) (u8 (x >>> 16)) (u8 (x >>> 24)) = x := by
  unfold le32 u32 u8; bv_decide

theorem be32_bytes (y : BitVec 32) : be32 (u8 (y >>> 24)) (u8 (y >>> 16)) (u8 (y >>> 8)) (u8 y) = y := by
  unfold be32 u32 u8; bv_decide

theorem bytes_le32 (b0 b1 b2 b3 : UInt8) :
    u8 (le32 b0 b1 b2 b3) = b0 ∧ u8 (le32 b0 b1 b2 b3 >>> 8) = b1 ∧ u8 (le32 b0 b1 b2 b3 >>> 16) = b2
      ∧ u8 (le32 b0 b1 b2 b3 >>> 24) = b3 := by
  unfold le32 u32 u8; bv_decide

/-- tests on the first byte of `write32le(x)` are tests on the low byte of `x` -/
theorem byte0_tests (x : BitVec 32) :
    ((u8 x == 0xEF) = (x &&& 0xFF#32 == 0xEF#32)) ∧ ((u32 (u8 x) &&& 0x7F#32 == 0x17#32) = (x &&& 0x7F#32 == 0x17#32))
      ∧ (u32 (u8 x) &&& 0x0F#32 = x &&& 0x0F#32) := by
  unfold u32 u8; bv_decide

theorem byte0_of_le32 (b0 b1 b2 b3 : UInt8) :
    le32 b0 b1 b2 b3 &&& 0x7F#32 = u32 b0 &&& 0x7F#32 ∧ le32 b0 b1 b2 b3 &&& 0x0F#32 = u32 b0 &&& 0x0F#32 := by
  unfold le32 u32; bv_decide

/-! ### JAL -/

theorem jal_dec_enc (pc : BitVec 32) (b1 b2 b3 : UInt8) (hpc : pc &&& 1#32 = 0#32) (h : (u32 b1 &&& 0x0D#32 != 0#32) = false) :
    (u32 (rvJalEnc pc b1 b2 b3).1 &&& 0x0D#32 != 0#32) = false
    ∧ rvJalDec pc (rvJalEnc pc b1 b2 b3).1 (rvJalEnc pc b1 b2 b3).2.1 (rvJalEnc pc b1 b2 b3).2.2 = (b1, b2, b3) := by
  unfold rvJalEnc rvJalDec u32 u8 at *
  simp only [Prod.mk.injEq]
  bv_decide

theorem jal_enc_dec (pc : BitVec 32) (b1 b2 b3 : UInt8) (hpc : pc &&& 1#32 = 0#32) (h : (u32 b1 &&& 0x0D#32 != 0#32) = false) :
    (u32 (rvJalDec pc b1 b2 b3).1 &&& 0x0D#32 != 0#32) = false
    ∧ rvJalEnc pc (rvJalDec pc b1 b2 b3).1 (rvJalDec pc b1 b2 b3).2.1 (rvJalDec pc b1 b2 b3).2.2 = (b1, b2, b3) := by
  unfold rvJalEnc rvJalDec u32 u8 at *
  simp only [Prod.mk.injEq]
  bv_decide

/-! ### AUIPC pairs, at the level of the two 32-bit words -/

/-- encoder, real pair → special form: first word, address -/
def pairEncX (inst2 : BitVec 32) : BitVec 32 := 0x17#32 ||| (2#32 <<< 7) ||| (inst2 <<< 12)
def pairEncY (pc inst inst2 : BitVec 32) : BitVec 32 :=
  (inst &&& 0xFFFFF000#32) + ((inst2 >>> 20) - ((inst2 >>> 19) &&& 0x1000#32)) + pc
/-- decoder, special form → real pair -/
def specDecX (pc inst addrBE : BitVec 32) : BitVec 32 :=
  0x17#32 ||| ((inst >>> 27) <<< 7) ||| (((addrBE - pc) + 0x800#32) &&& 0xFFFFF000#32)
def specDecY (pc inst addrBE : BitVec 32) : BitVec 32 := (inst >>> 12) ||| ((addrBE - pc) <<< 20)
/-- encoder, special form in the input → "fake" pair -/
def specEncX (inst fa : BitVec 32) : BitVec 32 := 0x17#32 ||| ((inst >>> 27) <<< 7) ||| (fa &&& 0xFFFFF000#32)
def specEncY (inst fa : BitVec 32) : BitVec 32 := (inst >>> 12) ||| (fa <<< 20)
/-- decoder, "fake" pair → special form -/
def pairDecX (inst2 : BitVec 32) : BitVec 32 := 0x17#32 ||| (2#32 <<< 7) ||| (inst2 <<< 12)
def pairDecY (inst inst2 : BitVec 32) : BitVec 32 := (inst &&& 0xFFFFF000#32) + (inst2 >>> 20)

theorem rvPairEnc_eq (pc inst inst2 : BitVec 32) : rvPairEnc pc inst inst2 = le32be32 (pairEncX inst2) (pairEncY pc inst inst2) := rfl
theorem rvSpecialDec_eq (pc inst a : BitVec 32) : rvSpecialDec pc inst a = le32x2 (specDecX pc inst a) (specDecY pc inst a) := rfl
theorem rvSpecialEnc_eq (inst fa : BitVec 32) : rvSpecialEnc inst fa = le32x2 (specEncX inst fa) (specEncY inst fa) := rfl
theorem rvPairDec_eq (inst inst2 : BitVec 32) : rvPairDec inst inst2 = le32x2 (pairDecX inst2) (pairDecY inst inst2) := rfl

/-- A real pair becomes a special-form AUIPC (rd = x2, packed inst2 with opcode bits 11 and rs1 ∉ {x0,x2}) which the decoder
    recognises and turns back into the original two instructions. -/
theorem pair_words (pc inst inst2 : BitVec 32) (hA : (inst &&& 0x7F#32 == 0x17#32) = true) (hE : (inst &&& 0xE80#32 != 0#32) = true)
    (hP : notAuipcPair inst inst2 = false) :
    (pairEncX inst2 &&& 0xFF#32 == 0xEF#32) = false ∧ (pairEncX inst2 &&& 0x7F#32 == 0x17#32) = true
    ∧ (pairEncX inst2 &&& 0xE80#32 != 0#32) = false ∧ notSpecialAuipc (pairEncX inst2) (pairEncX inst2 >>> 27) = false
    ∧ specDecX pc (pairEncX inst2) (pairEncY pc inst inst2) = inst ∧ specDecY pc (pairEncX inst2) (pairEncY pc inst inst2) = inst2
    ∧ pairEncX inst2 &&& 0x0F#32 = inst &&& 0x0F#32 := by
  unfold notAuipcPair notSpecialAuipc pairEncX pairEncY specDecX specDecY at *
  bv_decide

/-- A special-form AUIPC in the input becomes a "fake" pair which the decoder recognises and turns back. -/
theorem special_words (inst fa : BitVec 32) (hA : (inst &&& 0x7F#32 == 0x17#32) = true) (hE : (inst &&& 0xE80#32 != 0#32) = false)
    (hS : notSpecialAuipc inst (inst >>> 27) = false) :
    (specEncX inst fa &&& 0xFF#32 == 0xEF#32) = false ∧ (specEncX inst fa &&& 0x7F#32 == 0x17#32) = true
    ∧ (specEncX inst fa &&& 0xE80#32 != 0#32) = true ∧ notAuipcPair (specEncX inst fa) (specEncY inst fa) = false
    ∧ pairDecX (specEncY inst fa) = inst ∧ pairDecY (specEncX inst fa) (specEncY inst fa) = fa
    ∧ specEncX inst fa &&& 0x0F#32 = inst &&& 0x0F#32 := by
  unfold notAuipcPair notSpecialAuipc specEncX specEncY pairDecX pairDecY at *
  bv_decide

/-- the pair test only reads the low 20 bits of the second word -/
theorem notpair_low20 (inst a b : BitVec 32) (h : a &&& 0xFFFFF#32 = b &&& 0xFFFFF#32) : notAuipcPair inst a = notAuipcPair inst b := by
  unfold notAuipcPair; bv_decide

theorem le32_low20 (b4 b5 b6 b7 c6 c7 : UInt8) (h : u32 c6 &&& 0x0F#32 = u32 b6 &&& 0x0F#32) :
    le32 b4 b5 c6 c7 &&& 0xFFFFF#32 = le32 b4 b5 b6 b7 &&& 0xFFFFF#32 := by
  unfold le32 u32 at *; bv_decide

end XzVerif.BitWords
