/-
  C01 end-to-end, step 5: the container theorems of Lemmas/XzEncode.lean / XzEncodeBuf.lean with the payload contract
  restricted to a set `S` of inputs (`PayloadContractOn`), asked only of the pieces that are actually encoded.
  `PayloadContract DE E fs` is `PayloadContractOn DE E fs (fun _ => True)`; the restriction is what lets the parser's
  contract (and the x86 length bound) be hypotheses about THE GIVEN INPUT instead of about every byte string.
  The proofs are those of `blockEncodeST_good`, `blocksEncode_good`, `streamEncodeST_decodes`, `blockBufferEncode_good`,
  `blockEncodeMT_good`, `streamBufferEncode_decodes`, `streamEncodeMT_decodes` with the extra premise threaded through.
-/
import XzVerif.Lemmas.XzEncodeBuf

namespace XzVerif.XzEncode
open XzVerif XzVerif.Vli XzVerif.Container XzVerif.XzDecode

/-- The payload contract for the chain `fs`, on the inputs in `S`. -/
def PayloadContractOn (DE : Env) (E : EncEnv) (fs : List FilterOpts) (S : List UInt8 → Prop) : Prop :=
  ∀ raws, Forall2 FilterMatches fs raws → ∀ (x t : List UInt8) (c : Nat), S x → x.length ≤ c →
    DE.payload raws (E.encPayload fs x ++ t) c = ⟨.streamEnd, x, (E.encPayload fs x).length⟩

theorem payloadContract_iff (DE : Env) (E : EncEnv) (fs : List FilterOpts) :
    PayloadContract DE E fs ↔ PayloadContractOn DE E fs (fun _ => True) :=
  ⟨fun h raws hr x t c _ hc => h raws hr x t c hc, fun h raws hr x t c hc => h raws hr x t c trivial hc⟩

/-- The streaming Block encoder writes a truthful Block. -/
theorem blockEncodeST_good_on (DE : Env) (E : EncEnv) (check : Nat) (fs : List FilterOpts) (n : Nat)
    (hw : ∀ o ∈ fs, o.wf) (hchain : validateChain (fs.map (·.id)) = .ok n)
    (hck : CheckAgrees DE E) (S : List UInt8 → Prop) (hpc : PayloadContractOn DE E fs S) (data : List UInt8) (hS : S data)
    (b : BlockOut)
    (h : blockEncodeST E check fs data = .ok b) :
    GoodBlock DE check data b.bytes b.unpadded ∧ b.uncompressed = data.length := by
  unfold blockEncodeST at h
  cases h1 : blockHeaderSize 0 none none fs with
  | error e => simp [h1] at h
  | ok hs =>
    simp only [h1] at h
    by_cases g : blockEncoderInit E check fs ≠ .ok
    · rw [if_pos g] at h; simp at h
    rw [if_neg g] at h
    have hsup := blockEncoderInit_ok E check fs g
    cases h2 : blockHeaderEncodeWith 0 hs check none none fs with
    | error e => simp [h2] at h
    | ok hdr =>
      simp only [h2] at h
      cases h3 : blockBody E check fs data with
      | error e => simp [h3] at h
      | ok r =>
        obtain ⟨body, cs⟩ := r
        simp only [h3, Except.ok.injEq] at h
        subst h
        obtain ⟨hx, hcs, hcsm, hbody⟩ := blockBody_ok E check fs data body cs h3
        refine ⟨?_, rfl⟩
        simp only []
        have := goodBlock_of_header DE check hs none none fs hdr (E.encPayload fs data) data (E.check check data) n hw h2 hchain
          (Or.inl rfl) (Or.inl rfl) (fun raws hr t c hc => hpc raws hr data t c hS hc) (by omega) hx (hck.1 _ _).symm
          (hck.2 _ _ hsup)
        rw [hbody, hcs]
        simpa [List.append_assoc] using this


/-- `blocksEncode_good`, asking for a truthful Block only of the non-empty pieces in the list. -/
theorem blocksEncode_good_on (DE : Env) (check : Nat) (enc : List UInt8 → Res BlockOut) :
    ∀ (blocks : List (List UInt8)),
      (∀ d ∈ blocks, d ≠ [] → ∀ b, enc d = .ok b → GoodBlock DE check d b.bytes b.unpadded ∧ b.uncompressed = d.length) →
      ∀ (acc : IndexAcc) (pre : HashInfo) (bytes : List UInt8) (recs : List IndexRecord),
      AccOf pre acc → blocksEncode enc blocks acc = .ok (bytes, recs) →
      ∃ bl : BlockList, bl.bytes = bytes ∧ bl.recs = recs ∧ bl.data = blocks.flatten ∧
        (∀ q ∈ bl, GoodBlock DE check q.1 q.2.1 q.2.2) ∧ AppendsOk pre recs ∧
        ∃ acc', indexAppendAll recs acc = .ok acc' := by
  intro blocks
  induction blocks with
  | nil =>
    intro _ acc pre bytes recs _ h
    simp only [blocksEncode, Except.ok.injEq, Prod.mk.injEq] at h
    obtain ⟨h1, h2⟩ := h
    subst h1 h2
    refine ⟨[], rfl, rfl, rfl, ?_, ?_, ?_⟩
    · intro q hq; simp at hq
    · exact trivial
    · exact ⟨acc, rfl⟩
  | cons d rest ih =>
    intro henc acc pre bytes recs hacc h
    have ih := ih (fun d' hd' => henc d' (List.mem_cons_of_mem _ hd'))
    simp only [blocksEncode] at h
    by_cases he : d.isEmpty = true
    · rw [if_pos he] at h
      obtain ⟨bl, h1, h2, h3, h4, h5, h6⟩ := ih acc pre bytes recs hacc h
      have hd : d = [] := by simpa using he
      exact ⟨bl, h1, h2, by rw [h3, hd]; simp, h4, h5, h6⟩
    rw [if_neg he] at h
    cases h1 : enc d with
    | error e => simp [h1] at h
    | ok b =>
      simp only [h1] at h
      cases h2 : indexAppend acc b.unpadded b.uncompressed with
      | error e => simp [h2] at h
      | ok acc1 =>
        simp only [h2] at h
        cases h3 : blocksEncode enc rest acc1 with
        | error e => simp [h3] at h
        | ok r =>
          obtain ⟨bytes', recs'⟩ := r
          simp only [h3, Except.ok.injEq, Prod.mk.injEq] at h
          obtain ⟨hb, hr⟩ := h
          subst hb hr
          obtain ⟨hgood, hunc⟩ := henc d (List.mem_cons_self ..) (by intro hd; rw [hd] at he; exact he rfl) b h1
          obtain ⟨happ, hacc1⟩ := indexAppend_hash pre acc acc1 _ _ hacc h2
          obtain ⟨bl, e1, e2, e3, e4, e5, acc', e6⟩ := ih acc1 _ bytes' recs' hacc1 h3
          refine ⟨(d, b.bytes, b.unpadded) :: bl, ?_, ?_, ?_, ?_, ?_, acc', ?_⟩
          · rw [BlockList.bytes_cons, e1]
          · rw [BlockList.recs_cons, e2, hunc]
          · rw [BlockList.data_cons, e3]; simp
          · intro q hq
            rcases List.mem_cons.mp hq with hq | hq
            · subst hq; exact hgood
            · exact e4 q hq
          · rw [AppendsOk_cons]; exact ⟨happ, e5⟩
          · simp only [indexAppendAll, h2]; exact e6


/-- **The multi-call Stream encoder writes a valid Stream.**  Whatever `streamEncodeST` returns with LZMA_OK is accepted
    by the decoder model (for every decoder flag combination), decodes to the concatenation of the pieces, and is
    consumed to the last byte. -/
theorem streamEncodeST_decodes_on (DE : Env) (E : EncEnv) (cfg : Cfg) (blocks : List (List UInt8)) (out : List UInt8)
    (fl : Flags) (cap n : Nat)
    (hw : ∀ o ∈ cfg.filters, o.wf) (hchain : validateChain (cfg.filters.map (·.id)) = .ok n)
    (hck : CheckAgrees DE E) (S : List UInt8 → Prop) (hpc : PayloadContractOn DE E cfg.filters S)
    (hS : ∀ d ∈ blocks, d ≠ [] → S d)
    (henc : streamEncodeST E cfg blocks = .ok out) (hcap : blocks.flatten.length ≤ cap) :
    xzDecode DE fl out cap
      = { ret := .streamEnd, out := blocks.flatten, consumed := out.length, events := headerEvents DE fl cfg.check } := by
  unfold streamEncodeST at henc
  cases h1 : streamInit E cfg with
  | error e => simp [h1] at henc
  | ok hb =>
    simp only [h1] at henc
    cases h2 : blocksEncode (blockEncodeST E cfg.check cfg.filters) blocks {} with
    | error e => simp [h2] at henc
    | ok r =>
      obtain ⟨bytes, recs⟩ := r
      simp only [h2] at henc
      cases h3 : streamTail cfg.check recs with
      | error e => simp [h3] at henc
      | ok tail =>
        simp only [h3, Except.ok.injEq] at henc
        subst henc
        obtain ⟨bl, e1, e2, e3, e4, e5, acc', e6⟩ := blocksEncode_good_on DE cfg.check _ blocks
          (fun d hd hne b hb => blockEncodeST_good_on DE E cfg.check cfg.filters n hw hchain hck S hpc d (hS d hd hne) b hb)
          {} [] bytes recs accOf_nil h2
        subst e1 e2
        rw [← e3] at hcap ⊢
        exact stream_assembled_decodes DE fl cfg.check hb tail bl acc' cap (streamInit_ok E cfg hb h1) e4 e5 e6 h3 hcap


/-- The single-call Block encoder (with or without the attempt to compress) writes a truthful Block. -/
theorem blockBufferEncode_good_on (DE : Env) (E : EncEnv) (tc : Bool) (check : Nat) (fs : List FilterOpts) (n : Nat)
    (hw : ∀ o ∈ fs, o.wf) (hchain : validateChain (fs.map (·.id)) = .ok n)
    (hck : CheckAgrees DE E) (S : List UInt8 → Prop) (hpc : PayloadContractOn DE E fs S) (huc : UncompContract DE)
    (data : List UInt8) (hS : S data) (avail : Nat) (b : BlockOut) (h : blockBufferEncode E tc check fs data avail = .ok b) :
    GoodBlock DE check data b.bytes b.unpadded ∧ b.uncompressed = data.length := by
  obtain ⟨hsup, hl0, -, bytes, hs, cs, hpath, hb⟩ := blockBufferEncode_ok E tc check fs data avail b h
  subst hb
  refine ⟨?_, rfl⟩
  simp only []
  have hn : data.length ≤ VLI_MAX := by
    have h1 := (lzma2Bound_spec data.length).2 hl0
    have h2 := lzma2Bound_le data.length
    rw [uncompressedChunksSize_eq] at h1
    unfold VLI_MAX; omega
  have hle := lzma2Bound_le data.length
  have hcsm := consts_eval.1
  rcases hpath with ⟨-, hnorm⟩ | hunc
  · obtain ⟨hdr, -, hh, hcs, hbytes, hcl, -, -⟩ := blockEncodeNormal_ok E check fs data _ bytes hs cs hnorm
    have := goodBlock_of_header DE check hs (some cs) (some data.length) fs hdr (E.encPayload fs data) data (E.check check data) n
      hw hh hchain (Or.inr (by rw [hcs])) (Or.inr rfl) (fun raws hr t c hc => hpc raws hr data t c hS hc) (by omega) hn
      (hck.1 _ _).symm (hck.2 _ _ hsup)
    rw [hbytes, hcs]
    exact this
  · obtain ⟨hdr, -, hh, hcs, hbytes, -⟩ := blockEncodeUncompressed_ok check data _ bytes hs cs hunc
    have hclen : (lzma2UncompressedChunks data).length = cs := by
      rw [lzma2UncompressedChunks_length, hcs, (lzma2Bound_spec data.length).2 hl0]
    have := goodBlock_of_header DE check hs (some cs) (some data.length) [.lzma2 DICT_SIZE_MIN] hdr
      (lzma2UncompressedChunks data) data (E.check check data) 1 wf_lzma2_min hh (by decide)
      (Or.inr (by rw [hclen])) (Or.inr rfl)
      (fun raws hr t c hc => by rw [forall2_lzma2_min raws hr]; exact huc data t c hc) (by omega) hn
      (hck.1 _ _).symm (hck.2 _ _ hsup)
    rw [hbytes]
    rw [hclen] at this
    exact this

/-- The threaded encoder's worker writes a truthful Block. -/
theorem blockEncodeMT_good_on (DE : Env) (E : EncEnv) (check : Nat) (fs : List FilterOpts) (n : Nat)
    (hw : ∀ o ∈ fs, o.wf) (hchain : validateChain (fs.map (·.id)) = .ok n)
    (hck : CheckAgrees DE E) (S : List UInt8 → Prop) (hpc : PayloadContractOn DE E fs S) (huc : UncompContract DE)
    (blockSize : Nat) (data : List UInt8) (hS : S data) (b : BlockOut) (h : blockEncodeMT E check fs blockSize data = .ok b) :
    GoodBlock DE check data b.bytes b.unpadded ∧ b.uncompressed = data.length := by
  unfold blockEncodeMT at h
  simp only [] at h
  cases h1 : blockHeaderSize 0 (some (blockBufferBound64 blockSize)) (some blockSize) fs with
  | error e => simp [h1] at h
  | ok hs =>
    simp only [h1] at h
    by_cases g : blockEncoderInit E check fs ≠ .ok
    · rw [if_pos g] at h; simp at h
    rw [if_neg g] at h
    have hsup := blockEncoderInit_ok E check fs g
    cases h3 : blockBody E check fs data with
    | error e => simp [h3] at h
    | ok r =>
      obtain ⟨body, cs⟩ := r
      simp only [h3] at h
      obtain ⟨hx, hcs, hcsm, hbody⟩ := blockBody_ok E check fs data body cs h3
      by_cases gf : hs + body.length ≤ blockBufferBound64 blockSize
      · rw [if_pos gf] at h
        cases h2 : blockHeaderEncodeWith 0 hs check (some cs) (some data.length) fs with
        | error e => simp [h2] at h
        | ok hdr =>
          simp only [h2, Except.ok.injEq] at h
          subst h
          refine ⟨?_, rfl⟩
          simp only []
          have := goodBlock_of_header DE check hs (some cs) (some data.length) fs hdr (E.encPayload fs data) data
            (E.check check data) n hw h2 hchain (Or.inr (by rw [hcs])) (Or.inr rfl)
            (fun raws hr t c hc => hpc raws hr data t c hS hc) (by omega) hx (hck.1 _ _).symm (hck.2 _ _ hsup)
          rw [hbody, hcs]
          simpa [List.append_assoc] using this
      · rw [if_neg gf] at h
        cases h2 : blockBufferEncode E false check fs data (blockBufferBound64 blockSize) with
        | error e => simp [h2] at h
        | ok b' =>
          simp only [h2, Except.ok.injEq] at h
          subst h
          exact blockBufferEncode_good_on DE E false check fs n hw hchain hck S hpc huc data hS _ b' h2


/-- **The single-call Stream encoder writes a valid Stream** (also when it fell back to uncompressed chunks). -/
theorem streamBufferEncode_decodes_on (DE : Env) (E : EncEnv) (cfg : Cfg) (data out : List UInt8) (avail : Nat)
    (fl : Flags) (cap n : Nat)
    (hw : ∀ o ∈ cfg.filters, o.wf) (hchain : validateChain (cfg.filters.map (·.id)) = .ok n)
    (hck : CheckAgrees DE E) (S : List UInt8 → Prop) (hpc : PayloadContractOn DE E cfg.filters S) (huc : UncompContract DE)
    (hS : data ≠ [] → S data)
    (henc : streamBufferEncode E cfg data avail = .ok out) (hcap : data.length ≤ cap) :
    xzDecode DE fl out cap
      = { ret := .streamEnd, out := data, consumed := out.length, events := headerEvents DE fl cfg.check }
    ∧ out.length ≤ avail := by
  unfold streamBufferEncode at henc
  by_cases g1 : cfg.check > CHECK_ID_MAX
  · rw [if_pos g1] at henc; simp at henc
  rw [if_neg g1] at henc
  by_cases g2 : (!checkIsSupported cfg.check) = true
  · rw [if_pos g2] at henc; simp at henc
  rw [if_neg g2] at henc
  by_cases g3 : avail ≤ 2 * STREAM_HEADER_SIZE
  · rw [if_pos g3] at henc; simp at henc
  rw [if_neg g3] at henc
  simp only [] at henc
  cases h1 : streamHeaderEncode { check := cfg.check } with
  | error e => simp [h1] at henc
  | ok hb =>
    simp only [h1] at henc
    have hbl := (streamHeader_roundtrip _ hb [] h1).1
    -- the Block (or none)
    have key : ∀ (bl : BlockList) (bytes : List UInt8) (recs : List IndexRecord),
        bl.bytes = bytes → bl.recs = recs → bl.data = data → (∀ q ∈ bl, GoodBlock DE cfg.check q.1 q.2.1 q.2.2) →
        streamBufferFinish cfg.check hb bytes recs (avail - STREAM_HEADER_SIZE - STREAM_HEADER_SIZE - bytes.length) = .ok out →
        xzDecode DE fl out cap
          = { ret := .streamEnd, out := data, consumed := out.length, events := headerEvents DE fl cfg.check }
        ∧ out.length ≤ hb.length + bytes.length + (avail - STREAM_HEADER_SIZE - STREAM_HEADER_SIZE - bytes.length) + 12 := by
      intro bl bytes recs e1 e2 e3 hgood hrest
      unfold streamBufferFinish at hrest
      cases h2 : indexAppendAll recs {} with
      | error e => simp [h2] at hrest
      | ok acc =>
        simp only [h2] at hrest
        cases h3 : indexBufferEncode recs (avail - STREAM_HEADER_SIZE - STREAM_HEADER_SIZE - bytes.length) with
        | error e => simp [h3] at hrest
        | ok idx =>
          simp only [h3] at hrest
          cases h4 : streamFooterEncode { check := cfg.check } (indexSize recs.length (indexListSize recs)) with
          | error e => simp [h4] at hrest
          | ok ftr =>
            simp only [h4, Except.ok.injEq] at hrest
            subst hrest
            have hidx : idx = indexEncode recs ∧ (indexEncode recs).length ≤ avail - STREAM_HEADER_SIZE - STREAM_HEADER_SIZE - bytes.length := by
              unfold indexBufferEncode at h3
              by_cases gi : avail - STREAM_HEADER_SIZE - STREAM_HEADER_SIZE - bytes.length < indexSize recs.length (indexListSize recs)
              · rw [if_pos gi] at h3; simp at h3
              · rw [if_neg gi] at h3
                simp only [Except.ok.injEq] at h3
                have hcnt := indexAppendAll_count_le _ _ h2
                have := (index_roundtrip recs acc [] hcnt h2).2
                exact ⟨h3.symm, by omega⟩
            have htail : streamTail cfg.check recs = .ok (idx ++ ftr) := by
              unfold streamTail; rw [h4, hidx.1]
            subst e1 e2
            have hap := appendsOk_of_appendAll _ [] {} acc accOf_nil h2
            have := stream_assembled_decodes DE fl cfg.check hb (idx ++ ftr) bl acc cap h1 hgood hap h2 htail (by rw [e3]; exact hcap)
            rw [e3] at this
            have e : hb ++ bl.bytes ++ idx ++ ftr = hb ++ bl.bytes ++ (idx ++ ftr) := by simp
            rw [e]
            refine ⟨this, ?_⟩
            have hf12 := (streamFooter_roundtrip _ _ ftr [] h4).1
            simp only [List.length_append, hf12, hidx.1]
            omega
    have hfin : ∀ bytes : List UInt8, hb.length + bytes.length + (avail - STREAM_HEADER_SIZE - STREAM_HEADER_SIZE - bytes.length) + 12 ≤ avail
        ∨ avail - STREAM_HEADER_SIZE - STREAM_HEADER_SIZE < bytes.length := by
      intro bytes
      unfold STREAM_HEADER_SIZE at g3 ⊢
      omega
    by_cases he : data.isEmpty = true
    · rw [if_pos he] at henc
      simp only [] at henc
      have hd : data = [] := by simpa using he
      obtain ⟨r1, r2⟩ := key [] [] [] rfl rfl (by rw [hd]; rfl) (by intro q hq; simp at hq) henc
      refine ⟨r1, ?_⟩
      rcases hfin [] with hh | hh
      · omega
      · simp at hh
    · rw [if_neg he] at henc
      cases hbk : blockBufferEncode E true cfg.check cfg.filters data (avail - STREAM_HEADER_SIZE - STREAM_HEADER_SIZE) with
      | error e => simp [hbk] at henc
      | ok b =>
        simp only [hbk] at henc
        obtain ⟨hg, hu⟩ := blockBufferEncode_good_on DE E true cfg.check cfg.filters n hw hchain hck S hpc huc data
          (hS (by intro hd; rw [hd] at he; exact he rfl)) _ b hbk
        obtain ⟨r1, r2⟩ := key [(data, b.bytes, b.unpadded)] b.bytes [⟨b.unpadded, b.uncompressed⟩]
          (by simp [BlockList.bytes]) (by rw [BlockList.recs_cons, hu]; rfl) (by simp [BlockList.data])
          (by intro q hq; simp only [List.mem_singleton] at hq; subst hq; exact hg) henc
        refine ⟨r1, ?_⟩
        -- the Block itself stayed inside its share of the buffer
        obtain ⟨-, -, hcsz, bytes, hs, cs, hpath, hb'⟩ := blockBufferEncode_ok E true cfg.check cfg.filters data _ b hbk
        have hblen : b.bytes.length ≤ avail - STREAM_HEADER_SIZE - STREAM_HEADER_SIZE := by
          have hckl := hck.2 cfg.check data (by simpa using g2)
          have hc4 := (checkSize_facts cfg.check (by unfold CHECK_ID_MAX at g1; omega)).1
          rw [hb']
          simp only [List.length_append, blockPadding_length, hckl]
          rcases hpath with ⟨-, hnorm⟩ | hunc
          · obtain ⟨hdr, -, hh, hcs, hbytes, -, hlt, hfit⟩ := blockEncodeNormal_ok E cfg.check cfg.filters data _ bytes hs cs hnorm
            have hhl := (blockHeader_roundtrip 0 hs cfg.check _ _ _ hdr [] hw hh)
            rw [hbytes, List.length_append, hhl.1, ← hcs]
            have := hhl.2.1
            unfold blockPadLen
            omega
          · obtain ⟨hdr, -, hh, hcs, hbytes, hfit⟩ := blockEncodeUncompressed_ok cfg.check data _ bytes hs cs hunc
            have hhl := (blockHeader_roundtrip 0 hs cfg.check _ _ _ hdr [] wf_lzma2_min hh)
            have hl0 : lzma2Bound data.length ≠ 0 := (blockBufferEncode_ok E true cfg.check cfg.filters data _ b hbk).2.1
            rw [hbytes, List.length_append, hhl.1, lzma2UncompressedChunks_length, ← (lzma2Bound_spec data.length).2 hl0, ← hcs]
            have := hhl.2.1
            unfold blockPadLen
            omega
        rcases hfin b.bytes with hh | hh <;> omega



/-- **The threaded Stream encoder's container is valid** (the model of its deterministic output: Blocks in input order). -/
theorem streamEncodeMT_decodes_on (DE : Env) (E : EncEnv) (cfg : Cfg) (blockSize : Nat) (pieces : List (List UInt8))
    (out : List UInt8) (fl : Flags) (cap n : Nat)
    (hw : ∀ o ∈ cfg.filters, o.wf) (hchain : validateChain (cfg.filters.map (·.id)) = .ok n)
    (hck : CheckAgrees DE E) (S : List UInt8 → Prop) (hpc : PayloadContractOn DE E cfg.filters S) (huc : UncompContract DE)
    (hS : ∀ d ∈ (pieces.flatMap fun p => chunksOf blockSize p.length p), d ≠ [] → S d)
    (henc : streamEncodeMT E cfg blockSize pieces = .ok out) (hcap : pieces.flatten.length ≤ cap) :
    xzDecode DE fl out cap
      = { ret := .streamEnd, out := pieces.flatten, consumed := out.length, events := headerEvents DE fl cfg.check } := by
  unfold streamEncodeMT at henc
  by_cases g0 : blockSize = 0
  · rw [if_pos g0] at henc; simp at henc
  rw [if_neg g0] at henc
  by_cases g1 : cfg.check > CHECK_ID_MAX
  · rw [if_pos g1] at henc; simp at henc
  rw [if_neg g1] at henc
  by_cases g2 : (!checkIsSupported cfg.check) = true
  · rw [if_pos g2] at henc; simp at henc
  rw [if_neg g2] at henc
  cases h1 : streamHeaderEncode { check := cfg.check } with
  | error e => simp [h1] at henc
  | ok hb =>
    simp only [h1] at henc
    cases h2 : blocksEncode (blockEncodeMT E cfg.check cfg.filters blockSize)
        (pieces.flatMap fun p => chunksOf blockSize p.length p) {} with
    | error e => simp [h2] at henc
    | ok r =>
      obtain ⟨bytes, recs⟩ := r
      simp only [h2] at henc
      cases h3 : streamTail cfg.check recs with
      | error e => simp [h3] at henc
      | ok tail =>
        simp only [h3, Except.ok.injEq] at henc
        subst henc
        obtain ⟨bl, e1, e2, e3, e4, e5, acc', e6⟩ := blocksEncode_good_on DE cfg.check _ _
          (fun d hd hne b hb => blockEncodeMT_good_on DE E cfg.check cfg.filters n hw hchain hck S hpc huc blockSize d
            (hS d hd hne) b hb) {} [] bytes recs accOf_nil h2
        subst e1 e2
        rw [flatMap_chunksOf_flatten blockSize (by omega)] at e3
        rw [← e3] at hcap ⊢
        exact stream_assembled_decodes DE fl cfg.check hb tail bl acc' cap h1 e4 e5 e6 h3 hcap


end XzVerif.XzEncode
