/-
  The coder laws of the raw LZMA1/LZMA2 decoders (Model/Lzma.lean, Model/Lzma2.lean):
  one call of `code` (= `lz_decode`/`decode_buffer` with `lzma_decode` or `lzma2_decode` inside) never consumes more
  input than there is and never produces more output than allowed.
-/
import XzVerif.Lemmas.C03Call
import XzVerif.Model.Lzma2

namespace XzVerif.Lzma
open XzVerif.RangeDec XzVerif.LzDict

/-- What one call of the inner coder (`lzma_decode`, `lzma2_decode`) guarantees to `decode_buffer`. -/
structure Cr (s s' : St) : Prop where
  inp : s'.inp = s.inp
  pos_mono : s.inPos ≤ s'.inPos
  pos_le : s.inPos ≤ s.inp.size → s'.inPos ≤ s'.inp.size
  outBase : s'.outBase = s.outBase
  limit : s'.dp.limit = s.dp.limit
  size : s'.dp.size = s.dp.size
  dpos_mono : s.dp.pos ≤ s'.dp.pos
  hist_eq : s'.hist.size + s.dp.pos = s.hist.size + s'.dp.pos
  in_limit : s.dp.pos ≤ s.dp.limit → s'.dp.pos ≤ s'.dp.limit

theorem Cr.refl (s : St) : Cr s s := ⟨rfl, Nat.le_refl _, id, rfl, rfl, rfl, Nat.le_refl _, rfl, id⟩

theorem Cr.trans {a b c : St} (h1 : Cr a b) (h2 : Cr b c) : Cr a c where
  inp := h2.inp.trans h1.inp
  pos_mono := Nat.le_trans h1.pos_mono h2.pos_mono
  pos_le := fun h => h2.pos_le (h1.inp ▸ h1.pos_le h)
  outBase := h2.outBase.trans h1.outBase
  limit := h2.limit.trans h1.limit
  size := h2.size.trans h1.size
  dpos_mono := Nat.le_trans h1.dpos_mono h2.dpos_mono
  hist_eq := by have := h1.hist_eq; have := h2.hist_eq; omega
  in_limit := fun h => h2.in_limit (h1.in_limit h)

theorem Wr.toCr {s s' : St} (h : Wr s s') : Cr s s' :=
  ⟨h.inp, h.pos_mono, h.pos_le, h.outBase, h.limit, h.size, h.dpos_mono, h.hist_eq, h.in_limit⟩

/-- a state change that touches none of the fields `Cr` talks about -/
theorem Cr.of_same {s s' : St} (h1 : s'.inp = s.inp) (h2 : s'.inPos = s.inPos) (h3 : s'.outBase = s.outBase)
    (h4 : s'.dp.limit = s.dp.limit) (h5 : s'.dp.size = s.dp.size) (h6 : s'.dp.pos = s.dp.pos) (h7 : s'.hist = s.hist) : Cr s s' where
  inp := h1
  pos_mono := by rw [h2]; exact Nat.le_refl _
  pos_le := by rw [h1, h2]; exact id
  outBase := h3
  limit := h4
  size := h5
  dpos_mono := by rw [h6]; exact Nat.le_refl _
  hist_eq := by rw [h6, h7]
  in_limit := by rw [h4, h6]; exact id

/-- consuming one input byte that is there -/
theorem Cr.of_byte {s s' : St} (hb : s.inPos < s.inp.size) (h1 : s'.inp = s.inp) (h2 : s'.inPos = s.inPos + 1)
    (h3 : s'.outBase = s.outBase) (h4 : s'.dp.limit = s.dp.limit) (h5 : s'.dp.size = s.dp.size) (h6 : s'.dp.pos = s.dp.pos)
    (h7 : s'.hist = s.hist) : Cr s s' where
  inp := h1
  pos_mono := by rw [h2]; omega
  pos_le := by rw [h1, h2]; intro _; omega
  outBase := h3
  limit := h4
  size := h5
  dpos_mono := by rw [h6]; exact Nat.le_refl _
  hist_eq := by rw [h6, h7]
  in_limit := by rw [h4, h6]; exact id

end XzVerif.Lzma

namespace XzVerif.Lzma2
open XzVerif.RangeDec XzVerif.LzDict XzVerif.Lzma

theorem appendSlice_size (src : ByteArray) : ∀ n off (h : ByteArray), (appendSlice src n off h).size = h.size + n
  | 0, _, _ => rfl
  | n + 1, off, h => by
    unfold appendSlice
    rw [appendSlice_size src n _ _, ByteArray.size_push]
    omega

theorem cr_dictWrite (s : St) (left : Nat) (hp : s.inPos ≤ s.inp.size) : Cr s (dictWrite s left).2 := by
  unfold dictWrite DictPos.advance DictPos.avail
  simp only []
  have h1 : min (min (s.inp.size - s.inPos) left) (s.dp.limit - s.dp.pos) ≤ s.inp.size - s.inPos :=
    Nat.le_trans (Nat.min_le_left _ _) (Nat.min_le_left _ _)
  have h2 : min (min (s.inp.size - s.inPos) left) (s.dp.limit - s.dp.pos) ≤ s.dp.limit - s.dp.pos := Nat.min_le_right _ _
  generalize min (min (s.inp.size - s.inPos) left) (s.dp.limit - s.dp.pos) = n at *
  constructor
  · rfl
  · simp only []; omega
  · intro _; simp only []; omega
  · rfl
  · rfl
  · rfl
  · simp only []; omega
  · simp only [appendSlice_size]; omega
  · intro _; simp only []; omega

theorem cr_resetLzma (s : St) (p : Props) : Cr s (s.resetLzma p) :=
  Cr.of_same rfl rfl rfl rfl rfl rfl rfl

theorem cr_setL2 (s : St) (f : L2 → L2) : Cr s (setL2 s f) :=
  Cr.of_same rfl rfl rfl rfl rfl rfl rfl

theorem cr_controlApply (s : St) (a : ControlAction) : Cr s (controlApply s a) := by
  unfold controlApply
  simp only []
  split
  · split
    · exact (cr_setL2 _ _).trans ((cr_setL2 _ _).trans (cr_resetLzma _ _))
    · exact (cr_setL2 _ _).trans (cr_setL2 _ _)
  · exact (cr_setL2 _ _).trans (cr_setL2 _ _)

/-- `lzma2_decode` (any fuel): the coder relation, given that the cursor starts inside the input and the dictionary position
    below the limit. -/
theorem lzma2Loop_spec : ∀ (fuel : Nat) (s : St), s.inPos ≤ s.inp.size → s.dp.pos ≤ s.dp.limit → Cr s (lzma2Loop fuel s).2
  | 0, s, _, _ => by unfold lzma2Loop; exact Cr.refl s
  | fuel + 1, s, hin, hlim => by
    unfold lzma2Loop
    split
    · exact Cr.refl s
    · next hguard =>
      -- in every state except SEQ_LZMA an input byte is available
      have hbyte : s.l2.seq ≠ .lzma → s.inPos < s.inp.size := by
        intro hne
        have : (s.inPos < s.inp.size || s.l2.seq == .lzma) = true := by
          cases hg : (s.inPos < s.inp.size || s.l2.seq == .lzma)
          · simp [hg] at hguard
          · rfl
        simp only [Bool.or_eq_true, decide_eq_true_eq, beq_iff_eq] at this
        rcases this with h | h
        · exact h
        · exact absurd h hne
      -- continuing the loop from a later state
      have cont : ∀ s1 : St, Cr s s1 → Cr s (lzma2Loop fuel s1).2 := by
        intro s1 h1
        have hin1 : s1.inPos ≤ s1.inp.size := h1.pos_le hin
        have hlim1 : s1.dp.pos ≤ s1.dp.limit := h1.in_limit hlim
        exact h1.trans (lzma2Loop_spec fuel s1 hin1 hlim1)
      simp only []
      generalize (if hlt : s.inPos < s.inp.size then s.inp[s.inPos] else 0) = b8
      split
      · -- control
        next hseq =>
        have hb := hbyte (by rw [hseq]; decide)
        have c1 : Cr s { s with inPos := s.inPos + 1 } := Cr.of_byte hb rfl rfl rfl rfl rfl rfl rfl
        split
        · exact c1
        · split
          · exact c1
          · have c2 := fun a => c1.trans (cr_controlApply { s with inPos := s.inPos + 1 } a)
            split
            · exact (c2 _).trans (Cr.of_same rfl rfl rfl rfl rfl rfl rfl)
            · exact cont _ (c2 _)
      · next hseq =>
        have hb := hbyte (by rw [hseq]; decide)
        exact cont _ (Cr.of_byte hb rfl rfl rfl rfl rfl rfl rfl)
      · next hseq =>
        have hb := hbyte (by rw [hseq]; decide)
        exact cont _ (Cr.of_byte hb rfl rfl rfl rfl rfl rfl rfl)
      · next hseq =>
        have hb := hbyte (by rw [hseq]; decide)
        exact cont _ (Cr.of_byte hb rfl rfl rfl rfl rfl rfl rfl)
      · next hseq =>
        have hb := hbyte (by rw [hseq]; decide)
        exact cont _ (Cr.of_byte hb rfl rfl rfl rfl rfl rfl rfl)
      · next hseq =>
        have hb := hbyte (by rw [hseq]; decide)
        have c1 : Cr s { s with inPos := s.inPos + 1 } := Cr.of_byte hb rfl rfl rfl rfl rfl rfl rfl
        split
        · exact c1
        · exact cont _ (Cr.of_byte hb rfl rfl rfl rfl rfl rfl rfl)
      · -- SEQ_LZMA
        have hcall := (lzmaCall_spec s hlim).1.toCr
        generalize hc : lzmaCall s = r at hcall
        obtain ⟨ret, s1⟩ := r
        have hcall' : Cr s s1 := hcall
        simp only []
        split
        · exact hcall'
        · split
          · exact hcall'.trans (Cr.of_same rfl rfl rfl rfl rfl rfl rfl)
          · split
            · exact hcall'.trans (Cr.of_same rfl rfl rfl rfl rfl rfl rfl)
            · exact cont _ (hcall'.trans (Cr.of_same rfl rfl rfl rfl rfl rfl rfl))
      · -- SEQ_COPY
        have hw := cr_dictWrite s s.l2.compressedSize hin
        generalize hd : dictWrite s s.l2.compressedSize = r at hw
        obtain ⟨n, s1⟩ := r
        have hw' : Cr s s1 := hw
        simp only []
        split
        · exact hw'.trans (Cr.of_same rfl rfl rfl rfl rfl rfl rfl)
        · exact cont _ (hw'.trans (Cr.of_same rfl rfl rfl rfl rfl rfl rfl))

theorem lzma2Call_spec (s : St) (hin : s.inPos ≤ s.inp.size) (hlim : s.dp.pos ≤ s.dp.limit) : Cr s (lzma2Call s).2 :=
  lzma2Loop_spec _ s hin hlim


/-! ### the LZ layer and the coder interface -/

/-- what holds of a coder state between calls, relative to the total output allowance `outSize` -/
structure LzInv (s : St) (outSize : Nat) : Prop where
  inp_ok : s.inPos ≤ s.inp.size
  base_ok : s.outBase ≤ s.hist.size
  out_ok : s.hist.size - s.outBase ≤ outSize

theorem setLimit_wrap_bounds (p : DictPos) (n : Nat) :
    ((p.wrap).setLimit n).pos ≤ ((p.wrap).setLimit n).limit
    ∧ ((p.wrap).setLimit n).limit - ((p.wrap).setLimit n).pos ≤ n := by
  unfold DictPos.setLimit
  simp only []
  have := Nat.min_le_left n ((p.wrap).size - (p.wrap).pos)
  omega

/-- `decode_buffer` around any inner coder that satisfies the coder relation: the cursor stays inside the input,
    the produced output stays within the allowance, nothing already produced is lost. -/
theorem decodeBuffer_spec (code : St → Ret × St)
    (hcode : ∀ s, s.inPos ≤ s.inp.size → s.dp.pos ≤ s.dp.limit → Cr s (code s).2) :
    ∀ (fuel outSize : Nat) (s : St), LzInv s outSize →
      LzInv (decodeBuffer code fuel outSize s).2 outSize
      ∧ (decodeBuffer code fuel outSize s).2.inp = s.inp
      ∧ s.inPos ≤ (decodeBuffer code fuel outSize s).2.inPos
      ∧ (decodeBuffer code fuel outSize s).2.outBase = s.outBase
      ∧ s.hist.size ≤ (decodeBuffer code fuel outSize s).2.hist.size
  | 0, outSize, s, h => by
    unfold decodeBuffer
    exact ⟨h, rfl, Nat.le_refl _, rfl, Nat.le_refl _⟩
  | fuel + 1, outSize, s, h => by
    unfold decodeBuffer
    simp only []
    generalize hs1 : ({ s with dp := (s.dp.wrap).setLimit (outSize - s.produced) } : St) = s1
    have hb := setLimit_wrap_bounds s.dp (outSize - s.produced)
    have e_inp : s1.inp = s.inp := by rw [← hs1]
    have e_pos : s1.inPos = s.inPos := by rw [← hs1]
    have e_hist : s1.hist = s.hist := by rw [← hs1]
    have e_ob : s1.outBase = s.outBase := by rw [← hs1]
    have e_dp : s1.dp = (s.dp.wrap).setLimit (outSize - s.produced) := by rw [← hs1]
    have hin1 : s1.inPos ≤ s1.inp.size := by rw [e_inp, e_pos]; exact h.inp_ok
    have hlim1 : s1.dp.pos ≤ s1.dp.limit := by rw [e_dp]; exact hb.1
    have hc := hcode s1 hin1 hlim1
    generalize hr : code s1 = r at hc
    obtain ⟨ret, s2⟩ := r
    have hc' : Cr s1 s2 := hc
    -- facts about s2
    have a1 := hc'.inp; have a2 := hc'.pos_mono; have a3 := hc'.pos_le hin1; have a4 := hc'.outBase
    have a5 := hc'.hist_eq; have a6 := hc'.in_limit hlim1; have a7 := hc'.limit; have a8 := hc'.dpos_mono
    have hb2 := hb.2
    rw [← e_dp] at hb2
    have hbase := h.base_ok; have hout := h.out_ok
    have hprod : s.produced = s.hist.size - s.outBase := rfl
    have inv2 : LzInv s2 outSize := by
      refine ⟨a3, ?_, ?_⟩
      · rw [a4, e_ob]; rw [e_hist] at a5; omega
      · rw [a4, e_ob]; rw [e_hist] at a5; omega
    have rel2 : s2.inp = s.inp ∧ s.inPos ≤ s2.inPos ∧ s2.outBase = s.outBase ∧ s.hist.size ≤ s2.hist.size := by
      refine ⟨a1.trans e_inp, by rw [← e_pos]; exact a2, a4.trans e_ob, ?_⟩
      rw [e_hist] at a5; omega
    -- the reset variant of s2 has the same relevant fields
    have inv3 : LzInv ({ s2 with dp := s2.dp.reset } : St) outSize := ⟨inv2.inp_ok, inv2.base_ok, inv2.out_ok⟩
    simp only []
    split
    · split
      · exact ⟨inv3, rel2.1, rel2.2.1, rel2.2.2.1, rel2.2.2.2⟩
      · have ih := decodeBuffer_spec code hcode fuel outSize _ inv3
        refine ⟨ih.1, ih.2.1.trans rel2.1, Nat.le_trans rel2.2.1 ih.2.2.1, ih.2.2.2.1.trans rel2.2.2.1,
          Nat.le_trans rel2.2.2.2 ih.2.2.2.2⟩
    · split
      · exact ⟨inv2, rel2.1, rel2.2.1, rel2.2.2.1, rel2.2.2.2⟩
      · have ih := decodeBuffer_spec code hcode fuel outSize _ inv2
        refine ⟨ih.1, ih.2.1.trans rel2.1, Nat.le_trans rel2.2.1 ih.2.2.1, ih.2.2.2.1.trans rel2.2.2.1,
          Nat.le_trans rel2.2.2.2 ih.2.2.2.2⟩

/-- a coder state is well formed: cursor inside the input, output base inside the history -/
def Coder.Ok (c : Coder) : Prop := c.s.inPos ≤ c.s.inp.size ∧ c.s.outBase ≤ c.s.hist.size

theorem byteArray_mk_size (l : List UInt8) : (ByteArray.mk l.toArray).size = l.length := by
  simp [ByteArray.size]

theorem Coder.ok_initLzma1 (props : Props) (d : Nat) (u : Option Nat) (a : Bool) (preset : List UInt8) (input : ByteArray) :
    (Coder.initLzma1 props d u a preset input).Ok := by
  unfold Coder.Ok Coder.initLzma1 St.initLzma1 St.resetLzma
  simp only [byteArray_mk_size]
  exact ⟨Nat.zero_le _, Nat.le_refl _⟩

theorem Coder.ok_initLzma2 (d : Nat) (preset : List UInt8) (input : ByteArray) : (Coder.initLzma2 d preset input).Ok := by
  unfold Coder.Ok Coder.initLzma2 Lzma2.initLzma2
  simp only [byteArray_mk_size]
  exact ⟨Nat.zero_le _, Nat.le_refl _⟩

theorem Coder.output_length (c : Coder) : c.output.length = c.produced := by
  unfold Coder.output Coder.produced St.produced histFrom
  rw [List.length_drop, Array.length_toList]
  rfl

/-- THE CODER LAW. One call of `code` offering `outCap` more bytes of output space: the coder stays well formed,
    the input is the same, the cursor only moves forward and stays inside the input, at most `outCap` bytes are added to
    the output and nothing already produced changes its position. -/
theorem Coder.code_spec (c : Coder) (outCap : Nat) (h : c.Ok) :
    (c.code outCap).2.Ok
    ∧ (c.code outCap).2.s.inp = c.s.inp
    ∧ c.consumed ≤ (c.code outCap).2.consumed
    ∧ (c.code outCap).2.consumed ≤ c.s.inp.size
    ∧ c.produced ≤ (c.code outCap).2.produced
    ∧ (c.code outCap).2.produced ≤ c.produced + outCap := by
  have hinv : LzInv c.s (c.s.produced + outCap) := ⟨h.1, h.2, by unfold St.produced; omega⟩
  have key : ∀ code : St → Ret × St, (∀ s, s.inPos ≤ s.inp.size → s.dp.pos ≤ s.dp.limit → Cr s (code s).2) →
      ∀ s', s' = (decodeBuffer code (decodeBufferFuel c.s (c.s.produced + outCap)) (c.s.produced + outCap) c.s).2 →
        (s'.inPos ≤ s'.inp.size ∧ s'.outBase ≤ s'.hist.size) ∧ s'.inp = c.s.inp ∧ c.s.inPos ≤ s'.inPos
        ∧ s'.inPos ≤ c.s.inp.size ∧ c.s.produced ≤ s'.produced ∧ s'.produced ≤ c.s.produced + outCap := by
    intro code hcode s' hs'
    have sp := decodeBuffer_spec code hcode (decodeBufferFuel c.s (c.s.produced + outCap)) (c.s.produced + outCap) c.s hinv
    rw [← hs'] at sp
    have i1 := sp.1.inp_ok; have i2 := sp.1.base_ok; have i3 := sp.1.out_ok
    refine ⟨⟨i1, i2⟩, sp.2.1, sp.2.2.1, by rw [← sp.2.1]; exact i1, ?_, ?_⟩
    · unfold St.produced; rw [sp.2.2.2.1]; have := sp.2.2.2.2; omega
    · unfold St.produced; exact i3
  unfold Coder.code Coder.Ok Coder.consumed Coder.produced
  simp only []
  split
  · exact key lzmaCall (fun s _ hl => (lzmaCall_spec s hl).1.toCr) _ rfl
  · exact key lzma2Call (fun s hi hl => lzma2Call_spec s hi hl) _ rfl

end XzVerif.Lzma2
