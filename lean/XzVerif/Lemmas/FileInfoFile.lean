/-
  C13 helper lemmas for `file_info_correct`: a multi-Stream .xz file described at the specification level
  (`StreamDesc`: Check ID, Records, abstract Block bytes, Stream Padding), its bytes through the container encoders,
  and where the Stream Header / Index / Stream Footer / Stream Padding of each Stream sit in the file.
-/
import XzVerif.Lemmas.FileInfoBytes

namespace XzVerif.Index

/-- One Stream of a file: the Check ID, the Records of its Blocks, the bytes of the Blocks (abstract: any byte string
    of the recorded total size) and the Stream Padding that follows it. -/
structure StreamDesc where
  check : Nat
  blocks : List Block
  payload : List UInt8
  padding : Nat

namespace StreamDesc

/-- Backward Size: the size of the Index field -/
def bsz (d : StreamDesc) : Nat := indexSize d.blocks.length (listSize d.blocks)
def flags (d : StreamDesc) : Container.StreamFlags := { version := 0, check := d.check }
/-- `lzma_stream_header_encode` -/
def hdr (d : StreamDesc) : List UInt8 :=
  match Container.streamHeaderEncode d.flags with | .ok h => h | .error _ => []
/-- `lzma_stream_footer_encode` -/
def ftr (d : StreamDesc) : List UInt8 :=
  match Container.streamFooterEncode d.flags d.bsz with | .ok f => f | .error _ => []
/-- the Index field (`index_encode`) -/
def idx (d : StreamDesc) : List UInt8 := Container.indexEncode (d.blocks.map toRecord)
/-- Stream Header, Blocks, Index, Stream Footer -/
def core (d : StreamDesc) : List UInt8 := d.hdr ++ d.payload ++ d.idx ++ d.ftr
/-- the Stream with its Stream Padding -/
def bytes (d : StreamDesc) : List UInt8 := d.core ++ List.replicate d.padding 0
/-- what the file-info decoder must report for this Stream -/
def streamRec (d : StreamDesc) : StreamRec := ⟨some ⟨0, d.bsz, d.check⟩, d.padding, d.blocks⟩
def coreLen (d : StreamDesc) : Nat := 24 + blocksSize d.blocks + d.bsz

/-- a Stream the encoders accept and the format allows -/
structure Ok (d : StreamDesc) : Prop where
  check : d.check ≤ 15
  payload : d.payload.length = blocksSize d.blocks
  pad : d.padding % 4 = 0
  valid : Spec.Valid [⟨none, 0, d.blocks⟩]
  bszMax : d.bsz ≤ BACKWARD_SIZE_MAX

theorem Ok.blocksOk {d : StreamDesc} (h : d.Ok) : BlocksOk d.blocks := blocksOk_of_valid h.valid h.bszMax

theorem bsz_ge (d : StreamDesc) : 5 ≤ d.bsz ∧ d.bsz % 4 = 0 := by
  unfold bsz indexSize indexSizeUnpadded vliCeil4; omega

theorem Ok.hdr_eq {d : StreamDesc} (h : d.Ok) : Container.streamHeaderEncode d.flags = .ok d.hdr := by
  have hc : ¬ d.check > Container.CHECK_ID_MAX := by unfold Container.CHECK_ID_MAX; have := h.check; omega
  have : ∃ b, Container.streamHeaderEncode d.flags = .ok b := by
    unfold Container.streamHeaderEncode Container.streamFlagsBytes flags
    simp only [ne_eq, not_true_eq_false, if_false, hc]
    exact ⟨_, rfl⟩
  obtain ⟨b, hb⟩ := this
  unfold hdr; rw [hb]

theorem Ok.ftr_eq {d : StreamDesc} (h : d.Ok) : Container.streamFooterEncode d.flags d.bsz = .ok d.ftr := by
  have hc : ¬ d.check > Container.CHECK_ID_MAX := by unfold Container.CHECK_ID_MAX; have := h.check; omega
  have hv : Container.isBackwardSizeValid d.bsz = true := by
    have := bsz_ge d
    have := h.bszMax
    unfold Container.isBackwardSizeValid Container.BACKWARD_SIZE_MIN Container.BACKWARD_SIZE_MAX
    unfold BACKWARD_SIZE_MAX at *
    simp only [decide_eq_true_eq]
    omega
  have : ∃ b, Container.streamFooterEncode d.flags d.bsz = .ok b := by
    unfold Container.streamFooterEncode Container.streamFlagsBytes flags
    simp only [ne_eq, not_true_eq_false, if_false, hc, hv, Bool.not_true, Bool.false_eq_true]
    exact ⟨_, rfl⟩
  obtain ⟨b, hb⟩ := this
  unfold ftr; rw [hb]

theorem Ok.hdr_facts {d : StreamDesc} (h : d.Ok) : d.hdr.length = 12 ∧ headerDecode d.hdr = .ok d.check := by
  obtain ⟨h1, h2⟩ := Container.streamHeader_roundtrip d.flags d.hdr [] h.hdr_eq
  rw [List.append_nil] at h2
  exact ⟨h1, headerDecode_of_container h2⟩

theorem Ok.ftr_facts {d : StreamDesc} (h : d.Ok) :
    d.ftr.length = 12 ∧ footerDecode d.ftr = .ok (d.check, d.bsz) ∧ ∃ init, d.ftr = init ++ [0x5A] ∧ init.length = 11 := by
  obtain ⟨h1, h2⟩ := Container.streamFooter_roundtrip d.flags d.bsz d.ftr [] h.ftr_eq
  rw [List.append_nil] at h2
  exact ⟨h1, footerDecode_of_container h2, footer_last h.ftr_eq⟩

theorem Ok.idx_facts {d : StreamDesc} (h : d.Ok) : d.idx = encodeBlocks d.blocks ∧ d.idx.length = d.bsz := by
  have hb := h.blocksOk
  have he : d.idx = encodeBlocks d.blocks :=
    container_indexEncode_eq hb.length_le (fun b hbm => by
      have := hb.blocks b hbm
      unfold UNPADDED_SIZE_MAX VLI_MAX at *; exact ⟨by omega, this.2.2⟩)
  exact ⟨he, by rw [he]; exact (decode_encode hb).2.2.2⟩

theorem Ok.core_length {d : StreamDesc} (h : d.Ok) : d.core.length = d.coreLen := by
  unfold core coreLen
  simp only [List.length_append, h.hdr_facts.1, h.ftr_facts.1, h.idx_facts.2, h.payload]
  omega

theorem Ok.bytes_length {d : StreamDesc} (h : d.Ok) : d.bytes.length = d.streamRec.span := by
  unfold bytes
  rw [List.length_append, h.core_length, List.length_replicate]
  unfold streamRec StreamRec.span StreamRec.compressedSize coreLen bsz STREAM_HEADER_SIZE
  simp only
  try omega

theorem coreLen_ge (d : StreamDesc) : 29 ≤ d.coreLen ∧ d.coreLen % 4 = 0 := by
  have := bsz_ge d
  have := blocksSize_mod d.blocks
  unfold coreLen; omega

end StreamDesc

/-- the bytes of the file: the Streams with their Stream Padding, in order -/
def fileBytes (ds : List StreamDesc) : List UInt8 := ds.flatMap StreamDesc.bytes

/-- the index `lzma_file_info_decoder` must produce -/
def expectedIndex (ds : List StreamDesc) : Index := ds.map StreamDesc.streamRec

theorem fileBytes_append (a b : List StreamDesc) : fileBytes (a ++ b) = fileBytes a ++ fileBytes b := by
  unfold fileBytes; simp

theorem fileBytes_length {ds : List StreamDesc} (h : ∀ d ∈ ds, d.Ok) :
    (fileBytes ds).length = Spec.rawFileSize (expectedIndex ds) := by
  induction ds with
  | nil => rfl
  | cons d r ih =>
    have := ih (fun x hx => h x (List.mem_cons_of_mem _ hx))
    simp only [fileBytes, List.flatMap_cons, List.length_append, expectedIndex, List.map_cons, Spec.rawFileSize,
      List.sum_cons] at this ⊢
    rw [(h d (by simp)).bytes_length, this]

theorem fileBytes_mod {ds : List StreamDesc} (h : ∀ d ∈ ds, d.Ok) : (fileBytes ds).length % 4 = 0 := by
  induction ds with
  | nil => rfl
  | cons d r ih =>
    have := ih (fun x hx => h x (List.mem_cons_of_mem _ hx))
    have hd := h d (by simp)
    have hl := hd.bytes_length
    have hc := StreamDesc.coreLen_ge d
    simp only [fileBytes, List.flatMap_cons, List.length_append] at this ⊢
    have : d.bytes.length % 4 = 0 := by
      unfold StreamDesc.bytes
      rw [List.length_append, hd.core_length, List.length_replicate]
      have := hd.pad; omega
    omega

/-- a non-empty file is at least one minimal Stream long -/
theorem fileBytes_ge {ds : List StreamDesc} (h : ∀ d ∈ ds, d.Ok) (hne : ds ≠ []) : 32 ≤ (fileBytes ds).length := by
  cases ds with
  | nil => exact absurd rfl hne
  | cons d r =>
    have hd := h d (by simp)
    have hc := StreamDesc.coreLen_ge d
    simp only [fileBytes, List.flatMap_cons, List.length_append]
    have : d.coreLen ≤ d.bytes.length := by
      unfold StreamDesc.bytes; rw [List.length_append, hd.core_length]; omega
    omega

/-! ### where the fields of one Stream sit -/

/-- In the file `F`, the Stream `d` starts at position `P`: its Stream Header, Index and Stream Footer can be read at
    their places, and counting zero bytes backwards from anywhere inside its Stream Padding stops at the Footer. -/
structure StreamAt (F : List UInt8) (d : StreamDesc) (P : Nat) : Prop where
  hdrAt : bytesAt F.toArray P 12 = d.hdr
  idxAt : bytesAt F.toArray (P + 12 + blocksSize d.blocks) d.bsz = encodeBlocks d.blocks
  ftrAt : bytesAt F.toArray (P + 12 + blocksSize d.blocks + d.bsz) 12 = d.ftr
  zeros : ∀ n start, P + d.coreLen ≤ start + n → start + n ≤ P + d.coreLen + d.padding →
    trailingZeros F.toArray start n = min n (start + n - (P + d.coreLen))

theorem streamAt_of_split {pre suf : List StreamDesc} {d : StreamDesc} (hd : d.Ok) :
    StreamAt (fileBytes (pre ++ d :: suf)) d (fileBytes pre).length := by
  obtain ⟨hl, _⟩ := hd.hdr_facts
  obtain ⟨fl, _, init, hinit, hil⟩ := hd.ftr_facts
  obtain ⟨hie, hil2⟩ := hd.idx_facts
  have hF : fileBytes (pre ++ d :: suf)
      = fileBytes pre ++ (d.hdr ++ d.payload ++ d.idx ++ d.ftr ++ List.replicate d.padding 0) ++ fileBytes suf := by
    rw [fileBytes_append]
    simp only [fileBytes, List.flatMap_cons, StreamDesc.bytes, StreamDesc.core, List.append_assoc]
  refine ⟨?_, ?_, ?_, ?_⟩
  · have : fileBytes (pre ++ d :: suf)
        = fileBytes pre ++ d.hdr ++ (d.payload ++ d.idx ++ d.ftr ++ List.replicate d.padding 0 ++ fileBytes suf) := by
      rw [hF]; simp only [List.append_assoc]
    rw [this]
    exact bytesAt_mid' rfl hl.symm
  · have : fileBytes (pre ++ d :: suf)
        = (fileBytes pre ++ d.hdr ++ d.payload) ++ d.idx ++ (d.ftr ++ List.replicate d.padding 0 ++ fileBytes suf) := by
      rw [hF]; simp only [List.append_assoc]
    rw [this, ← hie]
    exact bytesAt_mid' (by simp [hl, hd.payload]; omega) hil2.symm
  · have : fileBytes (pre ++ d :: suf)
        = (fileBytes pre ++ d.hdr ++ d.payload ++ d.idx) ++ d.ftr ++ (List.replicate d.padding 0 ++ fileBytes suf) := by
      rw [hF]; simp only [List.append_assoc]
    rw [this]
    exact bytesAt_mid' (by simp [hl, hd.payload, hil2]; omega) fl.symm
  · intro n start h1 h2
    have : fileBytes (pre ++ d :: suf)
        = (fileBytes pre ++ d.hdr ++ d.payload ++ d.idx ++ init) ++ [0x5A] ++ List.replicate d.padding 0 ++ fileBytes suf := by
      rw [hF, hinit]; simp only [List.append_assoc]
    rw [this]
    have hlen : (fileBytes pre ++ d.hdr ++ d.payload ++ d.idx ++ init).length + 1 = (fileBytes pre).length + d.coreLen := by
      simp only [List.length_append, hl, hd.payload, hil2, hil]
      unfold StreamDesc.coreLen; omega
    have := trailingZeros_spec (fileBytes pre ++ d.hdr ++ d.payload ++ d.idx ++ init) 0x5A d.padding (fileBytes suf)
      (by decide) n start (by omega) (by omega)
    rw [this, hlen]

end XzVerif.Index
