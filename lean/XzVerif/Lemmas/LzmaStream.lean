/-
  Stream-level round trip at the operation level (`symbols_roundtrip`): the specification decoder loop, run against the
  operations the encoder queues for a valid symbol sequence followed by the end marker, returns exactly the expanded
  window and consumes exactly those operations.
-/
import XzVerif.Lemmas.LzmaSym
import XzVerif.Model.LzmaSpec

namespace XzVerif.LzmaSym
open XzVerif.RangeDec XzVerif.RangeEnc XzVerif.Lzma XzVerif.LzmaEnc XzVerif.LzmaSymDec XzVerif.LzmaSpec

theorem updateLiteral_split (st : Nat) :
    updateLiteral st = if isLiteralState st then updateLiteralNormal st else updateLiteralMatched st := by
  unfold updateLiteral isLiteralState updateLiteralNormal updateLiteralMatched LIT_STATES
  by_cases h : st < 7
  · simp only [h, decide_true, if_true]
    by_cases h3 : st ≤ 3
    · simp [h3]
    · have : st ≤ 9 := by omega
      simp [h3, this]
  · simp only [h, decide_false, Bool.false_eq_true, if_false]
    have h3 : ¬ st ≤ 3 := by omega
    simp [h3]

/-- the state/rep update computed inside `encode_symbol` is `SymSt.next` -/
theorem symOps_next (p : Props) (s : SymSt) (pos prev mb : Nat) (sym : Sym) (hv : ValidSym sym) :
    (symOps p s pos prev mb sym).2 = s.next sym := by
  cases sym with
  | lit b =>
    simp only [symOps, literalOps, SymSt.next, updateLiteral_split]
    by_cases hl : isLiteralState s.state <;> simp [hl]
  | mtch dist len => simp [symOps, matchOps, SymSt.next]
  | rep idx len =>
    obtain ⟨hi, h2, _⟩ := hv
    have hl1 : (len == 1) = false := by simp; omega
    have hidx : idx = 0 ∨ idx = 1 ∨ idx = 2 ∨ idx = 3 := by omega
    rcases hidx with rfl | rfl | rfl | rfl <;> simp [symOps, repOps, SymSt.next, hl1]
  | shortrep => simp [symOps, repOps, SymSt.next]

theorem applySym_valid {dictSize : Nat} {rb rb' : List UInt8} {s : SymSt} {sym : Sym} (hd : dictSize ≤ 4294967295)
    (h : applySym dictSize rb s sym = some rb') : ValidSym sym ∧ isEopm sym = false := by
  cases sym with
  | lit b => exact ⟨trivial, rfl⟩
  | mtch dist len =>
    simp only [applySym, MATCH_LEN_MAX] at h
    split at h
    · rename_i hc
      refine ⟨⟨hc.1, hc.2.1, by omega⟩, ?_⟩
      simp only [isEopm, beq_eq_false_iff_ne, ne_eq]; omega
    · cases h
  | rep idx len =>
    simp only [applySym, MATCH_LEN_MAX, REPS] at h
    split at h
    · rename_i hc; exact ⟨⟨hc.2.2.1, hc.1, hc.2.1⟩, rfl⟩
    · cases h
  | shortrep => exact ⟨trivial, rfl⟩

theorem eopmOps_eq (p : Props) (s : SymSt) (pos prev mb : Nat) :
    eopmOps p s pos = (symOps p s pos prev mb (.mtch 4294967295 2)).1 := by
  simp [eopmOps, symOps, UINT32_MAX, MATCH_LEN_MIN]

/-- `symbols_roundtrip`: the decoder loop against the encoder's operations (any further operations `rest` untouched). -/
theorem decLoop_ops (p : Props) (dictSize : Nat) (hd : dictSize ≤ 4294967295) :
    ∀ (syms : List Sym) (fuel pos : Nat) (s : SymSt) (rb : List UInt8) (ops : List Op) (pos' : Nat) (s' : SymSt)
      (rb' : List UInt8) (rest : List Op),
      encSyms p dictSize syms pos s rb = some (ops, pos', s', rb') → syms.length < fuel →
      (decLoop p dictSize fuel pos s rb).runOps (ops ++ eopmOps p s' pos' ++ rest) = some (rb', rest)
  | [], fuel, pos, s, rb, ops, pos', s', rb', rest, h, hf => by
    simp only [encSyms, Option.some.injEq, Prod.mk.injEq] at h
    obtain ⟨rfl, rfl, rfl, rfl⟩ := h
    obtain ⟨f, rfl⟩ : ∃ f, fuel = f + 1 := ⟨fuel - 1, by simp at hf; omega⟩
    simp only [decLoop, List.nil_append]
    rw [eopmOps_eq p s pos (prevByte rb) (matchByte rb s.rep0),
      runOps_bind_of _ (decodeSym_ops p s pos _ _ (.mtch 4294967295 2) ⟨by norm_num, by norm_num, by norm_num⟩ rest)]
    simp [isEopm, Prog.runOps]
  | sym :: syms, fuel, pos, s, rb, ops, pos', s', rb', rest, h, hf => by
    obtain ⟨f, rfl⟩ : ∃ f, fuel = f + 1 := ⟨fuel - 1, by simp at hf; omega⟩
    simp only [encSyms] at h
    split at h
    · cases h
    · rename_i rb1 happ
      split at h
      · cases h
      · rename_i ops1 fin hrec
        simp only [Option.some.injEq, Prod.mk.injEq] at h
        obtain ⟨rfl, rfl⟩ := h
        obtain ⟨hv, he⟩ := applySym_valid hd happ
        simp only [decLoop, List.append_assoc]
        rw [runOps_bind_of _ (decodeSym_ops p s pos _ _ sym hv _)]
        simp only [he, Bool.false_eq_true, if_false, happ]
        have := decLoop_ops p dictSize hd syms f (pos + sym.len) _ rb1 ops1 pos' s' rb' rest hrec
          (by simp at hf; omega)
        simpa [List.append_assoc] using this

end XzVerif.LzmaSym
