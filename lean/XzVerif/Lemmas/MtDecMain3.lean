/-
  Preservation of data + control invariant: main-thread transitions that write worker fields (threads_stop, threads_end,
  thread start, input hand-over) or move the cursor (direct mode, Index).
-/
import XzVerif.Lemmas.MtDecMain

namespace XzVerif.MtDec

/-- Changing only `st`, `woken`, `inAlloc`, `pu` of a worker keeps its invariant when the new `st` is not RUN. -/
theorem WInv.setSt {s : State} {w : Worker} (h : WInv s w) (st : WSt) (wk : Bool) (hst : st ≠ .run) :
    WInv s { w with st := st, woken := wk } := by
  refine ⟨h.outLe, h.fillLe, h.has, ?_, fun hr => absurd hr hst⟩
  have := h.pcInv
  revert this
  cases w.pc <;> simp_all

theorem CtlInv.setWOther {s : State} (h : CtlInv s) (i : Nat) (w : Worker) (p : MPc)
    (hp1 : rowKOf p = none) (hp2 : p ≠ .init3 ∧ p ≠ .init4 ∧ p ≠ .init1 ∧ p ≠ .init2 ∧ p ≠ .init5)
    (hp3 : ∀ f n, p ≠ .tell f n) (hne : s.pc ≠ .ended) (hn45 : s.pc ≠ .init4 ∧ s.pc ≠ .init5)
    (hp5 : (∃ j, p = .endSet j .direct ∨ p = .endJoin j .direct) → s.seq = .directInit ∧ s.queue = []) :
    CtlInv { MtDec.setW s i w with pc := p } := by
  obtain ⟨c1, c2, c3, c4, c5, c6, c6a, c6b, c7, c8, c9, c10⟩ := h
  refine ⟨?_, c2, c3, c4, ?_, ?_, c6a, hp5, ?_, ?_, ?_, ?_⟩
  · intro hx; apply c1
    rcases hx with hx | hx | hx
    · exact Or.inl hx
    · exact Or.inr (Or.inl ⟨hx.1, hn45⟩)
    · exact Or.inr (Or.inr hx)
  · intro k hk; simp [hp1] at hk
  · intro _ t ht
    simp only [setW_workers_length]
    exact c6 hne t ht
  · intro hp; exact absurd hp hp2.1
  · intro hp; exact absurd hp hp2.2.1
  · intro hp
    rcases hp with hp | hp | hp | hp | hp
    · exact absurd hp hp2.2.2.1
    · exact absurd hp hp2.2.2.2.1
    · exact absurd hp hp2.1
    · exact absurd hp hp2.2.1
    · exact absurd hp hp2.2.2.2.2
  · intro f n hp; exact absurd hp (hp3 f n)

theorem Inv.stopOne {s s' : State} (h : Inv s) (hs : step s .stopOne = some s') : Inv s' := by
  simp only [step] at hs
  split at hs
  case h_2 => cases hs
  rename_i i r hpc
  split at hs
  · rename_i hi
    injection hs with hs; subst hs
    have hw := h.1.wk i hi
    have hd : DataInv (MtDec.setW s i { getW s i with st := .idle }) := by
      refine h.1.setW i hi _ ?_ rfl rfl ?_
      · have := hw.setSt .idle (getW s i).woken (by simp); exact this
      · intro hf; have := h.1.free i hf; exact ⟨this.2.2.1, this.2.2.2.1, by simp⟩
    refine ⟨hd.congr rfl rfl rfl rfl rfl rfl rfl rfl, ?_⟩
    exact h.2.setWOther i _ _ rfl (by simp) (by simp) (by rw [hpc]; simp) (by rw [hpc]; simp) (by simp)
  · injection hs with hs; subst hs
    refine ⟨h.1.congr rfl rfl rfl rfl rfl rfl rfl rfl, ?_⟩
    obtain ⟨c1, c2, c3, c4, c5, c6, c6a, c6b, c7, c8, c9, c10⟩ := h.2
    ctl_fields

theorem Inv.endSet {s s' : State} (h : Inv s) (hs : step s .endSet = some s') : Inv s' := by
  simp only [step] at hs
  split at hs
  case h_2 => cases hs
  rename_i i k hpc
  split at hs
  · rename_i hi
    injection hs with hs; subst hs
    have hw := h.1.wk i hi
    have hd : DataInv (MtDec.setW s i (signalW { getW s i with st := .exit })) := by
      refine h.1.setW i hi _ ?_ rfl rfl ?_
      · have := hw.setSt .exit true (by simp); exact this
      · intro hf; have := h.1.free i hf; exact ⟨this.2.2.1, this.2.2.2.1, by simp [signalW]⟩
    refine ⟨hd.congr rfl rfl rfl rfl rfl rfl rfl rfl, ?_⟩
    refine h.2.setWOther i _ _ rfl (by simp) (by simp) (by rw [hpc]; simp) (by rw [hpc]; simp) ?_
    intro ⟨j, hj⟩
    apply h.2.endDirect
    rcases hj with hj | hj
    · injection hj with _ hk; subst hk; exact ⟨i, Or.inl hpc⟩
    · cases hj
  · injection hs with hs; subst hs
    refine ⟨h.1.congr rfl rfl rfl rfl rfl rfl rfl rfl, ?_⟩
    obtain ⟨c1, c2, c3, c4, c5, c6, c6a, c6b, c7, c8, c9, c10⟩ := h.2
    ctl_fields

/-- threads_end has joined everybody: the worker array and the free list are dropped. -/
theorem DataInv.dropWorkers {s s' : State} (h : DataInv s) (hb : s'.blocks = s.blocks) (hc : s'.cur = s.cur)
    (hq : s'.queue = s.queue) (ho : s'.outRev = s.outRev) (hr : s'.readPos = s.readPos) (hp : s'.directPos = s.directPos)
    (hw : s'.workers = []) (hf : s'.threadsFree = []) : DataInv s' := by
  have e1 : ∀ j, blk s' j = blk s j := fun j => by simp [blk, hb]
  have e2 : ∀ j, dataLen s' j = dataLen s j := fun j => by simp [dataLen, e1]
  have eh : hd s' = hd s := by simp [hd, hc, hq]
  have ep : partialOut s' = partialOut s := by simp only [partialOut, hq, hr, hp, hc, e1]
  have ed : s'.delivered = s.delivered := by simp [State.delivered, ho]
  refine { wf := by rw [hb]; exact h.wf, curLe := by rw [hc, hb]; exact h.curLe, lenLe := by rw [hc, hq]; exact h.lenLe,
           consec := by rw [eh, hq]; exact h.consec, good := by intro j hj; rw [eh] at hj; rw [e1]; exact h.good j hj,
           deliv := by rw [ed, eh, ep, hb]; exact h.deliv,
           posLe := by intro o ho'; rw [hq] at ho'; rw [e2]; exact h.posLe o ho',
           readLe := by rw [hq, hr]; exact h.readLe,
           fin := by intro o ho' hfin; rw [hq] at ho'; rw [e2, e1]; exact h.fin o ho' hfin,
           wk := by intro i hi; rw [hw] at hi; simp at hi,
           distinct := by intro i j hi; rw [hw] at hi; simp at hi,
           free := by intro i hi; rw [hf] at hi; simp at hi,
           freeNodup := by rw [hf]; simp,
           dirLe := by rw [hp, hc, e2]; exact h.dirLe, dirQ := by rw [hp, hq]; exact h.dirQ }

theorem Inv.endJoin {s s' : State} (h : Inv s) (hs : step s .endJoin = some s') : Inv s' := by
  simp only [step] at hs
  split at hs
  case h_2 => cases hs
  rename_i i k hpc
  obtain ⟨c1, c2, c3, c4, c5, c6, c6a, c6b, c7, c8, c9, c10⟩ := h.2
  split at hs
  · split at hs
    case isFalse => cases hs
    injection hs with hs; subst hs
    refine ⟨h.1.congr rfl rfl rfl rfl rfl rfl rfl rfl, ?_⟩
    have := c6b
    ctl_fields
  · cases k
    · -- direct
      injection hs with hs; subst hs
      have hed := c6b ⟨i, Or.inr hpc⟩
      refine ⟨h.1.dropWorkers rfl rfl rfl rfl rfl rfl rfl rfl, ?_⟩
      have hthr : s.thr = none := by
        cases ht : s.thr with
        | none => rfl
        | some t => have := c6a t ht; rw [hed.1] at this; simp at this
      constructor <;> first
        | assumption
        | (intros; simp_all [rowKOf, seqOfRowK, blk]; done)
    · injection hs with hs; subst hs
      refine ⟨h.1.dropWorkers rfl rfl rfl rfl rfl rfl rfl rfl, ?_⟩
      constructor <;> first
        | assumption
        | (intros; simp_all [rowKOf, seqOfRowK, blk]; done)

end XzVerif.MtDec
