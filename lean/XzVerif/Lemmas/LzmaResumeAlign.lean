/-
  Alignment independence of the LZMA symbol decoder: `decodeSymbol` reads the dictionary position members `dp` only through
  `dp.full`, `dp.pos &&& posMask` and `literalSubcoder lc lp dp.pos _`; all three depend on `dp.pos` only modulo 16
  (`pb ≤ 4`, `lc + lp ≤ 4`).  Hence decoding a symbol at `pos = size` (before `DictPos.wrap`) and at `pos = 288` (after it)
  is the same computation when `size` is a multiple of 16.
  `Ind (setDp d)` sweep = copy of the `ind_*` sweep of LzmaResumeSym.lean for the constant override of `dp`; the two reads
  of `dp` in `decodeSymbol` are treated by hand (`IndAt`: commutation at one state).  Core Lean only.
-/
import XzVerif.Lemmas.LzmaResumeSym

namespace XzVerif.LzmaR
open XzVerif.RangeDec XzVerif.LzDict XzVerif.Lzma XzVerif.Lzma2

/-- replace the dictionary position members -/
def setDp (d : LzDict.DictPos) (s : St) : St := { s with dp := d }

namespace Align

theorem and_lt_mod (x m n : Nat) (hm : m < 2 ^ n) : x &&& m = (x % 2 ^ n) &&& m := by
  have h1 : x &&& m ≤ m := Nat.and_le_right
  have h2 : (x &&& m) % 2 ^ n = x &&& m := Nat.mod_eq_of_lt (Nat.lt_of_le_of_lt h1 hm)
  rw [← h2, Nat.and_mod_two_pow, Nat.mod_eq_of_lt hm]

theorem literalMask_lt (lc lp : Nat) (hlp : lp ≤ 4) (hlc : lc ≤ 4) : literalMask lc lp < 2 ^ 12 := by
  match lp, hlp, lc, hlc with
  | 0, _, 0, _ | 0, _, 1, _ | 0, _, 2, _ | 0, _, 3, _ | 0, _, 4, _
  | 1, _, 0, _ | 1, _, 1, _ | 1, _, 2, _ | 1, _, 3, _ | 1, _, 4, _
  | 2, _, 0, _ | 2, _, 1, _ | 2, _, 2, _ | 2, _, 3, _ | 2, _, 4, _
  | 3, _, 0, _ | 3, _, 1, _ | 3, _, 2, _ | 3, _, 3, _ | 3, _, 4, _
  | 4, _, 0, _ | 4, _, 1, _ | 4, _, 2, _ | 4, _, 3, _ | 4, _, 4, _ => decide


theorem literalSubcoder_mod16' (lc lp a b prev : Nat) (hlc : lc + lp ≤ 4) (h : a % 16 = b % 16) :
    literalSubcoder lc lp a prev = literalSubcoder lc lp b prev := by
  have hm : literalMask lc lp < 2 ^ 12 := literalMask_lt lc lp (by omega) (by omega)
  show 3 * ((((a <<< 8) + prev) &&& literalMask lc lp) <<< lc) = 3 * ((((b <<< 8) + prev) &&& literalMask lc lp) <<< lc)
  rw [and_lt_mod _ _ 12 hm, and_lt_mod ((b <<< 8) + prev) _ 12 hm]
  have e : ((a <<< 8) + prev) % 2 ^ 12 = ((b <<< 8) + prev) % 2 ^ 12 := by
    rw [Nat.shiftLeft_eq, Nat.shiftLeft_eq]
    omega
  rw [e]

section family
variable (d : DictPos)

theorem rcNormalize_setDp (s : St) :
    rcNormalize (setDp d s) =
      if s.range < RC_TOP_VALUE then
        if h : s.inPos < s.inp.size then
          .ok () (setDp d
            { s with range := ((Rc.mk s.range s.code).shiftIn (s.inp[s.inPos]).toNat).range,
                     code := ((Rc.mk s.range s.code).shiftIn (s.inp[s.inPos]).toNat).code,
                     inPos := s.inPos + 1 })
        else .error .needInput (setDp d s)
      else .ok () (setDp d s) := rfl

theorem indD_rcNormalize : Ind (setDp d) rcNormalize := ⟨fun s => by
  rw [rcNormalize_setDp, rcNormalize_unf]
  by_cases hr : s.range < RC_TOP_VALUE
  · rw [if_pos hr, if_pos hr]
    by_cases hb : s.inPos < s.inp.size
    · rw [dif_pos hb, dif_pos hb]; rfl
    · rw [dif_neg hb, dif_neg hb]; rfl
  · rw [if_neg hr, if_neg hr]; rfl⟩

theorem stepRc {α : Type} (c1 : Nat → Nat → α) (c2 c3 : Nat → Nat → Nat) :
    Ind (setDp d) (fun s : St => EStateM.Result.ok (c1 s.range s.code)
      { s with range := c2 s.range s.code, code := c3 s.range s.code } : M α) :=
  Ind.step (fun s => c1 s.range s.code) (fun s => { s with range := c2 s.range s.code, code := c3 s.range s.code })
    (fun _ => rfl) (fun _ => rfl)

theorem stepBit {α : Type} (idx : Nat) (c1 : Nat → Nat → Nat → α) (c2 c3 c4 : Nat → Nat → Nat → Nat) :
    Ind (setDp d) (fun s : St => EStateM.Result.ok (c1 s.range s.code (s.probs.getD idx 0))
      (St.setProb { s with range := c2 s.range s.code (s.probs.getD idx 0), code := c3 s.range s.code (s.probs.getD idx 0) }
        idx (c4 s.range s.code (s.probs.getD idx 0))) : M α) :=
  Ind.step (fun s => c1 s.range s.code (s.probs.getD idx 0))
    (fun s => St.setProb { s with range := c2 s.range s.code (s.probs.getD idx 0), code := c3 s.range s.code (s.probs.getD idx 0) }
        idx (c4 s.range s.code (s.probs.getD idx 0)))
    (fun _ => rfl) (fun _ => rfl)

theorem indD_bitStep (idx : Nat) : Ind (setDp d) (bitStep idx) :=
  stepBit d idx (fun r c p => (bitCore (Rc.mk r c) p).1) (fun r c p => (bitCore (Rc.mk r c) p).2.1.range)
    (fun r c p => (bitCore (Rc.mk r c) p).2.1.code) (fun r c p => (bitCore (Rc.mk r c) p).2.2)

theorem indD_rcBit (idx : Nat) : Ind (setDp d) (rcBit idx) := by
  rw [rcBit_eq]
  exact Ind.bind (indD_rcNormalize d) (fun _ => indD_bitStep d idx)

theorem indD_directStep : Ind (setDp d) (fun s : St =>
      let r := directCore (Rc.mk s.range s.code)
      EStateM.Result.ok r.1 { s with range := r.2.range, code := r.2.code } : M Nat) :=
  stepRc d (fun r c => (directCore (Rc.mk r c)).1) (fun r c => (directCore (Rc.mk r c)).2.range)
    (fun r c => (directCore (Rc.mk r c)).2.code)

theorem indD_rcDirect (n : Nat) : ∀ dest, Ind (setDp d) (rcDirect n dest) := by
  induction n with
  | zero => intro dest; exact Ind.pure dest
  | succ n ih =>
    intro dest
    unfold rcDirect
    exact Ind.bind (indD_rcNormalize d) (fun _ => Ind.bind (indD_directStep d) (fun b => ih _))

theorem indD_bittree (base : Nat) : ∀ n sym, Ind (setDp d) (bittree base n sym)
  | 0, sym => Ind.pure sym
  | n + 1, sym => by
    unfold bittree
    exact Ind.bind (indD_rcBit d _) (fun b => indD_bittree base n _)

theorem indD_litMatched (base : Nat) : ∀ n sym offset len, Ind (setDp d) (litMatched base n sym offset len)
  | 0, sym, _, _ => Ind.pure sym
  | n + 1, sym, offset, len => by
    unfold litMatched
    exact Ind.bind (indD_rcBit d _) (fun b => indD_litMatched base n _ _ _)

theorem indD_revBittree (base : Nat) : ∀ n sym offset acc, Ind (setDp d) (revBittree base n sym offset acc)
  | 0, _, _, acc => Ind.pure acc
  | n + 1, sym, offset, acc => by
    unfold revBittree
    exact Ind.bind (indD_rcBit d _) (fun b => indD_revBittree base n _ _ _)

theorem indD_revAlign : ∀ n sym offset, Ind (setDp d) (revAlign n sym offset)
  | 0, sym, _ => Ind.pure sym
  | n + 1, sym, offset => by
    unfold revAlign
    exact Ind.bind (indD_rcBit d _) (fun b => indD_revAlign n _ _)

theorem indD_lenDecode (lenBase posState : Nat) : Ind (setDp d) (lenDecode lenBase posState) := by
  unfold lenDecode
  refine Ind.bind (indD_rcBit d _) (fun c => ?_)
  split
  · exact Ind.bind (indD_bittree d _ _ _) (fun _ => Ind.pure _)
  · refine Ind.bind (indD_rcBit d _) (fun c2 => ?_)
    split
    · exact Ind.bind (indD_bittree d _ _ _) (fun _ => Ind.pure _)
    · exact Ind.bind (indD_bittree d _ _ _) (fun _ => Ind.pure _)

theorem indD_distDecode (len : Nat) : Ind (setDp d) (distDecode len) := by
  unfold distDecode
  refine Ind.bind (indD_bittree d _ _ _) (fun slot1 => ?_)
  simp only []
  split
  · exact Ind.pure _
  · split
    · exact indD_revBittree d _ _ _ _ _
    · exact Ind.bind (indD_rcDirect d _ _) (fun r => Ind.bind (indD_revAlign d _ _ _) (fun a => Ind.pure _))

end family

/-- `x` commutes with the override `g` at the state `s` -/
structure IndAt (g : St → St) {α : Type} (s : St) (x : M α) : Prop where
  comm : x (g s) = mapSt g (x s)

theorem IndAt.of {g : St → St} {α : Type} {x : M α} (h : Ind g x) (s : St) : IndAt g s x := ⟨h.comm s⟩

theorem IndAt.bind {g : St → St} {α β : Type} {s : St} {x : M α} {f : α → M β} (hx : IndAt g s x)
    (hf : ∀ a t, x s = .ok a t → IndAt g t (f a)) : IndAt g s (x >>= f) := ⟨by
  show EStateM.bind x f (g s) = mapSt g (EStateM.bind x f s)
  unfold EStateM.bind
  rw [hx.comm]
  cases h : x s with
  | ok a t => exact (hf a t h).comm
  | error e t => rfl⟩

theorem IndAt.bindRead {g : St → St} {α β : Type} {s : St} (r : St → α) (f : α → M β) (h : r (g s) = r s)
    (hf : IndAt g s (f (r s))) : IndAt g s ((fun s => EStateM.Result.ok (r s) s : M α) >>= f) := ⟨by
  show f (r (g s)) (g s) = mapSt g (f (r s) s)
  rw [h]
  exact hf.comm⟩

theorem fr_of_ok {α : Type} {x : M α} {Q : α → Prop} (h : Sat x Q) {s t : St} {a : α} (ht : x s = .ok a t) : Fr s t := by
  have := (h s).1
  rw [ht] at this
  exact this

end Align

theorem and_mask_mod16 (a b pb : Nat) (hpb : pb ≤ 4) (h : a % 16 = b % 16) :
    a &&& ((1 <<< pb) - 1) = b &&& ((1 <<< pb) - 1) := by
  rw [Nat.one_shiftLeft, Nat.and_two_pow_sub_one_eq_mod, Nat.and_two_pow_sub_one_eq_mod]
  match pb, hpb with
  | 0, _ | 1, _ | 2, _ | 3, _ | 4, _ => omega

theorem literalSubcoder_mod16 (lc lp a b prev : Nat) (hlc : lc + lp ≤ 4) (hprev : prev < 256) (h : a % 16 = b % 16) :
    literalSubcoder lc lp a prev = literalSubcoder lc lp b prev :=
  have _ := hprev
  Align.literalSubcoder_mod16' lc lp a b prev hlc h

theorem decodeSymbol_setDp (ev : Bool) (s : St) (d : DictPos) (hfull : d.full = s.dp.full)
    (hmask : d.pos &&& s.posMask = s.dp.pos &&& s.posMask)
    (hlit : ∀ prev, literalSubcoder s.lc s.lp d.pos prev = literalSubcoder s.lc s.lp s.dp.pos prev) :
    decodeSymbol ev (setDp d s) = mapSt (fun t => { t with dp := d }) (decodeSymbol ev s) := by
  open Align in
  suffices h : IndAt (setDp d) s (decodeSymbol ev) from h.comm
  unfold decodeSymbol
  refine IndAt.bindRead _ _ ?_ ?_
  · show (s.state, d.pos &&& s.posMask, d.full) = (s.state, s.dp.pos &&& s.posMask, s.dp.full)
    rw [hfull, hmask]
  simp only []
  refine IndAt.bind (IndAt.of (indD_rcBit d _) s) (fun isMatch t ht => ?_)
  have fr : Fr s t := fr_of_ok (sat_rcBit _) ht
  split
  · -- literal
    refine IndAt.bindRead _ _ ?_ (IndAt.of ?_ t)
    · have e : (setDp d t).dictGet0 = t.dictGet0 := by
        show (if d.full == 0 then _ else _) = (if t.dp.full == 0 then _ else _)
        rw [fr.dp, hfull]
        rfl
      show P_LITERAL + literalSubcoder t.lc t.lp d.pos (setDp d t).dictGet0.toNat
        = P_LITERAL + literalSubcoder t.lc t.lp t.dp.pos t.dictGet0.toNat
      rw [e, fr.lclppb.1, fr.lclppb.2.1, fr.dp, hlit]
    · split
      · refine Ind.bind (Ind.modify _ (fun _ => rfl)) (fun _ => ?_)
        exact Ind.bind (indD_bittree d _ _ _) (fun sym => Ind.pure _)
      · refine Ind.bind (Ind.modify _ (fun _ => rfl)) (fun _ => ?_)
        refine Ind.bind (Ind.read _ (fun _ => rfl)) (fun mb => ?_)
        exact Ind.bind (indD_litMatched d _ _ _ _ _) (fun sym => Ind.pure _)
  · refine IndAt.of ?_ t
    refine Ind.bind (indD_rcBit d _) (fun isRep => ?_)
    split
    · -- simple match
      refine Ind.bind (Ind.modify _ (fun _ => rfl)) (fun _ => ?_)
      refine Ind.bind (indD_lenDecode d _ _) (fun len => ?_)
      refine Ind.bind (indD_distDecode d _) (fun d' => ?_)
      refine Ind.bind (Ind.modify _ (fun _ => rfl)) (fun _ => ?_)
      split
      · have hrest : Ind (setDp d) (do
              rcNormalize
              let fin ← (fun s : St => EStateM.Result.ok (s.code == 0) s)
              if fin then throw .streamEnd else throw .dataError : M Pending) := by
          refine Ind.bind (indD_rcNormalize d) (fun _ => ?_)
          refine Ind.bind (Ind.read _ (fun _ => rfl)) (fun fin => ?_)
          split
          · exact Ind.throw _
          · exact Ind.throw _
        split
        · exact Ind.bind (Ind.throw _) (fun _ => hrest)
        · exact hrest
      · split
        · exact Ind.throw _
        · exact Ind.pure _
    · -- repeated match
      split
      · exact Ind.throw _
      · refine Ind.bind (indD_rcBit d _) (fun isRep0 => ?_)
        refine Ind.bind ?_ (fun isShort => ?_)
        · split
          · exact Ind.bind (indD_rcBit d _) (fun isLong => Ind.pure _)
          · refine Ind.bind (indD_rcBit d _) (fun isRep1 => ?_)
            have hm : ∀ m : St → St, (∀ s, m (setDp d s) = setDp d (m s)) →
                Ind (setDp d) (do modify m; pure false : M Bool) :=
              fun m hm => Ind.bind (Ind.modify m hm) (fun _ => Ind.pure _)
            split
            · exact hm _ (fun _ => rfl)
            · refine Ind.bind (indD_rcBit d _) (fun isRep2 => ?_)
              split
              · exact hm _ (fun _ => rfl)
              · exact hm _ (fun _ => rfl)
        · split
          · exact Ind.bind (Ind.modify _ (fun _ => rfl)) (fun _ => Ind.pure _)
          · refine Ind.bind (Ind.modify _ (fun _ => rfl)) (fun _ => ?_)
            exact Ind.bind (indD_lenDecode d _ _) (fun len => Ind.pure _)

theorem decodeSymbol_wrap (ev : Bool) (s : St) (hsz : s.dp.size % 16 = 0) (hpos : s.dp.pos = s.dp.size)
    (hlc : s.lc + s.lp ≤ 4) (hpb : s.pb ≤ 4) :
    decodeSymbol ev { s with dp := s.dp.wrap } = mapSt (fun t => { t with dp := s.dp.wrap }) (decodeSymbol ev s) := by
  have hw : s.dp.wrap = { s.dp with pos := LZ_DICT_REPEAT_MAX, hasWrapped := true } := by
    unfold DictPos.wrap
    rw [if_pos (by rw [hpos]; exact beq_self_eq_true _)]
  have hm : s.dp.wrap.pos % 16 = s.dp.pos % 16 := by
    rw [hw, hpos, hsz]
    show (288 : Nat) % 16 = 0
    decide
  refine decodeSymbol_setDp ev s s.dp.wrap ?_ ?_ ?_
  · rw [hw]
  · exact and_mask_mod16 _ _ _ hpb hm
  · intro prev
    exact Align.literalSubcoder_mod16' _ _ _ _ prev hlc hm

end XzVerif.LzmaR
