/-
  Helper lemmas for C02: Stream Header / Stream Footer round trips.
-/
import XzVerif.Lemmas.C02Bytes

namespace XzVerif.Container
open XzVerif XzVerif.Vli

theorem streamFlagsOfBytes_bytes (f : StreamFlags) (fl : List UInt8) (h : streamFlagsBytes f = some fl) (hv : f.version = 0) :
    fl = [0x00, UInt8.ofNat f.check] ∧ streamFlagsOfBytes 0x00 (UInt8.ofNat f.check) = some f := by
  unfold streamFlagsBytes at h
  by_cases hc : f.check > CHECK_ID_MAX
  · simp [hc] at h
  · simp only [hc, if_false, Option.some.injEq] at h
    have hc' : f.check ≤ 15 := by simp [CHECK_ID_MAX] at hc; omega
    refine ⟨h.symm, ?_⟩
    unfold streamFlagsOfBytes
    rw [u8_toNat_ofNat f.check (by omega)]
    have h1 : ¬ ((0x00 : UInt8).toNat ≠ 0 ∨ f.check / 16 ≠ 0) := by
      have : f.check / 16 = 0 := by omega
      simp [this]
    simp only [h1, if_false]
    have : f.check % 16 = f.check := by omega
    rw [this]
    cases f
    simp_all

theorem streamHeader_roundtrip (f : StreamFlags) (b t : List UInt8) (h : streamHeaderEncode f = .ok b) :
    b.length = 12 ∧ streamHeaderDecode (b ++ t) = .ok f := by
  unfold streamHeaderEncode at h
  by_cases hv : f.version ≠ 0
  · simp [hv] at h
  · simp only [hv, if_false] at h
    have hv0 : f.version = 0 := by omega
    cases hfl : streamFlagsBytes f with
    | none => simp [hfl] at h
    | some fl =>
      simp only [hfl, Except.ok.injEq] at h
      obtain ⟨hfl', hdec⟩ := streamFlagsOfBytes_bytes f fl hfl hv0
      subst hfl'
      subst h
      refine ⟨by simp [HEADER_MAGIC, le32], ?_⟩
      unfold streamHeaderDecode
      have hlen : ¬ ((HEADER_MAGIC ++ [0x00, UInt8.ofNat f.check] ++ le32 (crc32 [0x00, UInt8.ofNat f.check]) ++ t).length < STREAM_HEADER_SIZE) := by
        simp [HEADER_MAGIC, le32, STREAM_HEADER_SIZE]
      simp only [hlen, if_false]
      have e1 : (HEADER_MAGIC ++ [0x00, UInt8.ofNat f.check] ++ le32 (crc32 [0x00, UInt8.ofNat f.check]) ++ t).take 6 = HEADER_MAGIC := by
        simp [HEADER_MAGIC]
      have e2 : ((HEADER_MAGIC ++ [0x00, UInt8.ofNat f.check] ++ le32 (crc32 [0x00, UInt8.ofNat f.check]) ++ t).drop 6).take 2
          = [0x00, UInt8.ofNat f.check] := by
        simp [HEADER_MAGIC]
      have e3 : (HEADER_MAGIC ++ [0x00, UInt8.ofNat f.check] ++ le32 (crc32 [0x00, UInt8.ofNat f.check]) ++ t).drop 8
          = le32 (crc32 [0x00, UInt8.ofNat f.check]) ++ t := by
        simp [HEADER_MAGIC]
      have e4 : (HEADER_MAGIC ++ [0x00, UInt8.ofNat f.check] ++ le32 (crc32 [0x00, UInt8.ofNat f.check]) ++ t).getD 6 0 = 0x00 := by
        simp [HEADER_MAGIC]
      have e5 : (HEADER_MAGIC ++ [0x00, UInt8.ofNat f.check] ++ le32 (crc32 [0x00, UInt8.ofNat f.check]) ++ t).getD 7 0 = UInt8.ofNat f.check := by
        simp [HEADER_MAGIC]
      rw [e1, e2, e3, e4, e5, rd32_le32_crc, hdec]
      simp

theorem len4 (w : List UInt8) (h : w.length = 4) : ∃ a b c d, w = [a, b, c, d] := by
  match w, h with
  | [a, b, c, d], _ => exact ⟨a, b, c, d, rfl⟩

theorem streamFooter_roundtrip (f : StreamFlags) (bs : Nat) (b t : List UInt8) (h : streamFooterEncode f bs = .ok b) :
    b.length = 12 ∧ streamFooterDecode (b ++ t) = .ok (f, bs) := by
  unfold streamFooterEncode at h
  by_cases hv : f.version ≠ 0
  · simp [hv] at h
  · simp only [hv, if_false] at h
    have hv0 : f.version = 0 := by omega
    by_cases hbs : isBackwardSizeValid bs = true
    · simp only [hbs, Bool.not_true, Bool.false_eq_true, if_false] at h
      cases hfl : streamFlagsBytes f with
      | none => simp [hfl] at h
      | some fl =>
        simp only [hfl, Except.ok.injEq] at h
        obtain ⟨hfl', hdec⟩ := streamFlagsOfBytes_bytes f fl hfl hv0
        subst hfl'
        subst h
        have hb : 4 ≤ bs ∧ bs ≤ 17179869184 ∧ bs % 4 = 0 := by
          simpa [isBackwardSizeValid, BACKWARD_SIZE_MIN, BACKWARD_SIZE_MAX] using hbs
        refine ⟨by simp [FOOTER_MAGIC, le32], ?_⟩
        have hx : bs / 4 - 1 < 4294967296 := by omega
        have hrd := rd32_le32 (bs / 4 - 1) hx
        obtain ⟨x0, x1, x2, x3, hxe⟩ := len4 (le32 (bs / 4 - 1)) (le32_length _)
        rw [hxe] at hrd ⊢
        have hcrc := rd32_le32_crc ([x0, x1, x2, x3] ++ [0x00, UInt8.ofNat f.check])
        obtain ⟨c0, c1, c2, c3, hce⟩ := len4 (le32 (crc32 ([x0, x1, x2, x3] ++ [0x00, UInt8.ofNat f.check]))) (le32_length _)
        rw [hce] at hcrc ⊢
        unfold streamFooterDecode
        have e0 : ¬ (([c0, c1, c2, c3] ++ ([x0, x1, x2, x3] ++ [0x00, UInt8.ofNat f.check]) ++ FOOTER_MAGIC ++ t).length < STREAM_HEADER_SIZE) := by
          simp [FOOTER_MAGIC, STREAM_HEADER_SIZE]
        have e1 : (([c0, c1, c2, c3] ++ ([x0, x1, x2, x3] ++ [0x00, UInt8.ofNat f.check]) ++ FOOTER_MAGIC ++ t).drop 10).take 2 = FOOTER_MAGIC := by
          simp [FOOTER_MAGIC]
        have e2 : (([c0, c1, c2, c3] ++ ([x0, x1, x2, x3] ++ [0x00, UInt8.ofNat f.check]) ++ FOOTER_MAGIC ++ t).drop 4).take 6
            = [x0, x1, x2, x3] ++ [0x00, UInt8.ofNat f.check] := by
          simp
        have e3 : ([c0, c1, c2, c3] ++ ([x0, x1, x2, x3] ++ [0x00, UInt8.ofNat f.check]) ++ FOOTER_MAGIC ++ t)
            = [c0, c1, c2, c3] ++ (([x0, x1, x2, x3] ++ [0x00, UInt8.ofNat f.check]) ++ FOOTER_MAGIC ++ t) := by
          simp
        have e4 : ([c0, c1, c2, c3] ++ ([x0, x1, x2, x3] ++ [0x00, UInt8.ofNat f.check]) ++ FOOTER_MAGIC ++ t).drop 4
            = [x0, x1, x2, x3] ++ ([0x00, UInt8.ofNat f.check] ++ FOOTER_MAGIC ++ t) := by
          simp
        have e5 : ([c0, c1, c2, c3] ++ ([x0, x1, x2, x3] ++ [0x00, UInt8.ofNat f.check]) ++ FOOTER_MAGIC ++ t).getD 8 0 = 0x00 := by
          simp
        have e6 : ([c0, c1, c2, c3] ++ ([x0, x1, x2, x3] ++ [0x00, UInt8.ofNat f.check]) ++ FOOTER_MAGIC ++ t).getD 9 0 = UInt8.ofNat f.check := by
          simp
        simp only [e0, if_false, e1, e2, e4, e5, e6, hrd, hdec]
        rw [e3, hcrc]
        have : (bs / 4 - 1 + 1) * 4 = bs := by omega
        simp [this]
    · simp [hbs] at h

end XzVerif.Container
