/-
  C08 helper lemmas, part C: the structural invariant (which entries are closed, what `coder->thr` points to, how the
  main program counter relates to `sequence`) and its preservation.
-/
import XzVerif.Lemmas.MtEncB

namespace XzVerif.MtEnc

def isErr (r : Ret) : Prop := r ≠ OK ∧ r ≠ END ∧ r ≠ TIMED_OUT

structure InvB (s : St) : Prop where
  bsPos : 0 < s.cfg.bs
  tmPos : 0 < s.cfg.tmax
  abl : ∀ x ∈ (shape s.outq).dropLast, x.1 = true
  open_ : s.thr = true → ∃ x, (shape s.outq).getLast? = some x ∧ x.1 = false ∧
            (x.2 = 0 → (s.mpc = .encIn ∧ s.inp ≠ []) ∨ s.mpc = .failed ∨ s.mpc = .ending)
  allClosed : s.thr = false → ∀ x ∈ shape s.outq, x.1 = true
  ne : ∀ x ∈ shape s.outq, x.1 = true → 0 < x.2
  seqHdr : s.seq = .header → s.outq = [] ∧ s.thr = false ∧ s.done = [] ∧ s.consumed = []
  seqTail : (s.seq = .index ∨ s.seq = .ended) → s.outq = [] ∧ s.thr = false
  pcBlock : (s.mpc = .loopTop ∨ s.mpc = .encIn ∨ s.mpc = .afterIn ∨ s.mpc = .waiting) → s.seq = .block
  pcHdr : s.mpc = .hdrOut → s.seq = .header
  pcTail : s.mpc = .tailOut → s.seq = .index
  errBad : ∀ r, s.err = some r → isErr r
  pendOk : ∀ c, s.pending = some c → 0 < c.bs ∧ 0 < c.tmax

theorem nil_of_len {α : Type} {l l' : List α} (h : l'.length = l.length) (hl : l = []) : l' = [] := by
  subst hl; exact List.eq_nil_of_length_eq_zero (by simpa using h)

/-- A transition that keeps the shape of the queue and the fields InvB looks at. -/
theorem InvB_frame {s t : St} (h : InvB s) (hcfg : t.cfg = s.cfg) (hsh : shape t.outq = shape s.outq) (hlen : t.outq.length = s.outq.length)
    (hthr : t.thr = s.thr) (hmpc : t.mpc = s.mpc) (hinp : t.inp = s.inp) (hseq : t.seq = s.seq) (hdone : t.done = s.done)
    (hcons : t.consumed = s.consumed) (herr : ∀ r, t.err = some r → isErr r) (hpend : t.pending = s.pending := by rfl) : InvB t := by
  refine ⟨hcfg ▸ h.bsPos, hcfg ▸ h.tmPos, hsh ▸ h.abl, ?_, ?_, hsh ▸ h.ne, ?_, ?_, ?_, ?_, ?_, herr, hpend ▸ h.pendOk⟩
  · rw [hthr, hsh, hmpc, hinp]; exact h.open_
  · rw [hthr, hsh]; exact h.allClosed
  · rw [hseq, hthr, hdone, hcons]; intro a
    have := h.seqHdr a
    exact ⟨nil_of_len hlen this.1, this.2⟩
  · rw [hseq, hthr]; intro a
    have := h.seqTail a
    exact ⟨nil_of_len hlen this.1, this.2⟩
  · rw [hmpc, hseq]; exact h.pcBlock
  · rw [hmpc, hseq]; exact h.pcHdr
  · rw [hmpc, hseq]; exact h.pcTail

theorem InvB_wframe {s s' : St} (h : InvB s) (f : WFrame s s') (herr : ∀ r, s'.err = some r → isErr r) : InvB s' :=
  InvB_frame h f.cfg f.shape f.len f.thr f.mpc f.inp f.seq f.done f.consumed herr f.pending

/-- `ret` from a state that is not at `encIn` (or with an error code). -/
theorem InvB_ret {s : St} (r : Ret) (h : InvB s) (hpc : s.mpc = .encIn → isErr r) (hne : s.mpc ≠ .failed ∧ s.mpc ≠ .ending) : InvB (ret s r) := by
  have hsh := ret_shape s r
  have hlen := ret_len s r
  have hcfg : (ret s r).cfg = s.cfg := by unfold ret; split <;> rfl
  have hthr : (ret s r).thr = s.thr := by unfold ret; split <;> rfl
  have hinp : (ret s r).inp = s.inp := by unfold ret; split <;> rfl
  have hseq : (ret s r).seq = s.seq := by unfold ret; split <;> rfl
  have hdone : (ret s r).done = s.done := by unfold ret; split <;> rfl
  have hcons : (ret s r).consumed = s.consumed := by unfold ret; split <;> rfl
  have herr : (ret s r).err = s.err := by unfold ret; split <;> rfl
  have hpend : (ret s r).pending = s.pending := by unfold ret; split <;> rfl
  have hmpc : ((ret s r).mpc = .out ∧ ¬ isErr r) ∨ (ret s r).mpc = .failed := by
    unfold ret; split
    · rename_i hr; left; refine ⟨rfl, ?_⟩; intro he; rcases hr with hr | hr | hr
      · exact he.1 hr
      · exact he.2.1 hr
      · exact he.2.2 hr
    · right; rfl
  refine ⟨hcfg ▸ h.bsPos, hcfg ▸ h.tmPos, hsh ▸ h.abl, ?_, ?_, hsh ▸ h.ne, ?_, ?_, ?_, ?_, ?_, herr ▸ h.errBad, hpend ▸ h.pendOk⟩
  · rw [hthr, hsh]; intro ht
    obtain ⟨x, hx1, hx2, hx3⟩ := h.open_ ht
    refine ⟨x, hx1, hx2, ?_⟩
    intro hz
    rcases hmpc with ⟨_, hm2⟩ | hm
    · rcases hx3 hz with ⟨a, _⟩ | a | a
      · exact absurd (hpc a) hm2
      · exact absurd a hne.1
      · exact absurd a hne.2
    · right; left; exact hm
  · rw [hthr, hsh]; exact h.allClosed
  · rw [hseq, hthr, hdone, hcons]; intro a
    have := h.seqHdr a
    exact ⟨nil_of_len hlen this.1, this.2⟩
  · rw [hseq, hthr]; intro a
    have := h.seqTail a
    exact ⟨nil_of_len hlen this.1, this.2⟩
  · intro a; rcases hmpc with ⟨hm, _⟩ | hm <;> rw [hm] at a <;> simp at a
  · intro a; rcases hmpc with ⟨hm, _⟩ | hm <;> rw [hm] at a <;> simp at a
  · intro a; rcases hmpc with ⟨hm, _⟩ | hm <;> rw [hm] at a <;> simp at a


-- ---------------------------------------------------------------------------------------------------------------------
-- list facts about the last element
-- ---------------------------------------------------------------------------------------------------------------------

theorem shape_append (q : List Entry) (e : Entry) : shape (q ++ [e]) = shape q ++ [(e.closed, e.data.length)] := by
  simp [shape]

theorem shape_dropLast (q : List Entry) : shape q.dropLast = (shape q).dropLast := by
  simp [shape, List.map_dropLast]

theorem mem_dropLast_cons {α : Type} {x a : α} {l : List α} (h : x ∈ l.dropLast) : x ∈ (a :: l).dropLast := by
  cases l with
  | nil => simp at h
  | cons b l => simp only [List.dropLast_cons_cons]; exact List.mem_cons_of_mem _ h

theorem getLast?_cons_of_ne {α : Type} {a : α} {l : List α} (h : l ≠ []) : (a :: l).getLast? = l.getLast? := by
  cases l with
  | nil => exact absurd rfl h
  | cons b l => simp [List.getLast?_cons_cons]

-- ---------------------------------------------------------------------------------------------------------------------
-- main-thread steps
-- ---------------------------------------------------------------------------------------------------------------------

theorem InvB_mCall {s s' : St} {inp : Bytes} {cap : Nat} {act : Action} (h : InvB s) (hs : mCall s inp cap act = some s') : InvB s' := by
  unfold mCall at hs
  split at hs
  · rename_i hg
    cases hs
    refine ⟨h.bsPos, h.tmPos, h.abl, ?_, h.allClosed, h.ne, h.seqHdr, h.seqTail, ?_, ?_, ?_, h.errBad, h.pendOk⟩
    · intro ht
      obtain ⟨x, hx1, hx2, hx3⟩ := h.open_ ht
      refine ⟨x, hx1, hx2, ?_⟩
      intro hz
      rcases hx3 hz with ⟨a, _⟩ | a | a <;> rw [hg.1] at a <;> cases a
    · dsimp only; intro a; cases hq : s.seq <;> simp [hq] at a ⊢
    · dsimp only; intro a; cases hq : s.seq <;> simp [hq] at a ⊢
    · dsimp only; intro a; cases hq : s.seq <;> simp [hq] at a ⊢
      exact hg.2.1 hq
  · cases hs

theorem InvB_mHdr {P : Params} {s s' : St} (h : InvB s) (hs : mHdr P s = some s') : InvB s' := by
  unfold mHdr at hs
  split at hs
  · rename_i hg
    have hq := h.pcHdr hg
    have hh := h.seqHdr hq
    dsimp only at hs
    split at hs <;> cases hs
    · refine InvB_ret _ ?_ (by simp [hg]) (by simp [hg])
      exact InvB_frame h rfl rfl rfl rfl rfl rfl rfl rfl rfl h.errBad
    · refine ⟨h.bsPos, h.tmPos, h.abl, ?_, h.allClosed, h.ne, by simp, by simp, by simp, by simp, by simp, h.errBad, h.pendOk⟩
      intro ht; dsimp only at ht; rw [hh.2.1] at ht; cases ht
  · cases hs

theorem InvB_pop {s t : St} {e : Entry} {rest : List Entry} (h : InvB s) (hcons : s.outq = e :: rest) (hecl : e.closed = true)
    (hg : s.mpc = .loopTop) (hcfg : t.cfg = s.cfg) (hq : t.outq = rest) (hthr : t.thr = s.thr) (hseq : t.seq = s.seq)
    (hm : t.mpc = .loopTop ∨ t.mpc = .encIn) (herr : t.err = s.err) (hpend : t.pending = s.pending := by rfl) : InvB t := by
  have hsq := h.pcBlock (Or.inl hg)
  have hsh : shape s.outq = (e.closed, e.data.length) :: shape rest := by rw [hcons]; rfl
  refine ⟨hcfg ▸ h.bsPos, hcfg ▸ h.tmPos, ?_, ?_, ?_, ?_, ?_, ?_, ?_, ?_, ?_, herr ▸ h.errBad, hpend ▸ h.pendOk⟩
  · rw [hq]; intro x hx; exact h.abl x (by rw [hsh]; exact mem_dropLast_cons hx)
  · rw [hq, hthr]; intro ht
    obtain ⟨x, hx1, hx2, hx3⟩ := h.open_ ht
    rw [hsh] at hx1
    by_cases hr : shape rest = []
    · rw [hr] at hx1; simp at hx1; rw [← hx1] at hx2; simp [hecl] at hx2
    · rw [getLast?_cons_of_ne hr] at hx1
      refine ⟨x, hx1, hx2, ?_⟩
      intro hz
      rcases hx3 hz with ⟨a, _⟩ | a | a <;> rw [hg] at a <;> cases a
  · rw [hq, hthr]; intro ht x hx; exact h.allClosed ht x (by rw [hsh]; exact List.mem_cons_of_mem _ hx)
  · rw [hq]; intro x hx; exact h.ne x (by rw [hsh]; exact List.mem_cons_of_mem _ hx)
  · rw [hseq, hsq]; intro a; cases a
  · rw [hseq, hsq]; intro a; rcases a with a | a <;> cases a
  · intro _; rw [hseq]; exact hsq
  · intro a; rcases hm with hm | hm <;> rw [hm] at a <;> cases a
  · intro a; rcases hm with hm | hm <;> rw [hm] at a <;> cases a

theorem InvB_mRead {P : Params} {s s' : St} (h : InvB s) (hA : InvA P s) (hs : mRead P s = some s') : InvB s' := by
  unfold mRead at hs
  split at hs
  · rename_i hg
    have hq := h.pcBlock (Or.inl hg)
    have toEncIn : ∀ t : St, t.cfg = s.cfg → t.thr = s.thr → t.outq = s.outq → t.mpc = .encIn → t.inp = s.inp → t.seq = s.seq →
        t.done = s.done → t.consumed = s.consumed → t.err = s.err → t.pending = s.pending → InvB t := by
      intro t h0 h1 h2 h3 h4 h5 h6 h7 h8 h9
      refine ⟨h0 ▸ h.bsPos, h0 ▸ h.tmPos, h2 ▸ h.abl, ?_, (by rw [h1, h2]; exact h.allClosed), h2 ▸ h.ne,
        (by rw [h5, h2, h1, h6, h7]; exact h.seqHdr), (by rw [h5, h2, h1]; exact h.seqTail), (by rw [h5]; intro _; exact hq),
        (by rw [h3]; intro a; cases a), (by rw [h3]; intro a; cases a), h8 ▸ h.errBad, h9 ▸ h.pendOk⟩
      rw [h1]; intro ht
      obtain ⟨x, hx1, hx2, hx3⟩ := h.open_ ht
      refine ⟨x, by rw [h2]; exact hx1, hx2, ?_⟩
      intro hz
      rcases hx3 hz with ⟨a, _⟩ | a | a <;> rw [hg] at a <;> cases a
    split at hs
    · cases hs
      exact InvB_ret _ h (by simp [hg]) (by simp [hg])
    · split at hs
      · cases hs; exact toEncIn _ rfl rfl rfl rfl rfl rfl rfl rfl rfl rfl
      · rename_i e rest hcons
        split at hs
        · cases hs; exact toEncIn _ rfl rfl rfl rfl rfl rfl rfl rfl rfl rfl
        · rename_i hfin
          have hfin' : e.finished = true := by simpa using hfin
          have hecl : e.closed = true := ((hA e (by rw [hcons]; exact List.mem_cons_self)).fin hfin').1
          dsimp only at hs
          split at hs
          · cases hs; exact toEncIn _ rfl rfl rfl rfl rfl rfl rfl rfl rfl rfl
          · cases hs
            refine InvB_pop h hcons hecl hg rfl rfl rfl rfl ?_ rfl
            dsimp only
            split
            · exact Or.inl rfl
            · exact Or.inr rfl
  · cases hs


/-- An error return from inside SEQ_BLOCK: whatever happened to `inp`/`consumed`/ghost fields. -/
theorem InvB_fail {s t : St} (h : InvB s) (hseq : s.seq = .block) (hm : t.mpc = .failed) (hcfg : t.cfg = s.cfg)
    (hsh : shape t.outq = shape s.outq) (hthr : t.thr = s.thr) (hseq' : t.seq = s.seq) (herr : t.err = s.err)
    (hpend : t.pending = s.pending) : InvB t := by
  refine ⟨hcfg ▸ h.bsPos, hcfg ▸ h.tmPos, hsh ▸ h.abl, ?_, (by rw [hthr, hsh]; exact h.allClosed), hsh ▸ h.ne, ?_, ?_, ?_, ?_, ?_, herr ▸ h.errBad, hpend ▸ h.pendOk⟩
  · rw [hthr, hsh]; intro ht
    obtain ⟨x, hx1, hx2, _⟩ := h.open_ ht
    exact ⟨x, hx1, hx2, fun _ => Or.inr (Or.inl hm)⟩
  · rw [hseq', hseq]; intro a; cases a
  · rw [hseq', hseq]; intro a; rcases a with a | a <;> cases a
  · rw [hm]; intro a; rcases a with a | a | a | a <;> cases a
  · rw [hm]; intro a; cases a
  · rw [hm]; intro a; cases a

theorem ret_err_mpc (s : St) {r : Ret} (hr : isErr r) : (ret s r).mpc = .failed := by
  unfold ret
  split
  · rename_i h; rcases h with h | h | h
    · exact absurd h hr.1
    · exact absurd h hr.2.1
    · exact absurd h hr.2.2
  · rfl

theorem isErr_getD {s : St} (h : InvB s) : isErr (s.err.getD PROG_ERROR) := by
  cases he : s.err with
  | none => simp [isErr, PROG_ERROR, OK, END, TIMED_OUT]
  | some r => simpa using h.errBad r he

theorem shape_getLast? {q : List Entry} {e : Entry} (h : q.getLast? = some e) : (shape q).getLast? = some (e.closed, e.data.length) := by
  simp [shape, List.getLast?_map, h]

theorem InvB_mEncIn {s s' : St} (h : InvB s) (hs : mEncIn s = some s') : InvB s' := by
  unfold mEncIn at hs
  split at hs
  · rename_i hg
    have hq := h.pcBlock (Or.inr (Or.inl hg))
    split at hs
    · -- loop condition false
      rename_i hlc
      cases hs
      refine ⟨h.bsPos, h.tmPos, h.abl, ?_, h.allClosed, h.ne, h.seqHdr, h.seqTail, (fun _ => hq), (by intro a; cases a), (by intro a; cases a), h.errBad, h.pendOk⟩
      intro ht
      obtain ⟨x, hx1, hx2, hx3⟩ := h.open_ ht
      refine ⟨x, hx1, hx2, ?_⟩
      intro hz
      rcases hx3 hz with ⟨_, a⟩ | a | a
      · exact absurd (by simpa using hlc.1) a
      · rw [hg] at a; cases a
      · rw [hg] at a; cases a
    · rename_i hlc
      split at hs
      · -- get_thread
        rename_i hnt
        have hthr : s.thr = false := by simpa using hnt
        have hinp : s.inp ≠ [] := by
          intro hi; apply hlc; rw [hi, hthr]; simp
        have newEntry : ∀ t : St, t.cfg = s.cfg → t.thr = true → (∃ ne : Entry, ne.closed = false ∧ ne.data = [] ∧ t.outq = s.outq ++ [ne]) →
            t.mpc = s.mpc → t.inp = s.inp → t.seq = s.seq → t.err = s.err → t.pending = s.pending → InvB t := by
          intro t h0 h1 ⟨ne, hn1, hn2, h2⟩ h3' h4 h5 h6 h7
          have h3 : t.mpc = .encIn := h3'.trans hg
          have hsh : shape t.outq = shape s.outq ++ [(false, 0)] := by rw [h2, shape_append, hn1, hn2]; rfl
          refine ⟨h0 ▸ h.bsPos, h0 ▸ h.tmPos, ?_, ?_, ?_, ?_, ?_, ?_, ?_, ?_, ?_, h6 ▸ h.errBad, h7 ▸ h.pendOk⟩
          · rw [hsh, List.dropLast_concat]; exact h.allClosed hthr
          · intro _; refine ⟨(false, 0), by rw [hsh]; simp, rfl, ?_⟩
            intro _; left; exact ⟨h3, h4 ▸ hinp⟩
          · rw [h1]; intro a; cases a
          · rw [hsh]; intro x hx hx2
            simp only [List.mem_append, List.mem_singleton] at hx
            rcases hx with hx | rfl
            · exact h.ne x hx hx2
            · cases hx2
          · rw [h5, hq]; intro a; cases a
          · rw [h5, hq]; intro a; rcases a with a | a <;> cases a
          · intro _; rw [h5]; exact hq
          · rw [h3]; intro a; cases a
          · rw [h3]; intro a; cases a
        split at hs
        · cases hs
          refine ⟨h.bsPos, h.tmPos, h.abl, ?_, h.allClosed, h.ne, h.seqHdr, h.seqTail, (fun _ => hq), (by intro a; cases a), (by intro a; cases a), h.errBad, h.pendOk⟩
          intro ht; rw [hthr] at ht; cases ht
        · split at hs
          · cases hs; exact newEntry _ rfl rfl ⟨_, rfl, rfl, rfl⟩ rfl rfl rfl rfl rfl
          · split at hs
            · cases hs; exact newEntry _ rfl rfl ⟨_, rfl, rfl, rfl⟩ rfl rfl rfl rfl rfl
            · cases hs
              refine ⟨h.bsPos, h.tmPos, h.abl, ?_, h.allClosed, h.ne, h.seqHdr, h.seqTail, (fun _ => hq), (by intro a; cases a), (by intro a; cases a), h.errBad, h.pendOk⟩
              intro ht; rw [hthr] at ht; cases ht
      · -- feed
        rename_i hnt
        have hthr : s.thr = true := by simpa using hnt
        split at hs; · cases hs
        rename_i e hl
        obtain ⟨x, hx1, hx2, hx3⟩ := h.open_ hthr
        rw [shape_getLast? hl] at hx1
        cases hx1
        simp only at hx2 hx3
        have hpos : 0 < (e.data ++ s.inp.take (min s.inp.length (s.cfg.bs - e.data.length))).length := by
          simp only [List.length_append, List.length_take]
          by_cases hz : e.data.length = 0
          · rcases hx3 hz with ⟨_, a⟩ | a | a
            · have : 0 < s.inp.length := List.length_pos_iff.mpr a
              have := h.bsPos
              omega
            · rw [hg] at a; cases a
            · rw [hg] at a; cases a
          · omega
        dsimp only at hs
        have errCase : ∀ t : St, t.mpc = .failed → t.cfg = s.cfg → shape t.outq = shape s.outq → t.thr = s.thr → t.seq = s.seq → t.err = s.err → t.pending = s.pending → InvB t :=
          fun t a b c d e f g => InvB_fail h hq a b c d e f g
        have retErr : ∀ s1 : St, s1.cfg = s.cfg → s1.outq = s.outq → s1.thr = s.thr → s1.seq = s.seq → s1.err = s.err → s1.pending = s.pending →
            InvB (ret s1 (s.err.getD PROG_ERROR)) := by
          intro s1 a b c d e f
          refine errCase _ (ret_err_mpc _ (isErr_getD h)) ?_ ?_ ?_ ?_ ?_ ?_
          rotate_left 5
          · rw [← f]; unfold ret; split <;> rfl
          · rw [← a]; unfold ret; split <;> rfl
          · rw [ret_shape, b]
          · rw [← c]; unfold ret; split <;> rfl
          · rw [← d]; unfold ret; split <;> rfl
          · rw [← e]; unfold ret; split <;> rfl
        split at hs
        · cases hs; exact retErr _ rfl rfl rfl rfl rfl rfl
        · split at hs
          · cases hs; exact retErr _ rfl rfl rfl rfl rfl rfl
          · cases hs
            rename_i w hw hnidle
            generalize hfin : (decide ((e.data ++ List.take (min s.inp.length (s.cfg.bs - e.data.length)) s.inp).length = s.cfg.bs) ||
                (List.drop (min s.inp.length (s.cfg.bs - e.data.length)) s.inp).isEmpty && decide (s.act ≠ Action.run)) = fin
            have hsh : ∀ e' : Entry, e'.closed = fin → e'.data = e.data ++ List.take (min s.inp.length (s.cfg.bs - e.data.length)) s.inp →
                shape (s.outq.dropLast ++ [e']) = (shape s.outq).dropLast ++ [(fin, (e.data ++ List.take (min s.inp.length (s.cfg.bs - e.data.length)) s.inp).length)] := by
              intro e' h1 h2; rw [shape_append, shape_dropLast, h1, h2]
            refine ⟨h.bsPos, h.tmPos, ?_, ?_, ?_, ?_, ?_, ?_, ?_, ?_, ?_, h.errBad, h.pendOk⟩
            · dsimp only; rw [hsh _ rfl rfl, List.dropLast_concat]; exact h.abl
            · dsimp only; rw [hsh _ rfl rfl]
              intro ht
              refine ⟨_, List.getLast?_concat .., ?_, ?_⟩
              · simpa using ht
              · intro hz; simp only at hz; omega
            · dsimp only; rw [hsh _ rfl rfl]
              intro ht x hx
              simp only [List.mem_append, List.mem_singleton] at hx
              rcases hx with hx | rfl
              · exact h.abl x hx
              · simpa using ht
            · dsimp only; rw [hsh _ rfl rfl]
              intro x hx hx2
              simp only [List.mem_append, List.mem_singleton] at hx
              rcases hx with hx | rfl
              · exact h.ne x ((List.dropLast_sublist _).subset hx) hx2
              · exact hpos
            · dsimp only; rw [hq]; intro a; cases a
            · dsimp only; rw [hq]; intro a; rcases a with a | a <;> cases a
            · intro _; exact hq
            · dsimp only; rw [hg]; intro a; cases a
            · dsimp only; rw [hg]; intro a; cases a
  · cases hs


theorem InvB_mGetThreadErr {s s' : St} {r : Ret} (h : InvB s) (hs : mGetThreadErr s r = some s') : InvB s' := by
  unfold mGetThreadErr at hs
  split at hs
  · rename_i hg
    cases hs
    have hr : isErr r := ⟨hg.2.2.2.1, hg.2.2.2.2.1, hg.2.2.2.2.2⟩
    have hq := h.pcBlock (Or.inr (Or.inl hg.1))
    refine InvB_fail h hq (ret_err_mpc _ hr) ?_ (ret_shape _ _) ?_ ?_ ?_ ?_ <;> (unfold ret; split <;> rfl)
  · cases hs

/-- Changing only `mpc` (to a pc that needs `seq = block`, or to `out`) when the open Block is not empty. -/
theorem InvB_setMpc {s t : St} (h : InvB s) (hne : s.mpc ≠ .encIn ∧ s.mpc ≠ .failed ∧ s.mpc ≠ .ending)
    (hcfg : t.cfg = s.cfg) (hq : t.outq = s.outq) (hthr : t.thr = s.thr) (hseq : t.seq = s.seq) (hdone : t.done = s.done)
    (hcons : t.consumed = s.consumed) (herr : t.err = s.err)
    (hm : t.mpc = .out ∨ ((t.mpc = .loopTop ∨ t.mpc = .waiting) ∧ s.seq = .block)) (hpend : t.pending = s.pending := by rfl) : InvB t := by
  refine ⟨hcfg ▸ h.bsPos, hcfg ▸ h.tmPos, hq ▸ h.abl, ?_, (by rw [hthr, hq]; exact h.allClosed), hq ▸ h.ne,
    (by rw [hseq, hq, hthr, hdone, hcons]; exact h.seqHdr), (by rw [hseq, hq, hthr]; exact h.seqTail), ?_, ?_, ?_, herr ▸ h.errBad, hpend ▸ h.pendOk⟩
  · rw [hthr, hq]; intro ht
    obtain ⟨x, hx1, hx2, hx3⟩ := h.open_ ht
    refine ⟨x, hx1, hx2, ?_⟩
    intro hz
    rcases hx3 hz with ⟨a, _⟩ | a | a
    · exact absurd a hne.1
    · exact absurd a hne.2.1
    · exact absurd a hne.2.2
  · rw [hseq]; intro a
    rcases hm with hm | ⟨_, hm⟩
    · rw [hm] at a; rcases a with a | a | a | a <;> cases a
    · exact hm
  · intro a; rcases hm with hm | ⟨hm | hm, _⟩ <;> rw [hm] at a <;> cases a
  · intro a; rcases hm with hm | ⟨hm | hm, _⟩ <;> rw [hm] at a <;> cases a

theorem InvB_mAfterIn {P : Params} {s s' : St} (h : InvB s) (hs : mAfterIn P s = some s') : InvB s' := by
  unfold mAfterIn at hs
  split at hs
  · rename_i hg
    have hq := h.pcBlock (Or.inr (Or.inr (Or.inl hg)))
    have hne : s.mpc ≠ .encIn ∧ s.mpc ≠ .failed ∧ s.mpc ≠ .ending := by simp [hg]
    have hnf : InvB (noteFlush s) := InvB_frame h rfl rfl rfl rfl rfl rfl rfl rfl rfl h.errBad
    split at hs; · cases hs; exact InvB_ret _ h (by simp [hg]) ⟨hne.2.1, hne.2.2⟩
    split at hs; · cases hs; exact InvB_ret _ hnf (by simp [noteFlush, hg]) (by simp [noteFlush, hg])
    split at hs
    · rename_i hc
      cases hs
      have hnil : s.outq = [] := by simpa using hc.2.1
      refine ⟨h.bsPos, h.tmPos, h.abl, ?_, h.allClosed, h.ne, (by intro a; cases a), ?_, (by intro a; rcases a with a | a | a | a <;> cases a),
        (by intro a; cases a), (fun _ => rfl), h.errBad, h.pendOk⟩
      · intro ht
        obtain ⟨x, hx1, _⟩ := h.open_ ht
        simp [noteFlush, hnil, shape] at hx1
      · intro _
        refine ⟨hnil, ?_⟩
        cases ht : s.thr with
        | false => exact ht
        | true =>
          obtain ⟨x, hx1, _⟩ := h.open_ ht
          simp [hnil, shape] at hx1
    split at hs; · cases hs; exact InvB_ret _ hnf (by simp [noteFlush, hg]) (by simp [noteFlush, hg])
    split at hs; · cases hs; exact InvB_ret _ h (by simp [hg]) ⟨hne.2.1, hne.2.2⟩
    cases hs
    exact InvB_setMpc h hne rfl rfl rfl rfl rfl rfl rfl (Or.inr ⟨Or.inr rfl, hq⟩)
  · cases hs

theorem InvB_mWake {s s' : St} (h : InvB s) (hs : mWake s = some s') : InvB s' := by
  unfold mWake at hs
  split at hs
  · rename_i hg
    have hq := h.pcBlock (Or.inr (Or.inr (Or.inr hg.1)))
    split at hs <;> cases hs
    · exact InvB_setMpc h (by simp [hg.1]) rfl rfl rfl rfl rfl rfl rfl (Or.inr ⟨Or.inl rfl, hq⟩)
    · exact InvB_frame h rfl rfl rfl rfl rfl rfl rfl rfl rfl h.errBad
  · cases hs

theorem InvB_mSpurious {s s' : St} (h : InvB s) (hs : mSpurious s = some s') : InvB s' := by
  unfold mSpurious at hs
  split at hs
  · cases hs; exact InvB_frame h rfl rfl rfl rfl rfl rfl rfl rfl rfl h.errBad
  · cases hs

theorem InvB_mTimeout {s s' : St} (h : InvB s) (hs : mTimeout s = some s') : InvB s' := by
  unfold mTimeout at hs
  split at hs
  · rename_i hg
    cases hs; exact InvB_ret _ h (by simp [hg.1]) (by simp [hg.1])
  · cases hs

theorem InvB_mTail {P : Params} {s s' : St} (h : InvB s) (hs : mTail P s = some s') : InvB s' := by
  unfold mTail at hs
  split at hs
  · rename_i hg
    have hq := h.pcTail hg
    have ht := h.seqTail (Or.inl hq)
    dsimp only at hs
    split at hs <;> cases hs
    · exact InvB_ret _ (InvB_frame h rfl rfl rfl rfl rfl rfl rfl rfl rfl h.errBad) (by simp [hg]) (by simp [hg])
    · have hr : ∀ X : St, ret X END = { X with mpc := .out, lastRet := some (X.act, END) } := by
        intro X; simp [ret, END]
      rw [hr]
      refine ⟨h.bsPos, h.tmPos, h.abl, (by intro a; have : s.thr = true := a; rw [ht.2] at this; cases this), h.allClosed, h.ne, (by intro a; cases a), (fun _ => ht), ?_, ?_, ?_, h.errBad, h.pendOk⟩
      · intro a; rcases a with a | a | a | a <;> cases a
      · intro a; cases a
      · intro a; cases a
  · cases hs


theorem InvB_mUpdate {s s' : St} {c : Nat} (h : InvB s) (hs : mUpdate s c = some s') : InvB s' := by
  unfold mUpdate at hs
  split at hs
  · split at hs <;> cases hs
    · exact InvB_frame h rfl rfl rfl rfl rfl rfl rfl rfl rfl h.errBad
    · exact ⟨h.bsPos, h.tmPos, h.abl, h.open_, h.allClosed, h.ne, h.seqHdr, h.seqTail, h.pcBlock, h.pcHdr, h.pcTail, h.errBad, h.pendOk⟩
  · cases hs

theorem InvB_mEnd {s s' : St} {p : Option Cfg} (h : InvB s) (hp : ∀ c, p = some c → 0 < c.bs ∧ 0 < c.tmax)
    (hs : mEnd s p = some s') : InvB s' := by
  unfold mEnd at hs
  split at hs
  · cases hs
    refine ⟨h.bsPos, h.tmPos, h.abl, ?_, h.allClosed, h.ne, h.seqHdr, h.seqTail, ?_, ?_, ?_, h.errBad, hp⟩
    · intro ht
      obtain ⟨x, hx1, hx2, _⟩ := h.open_ ht
      exact ⟨x, hx1, hx2, fun _ => Or.inr (Or.inr rfl)⟩
    · intro a; rcases a with a | a | a | a <;> cases a
    · intro a; cases a
    · intro a; cases a
  · cases hs

theorem InvB_init {P : Params} {c : Cfg} (h1 : 0 < c.bs) (h2 : 0 < c.tmax) (m : MPc) (hm : m = .out ∨ m = .dead) :
    InvB { (initSt c P) with mpc := m } := by
  refine ⟨h1, h2, by simp [initSt, shape], by simp [initSt], by simp [initSt, shape], by simp [initSt, shape], by simp [initSt],
    by simp [initSt], ?_, ?_, ?_, by simp [initSt], by simp [initSt]⟩
  · intro a; rcases hm with rfl | rfl <;> rcases a with a | a | a | a <;> cases a
  · intro a; rcases hm with rfl | rfl <;> cases a
  · intro a; rcases hm with rfl | rfl <;> cases a

theorem InvB_mJoin {P : Params} {s s' : St} (h : InvB s) (hs : mJoin P s = some s') : InvB s' := by
  unfold mJoin at hs
  split at hs
  · split at hs <;> cases hs
    · exact InvB_init h.bsPos h.tmPos _ (Or.inr rfl)
    · rename_i c hc
      have := h.pendOk c hc
      exact InvB_init (P := P) this.1 this.2 .out (Or.inl rfl)
  · cases hs

theorem wEncErr_err {s s' : St} {i : Nat} {r : Ret} (h : InvB s) (hs : wEncErr s i r = some s') : ∀ r', s'.err = some r' → isErr r' := by
  unfold wEncErr at hs
  split at hs; · cases hs
  split at hs; · cases hs
  split at hs
  · rename_i hg
    cases hs
    intro r' hr'
    simp [setW] at hr'
    subst hr'
    cases he : s.err with
    | none => exact ⟨hg.2.2.1, hg.2.2.2.1, hg.2.2.2.2⟩
    | some r0 => exact h.errBad r0 he
  · cases hs

theorem InvB_step {P : Params} {s s' : St} {e : Ev} (h : InvB s) (hA : InvA P s) (hs : step P s e = some s') : InvB s' := by
  cases e with
  | call inp cap act => exact InvB_mCall h hs
  | mHdr => exact InvB_mHdr h hs
  | mRead => exact InvB_mRead h hA hs
  | mEncIn => exact InvB_mEncIn h hs
  | mAfterIn => exact InvB_mAfterIn h hs
  | mTail => exact InvB_mTail h hs
  | mGetThreadErr r => exact InvB_mGetThreadErr h hs
  | mWake => exact InvB_mWake h hs
  | mTimeout => exact InvB_mTimeout h hs
  | mSpurious => exact InvB_mSpurious h hs
  | update c => exact InvB_mUpdate h hs
  | reinit c =>
    simp only [step] at hs
    split at hs
    · rename_i hc; exact InvB_mEnd h (by intro c' hc'; cases hc'; exact hc) hs
    · cases hs
  | lzmaEnd => exact InvB_mEnd h (by intro c hc; cases hc) hs
  | mExitOne i => exact InvB_wframe h (mExitOne_frame hs) (by
      have : s'.err = s.err := by
        simp only [step] at hs; unfold mExitOne at hs
        split at hs
        · split at hs; · cases hs
          split at hs; · cases hs
          split at hs
          · cases hs; rfl
          · cases hs
        · cases hs
      rw [this]; exact h.errBad)
  | mExitIdle => exact InvB_wframe h (mExitIdle_frame hs) (by
      have : s'.err = s.err := by
        simp only [step] at hs; unfold mExitIdle at hs
        split at hs
        · cases hs; rfl
        · cases hs
      rw [this]; exact h.errBad)
  | mJoin => exact InvB_mJoin h hs
  | wTop i o0 =>
    have f := wTop_frame hs
    refine InvB_wframe h f ?_
    have : s'.err = s.err := by
      simp only [step] at hs; unfold wTop at hs
      split at hs; · cases hs
      split at hs; · cases hs
      split at hs
      · split at hs
        · cases hs; rfl
        · cases hs; rfl
        · cases hs; rfl
        · split at hs <;> cases hs
          rfl
      · cases hs
    rw [this]; exact h.errBad
  | wEnc i full newOut =>
    have f := wEnc_frame hs
    refine InvB_wframe h f ?_
    have : s'.err = s.err := by
      simp only [step] at hs; unfold wEnc at hs
      split at hs; · cases hs
      split at hs; · cases hs
      split at hs
      · split at hs
        · cases hs; rfl
        · split at hs
          · cases hs; rfl
          · cases hs; rfl
          · cases hs; rfl
          · dsimp only at hs
            split at hs
            · split at hs
              · cases hs; rfl
              · cases hs
            · split at hs
              · cases hs; rfl
              · split at hs
                · cases hs; rfl
                · cases hs
      · cases hs
    rw [this]; exact h.errBad
  | wEncErr i r => exact InvB_wframe h (wEncErr_frame hs) (wEncErr_err h hs)
  | wFb i =>
    have f := wFb_frame hs
    refine InvB_wframe h f ?_
    have : s'.err = s.err := by
      simp only [step] at hs; unfold wFb at hs
      split at hs; · cases hs
      split at hs; · cases hs
      split at hs
      · split at hs <;> cases hs <;> rfl
      · cases hs
    rw [this]; exact h.errBad
  | wMarkIdle i =>
    have f := wMarkIdle_frame hs
    refine InvB_wframe h f ?_
    have : s'.err = s.err := by
      simp only [step] at hs; unfold wMarkIdle at hs
      split at hs; · cases hs
      split at hs; · cases hs
      split at hs
      · cases hs; rfl
      · cases hs
    rw [this]; exact h.errBad
  | wTail i =>
    have f := wTail_frame hs
    refine InvB_wframe h f ?_
    have : s'.err = s.err := by
      simp only [step] at hs; unfold wTail at hs
      split at hs; · cases hs
      split at hs; · cases hs
      split at hs
      · dsimp only at hs
        split at hs <;> cases hs <;> rfl
      · cases hs
    rw [this]; exact h.errBad
  | wSpurious i =>
    have f := wSpurious_frame hs
    refine InvB_wframe h f ?_
    have : s'.err = s.err := by
      simp only [step] at hs; unfold wSpurious at hs
      split at hs; · cases hs
      split at hs; · cases hs
      split at hs
      · cases hs; rfl
      · cases hs
    rw [this]; exact h.errBad
  | wExitIdle =>
    have f := wExitIdle_frame hs
    refine InvB_wframe h f ?_
    have : s'.err = s.err := by
      simp only [step] at hs; unfold wExitIdle at hs
      split at hs
      · cases hs; rfl
      · cases hs
    rw [this]; exact h.errBad


theorem InvB_hopen {s : St} (h : InvB s) : s.thr = true → ∀ e, s.outq.getLast? = some e → e.closed = false := by
  intro ht e he
  obtain ⟨x, hx1, hx2, _⟩ := h.open_ ht
  rw [shape_getLast? he] at hx1
  cases hx1
  exact hx2

theorem InvA_step {P : Params} {s s' : St} {e : Ev} (h : InvA P s) (hB : InvB s) (hs : step P s e = some s') : InvA P s' := by
  cases e with
  | call inp cap act => exact InvA_mCall h hs
  | mHdr => exact InvA_mHdr h hs
  | mRead => exact InvA_mRead h hs
  | mEncIn => exact InvA_mEncIn h (InvB_hopen hB) hs
  | mAfterIn => exact InvA_mAfterIn h hs
  | mTail => exact InvA_mTail h hs
  | mGetThreadErr r => exact InvA_mGetThreadErr h hs
  | mWake => exact InvA_mWake h hs
  | mTimeout => exact InvA_mTimeout h hs
  | mSpurious => exact InvA_mSpurious h hs
  | update c => exact InvA_mUpdate h hs
  | reinit c =>
    simp only [step] at hs
    split at hs
    · exact InvA_mEnd h hs
    · cases hs
  | lzmaEnd => exact InvA_mEnd h hs
  | mExitOne i => exact InvA_mExitOne h hs
  | mExitIdle => exact InvA_mExitIdle h hs
  | mJoin => exact InvA_mJoin hs
  | wTop i o0 => exact InvA_wTop h hs
  | wEnc i full newOut => exact InvA_wEnc h hs
  | wEncErr i r => exact InvA_wEncErr h hs
  | wFb i => exact InvA_wFb h hs
  | wMarkIdle i => exact InvA_wMarkIdle h hs
  | wTail i => exact InvA_wTail h hs
  | wSpurious i => exact InvA_wSpurious h hs
  | wExitIdle => exact InvA_wExitIdle h hs

end XzVerif.MtEnc
