/-
  Causality of the LZMA decoder model, part 3: `lzma2_decode` (`Lzma2.lzma2Loop` / `lzma2Call`).

  The loop is first written as the iteration of a non-recursive step function (`l2Step`, `lzma2Loop_succ`); the step is then
  shown to be local in the input.  "Diverged" for LZMA2 (`K2 n`): the cursor is at or beyond the common prefix `n` and, when the
  LZMA layer is active, that layer is starved — from such a state LZMA_STREAM_END cannot be returned before the cursor has
  moved beyond `n` (`k2_loop`).
-/
import XzVerif.Lemmas.LzmaCausalCall
import XzVerif.Model.Lzma2

namespace XzVerif.Lzma
open XzVerif.RangeDec XzVerif.LzDict

/-- outcome of one loop iteration: return from the function, or go round again -/
inductive Step where
  | done (r : Ret × St)
  | next (s : St)

/-- the cursor after the step -/
def Step.pos : Step → Nat
  | .done r => r.2.inPos
  | .next s => s.inPos

def Step.mapInp (c : ByteArray) : Step → Step
  | .done r => .done (r.1, St.withInp r.2 c)
  | .next s => .next (St.withInp s c)

def SSame (n : Nat) : Step → Step → Prop
  | .done r, .done r' => Same2 n r r'
  | .next s, .next s' => Rel n s s'
  | _, _ => False

def SDiv (n : Nat) (K : St → Prop) : Step → Prop
  | .done r => Div2 n K r
  | .next s => n < s.inPos ∨ K s

/-- the four-way outcome of two runs whose loop fuels may differ -/
def Out2 (n : Nat) (K : St → Prop) (r r' : Ret × St) : Prop :=
  Same2 n r r' ∨ (Div2 n K r ∧ Div2 n K r') ∨ r.1 = .progError ∨ r'.1 = .progError

theorem SSame.of_mapInp (n : Nat) (st : Step) (b b' : ByteArray) (hag : Agree n b b') :
    SSame n (st.mapInp b) (st.mapInp b') := by
  cases st with
  | done r => exact ⟨rfl, r.2, b, b', rfl, rfl, hag⟩
  | next s => exact ⟨s, b, b', rfl, rfl, hag⟩

end XzVerif.Lzma

namespace XzVerif.Lzma2
open XzVerif.RangeDec XzVerif.LzDict XzVerif.Lzma

/-! ### the loop body as a step function -/

/-- SEQ_LZMA after the call of the LZMA decoder -/
def l2Lzma (inStart : Nat) (r : Ret × St) : Step :=
  if r.2.inPos - inStart > r.2.l2.compressedSize then .done (.dataError, r.2)
  else
    let s := setL2 r.2 fun l => { l with compressedSize := l.compressedSize - (r.2.inPos - inStart) }
    if r.1 != .streamEnd then .done (r.1, s)
    else if s.l2.compressedSize != 0 then .done (.dataError, s)
    else .next (setL2 s fun l => { l with seq := .control })

/-- SEQ_COPY -/
def l2Copy (s : St) : Step :=
  let s1 := setL2 (dictWrite s s.l2.compressedSize).2 fun l =>
    { l with compressedSize := l.compressedSize - (dictWrite s s.l2.compressedSize).1 }
  if s1.l2.compressedSize != 0 then .done (.ok, s1) else .next (setL2 s1 fun l => { l with seq := .control })

/-- SEQ_CONTROL after the control byte has been consumed and classified -/
def l2Control (s : St) (a : ControlAction) : Step :=
  if a.isEnd then .done (.streamEnd, s)
  else if a.isError then .done (.dataError, s)
  else
    let s := controlApply s a
    if a.dictReset then .done (.ok, { s with dp := { s.dp with needReset := true } })
    else .next s

/-- the states that consume exactly one header byte (`byte`); SEQ_LZMA/SEQ_COPY are not handled here -/
def l2Byte (q : L2Seq) (s : St) (byte : Nat) : Step :=
  match q with
  | .control =>
    let s := { s with inPos := s.inPos + 1 }
    l2Control s (controlStep byte s.l2.needProperties s.l2.needDictionaryReset)
  | .uncompressed1 =>
    .next (setL2 { s with inPos := s.inPos + 1 } fun l =>
      { l with uncompressedSize := l.uncompressedSize + (byte <<< 8), seq := .uncompressed2 })
  | .uncompressed2 =>
    let s := setL2 { s with inPos := s.inPos + 1 } fun l =>
      { l with uncompressedSize := l.uncompressedSize + byte + 1, seq := .compressed0 }
    .next { s with uncomp := some s.l2.uncompressedSize, allowEopm := false, eopmValid := false }
  | .compressed0 =>
    .next (setL2 { s with inPos := s.inPos + 1 } fun l => { l with compressedSize := byte <<< 8, seq := .compressed1 })
  | .compressed1 =>
    .next (setL2 { s with inPos := s.inPos + 1 } fun l =>
      { l with compressedSize := l.compressedSize + byte + 1, seq := l.nextSeq })
  | .properties =>
    let s := { s with inPos := s.inPos + 1 }
    match propsDecode byte with
    | none => .done (.dataError, s)
    | some p => .next ((setL2 s fun l => { l with props := p, seq := .lzma }).resetLzma p)
  | _ => .next { s with inPos := s.inPos + 1 }

/-- `in[*in_pos]` -/
def curByte (s : St) : Nat := (if hlt : s.inPos < s.inp.size then s.inp[s.inPos] else 0).toNat

def l2Step (s : St) : Step :=
  if !(s.inPos < s.inp.size || s.l2.seq == .lzma) then .done (.ok, s)
  else
    match s.l2.seq with
    | .lzma => l2Lzma s.inPos (lzmaCall s)
    | .copy => l2Copy s
    | q => l2Byte q s (curByte s)

def runStep (k : St → Ret × St) : Step → Ret × St
  | .done r => r
  | .next s => k s

theorem runStep_ite (k : St → Ret × St) (c : Prop) [Decidable c] (a b : Step) :
    runStep k (if c then a else b) = if c then runStep k a else runStep k b := by
  split <;> rfl

theorem lzma2Loop_succ (f : Nat) (s : St) : lzma2Loop (f + 1) s = runStep (lzma2Loop f) (l2Step s) := by
  rw [lzma2Loop]
  unfold l2Step
  by_cases hg : (!(s.inPos < s.inp.size || s.l2.seq == .lzma)) = true
  · rw [if_pos hg, if_pos hg]; rfl
  · rw [if_neg hg, if_neg hg]
    simp only [curByte]
    generalize (if hlt : s.inPos < s.inp.size then s.inp[s.inPos] else 0).toNat = byte
    cases hq : s.l2.seq with
    | control =>
      simp only [l2Byte, l2Control]
      split
      · rfl
      · split
        · rfl
        · split <;> rfl
    | uncompressed1 => rfl
    | uncompressed2 => rfl
    | compressed0 => rfl
    | compressed1 => rfl
    | properties =>
      simp only [l2Byte]
      cases propsDecode byte <;> rfl
    | lzma =>
      simp only [l2Lzma, runStep_ite]
      rfl
    | copy =>
      simp only [l2Copy, runStep_ite]
      rfl

/-! ### the cursor never moves backwards -/

theorem controlApply_inPos (s : St) (a : ControlAction) : (controlApply s a).inPos = s.inPos := by
  unfold controlApply
  simp only []
  split
  · split <;> rfl
  · rfl

theorem controlApply_withInp (s : St) (a : ControlAction) (b : ByteArray) :
    controlApply (St.withInp s b) a = St.withInp (controlApply s a) b := by
  unfold controlApply
  simp only []
  split
  · split <;> rfl
  · rfl

theorem l2Control_pos (s : St) (a : ControlAction) : (l2Control s a).pos = s.inPos := by
  unfold l2Control
  split
  · rfl
  · split
    · rfl
    · simp only []
      split
      · exact controlApply_inPos _ _
      · exact controlApply_inPos _ _

theorem l2Control_withInp (s : St) (a : ControlAction) (b : ByteArray) :
    l2Control (St.withInp s b) a = (l2Control s a).mapInp b := by
  unfold l2Control
  split
  · rfl
  · split
    · rfl
    · simp only []
      rw [controlApply_withInp]
      split <;> rfl

theorem l2Byte_pos (q : L2Seq) (s : St) (byte : Nat) : (l2Byte q s byte).pos = s.inPos + 1 := by
  cases q with
  | control => exact l2Control_pos _ _
  | properties =>
    simp only [l2Byte]
    cases propsDecode byte <;> rfl
  | uncompressed1 => rfl
  | uncompressed2 => rfl
  | compressed0 => rfl
  | compressed1 => rfl
  | lzma => rfl
  | copy => rfl

theorem l2Byte_withInp (q : L2Seq) (s : St) (byte : Nat) (b : ByteArray) :
    l2Byte q (St.withInp s b) byte = (l2Byte q s byte).mapInp b := by
  cases q with
  | control =>
    exact l2Control_withInp { s with inPos := s.inPos + 1 } (controlStep byte s.l2.needProperties s.l2.needDictionaryReset) b
  | properties =>
    simp only [l2Byte]
    cases propsDecode byte <;> rfl
  | uncompressed1 => rfl
  | uncompressed2 => rfl
  | compressed0 => rfl
  | compressed1 => rfl
  | lzma => rfl
  | copy => rfl

theorem l2Lzma_pos (i : Nat) (r : Ret × St) : (l2Lzma i r).pos = r.2.inPos := by
  unfold l2Lzma
  simp only []
  split
  · rfl
  · split
    · rfl
    · split <;> rfl

theorem l2Lzma_withInp (i : Nat) (ret : Ret) (w : St) (c : ByteArray) :
    l2Lzma i (ret, St.withInp w c) = (l2Lzma i (ret, w)).mapInp c := by
  unfold l2Lzma
  show (if w.inPos - i > w.l2.compressedSize then _ else _) = Step.mapInp c (if w.inPos - i > w.l2.compressedSize then _ else _)
  split
  · rfl
  · simp only []
    split
    · rfl
    · show (if (w.l2.compressedSize - (w.inPos - i) != 0) = true then _ else _) =
        Step.mapInp c (if (w.l2.compressedSize - (w.inPos - i) != 0) = true then _ else _)
      split <;> rfl

/-- number of bytes SEQ_COPY copies -/
def copyCount (s : St) : Nat := min (min (s.inp.size - s.inPos) s.l2.compressedSize) s.dp.avail

theorem l2Copy_facts (s : St) (hq : s.l2.seq = .copy) :
    (l2Copy s).pos = s.inPos + copyCount s ∧
    match l2Copy s with
    | .done r => r.1 = .ok ∧ r.2.l2.seq = .copy
    | .next s1 => s1.l2.seq = .control := by
  unfold l2Copy
  simp only []
  split
  · exact ⟨rfl, rfl, hq⟩
  · exact ⟨rfl, rfl⟩

theorem l2Step_lzma (s : St) (hq : s.l2.seq = .lzma) : l2Step s = l2Lzma s.inPos (lzmaCall s) := by
  unfold l2Step
  simp [hq]

theorem l2Step_starve (s : St) (hq : s.l2.seq ≠ .lzma) (hg : ¬ s.inPos < s.inp.size) : l2Step s = .done (.ok, s) := by
  unfold l2Step
  rw [if_pos]
  simp [hg, hq]

theorem l2Step_copy (s : St) (hq : s.l2.seq = .copy) (hg : s.inPos < s.inp.size) : l2Step s = l2Copy s := by
  unfold l2Step
  simp [hq, hg]

theorem l2Step_byte (s : St) (hq : s.l2.seq ≠ .lzma) (hq' : s.l2.seq ≠ .copy) (hg : s.inPos < s.inp.size) :
    l2Step s = l2Byte s.l2.seq s (curByte s) := by
  unfold l2Step
  rw [if_neg (by simp [hg])]
  cases h : s.l2.seq with
  | lzma => exact absurd h hq
  | copy => exact absurd h hq'
  | _ => rfl

theorem l2Step_mono (s : St) : s.inPos ≤ (l2Step s).pos := by
  by_cases hq : s.l2.seq = .lzma
  · rw [l2Step_lzma s hq, l2Lzma_pos]; exact lzmaCall_mono s
  · by_cases hg : s.inPos < s.inp.size
    · by_cases hc : s.l2.seq = .copy
      · rw [l2Step_copy s hc hg, (l2Copy_facts s hc).1]; omega
      · rw [l2Step_byte s hq hc hg, l2Byte_pos]; omega
    · rw [l2Step_starve s hq hg]; exact Nat.le_refl _

theorem lzma2Loop_mono : ∀ f s, s.inPos ≤ (lzma2Loop f s).2.inPos
  | 0, s => by unfold lzma2Loop; exact Nat.le_refl _
  | f + 1, s => by
    rw [lzma2Loop_succ]
    have hm := l2Step_mono s
    cases h : l2Step s with
    | done r => rw [h] at hm; exact hm
    | next s1 => rw [h] at hm; exact Nat.le_trans hm (lzma2Loop_mono f s1)

/-! ### diverged states -/

/-- at or beyond the common prefix, with the LZMA layer (if active) starved -/
def K2 (n : Nat) (s : St) : Prop := n ≤ s.inPos ∧ (s.l2.seq = .lzma → s.pending = .stuck)

theorem SDiv.of_pos {n : Nat} {K : St → Prop} {st : Step} (h : n < st.pos) : SDiv n K st := by
  cases st with
  | done r => exact Or.inl h
  | next s => exact Or.inl h

theorem k2_copy (n : Nat) (s : St) (hq : s.l2.seq = .copy) (hp : n ≤ s.inPos + copyCount s) : SDiv n (K2 n) (l2Copy s) := by
  have hf := l2Copy_facts s hq
  cases h : l2Copy s with
  | done r =>
    rw [h] at hf
    have h1 : r.2.inPos = s.inPos + copyCount s := hf.1
    right
    refine ⟨by rw [hf.2.1]; simp, fun _ => ⟨by omega, fun hl => ?_⟩⟩
    rw [hf.2.2] at hl; cases hl
  | next s1 =>
    rw [h] at hf
    have h1 : s1.inPos = s.inPos + copyCount s := hf.1
    right
    refine ⟨by omega, fun hl => ?_⟩
    rw [hf.2] at hl; cases hl

theorem k2_step (n : Nat) (s : St) (h : K2 n s) : SDiv n (K2 n) (l2Step s) := by
  by_cases hq : s.l2.seq = .lzma
  · rw [l2Step_lzma s hq, lzmaCall_stuck s (h.2 hq)]
    unfold l2Lzma
    simp only [Nat.sub_self]
    rw [if_neg (by omega)]
    rw [if_pos (by decide)]
    right
    exact ⟨by simp, fun _ => ⟨h.1, fun _ => h.2 hq⟩⟩
  · by_cases hg : s.inPos < s.inp.size
    · by_cases hc : s.l2.seq = .copy
      · rw [l2Step_copy s hc hg]
        exact k2_copy n s hc (by have := h.1; omega)
      · rw [l2Step_byte s hq hc hg]
        apply SDiv.of_pos
        rw [l2Byte_pos]
        have := h.1
        omega
    · rw [l2Step_starve s hq hg]
      right
      exact ⟨by simp, fun _ => h⟩

theorem k2_loop (n : Nat) : ∀ f s, (n < s.inPos ∨ K2 n s) → Div2 n (K2 n) (lzma2Loop f s)
  | 0, s, h => by
    unfold lzma2Loop
    rcases h with h | h
    · exact Or.inl h
    · exact Or.inr ⟨by simp, fun hc => by cases hc⟩
  | f + 1, s, h => by
    rcases h with h | h
    · exact Or.inl (Nat.lt_of_lt_of_le h (lzma2Loop_mono _ s))
    · rw [lzma2Loop_succ]
      have hs := k2_step n s h
      cases hst : l2Step s with
      | done r => rw [hst] at hs; exact hs
      | next s1 => rw [hst] at hs; exact k2_loop n f s1 hs

end XzVerif.Lzma2
