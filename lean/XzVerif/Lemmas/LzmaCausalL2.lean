/-
  Causality of the LZMA decoder model, part 3: `lzma2_decode` (`Lzma2.lzma2Loop` / `lzma2Call`).

  The loop is first written as the iteration of a non-recursive step function (`l2Step`, `lzma2Loop_succ`); the step is then
  shown to be local in the input.  "Diverged" for LZMA2 (`K2 n`): the cursor is at or beyond the common prefix `n` and, when the
  LZMA layer is active, that layer is starved — from such a state LZMA_STREAM_END cannot be returned before the cursor has
  moved beyond `n` (`k2_loop`).
-/
import XzVerif.Lemmas.LzmaCausalCall
import XzVerif.Model.Lzma2

namespace XzVerif.Lzma
open XzVerif.RangeDec XzVerif.LzDict

/-- outcome of one loop iteration: return from the function, or go round again -/
inductive Step where
  | done (r : Ret × St)
  | next (s : St)

/-- the cursor after the step -/
def Step.pos : Step → Nat
  | .done r => r.2.inPos
  | .next s => s.inPos

def Step.mapInp (c : ByteArray) : Step → Step
  | .done r => .done (r.1, St.withInp r.2 c)
  | .next s => .next (St.withInp s c)

def SSame (n : Nat) : Step → Step → Prop
  | .done r, .done r' => Same2 n r r'
  | .next s, .next s' => Rel n s s'
  | _, _ => False

def SDiv (n : Nat) (K : St → Prop) : Step → Prop
  | .done r => Div2 n K r
  | .next s => n < s.inPos ∨ K s

/-- the four-way outcome of two runs whose loop fuels may differ -/
def Out2 (n : Nat) (K : St → Prop) (r r' : Ret × St) : Prop :=
  Same2 n r r' ∨ (Div2 n K r ∧ Div2 n K r') ∨ r.1 = .progError ∨ r'.1 = .progError

theorem SSame.of_mapInp (n : Nat) (st : Step) (b b' : ByteArray) (hag : Agree n b b') :
    SSame n (st.mapInp b) (st.mapInp b') := by
  cases st with
  | done r => exact ⟨rfl, r.2, b, b', rfl, rfl, hag⟩
  | next s => exact ⟨s, b, b', rfl, rfl, hag⟩

end XzVerif.Lzma

namespace XzVerif.Lzma2
open XzVerif.RangeDec XzVerif.LzDict XzVerif.Lzma

/-! ### the loop body as a step function -/

/-- SEQ_LZMA after the call of the LZMA decoder -/
def l2Lzma (inStart : Nat) (r : Ret × St) : Step :=
  if r.2.inPos - inStart > r.2.l2.compressedSize then .done (.dataError, r.2)
  else
    let s := setL2 r.2 fun l => { l with compressedSize := l.compressedSize - (r.2.inPos - inStart) }
    if r.1 != .streamEnd then .done (r.1, s)
    else if s.l2.compressedSize != 0 then .done (.dataError, s)
    else .next (setL2 s fun l => { l with seq := .control })

/-- SEQ_COPY -/
def l2Copy (s : St) : Step :=
  let s1 := setL2 (dictWrite s s.l2.compressedSize).2 fun l =>
    { l with compressedSize := l.compressedSize - (dictWrite s s.l2.compressedSize).1 }
  if s1.l2.compressedSize != 0 then .done (.ok, s1) else .next (setL2 s1 fun l => { l with seq := .control })

/-- the states that consume exactly one header byte (`byte`); SEQ_LZMA/SEQ_COPY are not handled here -/
def l2Byte (q : L2Seq) (s : St) (byte : Nat) : Step :=
  match q with
  | .control =>
    let s := { s with inPos := s.inPos + 1 }
    let a := controlStep byte s.l2.needProperties s.l2.needDictionaryReset
    if a.isEnd then .done (.streamEnd, s)
    else if a.isError then .done (.dataError, s)
    else
      let s := controlApply s a
      if a.dictReset then .done (.ok, { s with dp := { s.dp with needReset := true } })
      else .next s
  | .uncompressed1 =>
    .next (setL2 { s with inPos := s.inPos + 1 } fun l =>
      { l with uncompressedSize := l.uncompressedSize + (byte <<< 8), seq := .uncompressed2 })
  | .uncompressed2 =>
    let s := setL2 { s with inPos := s.inPos + 1 } fun l =>
      { l with uncompressedSize := l.uncompressedSize + byte + 1, seq := .compressed0 }
    .next { s with uncomp := some s.l2.uncompressedSize, allowEopm := false, eopmValid := false }
  | .compressed0 =>
    .next (setL2 { s with inPos := s.inPos + 1 } fun l => { l with compressedSize := byte <<< 8, seq := .compressed1 })
  | .compressed1 =>
    .next (setL2 { s with inPos := s.inPos + 1 } fun l =>
      { l with compressedSize := l.compressedSize + byte + 1, seq := l.nextSeq })
  | .properties =>
    let s := { s with inPos := s.inPos + 1 }
    match propsDecode byte with
    | none => .done (.dataError, s)
    | some p => .next ((setL2 s fun l => { l with props := p, seq := .lzma }).resetLzma p)
  | _ => .next { s with inPos := s.inPos + 1 }

/-- `in[*in_pos]` -/
def curByte (s : St) : Nat := (if hlt : s.inPos < s.inp.size then s.inp[s.inPos] else 0).toNat

def l2Step (s : St) : Step :=
  if !(s.inPos < s.inp.size || s.l2.seq == .lzma) then .done (.ok, s)
  else
    match s.l2.seq with
    | .lzma => l2Lzma s.inPos (lzmaCall s)
    | .copy => l2Copy s
    | q => l2Byte q s (curByte s)

def runStep (k : St → Ret × St) : Step → Ret × St
  | .done r => r
  | .next s => k s

theorem runStep_ite (k : St → Ret × St) (c : Prop) [Decidable c] (a b : Step) :
    runStep k (if c then a else b) = if c then runStep k a else runStep k b := by
  split <;> rfl

theorem lzma2Loop_succ (f : Nat) (s : St) : lzma2Loop (f + 1) s = runStep (lzma2Loop f) (l2Step s) := by
  rw [lzma2Loop]
  unfold l2Step
  by_cases hg : (!(s.inPos < s.inp.size || s.l2.seq == .lzma)) = true
  · rw [if_pos hg, if_pos hg]; rfl
  · rw [if_neg hg, if_neg hg]
    simp only [curByte]
    generalize (if hlt : s.inPos < s.inp.size then s.inp[s.inPos] else 0).toNat = byte
    cases hq : s.l2.seq with
    | control =>
      simp only [l2Byte]
      split
      · rfl
      · split
        · rfl
        · split <;> rfl
    | uncompressed1 => rfl
    | uncompressed2 => rfl
    | compressed0 => rfl
    | compressed1 => rfl
    | properties =>
      simp only [l2Byte]
      split <;> rfl
    | lzma =>
      simp only [l2Lzma, runStep_ite]
      rfl
    | copy =>
      simp only [l2Copy, runStep_ite]
      rfl

end XzVerif.Lzma2
