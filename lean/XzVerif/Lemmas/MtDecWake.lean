/-
  No lost wake-up, as invariants: a thread that sits in cond_wait without a pending signal has its wait condition still true
  (so every transition that falsifies a wait condition has signalled the matching condition variable, and it did so inside the
  critical section of the mutex the waiter re-checks under, because a transition of this model IS such a critical section).
-/
import XzVerif.Lemmas.MtDecFinal

namespace XzVerif.MtDec

/-- What a worker waits for on thr->cond: being idle, or running with no new input and no freshly enabled partial update. -/
def waitOk (w : Worker) : Prop :=
  w.pc = .wait → w.woken = true ∨ w.st = .idle ∨ (w.st = .run ∧ w.inFilled = w.inPos ∧ w.pu ≠ .start)

/-- What the main thread waits for on coder->cond inside read_output_and_wait: nothing to read, nothing finished, the last
    worker not stalled, and (if asked) the next Block cannot start yet. -/
def MainIdle (s : State) (k : RowK) : Prop :=
  s.queue.isEmpty = false ∧ headReadable s = false ∧ stalled s = false ∧ (askCanStart k && canStartNow s) = false

structure WakeInv (s : State) : Prop where
  wk : ∀ i, i < s.workers.length → waitOk (getW s i)
  pu : ∀ i, i < s.workers.length → ∀ lim p, (getW s i).pc = .decode lim p → p ≠ .disabled → (getW s i).pu ≠ .disabled
  main : ∀ k w, s.pc = .rowWait k w → s.mwoken = false → MainIdle s k

theorem WakeInv.init (cfg : Cfg) (blocks : List Block) : WakeInv (init cfg blocks) := by
  constructor <;> simp [MtDec.init]

theorem waitOk_decide (w : Worker) : waitOk (workerDecide w) := by
  unfold workerDecide waitOk
  split
  · rename_i h; intro _; exact Or.inr (Or.inl h)
  · intro hp; cases hp
  · rename_i h
    split
    · rename_i hc
      simp only [Bool.and_eq_true, decide_eq_true_eq, bne_iff_ne] at hc
      intro _; exact Or.inr (Or.inr ⟨h, hc.1, hc.2⟩)
    · intro hp; cases hp

/-- MainIdle only looks at these. -/
theorem MainIdle.congr {s s' : State} {k : RowK} (h : MainIdle s k) (e1 : s'.queue = s.queue) (e2 : s'.readPos = s.readPos)
    (e3 : s'.thr = s.thr)
    (e4 : ∀ t, s.thr = some t → ((getW s' t).pu != .disabled) = ((getW s t).pu != .disabled) ∧ (getW s' t).inFilled = (getW s t).inFilled)
    (e5 : s'.cfg = s.cfg) (e6 : s'.memInUse = s.memInUse) (e7 : s'.blocks = s.blocks) (e8 : s'.cur = s.cur)
    (e9 : s'.workers.length = s.workers.length) (e10 : s'.threadsFree = s.threadsFree) : MainIdle s' k := by
  obtain ⟨h1, h2, h3, h4⟩ := h
  have eb : ∀ j, blk s' j = blk s j := fun j => by simp [blk, e7]
  refine ⟨by rw [e1]; exact h1, ?_, ?_, ?_⟩
  · unfold headReadable at h2 ⊢; rw [e1, e2]; exact h2
  · unfold stalled at h3 ⊢
    rw [e1, e3]
    cases ht : s.thr with
    | none => simp
    | some t =>
      rw [ht] at h3
      cases hq : s.queue with
      | nil => simp
      | cons a q =>
        rw [hq] at h3
        simp only at h3 ⊢
        rw [(e4 t ht).1, (e4 t ht).2]; exact h3
  · have : canStartNow s' = canStartNow s := by
      unfold canStartNow outqMem
      rw [e5, e6, e1, e8, e9, e10]
      simp only [eb]
    rw [this]; exact h4

/-- A step that only replaces worker `i` and does not signal coder->cond. -/
theorem WakeInv.setWQuiet {s : State} (h : WakeInv s) (i : Nat) (hi : i < s.workers.length) (w' : Worker)
    (h1 : waitOk w') (h2 : ∀ lim p, w'.pc = .decode lim p → p ≠ .disabled → w'.pu ≠ .disabled)
    (h3 : (w'.pu != .disabled) = ((getW s i).pu != .disabled) ∧ w'.inFilled = (getW s i).inFilled) :
    WakeInv (MtDec.setW s i w') := by
  refine ⟨?_, ?_, ?_⟩
  · intro j hj
    simp only [setW_workers_length] at hj
    rw [getW_setW s i j w' hi]
    split
    · exact h1
    · exact h.wk j hj
  · intro j hj
    simp only [setW_workers_length] at hj
    rw [getW_setW s i j w' hi]
    split
    · exact h2
    · exact h.pu j hj
  · intro k w hp hm
    refine (h.main k w hp hm).congr rfl rfl rfl ?_ rfl rfl rfl rfl (by simp) rfl
    intro t _
    rw [getW_setW s i t w' hi]
    split
    · rename_i e; subst e; exact h3
    · exact ⟨rfl, rfl⟩

theorem workerDecide_pu (w : Worker) : (workerDecide w).pu = w.pu := by
  unfold workerDecide; split <;> (try split) <;> rfl

theorem workerDecide_decode (w : Worker) (lim : Nat) (p : PU) (h : (workerDecide w).pc = .decode lim p) : p = w.pu := by
  unfold workerDecide at h
  split at h
  · cases h
  · cases h
  · split at h
    · cases h
    · injection h with _ e; exact e.symm

theorem WakeInv.worker {s s' : State} {l : Label} (h : WakeInv s) (hl : l.worker?.isSome = true)
    (hs : step s l = some s') : WakeInv s' := by
  cases l <;> simp only [Label.worker?, Option.isSome, reduceCtorEq] at hl <;> simp only [step] at hs
  case wLoop i c =>
    split at hs
    · rename_i hi
      have key : s' = MtDec.setW s i (workerDecide (getW s i)) := by
        split at hs <;> first
          | (injection hs with hs; exact hs.symm)
          | (split at hs <;> first | (injection hs with hs; exact hs.symm) | cases hs)
          | cases hs
      subst key
      refine h.setWQuiet i hi _ (waitOk_decide _) ?_ ⟨by rw [workerDecide_pu], workerDecide_inFilled _⟩
      intro lim p hp hne
      rw [workerDecide_pu]
      rw [workerDecide_decode _ lim p hp] at hne
      exact hne
    · cases hs
  case wDecode i a b v =>
    split at hs
    case isFalse => cases hs
    rename_i hi
    split at hs
    case h_2 => cases hs
    rename_i lim pu hpc
    split at hs
    case isFalse => cases hs
    have hpuI := h.pu i hi lim pu hpc
    split at hs
    · split at hs
      case isFalse => cases hs
      cases hs
      exact h.setWQuiet i hi _ (fun hp => by cases hp) (fun _ _ hp => by cases hp) ⟨rfl, rfl⟩
    · split at hs
      · rename_i hne
        cases hs
        have hne' : pu ≠ .disabled := by simpa using hne
        refine h.setWQuiet i hi _ (fun hp => by cases hp) (fun _ _ hp => by cases hp) ⟨?_, rfl⟩
        have := hpuI hne'
        have e : ((getW s i).pu != PU.disabled) = true := by simpa using this
        rw [e]; rfl
      · cases hs
        exact h.setWQuiet i hi _ (fun hp => by cases hp) (fun _ _ hp => by cases hp) ⟨rfl, rfl⟩
  case wFin1 i =>
    split at hs
    case isFalse => cases hs
    rename_i hi
    split at hs
    case h_2 => cases hs
    cases hs
    exact h.setWQuiet i hi _ (fun hp => by cases hp) (fun _ _ hp => by cases hp) ⟨rfl, rfl⟩
  case wFin2 i =>
    split at hs
    case isFalse => cases hs
    rename_i hi
    split at hs
    case h_2 => cases hs
    cases hs
    exact h.setWQuiet i hi _ (fun hp => by cases hp) (fun _ _ hp => by cases hp) ⟨rfl, rfl⟩
  case wCleanup i =>
    split at hs
    case isFalse => cases hs
    rename_i hg
    simp only [Bool.and_eq_true, decide_eq_true_eq] at hg
    cases hs
    exact h.setWQuiet i hg.1 _ (fun hp => by cases hp) (fun _ _ hp => by cases hp) ⟨rfl, rfl⟩
  case wPublish i =>
    split at hs
    case isFalse => cases hs
    rename_i hg
    simp only [Bool.and_eq_true, decide_eq_true_eq] at hg
    cases hs
    have hq := h.setWQuiet i hg.1 { getW s i with pc := .top } (fun hp => by cases hp) (fun _ _ hp => by cases hp) ⟨rfl, rfl⟩
    exact ⟨hq.wk, hq.pu, fun k w _ hm => by simp [signalMain] at hm⟩
  case wFin3 i =>
    split at hs
    case isFalse => cases hs
    rename_i hi
    split at hs
    case h_2 => cases hs
    rename_i r hpc
    have hq := h.setWQuiet i hi { getW s i with hasOut := false, failed := r != END, pc := .top }
      (fun hp => by cases hp) (fun _ _ hp => by cases hp) ⟨rfl, rfl⟩
    have fin : ∀ s2 : State, s2.workers = (MtDec.setW s i { getW s i with hasOut := false, failed := r != END, pc := .top }).workers →
        s2.mwoken = true → WakeInv s2 := by
      intro s2 e1 e2
      have eg : ∀ j, getW s2 j = getW (MtDec.setW s i { getW s i with hasOut := false, failed := r != END, pc := .top }) j :=
        fun j => by simp [getW, e1]
      refine ⟨?_, ?_, fun k w _ hm => by rw [e2] at hm; cases hm⟩
      · intro j hj; rw [eg]; exact hq.wk j (by rw [e1] at hj; exact hj)
      · intro j hj; rw [eg]; exact hq.pu j (by rw [e1] at hj; exact hj)
    by_cases hend : r = END
    · simp only [hend, bne_self_eq_false, Bool.false_and, Bool.false_eq_true, if_false, if_true] at hs
      cases hs
      subst hend
      exact fin _ rfl rfl
    · simp only [hend, if_false] at hs
      cases hs
      split <;> exact fin _ rfl rfl

end XzVerif.MtDec
