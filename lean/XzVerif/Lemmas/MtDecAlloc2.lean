/-
  AllocInv: preservation by the main-thread transitions, and the global statement.
-/
import XzVerif.Lemmas.MtDecAlloc

namespace XzVerif.MtDec

def Label.allocSimple : Label → Bool
  | .rowIter _ | .assign | .enablePartial | .stopOne | .endSet | .endJoin | .getThread | .startThr | .tell => false
  | _ => true

theorem AllocInv.mainSimple {s s' : State} {l : Label} (h : AllocInv s) (hc : CtlInv s) (hl : l.worker? = none)
    (hsimple : l.allocSimple = true) (hs : step s l = some s') : AllocInv s' := by
  obtain ⟨h1, h2⟩ := h
  have c5 := hc.rowK
  have c6a := hc.thrSeq
  cases l <;> simp only [Label.worker?, reduceCtorEq] at hl <;> simp only [Label.allocSimple, reduceCtorEq] at hsimple <;>
    simp only [step] at hs
  all_goals (repeat' split at hs)
  all_goals first | (cases hs; done) | skip
  all_goals (cases hs)
  all_goals (refine ⟨?_, ?_⟩)
  all_goals first
    | (intro hx; have := h1 hx; simp_all [isEnding]; done)
    | (intro hne hned hf t ht; simp_all [isEnding, feeding, rowKOf, seqOfRowK]; done)
    | (intro hne hned hf t ht; apply h2 <;> simp_all [isEnding, feeding, rowKOf, seqOfRowK]; done)

/-- Transfer along a step that keeps (st, pc, inAlloc, inFilled, inSize) of every worker, pc-class, seq and thr. -/
theorem AllocInv.same {s s' : State} (h : AllocInv s) (el : s'.workers.length = s.workers.length)
    (ew : ∀ j, WSame (getW s j) (getW s' j)) (e2 : isEnding s'.pc → isEnding s.pc) (e2' : isEnding s.pc → isEnding s'.pc)
    (e2'' : s.pc = .ended → s'.pc = .ended → True) (hned : s'.pc ≠ .ended → s.pc ≠ .ended)
    (e3 : feeding s' → feeding s) (e4 : s'.thr = s.thr) : AllocInv s' := by
  refine ⟨?_, ?_⟩
  · rintro ⟨j, hj, hx⟩
    apply e2'
    apply h.noExit
    refine ⟨j, el ▸ hj, ?_⟩
    obtain ⟨a1, a2, _⟩ := ew j
    rcases hx with hx | hx | hx
    · exact Or.inl (a1 ▸ hx)
    · exact Or.inr (Or.inl (a2 ▸ hx))
    · exact Or.inr (Or.inr (a2 ▸ hx))
  · intro hne hned' hf t ht
    have := h.alloc (fun x => hne (e2' x)) (hned hned') (e3 hf) t (e4 ▸ ht)
    obtain ⟨_, _, _, a4, a5, a6, _⟩ := ew t
    rw [a4, a5, a6]; exact this

theorem AllocInv.mainOther2 {s s' : State} {l : Label} (h : AllocInv s) (hI : Inv s)
    (hl : l = .assign ∨ l = .startThr ∨ l = .tell) (hs : step s l = some s') : AllocInv s' := by
  obtain ⟨c1, c2, c3, c4, c5, c6, c6a, c6b, c7, c8, c9, c10⟩ := hI.2
  rcases hl with rfl | rfl | rfl
  · -- assign: the buffer is allocated here
    simp only [step] at hs
    split at hs
    case h_2 => cases hs
    rename_i t hpc hthr
    cases hs
    obtain ⟨t', ht1, ht2, ht3, ht4, _, _⟩ := c7 hpc
    have : t' = t := by rw [hthr] at ht1; injection ht1 with e; exact e.symm
    subst this
    have hg : ∀ j, getW ({ MtDec.setW s t' { getW s t' with blk := s.cur, inAlloc := true, inSize := (blk s s.cur).inSize, hasOut := true, inFilled := 0, inPos := 0, outPos := 0, pu := .disabled } with queue := s.queue ++ [{ blk := s.cur, worker := some t' }], cur := s.cur + 1, pc := MPc.init4 } : State) j
        = if t' = j then { getW s t' with blk := s.cur, inAlloc := true, inSize := (blk s s.cur).inSize, hasOut := true, inFilled := 0, inPos := 0, outPos := 0, pu := .disabled } else getW s j :=
      fun j => getW_setW s t' j _ ht2
    refine ⟨?_, ?_⟩
    · rintro ⟨j, hj, hx⟩
      exfalso
      simp only [setW_workers_length] at hj
      rw [hg] at hx
      have hne := h.noExit
      by_cases e : t' = j
      · subst e
        simp only [if_true] at hx
        have : Exiting (getW s t') := by
          rcases hx with hx | hx | hx
          · exact Or.inl hx
          · exact Or.inr (Or.inl hx)
          · exact Or.inr (Or.inr hx)
        have := hne ⟨t', ht2, this⟩; rw [hpc] at this; cases this
      · simp only [e, if_false] at hx
        have := hne ⟨j, hj, hx⟩; rw [hpc] at this; cases this
    · intro _ _ _ t ht
      have : t = t' := by
        have ht' : s.thr = some t := ht
        rw [hthr] at ht'; injection ht' with e; exact e.symm
      subst this
      rw [hg]; simp
  · -- startThr
    simp only [step] at hs
    split at hs
    case h_2 => cases hs
    rename_i t hpc hthr
    cases hs
    have ht2 : t < s.workers.length := c6 (by rw [hpc]; simp) t hthr
    have h0 := h.setW (s' := MtDec.setW s t (signalW { getW s t with st := .run })) t ht2 _ rfl rfl rfl rfl
      (fun hx => by rcases hx with hx | hx | hx
                    · cases hx
                    · exact Or.inr (Or.inl hx)
                    · exact Or.inr (Or.inr hx)) (fun _ ha => ha)
    refine h0.same (s' := { MtDec.setW s t (signalW { getW s t with st := .run }) with pc := .init5 }) rfl
      (fun j => WSame.refl _) (fun x => by cases x) (fun x => by rw [setW_pc, hpc] at x; cases x) (fun _ _ => trivial)
      (fun _ => by rw [setW_pc, hpc]; simp) ?_ rfl
    intro _
    exact Or.inr ⟨c9 (by simp [hpc]), Or.inl hpc⟩
  · -- tell
    simp only [step] at hs
    split at hs
    case h_2 => cases hs
    rename_i f n t hpc hthr
    cases hs
    obtain ⟨hseq, t', ht1, hlo, hhi⟩ := c10 f n hpc
    have : t' = t := by rw [hthr] at ht1; injection ht1 with e; exact e.symm
    subst this
    have ht2 : t' < s.workers.length := c6 (by rw [hpc]; simp) t' hthr
    have h0 := h.setW (s' := MtDec.setW s t' (signalW { getW s t' with inFilled := f })) t' ht2 _ rfl rfl rfl rfl
      (fun hx => by rcases hx with hx | hx | hx
                    · exact Or.inl hx
                    · exact Or.inr (Or.inl hx)
                    · exact Or.inr (Or.inr hx)) ?_
    · refine h0.same (s' := { MtDec.setW s t' (signalW { getW s t' with inFilled := f }) with
                               pc := .row .thrRun (s.waitingAllowed && n) }) rfl
        (fun j => WSame.refl _) (fun x => by cases x) (fun x => by rw [setW_pc, hpc] at x; cases x) (fun _ _ => trivial)
        (fun _ => by rw [setW_pc, hpc]; simp) ?_ rfl
      intro _
      exact Or.inl hseq
    · intro _ ha
      rcases ha with ha | ha
      · exact Or.inl ha
      · right
        show f = (getW s t').inSize
        omega


theorem rowIterate_core (s : State) (k : RowK) (w : Bool) :
    SameCore (readLoop (s.queue.length + 1) s).1 (rowIterate s k w) ∧ rowKOf (rowIterate s k w).pc = some k := by
  have m := markFilled_core (readLoop (s.queue.length + 1) s).1 s.outCap
  unfold rowIterate
  dsimp only
  split
  · exact ⟨⟨rfl, rfl, rfl, rfl, rfl, rfl, rfl, rfl, rfl, rfl, rfl, rfl, rfl, rfl⟩, rfl⟩
  · split
    · exact ⟨m.1.trans ⟨rfl, rfl, rfl, rfl, rfl, rfl, rfl, rfl, rfl, rfl, rfl, rfl, rfl, rfl⟩, rfl⟩
    · have fp := flagPend_core (markFilled (readLoop (s.queue.length + 1) s).1 s.outCap)
      have lw := rowLeaveOrWait_core (flagPend (markFilled (readLoop (s.queue.length + 1) s).1 s.outCap)) k w
      refine ⟨(m.1.trans fp.1).trans lw.1, ?_⟩
      rcases lw.2 with ⟨c', hc⟩ | hc <;> rw [hc] <;> rfl

theorem AllocInv.mainOther {s s' : State} {l : Label} (h : AllocInv s) (hI : Inv s) (hl : l.worker? = none)
    (hsimple : l.allocSimple = false) (hs : step s l = some s') : AllocInv s' := by
  obtain ⟨c1, c2, c3, c4, c5, c6, c6a, c6b, c7, c8, c9, c10⟩ := hI.2
  cases l <;> simp only [Label.worker?, reduceCtorEq] at hl <;> simp only [Label.allocSimple, reduceCtorEq] at hsimple
  case assign => exact h.mainOther2 hI (Or.inl rfl) hs
  case startThr => exact h.mainOther2 hI (Or.inr (Or.inl rfl)) hs
  case tell => exact h.mainOther2 hI (Or.inr (Or.inr rfl)) hs
  case rowIter c =>
    -- workers change only in pu/woken; pc stays inside read_output_and_wait
    have key : ∀ k w, rowKOf s.pc = some k → s' = rowIterate s k w → AllocInv s' := by
      intro k w hk e
      obtain ⟨f, _, _, _⟩ := readLoop_spec (s.queue.length + 1) hI.1
      subst e
      obtain ⟨core, hk1'⟩ := rowIterate_core s k w
      have hk1 : (rowKOf (rowIterate s k w).pc).isSome = true := by rw [hk1']; rfl
      have eg : ∀ j, getW (rowIterate s k w) j = getW (readLoop (s.queue.length + 1) s).1 j := fun j => by simp [getW, core.workers]
      have hnend : ∀ {p : MPc}, (rowKOf p).isSome = true → ¬ isEnding p ∧ p ≠ .ended := by
        intro p hp; cases p <;> simp [rowKOf, isEnding] at hp ⊢
      have hks : (rowKOf s.pc).isSome = true := by rw [hk]; rfl
      refine h.same (by rw [core.workers]; exact f.wlen) (fun j => by rw [eg]; exact f.wsame j)
        (fun x => absurd x (hnend hk1).1) (fun x => absurd x (hnend hks).1) (fun _ _ => trivial)
        (fun _ => (hnend hks).2) ?_ (core.thr.trans f.thr)
      intro hf
      unfold feeding at hf ⊢
      rw [core.seq, f.seq] at hf
      rcases hf with hf | ⟨hf1, hf2⟩
      · exact Or.inl hf
      · exfalso
        rcases hf2 with e | e <;> (rw [e] at hk1; simp [rowKOf] at hk1)
    simp only [step] at hs
    split at hs
    · rename_i k w hpc
      injection hs with hs
      exact key k w (by rw [hpc]; rfl) hs.symm
    · rename_i k w hpc
      split at hs
      · injection hs with hs
        exact key k w (by rw [hpc]; rfl) hs.symm
      · cases hs
    · rename_i k w hpc
      injection hs with hs
      exact key k w (by rw [hpc]; rfl) hs.symm
    · cases hs
  case enablePartial =>
    simp only [step] at hs
    split at hs
    case isFalse => cases hs
    rename_i hpc
    have hpc : s.pc = .init5 := by simpa using hpc
    cases hs
    obtain ⟨f, _⟩ := enablePartialHead_spec s
    refine h.same f.wlen f.wsame (fun x => by cases x) (fun x => by rw [hpc] at x; cases x) (fun _ _ => trivial)
      (fun _ => by rw [hpc]; simp) ?_ f.thr
    intro _
    exact Or.inr ⟨c9 (by simp [hpc]), Or.inr hpc⟩
  case stopOne =>
    simp only [step] at hs
    split at hs
    case h_2 => cases hs
    rename_i i r hpc
    split at hs
    · rename_i hi
      cases hs
      have h0 := h.setW (s' := MtDec.setW s i { getW s i with st := .idle }) i hi _ rfl rfl rfl rfl
        (fun hx => by rcases hx with hx | hx | hx
                      · cases hx
                      · exact Or.inr (Or.inl hx)
                      · exact Or.inr (Or.inr hx)) (fun _ ha => ha)
      refine h0.same (s' := { MtDec.setW s i { getW s i with st := .idle } with pc := .stopping (i + 1) r }) rfl
        (fun j => WSame.refl _) (fun x => by cases x) (fun x => by rw [setW_pc, hpc] at x; cases x) (fun _ _ => trivial)
        (fun _ => by rw [setW_pc, hpc]; simp) ?_ rfl
      intro hf
      unfold feeding at hf ⊢
      rcases hf with hf | ⟨_, hf | hf⟩
      · exact Or.inl hf
      · cases hf
      · cases hf
    · cases hs
      refine h.same (s' := { s with pc := .ret r }) rfl (fun j => WSame.refl _) (fun x => by cases x)
        (fun x => by rw [hpc] at x; cases x) (fun _ _ => trivial) (fun _ => by rw [hpc]; simp) ?_ rfl
      intro hf
      unfold feeding at hf ⊢
      rcases hf with hf | ⟨_, hf | hf⟩
      · exact Or.inl hf
      · cases hf
      · cases hf
  case endSet =>
    simp only [step] at hs
    split at hs
    case h_2 => cases hs
    rename_i i k hpc
    split at hs
    · cases hs
      exact ⟨fun _ => trivial, fun hne => absurd trivial hne⟩
    · cases hs
      exact ⟨fun _ => trivial, fun hne => absurd trivial hne⟩
  case endJoin =>
    simp only [step] at hs
    split at hs
    case h_2 => cases hs
    rename_i i k hpc
    split at hs
    · split at hs
      · cases hs; exact ⟨fun _ => trivial, fun hne => absurd trivial hne⟩
      · cases hs
    · have hthr : k = .direct → s.thr = none := by
        intro hk
        subst hk
        have hed := c6b ⟨i, Or.inr hpc⟩
        cases ht : s.thr with
        | none => rfl
        | some t => have := c6a t ht; rw [hed.1] at this; simp at this
      cases k
      · cases hs
        refine ⟨fun ⟨j, hj, _⟩ => by simp at hj, fun _ _ _ t ht => ?_⟩
        have := hthr rfl
        rw [this] at ht; cases ht
      · cases hs
        exact ⟨fun ⟨j, hj, _⟩ => by simp at hj, fun _ hned => absurd rfl hned⟩
  case getThread =>
    simp only [step] at hs
    split at hs
    case isFalse => cases hs
    rename_i hpc
    have hpc : s.pc = .init2 := by simpa using hpc
    have hseq : s.seq = .thrInit := c9 (by simp [hpc])
    have nofeed : ∀ s2 : State, s2.seq = s.seq → s2.pc = .init3 → ¬ feeding s2 := by
      intro s2 e1 e2 hf
      unfold feeding at hf
      rw [e1, e2, hseq] at hf
      rcases hf with hf | ⟨_, hf | hf⟩ <;> cases hf
    split at hs
    · cases hs
      refine ⟨fun hx => ?_, fun _ _ hf => absurd hf (nofeed _ rfl rfl)⟩
      have := h.noExit hx; rw [hpc] at this; cases this
    · split at hs
      case isFalse => cases hs
      cases hs
      refine ⟨?_, fun _ _ hf => absurd hf (nofeed _ rfl rfl)⟩
      rintro ⟨j, hj, hx⟩
      exfalso
      have hj' : j < s.workers.length + 1 := by simpa using hj
      by_cases e : j < s.workers.length
      · have hx' : Exiting (getW s j) := by
          have : getW { s with workers := s.workers ++ [{}], thr := some s.workers.length, pc := MPc.init3 } j = getW s j := by
            simp [getW, List.getD, List.getElem?_append_left e]
          rw [this] at hx; exact hx
        have := h.noExit ⟨j, e, hx'⟩; rw [hpc] at this; cases this
      · have : j = s.workers.length := by omega
        subst this
        have : getW { s with workers := s.workers ++ [{}], thr := some s.workers.length, pc := MPc.init3 } s.workers.length = {} := by
          simp [getW, List.getD]
        rw [this] at hx
        rcases hx with hx | hx | hx <;> cases hx


theorem exitCode_none_back {cfg : Cfg} {blocks : List Block} {s s' : State} {l : Label} (g : GInv cfg blocks s)
    (hs : step s l = some s') (hx' : exitCode s' = none) : exitCode s = none := by
  cases he : exitCode s with
  | none => rfl
  | some r =>
    exfalso
    cases hw : l.worker? with
    | some i => have := (worker_exit (workerShape hw hs)).1; rw [this, he] at hx'; cases hx'
    | none => have := (main_exit hw he g.retPc g.stopFatal hs).1; rw [this] at hx'; cases hx'

/-- AllocInv holds in every reachable state in which no fatal value is on its way out. -/
theorem AllocInv.reachable {cfg : Cfg} {blocks : List Block} (hwf : ∀ b ∈ blocks, b.WF) {s : State}
    (h : Reachable cfg blocks s) : exitCode s = none → AllocInv s := by
  induction h with
  | init => intro _; exact AllocInv.init cfg blocks
  | @step s s' l hr hs ih =>
    intro hx'
    have g := GInv.reachable hwf hr
    have hx := exitCode_none_back g hs hx'
    have hI := g.inv hx
    have hA := ih hx
    cases hw : l.worker? with
    | some i => exact hA.worker hI.1 (by simp [hw]) hs
    | none =>
      cases hsim : l.allocSimple with
      | true => exact hA.mainSimple hI.2 hw hsim hs
      | false => exact hA.mainOther hI hw hsim hs

/-- The CVE-2025-31115 shape: whenever the main thread copies at least one byte into coder->thr's input buffer, that buffer
    is allocated. -/
theorem in_allocated_when_written {cfg : Cfg} {blocks : List Block} (hwf : ∀ b ∈ blocks, b.WF) {s s' : State}
    (h : Reachable cfg blocks s) (k : Nat) (n : Bool) (hk : 0 < k) (hs : step s (.copyIn k n) = some s') :
    ∃ t, s.thr = some t ∧ (getW s t).inAlloc = true := by
  have g := GInv.reachable hwf h
  simp only [step] at hs
  split at hs
  case h_2 => cases hs
  rename_i t hpc hseq hthr
  split at hs
  case isFalse => cases hs
  rename_i hg
  simp only [Bool.and_eq_true, decide_eq_true_eq, Bool.or_eq_true] at hg
  have hret : s.returned = none := by
    cases hrr : s.returned with
    | none => rfl
    | some r => rcases g.retPc r hrr with e | e | ⟨i, e | e⟩ <;> (rw [e] at hpc; cases hpc)
  have hx : exitCode s = none := by simp [exitCode, hret, hpc]
  have hA := AllocInv.reachable hwf h hx
  have := hA.alloc (by rw [hpc]; intro x; cases x) (by rw [hpc]; simp) (Or.inl hseq) t hthr
  refine ⟨t, hthr, ?_⟩
  rcases this with e | e
  · exact e
  · omega

end XzVerif.MtDec
