/-
  Helper lemmas for C02: Index field round trip.
-/
import XzVerif.Lemmas.C02Filter

namespace XzVerif.Container
open XzVerif XzVerif.Vli

theorem indexAppend_ok (a a' : IndexAcc) (u c : Nat) (h : indexAppend a u c = .ok a') :
    UNPADDED_SIZE_MIN ≤ u ∧ u ≤ UNPADDED_SIZE_MAX ∧ c ≤ VLI_MAX ∧
    a'.count = a.count + 1 ∧ a'.listSize = a.listSize + (vliSize u + vliSize c) := by
  unfold indexAppend at h
  by_cases g1 : u < UNPADDED_SIZE_MIN ∨ u > UNPADDED_SIZE_MAX ∨ c > VLI_MAX
  · rw [if_pos g1] at h; simp at h
  · rw [if_neg g1] at h
    simp only at h
    by_cases g2 : a.uncompressedSum + c > VLI_MAX
    · rw [if_pos g2] at h; simp at h
    · rw [if_neg g2] at h
      by_cases g3 : ceil4 a.unpaddedSum + u > UNPADDED_SIZE_MAX
      · rw [if_pos g3] at h; simp at h
      · rw [if_neg g3] at h
        by_cases g4 : indexFileSize 0 (ceil4 a.unpaddedSum + u) (a.count + 1) (a.listSize + (vliSize u + vliSize c)) 0 = none
        · rw [if_pos g4] at h; simp at h
        · rw [if_neg g4] at h
          by_cases g5 : indexSize (a.count + 1) (a.listSize + (vliSize u + vliSize c)) > BACKWARD_SIZE_MAX
          · rw [if_pos g5] at h; simp at h
          · rw [if_neg g5] at h
            simp only [Except.ok.injEq] at h
            subst h
            simp only [not_or] at g1
            exact ⟨by omega, by omega, by omega, rfl, rfl⟩

theorem indexAppendAll_counts : ∀ (rs : List IndexRecord) (a a' : IndexAcc), indexAppendAll rs a = .ok a' →
    a'.count = a.count + rs.length ∧ a'.listSize = a.listSize + indexListSize rs := by
  intro rs
  induction rs with
  | nil =>
    intro a a' h
    simp only [indexAppendAll, Except.ok.injEq] at h
    subst h
    simp [indexListSize]
  | cons r rest ih =>
    intro a a' h
    simp only [indexAppendAll] at h
    cases h1 : indexAppend a r.unpadded r.uncompressed with
    | error e => simp [h1] at h
    | ok a1 =>
      simp only [h1] at h
      obtain ⟨-, -, -, hc, hl⟩ := indexAppend_ok _ _ _ _ h1
      obtain ⟨hc', hl'⟩ := ih a1 a' h
      simp only [indexListSize, List.map_cons, List.sum_cons, List.length_cons] at *
      omega

theorem vliEncode_ne_nil (v : Nat) : 1 ≤ (vliEncode v).length := by
  unfold vliEncode
  rw [vliEncodeAux_length]
  exact vliSizeAux_pos 8 v

/-- The Record loop of the decoder reads back the Records the encoder wrote, performing the same appends. -/
theorem indexDecodeRecords_enc : ∀ (rs : List IndexRecord) (fuel : Nat) (a a' : IndexAcc) (t : List UInt8),
    rs.length ≤ fuel → indexAppendAll rs a = .ok a' →
    indexDecodeRecords fuel rs.length a (indexRecordsBytes rs ++ t) = .ok (rs, a', t) := by
  intro rs
  induction rs with
  | nil =>
    intro fuel a a' t _ h
    simp only [indexAppendAll, Except.ok.injEq] at h
    subst h
    cases fuel <;> simp [indexDecodeRecords, indexRecordsBytes]
  | cons r rest ih =>
    intro fuel a a' t hf h
    simp only [indexAppendAll] at h
    cases h1 : indexAppend a r.unpadded r.uncompressed with
    | error e => simp [h1] at h
    | ok a1 =>
      simp only [h1] at h
      obtain ⟨hu1, hu2, hc, -, -⟩ := indexAppend_ok _ _ _ _ h1
      cases fuel with
      | zero => simp at hf
      | succ fuel =>
        have hrec := ih fuel a1 a' t (by simp only [List.length_cons] at hf; omega) h
        have hbytes : indexRecordsBytes (r :: rest) ++ t
            = vliEncode r.unpadded ++ (vliEncode r.uncompressed ++ (indexRecordsBytes rest ++ t)) := by
          simp [indexRecordsBytes]
        have hule : r.unpadded ≤ VLI_MAX := by simp only [UNPADDED_SIZE_MAX, VLI_MAX] at *; omega
        rw [hbytes]
        simp only [List.length_cons, indexDecodeRecords]
        rw [vliDecode_encode _ hule]
        simp only
        have g : ¬ (r.unpadded < UNPADDED_SIZE_MIN ∨ r.unpadded > UNPADDED_SIZE_MAX) := by omega
        rw [if_neg g, vliDecode_encode _ hc]
        simp only [h1, hrec]

theorem indexRecordsBytes_length_ge (rs : List IndexRecord) : rs.length ≤ (indexRecordsBytes rs).length := by
  induction rs with
  | nil => simp [indexRecordsBytes]
  | cons r rest ih =>
    have h1 := vliEncode_ne_nil r.unpadded
    have : indexRecordsBytes (r :: rest) = vliEncode r.unpadded ++ vliEncode r.uncompressed ++ indexRecordsBytes rest := by
      simp [indexRecordsBytes]
    rw [this]
    simp only [List.length_append, List.length_cons]
    omega

theorem indexRecordsBytes_length : ∀ (rs : List IndexRecord) (a a' : IndexAcc), indexAppendAll rs a = .ok a' →
    (indexRecordsBytes rs).length = indexListSize rs := by
  intro rs
  induction rs with
  | nil => intro a a' _; simp [indexRecordsBytes, indexListSize]
  | cons r rest ih =>
    intro a a' h
    simp only [indexAppendAll] at h
    cases h1 : indexAppend a r.unpadded r.uncompressed with
    | error e => simp [h1] at h
    | ok a1 =>
      simp only [h1] at h
      obtain ⟨-, hu2, hc, -, -⟩ := indexAppend_ok _ _ _ _ h1
      have hule : r.unpadded ≤ VLI_MAX := by simp only [UNPADDED_SIZE_MAX, VLI_MAX] at *; omega
      have := ih a1 a' h
      have e : indexRecordsBytes (r :: rest) = vliEncode r.unpadded ++ vliEncode r.uncompressed ++ indexRecordsBytes rest := by
        simp [indexRecordsBytes]
      rw [e]
      simp only [List.length_append, vliEncode_length _ hule, vliEncode_length _ hc, this, indexListSize, List.map_cons,
        List.sum_cons]

/-- `lzma_index_buffer_decode` reads back exactly the Records `lzma_index_buffer_encode` wrote and stops right
    after the CRC32, for every list of Records that `lzma_index_append` accepts. -/
theorem index_roundtrip (rs : List IndexRecord) (a : IndexAcc) (t : List UInt8)
    (hlen : rs.length ≤ VLI_MAX) (h : indexAppendAll rs {} = .ok a) :
    indexDecode (indexEncode rs ++ t) = .ok (rs, t) ∧
    (indexEncode rs).length = indexSize rs.length (indexListSize rs) := by
  obtain ⟨hcnt, hls⟩ := indexAppendAll_counts rs {} a h
  have hcnt' : a.count = rs.length := by simpa using hcnt
  have hls' : a.listSize = indexListSize rs := by simpa using hls
  generalize hpad : indexPaddingSize rs.length (indexListSize rs) = pad
  generalize hz : List.replicate pad (0 : UInt8) = zeros
  have hzlen : zeros.length = pad := by rw [← hz]; simp
  generalize hbody : (UInt8.ofNat INDEX_INDICATOR :: (vliEncode rs.length ++ indexRecordsBytes rs)) ++ zeros = body
  have henc : indexEncode rs = body ++ le32 (crc32 body) := by
    unfold indexEncode
    simp only [hpad, hz, hbody]
  constructor
  · rw [henc]
    have hb : body ++ le32 (crc32 body) ++ t
        = UInt8.ofNat INDEX_INDICATOR :: (vliEncode rs.length ++ (indexRecordsBytes rs ++ (zeros ++ (le32 (crc32 body) ++ t)))) := by
      rw [← hbody]; simp
    rw [hb]
    unfold indexDecode
    simp only
    have g0 : ¬ ((UInt8.ofNat INDEX_INDICATOR).toNat ≠ INDEX_INDICATOR) := by simp [INDEX_INDICATOR]
    rw [if_neg g0, vliDecode_encode _ hlen]
    simp only
    have hfuel : rs.length ≤ (indexRecordsBytes rs ++ (zeros ++ (le32 (crc32 body) ++ t))).length := by
      have := indexRecordsBytes_length_ge rs
      simp only [List.length_append]; omega
    rw [indexDecodeRecords_enc rs _ {} a _ hfuel h]
    simp only [hcnt', hls', hpad]
    have g1 : ¬ ((zeros ++ (le32 (crc32 body) ++ t)).length < pad + 4) := by
      simp only [List.length_append, le32_length, hzlen]; omega
    rw [if_neg g1]
    have htz : (zeros ++ (le32 (crc32 body) ++ t)).take pad = zeros := by
      rw [← hzlen]; exact List.take_left' rfl
    have hdz : (zeros ++ (le32 (crc32 body) ++ t)).drop pad = le32 (crc32 body) ++ t := by
      rw [← hzlen]; exact List.drop_left' rfl
    have hdz4 : (zeros ++ (le32 (crc32 body) ++ t)).drop (pad + 4) = t := by
      rw [← List.drop_drop, hdz]
      exact List.drop_left' (le32_length _)
    have hz0 : zeros.any (fun x => x ≠ 0) = false := by
      rw [← hz]; simp
    rw [htz]
    simp only [hz0, Bool.false_eq_true, if_false]
    -- the CRC is computed over everything before it
    have hcons : (UInt8.ofNat INDEX_INDICATOR :: (vliEncode rs.length ++ (indexRecordsBytes rs ++ (zeros ++ (le32 (crc32 body) ++ t))))).length
        - (zeros ++ (le32 (crc32 body) ++ t)).length + pad = body.length := by
      rw [← hbody]
      simp only [List.length_cons, List.length_append, hzlen, le32_length]
      omega
    rw [hcons, hdz, hdz4, rd32_le32_crc]
    have htake : (UInt8.ofNat INDEX_INDICATOR :: (vliEncode rs.length ++ (indexRecordsBytes rs ++ (zeros ++ (le32 (crc32 body) ++ t))))).take body.length
        = body := by
      rw [← hb, List.append_assoc]
      exact List.take_left' rfl
    rw [htake]
    simp
  · rw [henc, ← hbody]
    have hrb := indexRecordsBytes_length rs {} a h
    have hn := vliEncode_length rs.length hlen
    simp only [List.length_append, List.length_cons, le32_length, hzlen, hrb, hn]
    rw [← hpad]
    simp only [indexSize, indexPaddingSize, ceil4, indexSizeUnpadded]
    omega

end XzVerif.Container
