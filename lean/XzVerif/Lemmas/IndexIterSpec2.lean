/-
  C13 helper lemmas, specification level (continued): `lzma_index_iter_next` on the list of records returns the least
  listed position after the current one in every mode; iterating until failure gives the listing `Spec.iterAll`.
-/
import XzVerif.Lemmas.IndexIterSpec

namespace XzVerif.Index
namespace Spec

/-! ### NONEMPTY_BLOCK advances like BLOCK -/

theorem nextStreamFrom_mode3 (i : Index) : ∀ (fuel si : Nat), nextStreamFrom i 3 fuel si = nextStreamFrom i 2 fuel si
  | 0, _ => rfl
  | fuel + 1, si => by
    unfold nextStreamFrom
    cases i[si]? with
    | none => rfl
    | some s =>
      simp only [nextStreamFrom_mode3 i fuel (si + 1)]
      have h3 : (3 : Nat) ≥ 2 := by omega
      have h2 : (2 : Nat) ≥ 2 := by omega
      simp only [h3, h2, true_and]

theorem advance_mode3 (i : Index) (cur : Option Pos) : advance i 3 cur = advance i 2 cur := by
  unfold advance
  have e : nextStreamFrom i 3 = nextStreamFrom i 2 := by
    funext fuel si; exact nextStreamFrom_mode3 i fuel si
  have h3 : (3 : Nat) ≠ 1 := by omega
  have h2 : (2 : Nat) ≠ 1 := by omega
  simp only [e, h3, h2, ne_eq, not_false_eq_true, true_and]

/-! ### the listings of the four modes -/

/-- the non-empty Blocks -/
def listing3 (i : Index) : List Pos := (positions i false).filter fun p => !blockEmptyAt i p

/-- what a full iteration returns in `mode` -/
def listingM (i : Index) (mode : Nat) : List Pos :=
  if mode ≤ 2 then listing i mode else if mode = 3 then listing3 i else []

theorem listing_two (i : Index) : listing i 2 = positions i false := rfl

theorem listingM_sorted (i : Index) (mode : Nat) : (listingM i mode).Pairwise plt := by
  unfold listingM
  split
  · exact listing_sorted i mode
  · split
    · exact (positions_sorted i false).filter _
    · simp

theorem listed_lt {i : Index} {mode : Nat} {y : Pos} (h : Listed i mode y) : y.1 < i.length := by
  obtain ⟨s, hs, _⟩ := h
  exact (List.getElem?_eq_some_iff.mp hs).1

theorem listingM_curOk {i : Index} {mode : Nat} {y : Pos} (h : y ∈ listingM i mode) : CurOk i (some y) := by
  intro c hc
  cases hc
  unfold listingM at h
  split at h
  · next hm => exact listed_lt ((mem_listing hm y).mp h)
  · split at h
    · unfold listing3 at h
      have := (List.mem_filter.mp h).1
      rw [← listing_two] at this
      exact listed_lt ((mem_listing (Nat.le_refl 2) y).mp this)
    · simp at h

/-! ### one `next` -/

theorem leastAbove_of_advance {i : Index} {mode : Nat} (hm : mode ≤ 2) {cur : Option Pos} {q : Pos}
    (h : Listed i mode q ∧ above cur q ∧ ∀ y, Listed i mode y → above cur y → y = q ∨ plt q y) :
    LeastAbove plt (listing i mode) cur q :=
  ⟨(mem_listing hm q).mpr h.1, h.2.1, fun y hy => h.2.2 y ((mem_listing hm y).mp hy)⟩

theorem iterNextPos_low (i : Index) {mode : Nat} (hm : mode ≤ 2) (fuel : Nat) (cur : Option Pos) :
    iterNextPos i mode (fuel + 1) cur = advance i mode cur := by
  unfold iterNextPos
  have h1 : ¬ mode > 3 := by omega
  have h2 : ¬ mode = 3 := by omega
  rw [if_neg h1]
  cases advance i mode cur with
  | none => rfl
  | some p => simp [h2]

/-- NONEMPTY_BLOCK: the loop over `advance` returns the least non-empty Block after the current position -/
theorem iterNextPos3_spec (i : Index) : ∀ (fuel : Nat) (cur : Option Pos), CurOk i cur →
    ((positions i false).filter fun y => decide (above cur y)).length < fuel →
    match iterNextPos i 3 fuel cur with
    | some q => LeastAbove plt (listing3 i) cur q
    | none => ∀ y ∈ listing3 i, ¬ above cur y
  | 0, _, _, h => by omega
  | fuel + 1, cur, hc, hlen => by
    have hadv := advance_spec i (Nat.le_refl 2) cur hc
    unfold iterNextPos
    have h1 : ¬ (3 : Nat) > 3 := by omega
    rw [if_neg h1, advance_mode3]
    cases hb : advance i 2 cur with
    | none =>
      rw [hb] at hadv
      simp only
      intro y hy
      have hy2 : y ∈ listing i 2 := (List.mem_filter.mp hy).1
      exact hadv y ((mem_listing (Nat.le_refl 2) y).mp hy2)
    | some b =>
      rw [hb] at hadv
      simp only at hadv ⊢
      have hleast := leastAbove_of_advance (Nat.le_refl 2) hadv
      have hcons := filter_above_cons plt plt_irr plt_trans (listing_sorted i 2) hleast
      rw [listing_two] at hcons
      rw [hcons] at hlen
      have hbok : CurOk i (some b) := by intro c hc'; cases hc'; exact listed_lt hadv.1
      by_cases he : blockEmptyAt i b = true
      · simp only [he, and_self, if_true]
        have ih := iterNextPos3_spec i fuel (some b) hbok (by simpa using hlen)
        have hbnot : b ∉ listing3 i := by
          intro h; have := (List.mem_filter.mp h).2; simp [he] at this
        cases hq : iterNextPos i 3 fuel (some b) with
        | none =>
          rw [hq] at ih
          simp only at ih ⊢
          intro y hy hab
          have hy2 : y ∈ listing i 2 := (List.mem_filter.mp hy).1
          rcases hleast.2.2 y hy2 hab with h | h
          · rw [h] at hy; exact hbnot hy
          · exact ih y hy h
        | some q =>
          rw [hq] at ih
          simp only at ih ⊢
          obtain ⟨q1, q2, q3⟩ := ih
          refine ⟨q1, ?_, ?_⟩
          · have hbq : plt b q := q2
            cases cur with
            | none => trivial
            | some c => exact plt_trans c b q hadv.2.1 hbq
          · intro y hy hab
            have hy2 : y ∈ listing i 2 := (List.mem_filter.mp hy).1
            rcases hleast.2.2 y hy2 hab with h | h
            · rw [h] at hy; exact absurd hy hbnot
            · exact q3 y hy h
      · simp only [he, and_false, if_false]
        refine ⟨?_, hadv.2.1, ?_⟩
        · unfold listing3
          rw [List.mem_filter]
          refine ⟨by rw [← listing_two]; exact hleast.1, by simpa using he⟩
        · intro y hy hab
          have hy2 : y ∈ listing i 2 := (List.mem_filter.mp hy).1
          exact hleast.2.2 y hy2 hab

/-! ### lengths -/

theorem map_range_getElem? {α β : Type} (l : List α) (h : Option α → β) :
    (List.range l.length).map (fun k => h l[k]?) = l.map (fun x => h (some x)) := by
  apply List.ext_getElem?
  intro j
  simp only [List.getElem?_map, List.getElem?_range]
  by_cases hj : j < l.length
  · simp [hj, List.getElem?_eq_getElem hj]
  · have : l[j]? = none := List.getElem?_eq_none_iff.mpr (by omega)
    simp [hj, this]

theorem sum_map_le {α : Type} (f g : α → Nat) : ∀ (l : List α), (∀ x ∈ l, f x ≤ g x) → (l.map f).sum ≤ (l.map g).sum
  | [], _ => by simp
  | x :: r, h => by
    have := sum_map_le f g r (fun y hy => h y (List.mem_cons_of_mem _ hy))
    have := h x (by simp)
    simp only [List.map_cons, List.sum_cons]; omega

theorem blockCount_add_length (i : Index) : blockCount i + i.length = (i.map fun s => s.blocks.length + 1).sum := by
  unfold blockCount
  induction i with
  | nil => rfl
  | cons s r ih => simp only [List.map_cons, List.sum_cons, List.length_cons] at ih ⊢; omega

theorem positions_length_le (i : Index) (w : Bool) : (positions i w).length ≤ blockCount i + i.length := by
  unfold positions
  rw [List.length_flatMap, blockCount_add_length]
  have := map_range_getElem? i (fun o : Option StreamRec =>
    match o with
    | none => 0
    | some s => if s.blocks.isEmpty then (if w then 1 else 0) else s.blocks.length)
  have e : (List.range i.length).map (fun si => (match i[si]? with
      | none => ([] : List Pos)
      | some s =>
        if s.blocks.isEmpty then (if w then [(si, none)] else [])
        else (List.range s.blocks.length).map fun bi => (si, some bi)).length)
      = (List.range i.length).map (fun k => (fun o : Option StreamRec =>
          match o with
          | none => 0
          | some s => if s.blocks.isEmpty then (if w then 1 else 0) else s.blocks.length) i[k]?) := by
    apply List.map_congr_left
    intro si _
    cases i[si]? with
    | none => rfl
    | some s =>
      simp only
      split
      · split <;> rfl
      · simp
  refine Nat.le_trans (Nat.le_of_eq (congrArg List.sum e)) ?_
  rw [this]
  apply sum_map_le
  intro s _
  simp only
  split
  · split <;> omega
  · omega

theorem listingM_length_le (i : Index) (mode : Nat) : (listingM i mode).length ≤ blockCount i + i.length := by
  unfold listingM listing
  split
  · split
    · exact positions_length_le i true
    · split
      · simp
      · exact positions_length_le i false
  · split
    · exact Nat.le_trans (List.length_filter_le _ _) (positions_length_le i false)
    · simp

/-! ### `next` until it fails -/

theorem iterSeq_eq_seqG (i : Index) (mode : Nat) : ∀ (n : Nat) (cur : Option Pos),
    iterSeq i mode n cur = seqG (iterNextPos i mode (iterFuel i)) n cur
  | 0, _ => rfl
  | n + 1, cur => by
    unfold iterSeq seqG
    cases iterNextPos i mode (iterFuel i) cur with
    | none => rfl
    | some q => simp only; rw [iterSeq_eq_seqG i mode n (some q)]

/-- `lzma_index_iter_next` on the list of records, any mode: the least position of the mode's listing after the
    current one, or failure when there is none -/
theorem iterNextPos_spec (i : Index) (mode : Nat) (cur : Option Pos) (hc : CurOk i cur) :
    match iterNextPos i mode (iterFuel i) cur with
    | some q => LeastAbove plt (listingM i mode) cur q
    | none => ∀ y ∈ listingM i mode, ¬ aboveG plt cur y := by
  have hf : iterFuel i = (blockCount i + i.length + 1) + 1 := rfl
  by_cases hm : mode ≤ 2
  · have hL : listingM i mode = listing i mode := by unfold listingM; rw [if_pos hm]
    rw [hL, hf, iterNextPos_low i hm]
    have := advance_spec i hm cur hc
    cases hq : advance i mode cur with
    | none => rw [hq] at this; intro y hy; exact this y ((mem_listing hm y).mp hy)
    | some q => rw [hq] at this; exact leastAbove_of_advance hm this
  · by_cases h3 : mode = 3
    · subst h3
      have hL : listingM i 3 = listing3 i := rfl
      rw [hL]
      apply iterNextPos3_spec i _ cur hc
      have h1 := List.length_filter_le (fun y => decide (above cur y)) (positions i false)
      have h2 := positions_length_le i false
      rw [hf]; omega
    · have hL : listingM i mode = [] := by unfold listingM; rw [if_neg hm, if_neg h3]
      have hnone : iterNextPos i mode (iterFuel i) cur = none := by
        rw [hf]; unfold iterNextPos; rw [if_pos (by omega)]
      rw [hnone, hL]; simp

/-- iterating from any position returns exactly the listed positions after it, in order -/
theorem iterSeq_from (i : Index) (mode : Nat) (cur : Option Pos) (hc : CurOk i cur) :
    iterSeq i mode (iterFuel i) cur = (listingM i mode).filter fun y => decide (above cur y) := by
  rw [iterSeq_eq_seqG]
  apply seqG_eq_filter plt plt_irr plt_trans (listingM_sorted i mode) _ (CurOk i)
    (fun y hy => listingM_curOk hy) (fun cur hc => by
      have h := iterNextPos_spec i mode cur hc
      constructor
      · intro q hq; rw [hq] at h; exact h
      · intro hq; rw [hq] at h; exact h) _ cur hc
  have h1 := List.length_filter_le (fun y => decide (aboveG plt cur y)) (listingM i mode)
  have h2 := listingM_length_le i mode
  unfold iterFuel; omega

/-- a fresh iterator returns the whole listing -/
theorem iterSeq_fresh (i : Index) (mode : Nat) : iterSeq i mode (iterFuel i) none = listingM i mode := by
  rw [iterSeq_from i mode none (by intro c hc; cases hc)]
  rw [List.filter_eq_self]
  intro y _
  simp [aboveG]

/-! ### the listing is what `Spec.iterAll` shows -/

theorem infoAt_firstPosOf (i : Index) (si : Nat) :
    infoAt i (firstPosOf i si).1 (firstPosOf i si).2 = infoAt i si none := by
  unfold firstPosOf
  cases hs : i[si]? with
  | none => rfl
  | some s =>
    simp only
    unfold infoAt
    rw [hs]
    by_cases he : s.blocks.isEmpty = true <;> simp [he]

theorem iterAll_eq_listing (i : Index) (mode : Nat) :
    iterAll i mode = (listingM i mode).filterMap fun p => infoAt i p.1 p.2 := by
  unfold iterAll listingM listing
  by_cases h0 : mode = 0
  · subst h0; simp
  · by_cases h1 : mode = 1
    · subst h1
      have h12 : (1 : Nat) ≤ 2 := by omega
      simp only [if_neg h0, if_true, h12]
      rw [List.filterMap_map, List.filterMap_map]
      have : ((fun p : Pos => infoAt i p.1 p.2) ∘ fun si => ((si, none) : Pos))
          = ((fun p : Pos => infoAt i p.1 p.2) ∘ firstPosOf i) := by
        funext si
        simp only [Function.comp]
        exact (infoAt_firstPosOf i si).symm
      rw [this]
    · by_cases h2 : mode = 2
      · subst h2; simp
      · by_cases h3 : mode = 3
        · subst h3
          simp only [if_neg h0, if_neg h1, if_neg h2, if_true]
          have : ¬ (3 : Nat) ≤ 2 := by omega
          simp only [this, if_false]
          congr 1
          unfold listing3
          apply List.filter_congr
          intro p hp
          obtain ⟨s, hs, h⟩ := (mem_positions i false p).mp hp
          rcases h with ⟨_, hw, _⟩ | ⟨b, hb, hlt⟩
          · simp at hw
          · unfold blockEmptyAt
            rw [hs, hb]
            simp only [Option.getD_some]
            rw [List.getElem?_eq_getElem hlt]
            simp
        · simp only [if_neg h0, if_neg h1, if_neg h2, if_neg h3]
          have : ¬ mode ≤ 2 := by omega
          simp [this]

/-- **Specification level `iter_visits_once`.** In every mode, calling `next` on a fresh persistent iterator until it
    fails shows exactly the listing `Spec.iterAll` (every Stream / Block / non-empty Block once, in file order). -/
theorem iterSeq_infos (i : Index) (mode : Nat) :
    ((iterSeq i mode (iterFuel i) none).filterMap fun p => infoAt i p.1 p.2) = iterAll i mode := by
  rw [iterSeq_fresh, iterAll_eq_listing]

end Spec
end XzVerif.Index
