/- C17 invariant Q9: assembled step theorem (no foreign rename: `c.moveAt = none`). -/
import XzVerif.Lemmas.XzIoQ9b

namespace XzVerif.XzIo
variable {α : Type}

theorem q9_exec {c : Cfg α} {s : St α} (q : Q9 s) : Q9 (exec c s) := by
  cases hpc : s.pc with
  | openSrc => exact q9_exec_openSrc q hpc
  | fstatSrc => exact q9_exec_fstatSrc q hpc
  | closeSrcErr => exact q9_exec_closeSrcErr q hpc
  | openDir => exact q9_exec_openDir q hpc
  | unlinkForce => exact q9_exec_unlinkForce q hpc
  | openDest => exact q9_exec_openDest q hpc
  | closeDirErr => exact q9_exec_closeDirErr q hpc
  | fstatDest => exact q9_exec_fstatDest q hpc
  | lseekOut => exact q9_exec_simple q (Or.inl hpc)
  | read => exact q9_exec_simple q (Or.inr (Or.inl hpc))
  | readPoll => exact q9_exec_simple q (Or.inr (Or.inr (Or.inl hpc)))
  | write => exact q9_exec_write q hpc
  | writePoll => exact q9_exec_simple q (Or.inr (Or.inr (Or.inr (Or.inl hpc))))
  | seekHole => exact q9_exec_simple q (Or.inr (Or.inr (Or.inr (Or.inr (Or.inl hpc)))))
  | fixPos => exact q9_exec_simple q (Or.inr (Or.inr (Or.inr (Or.inr (Or.inr (Or.inl hpc))))))
  | tailSeek => exact q9_exec_simple q (Or.inr (Or.inr (Or.inr (Or.inr (Or.inr (Or.inr (Or.inl hpc)))))))
  | fchownUid => exact q9_exec_simple q (Or.inr (Or.inr (Or.inr (Or.inr (Or.inr (Or.inr (Or.inr (Or.inl hpc))))))))
  | fchownGid => exact q9_exec_simple q (Or.inr (Or.inr (Or.inr (Or.inr (Or.inr (Or.inr (Or.inr (Or.inr (Or.inl hpc)))))))))
  | fchmod => exact q9_exec_simple q (Or.inr (Or.inr (Or.inr (Or.inr (Or.inr (Or.inr (Or.inr (Or.inr (Or.inr (Or.inl hpc))))))))))
  | futimens => exact q9_exec_futimens q hpc
  | fsyncFile => exact q9_exec_fsync q (Or.inl hpc)
  | fsyncDir => exact q9_exec_fsync q (Or.inr hpc)
  | closeDir => exact q9_exec_simple q (Or.inr (Or.inr (Or.inr (Or.inr (Or.inr (Or.inr (Or.inr (Or.inr (Or.inr (Or.inr (hpc)))))))))))
  | closeDest => exact q9_exec_closeDest q hpc
  | statDest => exact q9_exec_statDest q hpc
  | unlinkDest => exact q9_exec_unlinkDest q hpc
  | closeSrc => exact q9_exec_srcClose q (Or.inl hpc)
  | statSrc => exact q9_exec_srcClose q (Or.inr hpc)
  | unlinkSrc => exact q9_exec_unlinkSrc q hpc
  | done => unfold exec; simp only [hpc]; exact q

theorem q9_preActions {c : Cfg α} {s : St α} (hm : c.moveAt = none) (q : Q9 s) : Q9 (preActions c s) := by
  unfold preActions
  simp only [hm]
  split <;> exact ⟨q.n1, q.n2, q.n3, q.n7, q.n8, q.n9⟩

theorem q9_step {c : Cfg α} {s : St α} (hm : c.moveAt = none) (q : Q9 s) : Q9 (step c s) := by
  unfold step
  split
  · exact q
  · exact q9_exec (q9_preActions hm q)

theorem q9_runN {c : Cfg α} (hm : c.moveAt = none) (n : Nat) (s : St α) (q : Q9 s) : Q9 (runN c n s) := by
  induction n generalizing s with
  | zero => exact q
  | succ n ih => exact ih _ (q9_step hm q)

theorem q9_start {c : Cfg α} (de : Bool) (k0 e0 : Nat) : Q9 (start c de k0 e0) := by
  unfold start
  simp only
  split
  · exact q9_noOwn (by rw [continueLoop_fs]) (by rw [continueLoop_fs]; simp [inoSrc, inoOwn])
  · exact q9_noOwn rfl (by simp [inoSrc, inoOwn])

end XzVerif.XzIo
