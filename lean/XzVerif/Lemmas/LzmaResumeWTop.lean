/-
  Slicing independence of the resumable LZMA decoder model ACROSS dictionary wraps, top level.
  * `chain_w`, `sliced_end_eq_whole_w'`, `sliced_settled_eq_whole_w'`, `two_slicings_agree_settled_obs_w'`: ANY two sliced runs
    (no condition on the slicing: zero-room and zero-input calls included; dictionary wraps included) that are settled — ended, or
    LZMA_OK after all the input was offered with output room to spare — agree on return code, output and consumed input. Proved by
    chaining absorption along the run against the call with the whole input (`absorb_w` only asks for free room in the LARGER call).
  * `sliced_eq_single_w`: under `FreeRoom` a sliced run equals one call with the cumulative resources.
  ASSUMES `CodeAbsorb P (codeOf kind)`, `CodeWrap P (codeOf kind)` and (for the "spare room" disjunct) `CodeIdle P (codeOf kind)`.
  Results are up to a pending wrap (`EqvW`). Core Lean only.
-/
import XzVerif.Lemmas.LzmaResumeWLz

namespace XzVerif.LzmaR
open XzVerif.RangeDec XzVerif.LzDict XzVerif.Lzma XzVerif.Lzma2

/-! ### starved calls are idle (port of `idle_aux` to `InvW`) -/

theorem idle_aux_w {P : RSt → Prop} {code : RSt → Ret × RSt} (hc : CodeAbsorb P code) (hw : CodeWrap P code)
    (hid : CodeIdle P code) {N N' : Nat} {b : ByteArray} (hNN : N ≤ N') :
    ∀ (fX fZ : Nat) (r : RSt), InvW P r b N →
      (decodeBufferR code fX N (r.withInp b)).1 = .ok → (decodeBufferR code fX N (r.withInp b)).2.s.produced < N →
      (decodeBufferR code fZ N' ((decodeBufferR code fX N (r.withInp b)).2.withInp b)).1 ≠ .progError →
      Same (decodeBufferR code fZ N' ((decodeBufferR code fX N (r.withInp b)).2.withInp b)) (decodeBufferR code fX N (r.withInp b))
  | 0, _, r, _, hok, _, _ => by cases hok
  | fX + 1, fZ, r, hi, hok, hsp, hZ => by
    have st := iter_w hc hw hi
    have hidle := fun L' => hid r.wrap b (lim0 N r.wrap) L' st.cq.p st.cq.agree st.cq.inPos st.lim_ge
    rw [dB_succ code fX N (r.withInp b), prep_w] at hok hsp hZ ⊢
    generalize code (r.wrap.view b (lim0 N r.wrap)) = c at *
    cases hb : (post N c).2
    · simp only [hb, Bool.false_eq_true, if_false] at hok hsp hZ ⊢
      have hcok : c.1 = .ok := st.pret.symm.trans hok
      have hr' : c.2.s.dp.needReset = false := by
        cases h : c.2.s.dp.needReset
        · rfl
        · have hf : ¬ (c.1 = .ok ∧ c.2.s.produced ≠ N) := fun hh => by
            have := (post_flag_reset (N := N) h).mpr hh
            rw [hb] at this; cases this
          rw [post_fst_reset h] at hsp
          have hsp' : c.2.s.produced < N := hsp
          have : c.2.s.produced = N := by
            apply Classical.byContradiction
            intro hne
            exact hf ⟨hcok, hne⟩
          omega
      have hp1 : (post N c).1 = c := post_fst_noreset hr'
      rw [hp1] at hok hsp hZ ⊢
      have cx : CInv P c.2 b := st.cf.cinv hr'
      have hlt : c.2.s.dp.pos < c.2.s.dp.size := by
        apply Classical.byContradiction
        intro hnl
        have : (post N c).2 = true := (post_flag_noreset hr').mpr ⟨hcok, by omega, hnl⟩
        rw [hb] at this; cases this
      have g1 := st.cf.pos_mono; have g2 := st.cf.pos_le; have g3 := st.cf.size; have g4 := st.cf.hist
      have g5 := st.cf.outBase; have g6 := st.cq.base; have g7 := st.lim_le; have g8 := st.lim_ge
      have e1 : r.wrap.s.produced = r.wrap.s.hist.size - r.wrap.s.outBase := rfl
      have e2 : c.2.s.produced = c.2.s.hist.size - c.2.s.outBase := rfl
      have hposL : c.2.s.dp.pos < lim0 N r.wrap := by unfold lim0 at g2 g7 g8 ⊢; omega
      have hLL : lim0 N r.wrap ≤ lim0 N' c.2 := by unfold lim0 at g2 g7 g8 ⊢; omega
      have hS := hidle (lim0 N' c.2) hLL st.cq.noReset st.cq.full hcok hr' hposL
      cases fZ with
      | zero => exact absurd rfl hZ
      | succ fZ =>
      rw [dB_succ code fZ N' (c.2.withInp b), prep_w, wrap_of_ne (Nat.ne_of_lt hlt)]
      generalize code (c.2.view b (lim0 N' c.2)) = cZ at hS ⊢
      have hrZ : cZ.2.s.dp.needReset = false := (norm_needReset hS.2).trans hr'
      have hltZ : cZ.2.s.dp.pos < cZ.2.s.dp.size := by
        rw [norm_pos hS.2, norm_size hS.2]; exact hlt
      rw [post_noreset hrZ]
      simp only [hltZ, decide_true, Bool.or_true, Bool.not_true, Bool.false_eq_true, if_false]
      exact hS
    · simp only [hb, if_true] at hok hsp hZ ⊢
      rw [← withInp_self st.pinp] at hok hsp hZ ⊢
      exact idle_aux_w hc hw hid hNN fX fZ (post N c).1.2 st.inv hok hsp hZ

/-! ### `callR` -/

theorem fuel_ok (r : RSt) (b : ByteArray) (N : Nat) : nuW r b N < decodeBufferFuel (r.withInp b).s N := by
  show nuW r b N < nuW r b N + 4; omega

theorem callR_absorb_w {P : RSt → Prop} {kind : Kind} (hc : CodeAbsorb P (codeOf kind)) (hw : CodeWrap P (codeOf kind))
    {N N' : Nat} {b b' : ByteArray} (hNN : N ≤ N') (hag : Agree b.size b b') (r : RSt) (hi : InvW P r b N)
    (hfree : (callR kind b N r).1 = .ok → (callR kind b N r).2.s.produced < N') :
    EqvW (callR kind b' N' r) (if (callR kind b N r).1 = .ok then callR kind b' N' (callR kind b N r).2 else callR kind b N r)
    ∧ InvW P (callR kind b N r).2 b N ∧ (callR kind b N r).2.s.inp = b := by
  have h := absorb_w hc hw hNN hag r hi (decodeBufferFuel (r.withInp b).s N) (decodeBufferFuel (r.withInp b').s N')
    (decodeBufferFuel ((callR kind b N r).2.withInp b').s N')
    (by show nuW r b N < nuW r b N + 4; omega)
    (by show nuW r b' N' < nuW r b' N' + 4; omega)
    (by show nuW (callR kind b N r).2 b' N' < nuW (callR kind b N r).2 b' N' + 4; omega)
    hfree
  exact ⟨h.1, h.2.2.2.1, h.2.2.2.2⟩

theorem callR_idle_w {P : RSt → Prop} {kind : Kind} (hc : CodeAbsorb P (codeOf kind)) (hw : CodeWrap P (codeOf kind))
    (hid : CodeIdle P (codeOf kind)) {N N' : Nat} {b : ByteArray} (hNN : N ≤ N') (r : RSt) (hi : InvW P r b N)
    (hok : (callR kind b N r).1 = .ok) (hsp : (callR kind b N r).2.s.produced < N) :
    Same (callR kind b N' (callR kind b N r).2) (callR kind b N r) := by
  have bX := dB_noProg_w hc hw (decodeBufferFuel (r.withInp b).s N) r hi (by show nuW r b N < nuW r b N + 4; omega)
  have bZ := dB_noProg_w hc hw (decodeBufferFuel ((callR kind b N r).2.withInp b).s N') _
    (bX.2.1.mono (agree_self (Nat.le_refl _)) hNN)
    (by show nuW (callR kind b N r).2 b N' < nuW (callR kind b N r).2 b N' + 4; omega)
  exact idle_aux_w hc hw hid hNN _ _ r hi hok hsp bZ.1

/-! ### sliced runs, without `FreeRoom` -/

theorem run_stop (kind : Kind) (input : List UInt8) (sl : List (Nat × Nat)) {x : SRun} (h : x.ret ≠ .ok) :
    runSlicedR kind input sl x = x := by
  cases sl with
  | nil => rfl
  | cons p sl => obtain ⟨k, cap⟩ := p; unfold runSlicedR; rw [if_pos h]

theorem run_cons (kind : Kind) (input : List UInt8) (k cap : Nat) (sl : List (Nat × Nat)) {x : SRun} (h : x.ret = .ok) :
    runSlicedR kind input ((k, cap) :: sl) x = runSlicedR kind input sl (runPieceR kind input x k cap) := by
  conv => lhs; unfold runSlicedR
  rw [if_neg (fun hn => hn h)]

section
variable {P : RSt → Prop} {kind : Kind} (hc : CodeAbsorb P (codeOf kind)) (hw : CodeWrap P (codeOf kind)) {r0 : RSt}
  (input : List UInt8)

/-- the comparison call: whole input, allowance `Nstar` -/
abbrev whole (kind : Kind) (input : List UInt8) (Nstar : Nat) (r : RSt) : Ret × RSt := callR kind (toBuf input) Nstar r

include hc hw

/-- chaining absorption along a sliced run: the whole-input call from the start state equals the whole-input call from the
    final state (if every call returned LZMA_OK) or the final result (if the last call ended the run) -/
theorem chain_w (Nstar : Nat) : ∀ (sl : List (Nat × Nat)) (x : SRun), x.ret = .ok → x.avail ≤ input.length →
    InvW P x.r (toBuf (input.take x.avail)) x.room → (runSlicedR kind input sl x).room < Nstar →
    EqvW (whole kind input Nstar x.r)
      (if (runSlicedR kind input sl x).ret = .ok then whole kind input Nstar (runSlicedR kind input sl x).r
       else ((runSlicedR kind input sl x).ret, (runSlicedR kind input sl x).r))
  | [], x, hret, _, _, _ => by
    show EqvW _ (if x.ret = .ok then _ else _)
    rw [if_pos hret]; exact EqvW.refl _
  | (k, cap) :: sl, x, hret, hav, hi, hN => by
    rw [run_cons kind input k cap sl hret] at hN ⊢
    have hle : x.avail ≤ min (x.avail + k) input.length := Nat.le_min.mpr ⟨Nat.le_add_right _ _, hav⟩
    have hi1 : InvW P x.r (toBuf (input.take (min (x.avail + k) input.length))) (x.room + cap) :=
      hi.mono (toBuf_agree input hle) (Nat.le_add_right _ _)
    have hroom : x.room + cap ≤ (runSlicedR kind input sl (runPieceR kind input x k cap)).room :=
      room_mono kind input sl (runPieceR kind input x k cap)
    have hpre := dB_noProg_w hc hw (decodeBufferFuel (x.r.withInp (toBuf (input.take (min (x.avail + k) input.length)))).s (x.room + cap))
      x.r hi1 (fuel_ok _ _ _)
    have hprod : (runPieceR kind input x k cap).r.s.produced ≤ x.room + cap := hpre.2.1.prod
    have ha := callR_absorb_w hc hw (N' := Nstar) (by omega) (toBuf_agree_take input (min (x.avail + k) input.length)) x.r hi1
      (fun _ => by
        have : (callR kind (toBuf (input.take (min (x.avail + k) input.length))) (x.room + cap) x.r).2.s.produced ≤ x.room + cap := hprod
        omega)
    have h1 : EqvW (whole kind input Nstar x.r)
        (if (runPieceR kind input x k cap).ret = .ok then whole kind input Nstar (runPieceR kind input x k cap).r
         else ((runPieceR kind input x k cap).ret, (runPieceR kind input x k cap).r)) := ha.1
    by_cases hr1 : (runPieceR kind input x k cap).ret = .ok
    · rw [if_pos hr1] at h1
      exact h1.trans (chain_w Nstar sl _ hr1 (Nat.min_le_right _ _) ha.2.1 hN)
    · rw [if_neg hr1] at h1
      rw [run_stop kind input sl hr1, if_neg hr1]
      exact h1

/-- **A sliced run that ended** (LZMA_STREAM_END or an error) equals the call with the whole input and any output allowance larger
    than the room the run was given. No condition on the slicing (zero-room and zero-input calls included), dictionary wraps
    included. -/
theorem sliced_end_eq_whole_w' (hi0 : InvW P r0 ByteArray.empty 0) (sl : List (Nat × Nat))
    (hend : (runSlicedR kind input sl { r := r0 }).ret ≠ .ok)
    (Nstar : Nat) (hN : (runSlicedR kind input sl { r := r0 }).room < Nstar) :
    EqvW ((runSlicedR kind input sl { r := r0 }).ret, (runSlicedR kind input sl { r := r0 }).r)
      (callR kind (toBuf input) Nstar r0) := by
  have h := chain_w hc hw input Nstar sl { r := r0 } rfl (Nat.zero_le _) (hi0.mono (agree_empty _) (Nat.le_refl _)) hN
  rw [if_neg hend] at h
  exact h.symm

end

section
variable {P : RSt → Prop} {kind : Kind} (hc : CodeAbsorb P (codeOf kind)) (hw : CodeWrap P (codeOf kind))
  (hid : CodeIdle P (codeOf kind)) {r0 : RSt} (input : List UInt8)

/-- re-calling a run that is ok with all the input and spare room changes nothing -/
def IdleOk (kind : Kind) (input : List UInt8) (Nstar : Nat) (x : SRun) : Prop :=
  x.ret = .ok → x.spare = true → Same (whole kind input Nstar x.r) (x.ret, x.r)

include hc hw hid

theorem idle_run_w (Nstar : Nat) : ∀ (sl : List (Nat × Nat)) (x : SRun), x.avail ≤ input.length →
    InvW P x.r (toBuf (input.take x.avail)) x.room → IdleOk kind input Nstar x →
    (runSlicedR kind input sl x).room < Nstar → IdleOk kind input Nstar (runSlicedR kind input sl x)
  | [], x, _, _, hI, _ => hI
  | (k, cap) :: sl, x, hav, hi, hI, hN => by
    by_cases hret : x.ret = .ok
    · rw [run_cons kind input k cap sl hret] at hN ⊢
      have hle : x.avail ≤ min (x.avail + k) input.length := Nat.le_min.mpr ⟨Nat.le_add_right _ _, hav⟩
      have hi1 : InvW P x.r (toBuf (input.take (min (x.avail + k) input.length))) (x.room + cap) :=
        hi.mono (toBuf_agree input hle) (Nat.le_add_right _ _)
      have hroom : x.room + cap ≤ (runSlicedR kind input sl (runPieceR kind input x k cap)).room :=
        room_mono kind input sl (runPieceR kind input x k cap)
      have hpre := dB_noProg_w hc hw (decodeBufferFuel (x.r.withInp (toBuf (input.take (min (x.avail + k) input.length)))).s (x.room + cap))
        x.r hi1 (fuel_ok _ _ _)
      have hi2 : InvW P (runPieceR kind input x k cap).r (toBuf (input.take (runPieceR kind input x k cap).avail))
          (runPieceR kind input x k cap).room := hpre.2.1
      refine idle_run_w Nstar sl _ (Nat.min_le_right _ _) hi2 ?_ hN
      intro hok hsp
      obtain ⟨h1, h2⟩ := spareOk_piece kind input x k cap hsp
      have h1' : input.length ≤ min (x.avail + k) input.length := h1
      have hb : toBuf (input.take (min (x.avail + k) input.length)) = toBuf input := by
        rw [List.take_of_length_le h1']
      rw [hb] at hi1
      show Same (callR kind (toBuf input) Nstar (callR kind (toBuf (input.take (min (x.avail + k) input.length))) (x.room + cap) x.r).2)
        (callR kind (toBuf (input.take (min (x.avail + k) input.length))) (x.room + cap) x.r)
      rw [hb]
      have hok' : (callR kind (toBuf (input.take (min (x.avail + k) input.length))) (x.room + cap) x.r).1 = .ok := hok
      have h2' : (callR kind (toBuf (input.take (min (x.avail + k) input.length))) (x.room + cap) x.r).2.s.produced < x.room + cap := h2
      rw [hb] at hok' h2'
      exact callR_idle_w hc hw hid (by omega) x.r hi1 hok' h2'
    · rw [run_stop kind input _ hret]
      exact hI

/-- **A settled sliced run** (ended; or LZMA_OK after it was offered all the input, with output room to spare) equals the call with
    the whole input and any output allowance larger than the room the run was given. No condition on the slicing. -/
theorem sliced_settled_eq_whole_w' (hi0 : InvW P r0 ByteArray.empty 0) (sl : List (Nat × Nat))
    (hset : Settled (runSlicedR kind input sl { r := r0 }))
    (Nstar : Nat) (hN : (runSlicedR kind input sl { r := r0 }).room < Nstar) :
    EqvW ((runSlicedR kind input sl { r := r0 }).ret, (runSlicedR kind input sl { r := r0 }).r)
      (callR kind (toBuf input) Nstar r0) := by
  rcases hset with h | ⟨h1, h2⟩
  · exact sliced_end_eq_whole_w' hc hw input hi0 sl h Nstar hN
  · have hi00 : InvW P r0 (toBuf (input.take 0)) 0 := hi0.mono (agree_empty _) (Nat.le_refl _)
    have hch := chain_w hc hw input Nstar sl { r := r0 } rfl (Nat.zero_le _) hi00 hN
    rw [if_pos h1] at hch
    have hI := idle_run_w hc hw hid input Nstar sl { r := r0 } (Nat.zero_le _) hi00 (fun _ h => by cases h) hN h1 h2
    exact (hch.trans (Or.inl hI.toW)).symm

/-- **Two settled sliced runs** of the same decoder over the same input — ANY two slicings — agree on the return code, the output
    and the number of consumed input bytes (unless the chunk-overrun error of `lzma2_decode` was raised in both). -/
theorem two_slicings_agree_settled_obs_w' (hi0 : InvW P r0 ByteArray.empty 0) (sl1 sl2 : List (Nat × Nat))
    (hset1 : Settled (runSlicedR kind input sl1 { r := r0 })) (hset2 : Settled (runSlicedR kind input sl2 { r := r0 }))
    (hno : (runSlicedR kind input sl1 { r := r0 }).r.overrun = false ∨ (runSlicedR kind input sl2 { r := r0 }).r.overrun = false) :
    (runSlicedR kind input sl1 { r := r0 }).ret = (runSlicedR kind input sl2 { r := r0 }).ret
    ∧ (runSlicedR kind input sl1 { r := r0 }).r.output = (runSlicedR kind input sl2 { r := r0 }).r.output
    ∧ (runSlicedR kind input sl1 { r := r0 }).r.s.inPos = (runSlicedR kind input sl2 { r := r0 }).r.s.inPos := by
  have h1 := sliced_settled_eq_whole_w' hc hw hid input hi0 sl1 hset1
    (max (runSlicedR kind input sl1 { r := r0 }).room (runSlicedR kind input sl2 { r := r0 }).room + 1)
    (Nat.lt_succ_of_le (Nat.le_max_left _ _))
  have h2 := sliced_settled_eq_whole_w' hc hw hid input hi0 sl2 hset2
    (max (runSlicedR kind input sl1 { r := r0 }).room (runSlicedR kind input sl2 { r := r0 }).room + 1)
    (Nat.lt_succ_of_le (Nat.le_max_right _ _))
  rcases h1.trans h2.symm with h | h
  · exact ⟨h.1, normW_output h.2, normW_inPos h.2⟩
  · rcases hno with hn | hn
    · have := h.2.2.1; rw [hn] at this; cases this
    · have := h.2.2.2; rw [hn] at this; cases this

end


/-! ### the single call with the cumulative resources (needs `FreeRoom`, as in Lemmas/LzmaResumeTop.lean) -/

/-- `callR` depends on the state only through `normW` -/
theorem callR_congr_w (kind : Kind) (buf : ByteArray) (N : Nat) {r r' : RSt} (h : r.normW = r'.normW) :
    callR kind buf N r = callR kind buf N r' := by
  rw [callR_eq, callR_eq]
  have e1 : decodeBufferFuel (r.withInp buf).s N = decodeBufferFuel (r'.withInp buf).s N := by
    show (buf.size - r.s.inPos) + (N - r.s.produced) + 4 = (buf.size - r'.s.inPos) + (N - r'.s.produced) + 4
    rw [normW_inPos h, normW_produced h]
  rw [e1]
  have e2 : decodeBufferFuel (r'.withInp buf).s N = ((buf.size - r'.s.inPos) + (N - r'.s.produced) + 3) + 1 := rfl
  rw [e2]
  exact dB_congr_w _ _ _ buf h

section
variable {P : RSt → Prop} {kind : Kind} (hc : CodeAbsorb P (codeOf kind)) (hw : CodeWrap P (codeOf kind)) {r0 : RSt}
  (input : List UInt8)
include hc hw

theorem sliced_inv_w (hi0 : InvW P r0 ByteArray.empty 0) : ∀ (sl : List (Nat × Nat)) (x : SRun),
    x.avail ≤ input.length → EqvW (x.ret, x.r) (callR kind (toBuf (input.take x.avail)) x.room r0) →
    FreeRoom kind input sl x →
    EqvW ((runSlicedR kind input sl x).ret, (runSlicedR kind input sl x).r)
      (callR kind (toBuf (input.take (runSlicedR kind input sl x).avail)) (runSlicedR kind input sl x).room r0)
  | [], x, _, hG, _ => hG
  | (k, cap) :: sl, x, hav, hG, hfr => by
    by_cases hret : x.ret = .ok
    · rw [run_cons kind input k cap sl hret]
      have hfr' : x.r.s.produced < x.room + cap ∧ FreeRoom kind input sl (runPieceR kind input x k cap) := by
        rcases hfr with h | h
        · exact absurd hret h
        · exact h
      refine sliced_inv_w hi0 sl _ (Nat.min_le_right _ _) ?_ hfr'.2
      have hS : SameW (x.ret, x.r) (callR kind (toBuf (input.take x.avail)) x.room r0) := by
        rcases hG with h | h
        · exact h
        · have : x.ret = .dataError := h.1
          rw [hret] at this; cases this
      have hXok : (callR kind (toBuf (input.take x.avail)) x.room r0).1 = .ok := hS.1.symm.trans hret
      have hn : x.r.normW = (callR kind (toBuf (input.take x.avail)) x.room r0).2.normW := hS.2
      have hle : x.avail ≤ min (x.avail + k) input.length := Nat.le_min.mpr ⟨Nat.le_add_right _ _, hav⟩
      have ha := callR_absorb_w hc hw (Nat.le_add_right x.room cap) (toBuf_agree input hle) r0
        (hi0.mono (agree_empty _) (Nat.zero_le _)) (fun _ => by rw [← normW_produced hn]; exact hfr'.1)
      have h1 := ha.1
      rw [if_pos hXok] at h1
      show EqvW (callR kind (toBuf (input.take (min (x.avail + k) input.length))) (x.room + cap) x.r)
        (callR kind (toBuf (input.take (min (x.avail + k) input.length))) (x.room + cap) r0)
      rw [callR_congr_w kind _ _ hn]
      exact h1.symm
    · rw [run_stop kind input _ hret]
      exact hG

/-- A sliced run in which every call after the first has free output room equals ONE call with the cumulative resources
    (dictionary wraps included). -/
theorem sliced_eq_single_w (hi0 : InvW P r0 ByteArray.empty 0) (k cap : Nat) (sl : List (Nat × Nat))
    (hfr : FreeRoom kind input sl (runPieceR kind input { r := r0 } k cap)) :
    EqvW ((runSlicedR kind input ((k, cap) :: sl) { r := r0 }).ret, (runSlicedR kind input ((k, cap) :: sl) { r := r0 }).r)
      (callR kind (toBuf (input.take (runSlicedR kind input ((k, cap) :: sl) { r := r0 }).avail))
        (runSlicedR kind input ((k, cap) :: sl) { r := r0 }).room r0) := by
  rw [run_cons kind input k cap sl (x := { r := r0 }) rfl]
  exact sliced_inv_w hc hw input hi0 sl _ (Nat.min_le_right _ _) (EqvW.refl _) hfr

end

/-! ### the hypotheses are satisfiable: initial states -/

theorem invW_of_init {P : RSt → Prop} (r0 : RSt) (dictSize presetLen : Nat) (hP : P r0)
    (hdp : r0.s.dp = DictPos.init dictSize presetLen) (hin : r0.s.inPos = 0) (hbase : r0.s.outBase = r0.s.hist.size)
    (hlc : r0.s.lc + r0.s.lp ≤ 4) (hpb : r0.s.pb ≤ 4) : InvW P r0 ByteArray.empty 0 := by
  have hp : r0.s.produced = 0 := by
    show r0.s.hist.size - r0.s.outBase = 0
    omega
  refine ⟨⟨hP, by rw [hin]; exact Nat.zero_le _,
    by rw [hin]; exact ⟨Nat.zero_le _, Nat.zero_le _, fun i _ _ h => absurd h (Nat.not_lt_zero i)⟩,
    by omega, by rw [hdp]; rfl, ?_, ?_, ⟨?_, hlc, hpb⟩, ?_⟩, by omega⟩
  · rw [hdp]; unfold DictPos.init allocSize roundDictSize
    simp only [LZ_DICT_REPEAT_MAX]
    split <;> omega
  · rw [hdp]; unfold DictPos.init allocSize
    simp only [LZ_DICT_INIT_POS, LZ_DICT_REPEAT_MAX]
    omega
  · rw [hdp]; unfold DictPos.init allocSize roundDictSize
    simp only [LZ_DICT_REPEAT_MAX]
    split <;> omega
  · intro _
    rw [hdp]; unfold DictPos.init; simp only [LZ_DICT_INIT_POS]; omega

theorem invW_initLzma2R {P : RSt → Prop} (dictSize : Nat) (preset : List UInt8) (hP : P (initLzma2R dictSize preset)) :
    InvW P (initLzma2R dictSize preset) ByteArray.empty 0 :=
  invW_of_init _ dictSize preset.length hP rfl rfl (by
    show (presetTail dictSize preset).length = (ByteArray.mk (presetTail dictSize preset).toArray).size
    rw [byteArray_mk_size]) (by show 0 + 0 ≤ 4; omega) (by show 0 ≤ 4; omega)

theorem invW_initLzma1R {P : RSt → Prop} (props : Props) (dictSize : Nat) (uncomp : Option Nat) (allowEopm : Bool)
    (preset : List UInt8) (hv : props.valid = true) (hP : P (initLzma1R props dictSize uncomp allowEopm preset)) :
    InvW P (initLzma1R props dictSize uncomp allowEopm preset) ByteArray.empty 0 := by
  have hv' : props.lc + props.lp ≤ 4 ∧ props.pb ≤ 4 := by
    unfold Props.valid at hv
    simp only [Bool.and_eq_true, decide_eq_true_eq, LZMA_LCLP_MAX, LZMA_PB_MAX] at hv
    exact ⟨hv.1.2, hv.2⟩
  exact invW_of_init _ dictSize preset.length hP rfl rfl (by
    show (presetTail dictSize preset).length = (ByteArray.mk (presetTail dictSize preset).toArray).size
    rw [byteArray_mk_size]) hv'.1 hv'.2

end XzVerif.LzmaR
