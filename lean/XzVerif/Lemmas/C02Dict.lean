/-
  Helper lemmas for C02: the LZMA2 dictionary-size byte and the lc/lp/pb byte.
-/
import XzVerif.Model.Container
import XzVerif.Lemmas.BitWordsC02

namespace XzVerif.Container
open XzVerif XzVerif.Vli

/-- The values the smearing can produce for arguments ≥ 4095. -/
def dictSmearValues : List Nat := [4095, 6143, 8191, 12287, 16383, 24575, 32767, 49151, 65535, 98303, 131071, 196607, 262143, 393215, 524287, 786431, 1048575, 1572863, 2097151, 3145727, 4194303, 6291455, 8388607, 12582911, 16777215, 25165823, 33554431, 50331647, 67108863, 100663295, 134217727, 201326591, 268435455, 402653183, 536870911, 805306367, 1073741823, 1610612735, 2147483647, 3221225471, 4294967295]

/-- The Nat-level smearing of the model is the 32-bit smearing of the C code. -/
theorem dictSmear_eq_bv (x : Nat) (h : x < 4294967296) : dictSmear x = (BitWords.smear32 (BitVec.ofNat 32 x)).toNat := by
  simp [dictSmear, BitWords.smear32, BitVec.toNat_ofNat, Nat.mod_eq_of_lt h]

theorem smearValues_toNat : BitWords.smearValues.map BitVec.toNat = dictSmearValues := by decide

theorem dictSmear_mem (x : Nat) (h : x < 4294967296) (h4 : 4095 ≤ x) : dictSmear x ∈ dictSmearValues ∧ x ≤ dictSmear x := by
  rw [dictSmear_eq_bv x h]
  have hge := BitWords.dictSmear_ge (BitVec.ofNat 32 x)
  have hmem := BitWords.dictSmear_mem (BitVec.ofNat 32 x) (by
    rw [BitVec.le_def]; simp [BitVec.toNat_ofNat, Nat.mod_eq_of_lt h]; omega)
  refine ⟨?_, ?_⟩
  · rw [← smearValues_toNat]
    exact List.mem_map_of_mem hmem
  · rw [BitVec.le_def] at hge
    simpa [BitVec.toNat_ofNat, Nat.mod_eq_of_lt h] using hge

/-- For each possible smear result the stored byte decodes to a size ≥ result + 1 (or to 2^32 − 1 for the last). -/
theorem dictCode_of_smear : dictSmearValues.all (fun s =>
    match lzma2DictDecode (if s = UINT32_MAX then 40 else getDistSlot (s + 1) - 24) with
    | some d => (if s = UINT32_MAX then d == UINT32_MAX else d == s + 1)
    | none => false) = true := by decide +kernel

/-- The dictionary size declared by the byte `lzma_lzma2_props_encode` stores is at least the requested one
    (and at least LZMA_DICT_SIZE_MIN). -/
theorem lzma2Dict_covers (d : Nat) (h : d < 4294967296) :
    ∃ s, lzma2DictDecode (lzma2DictEncode d) = some s ∧ max d 4096 ≤ s ∧ s ≤ UINT32_MAX := by
  unfold lzma2DictEncode
  generalize hx : (if d < DICT_SIZE_MIN then DICT_SIZE_MIN else d) - 1 = x
  have hx1 : x < 4294967296 ∧ 4095 ≤ x ∧ max d 4096 = x + 1 := by
    simp only [DICT_SIZE_MIN] at hx
    by_cases hd : d < 4096
    · simp only [hd, if_true] at hx; omega
    · simp only [hd, if_false] at hx; omega
  obtain ⟨hmem, hge⟩ := dictSmear_mem x hx1.1 hx1.2.1
  have hall := List.all_eq_true.mp dictCode_of_smear (dictSmear x) hmem
  cases hdec : lzma2DictDecode (if dictSmear x = UINT32_MAX then 40 else getDistSlot (dictSmear x + 1) - 24) with
  | none => simp [hdec] at hall
  | some s =>
    simp only [hdec] at hall
    refine ⟨s, rfl, ?_⟩
    by_cases hm : dictSmear x = UINT32_MAX
    · simp only [hm, if_true, beq_iff_eq] at hall
      simp only [UINT32_MAX] at hall hm ⊢
      omega
    · simp only [hm, if_false, beq_iff_eq] at hall
      have hmax : dictSmear x ≤ 4294967295 := by
        have : ∀ v ∈ dictSmearValues, v ≤ 4294967295 := by decide
        exact this _ hmem
      simp only [UINT32_MAX] at hm ⊢
      omega

/-! ### lc/lp/pb -/

theorem lclppb_decode_encode (lc lp pb b : Nat) (h : lclppbEncode lc lp pb = some b) : lclppbDecode b = some (lc, lp, pb) := by
  unfold lclppbEncode at h
  by_cases hv : lclppbValid lc lp pb = true
  · simp only [hv, if_true, Option.some.injEq] at h
    have hb : lc ≤ 4 ∧ lp ≤ 4 ∧ lc + lp ≤ 4 ∧ pb ≤ 4 := by
      unfold lclppbValid at hv
      simp only [LCLP_MAX, PB_MAX] at hv
      exact of_decide_eq_true hv
    subst h
    unfold lclppbDecode
    have h1 : ¬ ((pb * 5 + lp) * 9 + lc > (4 * 5 + 4) * 9 + 8) := by omega
    have e1 : ((pb * 5 + lp) * 9 + lc) / (9 * 5) = pb := by omega
    simp only [h1, if_false, e1]
    have e2 : ((pb * 5 + lp) * 9 + lc - pb * 9 * 5) / 9 = lp := by omega
    simp only [e2]
    have e3 : (pb * 5 + lp) * 9 + lc - pb * 9 * 5 - lp * 9 = lc := by omega
    simp only [e3, LCLP_MAX]
    have : ¬ (lc + lp > 4) := by omega
    simp [this]
  · simp [hv] at h

theorem lclppb_encode_decode (b lc lp pb : Nat) (h : lclppbDecode b = some (lc, lp, pb)) : lclppbEncode lc lp pb = some b := by
  unfold lclppbDecode at h
  by_cases h1 : b > (4 * 5 + 4) * 9 + 8
  · simp [h1] at h
  · simp only [h1, if_false] at h
    by_cases h2 : b - b / (9 * 5) * 9 * 5 - (b - b / (9 * 5) * 9 * 5) / 9 * 9 + (b - b / (9 * 5) * 9 * 5) / 9 > LCLP_MAX
    · simp [h2] at h
    · simp only [h2, if_false, Option.some.injEq, Prod.mk.injEq] at h
      obtain ⟨hlc, hlp, hpb⟩ := h
      simp only [LCLP_MAX] at h2
      unfold lclppbEncode lclppbValid
      simp only [LCLP_MAX, PB_MAX]
      have : lc ≤ 4 ∧ lp ≤ 4 ∧ lc + lp ≤ 4 ∧ pb ≤ 4 := by omega
      simp only [this, and_self, decide_true, if_true, Option.some.injEq]
      omega

end XzVerif.Container
