/-
  Helper lemmas for C20 (Model/Shell.lean): the reader on quoted text, the mini-sed on the two shapes of
  program the scripts use, command substitution.
-/
import XzVerif.Model.Shell

set_option linter.unusedSimpArgs false

namespace XzVerif.Shell

/-! ### reader -/

theorem readFrom_append (st : RS) (a b : Bytes) : readFrom st (a ++ b) = readFrom (readFrom st a) b := by
  simp [readFrom, List.foldl_append]

theorem readFrom_cons (st : RS) (c : UInt8) (t : Bytes) : readFrom st (c :: t) = readFrom (step st c) t := rfl

theorem readFrom_nil (st : RS) : readFrom st [] = st := rfl

/-- What `'` is turned into by the `escape` sed program: `'\''`. -/
def escQ (c : UInt8) : Bytes := if c = SQ then [39, 92, 39, 39] else [c]

theorem step_sq_other (done : List Word) (segs : List Seg) (lit name : Bytes) (c : UInt8) (h0 : c ≠ 0) (hq : c ≠ SQ) :
    step ⟨.sq, done, segs, lit, name⟩ c = ⟨.sq, done, segs, lit ++ [c], name⟩ := by
  simp [step, h0, hq, RS.push, SP, TAB, NL, SQ, DQ, BSL, DOLLAR, BQ, AMP, BAR]

theorem read_sq_quote (done : List Word) (segs : List Seg) (lit name : Bytes) :
    readFrom ⟨.sq, done, segs, lit, name⟩ [39, 92, 39, 39] = ⟨.sq, done, segs, lit ++ [39], name⟩ := by
  simp [readFrom, step, stepUnq, isOperator, isExpansion, RS.push, SP, TAB, NL, SQ, DQ, BSL, DOLLAR, BQ, AMP, BAR]

/-- Inside '…' the escaped text of `v` is read back as `v`. -/
theorem read_sq_body (v : Bytes) (h0 : (0 : UInt8) ∉ v) (done : List Word) (segs : List Seg) (lit name : Bytes) :
    readFrom ⟨.sq, done, segs, lit, name⟩ (v.flatMap escQ) = ⟨.sq, done, segs, lit ++ v, name⟩ := by
  induction v generalizing lit with
  | nil => simp [readFrom]
  | cons c cs ih =>
    have hc : c ≠ 0 := by intro h; apply h0; simp [h]
    have hcs : (0 : UInt8) ∉ cs := by intro h; apply h0; simp [h]
    rw [List.flatMap_cons, readFrom_append]
    by_cases hq : c = SQ
    · subst hq
      have : escQ SQ = [39, 92, 39, 39] := by simp [escQ]
      rw [this, read_sq_quote, ih hcs]; simp
    · have : escQ c = [c] := by simp [escQ, hq]
      rw [this, readFrom_cons, readFrom_nil, step_sq_other _ _ _ _ _ hc hq, ih hcs]; simp

/-- Without a quote in it, the text itself is read back. -/
theorem read_sq_plain (v : Bytes) (h0 : (0 : UInt8) ∉ v) (hq : SQ ∉ v) (done : List Word) (segs : List Seg) (lit name : Bytes) :
    readFrom ⟨.sq, done, segs, lit, name⟩ v = ⟨.sq, done, segs, lit ++ v, name⟩ := by
  induction v generalizing lit with
  | nil => simp [readFrom]
  | cons c cs ih =>
    have hc : c ≠ 0 := by intro h; apply h0; simp [h]
    have hcs : (0 : UInt8) ∉ cs := by intro h; apply h0; simp [h]
    have hc' : c ≠ SQ := by intro h; apply hq; simp [h]
    have hcs' : SQ ∉ cs := by intro h; apply hq; simp [h]
    rw [readFrom_cons, step_sq_other _ _ _ _ _ hc hc', ih hcs hcs']; simp

theorem flatMap_escQ_of_no_quote (v : Bytes) (hq : SQ ∉ v) : v.flatMap escQ = v := by
  induction v with
  | nil => rfl
  | cons c cs ih =>
    have hc' : c ≠ SQ := by intro h; apply hq; simp [h]
    have hcs' : SQ ∉ cs := by intro h; apply hq; simp [h]
    simp [List.flatMap_cons, escQ, hc', ih hcs']

/-- A reader state "between tokens": blank, or inside an unquoted word. -/
def RS.open_ (st : RS) : Prop := st.mode = .blank ∨ st.mode = .word

/-- Opening quote, escaped body, closing quote: the current word grows by exactly `v`. -/
theorem read_quoted (v : Bytes) (h0 : (0 : UInt8) ∉ v) (st : RS) (hst : st.open_) :
    readFrom st ([SQ] ++ v.flatMap escQ ++ [SQ]) = { st with mode := .word, lit := st.lit ++ v } := by
  obtain ⟨mode, done, segs, lit, name⟩ := st
  have h1 : step ⟨mode, done, segs, lit, name⟩ SQ = ⟨.sq, done, segs, lit, name⟩ := by
    rcases hst with h | h <;> simp only [] at h <;> subst h <;>
      simp [step, stepUnq, isOperator, isExpansion, SP, TAB, NL, SQ, DQ, BSL, DOLLAR, BQ, AMP, BAR]
  have h2 : readFrom ⟨mode, done, segs, lit, name⟩ [SQ] = ⟨.sq, done, segs, lit, name⟩ := by
    rw [readFrom_cons, readFrom_nil, h1]
  rw [readFrom_append, readFrom_append, h2, read_sq_body v h0]
  simp [readFrom, step, SP, TAB, NL, SQ, DQ, BSL, DOLLAR, BQ, AMP, BAR]

theorem read_blank (st : RS) (hst : st.open_) :
    readFrom st [SP] = if st.mode = .word then st.endWord else st := by
  obtain ⟨mode, done, segs, lit, name⟩ := st
  rcases hst with h | h <;> simp only [] at h <;> subst h <;> simp [readFrom, step, stepUnq, SP, TAB, NL, SQ, DQ, BSL, DOLLAR, BQ, AMP, BAR]

/-! ### command substitution -/

theorem cmdSubst_append_nl (x : Bytes) (c : UInt8) (hc : c ≠ NL) : cmdSubst (x ++ [c, NL]) = x ++ [c] := by
  simp [cmdSubst, List.dropWhile, hc]

/-! ### mini-sed: the four shapes of `s` command the scripts use -/

theorem substGo_inactive (re : Regex) (repl : List RItem) (g atStart : Bool) (l : Bytes) :
    substGo re repl g atStart 0 false l = l := by
  induction l generalizing atStart with
  | nil => simp [substGo]
  | cons c cs ih => simp [substGo, ih]

/-- `s/[set]/repl/g`: every byte of the set is replaced, the others are copied. -/
theorem substGo_class_global (a : Atom) (repl : List RItem) (atStart : Bool) (l : Bytes) :
    substGo ⟨false, [a], false⟩ repl true atStart 0 true l
      = l.flatMap (fun c => if a.mem c then expand repl [c] else [c]) := by
  induction l generalizing atStart with
  | nil => simp [substGo, matchAt, atomsMatch]
  | cons c cs ih =>
    by_cases h : a.mem c = true
    · simp [substGo, matchAt, atomsMatch, h, ih]
    · simp [substGo, matchAt, atomsMatch, h, ih]

/-- `s/x$/repl/` on a line that ends with `x`: only that final `x` is replaced. -/
theorem substGo_lit_eol (x : UInt8) (repl : List RItem) (atStart : Bool) (pre : Bytes) :
    substGo ⟨false, [⟨[x]⟩], true⟩ repl false atStart 0 true (pre ++ [x]) = pre ++ expand repl [x] := by
  induction pre generalizing atStart with
  | nil => simp [substGo, matchAt, atomsMatch, Atom.mem]
  | cons p ps ih =>
    have : ¬ ((ps ++ [x]).length + 1 = 1) := by simp
    simp [substGo, matchAt, atomsMatch, ih]

/-- `s/$/repl/`: the replacement is appended. -/
theorem substGo_empty_eol (repl : List RItem) (atStart : Bool) (l : Bytes) :
    substGo ⟨false, [], true⟩ repl false atStart 0 true l = l ++ expand repl [] := by
  induction l generalizing atStart with
  | nil => simp [substGo, matchAt, atomsMatch]
  | cons c cs ih => simp [substGo, matchAt, atomsMatch, ih]

/-- `s/^/repl/`: the replacement is prepended. -/
theorem substGo_empty_bol (repl : List RItem) (l : Bytes) :
    substGo ⟨true, [], false⟩ repl false true 0 true l = expand repl [] ++ l := by
  cases l with
  | nil => simp [substGo, matchAt, atomsMatch]
  | cons c cs => simp [substGo, matchAt, atomsMatch, substGo_inactive]

theorem expand_lits (bs : Bytes) (m : Bytes) : expand (bs.map RItem.lit) m = bs := by
  induction bs with
  | nil => rfl
  | cons b bs ih => simp_all [expand]

/-! ### the `escape` program of xzgrep/xzdiff: `s/'/'\\''/g ; $s/X$/'/` -/

def escapeCmds : List Cmd :=
  [⟨.all, ⟨false, [⟨[39]⟩], false⟩, [.lit 39, .lit 92, .lit 39, .lit 39], true⟩,
   ⟨.last, ⟨false, [⟨[88]⟩], true⟩, [.lit 39], false⟩]

theorem escQ_fun : (fun c => if (⟨[39]⟩ : Atom).mem c then expand [.lit 39, .lit 92, .lit 39, .lit 39] [c] else [c]) = escQ := by
  funext c
  by_cases h : c = 39 <;> simp [Atom.mem, escQ, expand, h, SQ]

theorem runCmds_escape_mid (l : Bytes) : runCmds escapeCmds l false = l.flatMap escQ := by
  simp only [runCmds, escapeCmds, List.foldl, Addr.applies, subst, substGo_class_global, escQ_fun]
  simp

theorem runCmds_escape_last (m : Bytes) : runCmds escapeCmds (m ++ [88]) true = m.flatMap escQ ++ [39] := by
  have : (m ++ [88]).flatMap escQ = m.flatMap escQ ++ [88] := by simp [escQ, SQ]
  simp only [runCmds, escapeCmds, List.foldl, Addr.applies, subst, substGo_class_global, escQ_fun, this, if_true]
  rw [substGo_lit_eol]; simp [expand]

/-- The sed cycle of `escape` on `s ++ "X\n"`: quotes are escaped, newlines stay, the final X becomes `'`. -/
theorem sedStream_escape (s cur : Bytes) :
    sedStream escapeCmds cur (s ++ [88, 10]) = cur.flatMap escQ ++ s.flatMap escQ ++ [39, 10] := by
  induction s generalizing cur with
  | nil =>
    simp [sedStream, NL, runCmds_escape_last]
  | cons c cs ih =>
    by_cases h : c = NL
    · subst h
      have hne : cs ++ [88, 10] ≠ [] := by simp
      have hq : escQ NL = [NL] := by simp [escQ, NL, SQ]
      simp [sedStream, hne, runCmds_escape_mid, ih, hq]
    · simp [sedStream, h, ih]

/-! ### the label-escaping program of xzgrep: `s/[&\|]/\\&/g; $!s/$/\\/` -/

def labelCmds : List Cmd :=
  [⟨.all, ⟨false, [⟨[38, 92, 124]⟩], false⟩, [.lit 92, .whole], true⟩,
   ⟨.notLast, ⟨false, [], true⟩, [.lit 92], false⟩]

/-- within a line: `&`, `\`, `|` get a backslash -/
def escL (c : UInt8) : Bytes := if c = 38 ∨ c = 92 ∨ c = 124 then [92, c] else [c]
/-- over the whole name: additionally newline becomes backslash-newline -/
def escN (c : UInt8) : Bytes := if c = NL then [92, NL] else escL c

theorem escL_fun : (fun c => if (⟨[38, 92, 124]⟩ : Atom).mem c then expand [.lit 92, .whole] [c] else [c]) = escL := by
  funext c
  by_cases h1 : c = 38 <;> by_cases h2 : c = 92 <;> by_cases h3 : c = 124 <;> simp [Atom.mem, escL, expand, h1, h2, h3]

theorem runCmds_label_mid (l : Bytes) : runCmds labelCmds l false = l.flatMap escL ++ [92] := by
  simp only [runCmds, labelCmds, List.foldl, Addr.applies, subst, substGo_class_global, escL_fun, substGo_empty_eol]
  simp [expand]

theorem runCmds_label_last (l : Bytes) : runCmds labelCmds l true = l.flatMap escL := by
  simp only [runCmds, labelCmds, List.foldl, Addr.applies, subst, substGo_class_global, escL_fun]
  simp

theorem sedStream_label (t cur : Bytes) :
    sedStream labelCmds cur (t ++ [58, 10]) = cur.flatMap escL ++ t.flatMap escN ++ [58, 10] := by
  induction t generalizing cur with
  | nil => simp [sedStream, NL, runCmds_label_last, escL]
  | cons c cs ih =>
    by_cases h : c = NL
    · subst h
      have hne : cs ++ [58, 10] ≠ [] := by simp
      simp [sedStream, hne, runCmds_label_mid, ih, escN, escL]
    · simp [sedStream, h, ih, escN]

/-- The replacement part of `s|^|…|` built from an escaped name denotes the name, byte for byte. -/
theorem parseRepl_escN (t rest : Bytes) :
    parseRepl 124 (t.flatMap escN ++ 124 :: rest) = some (t.map RItem.lit, rest) := by
  induction t with
  | nil => rw [parseRepl.eq_def]; simp
  | cons c cs ih =>
    by_cases h : c = 10
    · subst h
      simp only [List.flatMap_cons, escN, NL, if_true, List.cons_append, List.nil_append]
      rw [parseRepl.eq_def]; simp [ih, NL, BSL, AMP]
    · by_cases h1 : c = 38
      · subst h1
        simp only [List.flatMap_cons, escN, escL, NL]
        rw [parseRepl.eq_def]; simp [ih, NL, BSL, AMP]
      · by_cases h2 : c = 92
        · subst h2
          simp only [List.flatMap_cons, escN, escL, NL]
          rw [parseRepl.eq_def]; simp [ih, NL, BSL, AMP]
        · by_cases h3 : c = 124
          · subst h3
            simp only [List.flatMap_cons, escN, escL, NL]
            rw [parseRepl.eq_def]; simp [ih, NL, BSL, AMP]
          · have e : escN c = [c] := by simp [escN, escL, NL, h, h1, h2, h3]
            simp only [List.flatMap_cons, e, List.cons_append, List.nil_append]
            rw [parseRepl.eq_def]; simp [ih, NL, BSL, AMP, h, h1, h2, h3]

theorem flatMap_escN_id (t : Bytes) (h : ∀ c ∈ t, c ≠ 10 ∧ c ≠ 38 ∧ c ≠ 92 ∧ c ≠ 124) : t.flatMap escN = t := by
  induction t with
  | nil => rfl
  | cons c cs ih =>
    have hc := h c (by simp)
    have hcs : ∀ x ∈ cs, x ≠ 10 ∧ x ≠ 38 ∧ x ≠ 92 ∧ x ≠ 124 := fun x hx => h x (by simp [hx])
    simp [List.flatMap_cons, escN, escL, NL, hc.1, hc.2.1, hc.2.2.1, hc.2.2.2, ih hcs]

/-! ### globs -/

theorem anySuffix_isEmpty (s : Bytes) : anySuffix (globMatch []) s = true := by
  induction s with
  | nil => simp [anySuffix, globMatch]
  | cons c cs ih => simp [anySuffix, ih]

theorem globMatch_star (ps : Glob) (s : Bytes) : globMatch (.star :: ps) s = anySuffix (globMatch ps) s := by
  cases s <;> simp [globMatch]

theorem globMatch_lit_star (c x : UInt8) (xs : Bytes) : globMatch [.cls false [c], .star] (x :: xs) = (x == c) := by
  have h1 : globMatch [.star] xs = true := by rw [globMatch_star, anySuffix_isEmpty]
  have h2 : globMatch [.cls false [c], .star] (x :: xs) = (([c].contains x != false) && globMatch [.star] xs) := by
    simp only [globMatch]
  rw [h2, h1]
  by_cases h : x = c
  · subst h; simp
  · have h' : ¬ c = x := fun e => h e.symm
    simp [h, h']

theorem globMatch_lit_star_nil (c : UInt8) : globMatch [.cls false [c], .star] [] = false := by
  simp [globMatch]

theorem anySuffix_lit_star (c : UInt8) (s : Bytes) :
    anySuffix (globMatch [.cls false [c], .star]) s = s.contains c := by
  induction s with
  | nil => simp [anySuffix, globMatch_lit_star_nil]
  | cons x xs ih =>
    simp only [anySuffix, ih, globMatch_lit_star]
    by_cases h : x = c
    · subst h; simp
    · have h' : ¬ c = x := fun e => h e.symm
      simp [h, h']

/-- `*c*` matches exactly the strings that contain `c`. -/
theorem globMatch_star_lit_star (c : UInt8) (s : Bytes) :
    globMatch [.star, .cls false [c], .star] s = s.contains c := by
  rw [globMatch_star, anySuffix_lit_star]

/-! ### sequences of quoted words -/

/-- The canonical quoted form of a value: `'…'` with every `'` written as `'\''`. -/
def Q (v : Bytes) : Bytes := [SQ] ++ v.flatMap escQ ++ [SQ]

/-- A reader state at a word boundary or inside a purely literal word. -/
def RS.Good (st : RS) : Prop := st.open_ ∧ st.segs = [] ∧ (st.mode = .blank → st.lit = [])

/-- The words that are complete once a blank (or the end of the text) follows. -/
def RS.wordsDone (st : RS) : List Word := if st.mode = .word then st.endWord.done else st.done

theorem good_init : RS.Good {} := by simp [RS.Good, RS.open_]

theorem read_sp_quoted (o : Bytes) (h0 : (0 : UInt8) ∉ o) (st : RS) (hg : st.Good) :
    (readFrom st (SP :: Q o)).Good ∧ (readFrom st (SP :: Q o)).wordsDone = st.wordsDone ++ [[.lit o]] := by
  obtain ⟨hopen, hsegs, hlit⟩ := hg
  have e : SP :: Q o = [SP] ++ Q o := rfl
  rw [e, readFrom_append, read_blank st hopen]
  obtain ⟨mode, done, segs, lit, name⟩ := st
  simp only [] at hsegs hlit
  subst hsegs
  rcases hopen with h | h <;> simp only [] at h <;> subst h
  · have hl : lit = [] := hlit rfl
    subst hl
    rw [if_neg (by simp), Q, read_quoted o h0 _ (Or.inl rfl)]
    simp [RS.Good, RS.open_, RS.wordsDone, RS.endWord, RS.curWord]
  · rw [if_pos rfl, Q, read_quoted o h0 _ (Or.inl rfl)]
    simp [RS.Good, RS.open_, RS.wordsDone, RS.endWord, RS.curWord]

/-- Reading ` 'q₁' 'q₂' …` adds exactly the words q₁ q₂ …, all literal. -/
theorem read_quoted_list (items : List Bytes) (h0 : ∀ o ∈ items, (0 : UInt8) ∉ o) (st : RS) (hg : st.Good) :
    (readFrom st (items.flatMap fun o => SP :: Q o)).Good ∧
    (readFrom st (items.flatMap fun o => SP :: Q o)).wordsDone = st.wordsDone ++ items.map (fun o => [Seg.lit o]) := by
  induction items generalizing st with
  | nil => simp [readFrom, hg]
  | cons o os ih =>
    have ho := h0 o (by simp)
    have hos : ∀ x ∈ os, (0 : UInt8) ∉ x := fun x hx => h0 x (by simp [hx])
    obtain ⟨g1, w1⟩ := read_sp_quoted o ho st hg
    obtain ⟨g2, w2⟩ := ih hos _ g1
    rw [List.flatMap_cons, readFrom_append]
    exact ⟨g2, by rw [w2, w1]; simp⟩

/-- The result of `shWords` seen from a Good final state. -/
theorem finish_good (st : RS) (hg : st.Good) : finish st = .ok st.wordsDone := by
  obtain ⟨mode, done, segs, lit, name⟩ := st
  rcases hg.1 with h | h <;> simp only [] at h <;> subst h <;> simp [finish, RS.wordsDone]

/-! ### the label script `s|^|…|` -/

/-- `s|^|p|` with `p` taken literally. -/
def prefixCmd (p : Bytes) : Cmd := ⟨.all, ⟨true, [], false⟩, p.map .lit, false⟩
theorem parseRegexGo_delim (d : UInt8) (n : Nat) (X : Bytes) : parseRegexGo d (n + 1) (d :: X) = some ([], false, X) := by
  rw [parseRegexGo.eq_def]; simp
theorem parseCmd_prefix (X : Bytes) (repl : List RItem) (t4 t5 : Bytes) (g : Bool)
    (h1 : parseRepl 124 X = some (repl, t4)) (h2 : parseFlags t4 = some (g, t5)) :
    parseCmd (115 :: 124 :: 94 :: 124 :: X) = some (⟨.all, ⟨true, [], false⟩, repl, g⟩, t5) := by
  simp [parseCmd, parseRegex, parseRegexGo_delim, NL, BSL, SP, h1, h2]
theorem parse_prefix_script (t : Bytes) :
    sedParse ([115, 124, 94, 124] ++ t.flatMap escN ++ [124]) = some [prefixCmd t] := by
  have e : [115, 124, 94, 124] ++ t.flatMap escN ++ [124] = 115 :: 124 :: 94 :: 124 :: (t.flatMap escN ++ 124 :: []) := by simp
  rw [e]
  simp only [sedParse, List.length_cons]
  rw [parseProg]
  have hc := parseCmd_prefix (t.flatMap escN ++ [124]) _ _ _ _ (parseRepl_escN t []) (by simp [parseFlags] : parseFlags [] = some (false, []))
  simp [isSedBlank, SP, TAB, NL, hc, parseProg, prefixCmd]

theorem runCmds_prefix (p line : Bytes) (last : Bool) : runCmds [prefixCmd p] line last = p ++ line := by
  simp [runCmds, prefixCmd, Addr.applies, subst, substGo_empty_bol, expand_lits]

end XzVerif.Shell
