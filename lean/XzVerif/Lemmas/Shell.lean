/-
  Helper lemmas for C20 (Model/Shell.lean): the reader on quoted text, the mini-sed on the two shapes of
  program the scripts use, command substitution.
-/
import XzVerif.Model.Shell

set_option linter.unusedSimpArgs false

namespace XzVerif.Shell

/-! ### reader -/

theorem readFrom_append (st : RS) (a b : Bytes) : readFrom st (a ++ b) = readFrom (readFrom st a) b := by
  simp [readFrom, List.foldl_append]

theorem readFrom_cons (st : RS) (c : UInt8) (t : Bytes) : readFrom st (c :: t) = readFrom (step st c) t := rfl

theorem readFrom_nil (st : RS) : readFrom st [] = st := rfl

/-- What `'` is turned into by the `escape` sed program: `'\''`. -/
def escQ (c : UInt8) : Bytes := if c = SQ then [39, 92, 39, 39] else [c]

theorem step_sq_other (done : List Word) (segs : List Seg) (lit name : Bytes) (c : UInt8) (h0 : c ≠ 0) (hq : c ≠ SQ) :
    step ⟨.sq, done, segs, lit, name⟩ c = ⟨.sq, done, segs, lit ++ [c], name⟩ := by
  simp [step, h0, hq, RS.push, SP, TAB, NL, SQ, DQ, BSL, DOLLAR, BQ, AMP, BAR]

theorem read_sq_quote (done : List Word) (segs : List Seg) (lit name : Bytes) :
    readFrom ⟨.sq, done, segs, lit, name⟩ [39, 92, 39, 39] = ⟨.sq, done, segs, lit ++ [39], name⟩ := by
  simp [readFrom, step, stepUnq, isOperator, isExpansion, RS.push, SP, TAB, NL, SQ, DQ, BSL, DOLLAR, BQ, AMP, BAR]

/-- Inside '…' the escaped text of `v` is read back as `v`. -/
theorem read_sq_body (v : Bytes) (h0 : (0 : UInt8) ∉ v) (done : List Word) (segs : List Seg) (lit name : Bytes) :
    readFrom ⟨.sq, done, segs, lit, name⟩ (v.flatMap escQ) = ⟨.sq, done, segs, lit ++ v, name⟩ := by
  induction v generalizing lit with
  | nil => simp [readFrom]
  | cons c cs ih =>
    have hc : c ≠ 0 := by intro h; apply h0; simp [h]
    have hcs : (0 : UInt8) ∉ cs := by intro h; apply h0; simp [h]
    rw [List.flatMap_cons, readFrom_append]
    by_cases hq : c = SQ
    · subst hq
      have : escQ SQ = [39, 92, 39, 39] := by simp [escQ]
      rw [this, read_sq_quote, ih hcs]; simp
    · have : escQ c = [c] := by simp [escQ, hq]
      rw [this, readFrom_cons, readFrom_nil, step_sq_other _ _ _ _ _ hc hq, ih hcs]; simp

/-- Without a quote in it, the text itself is read back. -/
theorem read_sq_plain (v : Bytes) (h0 : (0 : UInt8) ∉ v) (hq : SQ ∉ v) (done : List Word) (segs : List Seg) (lit name : Bytes) :
    readFrom ⟨.sq, done, segs, lit, name⟩ v = ⟨.sq, done, segs, lit ++ v, name⟩ := by
  induction v generalizing lit with
  | nil => simp [readFrom]
  | cons c cs ih =>
    have hc : c ≠ 0 := by intro h; apply h0; simp [h]
    have hcs : (0 : UInt8) ∉ cs := by intro h; apply h0; simp [h]
    have hc' : c ≠ SQ := by intro h; apply hq; simp [h]
    have hcs' : SQ ∉ cs := by intro h; apply hq; simp [h]
    rw [readFrom_cons, step_sq_other _ _ _ _ _ hc hc', ih hcs hcs']; simp

theorem flatMap_escQ_of_no_quote (v : Bytes) (hq : SQ ∉ v) : v.flatMap escQ = v := by
  induction v with
  | nil => rfl
  | cons c cs ih =>
    have hc' : c ≠ SQ := by intro h; apply hq; simp [h]
    have hcs' : SQ ∉ cs := by intro h; apply hq; simp [h]
    simp [List.flatMap_cons, escQ, hc', ih hcs']

/-- A reader state "between tokens": blank, or inside an unquoted word. -/
def RS.open_ (st : RS) : Prop := st.mode = .blank ∨ st.mode = .word

/-- Opening quote, escaped body, closing quote: the current word grows by exactly `v`. -/
theorem read_quoted (v : Bytes) (h0 : (0 : UInt8) ∉ v) (st : RS) (hst : st.open_) :
    readFrom st ([SQ] ++ v.flatMap escQ ++ [SQ]) = { st with mode := .word, lit := st.lit ++ v } := by
  obtain ⟨mode, done, segs, lit, name⟩ := st
  have h1 : step ⟨mode, done, segs, lit, name⟩ SQ = ⟨.sq, done, segs, lit, name⟩ := by
    rcases hst with h | h <;> simp only [] at h <;> subst h <;>
      simp [step, stepUnq, isOperator, isExpansion, SP, TAB, NL, SQ, DQ, BSL, DOLLAR, BQ, AMP, BAR]
  rw [readFrom_append, readFrom_append, readFrom_cons, readFrom_nil, h1, read_sq_body v h0]
  simp [readFrom, step, SP, TAB, NL, SQ, DQ, BSL, DOLLAR, BQ, AMP, BAR]

theorem read_blank (st : RS) (hst : st.open_) :
    readFrom st [SP] = if st.mode = .word then st.endWord else st := by
  obtain ⟨mode, done, segs, lit, name⟩ := st
  rcases hst with h | h <;> simp only [] at h <;> subst h <;> simp [readFrom, step, stepUnq, SP, TAB, NL, SQ, DQ, BSL, DOLLAR, BQ, AMP, BAR]

/-! ### command substitution -/

theorem cmdSubst_append_nl (x : Bytes) (c : UInt8) (hc : c ≠ NL) : cmdSubst (x ++ [c, NL]) = x ++ [c] := by
  simp [cmdSubst, List.dropWhile, hc]

/-! ### mini-sed: the four shapes of `s` command the scripts use -/

theorem substGo_inactive (re : Regex) (repl : List RItem) (g atStart : Bool) (l : Bytes) :
    substGo re repl g atStart 0 false l = l := by
  induction l generalizing atStart with
  | nil => simp [substGo]
  | cons c cs ih => simp [substGo, ih]

/-- `s/[set]/repl/g`: every byte of the set is replaced, the others are copied. -/
theorem substGo_class_global (a : Atom) (repl : List RItem) (atStart : Bool) (l : Bytes) :
    substGo ⟨false, [a], false⟩ repl true atStart 0 true l
      = l.flatMap (fun c => if a.mem c then expand repl [c] else [c]) := by
  induction l generalizing atStart with
  | nil => simp [substGo, matchAt, atomsMatch]
  | cons c cs ih =>
    by_cases h : a.mem c = true
    · simp [substGo, matchAt, atomsMatch, h, ih]
    · simp [substGo, matchAt, atomsMatch, h, ih]

/-- `s/x$/repl/` on a line that ends with `x`: only that final `x` is replaced. -/
theorem substGo_lit_eol (x : UInt8) (repl : List RItem) (atStart : Bool) (pre : Bytes) :
    substGo ⟨false, [⟨[x]⟩], true⟩ repl false atStart 0 true (pre ++ [x]) = pre ++ expand repl [x] := by
  induction pre generalizing atStart with
  | nil => simp [substGo, matchAt, atomsMatch, Atom.mem]
  | cons p ps ih =>
    have : ¬ ((ps ++ [x]).length + 1 = 1) := by simp
    simp [substGo, matchAt, atomsMatch, ih]

/-- `s/$/repl/`: the replacement is appended. -/
theorem substGo_empty_eol (repl : List RItem) (atStart : Bool) (l : Bytes) :
    substGo ⟨false, [], true⟩ repl false atStart 0 true l = l ++ expand repl [] := by
  induction l generalizing atStart with
  | nil => simp [substGo, matchAt, atomsMatch]
  | cons c cs ih => simp [substGo, matchAt, atomsMatch, ih]

/-- `s/^/repl/`: the replacement is prepended. -/
theorem substGo_empty_bol (repl : List RItem) (l : Bytes) :
    substGo ⟨true, [], false⟩ repl false true 0 true l = expand repl [] ++ l := by
  cases l with
  | nil => simp [substGo, matchAt, atomsMatch]
  | cons c cs => simp [substGo, matchAt, atomsMatch, substGo_inactive]

theorem expand_lits (bs : Bytes) (m : Bytes) : expand (bs.map RItem.lit) m = bs := by
  induction bs with
  | nil => rfl
  | cons b bs ih => simp_all [expand]

end XzVerif.Shell
