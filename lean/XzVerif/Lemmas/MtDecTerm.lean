/-
  Termination measure of the threaded-decoder model. `mu s` is a natural number that strictly decreases on every transition
  that is not taken by the application (lzma_code / lzma_end call), is not a wake-up without a signal or a timer expiry, and —
  for a Block decoder call — makes progress (consumes input, produces output, returns a verdict, or was given no input).
  This file: the definitions and the worker transitions.
-/
import XzVerif.Lemmas.MtDecU2

namespace XzVerif.MtDec

/-- Size of one stage of the main thread's walk through a Block (larger than any `mloc` plus what one stage step can add). -/
def MS (T : Nat) : Nat := 48 + 4 * T

/-- Distance of the main thread from handing control back (within the current stage). -/
def mloc (T : Nat) : MPc → Nat
  | .idle => 0
  | .ended => 0
  | .ret _ => 1
  | .stopping i _ => 2 + 2 * (T - i)
  | .endJoin i _ => 2 + 2 * (T - i)
  | .endSet i _ => 4 + 2 * T + 2 * (T - i)
  | .init5 => 7 + 4 * T
  | .init4 => 9 + 4 * T
  | .init3 => 11 + 4 * T
  | .init2 => 24 + 4 * T
  | .init1 => 25 + 4 * T
  | .rowOk _ _ => 26 + 4 * T
  | .rowDone _ _ _ => 27 + 4 * T
  | .rowWait _ _ => 28 + 4 * T
  | .row _ _ => 30 + 4 * T
  | .tell _ _ => 32 + 4 * T
  | .seq => 33 + 4 * T

/-- Stages still ahead for the item at the cursor (SEQ_* order; after the outbuf has been queued the cursor has moved on, so
    the last steps of SEQ_BLOCK_THR_INIT and SEQ_BLOCK_THR_RUN count for the next item). -/
def stagePotC (T : Nat) (seq : Seq) (pc : MPc) : Nat :=
  match seq with
  | .blockHeader => 4 * MS T
  | .blockInit => 3 * MS T
  | .thrInit =>
    match pc with
    | .init4 => 8 * MS T
    | .init5 => 7 * MS T
    | _ => 2 * MS T
  | .thrRun => 6 * MS T
  | .directInit => 2 * MS T
  | .directRun => 1 * MS T
  | .indexWait => 3 * MS T
  | .indexDecode => 2 * MS T
  | .error => 0

def stagePot (T : Nat) (s : State) : Nat := stagePotC T s.seq s.pc

/-- What an item still costs once the cursor has passed it. -/
def cost (T : Nat) (b : Block) : Nat := 8 * MS T + 64 + 8 * (b.inSize + b.data.length)

def rem (T : Nat) (bs : List Block) (cur : Nat) : Nat := ((bs.drop cur).map (cost T)).sum

def wpc : WPc → Nat
  | .exited => 0
  | .cleanup => 1
  | .fin3 _ => 7
  | .fin2 _ => 8
  | .fin1 _ => 9
  | .decode _ _ => 10
  | .wait => 11
  | .top => 12
  | .publish => 15

/-- Remaining work of a worker. -/
def wPot (bs : List Block) (w : Worker) : Nat :=
  wpc w.pc + (if w.woken then 1 else 0) + (if w.pu = .start then 6 else 0) +
  (if w.hasOut then 20 + 8 * (((bs.getD w.blk default).inSize - w.inPos) + ((bs.getD w.blk default).data.length - w.outPos))
   else 0)

def wSum (s : State) : Nat := (s.workers.map (wPot s.blocks)).sum

def mu (s : State) : Nat :=
  rem s.cfg.threadsMax s.blocks s.cur + stagePot s.cfg.threadsMax s + mloc s.cfg.threadsMax s.pc +
  (if s.mwoken then 1 else 0) + 8 * s.queue.length + wSum s

/-- `mu` as a function of the components it reads. -/
def muC (T : Nat) (bs : List Block) (cur : Nat) (seq : Seq) (pc : MPc) (mw : Bool) (ql ws : Nat) : Nat :=
  rem T bs cur + stagePotC T seq pc + mloc T pc + (if mw then 1 else 0) + 8 * ql + ws

theorem mu_eq (s : State) : mu s = muC s.cfg.threadsMax s.blocks s.cur s.seq s.pc s.mwoken s.queue.length (wSum s) := rfl

theorem wSum_setW (s : State) (i : Nat) (w : Worker) (hi : i < s.workers.length) :
    wSum (setW s i w) + wPot s.blocks (getW s i) = wSum s + wPot s.blocks w := by
  rw [getW_eq_getElem s i hi]
  exact sum_map_set (wPot s.blocks) s.workers i w hi

/-- mu of a state that differs from `s` only in worker `i` (and possibly queue contents of the same length). -/
theorem mu_setW_lt {s s' : State} {i : Nat} {w : Worker} (hi : i < s.workers.length)
    (ew : s'.workers = (setW s i w).workers) (eb : s'.blocks = s.blocks) (ec : s'.cfg = s.cfg) (ecur : s'.cur = s.cur)
    (eseq : s'.seq = s.seq) (epc : s'.pc = s.pc) (eq : s'.queue.length = s.queue.length) (em : s'.mwoken = s.mwoken)
    (hlt : wPot s.blocks w < wPot s.blocks (getW s i)) : mu s' < mu s := by
  have h1 := wSum_setW s i w hi
  have h2 : wSum s' = wSum (setW s i w) := by simp [wSum, ew, eb]
  have h3 : stagePot s'.cfg.threadsMax s' = stagePot s.cfg.threadsMax s := by simp [stagePot, ec, eseq, epc]
  unfold mu
  rw [h2, h3, eb, ec, ecur, epc, eq, em]
  omega

/-- The same when the step also signals coder->cond. -/
theorem mu_setW_signal_lt {s s' : State} {i : Nat} {w : Worker} (hi : i < s.workers.length)
    (ew : s'.workers = (setW s i w).workers) (eb : s'.blocks = s.blocks) (ec : s'.cfg = s.cfg) (ecur : s'.cur = s.cur)
    (eseq : s'.seq = s.seq) (epc : s'.pc = s.pc) (eq : s'.queue.length = s.queue.length)
    (hlt : wPot s.blocks w + 1 < wPot s.blocks (getW s i)) : mu s' < mu s := by
  have h1 := wSum_setW s i w hi
  have h2 : wSum s' = wSum (setW s i w) := by simp [wSum, ew, eb]
  have h3 : stagePot s'.cfg.threadsMax s' = stagePot s.cfg.threadsMax s := by simp [stagePot, ec, eseq, epc]
  have h4 : (if s'.mwoken then 1 else 0) ≤ 1 := by split <;> omega
  unfold mu
  rw [h2, h3, eb, ec, ecur, epc, eq]
  omega

theorem wPot_workerDecide_top (bs : List Block) (w : Worker) (hp : w.pc = .top) : wPot bs (workerDecide w) < wPot bs w := by
  unfold workerDecide wPot
  split <;> (try split) <;> simp [hp, wpc] <;> (repeat' split)
  all_goals first | omega | simp_all

theorem wPot_workerDecide_wait (bs : List Block) (w : Worker) (hp : w.pc = .wait) (hw : w.woken = true) :
    wPot bs (workerDecide w) < wPot bs w := by
  unfold workerDecide wPot
  split <;> (try split) <;> simp [hp, hw, wpc] <;> (repeat' split)
  all_goals first | omega | simp_all

theorem mu_wLoop {s s' : State} {i : Nat} {c : Cause} (hs : step s (.wLoop i c) = some s')
    (hne : (Label.wLoop i c).isExpiry = false) : mu s' < mu s := by
  simp only [step] at hs
  split at hs
  case isFalse => cases hs
  rename_i hi
  split at hs
  · rename_i hp _
    cases hs
    exact mu_setW_lt hi rfl rfl rfl rfl rfl rfl rfl rfl (wPot_workerDecide_top s.blocks (getW s i) (by assumption))
  · split at hs
    · rename_i hw
      cases hs
      exact mu_setW_lt hi rfl rfl rfl rfl rfl rfl rfl rfl (wPot_workerDecide_wait s.blocks (getW s i) (by assumption) hw)
    · cases hs
  · simp [Label.isExpiry] at hne
  · cases hs

theorem mu_wDecode {s s' : State} {i a b : Nat} {v : Bool} (hwf : ∀ j, (blk s j).WF) (hU : UInv s)
    (hs : step s (.wDecode i a b v) = some s') (hprog : Progressive s (.wDecode i a b v)) : mu s' < mu s := by
  simp only [step] at hs
  split at hs
  case isFalse => cases hs
  rename_i hi
  split at hs
  case h_2 => cases hs
  rename_i lim pu hpc
  have hown : (getW s i).hasOut = true := hU.busy i hi (by rw [hpc]; trivial)
  obtain ⟨hsn1, hsn2⟩ := hU.snap i hi lim pu hpc
  have hneed := (hwf (getW s i).blk).2.2.1
  split at hs
  case isFalse => cases hs
  rename_i hg
  simp only [Bool.and_eq_true, decide_eq_true_eq, Bool.or_eq_true] at hg
  obtain ⟨⟨⟨⟨⟨g1, g2⟩, g3⟩, g4⟩, g5⟩, g6⟩ := hg
  simp only [Progressive] at hprog
  have hb : (blk s (getW s i).blk) = s.blocks.getD (getW s i).blk default := rfl
  rw [hb] at hneed g3 g5
  split at hs
  · -- verdict
    split at hs
    case isFalse => cases hs
    cases hs
    refine mu_setW_lt hi rfl rfl rfl rfl rfl rfl rfl rfl ?_
    simp only [wPot, wpc, hpc, hown, if_true]
    omega
  · rename_i hv
    have hv' : v = false := by simpa using hv
    subst hv'
    split at hs
    · rename_i hpu
      cases hs
      refine mu_setW_lt hi rfl rfl rfl rfl rfl rfl rfl rfl ?_
      simp only [wPot, wpc, hpc, hown, if_true]
      rcases hprog with h | h | h | ⟨lim', pu', hp', hl'⟩
      · cases h
      · simp only [reduceCtorEq, if_false]; split <;> omega
      · simp only [reduceCtorEq, if_false]; split <;> omega
      · rw [hpc] at hp'; injection hp' with e1 e2; subst e1; subst e2
        have := hsn2 (hsn1 hl')
        simp only [this, reduceCtorEq, if_false, if_true]; omega
    · rename_i hpu
      have hpd : pu = .disabled := by simpa using hpu
      cases hs
      refine mu_setW_lt hi rfl rfl rfl rfl rfl rfl rfl rfl ?_
      simp only [wPot, wpc, hpc, hown, if_true]
      rcases hprog with h | h | h | ⟨lim', pu', hp', hl'⟩
      · cases h
      · omega
      · omega
      · rw [hpc] at hp'; injection hp' with e1 e2; subst e1; subst e2
        have := hsn1 hl'
        rw [hpd] at this; cases this

theorem mu_wPublish {s s' : State} {i : Nat} (hs : step s (.wPublish i) = some s') : mu s' < mu s := by
  simp only [step] at hs
  split at hs
  case isFalse => cases hs
  rename_i hg
  simp only [Bool.and_eq_true, decide_eq_true_eq] at hg
  obtain ⟨hi, hpc⟩ := hg
  cases hs
  refine mu_setW_signal_lt hi rfl rfl rfl rfl rfl rfl (by simp [signalMain]) ?_
  simp only [wPot, wpc, hpc]
  omega

theorem mu_wFin1 {s s' : State} {i : Nat} (hs : step s (.wFin1 i) = some s') : mu s' < mu s := by
  simp only [step] at hs
  split at hs
  case isFalse => cases hs
  rename_i hi
  split at hs
  case h_2 => cases hs
  rename_i r hpc
  cases hs
  refine mu_setW_lt hi rfl rfl rfl rfl rfl rfl rfl rfl ?_
  simp only [wPot, wpc, hpc]
  omega

theorem mu_wFin2 {s s' : State} {i : Nat} (hs : step s (.wFin2 i) = some s') : mu s' < mu s := by
  simp only [step] at hs
  split at hs
  case isFalse => cases hs
  rename_i hi
  split at hs
  case h_2 => cases hs
  rename_i r hpc
  cases hs
  refine mu_setW_lt hi rfl rfl rfl rfl rfl rfl rfl rfl ?_
  simp only [wPot, wpc, hpc]
  omega

theorem mu_wCleanup {s s' : State} {i : Nat} (hs : step s (.wCleanup i) = some s') : mu s' < mu s := by
  simp only [step] at hs
  split at hs
  case isFalse => cases hs
  rename_i hg
  simp only [Bool.and_eq_true, decide_eq_true_eq] at hg
  obtain ⟨hi, hpc⟩ := hg
  cases hs
  refine mu_setW_lt hi rfl rfl rfl rfl rfl rfl rfl rfl ?_
  simp only [wPot, wpc, hpc]
  omega

theorem mu_wFin3 {s s' : State} {i : Nat} (hU : UInv s) (hs : step s (.wFin3 i) = some s') : mu s' < mu s := by
  simp only [step] at hs
  split at hs
  case isFalse => cases hs
  rename_i hi
  split at hs
  case h_2 => cases hs
  rename_i r hpc
  have hown : (getW s i).hasOut = true := hU.busy i hi (by rw [hpc]; trivial)
  simp only [signalMain] at hs
  cases hs
  refine mu_setW_signal_lt (w := { getW s i with hasOut := false, failed := r != END, pc := .top }) hi ?_ ?_ ?_ ?_ ?_ ?_ ?_ ?_
  · repeat' split
    all_goals rfl
  · repeat' split
    all_goals rfl
  · repeat' split
    all_goals rfl
  · repeat' split
    all_goals rfl
  · repeat' split
    all_goals rfl
  · repeat' split
    all_goals rfl
  · repeat' split
    all_goals simp
  · simp only [wPot, wpc, hpc, hown, if_true]
    simp only [Bool.false_eq_true, if_false]
    omega

theorem mu_worker {s s' : State} {l : Label} {i : Nat} (hwf : ∀ j, (blk s j).WF) (hU : UInv s) (hl : l.worker? = some i)
    (hs : step s l = some s') (hne : l.isExpiry = false) (hprog : Progressive s l) : mu s' < mu s := by
  cases l <;> simp only [Label.worker?, Option.some.injEq, reduceCtorEq] at hl
  · exact mu_wLoop hs hne
  · exact mu_wDecode hwf hU hs hprog
  · exact mu_wPublish hs
  · exact mu_wFin1 hs
  · exact mu_wFin2 hs
  · exact mu_wFin3 hU hs
  · exact mu_wCleanup hs

end XzVerif.MtDec
