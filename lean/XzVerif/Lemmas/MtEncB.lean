/-
  C08 helper lemmas, part B: what a worker step / an error return changes (frame lemmas), stated once for all worker
  events, so that the structural and ghost invariants need one proof for all of them.
-/
import XzVerif.Lemmas.MtEncA

namespace XzVerif.MtEnc

/-- What the main thread can see of an entry without looking at its worker: (closed, data length). -/
def shape (q : List Entry) : List (Bool × Nat) := q.map fun e => (e.closed, e.data.length)
def blks (q : List Entry) : List Blk := q.map Entry.blk
def fins (q : List Entry) : List Bool := q.map fun e => e.finished

theorem map_set_same {α β : Type} (f : α → β) {l : List α} {i : Nat} {a a' : α} (hi : l[i]? = some a) (h : f a' = f a) :
    (l.set i a').map f = l.map f := by
  induction l generalizing i with
  | nil => simp
  | cons x xs ih =>
    cases i with
    | zero => simp at hi; subst hi; simp [h]
    | succ j => simp at hi; simp [ih hi]

theorem shape_mapWorkers (f : WCtx → WCtx) (q : List Entry) : shape (mapWorkers f q) = shape q := by
  simp [shape, mapWorkers, List.map_map, Function.comp_def]

theorem blks_mapWorkers (f : WCtx → WCtx) (q : List Entry) : blks (mapWorkers f q) = blks q := by
  simp [blks, mapWorkers, List.map_map, Function.comp_def, Entry.blk]

theorem fins_mapWorkers (f : WCtx → WCtx) (q : List Entry) : fins (mapWorkers f q) = fins q := by
  simp [fins, mapWorkers, List.map_map, Function.comp_def]

theorem length_mapWorkers (f : WCtx → WCtx) (q : List Entry) : (mapWorkers f q).length = q.length := by
  simp [mapWorkers]

theorem busy_mapWorkers (f : WCtx → WCtx) (q : List Entry) : busy (mapWorkers f q) = busy q := by
  unfold busy mapWorkers
  induction q with
  | nil => rfl
  | cons e q ih =>
    simp only [List.map_cons, List.filter_cons]
    cases h : e.wk <;> simp [h] <;> simpa using ih

/-- Everything a worker event leaves unchanged, and how it changes its own entry. -/
structure WFrame (s s' : St) : Prop where
  cfg : s'.cfg = s.cfg
  seq : s'.seq = s.seq
  hdrPos : s'.hdrPos = s.hdrPos
  tailPos : s'.tailPos = s.tailPos
  thr : s'.thr = s.thr
  readPos : s'.readPos = s.readPos
  index : s'.index = s.index
  mpc : s'.mpc = s.mpc
  inp : s'.inp = s.inp
  cap : s'.cap = s.cap
  act : s'.act = s.act
  pending : s'.pending = s.pending
  out : s'.out = s.out
  done : s'.done = s.done
  consumed : s'.consumed = s.consumed
  flushPts : s'.flushPts = s.flushPts
  nblk : s'.nblk = s.nblk
  lastRet : s'.lastRet = s.lastRet
  shape : shape s'.outq = shape s.outq
  blks : blks s'.outq = blks s.outq
  len : s'.outq.length = s.outq.length
  headFin : ∀ e rest, s.outq = e :: rest → e.finished = true → ∃ e' rest', s'.outq = e' :: rest' ∧ e'.finished = true

theorem shape_set {q : List Entry} {i : Nat} {e e' : Entry} (hi : q[i]? = some e) (hc : e'.closed = e.closed) (hd : e'.data = e.data) :
    shape (q.set i e') = shape q := map_set_same _ hi (by simp [hc, hd])

theorem blks_set {q : List Entry} {i : Nat} {e e' : Entry} (hi : q[i]? = some e) (h : e'.blk = e.blk) :
    blks (q.set i e') = blks q := map_set_same _ hi h

theorem WFrame_set {s : St} {i : Nat} {e e' : Entry} (t : St) (hi : s.outq[i]? = some e)
    (hq : t.outq = s.outq.set i e') (ho : e'.ord = e.ord) (hch : e'.chain = e.chain) (hd : e'.data = e.data) (hc : e'.closed = e.closed)
    (h1 : t.cfg = s.cfg) (h2 : t.seq = s.seq) (h3 : t.hdrPos = s.hdrPos) (h4 : t.tailPos = s.tailPos) (h5 : t.thr = s.thr)
    (h6 : t.readPos = s.readPos) (h7 : t.index = s.index) (h8 : t.mpc = s.mpc) (h9 : t.inp = s.inp) (h10 : t.cap = s.cap)
    (h11 : t.act = s.act) (h12 : t.pending = s.pending) (h13 : t.out = s.out) (h14 : t.done = s.done) (h15 : t.consumed = s.consumed)
    (h16 : t.flushPts = s.flushPts) (h17 : t.nblk = s.nblk) (h18 : t.lastRet = s.lastRet)
    (hf : e.finished = true → e'.finished = true) : WFrame s t :=
  ⟨h1, h2, h3, h4, h5, h6, h7, h8, h9, h10, h11, h12, h13, h14, h15, h16, h17, h18,
   by rw [hq]; exact shape_set hi hc hd,
   by rw [hq]; exact blks_set hi (by simp [Entry.blk, ho, hch, hd]),
   by rw [hq]; simp,
   by
    intro e0 rest h0 hfin
    rw [hq, h0]
    cases i with
    | zero =>
      rw [h0] at hi; simp at hi; subst hi
      exact ⟨e', rest, by simp, hf hfin⟩
    | succ j => exact ⟨e0, rest.set j e', by simp, hfin⟩⟩


macro "wframe" hi:ident : tactic =>
  `(tactic| exact WFrame_set _ $hi rfl rfl rfl rfl rfl rfl rfl rfl rfl rfl rfl rfl rfl rfl rfl rfl rfl rfl rfl rfl rfl rfl rfl (by simp <;> intro h <;> simp [h]))

theorem wTop_frame {P : Params} {s s' : St} {i o0 : Nat} (hs : wTop P s i o0 = some s') : WFrame s s' := by
  unfold wTop at hs
  split at hs; · cases hs
  rename_i e hi
  split at hs; · cases hs
  split at hs
  · split at hs
    · cases hs; wframe hi
    · cases hs; wframe hi
    · cases hs; wframe hi
    · split at hs <;> cases hs
      wframe hi
  · cases hs

theorem wEnc_frame {P : Params} {s s' : St} {i : Nat} {full : Bool} {newOut : Nat} (hs : wEnc P s i full newOut = some s') : WFrame s s' := by
  unfold wEnc at hs
  split at hs; · cases hs
  rename_i e hi
  split at hs; · cases hs
  split at hs
  · split at hs
    · cases hs; wframe hi
    · split at hs
      · cases hs; wframe hi
      · cases hs; wframe hi
      · cases hs; wframe hi
      · dsimp only at hs
        split at hs
        · split at hs
          · cases hs; wframe hi
          · cases hs
        · split at hs
          · cases hs; wframe hi
          · split at hs
            · cases hs; wframe hi
            · cases hs
  · cases hs

theorem wEncErr_frame {s s' : St} {i : Nat} {r : Ret} (hs : wEncErr s i r = some s') : WFrame s s' := by
  unfold wEncErr at hs
  split at hs; · cases hs
  rename_i e hi
  split at hs; · cases hs
  split at hs
  · cases hs; wframe hi
  · cases hs

theorem wFb_frame {P : Params} {s s' : St} {i : Nat} (hs : wFb P s i = some s') : WFrame s s' := by
  unfold wFb at hs
  split at hs; · cases hs
  rename_i e hi
  split at hs; · cases hs
  split at hs
  · split at hs <;> cases hs <;> wframe hi
  · cases hs

theorem wMarkIdle_frame {s s' : St} {i : Nat} (hs : wMarkIdle s i = some s') : WFrame s s' := by
  unfold wMarkIdle at hs
  split at hs; · cases hs
  rename_i e hi
  split at hs; · cases hs
  split at hs
  · cases hs; wframe hi
  · cases hs

theorem wTail_frame {s s' : St} {i : Nat} (hs : wTail s i = some s') : WFrame s s' := by
  unfold wTail at hs
  split at hs; · cases hs
  rename_i e hi
  split at hs; · cases hs
  split at hs
  · dsimp only at hs
    split at hs <;> cases hs <;> wframe hi
  · cases hs

theorem wSpurious_frame {s s' : St} {i : Nat} (hs : wSpurious s i = some s') : WFrame s s' := by
  unfold wSpurious at hs
  split at hs; · cases hs
  rename_i e hi
  split at hs; · cases hs
  split at hs
  · cases hs; wframe hi
  · cases hs

theorem wExitIdle_frame {s s' : St} (hs : wExitIdle s = some s') : WFrame s s' := by
  unfold wExitIdle at hs
  split at hs
  · cases hs; exact ⟨rfl, rfl, rfl, rfl, rfl, rfl, rfl, rfl, rfl, rfl, rfl, rfl, rfl, rfl, rfl, rfl, rfl, rfl, rfl, rfl, rfl, fun e rest h0 hf => ⟨e, rest, h0, hf⟩⟩
  · cases hs

theorem mExitOne_frame {s s' : St} {i : Nat} (hs : mExitOne s i = some s') : WFrame s s' := by
  unfold mExitOne at hs
  split at hs
  · split at hs; · cases hs
    rename_i e hi
    split at hs; · cases hs
    split at hs
    · cases hs; wframe hi
    · cases hs
  · cases hs

theorem mExitIdle_frame {s s' : St} (hs : mExitIdle s = some s') : WFrame s s' := by
  unfold mExitIdle at hs
  split at hs
  · cases hs; exact ⟨rfl, rfl, rfl, rfl, rfl, rfl, rfl, rfl, rfl, rfl, rfl, rfl, rfl, rfl, rfl, rfl, rfl, rfl, rfl, rfl, rfl, fun e rest h0 hf => ⟨e, rest, h0, hf⟩⟩
  · cases hs

/-- Frame of `ret`: the queue keeps its shape (threads_stop only touches the workers), `mpc` becomes `out` or `failed`. -/
theorem ret_shape (s : St) (r : Ret) : shape (ret s r).outq = shape s.outq := by
  unfold ret; split
  · rfl
  · simp [stopAll, shape_mapWorkers]

theorem ret_blks (s : St) (r : Ret) : blks (ret s r).outq = blks s.outq := by
  unfold ret; split
  · rfl
  · simp [stopAll, blks_mapWorkers]

theorem ret_fins (s : St) (r : Ret) : fins (ret s r).outq = fins s.outq := by
  unfold ret; split
  · rfl
  · simp [stopAll, fins_mapWorkers]

theorem ret_len (s : St) (r : Ret) : (ret s r).outq.length = s.outq.length := by
  unfold ret; split
  · rfl
  · simp [stopAll, length_mapWorkers]

theorem ret_busy (s : St) (r : Ret) : busy (ret s r).outq = busy s.outq := by
  unfold ret; split
  · rfl
  · simp [stopAll, busy_mapWorkers]

theorem ret_headFin (s : St) (r : Ret) : ∀ e rest, s.outq = e :: rest → e.finished = true →
    ∃ e' rest', (ret s r).outq = e' :: rest' ∧ e'.finished = true := by
  intro e rest h0 hf
  unfold ret; split
  · exact ⟨e, rest, h0, hf⟩
  · simp only [stopAll, mapWorkers, h0, List.map_cons]
    exact ⟨_, _, rfl, hf⟩

theorem ret_mpc (s : St) (r : Ret) : (ret s r).mpc = .out ∨ (ret s r).mpc = .failed := by
  unfold ret; split
  · exact Or.inl rfl
  · exact Or.inr rfl

end XzVerif.MtEnc
