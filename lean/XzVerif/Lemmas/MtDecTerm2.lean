/-
  Termination measure: read_output_and_wait (one loop iteration) and lzma_outq_enable_partial_output.
-/
import XzVerif.Lemmas.MtDecTerm

namespace XzVerif.MtDec

/-- Queue-and-workers part of the measure. -/
def qw (s : State) : Nat := 8 * s.queue.length + wSum s

structure PCore (a b : State) : Prop where
  blocks : b.blocks = a.blocks
  cfg : b.cfg = a.cfg
  cur : b.cur = a.cur
  seq : b.seq = a.seq

theorem PCore.refl (a : State) : PCore a a := ⟨rfl, rfl, rfl, rfl⟩
theorem PCore.trans {a b c : State} (h1 : PCore a b) (h2 : PCore b c) : PCore a c :=
  ⟨h2.blocks.trans h1.blocks, h2.cfg.trans h1.cfg, h2.cur.trans h1.cur, h2.seq.trans h1.seq⟩

theorem wSum_setW_le (s : State) (i : Nat) (w : Worker) (d : Nat)
    (h : i < s.workers.length → wPot s.blocks w ≤ wPot s.blocks (getW s i) + d) : wSum (setW s i w) ≤ wSum s + d := by
  by_cases hi : i < s.workers.length
  · have := wSum_setW s i w hi
    have := h hi
    omega
  · have : (setW s i w).workers = s.workers := by
      simp only [setW]; exact List.set_eq_of_length_le (by omega)
    have : wSum (setW s i w) = wSum s := by simp [wSum, this]
    omega

theorem enablePartialHead_pot (s : State) :
    PCore s (enablePartialHead s) ∧ (enablePartialHead s).pc = s.pc ∧ (enablePartialHead s).mwoken = s.mwoken ∧
    (enablePartialHead s).queue.length = s.queue.length ∧ wSum (enablePartialHead s) ≤ wSum s + 7 := by
  unfold enablePartialHead
  split
  · rename_i h t hq
    split
    · split
      · rename_i w _
        refine ⟨⟨rfl, rfl, rfl, rfl⟩, rfl, rfl, by simp [hq], ?_⟩
        show wSum (setW s w (signalW { getW s w with pu := .start })) ≤ wSum s + 7
        apply wSum_setW_le
        intro _
        simp only [wPot, signalW]
        repeat' split
        all_goals first | omega | (simp_all <;> ((repeat' split) <;> omega))
      · exact ⟨PCore.refl s, rfl, rfl, rfl, by omega⟩
    · exact ⟨PCore.refl s, rfl, rfl, rfl, by omega⟩
  · exact ⟨PCore.refl s, rfl, rfl, rfl, by omega⟩

theorem outqRead_pot (s : State) :
    PCore s (outqRead s).1 ∧ (outqRead s).1.pc = s.pc ∧ (outqRead s).1.mwoken = s.mwoken ∧
    qw (outqRead s).1 + (if (outqRead s).2 = END then 8 else 0) ≤ qw s := by
  unfold outqRead
  split
  · refine ⟨PCore.refl s, rfl, rfl, ?_⟩
    simp [OK, END]
  · rename_i h t hq
    dsimp only
    split
    · refine ⟨⟨rfl, rfl, rfl, rfl⟩, rfl, rfl, ?_⟩
      simp [OK, END, qw, wSum]
    · refine ⟨⟨rfl, rfl, rfl, rfl⟩, rfl, rfl, ?_⟩
      simp only [qw, wSum, hq, List.length_cons]
      split <;> omega

theorem readLoop_pot : ∀ (n : Nat) (s : State),
    PCore s (readLoop n s).1 ∧ (readLoop n s).1.pc = s.pc ∧ (readLoop n s).1.mwoken = s.mwoken ∧ qw (readLoop n s).1 ≤ qw s
  | 0, s => ⟨PCore.refl s, rfl, rfl, Nat.le_refl _⟩
  | n + 1, s => by
    unfold readLoop
    have h1 := outqRead_pot s
    generalize outqRead s = p at h1 ⊢
    obtain ⟨s1, r⟩ := p
    dsimp only at h1 ⊢
    split
    · rename_i hr
      have h2 := enablePartialHead_pot s1
      have h3 := readLoop_pot n (enablePartialHead s1)
      refine ⟨(h1.1.trans h2.1).trans h3.1, h3.2.1.trans (h2.2.1.trans h1.2.1), h3.2.2.1.trans (h2.2.2.1.trans h1.2.2.1), ?_⟩
      have a := h1.2.2.2
      rw [if_pos hr] at a
      have b := h3.2.2.2
      have c : qw (enablePartialHead s1) ≤ qw s1 + 7 := by
        unfold qw; rw [h2.2.2.2.1]; have := h2.2.2.2.2; omega
      omega
    · refine ⟨h1.1, h1.2.1, h1.2.2.1, ?_⟩
      have a := h1.2.2.2
      show qw s1 ≤ qw s
      split at a <;> omega

theorem stagePotC_congr (T : Nat) (q : Seq) {p p' : MPc} (hp : p ≠ .init4 ∧ p ≠ .init5) (hp' : p' ≠ .init4 ∧ p' ≠ .init5) :
    stagePotC T q p' = stagePotC T q p := by
  unfold stagePotC
  cases q <;> simp only []
  split <;> split <;> simp_all

theorem mu_final_lt (s x : State) (c : PCore s x) (hq : qw x ≤ qw s) (P : MPc) (M : Bool)
    (hP : P ≠ .init4 ∧ P ≠ .init5) (hs : s.pc ≠ .init4 ∧ s.pc ≠ .init5)
    (h : mloc s.cfg.threadsMax P + (if M then 1 else 0) < mloc s.cfg.threadsMax s.pc + (if s.mwoken then 1 else 0)) :
    mu { x with pc := P, mwoken := M } < mu s := by
  rw [mu_eq, mu_eq]
  show muC x.cfg.threadsMax x.blocks x.cur x.seq P M x.queue.length (wSum x) < _
  rw [c.cfg, c.blocks, c.cur, c.seq]
  have h1 := stagePotC_congr s.cfg.threadsMax s.seq hs hP
  unfold qw at hq
  unfold muC
  omega

theorem mu_rowIterate_lt (s : State) (k : RowK) (w : Bool)
    (hp : s.pc = .row k w ∨ (s.pc = .rowWait k w ∧ s.mwoken = true)) : mu (rowIterate s k w) < mu s := by
  obtain ⟨c, _, hm, hq⟩ := readLoop_pot (s.queue.length + 1) s
  have hs45 : s.pc ≠ .init4 ∧ s.pc ≠ .init5 := by rcases hp with e | ⟨e, _⟩ <;> simp [e]
  have hloc : ∀ (P : MPc) (M : Bool), (mloc s.cfg.threadsMax P = 27 + 4 * s.cfg.threadsMax ∨
      (mloc s.cfg.threadsMax P = 28 + 4 * s.cfg.threadsMax ∧ M = false)) → (M = true → s.mwoken = true) →
      mloc s.cfg.threadsMax P + (if M then 1 else 0) < mloc s.cfg.threadsMax s.pc + (if s.mwoken then 1 else 0) := by
    intro P M hP hM
    rcases hp with e | ⟨e, e2⟩
    · have hl : mloc s.cfg.threadsMax s.pc = 30 + 4 * s.cfg.threadsMax := by rw [e]; rfl
      rw [hl]
      rcases hP with x | ⟨x, y⟩
      · rw [x]; split <;> split <;> omega
      · rw [x, y]; simp only [Bool.false_eq_true, if_false]; split <;> omega
    · have hl : mloc s.cfg.threadsMax s.pc = 28 + 4 * s.cfg.threadsMax := by rw [e]; rfl
      rw [hl, e2]
      rcases hP with x | ⟨x, y⟩
      · rw [x]; simp only [if_true]; split <;> omega
      · rw [x, y]; simp
  unfold rowIterate
  dsimp only
  split
  · exact mu_final_lt s _ c hq _ _ (by simp) hs45 (hloc _ _ (Or.inl rfl) (fun h => hm ▸ h))
  · have m : ∀ cap, PCore (readLoop (s.queue.length + 1) s).1 (markFilled (readLoop (s.queue.length + 1) s).1 cap) ∧
        qw (markFilled (readLoop (s.queue.length + 1) s).1 cap) = qw (readLoop (s.queue.length + 1) s).1 ∧
        (markFilled (readLoop (s.queue.length + 1) s).1 cap).mwoken = (readLoop (s.queue.length + 1) s).1.mwoken := by
      intro cap; unfold markFilled; split
      · exact ⟨⟨rfl, rfl, rfl, rfl⟩, rfl, rfl⟩
      · exact ⟨PCore.refl _, rfl, rfl⟩
    obtain ⟨mc, mq, mm⟩ := m s.outCap
    split
    · exact mu_final_lt s _ (c.trans mc) (by rw [mq]; exact hq) _ _ (by simp) hs45
        (hloc _ _ (Or.inl rfl) (fun h => hm ▸ mm ▸ h))
    · have f : PCore (markFilled (readLoop (s.queue.length + 1) s).1 s.outCap)
            (flagPend (markFilled (readLoop (s.queue.length + 1) s).1 s.outCap)) ∧
          qw (flagPend (markFilled (readLoop (s.queue.length + 1) s).1 s.outCap)) =
            qw (markFilled (readLoop (s.queue.length + 1) s).1 s.outCap) ∧
          (flagPend (markFilled (readLoop (s.queue.length + 1) s).1 s.outCap)).mwoken =
            (markFilled (readLoop (s.queue.length + 1) s).1 s.outCap).mwoken := by
        unfold flagPend; split
        · exact ⟨⟨rfl, rfl, rfl, rfl⟩, rfl, rfl⟩
        · exact ⟨PCore.refl _, rfl, rfl⟩
      obtain ⟨fc, fq, fm⟩ := f
      have cc := (c.trans mc).trans fc
      have qq : qw (flagPend (markFilled (readLoop (s.queue.length + 1) s).1 s.outCap)) ≤ qw s := by rw [fq, mq]; exact hq
      have mmw : (flagPend (markFilled (readLoop (s.queue.length + 1) s).1 s.outCap)).mwoken = s.mwoken := by rw [fm, mm, hm]
      unfold rowLeaveOrWait
      repeat' split
      all_goals first
        | exact mu_final_lt s _ cc qq _ _ (by simp) hs45 (hloc _ _ (Or.inl rfl) (fun h => mmw ▸ h))
        | exact mu_final_lt s _ cc qq _ false (by simp) hs45 (hloc _ _ (Or.inr ⟨rfl, rfl⟩) (fun h => by cases h))

end XzVerif.MtDec
