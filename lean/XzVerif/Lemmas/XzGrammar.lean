/-
  A DECLARATIVE grammar of the .xz container (xz-file-format.txt sections 2–4) that does not mention the Block decoder.

  `ValidXz` / `BlocksRun` (Lemmas/XzDecodeStream.lean) describe a Block through `blockDecode E … = b ∧ b.ret = .streamEnd`, i.e.
  through the executable Block decoder itself.  Here a Block is described field by field:

    Block Header   the bytes `hb` decode as a Block Header `h` (`blockHeaderDecodeWith`: the pure field parser — size byte, flags,
                   optional sizes, Filter Flags, zero Header Padding, CRC32), the chain is valid (`validateChain`);
    Compressed Data a byte string `c` that the PAYLOAD decoder maps to `o`: `E.payload h.filters c allowance = ⟨.streamEnd, o, |c|⟩`
                   (for LZMA2 the specification of the payload IS a decoding algorithm; this is a premise about the payload
                   decoder on exactly the bytes `c`, with the Block's output allowance `min cap uncompressed_limit`);
    size fields    Compressed Size / Uncompressed Size, when present, equal `|c|` / `|o|`;
    Block Padding  `(4 - |c| % 4) % 4` zero bytes;
    Check          `check_size` bytes, equal to `E.check id o` when the ID is supported and LZMA_IGNORE_CHECK is off;
    limits         the numeric limits of the format that `lzma_index_hash_append` enforces (`BlockLimits`).
  Stream: Stream Header, Blocks, Index = `indexEncode` of the Records, Stream Footer (`FooterFacts`), and Stream Padding in
  multiples of four zero bytes between concatenated Streams (`DValidXz`).

  This file: the definitions, `blockDecode_sound_decl` (accepted ⇒ `DBlock`) and `blockDecode_complete` (`DBlock` ⇒ accepted).
  Kernel proofs, core Lean only.
-/
import XzVerif.Lemmas.XzLocal
import XzVerif.Lemmas.XzDecodeFunctional

namespace XzVerif.XzDecode
open XzVerif XzVerif.Vli XzVerif.Container

/-- the Block's output allowance: `min(out_size - out_pos, uncompressed_limit)` -/
def outAllowance (cap : Nat) (h : BlockHeader) : Nat := min cap (uncompressedLimit h.uncompressedSize)

/-- One Block after its header, field by field: Compressed Data `c` decoding to `o`, Block Padding `pad`, Check `chk`. -/
structure DBlock (E : Env) (check : Nat) (ign : Bool) (h : BlockHeader) (cap : Nat) (c o pad chk : List UInt8) : Prop where
  payload : E.payload h.filters c (outAllowance cap h) = ⟨.streamEnd, o, c.length⟩
  csize : ∀ x, h.compressedSize = some x → x = c.length
  usize : ∀ u, h.uncompressedSize = some u → u = o.length
  pad_eq : pad = List.replicate (blockPadLen c.length) 0
  chk_len : chk.length = (if check = 0 then 0 else checkSize check)
  chk_ok : check ≠ 0 → ign = false → E.checkSupported check = true → chk = E.check check o

/-- the limits of `lzma_index_hash_append` on the size pairs collected so far -/
def HashLimits (b : HashInfo) : Prop :=
  hBlocksSize b ≤ VLI_MAX ∧ hUncompressedSize b ≤ VLI_MAX ∧ indexSize (hCount b) (hIndexListSize b) ≤ BACKWARD_SIZE_MAX
  ∧ indexStreamSize (hBlocksSize b) (hCount b) (hIndexListSize b) ≤ VLI_MAX

/-- numeric limits on one Block: Compressed Data not empty, Unpadded Size in range, Uncompressed Size a valid VLI, and the running
    totals within the limits of the Index -/
structure BlockLimits (blocks : HashInfo) (hs check clen olen : Nat) : Prop where
  clen_pos : clen ≠ 0
  unpadded_le : clen + hs + checkSize check ≤ UNPADDED_SIZE_MAX
  olen_le : olen ≤ VLI_MAX
  totals : HashLimits (blocks ++ [⟨clen + hs + checkSize check, olen⟩])

/-- The Blocks of one Stream, declaratively: `DBlocks E fl hdr blocks inp cap out c final`. -/
inductive DBlocks (E : Env) (fl : Flags) (hdr : StreamFlags) :
    HashInfo → List UInt8 → Nat → List UInt8 → Nat → HashInfo → Prop
  | done (blocks : HashInfo) (inp : List UInt8) (cap : Nat) : DBlocks E fl hdr blocks inp cap [] 0 blocks
  | block (blocks : HashInfo) (inp : List UInt8) (cap : Nat) (b0 : UInt8) (tl : List UInt8) (h : BlockHeader)
      (c o pad chk rest out' : List UInt8) (c' : Nat) (final : HashInfo) :
      inp = (b0 :: tl) ++ c ++ pad ++ chk ++ rest → b0.toNat ≠ 0 →
      blockHeaderDecodeWith (b0 :: tl).length hdr.check (b0 :: tl) = .ok h →
      (∃ n, validateChain (h.filters.map (·.id)) = .ok n) →
      DBlock E hdr.check fl.ignoreCheck h cap c o pad chk →
      BlockLimits blocks (b0 :: tl).length hdr.check c.length o.length →
      DBlocks E fl hdr (blocks ++ [⟨c.length + (b0 :: tl).length + checkSize hdr.check, o.length⟩]) rest (cap - o.length) out' c' final →
      DBlocks E fl hdr blocks inp cap (o ++ out') ((b0 :: tl).length + c.length + pad.length + chk.length + c') final

/-- One complete .xz Stream at the front of `inp`, declaratively. -/
def DValidStream (E : Env) (fl : Flags) (inp : List UInt8) (cap : Nat) (out : List UInt8) (len : Nat) : Prop :=
  ∃ (hdr : StreamFlags) (c : Nat) (final : HashInfo) (s2 : SRes),
    STREAM_HEADER_SIZE ≤ inp.length ∧
    streamHeaderDecode (inp.take STREAM_HEADER_SIZE) = .ok hdr ∧
    DBlocks E fl hdr [] (inp.drop STREAM_HEADER_SIZE) cap out c final ∧
    FooterFacts hdr final (inp.drop (STREAM_HEADER_SIZE + c)) s2 ∧
    len = STREAM_HEADER_SIZE + c + s2.consumed ∧ len ≤ inp.length

/-- A whole file: one Stream (anything may follow) without LZMA_CONCATENATED; with it, Streams separated and followed by Stream
    Padding in multiples of four zero bytes, up to the end of the input. -/
inductive DValidXz (E : Env) (fl : Flags) : List UInt8 → Nat → List UInt8 → Nat → Prop
  | single (inp : List UInt8) (cap : Nat) (out : List UInt8) (len : Nat) :
      fl.concatenated = false → DValidStream E fl inp cap out len → DValidXz E fl inp cap out len
  | last (inp : List UInt8) (cap : Nat) (out : List UInt8) (len k : Nat) :
      fl.concatenated = true → DValidStream E fl inp cap out len →
      inp.drop len = List.replicate (4 * k) 0 → DValidXz E fl inp cap out (len + 4 * k)
  | more (inp : List UInt8) (cap : Nat) (out : List UInt8) (len k : Nat) (b : UInt8) (rest out2 : List UInt8) (c2 : Nat) :
      fl.concatenated = true → DValidStream E fl inp cap out len →
      inp.drop len = List.replicate (4 * k) 0 ++ b :: rest → b ≠ 0 →
      DValidXz E fl (b :: rest) (cap - out.length) out2 c2 →
      DValidXz E fl inp cap (out ++ out2) (len + 4 * k + c2)

/-! ### one Block: the decoder accepts exactly the declarative Blocks -/

theorem pres_eta (r : PRes) : r = ⟨r.ret, r.out, r.consumed⟩ := rfl

/-- SOUNDNESS of the Block decoder w.r.t. the declarative Block. -/
theorem blockDecode_sound_decl (E : Env) (hloc : PayloadLocal E) (hbd : PayloadBounded E) (check : Nat) (ign : Bool) (hs : Nat)
    (h : BlockHeader) (X : List UInt8) (cap : Nat) (hb : (blockDecode E check ign hs h X cap).ret = .streamEnd) :
    let b := blockDecode E check ign hs h X cap
    b.compressed ≤ X.length ∧
    X = X.take b.compressed ++ List.replicate (blockPadLen b.compressed) 0
          ++ (X.drop (b.compressed + blockPadLen b.compressed)).take (if check = 0 then 0 else checkSize check)
          ++ X.drop b.consumed ∧
    DBlock E check ign h cap (X.take b.compressed) b.out (List.replicate (blockPadLen b.compressed) 0)
      ((X.drop (b.compressed + blockPadLen b.compressed)).take (if check = 0 then 0 else checkSize check)) := by
  intro b
  have F := blockDecode_streamEnd E check ign hs h X cap b rfl hb
  have hle : b.compressed ≤ (X.take (min X.length (compressedLimit hs check h.compressedSize))).length := by
    rw [F.compressed_eq]; exact hbd _ _ _
  have hleX : b.compressed ≤ X.length := by
    rw [List.length_take] at hle; omega
  have hle2 : b.compressed ≤ min X.length (compressedLimit hs check h.compressedSize) := by
    rw [List.length_take] at hle; omega
  refine ⟨hleX, ?_, ?_⟩
  · have hbytes := F.bytes
    calc X = X.take b.compressed ++ X.drop b.compressed := (List.take_append_drop _ _).symm
      _ = _ := by rw [hbytes]; simp only [List.append_assoc]
  · have hpl := hloc h.filters (X.take (min X.length (compressedLimit hs check h.compressedSize))) (X.take b.compressed)
      (min cap (uncompressedLimit h.uncompressedSize)) F.payload_end (by
        have := hbd h.filters (X.take (min X.length (compressedLimit hs check h.compressedSize))) (min cap (uncompressedLimit h.uncompressedSize))
        exact this) (by
        have hc : (payloadCall E check hs h X cap).consumed = b.compressed := F.compressed_eq.symm
        unfold payloadCall at hc
        rw [hc, List.take_take, List.take_take, Nat.min_eq_left hle2, Nat.min_self])
    have hcl : (X.take b.compressed).length = b.compressed := by rw [List.length_take]; exact Nat.min_eq_left hleX
    refine ⟨?_, by rw [hcl]; exact F.csize_field, F.usize_field, by rw [hcl], F.check_len, ?_⟩
    · unfold outAllowance
      rw [hpl, pres_eta (E.payload _ _ _)]
      have h1 := F.payload_end; have h2 := F.out_eq; have h3 := F.compressed_eq
      unfold payloadCall at h1 h2 h3
      rw [h1, ← h2, ← h3, List.length_take, Nat.min_eq_left hleX]
    · intro hc hi hs'
      have := F.check_ok hc hi hs'
      simp only [hc, if_false]
      exact this

/-- COMPLETENESS of the Block decoder: on a declarative Block (whose Compressed Data respects the size limit of the decoder) it
    answers LZMA_STREAM_END with the Block's output, having consumed exactly the Block. -/
theorem blockDecode_complete (E : Env) (hloc : PayloadLocal E) (check : Nat) (ign : Bool) (hs : Nat) (h : BlockHeader)
    (cap : Nat) (c o pad chk rest : List UInt8) (D : DBlock E check ign h cap c o pad chk)
    (hlim : c.length ≤ compressedLimit hs check h.compressedSize) :
    blockDecode E check ign hs h (c ++ pad ++ chk ++ rest) cap
      = { ret := .streamEnd, out := o, consumed := c.length + pad.length + chk.length, compressed := c.length } := by
  have hpad := D.pad_eq
  subst hpad
  generalize hX : c ++ List.replicate (blockPadLen c.length) 0 ++ chk ++ rest = X
  have hXc : X.take c.length = c := by rw [← hX]; simp [List.append_assoc]
  have hXd : X.drop c.length = List.replicate (blockPadLen c.length) 0 ++ (chk ++ rest) := by
    rw [← hX]; simp [List.append_assoc]
  have hXl : c.length ≤ X.length := by rw [← hX]; simp only [List.length_append]; omega
  have hmin : c.length ≤ min X.length (compressedLimit hs check h.compressedSize) := by
    exact Nat.le_min.mpr ⟨hXl, hlim⟩
  -- the payload decoder gives the same verdict on everything the Block decoder shows it
  have hpay : E.payload h.filters (X.take (min X.length (compressedLimit hs check h.compressedSize)))
      (min cap (uncompressedLimit h.uncompressedSize)) = ⟨.streamEnd, o, c.length⟩ := by
    have hp := D.payload
    unfold outAllowance at hp
    have := hloc h.filters c (X.take (min X.length (compressedLimit hs check h.compressedSize)))
      (min cap (uncompressedLimit h.uncompressedSize)) (by rw [hp]) (by rw [hp]; exact Nat.le_refl _) (by
        rw [hp]
        simp only []
        rw [List.take_take, Nat.min_eq_left hmin, hXc, List.take_length])
    rw [this, hp]
  unfold blockDecode
  simp only []
  rw [hpay]
  simp only []
  have hsv : (sizeValid c.length h.compressedSize && sizeValid o.length h.uncompressedSize) = true := by
    have h1 : sizeValid c.length h.compressedSize = true := by
      unfold sizeValid
      cases hcs : h.compressedSize with
      | none => rfl
      | some x => simp [D.csize x hcs]
    have h2 : sizeValid o.length h.uncompressedSize = true := by
      unfold sizeValid
      cases hus : h.uncompressedSize with
      | none => rfl
      | some u => simp [D.usize u hus]
    rw [h1, h2]; rfl
  rw [if_neg (by rw [hsv]; simp)]
  rw [hXd, padCheck_complete]
  simp only [List.length_replicate]
  by_cases hc0 : check = 0
  · have hchk : chk.length = 0 := by have := D.chk_len; rw [if_pos hc0] at this; exact this
    rw [if_pos hc0, hchk, Nat.add_zero]
  · rw [if_neg hc0]
    have hchk : chk.length = checkSize check := by have := D.chk_len; rw [if_neg hc0] at this; exact this
    rw [if_neg (by rw [List.length_append, hchk]; omega)]
    have htake : (chk ++ rest).take (checkSize check) = chk := by rw [← hchk]; exact List.take_left' rfl
    rw [htake]
    by_cases hcond : (!ign && E.checkSupported check) = true
    · have hi : ign = false := by cases ign <;> simp_all
      have hsup : E.checkSupported check = true := by cases hcs : E.checkSupported check <;> simp_all
      have := D.chk_ok hc0 hi hsup
      rw [if_neg (by simp [this]), hchk]
    · rw [if_neg (by simp only [Bool.and_eq_true, decide_eq_true_eq] at hcond ⊢; intro hh; exact hcond hh.1), hchk]

end XzVerif.XzDecode
