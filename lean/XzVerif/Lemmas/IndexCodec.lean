/-
  C13 helper lemmas: the Index field codec round-trips (decoder of index_decoder.c over the encoder of index_encoder.c,
  specification level): VLI monotonicity, every prefix of an acceptable Block list passes lzma_index_append's checks,
  the Record loop, padding and CRC32.
-/
import XzVerif.Lemmas.IndexSpecL

namespace XzVerif.Index

theorem vliEncode_length_mono : ∀ (b a : Nat), a ≤ b → (vliEncode a).length ≤ (vliEncode b).length := by
  intro b
  induction b using Nat.strongRecOn with
  | _ b ih =>
    intro a hab
    by_cases hb : b < 128
    · have ha : a < 128 := by omega
      simp [vliEncode_lt ha, vliEncode_lt hb]
    · by_cases ha : a < 128
      · rw [vliEncode_lt ha]; have := vliEncode_length_pos b; simp; omega
      · rw [vliEncode_ge ha, vliEncode_ge hb]
        have := ih (b / 128) (by omega) (a / 128) (Nat.div_le_div_right hab)
        simpa using this

theorem vliSize_mono {a b : Nat} (hab : a ≤ b) (hb : b ≤ VLI_MAX) : vliSize a ≤ vliSize b := by
  rw [vliSize_eq_length (by omega), vliSize_eq_length hb]; exact vliEncode_length_mono b a hab

theorem indexSize_mono {c1 c2 l1 l2 : Nat} (hc : c1 ≤ c2) (hc2 : c2 ≤ VLI_MAX) (hl : l1 ≤ l2) :
    indexSize c1 l1 ≤ indexSize c2 l2 := by
  unfold indexSize indexSizeUnpadded
  have := vliSize_mono hc hc2
  apply vliCeil4_mono; omega

/-- the hypotheses under which an Index field can be decoded back: the limits of a valid single Stream -/
structure BlocksOk (bs : List Block) : Prop where
  blocks : ∀ b ∈ bs, UNPADDED_SIZE_MIN ≤ b.unpadded ∧ b.unpadded ≤ UNPADDED_SIZE_MAX ∧ b.uncompressed ≤ VLI_MAX
  bsize : blocksSize bs ≤ UNPADDED_SIZE_MAX
  usize : uncompSize bs ≤ VLI_MAX
  fsize : 2 * STREAM_HEADER_SIZE + blocksSize bs + indexSize bs.length (listSize bs) ≤ VLI_MAX
  isize : indexSize bs.length (listSize bs) ≤ BACKWARD_SIZE_MAX

theorem blocksSize_ge_length : ∀ bs : List Block, (∀ b ∈ bs, UNPADDED_SIZE_MIN ≤ b.unpadded) → 8 * bs.length ≤ blocksSize bs
  | [], _ => by simp [blocksSize]
  | b :: r, h => by
    have ih := blocksSize_ge_length r (fun x hx => h x (List.mem_cons_of_mem _ hx))
    have hb := h b (by simp)
    simp only [blocksSize, List.map_cons, List.sum_cons, List.length_cons] at ih ⊢
    unfold vliCeil4 UNPADDED_SIZE_MIN at *; omega

theorem BlocksOk.length_le {bs : List Block} (h : BlocksOk bs) : bs.length ≤ VLI_MAX := by
  have := blocksSize_ge_length bs (fun b hb => (h.blocks b hb).1)
  have := h.bsize
  unfold UNPADDED_SIZE_MAX VLI_MAX at *; omega

def recBytes (b : Block) : List UInt8 := vliEncode b.unpadded ++ vliEncode b.uncompressed

theorem recBytes_length_sum : ∀ bs : List Block, (∀ b ∈ bs, b.unpadded ≤ VLI_MAX ∧ b.uncompressed ≤ VLI_MAX) →
    (bs.flatMap recBytes).length = listSize bs
  | [], _ => rfl
  | b :: r, h => by
    have ih := recBytes_length_sum r (fun x hx => h x (List.mem_cons_of_mem _ hx))
    obtain ⟨h1, h2⟩ := h b (by simp)
    simp only [List.flatMap_cons, List.length_append, ih, listSize, List.map_cons, List.sum_cons, recBytes]
    rw [vliSize_eq_length h1, vliSize_eq_length h2]

/-- every prefix of an acceptable Block list passes the checks of `lzma_index_append` -/
theorem appendCheck_prefix {bs done rest : List Block} {b : Block} (h : BlocksOk bs) (hsplit : bs = done ++ b :: rest) :
    Spec.appendCheck [⟨none, 0, done⟩] b.unpadded b.uncompressed = none := by
  have hb := h.blocks b (by rw [hsplit]; simp)
  have hlen := h.length_le
  have e : bs = (done ++ [b]) ++ rest := by rw [hsplit]; simp
  have hbs : blocksSize (done ++ [b]) ≤ blocksSize bs := by rw [e, blocksSize_append (done ++ [b])]; omega
  have hus : uncompSize (done ++ [b]) ≤ uncompSize bs := by rw [e, uncompSize_append (done ++ [b])]; omega
  have hls : listSize (done ++ [b]) ≤ listSize bs := by rw [e, listSize_append (done ++ [b])]; omega
  have hln : (done ++ [b]).length ≤ bs.length := by rw [e]; simp
  have e1 : blocksSize (done ++ [b]) = blocksSize done + vliCeil4 b.unpadded := by simp [blocksSize_append, blocksSize]
  have e2 : uncompSize (done ++ [b]) = uncompSize done + b.uncompressed := by simp [uncompSize_append, uncompSize]
  have e3 : listSize (done ++ [b]) = listSize done + (vliSize b.unpadded + vliSize b.uncompressed) := by
    simp [listSize_append, listSize]
  have hmod := blocksSize_mod done
  have hceil : vliCeil4 (blocksSize done + b.unpadded) = blocksSize done + vliCeil4 b.unpadded := by
    unfold vliCeil4; omega
  have hge := vliCeil4_ge b.unpadded
  have hidx := indexSize_mono (c1 := done.length + 1) (c2 := bs.length) (l1 := listSize done + (vliSize b.unpadded + vliSize b.uncompressed))
    (l2 := listSize bs) (by simpa using hln) hlen (by omega)
  unfold Spec.appendCheck
  rw [if_neg (by omega)]
  simp only [List.getLast?_singleton, List.dropLast_singleton]
  have u1 : Spec.uncompressedSize [⟨none, 0, done⟩] = uncompSize done := by simp [Spec.uncompressedSize, StreamRec.uncompressedSize]
  have u2 : Spec.rawFileSize ([] : Index) = 0 := rfl
  have u3 : Spec.blockCount [⟨none, 0, done⟩] = done.length := by simp [Spec.blockCount]
  have u4 : Spec.listSizeAll [⟨none, 0, done⟩] = listSize done := by simp [Spec.listSizeAll]
  rw [u1, u2, u3, u4]
  have hf := h.fsize
  have hi := h.isize
  have hu := h.usize
  have hbz := h.bsize
  rw [if_neg (by omega), if_neg (by omega)]
  have : ¬ indexFileSize 0 (blocksSize done + b.unpadded) (done.length + 1)
      (listSize done + (vliSize b.unpadded + vliSize b.uncompressed)) 0 = VLI_UNKNOWN := by
    rw [indexFileSize_eq_unknown_iff, hceil]; omega
  rw [if_neg this, if_neg (by omega)]

theorem matchBytes_self : ∀ (e r : List UInt8) (used : Nat), matchBytes e (e ++ r) used = .inr (r, used + e.length)
  | [], r, used => by simp [matchBytes]
  | x :: e, r, used => by
    simp only [List.cons_append, matchBytes, if_true, List.length_cons]
    rw [matchBytes_self e r (used + 1)]
    congr 2; omega

/-- the Record loop of the decoder reads back what the encoder wrote -/
theorem decodeRecords_encode {bs : List Block} (h : BlocksOk bs) :
    ∀ (todo done : List Block) (tail : List UInt8) (used : Nat), bs = done ++ todo →
      decodeRecords Spec.decOps todo.length [⟨none, 0, done⟩] (todo.flatMap recBytes ++ tail) used
        = .inr ([⟨none, 0, bs⟩], tail, used + (todo.flatMap recBytes).length)
  | [], done, tail, used, hs => by
    simp only [List.append_nil] at hs
    subst hs
    simp [decodeRecords]
  | b :: rest, done, tail, used, hs => by
    have hb := h.blocks b (by rw [hs]; simp)
    have hchk := appendCheck_prefix h hs
    have happ : Spec.decOps.append [⟨none, 0, done⟩] b.unpadded b.uncompressed = (.ok, [⟨none, 0, done ++ [b]⟩]) := by
      show Spec.append _ _ _ = _
      unfold Spec.append; rw [hchk]; rfl
    have hin : (b :: rest).flatMap recBytes ++ tail
        = vliEncode b.unpadded ++ (vliEncode b.uncompressed ++ (rest.flatMap recBytes ++ tail)) := by
      simp [recBytes, List.append_assoc]
    rw [hin]
    simp only [List.length_cons, decodeRecords]
    rw [vliDecode_encode (by have := hb.2.1; unfold UNPADDED_SIZE_MAX VLI_MAX at *; omega)]
    simp only
    rw [if_neg (by omega)]
    have hd1 : (vliEncode b.unpadded ++ (vliEncode b.uncompressed ++ (rest.flatMap recBytes ++ tail))).drop
        (used + (vliEncode b.unpadded).length - used) = vliEncode b.uncompressed ++ (rest.flatMap recBytes ++ tail) := by
      rw [Nat.add_sub_cancel_left, List.drop_left]
    rw [hd1, vliDecode_encode hb.2.2]
    simp only [happ]
    have hd2 : (vliEncode b.unpadded ++ (vliEncode b.uncompressed ++ (rest.flatMap recBytes ++ tail))).drop
        (used + (vliEncode b.unpadded).length + (vliEncode b.uncompressed).length - used) = rest.flatMap recBytes ++ tail := by
      have : used + (vliEncode b.unpadded).length + (vliEncode b.uncompressed).length - used
          = (vliEncode b.unpadded ++ vliEncode b.uncompressed).length := by simp; omega
      rw [this, ← List.append_assoc, List.drop_left]
    rw [hd2, decodeRecords_encode h rest (done ++ [b]) tail _ (by rw [hs]; simp)]
    congr 2
    simp [recBytes]; omega

theorem memusage_le (s b : Nat) : memusage s b ≤ U64 - 1 := by
  unfold memusage
  simp only
  split
  · exact Nat.le_refl _
  · next h =>
    unfold U64 SIZEOF_LZMA_INDEX SIZEOF_VOID_PTR SIZEOF_INDEX_STREAM SIZEOF_INDEX_GROUP SIZEOF_INDEX_RECORD
      INDEX_GROUP_SIZE UINT32_MAX VLI_MAX at *
    simp only [not_or, Nat.not_lt, Nat.not_gt_eq] at h
    obtain ⟨_, _, _, h4, _, h6⟩ := h
    have hs : s * (168 + 64 + 2 * (4 * 8)) ≤ 18446744073709551616 - 1 - (80 + 4 * 8) :=
      (Nat.le_div_iff_mul_le (by decide)).mp h4
    rw [Nat.mod_eq_of_lt (a := s * (168 + 64 + 2 * (4 * 8))) (by omega)] at h6 ⊢
    omega

theorem crc32Bytes_length (l : List UInt8) : (crc32Bytes l).length = 4 := rfl

theorem indexSize_eq_padded (n ls : Nat) :
    1 + vliSize n + ls + indexPadding n ls + 4 = indexSize n ls := by
  unfold indexPadding indexSize indexSizeUnpadded vliCeil4; omega

/-- decoding the encoded Index of an acceptable Block list gives the list back and consumes `lzma_index_size` bytes -/
theorem decode_encode_ml {bs : List Block} (h : BlocksOk bs) (ml : Nat) (hml : memusage 1 bs.length ≤ max 1 ml) :
    (Spec.decode ml (encodeBlocks bs)).ret = .streamEnd
    ∧ (Spec.decode ml (encodeBlocks bs)).index = some [⟨none, 0, bs⟩]
    ∧ (Spec.decode ml (encodeBlocks bs)).used = indexSize bs.length (listSize bs)
    ∧ (encodeBlocks bs).length = indexSize bs.length (listSize bs) := by
  have hlen := h.length_le
  have hR : (bs.flatMap recBytes).length = listSize bs :=
    recBytes_length_sum bs (fun b hb => by
      have := h.blocks b hb; unfold UNPADDED_SIZE_MAX VLI_MAX at *; exact ⟨by omega, this.2.2⟩)
  -- name the pieces of the encoder's output
  let V := vliEncode bs.length
  let R := bs.flatMap recBytes
  let P : List UInt8 := List.replicate (indexPadding bs.length (listSize bs)) 0
  let body : List UInt8 := [0] ++ V ++ R ++ P
  let C := crc32Bytes body
  have henc : encodeBlocks bs = 0 :: (V ++ (R ++ (P ++ C))) := by
    show ([0] ++ V ++ R ++ P) ++ C = _
    simp [List.append_assoc]
  have hV : V.length = vliSize bs.length := (vliSize_eq_length hlen).symm
  have hP : P.length = indexPadding bs.length (listSize bs) := by
    show (List.replicate _ _).length = _; simp
  have hbody : body.length = 1 + vliSize bs.length + listSize bs + indexPadding bs.length (listSize bs) := by
    show ([0] ++ V ++ R ++ P).length = _
    simp only [List.length_append, List.length_cons, List.length_nil, hV, hP]
    rw [show R.length = listSize bs from hR]
  have htake : (0 :: (V ++ (R ++ (P ++ C)))).take body.length = body := by
    have : (0 :: (V ++ (R ++ (P ++ C)))) = body ++ C := by
      show _ = ([0] ++ V ++ R ++ P) ++ C
      simp [List.append_assoc]
    rw [this, List.take_left]
  have hdec : Spec.decode ml (encodeBlocks bs)
      = ⟨.streamEnd, body.length + 4, some [⟨none, 0, bs⟩], 0⟩ := by
    rw [henc]
    unfold Spec.decode decodeG
    simp only
    have h0 : ¬ (0 : UInt8).toNat ≠ 0 := by decide
    rw [if_neg h0, vliDecode_encode hlen]
    simp only
    have hmem : ¬ memusage 1 bs.length > max 1 ml := by omega
    rw [if_neg hmem]
    have hdrop : (0 :: (V ++ (R ++ (P ++ C)))).drop (1 + (vliEncode bs.length).length) = R ++ (P ++ C) := by
      rw [Nat.add_comm, List.drop_succ_cons, List.drop_left]
    rw [hdrop]
    have hinit : Spec.decOps.prealloc Spec.decOps.init bs.length = [⟨none, 0, []⟩] := rfl
    rw [hinit, decodeRecords_encode h bs [] (P ++ C) _ (by simp)]
    simp only
    have hpad : indexPadding (Spec.decOps.recordCount [⟨none, 0, bs⟩]) (Spec.decOps.listSize [⟨none, 0, bs⟩])
        = indexPadding bs.length (listSize bs) := by
      simp [Spec.decOps, Spec.blockCount, Spec.listSizeAll]
    rw [hpad, matchBytes_self]
    simp only
    have hu2 : 1 + (vliEncode bs.length).length + (bs.flatMap recBytes).length
        + (List.replicate (indexPadding bs.length (listSize bs)) (0 : UInt8)).length = body.length := by
      show 1 + V.length + R.length + P.length = body.length
      rw [hbody, hV, hP, show R.length = listSize bs from hR]
    rw [hu2, htake]
    have hm := matchBytes_self C [] body.length
    rw [List.append_nil] at hm
    rw [show crc32Bytes body = C from rfl, hm]
    rfl
  rw [hdec]
  refine ⟨rfl, rfl, ?_, ?_⟩
  · show body.length + 4 = _
    rw [hbody]; exact indexSize_eq_padded _ _
  · rw [henc]
    have : (0 :: (V ++ (R ++ (P ++ C)))).length = body.length + 4 := by
      have : (0 :: (V ++ (R ++ (P ++ C)))) = body ++ C := by
        show _ = ([0] ++ V ++ R ++ P) ++ C
        simp [List.append_assoc]
      rw [this, List.length_append]; rfl
    rw [this, hbody]; exact indexSize_eq_padded _ _


theorem decode_encode {bs : List Block} (h : BlocksOk bs) :
    (Spec.decode (U64 - 1) (encodeBlocks bs)).ret = .streamEnd
    ∧ (Spec.decode (U64 - 1) (encodeBlocks bs)).index = some [⟨none, 0, bs⟩]
    ∧ (Spec.decode (U64 - 1) (encodeBlocks bs)).used = indexSize bs.length (listSize bs)
    ∧ (encodeBlocks bs).length = indexSize bs.length (listSize bs) :=
  decode_encode_ml h (U64 - 1) (by
    have := memusage_le 1 bs.length
    have : max 1 (U64 - 1) = U64 - 1 := by decide
    omega)

/-- a valid single-Stream index whose Index field fits into Backward Size is acceptable to the decoder -/
theorem blocksOk_of_valid {bs : List Block} (hv : Spec.Valid [⟨none, 0, bs⟩])
    (hb : indexSize bs.length (listSize bs) ≤ BACKWARD_SIZE_MAX) : BlocksOk bs := by
  refine ⟨fun b hbm => hv.blocks ⟨none, 0, bs⟩ (by simp) b hbm, hv.streamBlocks ⟨none, 0, bs⟩ (by simp), ?_, ?_, hb⟩
  · have := hv.uncompressed
    simpa [Spec.uncompressedSize, StreamRec.uncompressedSize] using this
  · have := hv.fileSize
    simpa [Spec.rawFileSize, StreamRec.span, StreamRec.compressedSize] using this

end XzVerif.Index
