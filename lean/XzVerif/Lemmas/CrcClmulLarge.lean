/-
  Structural proof for the CLMUL CRC model, part 2: the 16-byte and 64-byte folding loops, the partial last block,
  and the assembly of the size class `≥ 16`; `acc_all` covers every non-empty buffer.
-/
import XzVerif.Lemmas.CrcClmulSmall
namespace XzVerif.Clmul
open XzVerif.Crc

attribute [local irreducible] stepN fold

theorem load128_eq (rest : List UInt8) (pos : Nat) : load128 rest pos = BitVec.ofNat 128 (leN ((rest.drop pos).take 16)) := by
  rw [load128, leNat_eq]

/-- sixteen message bytes in the 128-bit register: xor them in, 128 shift steps. -/
theorem R16 (P' : V) (D : List UInt8) (hD : D.length = 16) (x : V) :
    refRaw P' D x = stepN P' 128 (x ^^^ BitVec.ofNat 128 (leN D)) := by
  rw [refRaw_le P' D x (by omega), hD]

theorem stepN_128_128 (P' : V) (v : V) : stepN P' 128 (stepN P' 128 v) = stepN P' 256 v := by
  rw [← stepN_add]

/-- `while (size >= 16) v0 = fold_xor(v0, fold128, buf)`: consumes whole 16-byte groups. -/
theorem loop16_spec {p : Params} {P' : V} {low : V → BitVec 64} (W : World p P' low) (fuel : Nat) :
    ∀ (v : V) (rest : List UInt8), rest.length ≤ fuel →
      (loop16 p fuel v rest).2.length < 16 ∧
      ∃ consumed, rest = consumed ++ (loop16 p fuel v rest).2 ∧
        stepN P' 128 (loop16 p fuel v rest).1 = refRaw P' consumed (stepN P' 128 v) := by
  induction fuel with
  | zero =>
    intro v rest h
    have : rest = [] := List.eq_nil_of_length_eq_zero (by omega)
    subst this
    exact ⟨by simp [loop16], [], by simp [loop16], by simp [loop16, refRaw]⟩
  | succ fuel ih =>
    intro v rest h
    unfold loop16
    by_cases h16 : rest.length ≥ 16
    · rw [if_pos h16]
      obtain ⟨hlen, consumed, hsplit, hval⟩ := ih (foldXor v p.fold128 rest 0) (rest.drop 16) (by rw [List.length_drop]; omega)
      refine ⟨hlen, rest.take 16 ++ consumed, ?_, ?_⟩
      · rw [List.append_assoc, ← hsplit, List.take_append_drop]
      · rw [hval, refRaw_append]
        congr 1
        rw [R16 P' _ (by rw [List.length_take]; omega), foldXor, stepN_xor, stepN_xor, W.f128, stepN_128_128,
          load128_eq, List.drop_zero, BitVec.xor_comm]
    · rw [if_neg h16]
      exact ⟨by simpa using h16, [], by simp, by simp [refRaw]⟩

/-- The four accumulators read as 64 pending bytes. -/
def Q (P' : V) (v0 v1 v2 v3 : V) : V :=
  stepN P' 128 (stepN P' 128 (stepN P' 128 (stepN P' 128 v0 ^^^ v1) ^^^ v2) ^^^ v3)

theorem R64 (P' : V) (rest : List UInt8) (h : rest.length ≥ 64) (x : V) :
    refRaw P' (rest.take 64) x =
      stepN P' 128 (stepN P' 128 (stepN P' 128 (stepN P' 128 (x ^^^ load128 rest 0) ^^^ load128 rest 16) ^^^ load128 rest 32)
        ^^^ load128 rest 48) := by
  have e : rest.take 64 = (rest.take 16 ++ (rest.drop 16).take 16) ++ ((rest.drop 32).take 16 ++ (rest.drop 48).take 16) := by
    have a1 : rest.take 64 = rest.take 32 ++ (rest.drop 32).take 32 := by
      rw [← List.take_add]
    have a2 : rest.take 32 = rest.take 16 ++ (rest.drop 16).take 16 := by rw [← List.take_add]
    have a3 : (rest.drop 32).take 32 = (rest.drop 32).take 16 ++ ((rest.drop 32).drop 16).take 16 := by rw [← List.take_add]
    rw [a1, a2, a3, List.drop_drop]
  rw [e, refRaw_append, refRaw_append, refRaw_append,
    R16 P' (rest.take 16) (by rw [List.length_take]; omega),
    R16 P' ((rest.drop 16).take 16) (by rw [List.length_take, List.length_drop]; omega),
    R16 P' ((rest.drop 32).take 16) (by rw [List.length_take, List.length_drop]; omega),
    R16 P' ((rest.drop 48).take 16) (by rw [List.length_take, List.length_drop]; omega)]
  simp only [load128_eq, List.drop_zero]

theorem f512' {p : Params} {P' : V} {low : V → BitVec 64} (W : World p P' low) (v : V) :
    stepN P' 128 (fold v p.fold512) = stepN P' 128 (stepN P' 128 (stepN P' 128 (stepN P' 128 (stepN P' 128 v)))) := by
  rw [W.f512]; simp only [← stepN_add]

/-- `while (size >= 64) { … }`: consumes whole 64-byte groups. -/
theorem loop64_spec {p : Params} {P' : V} {low : V → BitVec 64} (W : World p P' low) (fuel : Nat) :
    ∀ (v0 v1 v2 v3 : V) (rest : List UInt8), rest.length ≤ fuel →
      (loop64 p fuel (v0, v1, v2, v3) rest).2.length < 64 ∧
      ∃ consumed, rest = consumed ++ (loop64 p fuel (v0, v1, v2, v3) rest).2 ∧
        Q P' (loop64 p fuel (v0, v1, v2, v3) rest).1.1 (loop64 p fuel (v0, v1, v2, v3) rest).1.2.1
            (loop64 p fuel (v0, v1, v2, v3) rest).1.2.2.1 (loop64 p fuel (v0, v1, v2, v3) rest).1.2.2.2
          = refRaw P' consumed (Q P' v0 v1 v2 v3) := by
  induction fuel with
  | zero =>
    intro v0 v1 v2 v3 rest h
    have : rest = [] := List.eq_nil_of_length_eq_zero (by omega)
    subst this
    exact ⟨by simp [loop64], [], by simp [loop64], by simp [loop64, refRaw]⟩
  | succ fuel ih =>
    intro v0 v1 v2 v3 rest h
    unfold loop64
    by_cases h64 : rest.length ≥ 64
    · rw [if_pos h64]
      obtain ⟨hlen, consumed, hsplit, hval⟩ := ih (foldXor v0 p.fold512 rest 0) (foldXor v1 p.fold512 rest 16)
        (foldXor v2 p.fold512 rest 32) (foldXor v3 p.fold512 rest 48) (rest.drop 64) (by rw [List.length_drop]; omega)
      refine ⟨hlen, rest.take 64 ++ consumed, ?_, ?_⟩
      · rw [List.append_assoc, ← hsplit, List.take_append_drop]
      · rw [hval, refRaw_append]
        congr 1
        rw [R64 P' rest h64]
        exact lane4 (stepN P' 128) (fun v => fold v p.fold512) (lin_stepN P' 128) (f512' W) v0 v1 v2 v3 _ _ _ _
    · rw [if_neg h64]
      exact ⟨by simpa using h64, [], by simp, by simp [refRaw]⟩


theorem ofNat128_shr (n k : Nat) (hn : n < 2 ^ 128) : BitVec.ofNat 128 n >>> k = BitVec.ofNat 128 (n / 2 ^ k) := by
  apply BitVec.eq_of_toNat_eq
  rw [BitVec.toNat_ushiftRight, BitVec.toNat_ofNat, BitVec.toNat_ofNat, Nat.mod_eq_of_lt hn, Nat.shiftRight_eq_div_pow,
    Nat.mod_eq_of_lt (Nat.lt_of_le_of_lt (Nat.div_le_self _ _) hn)]

/-- left shift only sees the low bits that survive -/
theorem shl_low {w : Nat} (x : BitVec w) (k m : Nat) (h : m + k = w) :
    x <<< k = BitVec.ofNat w (x.toNat % 2 ^ m) <<< k := by
  apply BitVec.eq_of_getLsbD_eq
  intro i hi
  simp only [BitVec.getLsbD_shiftLeft, BitVec.getLsbD_ofNat, Nat.testBit_mod_two_pow, BitVec.testBit_toNat]
  by_cases hik : i < k
  · simp [hik]
  · have h1 : i - k < m := by omega
    have h2 : i - k < w := by omega
    simp [hik, hi, h1, h2]

theorem toNat_shr_lt {w : Nat} (x : BitVec w) (k : Nat) (hk : k ≤ w) : (x >>> k).toNat < 2 ^ (w - k) := by
  rw [BitVec.toNat_ushiftRight, Nat.shiftRight_eq_div_pow]
  apply Nat.div_lt_of_lt_mul
  rw [← Nat.pow_add]
  have : k + (w - k) = w := by omega
  rw [this]; exact x.isLt

/-- The partial last block (`size` = 1…15 bytes left after the 16-byte loop). -/
theorem tail_spec {p : Params} {P' : V} {low : V → BitVec 64} (W : World p P' low) (bs consumed rest : List UInt8)
    (hbs : bs = consumed ++ rest) (hc : 16 ≤ consumed.length) (h0 : 0 < rest.length) (h16 : rest.length < 16) (v0 : V) :
    stepN P' 128 ((keepHigh p (load128 bs (bs.length - 16)) rest.length ||| shiftRight p v0 rest.length)
        ^^^ fold (shiftLeft p v0 (16 - rest.length)) p.fold128)
      = refRaw P' rest (stepN P' 128 v0) := by
  -- the last 16 bytes = 16 - sz bytes already consumed, then the sz new bytes
  have hlen : bs.length = consumed.length + rest.length := by rw [hbs, List.length_append]
  have hlast : (bs.drop (bs.length - 16)).take 16 = consumed.drop (consumed.length - (16 - rest.length)) ++ rest := by
    rw [List.take_of_length_le (by rw [List.length_drop]; omega), hlen, hbs,
      List.drop_append_of_le_length (by omega)]
    congr 2
    omega
  have hprev : (consumed.drop (consumed.length - (16 - rest.length))).length = 16 - rest.length := by
    rw [List.length_drop]; omega
  have hk : 8 * (16 - rest.length) + 8 * rest.length = 128 := by omega
  have hDt : leN rest < 2 ^ (8 * rest.length) := leN_lt rest
  -- keep_high_bytes of the load = the new bytes in the top positions
  have hkeep : keepHigh p (load128 bs (bs.length - 16)) rest.length
      = BitVec.ofNat 128 (leN rest) <<< (8 * (16 - rest.length)) := by
    rw [keepHigh_eq p W.vm _ _ (by omega), load128_eq, hlast, leN_append, hprev,
      ofNat128_shr _ _ (by
        have := leN_lt (consumed.drop (consumed.length - (16 - rest.length)) ++ rest)
        rw [leN_append, hprev, List.length_append, hprev] at this
        have e : 8 * (16 - rest.length + rest.length) = 128 := by omega
        rw [e] at this; exact this),
      Nat.add_mul_div_left _ _ (Nat.two_pow_pos _),
      Nat.div_eq_of_lt (by have := leN_lt (consumed.drop (consumed.length - (16 - rest.length))); rw [hprev] at this; exact this),
      Nat.zero_add]
  rw [hkeep, shiftRight_eq p W.vm _ _ (by omega), shiftLeft_eq p W.vm _ _ (by omega),
    BitVec.or_comm, or_shl_eq_xor _ _ _ (by
      have := toNat_shr_lt v0 (8 * rest.length) (by omega)
      have e : 128 - 8 * rest.length = 8 * (16 - rest.length) := by omega
      rw [e] at this; exact this)]
  -- split v0 into the low 8·sz bits `a` and the rest `b`
  rw [shl_low v0 (8 * (16 - rest.length)) (8 * rest.length) (by omega)]
  have ha : (BitVec.ofNat 128 (v0.toNat % 2 ^ (8 * rest.length))).toNat < 2 ^ (128 - 8 * (16 - rest.length)) := by
    rw [BitVec.toNat_ofNat]
    have e : 128 - 8 * (16 - rest.length) = 8 * rest.length := by omega
    rw [e]
    exact Nat.lt_of_le_of_lt (Nat.mod_le _ _) (Nat.mod_lt _ (Nat.two_pow_pos _))
  have hb : (v0 >>> (8 * rest.length)).toNat < 2 ^ (128 - 8 * rest.length) := toNat_shr_lt v0 _ (by omega)
  have hd : (BitVec.ofNat 128 (leN rest)).toNat < 2 ^ (128 - 8 * (16 - rest.length)) := by
    rw [BitVec.toNat_ofNat]
    have e : 128 - 8 * (16 - rest.length) = 8 * rest.length := by omega
    rw [e]
    exact Nat.lt_of_le_of_lt (Nat.mod_le _ _) hDt
  rw [stepN_xor, stepN_xor, W.f128, refRaw_le P' rest _ (by omega), stepN_xor]
  have e1 : (128 : Nat) = 8 * (16 - rest.length) + 8 * rest.length := by omega
  have e2 : (256 : Nat) = 8 * (16 - rest.length) + (8 * rest.length + 128) := by omega
  rw [stepN_congr P' (BitVec.ofNat 128 (leN rest) <<< _) e1, stepN_shl P' _ _ _ hd (by omega),
    stepN_congr P' (BitVec.ofNat 128 (v0.toNat % 2 ^ (8 * rest.length)) <<< _) e2, stepN_shl P' _ _ _ ha (by omega)]
  -- right-hand side: split v0 the same way
  have hv0 : stepN P' (8 * rest.length) (stepN P' 128 v0)
      = stepN P' (8 * rest.length + 128) (BitVec.ofNat 128 (v0.toNat % 2 ^ (8 * rest.length)))
        ^^^ stepN P' 128 (v0 >>> (8 * rest.length)) := by
    rw [← stepN_add, Nat.add_comm 128]
    conv => lhs; rw [split_low v0 (8 * rest.length)]
    rw [stepN_xor, stepN_shl P' _ _ _ hb (by omega)]
  rw [hv0]
  generalize stepN P' (8 * rest.length) (BitVec.ofNat 128 (leN rest)) = A
  generalize stepN P' 128 (v0 >>> (8 * rest.length)) = B
  generalize stepN P' (8 * rest.length + 128) _ = C
  ac_rfl


/-! ### the size class `≥ 16` -/

/-- first 16 bytes, then (if at least 48 more) the four-lane loop and the lane combination -/
def phase1 (p : Params) (bs : List UInt8) (c : BitVec 64) : V × List UInt8 :=
  if (bs.drop 16).length ≥ 48 then
    let r := loop64 p ((bs.drop 16).drop 48).length
      (c.setWidth 128 ^^^ load128 bs 0, load128 (bs.drop 16) 0, load128 (bs.drop 16) 16, load128 (bs.drop 16) 32) ((bs.drop 16).drop 48)
    (r.1.2.2.2 ^^^ fold (r.1.2.2.1 ^^^ fold (r.1.2.1 ^^^ fold r.1.1 p.fold128) p.fold128) p.fold128, r.2)
  else (c.setWidth 128 ^^^ load128 bs 0, bs.drop 16)

def accLarge (p : Params) (bs : List UInt8) (c : BitVec 64) : V :=
  let s1 := phase1 p bs c
  let s2 := loop16 p s1.2.length s1.1 s1.2
  reduce128 p
    (if s2.2.length > 0 then
      (keepHigh p (load128 bs (bs.length - 16)) s2.2.length ||| shiftRight p s2.1 s2.2.length)
        ^^^ fold (shiftLeft p s2.1 (16 - s2.2.length)) p.fold128
     else s2.1)

theorem accumulate_large (p : Params) (bs : List UInt8) (c : BitVec 64) (h : 16 ≤ bs.length) :
    accumulate p bs c = accLarge p bs c := by
  have h8 : ¬ bs.length < 8 := by omega
  have h16 : ¬ bs.length < 16 := by omega
  unfold accumulate accLarge phase1
  simp only [h8, h16, if_false]


theorem R48 (P' : V) (rest : List UInt8) (h : rest.length ≥ 48) (x : V) :
    refRaw P' (rest.take 48) x =
      stepN P' 128 (stepN P' 128 (stepN P' 128 (x ^^^ load128 rest 0) ^^^ load128 rest 16) ^^^ load128 rest 32) := by
  have e : rest.take 48 = rest.take 16 ++ ((rest.drop 16).take 16 ++ (rest.drop 32).take 16) := by
    have a1 : rest.take 48 = rest.take 16 ++ (rest.drop 16).take 32 := by rw [← List.take_add]
    have a2 : (rest.drop 16).take 32 = (rest.drop 16).take 16 ++ ((rest.drop 16).drop 16).take 16 := by rw [← List.take_add]
    rw [a1, a2, List.drop_drop]
  rw [e, refRaw_append, refRaw_append,
    R16 P' (rest.take 16) (by rw [List.length_take]; omega),
    R16 P' ((rest.drop 16).take 16) (by rw [List.length_take, List.length_drop]; omega),
    R16 P' ((rest.drop 32).take 16) (by rw [List.length_take, List.length_drop]; omega)]
  simp only [load128_eq, List.drop_zero]

theorem phase1_spec {p : Params} {P' : V} {low : V → BitVec 64} (W : World p P' low) (bs : List UInt8) (c : BitVec 64)
    (h : 16 ≤ bs.length) :
    ∃ consumed, bs = consumed ++ (phase1 p bs c).2 ∧ 16 ≤ consumed.length ∧
      stepN P' 128 (phase1 p bs c).1 = refRaw P' consumed (c.setWidth 128) := by
  have hinit : stepN P' 128 (c.setWidth 128 ^^^ load128 bs 0) = refRaw P' (bs.take 16) (c.setWidth 128) := by
    rw [R16 P' _ (by rw [List.length_take]; omega), load128_eq, List.drop_zero]
  unfold phase1
  by_cases h48 : (bs.drop 16).length ≥ 48
  · rw [if_pos h48]
    simp only []
    obtain ⟨_, consumed2, hsplit, hval⟩ := loop64_spec W ((bs.drop 16).drop 48).length
      (c.setWidth 128 ^^^ load128 bs 0) (load128 (bs.drop 16) 0) (load128 (bs.drop 16) 16) (load128 (bs.drop 16) 32)
      ((bs.drop 16).drop 48) (Nat.le_refl _)
    refine ⟨bs.take 16 ++ ((bs.drop 16).take 48 ++ consumed2), ?_, ?_, ?_⟩
    · rw [List.append_assoc, List.append_assoc, ← hsplit, List.take_append_drop, List.take_append_drop]
    · rw [List.length_append, List.length_take]; omega
    · rw [combine4 (stepN P' 128) (fun v => fold v p.fold128) (lin_stepN P' 128)
        (fun v => by rw [W.f128, stepN_128_128])]
      have hq := hval
      unfold Q at hq
      rw [hq, refRaw_append, refRaw_append, ← hinit, R48 P' _ h48]
  · rw [if_neg h48]
    exact ⟨bs.take 16, (List.take_append_drop 16 bs).symm, by rw [List.length_take]; omega, hinit⟩

/-- size class `≥ 16` -/
theorem acc_large {p : Params} {P' : V} {low : V → BitVec 64} (W : World p P' low) (bs : List UInt8) (c : BitVec 64)
    (h : 16 ≤ bs.length) : barrett p (accumulate p bs c) = low (refRaw P' bs (c.setWidth 128)) := by
  rw [accumulate_large p bs c h]
  unfold accLarge
  simp only []
  obtain ⟨consumed, hsplit, hclen, hval⟩ := phase1_spec W bs c h
  generalize phase1 p bs c = s1 at hsplit hval ⊢
  obtain ⟨hlt, consumed3, hsplit3, hval3⟩ := loop16_spec W s1.2.length s1.1 s1.2 (Nat.le_refl _)
  generalize loop16 p s1.2.length s1.1 s1.2 = s2 at hlt hsplit3 hval3 ⊢
  have hbs : bs = (consumed ++ consumed3) ++ s2.2 := by rw [List.append_assoc, ← hsplit3]; exact hsplit
  have hreg : stepN P' 128 s2.1 = refRaw P' (consumed ++ consumed3) (c.setWidth 128) := by
    rw [hval3, hval, refRaw_append]
  rw [W.fin]
  congr 1
  by_cases hpos : s2.2.length > 0
  · rw [if_pos hpos, tail_spec W bs (consumed ++ consumed3) s2.2 hbs (by rw [List.length_append]; omega) hpos hlt, hreg,
      ← refRaw_append, ← hbs]
  · rw [if_neg hpos]
    have : s2.2 = [] := List.eq_nil_of_length_eq_zero (by omega)
    rw [this, List.append_nil] at hbs
    rw [hreg, ← hbs]

/-- **All size classes**: for a non-empty buffer the CLMUL computation yields (the truncation of) the reference CRC
    register in the scaled 128-bit register. -/
theorem acc_all {p : Params} {P' : V} {low : V → BitVec 64} (W : World p P' low) (bs : List UInt8) (c : BitVec 64)
    (h : 0 < bs.length) : barrett p (accumulate p bs c) = low (refRaw P' bs (c.setWidth 128)) := by
  by_cases h8 : bs.length < 8
  · exact acc_small W bs c h h8
  · by_cases h16 : bs.length < 16
    · exact acc_mid W bs c (by omega) h16
    · exact acc_large W bs c (by omega)

end XzVerif.Clmul
