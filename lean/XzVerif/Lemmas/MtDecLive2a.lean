/-
  LiveInv: preservation by the simple main-thread transitions (those that write neither worker fields nor the queue).
-/
import XzVerif.Lemmas.MtDecLive

namespace XzVerif.MtDec

/-- Frame: queue, workers and coder->thr unchanged. -/
theorem LiveInv.frameThr {s s' : State} (h : LiveInv s) (eq : s'.queue = s.queue) (ew : s'.workers = s.workers)
    (hfull : ∀ i, i < s.workers.length → (getW s i).hasOut = true → s'.thr ≠ some i → (getW s i).inFilled = (getW s i).inSize)
    (hp4 : ∀ i, (s.pc = .init4 ∧ s.thr = some i) → (s'.pc = .init4 ∧ s'.thr = some i)) (hp45 : (s.pc = .init4 ∨ s.pc = .init5) → (s'.pc = .init4 ∨ s'.pc = .init5))
    (h10 : s'.seq = .thrInit → (s'.pc = .init3 ∨ s'.pc = .init4 ∨ s'.pc = .init5) ∨ s'.thr = none)
    (h11 : s'.seq = .thrInit → (blk s' s'.cur).kind = .thr ∨ s'.pc = .init4 ∨ s'.pc = .init5)
    (h12 : s'.seq = .blockInit → (blk s' s'.cur).kind = .thr ∨ (blk s' s'.cur).kind = .direct)
    (h13 : s'.seq = .thrRun → ∃ t, s'.thr = some t)
    (h13a : s'.pc = .init5 → ∃ t, s'.thr = some t)
    (h14 : (s'.pc = .init1 ∨ s'.pc = .init2 ∨ s'.pc = .rowOk .canStart true ∨ s'.pc = .rowDone .canStart OK true) →
      s'.workers.length < s'.cfg.threadsMax ∨ s'.threadsFree ≠ []) : LiveInv s' := by
  have eg : ∀ j, getW s' j = getW s j := fun j => by simp [getW, ew]
  have eo : ∀ o i, Owner s' o i ↔ Owner s o i := fun o i => by simp [Owner, ew, eg]
  refine ⟨?_, ?_, ?_, ?_, ?_, ?_, ?_, ?_, ?_, h10, h11, h12, h13, h13a, h14⟩
  · intro o ho hf
    obtain ⟨i, hi⟩ := h.own o (eq ▸ ho) hf
    exact ⟨i, (eo o i).mpr hi⟩
  · intro i hi ho hl
    rw [ew] at hi; rw [eg] at ho hl ⊢
    rcases h.run i hi ho hl with e | e
    · exact Or.inl e
    · exact Or.inr (hp4 i e)
  · intro o ho w hw hf
    exact (eo o w).mpr (h.wrk o (eq ▸ ho) w hw hf)
  · intro hh t hq; rw [eq] at hq; exact h.tailW hh t hq
  · intro hh t hq hf
    rw [eq] at hq
    rcases h.head hh t hq hf with ⟨a, b⟩ | ⟨a, b, c⟩
    · exact Or.inl ⟨a, fun i hi => by rw [eg]; exact b i ((eo hh i).mp hi)⟩
    · exact Or.inr ⟨a, hp45 b, c⟩
  · intro i hi ho hl hpu o hoq hb
    rw [ew] at hi; rw [eg] at ho hl hpu hb ⊢
    exact h.pub i hi ho hl hpu o (eq ▸ hoq) hb
  · intro i hi lim hpc
    rw [ew] at hi; rw [eg] at hpc ⊢
    exact h.snap i hi lim hpc
  · intro i hi ho ht
    rw [ew] at hi; rw [eg] at ho ⊢
    exact hfull i hi ho ht
  · intro i hi ho hb
    rw [ew] at hi; rw [eg] at ho hb ⊢
    exact h.pos i hi ho hb

theorem LiveInv.frame {s s' : State} (h : LiveInv s) (eq : s'.queue = s.queue) (ew : s'.workers = s.workers)
    (et : s'.thr = s.thr)
    (hp4 : ∀ i, (s.pc = .init4 ∧ s.thr = some i) → (s'.pc = .init4 ∧ s'.thr = some i)) (hp45 : (s.pc = .init4 ∨ s.pc = .init5) → (s'.pc = .init4 ∨ s'.pc = .init5))
    (h10 : s'.seq = .thrInit → (s'.pc = .init3 ∨ s'.pc = .init4 ∨ s'.pc = .init5) ∨ s'.thr = none)
    (h11 : s'.seq = .thrInit → (blk s' s'.cur).kind = .thr ∨ s'.pc = .init4 ∨ s'.pc = .init5)
    (h12 : s'.seq = .blockInit → (blk s' s'.cur).kind = .thr ∨ (blk s' s'.cur).kind = .direct)
    (h13 : s'.seq = .thrRun → ∃ t, s'.thr = some t)
    (h13a : s'.pc = .init5 → ∃ t, s'.thr = some t)
    (h14 : (s'.pc = .init1 ∨ s'.pc = .init2 ∨ s'.pc = .rowOk .canStart true ∨ s'.pc = .rowDone .canStart OK true) →
      s'.workers.length < s'.cfg.threadsMax ∨ s'.threadsFree ≠ []) : LiveInv s' :=
  h.frameThr eq ew (fun i hi ho ht => h.full i hi ho (et ▸ ht)) hp4 hp45 h10 h11 h12 h13 h13a h14

-- The main-thread labels whose effect on the liveness invariant is a pure frame argument, in four groups (A1, A2 here; B1, B2
-- in MtDecLive2.lean) to keep each proof within the default heartbeat budget.

def Label.liveSimpleA1 : Label → Bool
  | .call .. | .ret | .endCall | .hdrNeed | .hdrFatal => true
  | _ => false

theorem LiveInv.mainSimpleA1 {s s' : State} {l : Label} (h : LiveInv s) (hI : Inv s)
    (hsimple : l.liveSimpleA1 = true) (hs : step s l = some s') : LiveInv s' := by
  have l10 := h.thr0
  have l11 := h.kindThr
  have l12 := h.kindInit
  have l13 := h.thrSome
  have l14 := h.canGet
  have l13a := h.thr5
  obtain ⟨c1, c2, c3, c4, c5, c6, c6a, c6b, c7, c8, c9, c10⟩ := hI.2
  cases l <;> simp only [Label.liveSimpleA1, reduceCtorEq] at hsimple <;> simp only [step] at hs
  all_goals (repeat' split at hs)
  all_goals first | (cases hs; done) | skip
  all_goals (cases hs)
  all_goals (refine h.frame rfl rfl rfl ?_ ?_ ?_ ?_ ?_ ?_ ?_ ?_ <;> first
    | (intros; simp_all [rowKOf, seqOfRowK, blk]; done)
    | (intro hx; simp_all [rowKOf, seqOfRowK, blk]; done))

def Label.liveSimpleA2 : Label → Bool
  | .needInput | .ffStop | .thrInitEnter | .directInit | .rowTimeout => true
  | _ => false

theorem LiveInv.mainSimpleA2 {s s' : State} {l : Label} (h : LiveInv s) (hI : Inv s)
    (hsimple : l.liveSimpleA2 = true) (hs : step s l = some s') : LiveInv s' := by
  have l10 := h.thr0
  have l11 := h.kindThr
  have l12 := h.kindInit
  have l13 := h.thrSome
  have l14 := h.canGet
  have l13a := h.thr5
  obtain ⟨c1, c2, c3, c4, c5, c6, c6a, c6b, c7, c8, c9, c10⟩ := hI.2
  cases l <;> simp only [Label.liveSimpleA2, reduceCtorEq] at hsimple <;> simp only [step] at hs
  all_goals (repeat' split at hs)
  all_goals first | (cases hs; done) | skip
  all_goals (cases hs)
  all_goals (refine h.frame rfl rfl rfl ?_ ?_ ?_ ?_ ?_ ?_ ?_ ?_ <;> first
    | (intros; simp_all [rowKOf, seqOfRowK, blk]; done)
    | (intro hx; simp_all [rowKOf, seqOfRowK, blk]; done))

end XzVerif.MtDec
