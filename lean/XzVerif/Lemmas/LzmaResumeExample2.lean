/-
  The known finding C06:lzma2-chunk-overrun reproduced in the resumable model (kernel-evaluated): for a chunk whose LZMA data needs more
  bytes than its compressed size says, the status is LZMA_DATA_ERROR under every slicing, but how far the decoder got (consumed
  input, garbage output) depends on the slicing — which is why the slicing theorems compare states only up to `Eqv`
  (equal, or both flagged `overrun`) and give equal output / consumed count only when the overrun error was not raised.
-/
import XzVerif.Lemmas.LzmaResumeExample

namespace XzVerif.LzmaR
open XzVerif XzVerif.Lzma XzVerif.Lzma2

/-- `exStream` with the chunk's uncompressed size raised from 10 to 12 (third byte 9 → 11), followed by bytes to run into -/
def exOverrun : List UInt8 := [224, 0, 11, 0, 6, 0, 0, 48, 236, 32, 0, 0, 0, 0, 1, 2, 3, 4, 5, 6, 7, 8]

def showRun' (x : SRun) : Ret × List UInt8 × Nat × Bool := (x.ret, x.r.output, x.r.s.inPos, x.r.overrun)

/-- whole buffer: the error is reported after 15 bytes, 12 bytes written -/
theorem ex_overrun_whole : showRun' (runSlicedR .lzma2 exOverrun [(22, 100)] { r := initLzma2R 4096 [] })
    = (.dataError, exPlain ++ [0, 0], 15, true) := by decide +kernel

/-- one byte in, one byte of room per call: after 14 bytes, 11 bytes written -/
theorem ex_overrun_bytewise : showRun' (runSlicedR .lzma2 exOverrun (List.replicate 16 (1, 1)) { r := initLzma2R 4096 [] })
    = (.dataError, exPlain ++ [0], 14, true) := by decide +kernel

/-- whole input, one byte of room per call: after 14 bytes, 10 bytes written -/
theorem ex_overrun_out1 : showRun' (runSlicedR .lzma2 exOverrun ((22, 1) :: List.replicate 10 (0, 1)) { r := initLzma2R 4096 [] })
    = (.dataError, exPlain, 14, true) := by decide +kernel

end XzVerif.LzmaR
