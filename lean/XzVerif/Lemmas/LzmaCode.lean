/-
  Helper definitions and lemmas for the C11 theorems about Model/LzmaCode.lean (core Lean only).
-/
import XzVerif.Model.LzmaCode

set_option linter.unusedSimpArgs false

namespace XzVerif.LzmaCode

/-- The `sequence` value that belongs to an action (ISEQ_x has the same number as LZMA_x). -/
def seqOfAction : Nat → Seq
  | 0 => .run | 1 => .syncFlush | 2 => .fullFlush | 3 => .finish | 4 => .fullBarrier | _ => .run

/-- The two checks in front of the sequence switch: `some r` = `lzma_code` returns `r` right away. -/
def gate (strm : Stream) (action : Nat) : Option Nat :=
  if sanityFail strm action then some LZMA_PROG_ERROR
  else if strm.reserved.bad then some LZMA_OPTIONS_ERROR
  else none

/-- The arguments the inner coder gets when it is reached. -/
def argsOf (strm : Stream) (action : Nat) : InnerArgs :=
  ⟨strm.nextIn, strm.availIn, strm.nextOut, strm.availOut, action⟩

/-- "LZMA_OK without consuming or producing anything". -/
def Resp.idle (r : Resp) : Bool := r.ret == LZMA_OK && r.consumed == 0 && r.produced == 0

/-- The inner return values after which coding may continue (everything else is fatal). -/
def nonFatal (ret : Nat) : Bool :=
  ret == LZMA_OK || ret == LZMA_STREAM_END || ret == LZMA_NO_CHECK || ret == LZMA_UNSUPPORTED_CHECK
  || ret == LZMA_GET_CHECK || ret == LZMA_MEMLIMIT_ERROR || ret == LZMA_TIMED_OUT || ret == LZMA_SEEK_NEEDED

theorem reserved_bad_iff (r : Reserved) : r.bad = true ↔ r ≠ {} := by
  cases r with
  | mk a b c d e f g h k =>
    simp [Reserved.bad, Reserved.mk.injEq]
    omega

theorem reserved_bad_false_iff (r : Reserved) : r.bad = false ↔ r = {} := by
  have := reserved_bad_iff r
  constructor
  · intro h; by_cases h' : r = {}
    · exact h'
    · exact absurd (this.mpr h') (by simp [h])
  · intro h; cases hb : r.bad
    · rfl
    · exact absurd h (this.mp hb)

theorem sanity_ok {strm : Stream} {action : Nat} (h : sanityFail strm action = false) :
    ∃ i, strm.internal = some i ∧ i.hasCode = true ∧ action ≤ 4 ∧ i.supported.testBit action = true
      ∧ (strm.nextIn = none → strm.availIn = 0) ∧ (strm.nextOut = none → strm.availOut = 0) := by
  unfold sanityFail at h
  cases hi : strm.internal with
  | none => simp [hi] at h
  | some i =>
    simp [hi, actionRejected] at h
    refine ⟨i, rfl, h.2.1, by have := h.2.2.1; simp [LZMA_ACTION_MAX, LZMA_FULL_BARRIER] at this; omega, h.2.2.2, ?_, ?_⟩
    · intro hn; have := h.1.1; simp [hn] at this; exact this
    · intro hn; have := h.1.2; simp [hn] at this; exact this

/-- What the sequence switch lets through is always the state that belongs to the action. -/
theorem seqSwitch_ok {i : Internal} {action availIn : Nat} {sq : Seq} (ha : action ≤ 4)
    (h : seqSwitch i action availIn = .ok sq) :
    sq = seqOfAction action ∧
      ((i.sequence = .run) ∨ (i.sequence = sq ∧ sq.lockedAction = some action ∧ i.availIn = availIn)) := by
  have hcases : action = 0 ∨ action = 1 ∨ action = 2 ∨ action = 3 ∨ action = 4 := by omega
  unfold seqSwitch at h
  cases hs : i.sequence <;> rw [hs] at h <;> simp only [] at h
  · rcases hcases with rfl | rfl | rfl | rfl | rfl <;>
      simp [LZMA_RUN, LZMA_SYNC_FLUSH, LZMA_FULL_FLUSH, LZMA_FINISH, LZMA_FULL_BARRIER] at h <;> subst h <;> simp [seqOfAction]
  all_goals first
    | (split at h
       · simp at h
       · rename_i hc
         simp [LZMA_SYNC_FLUSH, LZMA_FULL_FLUSH, LZMA_FINISH, LZMA_FULL_BARRIER] at hc h
         obtain ⟨h1, h2⟩ := hc
         subst h
         subst h1
         simp [seqOfAction, Seq.lockedAction, h2])
    | (simp at h)

/-- Inversion: if the inner coder was reached, the whole result is determined as follows. -/
theorem lzmaCode_called {code : InnerArgs → Resp} {strm : Stream} {action : Nat} {a : InnerArgs} {r : Resp}
    (h : (lzmaCode code strm action).called = some (a, r)) :
    ∃ i, strm.internal = some i ∧ sanityFail strm action = false ∧ strm.reserved.bad = false
      ∧ action ≤ 4
      ∧ seqSwitch i action strm.availIn = .ok (seqOfAction action)
      ∧ a = argsOf strm action ∧ r = code a
      ∧ lzmaCode code strm action =
          ⟨{ advance strm r with
              internal := some (classify { i with sequence := seqOfAction action,
                                                  availIn := (advance strm r).availIn } r).1 },
           (classify { i with sequence := seqOfAction action, availIn := (advance strm r).availIn } r).2,
           some (a, r)⟩ := by
  unfold lzmaCode at h ⊢
  cases hs : sanityFail strm action
  · obtain ⟨i, hi, -, ha, -, -, -⟩ := sanity_ok hs
    cases hb : strm.reserved.bad
    · simp only [hs, hb, hi] at h ⊢
      cases hsw : seqSwitch i action strm.availIn with
      | error e => simp [hsw] at h
      | ok sq =>
        obtain ⟨hsq, -⟩ := seqSwitch_ok ha hsw
        subst hsq
        simp only [hsw] at h ⊢
        simp at h
        obtain ⟨h1, h2⟩ := h
        refine ⟨i, rfl, trivial, trivial, ha, hsw, ?_, ?_, ?_⟩
        · exact h1.symm
        · rw [← h2, ← h1]
        · simp [argsOf] at *
          subst h1
          subst h2
          simp
    · simp [hs, hb] at h
  · simp [hs] at h

/-- If the inner coder was not reached, nothing at all changed. -/
theorem lzmaCode_not_called {code : InnerArgs → Resp} {strm : Stream} {action : Nat}
    (h : (lzmaCode code strm action).called = none) : (lzmaCode code strm action).strm = strm := by
  unfold lzmaCode at h ⊢
  cases hs : sanityFail strm action
  · cases hb : strm.reserved.bad
    · cases hi : strm.internal with
      | none => simp [hs, hb]
      | some i =>
        cases hsw : seqSwitch i action strm.availIn with
        | error e => simp [hs, hb, hsw]
        | ok sq => simp [hs, hb, hi, hsw] at h
    · simp [hs, hb]
  · simp [hs]

/-- The result when the gate lets the call through and the sequence switch returns early. -/
theorem lzmaCode_early {code : InnerArgs → Resp} {strm : Stream} {action : Nat} {i : Internal} {e : Nat}
    (hg : gate strm action = none) (hi : strm.internal = some i)
    (hsw : seqSwitch i action strm.availIn = .error e) :
    lzmaCode code strm action = ⟨strm, e, none⟩ := by
  unfold gate at hg
  unfold lzmaCode
  cases hs : sanityFail strm action <;> cases hb : strm.reserved.bad <;> simp [hs, hb] at hg
  simp [hs, hb, hi, hsw]

theorem lzmaCode_gate {code : InnerArgs → Resp} {strm : Stream} {action : Nat} {e : Nat}
    (hg : gate strm action = some e) : lzmaCode code strm action = ⟨strm, e, none⟩ := by
  unfold gate at hg
  unfold lzmaCode
  cases hs : sanityFail strm action <;> cases hb : strm.reserved.bad <;> simp [hs, hb] at hg <;> simp [hs, hb, hg]

/-- `lzma_code` never frees or allocates `internal`. -/
theorem lzmaCode_internal_isSome (code : InnerArgs → Resp) (strm : Stream) (action : Nat) :
    (lzmaCode code strm action).strm.internal.isSome = strm.internal.isSome := by
  cases hc : (lzmaCode code strm action).called with
  | none => rw [lzmaCode_not_called hc]
  | some ar =>
    obtain ⟨a, r⟩ := ar
    obtain ⟨i, hi, -, -, -, -, -, -, heq⟩ := lzmaCode_called hc
    rw [heq, hi]; rfl

theorem apply_internal (c : Call) (s : Stream) : (c.apply s).internal = s.internal := rfl

theorem gate_none {strm : Stream} {action : Nat} (h : gate strm action = none) :
    sanityFail strm action = false ∧ strm.reserved.bad = false := by
  unfold gate at h
  cases hs : sanityFail strm action <;> cases hb : strm.reserved.bad <;> simp [hs, hb] at h
  exact ⟨rfl, rfl⟩

theorem gate_some {strm : Stream} {action : Nat} {e : Nat} (h : gate strm action = some e) :
    e = LZMA_PROG_ERROR ∨ e = LZMA_OPTIONS_ERROR := by
  unfold gate at h
  cases hs : sanityFail strm action <;> cases hb : strm.reserved.bad <;> simp [hs, hb] at h <;> simp [← h]

/-- An early return of the sequence switch is LZMA_STREAM_END in ISEQ_END and LZMA_PROG_ERROR otherwise. -/
theorem seqSwitch_error {i : Internal} {action availIn e : Nat} (h : seqSwitch i action availIn = .error e) :
    (e = LZMA_STREAM_END ∧ i.sequence = .end_) ∨ (e = LZMA_PROG_ERROR ∧ i.sequence ≠ .end_ ∧ i.sequence ≠ .run) := by
  unfold seqSwitch at h
  cases hs : i.sequence <;> rw [hs] at h <;> simp only [] at h
  · repeat' split at h
    all_goals simp at h
  all_goals first
    | (split at h
       · simp at h; simp [← h]
       · simp at h)
    | (simp at h; simp [← h])

/-- The three ways a call can go. -/
theorem lzmaCode_cases (code : InnerArgs → Resp) (strm : Stream) (action : Nat) :
    (∃ e, gate strm action = some e ∧ lzmaCode code strm action = ⟨strm, e, none⟩)
    ∨ (∃ i e, gate strm action = none ∧ strm.internal = some i ∧ seqSwitch i action strm.availIn = .error e
        ∧ lzmaCode code strm action = ⟨strm, e, none⟩)
    ∨ (∃ a r, (lzmaCode code strm action).called = some (a, r)) := by
  cases hg : gate strm action with
  | some e => exact Or.inl ⟨e, rfl, lzmaCode_gate hg⟩
  | none =>
    obtain ⟨hs, hb⟩ := gate_none hg
    obtain ⟨i, hi, -⟩ := sanity_ok hs
    cases hsw : seqSwitch i action strm.availIn with
    | error e => exact Or.inr (Or.inl ⟨i, e, rfl, hi, hsw, lzmaCode_early hg hi hsw⟩)
    | ok sq => exact Or.inr (Or.inr ⟨_, _, by simp [lzmaCode, hs, hb, hi, hsw]; exact ⟨rfl, rfl⟩⟩)

/-- Without reaching the inner coder only three values can be returned. -/
theorem lzmaCode_not_called_ret {code : InnerArgs → Resp} {strm : Stream} {action : Nat}
    (h : (lzmaCode code strm action).called = none) :
    (lzmaCode code strm action).ret = LZMA_PROG_ERROR ∨ (lzmaCode code strm action).ret = LZMA_OPTIONS_ERROR
      ∨ (lzmaCode code strm action).ret = LZMA_STREAM_END := by
  rcases lzmaCode_cases code strm action with ⟨e, hg, heq⟩ | ⟨i, e, -, -, hsw, heq⟩ | ⟨a, r, hc⟩
  · rw [heq]; rcases gate_some hg with rfl | rfl <;> simp
  · rw [heq]; rcases seqSwitch_error hsw with ⟨rfl, -⟩ | ⟨rfl, -⟩ <;> simp
  · rw [hc] at h; cases h

/-- After the final switch either the handle is in ISEQ_ERROR or `allow_buf_error` says whether this call idled. -/
theorem classify_abe (i : Internal) (r : Resp) :
    (classify i r).1.sequence = .error ∨ (classify i r).1.allowBufError = r.idle := by
  unfold classify Resp.idle
  by_cases h0 : r.ret = LZMA_OK
  · by_cases hz : r.produced = 0 ∧ r.consumed = 0
    · cases hb : i.allowBufError <;> simp [h0, hz, hb]
    · simp only [h0, hz, if_true, if_false]
      right
      simp
      intro h1 h2
      exact hz ⟨h2, h1⟩
  · simp only [h0, if_false]
    repeat' split
    all_goals simp [h0]

theorem classify_hasCode (i : Internal) (r : Resp) :
    (classify i r).1.hasCode = i.hasCode ∧ (classify i r).1.supported = i.supported
      ∧ (classify i r).1.availIn = i.availIn := by
  unfold classify
  repeat' split
  all_goals simp

theorem seqSwitch_ok_seq {i : Internal} {action availIn : Nat} {sq : Seq} (ha : action ≤ 4)
    (h : seqSwitch i action availIn = .ok sq) : i.sequence ≠ .error ∧ i.sequence ≠ .end_ := by
  obtain ⟨-, h2⟩ := seqSwitch_ok ha h
  rcases h2 with h2 | ⟨h2, h3, -⟩
  · simp [h2]
  · rw [h2]; cases sq <;> simp [Seq.lockedAction] at h3 ⊢

theorem classify_buf_error_iff (i : Internal) (r : Resp) (h10 : r.ret ≠ LZMA_BUF_ERROR) :
    (classify i r).2 = LZMA_BUF_ERROR ↔ (r.idle = true ∧ i.allowBufError = true) := by
  unfold classify Resp.idle
  by_cases h0 : r.ret = LZMA_OK
  · by_cases hz : r.produced = 0 ∧ r.consumed = 0
    · cases hb : i.allowBufError <;> simp [h0, hz, hb]
    · simp only [h0, hz, if_true, if_false]
      simp
      intro h1 h2
      exact absurd ⟨h2, h1⟩ hz
  · simp only [h0, if_false]
    repeat' split
    all_goals simp [h0]
    all_goals first | omega | exact h10

/-- One call: LZMA_BUF_ERROR comes back exactly when the inner coder was reached, idled, and `allow_buf_error`
    was already set (the inner coder itself never returning LZMA_BUF_ERROR, as the C code asserts). -/
theorem lzmaCode_buf_error_iff (code : InnerArgs → Resp) (strm : Stream) (action : Nat)
    (hlaw : (code (argsOf strm action)).ret ≠ LZMA_BUF_ERROR) :
    (lzmaCode code strm action).ret = LZMA_BUF_ERROR ↔
      ∃ i a r, strm.internal = some i ∧ (lzmaCode code strm action).called = some (a, r)
        ∧ r.idle = true ∧ i.allowBufError = true := by
  cases hc : (lzmaCode code strm action).called with
  | none =>
    have hret : (lzmaCode code strm action).ret ≠ LZMA_BUF_ERROR := by
      rcases lzmaCode_not_called_ret hc with h | h | h <;> rw [h] <;> decide
    simp [hret]
  | some ar =>
    obtain ⟨a, r⟩ := ar
    obtain ⟨i, hi, -, -, -, -, ha, hr, heq⟩ := lzmaCode_called hc
    have hr10 : r.ret ≠ LZMA_BUF_ERROR := by rw [hr, ha]; exact hlaw
    have hcl := classify_buf_error_iff
      { i with sequence := seqOfAction action, availIn := (advance strm r).availIn } r hr10
    rw [heq]
    constructor
    · intro h
      exact ⟨i, a, r, hi, rfl, hcl.mp h⟩
    · rintro ⟨i', a', r', hi', hc', hidle, habe⟩
      rw [hi] at hi'
      cases hi'
      cases hc'
      exact hcl.mpr ⟨hidle, habe⟩

/-- Spec monitor for a whole trace: `last` remembers whether the most recent call that reached the inner coder
    was an idle LZMA_OK. It accepts iff LZMA_BUF_ERROR is returned exactly on an idle call whose predecessor
    (among the calls that reached the inner coder) was idle as well. -/
def bufErrorMonitor : Bool → List Entry → Prop
  | _, [] => True
  | last, e :: es =>
    (e.result.ret = LZMA_BUF_ERROR ↔ ∃ a r, e.result.called = some (a, r) ∧ r.idle = true ∧ last = true)
    ∧ bufErrorMonitor (match e.result.called with | some (_, r) => r.idle | none => last) es

theorem bufErrorMonitor_trace (calls : List Call)
    (hlaw : ∀ c ∈ calls, ∀ a, (c.code a).ret ≠ LZMA_BUF_ERROR) :
    ∀ (s : Stream) (i : Internal) (last : Bool), s.internal = some i →
      (i.sequence = .error ∨ i.allowBufError = last) → bufErrorMonitor last (trace s calls) := by
  induction calls with
  | nil => intros; trivial
  | cons c cs ih =>
    intro s i last hi hinv
    have hlaw' : ∀ c' ∈ cs, ∀ a, (c'.code a).ret ≠ LZMA_BUF_ERROR := fun c' h => hlaw c' (List.mem_cons_of_mem _ h)
    have hi0 : (c.apply s).internal = some i := by rw [apply_internal, hi]
    have hiff := lzmaCode_buf_error_iff c.code (c.apply s) c.action (hlaw c (List.mem_cons_self ..) _)
    simp only [trace, bufErrorMonitor]
    cases hc : (step s c).called with
    | none =>
      have hc' : (lzmaCode c.code (c.apply s) c.action).called = none := hc
      have hst : (step s c).strm = c.apply s := lzmaCode_not_called hc'
      refine ⟨?_, ?_⟩
      · unfold step; rw [hiff]; simp [hc']
      · simp only []
        exact ih hlaw' _ i last (by rw [hst]; exact hi0) hinv
    | some ar =>
      obtain ⟨a, r⟩ := ar
      have hc' : (lzmaCode c.code (c.apply s) c.action).called = some (a, r) := hc
      obtain ⟨i2, hi2, -, -, ha, hsw, -, -, heq⟩ := lzmaCode_called hc'
      have hii : i2 = i := by rw [hi0] at hi2; exact (Option.some.inj hi2).symm
      subst hii
      have hne := (seqSwitch_ok_seq ha hsw).1
      have habe : i2.allowBufError = last := by rcases hinv with h | h; exact absurd h hne; exact h
      refine ⟨?_, ?_⟩
      · unfold step; rw [hiff]; simp [hc', hi0, habe]
      · simp only []
        refine ih hlaw' _ _ r.idle (by unfold step; rw [heq]) (classify_abe _ r)

/-- The result when the call goes through to the inner coder. -/
theorem lzmaCode_ok {code : InnerArgs → Resp} {strm : Stream} {action : Nat} {i : Internal} {sq : Seq}
    (hg : gate strm action = none) (hi : strm.internal = some i)
    (hsw : seqSwitch i action strm.availIn = .ok sq) :
    lzmaCode code strm action =
      ⟨{ advance strm (code (argsOf strm action)) with
          internal := some (classify { i with sequence := sq,
                                              availIn := (advance strm (code (argsOf strm action))).availIn }
                                     (code (argsOf strm action))).1 },
       (classify { i with sequence := sq, availIn := (advance strm (code (argsOf strm action))).availIn }
                 (code (argsOf strm action))).2,
       some (argsOf strm action, code (argsOf strm action))⟩ := by
  obtain ⟨hs, hb⟩ := gate_none hg
  simp [lzmaCode, hs, hb, hi, hsw, argsOf]

/-- Bytes consumed / produced over a whole trace (only calls that reached the inner coder count). -/
def consumedSum (t : List Entry) : Nat :=
  (t.map fun e => match e.result.called with | some (_, r) => r.consumed | none => 0).sum
def producedSum (t : List Entry) : Nat :=
  (t.map fun e => match e.result.called with | some (_, r) => r.produced | none => 0).sum

/-- Two handles that differ only in the saved `avail_in`, and not even there while a flush/finish is locked. -/
def SameButSaved (s1 s2 : Stream) : Prop :=
  s1.nextIn = s2.nextIn ∧ s1.availIn = s2.availIn ∧ s1.totalIn = s2.totalIn ∧ s1.nextOut = s2.nextOut
  ∧ s1.availOut = s2.availOut ∧ s1.totalOut = s2.totalOut ∧ s1.reserved = s2.reserved
  ∧ ∃ i1 i2, s1.internal = some i1 ∧ s2.internal = some i2 ∧ i1.hasCode = i2.hasCode ∧ i1.sequence = i2.sequence
      ∧ i1.supported = i2.supported ∧ i1.allowBufError = i2.allowBufError
      ∧ (i1.sequence.lockedAction.isSome → i1.availIn = i2.availIn)

end XzVerif.LzmaCode
