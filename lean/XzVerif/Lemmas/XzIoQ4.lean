import XzVerif.Lemmas.XzIoQ4a
import XzVerif.Lemmas.XzIoQ4b
import XzVerif.Lemmas.XzIoQ4c

namespace XzVerif.XzIo
variable {α : Type}

theorem q4_exec {c : Cfg α} {de : Bool} {s : St α} (hf : c.o.force = false) (h : Q4 c de s) : Q4 c de (exec c s) := by
  cases hpc : s.pc with
  | openSrc => exact q4_exec_openSrc hf hpc h
  | fstatSrc => exact q4_exec_fstatSrc hf hpc h
  | closeSrcErr => exact q4_exec_closeSrcErr hf hpc h
  | openDir => exact q4_exec_openDir hf hpc h
  | unlinkForce => exact q4_exec_unlinkForce hf hpc h
  | openDest => exact q4_exec_openDest hf hpc h
  | closeDirErr => exact q4_exec_closeDirErr hf hpc h
  | fstatDest => exact q4_exec_fstatDest hf hpc h
  | lseekOut => exact q4_exec_lseekOut hf hpc h
  | read => exact q4_exec_read hf hpc h
  | readPoll => exact q4_exec_readPoll hf hpc h
  | write => exact q4_exec_write hf hpc h
  | writePoll => exact q4_exec_writePoll hf hpc h
  | seekHole => exact q4_exec_seekHole hf hpc h
  | fixPos => exact q4_exec_fixPos hf hpc h
  | tailSeek => exact q4_exec_tailSeek hf hpc h
  | fchownUid => exact q4_exec_fchownUid hf hpc h
  | fchownGid => exact q4_exec_fchownGid hf hpc h
  | fchmod => exact q4_exec_fchmod hf hpc h
  | futimens => exact q4_exec_futimens hf hpc h
  | fsyncFile => exact q4_exec_fsyncFile hf hpc h
  | fsyncDir => exact q4_exec_fsyncDir hf hpc h
  | closeDir => exact q4_exec_closeDir hf hpc h
  | closeDest => exact q4_exec_closeDest hf hpc h
  | statDest => exact q4_exec_statDest hf hpc h
  | unlinkDest => exact q4_exec_unlinkDest hf hpc h
  | closeSrc => exact q4_exec_closeSrc hf hpc h
  | statSrc => exact q4_exec_statSrc hf hpc h
  | unlinkSrc => exact q4_exec_unlinkSrc hf hpc h
  | done => unfold exec; simp only [hpc]; exact h

theorem q4_step {c : Cfg α} {de : Bool} {s : St α} (hf : c.o.force = false) (h : Q4 c de s) : Q4 c de (step c s) := by
  unfold step
  split
  · exact h
  · exact q4_exec hf (q4_preActions h)

theorem q4_runN {c : Cfg α} {de : Bool} (hf : c.o.force = false) (n : Nat) (s : St α) (h : Q4 c de s) : Q4 c de (runN c n s) := by
  induction n generalizing s with
  | zero => exact h
  | succ n ih => exact ih _ (q4_step hf h)

theorem q4_start {c : Cfg α} (hf : c.o.force = false) (de : Bool) (k0 e0 : Nat) : Q4 c de (start c de k0 e0) := by
  have b : Q4 c de ({ pc := .openSrc, k := k0, exitSt := e0, ops := c.pre,
                      fs := { dstName := if de then some inoPre else none } } : St α) := by
    refine ⟨rfl, by simp [inoSrc, inoPre], by simp, by simp, by simp [inoPre], ?_⟩
    intro _ hd; subst hd; simp
  unfold start
  simp only
  split
  · refine ⟨?_, ?_, ?_, by simp, ?_, ?_⟩
    · have := b.pre; simpa using this
    · have := b.srcN; simpa using this
    · intro e; have := continueLoop_unlinkForce c _ e; simp [hf] at this
    · have := b.stIno; simpa using this
    · have := b.still; simpa using this
  · exact ⟨b.pre, b.srcN, b.noForce, b.atUnlink, b.stIno, b.still⟩

end XzVerif.XzIo
