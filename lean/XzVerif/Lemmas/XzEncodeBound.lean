/-
  `lzma_stream_buffer_bound(n)` bytes of output space are always enough for the single-call Stream encoder model
  (`XzEncode.streamBufferEncode`): with out_size = bound it never answers LZMA_BUF_ERROR, whatever the payload encoder
  produces.  Kernel proofs, core Lean only.
-/
import XzVerif.Lemmas.XzEncodeBuf
namespace XzVerif.XzEncode
open XzVerif XzVerif.Vli XzVerif.Container

/-! ## header sizes of well-formed chains -/

theorem filterFlagsSize_le (o : FilterOpts) (hw : o.wf) (a : Nat) (h : filterFlagsSize o = .ok a) : a ≤ 6 := by
  have v1 : vliSize 1 = 1 := by decide
  have v0 : vliSize 0 = 1 := by decide
  have v4 : vliSize 4 = 1 := by decide
  cases o with
  | lzma1 id lc lp pb d =>
    obtain ⟨hid, -⟩ := hw
    unfold filterFlagsSize at h
    rw [if_pos (by rcases hid with hid | hid <;> rw [show (FilterOpts.lzma1 id lc lp pb d).id = id from rfl, hid] <;> decide)] at h
    simp at h
  | lzma2 d =>
    have : filterFlagsSize (.lzma2 d) = .ok 3 := by
      unfold filterFlagsSize
      rw [show (FilterOpts.lzma2 d).id = FILTER_LZMA2 from rfl, if_neg (by decide)]
      simp only [propsSize]
      have : vliSize FILTER_LZMA2 = 1 := by decide
      rw [this, v1]
    rw [this] at h
    simp only [Except.ok.injEq] at h
    omega
  | bcj id off =>
    obtain ⟨hid, -⟩ := hw
    have hvid : vliSize id = 1 ∧ id < FILTER_RESERVED_START := by
      rcases bcjIds_cases id hid with h | h | h | h | h | h | h | h <;> subst h <;> decide
    unfold filterFlagsSize at h
    rw [show (FilterOpts.bcj id off).id = id from rfl, if_neg (by omega)] at h
    simp only [propsSize, hvid.1] at h
    by_cases ho : off = 0
    · simp only [ho, if_true, v0, Except.ok.injEq] at h; omega
    · simp only [ho, if_false, v4, Except.ok.injEq] at h; omega
  | delta dist =>
    have : filterFlagsSize (.delta dist) = .ok 3 := by
      unfold filterFlagsSize
      rw [show (FilterOpts.delta dist).id = FILTER_DELTA from rfl, if_neg (by decide)]
      simp only [propsSize]
      have : vliSize FILTER_DELTA = 1 := by decide
      rw [this, v1]
    rw [this] at h
    simp only [Except.ok.injEq] at h
    omega
  | other id =>
    unfold filterFlagsSize at h
    by_cases hr : (FilterOpts.other id).id ≥ FILTER_RESERVED_START
    · rw [if_pos hr] at h; simp at h
    · rw [if_neg hr] at h; simp [propsSize] at h

theorem headerSizeFilters_le : ∀ (fs : List FilterOpts) (i size out : Nat), (∀ o ∈ fs, o.wf) → i ≤ 4 →
    headerSizeFilters fs i size = .ok out → out ≤ size + 6 * (4 - i) := by
  intro fs
  induction fs with
  | nil =>
    intro i size out _ _ h
    simp only [headerSizeFilters, Except.ok.injEq] at h
    omega
  | cons o rest ih =>
    intro i size out hw hi h
    simp only [headerSizeFilters] at h
    by_cases h4 : i = FILTERS_MAX
    · simp [h4] at h
    · simp only [h4, if_false] at h
      unfold FILTERS_MAX at h4
      cases h1 : filterFlagsSize o with
      | error e => simp [h1] at h
      | ok add =>
        simp only [h1] at h
        have ha := filterFlagsSize_le o (hw o (List.mem_cons_self ..)) add h1
        have := ih (i + 1) (size + add) out (fun x hx => hw x (List.mem_cons_of_mem _ hx)) (by omega) h
        omega

theorem sizeOptVli_le (z : Bool) (v : Option Nat) (a : Nat) (h : sizeOptVli z v = .ok a) : a ≤ 9 := by
  cases v with
  | none => simp only [sizeOptVli, Except.ok.injEq] at h; omega
  | some v =>
    simp only [sizeOptVli] at h
    split at h
    · simp at h
    · simp only [Except.ok.injEq] at h
      have := vliSize_le v
      omega

/-- A Block Header with both size fields and at most four filters from the encoder tables is at most 48 bytes. -/
theorem blockHeaderSize_le (cs us : Option Nat) (fs : List FilterOpts) (hw : ∀ o ∈ fs, o.wf) (hs : Nat)
    (h : blockHeaderSize 0 cs us fs = .ok hs) : hs ≤ 48 := by
  unfold blockHeaderSize at h
  rw [if_neg (by omega)] at h
  cases ha : sizeOptVli true cs with
  | error e => simp [ha] at h
  | ok a =>
    cases hb : sizeOptVli false us with
    | error e => simp [ha, hb] at h
    | ok b =>
      simp only [ha, hb] at h
      by_cases he : fs.isEmpty = true
      · rw [if_pos he] at h; simp at h
      rw [if_neg he] at h
      cases hf : headerSizeFilters fs 0 (1 + 1 + 4 + a + b) with
      | error e => simp [hf] at h
      | ok size =>
        simp only [hf, Except.ok.injEq] at h
        have h1 := sizeOptVli_le _ _ _ ha
        have h2 := sizeOptVli_le _ _ _ hb
        have h3 := headerSizeFilters_le fs 0 _ size hw (by omega) hf
        omega

/-! ## the Block step with at least `lzma_block_buffer_bound64(n)` bytes of space -/

theorem supported_checkSize_le (check : Nat) (h : checkIsSupported check = true) : checkSize check ≤ 32 ∧ checkSize check % 4 = 0 := by
  unfold checkIsSupported at h
  simp only [decide_eq_true_eq] at h
  rcases h with h | h | h | h <;> subst h <;> decide

theorem blockHeaderSize_uncomp (n : Nat) (hl0 : lzma2Bound n ≠ 0) :
    ∃ hs, blockHeaderSize 0 (some (lzma2Bound n)) (some n) [.lzma2 DICT_SIZE_MIN] = .ok hs ∧ hs ≤ 28 ∧
      ∀ check, check ≤ 15 → ∃ hdr, blockHeaderEncodeWith 0 hs check (some (lzma2Bound n)) (some n) [.lzma2 DICT_SIZE_MIN] = .ok hdr := by
  have hle := lzma2Bound_le n
  have hn : n ≤ lzma2Bound n := by rw [(lzma2Bound_spec n).2 hl0, uncompressedChunksSize_eq]; omega
  obtain ⟨hdr0, hh0, -, h28⟩ := blockHeaderEncode_uncomp 0 n _ (by omega) hl0 hle hn
  unfold blockHeaderEncode at hh0
  cases hsz : blockHeaderSize 0 (some (lzma2Bound n)) (some n) [.lzma2 DICT_SIZE_MIN] with
  | error e => simp [hsz] at hh0
  | ok hs =>
    simp only [hsz] at hh0
    have hl := (blockHeader_roundtrip 0 hs 0 _ _ _ hdr0 [] wf_lzma2_min hh0).1
    refine ⟨hs, rfl, by omega, ?_⟩
    intro check hc
    obtain ⟨hdr, hh, -, -⟩ := blockHeaderEncode_uncomp check n _ hc hl0 hle hn
    unfold blockHeaderEncode at hh
    simp only [hsz] at hh
    exact ⟨hdr, hh⟩

/-- With at least `lzma_block_buffer_bound64(n)` bytes the single-call Block encoder never answers LZMA_BUF_ERROR, and
    the Block it writes is at most `lzma_block_buffer_bound64(n) − 12` bytes long. -/
theorem blockBufferEncode_at_bound (E : EncEnv) (tc : Bool) (check : Nat) (fs : List FilterOpts) (data : List UInt8) (avail : Nat)
    (hw : ∀ o ∈ fs, o.wf) (hckl : CheckLen E) (hl0 : lzma2Bound data.length ≠ 0)
    (ha : blockBufferBound64 data.length ≤ avail) :
    (∀ e, blockBufferEncode E tc check fs data avail = .error e → e ≠ .bufError) ∧
    (∀ b, blockBufferEncode E tc check fs data avail = .ok b → b.bytes.length + 12 ≤ blockBufferBound64 data.length) := by
  have hbb : blockBufferBound64 data.length = 92 + (lzma2Bound data.length + 3) / 4 * 4 := by
    rw [blockBufferBound64_eq, if_neg hl0]
  constructor
  · intro e h
    unfold blockBufferEncode at h
    by_cases g1 : check > CHECK_ID_MAX
    · rw [if_pos g1] at h; simp only [Except.error.injEq] at h; rw [← h]; simp
    rw [if_neg g1] at h
    by_cases g2 : (!checkIsSupported check) = true
    · rw [if_pos g2] at h; simp only [Except.error.injEq] at h; rw [← h]; simp
    rw [if_neg g2] at h
    have hsup : checkIsSupported check = true := by simpa using g2
    obtain ⟨hc32, hc4⟩ := supported_checkSize_le check hsup
    simp only [] at h
    rw [if_neg (by omega), if_neg hl0] at h
    obtain ⟨hsu, hsz, hsu28, henc⟩ := blockHeaderSize_uncomp data.length hl0
    obtain ⟨hdru, hhu⟩ := henc check (by unfold CHECK_ID_MAX at g1; omega)
    have hunc : ∃ r, blockEncodeUncompressed check data (avail - avail % 4 - checkSize check) = .ok r := by
      unfold blockEncodeUncompressed
      simp only [hsz]
      rw [if_neg (by omega)]
      simp only [hhu]
      exact ⟨_, rfl⟩
    obtain ⟨r, hr⟩ := hunc
    cases tc with
    | false =>
      simp only [Bool.false_eq_true, if_false, ne_eq, not_true_eq_false, hr] at h
      simp at h
    | true =>
      simp only [if_true] at h
      cases h0 : blockEncodeNormal E check fs data (avail - avail % 4 - checkSize check) with
      | ok r0 => simp [h0] at h
      | error e0 =>
        simp only [h0] at h
        by_cases ge : e0 ≠ .bufError
        · rw [if_pos ge] at h
          simp only [Except.error.injEq] at h
          rw [← h]; exact ge
        · rw [if_neg ge, hr] at h
          simp at h
  · intro b h
    obtain ⟨hsup, -, -, bytes, hs, cs, hpath, hb⟩ := blockBufferEncode_ok E tc check fs data avail b h
    obtain ⟨hc32, hc4⟩ := supported_checkSize_le check hsup
    subst hb
    simp only [List.length_append, blockPadding_length, hckl check data hsup]
    rcases hpath with ⟨-, hnorm⟩ | hunc
    · obtain ⟨hdr, hsz, hh, hcs, hbytes, hcl, -, -⟩ := blockEncodeNormal_ok E check fs data _ bytes hs cs hnorm
      have h48 := blockHeaderSize_le _ _ fs hw hs hsz
      have hl := (blockHeader_roundtrip 0 hs check _ _ _ hdr [] hw hh).1
      rw [hbytes, List.length_append, hl, ← hcs]
      unfold XzDecode.blockPadLen
      omega
    · obtain ⟨hdr, hsz, hh, hcs, hbytes, -⟩ := blockEncodeUncompressed_ok check data _ bytes hs cs hunc
      obtain ⟨hsu, hsz', hsu28, -⟩ := blockHeaderSize_uncomp data.length hl0
      rw [hsz] at hsz'
      simp only [Except.ok.injEq] at hsz'
      have hl := (blockHeader_roundtrip 0 hs check _ _ _ hdr [] wf_lzma2_min hh).1
      rw [hbytes, List.length_append, hl, lzma2UncompressedChunks_length, ← (lzma2Bound_spec data.length).2 hl0, ← hcs]
      unfold XzDecode.blockPadLen
      omega


/-! ## the whole Stream -/

theorem indexAppend_error_ne (a : IndexAcc) (u c : Nat) (e : Ret) (h : indexAppend a u c = .error e) : e ≠ .bufError := by
  unfold indexAppend at h
  by_cases g1 : u < UNPADDED_SIZE_MIN ∨ u > UNPADDED_SIZE_MAX ∨ c > VLI_MAX
  · rw [if_pos g1] at h; simp only [Except.error.injEq] at h; rw [← h]; simp
  rw [if_neg g1] at h
  simp only at h
  by_cases g2 : a.uncompressedSum + c > VLI_MAX
  · rw [if_pos g2] at h; simp only [Except.error.injEq] at h; rw [← h]; simp
  rw [if_neg g2] at h
  by_cases g3 : ceil4 a.unpaddedSum + u > UNPADDED_SIZE_MAX
  · rw [if_pos g3] at h; simp only [Except.error.injEq] at h; rw [← h]; simp
  rw [if_neg g3] at h
  by_cases g4 : indexFileSize 0 (ceil4 a.unpaddedSum + u) (a.count + 1) (a.listSize + (vliSize u + vliSize c)) 0 = none
  · rw [if_pos g4] at h; simp only [Except.error.injEq] at h; rw [← h]; simp
  rw [if_neg g4] at h
  by_cases g5 : indexSize (a.count + 1) (a.listSize + (vliSize u + vliSize c)) > BACKWARD_SIZE_MAX
  · rw [if_pos g5] at h; simp only [Except.error.injEq] at h; rw [← h]; simp
  rw [if_neg g5] at h
  simp at h

theorem indexAppendAll_error_ne : ∀ (rs : List IndexRecord) (a : IndexAcc) (e : Ret), indexAppendAll rs a = .error e →
    e ≠ .bufError := by
  intro rs
  induction rs with
  | nil => intro a e h; simp [indexAppendAll] at h
  | cons r rs ih =>
    intro a e h
    simp only [indexAppendAll] at h
    cases h1 : indexAppend a r.unpadded r.uncompressed with
    | error e1 =>
      simp only [h1, Except.error.injEq] at h
      rw [← h]; exact indexAppend_error_ne _ _ _ _ h1
    | ok a1 =>
      simp only [h1] at h
      exact ih a1 e h

theorem streamBufferFinish_no_bufError (check : Nat) (hdr bytes : List UInt8) (recs : List IndexRecord) (avail : Nat) (e : Ret)
    (hr : recs.length ≤ 1) (ha : 24 ≤ avail) (h : streamBufferFinish check hdr bytes recs avail = .error e) : e ≠ .bufError := by
  unfold streamBufferFinish at h
  cases h1 : indexAppendAll recs {} with
  | error e1 =>
    simp only [h1, Except.error.injEq] at h
    rw [← h]; exact indexAppendAll_error_ne _ _ _ h1
  | ok acc =>
    simp only [h1] at h
    have hsz : indexSize recs.length (indexListSize recs) ≤ 24 := by
      cases recs with
      | nil => decide
      | cons r rest =>
        cases rest with
        | nil =>
          have := indexSize_one_le r.unpadded r.uncompressed
          have hib : INDEX_BOUND = 24 := by decide
          simpa [indexListSize, hib] using this
        | cons _ _ => simp at hr
    unfold indexBufferEncode at h
    rw [if_neg (by omega)] at h
    simp only [] at h
    cases h2 : streamFooterEncode { check := check } (indexSize recs.length (indexListSize recs)) with
    | error e2 => simp only [h2, Except.error.injEq] at h; rw [← h]; simp
    | ok ftr => simp [h2] at h

/-- **stream_bound_sufficient.**  Given exactly `lzma_stream_buffer_bound(n)` bytes of output space (non-zero, i.e. `n` is
    representable), the single-call Stream encoder never answers LZMA_BUF_ERROR — for ANY payload encoder: when the
    payload does not fit the encoder falls back to uncompressed LZMA2 chunks, for which the bound is computed. -/
theorem streamBufferEncode_no_bufError (E : EncEnv) (cfg : Cfg) (data : List UInt8)
    (hw : ∀ o ∈ cfg.filters, o.wf) (hckl : CheckLen E) (hb : streamBufferBound data.length ≠ 0) :
    Res.ret (streamBufferEncode E cfg data (streamBufferBound data.length)) ≠ .bufError := by
  have hsb := (streamBufferBound_spec data.length).2 hb
  have hbb0 : blockBufferBound64 data.length ≠ 0 := fun h0 => hb ((streamBufferBound_spec data.length).1.2 h0)
  have hl0 : lzma2Bound data.length ≠ 0 := fun h0 => hbb0 ((blockBufferBound64_zero_iff _).2 h0)
  have hbb : blockBufferBound64 data.length = 92 + (lzma2Bound data.length + 3) / 4 * 4 := by
    rw [blockBufferBound64_eq, if_neg hl0]
  have hib : INDEX_BOUND = 24 := by decide
  rw [hib] at hsb
  unfold STREAM_HEADER_SIZE at hsb
  cases hres : streamBufferEncode E cfg data (streamBufferBound data.length) with
  | ok out => simp [Res.ret]
  | error e =>
    show e ≠ .bufError
    unfold streamBufferEncode at hres
    by_cases g1 : cfg.check > CHECK_ID_MAX
    · rw [if_pos g1] at hres; simp only [Except.error.injEq] at hres; rw [← hres]; simp
    rw [if_neg g1] at hres
    by_cases g2 : (!checkIsSupported cfg.check) = true
    · rw [if_pos g2] at hres; simp only [Except.error.injEq] at hres; rw [← hres]; simp
    rw [if_neg g2] at hres
    rw [if_neg (by unfold STREAM_HEADER_SIZE; omega)] at hres
    simp only [] at hres
    cases h1 : streamHeaderEncode { check := cfg.check } with
    | error e1 => simp only [h1, Except.error.injEq] at hres; rw [← hres]; simp
    | ok hdr =>
      simp only [h1] at hres
      by_cases he : data.isEmpty = true
      · rw [if_pos he] at hres
        simp only [] at hres
        exact streamBufferFinish_no_bufError _ _ _ _ _ e (by simp) (by unfold STREAM_HEADER_SIZE; simp; omega) hres
      · rw [if_neg he] at hres
        obtain ⟨herr, hok⟩ := blockBufferEncode_at_bound E true cfg.check cfg.filters data
          (streamBufferBound data.length - STREAM_HEADER_SIZE - STREAM_HEADER_SIZE) hw hckl hl0
          (by unfold STREAM_HEADER_SIZE; omega)
        cases hbk : blockBufferEncode E true cfg.check cfg.filters data
            (streamBufferBound data.length - STREAM_HEADER_SIZE - STREAM_HEADER_SIZE) with
        | error e1 =>
          simp only [hbk, Except.error.injEq] at hres
          rw [← hres]; exact herr e1 hbk
        | ok b =>
          simp only [hbk] at hres
          have := hok b hbk
          exact streamBufferFinish_no_bufError _ _ _ _ _ e (by simp) (by unfold STREAM_HEADER_SIZE; omega) hres

end XzVerif.XzEncode
