/-
  The two models of the Stream Padding / concatenation loop of stream_decoder.c agree:
  `XzDecode.xzLoop` (Model/XzDecode.lean, used by C03/C05: concrete single-Stream decoder `streamOne`, threads the remaining
  output capacity, LZMA_FINISH) and `XzConcat.xzLoop` (Model/XzConcat.lean, used by C16: parametric in the single-Stream decoder
  `One`, no output capacity).

  * `streamPadding_eq`: SEQ_STREAM_PADDING of the one model is `XzConcat.padding` of the other.
  * `xzLoopCap`: `XzConcat.xzLoop` with the output capacity threaded through; `xzConcat_eq_cap` (constant family) and
    `xzLoop_eq_cap` (the concrete decoder is the instance `fun c inp => streamOne E fl true inp c`), given that only the
    Stream Header produces LZMA_FORMAT_ERROR (`NoFormatError E`: the payload decoder never answers it — true of `stdEnv`).
  * `xzLoop_agree`: when the output limit plays no role for the single-Stream decoder, the two loops are equal, so the C16
    theorems about `XzConcat.xzDecode` (padding in multiples of four, bad magic of later Streams, LZMA_FINISH) hold for
    `XzDecode.xzCall`.
  Kernel proofs, core Lean only.
-/
import XzVerif.Lemmas.XzDecodeStream
import XzVerif.Model.XzConcat

namespace XzVerif.XzDecode
open XzVerif XzVerif.Vli XzVerif.Container

/-! ### LZMA_FORMAT_ERROR comes from the Stream Header only -/

def NoFormatError (E : Env) : Prop := ∀ fs x cap, (E.payload fs x cap).ret ≠ .formatError

theorem filterFlagsDecode_error_nf (b : List UInt8) (e : Ret) (h : filterFlagsDecode b = .error e) : e ≠ .formatError := by
  unfold filterFlagsDecode at h
  repeat' split at h
  all_goals try (simp only [Except.error.injEq] at h; subst h)
  all_goals try simp
  all_goals try simp at h
  rename_i hp
  rw [propsDecode_error _ _ _ hp]; simp

theorem headerDecodeFilters_error_nf (n : Nat) (b : List UInt8) (e : Ret) (h : headerDecodeFilters n b = .error e) :
    e ≠ .formatError := by
  induction n generalizing b with
  | zero => simp [headerDecodeFilters] at h
  | succ n ih =>
    simp only [headerDecodeFilters] at h
    split at h
    · rename_i e' hf
      simp only [Except.error.injEq] at h
      rw [← h]; exact filterFlagsDecode_error_nf _ _ hf
    · split at h
      · rename_i e' hf
        simp only [Except.error.injEq] at h
        subst h; exact ih _ hf
      · simp at h

theorem blockHeaderDecodeWith_error_nf (hs check : Nat) (b : List UInt8) (e : Ret)
    (h : blockHeaderDecodeWith hs check b = .error e) : e ≠ .formatError := by
  unfold blockHeaderDecodeWith at h
  simp only [] at h
  repeat' split at h
  all_goals first
    | (simp only [Except.error.injEq] at h; subst h
       first
        | (intro hc; exact Ret.noConfusion hc)
        | (rename_i hq; exact headerDecodeFilters_error_nf _ _ _ hq)
        | (rename_i hq; rw [decOptVli_error _ _ _ hq]; intro hc; exact Ret.noConfusion hc))
    | simp at h

theorem padCheck_nf : ∀ (k : Nat) (l : List UInt8), (padCheck k l).1 ≠ .formatError
  | 0, _ => by simp [padCheck]
  | _ + 1, [] => by simp [padCheck]
  | k + 1, b :: t => by
    simp only [padCheck]
    split
    · simp
    · exact padCheck_nf k t

theorem matchBytes_nf : ∀ (e l : List UInt8), (matchBytes e l).1 ≠ .formatError
  | [], _ => by simp [matchBytes]
  | _ :: _, [] => by simp [matchBytes]
  | e :: es, b :: bs => by
    simp only [matchBytes]
    split
    · simp
    · exact matchBytes_nf es bs

theorem blockDecode_nf (E : Env) (hP : NoFormatError E) (check : Nat) (ign : Bool) (hs : Nat) (h : BlockHeader)
    (inp : List UInt8) (cap : Nat) : (blockDecode E check ign hs h inp cap).ret ≠ .formatError := by
  unfold blockDecode
  simp only []
  have hp := hP h.filters (inp.take (min inp.length (compressedLimit hs check h.compressedSize)))
    (min cap (uncompressedLimit h.uncompressedSize))
  generalize E.payload h.filters (inp.take (min inp.length (compressedLimit hs check h.compressedSize)))
    (min cap (uncompressedLimit h.uncompressedSize)) = r at hp
  have hpad := padCheck_nf (blockPadLen r.consumed) (inp.drop r.consumed)
  generalize padCheck (blockPadLen r.consumed) (inp.drop r.consumed) = p at hpad
  repeat' split
  all_goals first | (intro hc; exact Ret.noConfusion hc) | exact hp | exact hpad | skip

theorem indexVli_error_nf (l : List UInt8) (r : Ret) (n : Nat) (h : indexVli l = .error (r, n)) : r ≠ .formatError := by
  unfold indexVli at h
  simp only [] at h
  split at h
  · cases h
  · simp only [Except.error.injEq, Prod.mk.injEq] at h; rw [← h.1]; simp
  · simp only [Except.error.injEq, Prod.mk.injEq] at h; rw [← h.1]; simp

theorem indexFinish_nf (blocks records : HashInfo) (all : List UInt8) (used : Nat) (inp : List UInt8) :
    (indexFinish blocks records all used inp).ret ≠ .formatError := by
  unfold indexFinish
  have hpad := padCheck_nf ((4 - indexSizeUnpadded (hCount records) (hIndexListSize records) % 4) % 4) inp
  generalize padCheck ((4 - indexSizeUnpadded (hCount records) (hIndexListSize records) % 4) % 4) inp = p at hpad
  simp only []
  repeat' split
  all_goals first | (intro hc; exact Ret.noConfusion hc) | exact hpad | exact matchBytes_nf _ _

theorem indexRecords_nf (blocks : HashInfo) (all : List UInt8) : ∀ (rem : Nat) (records : HashInfo) (used : Nat) (inp : List UInt8),
    (indexRecords blocks all rem records used inp).ret ≠ .formatError
  | 0, records, used, inp => by simp only [indexRecords]; exact indexFinish_nf _ _ _ _ _
  | rem + 1, records, used, inp => by
    simp only [indexRecords]
    split
    · simp
    · split
      · rename_i r n hv; exact indexVli_error_nf _ _ _ hv
      · split
        · simp
        · split
          · simp
          · split
            · rename_i r n hv; exact indexVli_error_nf _ _ _ hv
            · split
              · simp
              · exact indexRecords_nf blocks all rem _ _ _

theorem indexHashDecode_nf (blocks : HashInfo) (inp : List UInt8) : (indexHashDecode blocks inp).ret ≠ .formatError := by
  unfold indexHashDecode
  split
  · simp
  · split
    · simp
    · split
      · simp
      · split
        · rename_i r n hv; exact indexVli_error_nf _ _ _ hv
        · split
          · simp
          · exact indexRecords_nf _ _ _ _ _ _

theorem streamFlagsCompare_nf (a : StreamFlags) (x : Option Nat) (b : StreamFlags) (y : Option Nat) :
    streamFlagsCompare a x b y ≠ .formatError := by
  unfold streamFlagsCompare
  repeat' split
  all_goals (intro hc; exact Ret.noConfusion hc)

theorem indexAndFooter_nf (hdr : StreamFlags) (blocks : HashInfo) (inp : List UInt8) :
    (indexAndFooter hdr blocks inp).ret ≠ .formatError := by
  unfold indexAndFooter
  simp only []
  split
  · exact indexHashDecode_nf _ _
  · split
    · simp
    · split
      · simp only []
        split
        · simp
        · assumption
      · split
        · simp
        · split
          · rename_i ftr bs _ _ _
            exact streamFlagsCompare_nf hdr none ftr (some bs)
          · simp

theorem indexHashAppend_error_nf (blocks : HashInfo) (u c : Nat) (e : Ret)
    (h : indexHashAppend blocks u c = .error e) : e ≠ .formatError := by
  unfold indexHashAppend at h
  split at h
  · simp only [Except.error.injEq] at h; rw [← h]; simp
  · simp only [] at h
    split at h
    · simp only [Except.error.injEq] at h; rw [← h]; simp
    · simp at h

theorem blocksLoop_nf (E : Env) (hP : NoFormatError E) (fl : Flags) (hdr : StreamFlags) :
    ∀ (fuel : Nat) (blocks : HashInfo) (inp : List UInt8) (cap : Nat), (blocksLoop E fl hdr fuel blocks inp cap).ret ≠ .formatError
  | 0, _, _, _ => by simp [blocksLoop]
  | fuel + 1, blocks, inp, cap => by
    simp only [blocksLoop]
    split
    · simp
    · split
      · exact indexAndFooter_nf _ _ _
      · split
        · simp
        · split
          · rename_i e he; exact blockHeaderDecodeWith_error_nf _ _ _ _ he
          · split
            · simp
            · split
              · exact blockDecode_nf E hP _ _ _ _ _ _
              · split
                · rename_i e he; exact indexHashAppend_error_nf _ _ _ _ he
                · exact blocksLoop_nf E hP fl hdr fuel _ _ _

/-- a later Stream is decoded like a first one, except that a bad magic is LZMA_DATA_ERROR -/
theorem streamOne_first (E : Env) (hP : NoFormatError E) (fl : Flags) (first : Bool) (inp : List UInt8) (cap : Nat) :
    streamOne E fl first inp cap =
      { streamOne E fl true inp cap with
        ret := if (streamOne E fl true inp cap).ret = .formatError && !first then Ret.dataError
               else (streamOne E fl true inp cap).ret } := by
  unfold streamOne
  split
  · simp
  · split
    · rename_i e he
      simp only []
      by_cases h1 : e = .formatError
      · cases first <;> simp [h1]
      · cases first <;> simp [h1]
    · rename_i hdr hh
      have hnf := blocksLoop_nf E hP fl hdr (inp.length + 1) [] (inp.drop STREAM_HEADER_SIZE) cap
      simp only []
      have : ((blocksLoop E fl hdr (inp.length + 1) [] (List.drop STREAM_HEADER_SIZE inp) cap).ret = Ret.formatError) = False := by
        simp [hnf]
      simp [this]

/-! ### Stream Padding -/

theorem streamPadding_eq : ∀ (t : List UInt8) (pos n : Nat), pos < 4 →
    streamPadding t pos n =
      match t.drop (XzConcat.leadingZeros t) with
      | [] => .inl (if (pos + XzConcat.leadingZeros t) % 4 = 0 then .streamEnd else .dataError, n + XzConcat.leadingZeros t)
      | _ :: _ => if (pos + XzConcat.leadingZeros t) % 4 ≠ 0 then .inl (.dataError, n + XzConcat.leadingZeros t + 1)
                  else .inr (n + XzConcat.leadingZeros t)
  | [], pos, n, hp => by
    have hz : XzConcat.leadingZeros ([] : List UInt8) = 0 := rfl
    rw [hz]
    have hm : pos % 4 = pos := Nat.mod_eq_of_lt hp
    simp [streamPadding, hm]
  | b :: t, pos, n, hp => by
    by_cases hb : b = 0
    · have hz : XzConcat.leadingZeros (b :: t) = XzConcat.leadingZeros t + 1 := by simp [XzConcat.leadingZeros, hb]
      rw [hz]
      simp only [streamPadding]
      rw [if_pos hb, streamPadding_eq t ((pos + 1) % 4) (n + 1) (Nat.mod_lt _ (by decide))]
      simp only [List.drop_succ_cons]
      have e1 : ((pos + 1) % 4 + XzConcat.leadingZeros t) % 4 = (pos + (XzConcat.leadingZeros t + 1)) % 4 := by omega
      have e2 : n + 1 + XzConcat.leadingZeros t = n + (XzConcat.leadingZeros t + 1) := by omega
      simp only [e1, e2]
    · have hz : XzConcat.leadingZeros (b :: t) = 0 := by simp [XzConcat.leadingZeros, hb]
      rw [hz]
      have hm : pos % 4 = pos := Nat.mod_eq_of_lt hp
      simp only [streamPadding]
      rw [if_neg hb]
      by_cases h0 : pos = 0
      · simp [h0]
      · simp [h0, hm]

/-- SEQ_STREAM_PADDING of Model/XzDecode.lean is `XzConcat.padding` with LZMA_FINISH -/
theorem streamPadding_padding (t : List UInt8) :
    streamPadding t 0 0 =
      match XzConcat.padding { concatenated := true, finish := true } t with
      | .inl p => .inl (p.ret, p.consumed)
      | .inr z => .inr z := by
  rw [streamPadding_eq t 0 0 (by decide)]
  unfold XzConcat.padding
  simp only [Nat.zero_add]
  cases t.drop (XzConcat.leadingZeros t) with
  | nil => simp
  | cons a l =>
    simp only []
    by_cases h : XzConcat.leadingZeros t % 4 ≠ 0
    · rw [if_pos h, if_pos h]
    · rw [if_neg h, if_neg h]

end XzVerif.XzDecode

namespace XzVerif.XzConcat
open XzVerif.Alone

/-- `xzLoop` with the remaining output capacity threaded through: the single-Stream decoder may depend on it, and each
    Stream's output is subtracted for the next one (what stream_decoder.c does through `out_pos`). -/
def xzLoopCap (X : Nat → One) (cfg : Cfg) : Nat → Bool → List UInt8 → Nat → DRes
  | 0, _, _, _ => fail .progError 0
  | f + 1, first, inp, cap =>
    let r := X cap inp
    let ret1 := if r.ret = .formatError && !first then Ret.dataError else r.ret
    if ret1 ≠ .streamEnd then { r with ret := ret1 }
    else if !cfg.concatenated then r
    else
      let t := inp.drop r.consumed
      match padding cfg t with
      | .inl p => prepend r p
      | .inr z => prepend { r with consumed := r.consumed + z } (xzLoopCap X cfg f false (t.drop z) (cap - r.out.length))

/-- the C16 loop is the capacity-threaded loop for a single-Stream decoder that ignores the capacity -/
theorem xzLoop_eq_cap (X1 : One) (cfg : Cfg) : ∀ (f : Nat) (first : Bool) (inp : List UInt8) (cap : Nat),
    xzLoop X1 cfg f first inp = xzLoopCap (fun _ => X1) cfg f first inp cap
  | 0, _, _, _ => rfl
  | f + 1, first, inp, cap => by
    simp only [xzLoop, xzLoopCap]
    split
    · rfl
    · split
      · rfl
      · cases padding cfg (List.drop (X1 inp).consumed inp) with
        | inl p => rfl
        | inr z =>
          simp only []
          rw [xzLoop_eq_cap X1 cfg f false _ (cap - (X1 inp).out.length)]

end XzVerif.XzConcat

namespace XzVerif.XzDecode
open XzVerif XzVerif.Container

theorem streamOne_mem (E : Env) (fl : Flags) (first : Bool) (inp : List UInt8) (cap : Nat) :
    (streamOne E fl first inp cap).mem = 0 := by
  unfold streamOne
  split
  · rfl
  · split <;> rfl

/-- the configuration of the C16 loop that corresponds to `XzDecode.xzLoop` (LZMA_FINISH is always used there) -/
def concatCfg (fl : Flags) : XzConcat.Cfg := { concatenated := fl.concatenated, finish := true }

/-- **The concrete container loop is the (capacity-threaded) C16 loop** over the single-Stream decoder
    `fun c inp => streamOne E fl true inp c`. -/
theorem xzLoop_eq_cap (E : Env) (hP : NoFormatError E) (fl : Flags) : ∀ (fuel : Nat) (first : Bool) (inp : List UInt8) (cap : Nat),
    xzLoop E fl fuel first inp cap =
      XzConcat.xzLoopCap (fun c x => streamOne E fl true x c) (concatCfg fl) fuel first inp cap
  | 0, _, _, _ => rfl
  | fuel + 1, first, inp, cap => by
    rw [xzLoop, XzConcat.xzLoopCap]
    dsimp only
    have hf := streamOne_first E hP fl first inp cap
    have hmem := streamOne_mem E fl true inp cap
    generalize streamOne E fl first inp cap = s at hf ⊢
    generalize streamOne E fl true inp cap = s1 at hf hmem ⊢
    subst hf
    simp only []
    by_cases hr : (if (s1.ret = Ret.formatError && !first) = true then Ret.dataError else s1.ret) ≠ .streamEnd
    · rw [if_pos hr, if_pos hr]
    · rw [if_neg hr, if_neg hr]
      have hr' : (if (s1.ret = Ret.formatError && !first) = true then Ret.dataError else s1.ret) = .streamEnd :=
        Decidable.of_not_not hr
      have hse : s1.ret = .streamEnd := by
        split at hr'
        · cases hr'
        · exact hr'
      have hself : ({ s1 with ret := if (s1.ret = Ret.formatError && !first) = true then Ret.dataError else s1.ret } : DRes) = s1 := by
        rw [hr', ← hse]
      rw [hself]
      by_cases hc : (!fl.concatenated) = true
      · rw [if_pos hc, if_pos (show (!(concatCfg fl).concatenated) = true from hc)]
      · rw [if_neg hc, if_neg (show ¬ (!(concatCfg fl).concatenated) = true from hc)]
        rw [streamPadding_padding]
        have hpad : XzConcat.padding (concatCfg fl) (inp.drop s1.consumed)
            = XzConcat.padding { concatenated := true, finish := true } (inp.drop s1.consumed) := rfl
        rw [hpad]
        cases hp : XzConcat.padding { concatenated := true, finish := true } (inp.drop s1.consumed) with
        | inl p =>
          simp only []
          have hpf : p.out = [] ∧ p.events = [] ∧ p.mem = 0 := by
            unfold XzConcat.padding at hp
            simp only [] at hp
            split at hp
            · simp only [Sum.inl.injEq] at hp; rw [← hp]; exact ⟨rfl, rfl, rfl⟩
            · split at hp
              · simp only [Sum.inl.injEq] at hp; rw [← hp]; exact ⟨rfl, rfl, rfl⟩
              · cases hp
          unfold XzConcat.prepend
          rw [hpf.1, hpf.2.1, hpf.2.2, List.append_nil, List.append_nil, ← hmem]
        | inr z =>
          simp only []
          unfold prepend XzConcat.prepend
          rw [xzLoop_eq_cap E hP fl fuel false _ _, List.drop_drop]

/-- If the output limit plays no role for the single-Stream decoder, the two loops are EQUAL, hence every C16 theorem about
    `XzConcat.xzLoop` / `xzDecode` (Stream Padding rules, bad magic of later Streams, `stops_at_first_stream_xz`) speaks about
    the concrete container decoder of C03/C05. -/
theorem xzLoop_agree (E : Env) (hP : NoFormatError E) (fl : Flags) (cap : Nat)
    (hcap : ∀ (c : Nat) (x : List UInt8), streamOne E fl true x c = streamOne E fl true x cap)
    (fuel : Nat) (first : Bool) (inp : List UInt8) :
    xzLoop E fl fuel first inp cap = XzConcat.xzLoop (fun x => streamOne E fl true x cap) (concatCfg fl) fuel first inp := by
  rw [xzLoop_eq_cap E hP fl, XzConcat.xzLoop_eq_cap _ _ fuel first inp cap]
  have : (fun c x => streamOne E fl true x c) = (fun _ x => streamOne E fl true x cap) := by
    funext c x; exact hcap c x
  rw [this]

theorem xzCall_agree (E : Env) (hP : NoFormatError E) (fl : Flags) (cap : Nat)
    (hcap : ∀ (c : Nat) (x : List UInt8), streamOne E fl true x c = streamOne E fl true x cap) (inp : List UInt8) :
    xzCall E fl inp cap = XzConcat.xzDecode (fun x => streamOne E fl true x cap) (concatCfg fl) inp :=
  xzLoop_agree E hP fl cap hcap _ true inp

end XzVerif.XzDecode
