/-
  More CRC lemmas for C14/C05: the HAVE_SMALL implementations, the meaning of the CLMUL fold constants
  (`calc_clrem(p, bits) = x^(bits+63) mod P`), and error detection: the shift-register step is injective
  (the top bit of the reflected polynomial is set), hence any change confined to a single byte (in particular a
  single flipped bit) changes the CRC.  Kernel proofs only.
-/
import XzVerif.Lemmas.Crc
namespace XzVerif.Crc

/-! ### HAVE_SMALL -/

theorem crcSmall_eq {w : Nat} (P : BitVec w) (bs : List UInt8) (init : BitVec w) :
    crcSmall P bs init = ~~~ (refRaw P bs (~~~ init)) := by
  unfold crcSmall
  rw [foldl_tblByte P 1 (by decide)]

/-! ### CLMUL constants -/

theorem stepN_msb_64 (p : BitVec 64) : stepN p 64 (BitVec.twoPow 64 63) = p := by
  have h63 : stepN p 63 (BitVec.twoPow 64 63) = 1#64 := by
    rw [stepN_low_zero]
    · decide
    · intro i hi
      rw [BitVec.getLsbD_twoPow]
      have : ¬ (63 = i) := by omega
      simp [this]
  rw [show stepN p 64 (BitVec.twoPow 64 63) = stepN p (63 + 1) (BitVec.twoPow 64 63) from rfl, stepN_add, h63]
  simp only [stepN, step1]
  have h0 : (1#64).getLsbD 0 = true := by decide
  have h1 : (1#64) >>> 1 = 0#64 := by decide
  rw [h0, h1]
  simp

/-- `calc_clrem(p, bits)` is `x^(bits + 63) mod P` (the comment in crc_clmul_consts_gen.c: `x^(bits + n - 1) % p`, n = 64). -/
theorem clrem_eq_xpowMod (p : BitVec 64) (bits : Nat) (h : 1 ≤ bits) : clrem p bits = xpowMod p (bits + 63) := by
  unfold clrem xpowMod
  have e : bits + 63 = 64 + (bits - 1) := by omega
  rw [e, stepN_add, stepN_msb_64]

/-! ### error detection: a change confined to one byte always changes the CRC -/

theorem step1_eq_zero {w : Nat} (P : BitVec w) (hP : P.msb = true) (z : BitVec w) (h : step1 P z = 0#w) : z = 0#w := by
  unfold step1 at h
  have hw : 0 < w := by
    cases w with
    | zero => simp [BitVec.msb] at hP
    | succ n => omega
  by_cases h0 : z.getLsbD 0 = true
  · rw [if_pos h0] at h
    have : (z >>> 1 ^^^ P).msb = true := by
      rw [BitVec.msb_xor, hP]
      have : (z >>> 1).msb = false := by
        rw [BitVec.msb_eq_getLsbD_last, BitVec.getLsbD_ushiftRight]
        apply BitVec.getLsbD_of_ge; omega
      simp [this]
    rw [h] at this
    simp at this
  · have h0' : z.getLsbD 0 = false := by simpa using h0
    rw [if_neg h0] at h
    apply BitVec.eq_of_getLsbD_eq
    intro i hi
    cases i with
    | zero => simpa using h0'
    | succ i =>
      have := congrArg (fun v => v.getLsbD i) h
      simp only [BitVec.getLsbD_ushiftRight, BitVec.getLsbD_zero] at this
      rw [Nat.add_comm] at this
      simpa using this

theorem stepN_eq_zero {w : Nat} (P : BitVec w) (hP : P.msb = true) (n : Nat) (z : BitVec w) (h : stepN P n z = 0#w) : z = 0#w := by
  induction n generalizing z with
  | zero => exact h
  | succ n ih => exact step1_eq_zero P hP z (ih _ h)

theorem stepN_injective {w : Nat} (P : BitVec w) (hP : P.msb = true) (n : Nat) (x y : BitVec w)
    (h : stepN P n x = stepN P n y) : x = y := by
  have : stepN P n (x ^^^ y) = 0#w := by rw [stepN_xor, h, BitVec.xor_self]
  have := stepN_eq_zero P hP n _ this
  exact BitVec.xor_eq_zero_iff.mp this

theorem refRaw_injective {w : Nat} (P : BitVec w) (hP : P.msb = true) (t : List UInt8) (c c' : BitVec w)
    (h : refRaw P t c = refRaw P t c') : c = c' := by
  induction t generalizing c c' with
  | nil => exact h
  | cons b t ih =>
    rw [refRaw_cons, refRaw_cons] at h
    have := stepN_injective P hP 8 _ _ (ih _ _ h)
    have h2 := congrArg (· ^^^ BitVec.ofNat w b.toNat) this
    simpa [BitVec.xor_assoc] using h2

theorem ofNat_byte_ne {w : Nat} (hw : 8 ≤ w) (b b' : UInt8) (h : b ≠ b') : BitVec.ofNat w b.toNat ≠ BitVec.ofNat w b'.toNat := by
  intro e
  apply h
  have := congrArg BitVec.toNat e
  simp only [BitVec.toNat_ofNat] at this
  have h1 : b.toNat < 2 ^ w := Nat.lt_of_lt_of_le b.toNat_lt (Nat.pow_le_pow_right (by decide) hw)
  have h2 : b'.toNat < 2 ^ w := Nat.lt_of_lt_of_le b'.toNat_lt (Nat.pow_le_pow_right (by decide) hw)
  rw [Nat.mod_eq_of_lt h1, Nat.mod_eq_of_lt h2] at this
  exact UInt8.toNat_inj.mp this

/-- Changing exactly one byte of a message (any nonzero change, in particular one flipped bit) changes the raw CRC. -/
theorem refRaw_byte_change {w : Nat} (P : BitVec w) (hP : P.msb = true) (hw : 8 ≤ w) (a t : List UInt8) (b b' : UInt8)
    (hb : b ≠ b') (c : BitVec w) : refRaw P (a ++ b :: t) c ≠ refRaw P (a ++ b' :: t) c := by
  intro h
  rw [refRaw_append, refRaw_append, refRaw_cons, refRaw_cons] at h
  have h1 := refRaw_injective P hP t _ _ h
  have h2 := stepN_injective P hP 8 _ _ h1
  have h3 := congrArg (refRaw P a c ^^^ ·) h2
  simp only [← BitVec.xor_assoc, BitVec.xor_self, BitVec.zero_xor] at h3
  exact ofNat_byte_ne hw b b' hb h3

/-- Flip bit `i` (bit `i % 8` of byte `i / 8`) of a message. -/
def flipBit (m : List UInt8) (i : Nat) : List UInt8 :=
  m.take (i / 8) ++ (m.drop (i / 8)).head?.toList.map (· ^^^ (1 <<< (i % 8).toUInt8)) ++ m.drop (i / 8 + 1)

theorem flipBit_split (m : List UInt8) (i : Nat) (h : i / 8 < m.length) :
    ∃ a b t, m = a ++ b :: t ∧ flipBit m i = a ++ (b ^^^ (1 <<< (i % 8).toUInt8)) :: t := by
  refine ⟨m.take (i / 8), m[i / 8], m.drop (i / 8 + 1), ?_, ?_⟩
  · rw [List.getElem_cons_drop, List.take_append_drop]
  · unfold flipBit
    rw [← List.getElem_cons_drop (h := h)]
    simp [List.getElem?_eq_getElem h]

theorem mask_ne (b : UInt8) (j : Nat) : b ≠ b ^^^ (1 <<< (j % 8).toUInt8) := by
  have hj : j % 8 < 8 := Nat.mod_lt _ (by decide)
  have hm : (1 : UInt8) <<< (j % 8).toUInt8 ≠ 0 := by
    have : j % 8 = 0 ∨ j % 8 = 1 ∨ j % 8 = 2 ∨ j % 8 = 3 ∨ j % 8 = 4 ∨ j % 8 = 5 ∨ j % 8 = 6 ∨ j % 8 = 7 := by omega
    rcases this with h|h|h|h|h|h|h|h <;> rw [h] <;> decide
  intro h
  apply hm
  have := congrArg (b ^^^ ·) h
  simp only [UInt8.xor_self, ← UInt8.xor_assoc, UInt8.zero_xor] at this
  exact this.symm

end XzVerif.Crc
