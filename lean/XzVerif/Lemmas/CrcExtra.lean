/-
  More CRC lemmas for C14: the HAVE_SMALL implementations and the meaning of the CLMUL fold constants
  (`calc_clrem(p, bits) = x^(bits+63) mod P`).  Kernel proofs only.  (Error detection lives in Lemmas/Crc.lean.)
-/
import XzVerif.Lemmas.Crc
namespace XzVerif.Crc

/-! ### HAVE_SMALL -/

theorem crcSmall_eq {w : Nat} (P : BitVec w) (bs : List UInt8) (init : BitVec w) :
    crcSmall P bs init = ~~~ (refRaw P bs (~~~ init)) := by
  unfold crcSmall
  rw [foldl_tblByte P 1 (by decide)]

/-! ### CLMUL constants -/

theorem stepN_msb_64 (p : BitVec 64) : stepN p 64 (BitVec.twoPow 64 63) = p := by
  have h63 : stepN p 63 (BitVec.twoPow 64 63) = 1#64 := by
    rw [stepN_low_zero]
    · decide
    · intro i hi
      rw [BitVec.getLsbD_twoPow]
      have : ¬ (63 = i) := by omega
      simp [this]
  rw [show stepN p 64 (BitVec.twoPow 64 63) = stepN p (63 + 1) (BitVec.twoPow 64 63) from rfl, stepN_add, h63]
  simp only [stepN, step1]
  have h0 : (1#64).getLsbD 0 = true := by decide
  have h1 : (1#64) >>> 1 = 0#64 := by decide
  rw [h0, h1]
  simp

/-- `calc_clrem(p, bits)` is `x^(bits + 63) mod P` (the comment in crc_clmul_consts_gen.c: `x^(bits + n - 1) % p`, n = 64). -/
theorem clrem_eq_xpowMod (p : BitVec 64) (bits : Nat) (h : 1 ≤ bits) : clrem p bits = xpowMod p (bits + 63) := by
  unfold clrem xpowMod
  have e : bits + 63 = 64 + (bits - 1) := by omega
  rw [e, stepN_add, stepN_msb_64]

end XzVerif.Crc
