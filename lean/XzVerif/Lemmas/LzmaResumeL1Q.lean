/-
  `l1AbsorbQ : L1AbsorbQ` (LzmaResumeQDefs.lean): the LZMA1 call-level absorption without the restriction `Pre1.eopm`, i.e. also
  for "known uncompressed size AND end marker allowed". Copy of the absorption lemmas of LzmaResumeL1.lean (namespace `L1Q`) with
  the loop invariant carrying `RcQ` instead of `allowEopm = false ∨ uncomp = none`: when the known-size test (`symPrelude`)
  normalised the range decoder and set `eopm_is_valid`, the range is ≥ RC_TOP_VALUE (`symPrelude_ok_top`), so the first
  normalisation of the next symbol cannot run out of input (`rcNormalize_of_top`) and the iteration continues from the changed
  state on both sides. Everything that does not mention the invariant is reused from LzmaResumeL1.lean.  Core Lean only.
-/
import XzVerif.Lemmas.LzmaResumeL1
import XzVerif.Lemmas.LzmaResumeQDefs
import XzVerif.Lemmas.LzmaResumeRcQ

namespace XzVerif.LzmaR
open XzVerif.RangeDec XzVerif.LzDict XzVerif.Lzma XzVerif.Lzma2


namespace L1Q

theorem rcq_ov {b : ByteArray} {L : Nat} {v : Option Nat} {u : St} (h : RcQ u) : RcQ (ov b L v u) :=
  rcq_congr u _ h rfl rfl rfl

section absorb
variable {b b' : ByteArray} {L L' : Nat} {v v' : Option Nat} {mf mf' : Bool}

structure LInv (b : ByteArray) (L : Nat) (v : Option Nat) (ev : Bool) (u : St) : Prop where
  inPos : u.inPos ≤ b.size
  pos : u.dp.pos ≤ L
  rcq : RcQ u
  ev : ev = (v.isNone || u.eopmValid)

def LoopOK (b b' : ByteArray) (L L' : Nat) (v v' : Option Nat) (mf mf' : Bool) (f : Nat) : Prop :=
  ∀ (fuel' : Nat) (ev : Bool) (u : St), LInv b L v ev u →
    NoFuel (symLoopR f ev mf (ov b L v u)) → NoFuel (symLoopR fuel' ev mf' (ov b' L' v' u)) →
    ∀ f'', NoFuel (cont (ov b' L' v') v'.isNone f'' mf' (symLoopR f ev mf (ov b L v u))) →
      symLoopR fuel' ev mf' (ov b' L' v' u) = cont (ov b' L' v') v'.isNone f'' mf' (symLoopR f ev mf (ov b L v u))

theorem write_absorb (hp : Par b b' L L' v v' mf mf') (f : Nat) (hIH : LoopOK b b' L L' v v' mf mf' f)
    (fuel' : Nat) (ev : Bool) (p : Pending) (u : St) (hinv : LInv b L v ev u)
    (hX : NoFuel (afterWrite f ev mf (doWrite p (ov b L v u))))
    (hY : NoFuel (afterWrite fuel' ev mf' (doWrite p (ov b' L' v' u))))
    (f'' : Nat) (hC : NoFuel (cont (ov b' L' v') v'.isNone f'' mf' (afterWrite f ev mf (doWrite p (ov b L v u))))) :
    afterWrite fuel' ev mf' (doWrite p (ov b' L' v' u))
      = cont (ov b' L' v') v'.isNone f'' mf' (afterWrite f ev mf (doWrite p (ov b L v u))) := by
  have hk := keep_doWrite p (ov b L v u)
  have hsp := (doWrite_spec p (ov b L v u)).1
  have hip := doWrite_inPos p (ov b L v u)
  cases hw : doWrite p (ov b L v u) with
  | ok a u2 =>
    rw [hw] at hk hsp hip hX hC
    have hfix : ov b L v u2 = u2 := ov_fix hk.inp hk.limit hk.uncomp
    have hw' := doWrite_ok_transport p u u2 b b' L L' v v' hp.hPR.1 hinv.pos hw
    rw [hw'] at hY ⊢
    have hinv2 : LInv b L v ev u2 :=
      ⟨(by have : u2.inPos = u.inPos := hip
           rw [this]; exact hinv.inPos),
       (by have h1 : u2.dp.pos ≤ u2.dp.limit := hsp.in_limit hinv.pos
           have h2 : u2.dp.limit = L := hk.limit
           omega),
       (by have h := rcq_doWrite p (ov b L v u) (rcq_ov hinv.rcq)
           rw [hw] at h; exact h),
       (by have : u2.eopmValid = u.eopmValid := hk.eopmValid
           rw [this]; exact hinv.ev)⟩
    have := hIH fuel' ev u2 hinv2
    rw [hfix] at this
    exact this hX hY f'' hC
  | error e u2 =>
    obtain ⟨q, rfl, hq, hpos⟩ := doWrite_exits p _ _ _ hw
    have hw' := doWrite_full_transport p q u u2 b b' L L' v v' hp.hPR.1 hinv.pos hw
    rw [hw] at hk hC
    rw [hw'] at hY ⊢
    have hev : (v'.isNone || u2.eopmValid) = ev := by
      have : u2.eopmValid = u.eopmValid := hk.eopmValid
      rw [this, ← hp.hvn]; exact hinv.ev.symm
    have hC' : NoFuel (afterWrite f'' (v'.isNone || u2.eopmValid) mf' (doWrite q (ov b' L' v' u2))) := hC
    show afterWrite fuel' ev mf' (doWrite q (ov b' L' v' u2))
      = afterWrite f'' (v'.isNone || u2.eopmValid) mf' (doWrite q (ov b' L' v' u2))
    rw [hev] at hC' ⊢
    exact afterWrite_fuel_eq _ _ _ _ _ hY hC'


theorem sym_absorb (hp : Par b b' L L' v v' mf mf') (f : Nat) (hIH : LoopOK b b' L L' v v' mf mf' f)
    (fuel' : Nat) (ev : Bool) (kk : SymSnap) (u0 : St) (hkk : kk.restore u0 = u0) (hinv : LInv b L v ev u0)
    (hX : NoFuel (afterSym f ev mf kk (decodeSymbol ev (ov b L v u0))))
    (hY : NoFuel (afterSym fuel' ev mf' kk (decodeSymbol ev (ov b' L' v' u0))))
    (f'' : Nat) (hC : NoFuel (cont (ov b' L' v') v'.isNone f'' mf' (afterSym f ev mf kk (decodeSymbol ev (ov b L v u0))))) :
    afterSym fuel' ev mf' kk (decodeSymbol ev (ov b' L' v' u0))
      = cont (ov b' L' v') v'.isNone f'' mf' (afterSym f ev mf kk (decodeSymbol ev (ov b L v u0))) := by
  have hfr := decodeSymbol_frame ev (ov b L v u0)
  have hk := keep_decodeSymbol ev (ov b L v u0)
  cases hd : decodeSymbol ev (ov b L v u0) with
  | ok act t2 =>
    have ht := decodeSymbol_transport ev u0 b b' L L' v v' hp.hag hinv.inPos (by rw [hd]; trivial)
    rw [hd] at ht hfr hk hX hC
    have ht' : decodeSymbol ev (ov b' L' v' u0) = .ok act (ov b' L' v' t2) := ht
    rw [ht'] at hY ⊢
    have hfix : ov b L v t2 = t2 := ov_fix hk.inp hk.limit hk.uncomp
    have hpos : t2.dp.pos = u0.dp.pos := (congrArg (fun s : St => s.dp.pos) hfr.1).symm
    have hinv2 : LInv b L v ev t2 :=
      ⟨hfr.2.2 hinv.inPos, (by rw [hpos]; exact hinv.pos),
       (by have h := rcq_decodeSymbol ev (ov b L v u0) (rcq_ov hinv.rcq)
           rw [hd] at h; exact h),
       (by have : t2.eopmValid = u0.eopmValid := hk.eopmValid
           rw [this]; exact hinv.ev)⟩
    have := write_absorb hp f hIH fuel' ev act t2 hinv2
    rw [hfix] at this
    exact this hX hY f'' hC
  | error e t =>
    rw [hd] at hfr hk hX hC
    have hfr1 : SymSnap.restore (SymSnap.of t) (ov b L v u0) = t := hfr.1
    by_cases he : e = .needInput
    · subst he
      have hrest : kk.restore (ov b' L' v' t) = ov b' L' v' u0 :=
        calc kk.restore (ov b' L' v' t)
            = kk.restore (ov b' L' v' (SymSnap.restore (SymSnap.of t) (ov b L v u0))) := by rw [hfr1]
          _ = ov b' L' v' (kk.restore u0) := rfl
          _ = ov b' L' v' u0 := by rw [hkk]
      have hev : (v'.isNone || t.eopmValid) = ev := by
        have : t.eopmValid = u0.eopmValid := hk.eopmValid
        rw [this, ← hp.hvn]; exact hinv.ev.symm
      have hC' : NoFuel (afterSym f'' (v'.isNone || t.eopmValid) mf' kk
          (decodeSymbol (v'.isNone || t.eopmValid) (kk.restore (ov b' L' v' t)))) := hC
      show afterSym fuel' ev mf' kk (decodeSymbol ev (ov b' L' v' u0))
        = afterSym f'' (v'.isNone || t.eopmValid) mf' kk
            (decodeSymbol (v'.isNone || t.eopmValid) (kk.restore (ov b' L' v' t)))
      rw [hev, hrest] at hC' ⊢
      exact afterSym_fuel_eq _ _ _ _ _ _ hY hC'
    · have hns : NotStarved (decodeSymbol ev (ov b L v u0)) := by
        rw [hd]; cases e <;> first | trivial | exact absurd rfl he
      have ht := decodeSymbol_transport ev u0 b b' L L' v v' hp.hag hinv.inPos hns
      rw [hd] at ht
      have ht' : decodeSymbol ev (ov b' L' v' u0) = .error e (ov b' L' v' t) := ht
      rw [ht']
      rcases decodeSymbol_exits ev _ _ _ hd with h | h | h <;> subst h
      · exact absurd rfl he
      · rfl
      · rfl

theorem loop_absorb (hp : Par b b' L L' v v' mf mf') : ∀ f, LoopOK b b' L L' v v' mf mf' f
  | 0 => by
    intro fuel' ev u _ hX
    exact absurd rfl (hX (ov b L v u))
  | f + 1 => by
    intro fuel' ev u hinv hX hY f'' hC
    have ih := loop_absorb hp f
    cases fuel' with
    | zero => exact absurd rfl (hY (ov b' L' v' u))
    | succ f' =>
    have hev : (v'.isNone || u.eopmValid) = ev := by rw [← hp.hvn]; exact hinv.ev.symm
    have hstarve : symLoopR (f + 1) ev mf (ov b L v u) = (.error .needInput (ov b L v u), none) →
        symLoopR (f' + 1) ev mf' (ov b' L' v' u)
          = cont (ov b' L' v') v'.isNone f'' mf' (symLoopR (f + 1) ev mf (ov b L v u)) := by
      intro hXe
      rw [hXe] at hC ⊢
      have hC' : NoFuel (symLoopR f'' (v'.isNone || u.eopmValid) mf' (ov b' L' v' u)) := hC
      show symLoopR (f' + 1) ev mf' (ov b' L' v' u) = symLoopR f'' (v'.isNone || u.eopmValid) mf' (ov b' L' v' u)
      rw [hev] at hC' ⊢
      exact symLoopR_fuel_eq _ _ _ _ _ hY hC'
    have htest := hp.hPR.test u.dp.pos hinv.pos
    cases hpre : symPrelude ev mf (ov b L v u) with
    | error e t =>
      by_cases he : e = .needInput
      · subst he
        have := symPrelude_starved ev mf _ _ hpre
        subst this
        apply hstarve
        rw [symLoopR_succ, hpre]
      · have hns : NotStarved (symPrelude ev mf (ov b L v u)) := by
          rw [hpre]; cases e <;> first | trivial | exact absurd rfl he
        have ht := symPrelude_transport ev mf mf' u b b' L L' v v' hp.hag hinv.inPos htest hns
        rw [hpre] at ht
        have hXe : symLoopR (f + 1) ev mf (ov b L v u) = (.error e t, none) := by rw [symLoopR_succ, hpre]
        have hYe : symLoopR (f' + 1) ev mf' (ov b' L' v' u) = (.error e (ov b' L' v' t), none) := by
          rw [symLoopR_succ, ht]; rfl
        rw [hXe, hYe]
        rcases symPrelude_exits ev mf _ _ _ hpre with h | h | h <;> subst h
        · exact absurd rfl he
        · rfl
        · rfl
    | ok ev1 t1 =>
      have hrq0 : RcQ (ov b L v u) := rcq_ov hinv.rcq
      have hns : NotStarved (symPrelude ev mf (ov b L v u)) := by rw [hpre]; trivial
      have ht := symPrelude_transport ev mf mf' u b b' L L' v v' hp.hag hinv.inPos htest hns
      rw [hpre] at ht
      have ht' : symPrelude ev mf' (ov b' L' v' u) = .ok ev1 (ov b' L' v' t1) := ht
      rcases symPrelude_ok_top ev mf _ _ _ hrq0 hpre with ⟨h1, h2, _⟩ | ⟨h1, h2, h3, _, h5⟩
      · subst h1
        rw [h2] at hpre ht'
        have ht'' : symPrelude ev mf' (ov b' L' v' u) = .ok ev (ov b' L' v' u) := ht'
        cases hn : rcNormalize (ov b L v u) with
        | error e t =>
          apply hstarve
          rw [symLoopR_succ, hpre]
          simp only [hn]
          rw [(rcNormalize_starved _ _ _ hn).1]
        | ok a t =>
          have hnt := rcNormalize_transport u b b' L L' v v' hp.hag hinv.inPos (by rw [hn]; trivial)
          rw [hn] at hnt
          have hnt' : rcNormalize (ov b' L' v' u) = .ok a (ov b' L' v' t) := hnt
          have hXe : symLoopR (f + 1) ev mf (ov b L v u)
              = afterSym f ev mf (SymSnap.of (ov b L v u)) (decodeSymbol ev (ov b L v u)) := by
            rw [symLoopR_succ, hpre]; simp only [hn]
          have hYe : symLoopR (f' + 1) ev mf' (ov b' L' v' u)
              = afterSym f' ev mf' (SymSnap.of (ov b L v u)) (decodeSymbol ev (ov b' L' v' u)) := by
            rw [symLoopR_succ, ht'']; simp only [hnt']; rfl
          rw [hXe] at hX hC ⊢
          rw [hYe] at hY ⊢
          exact sym_absorb hp f ih f' ev (SymSnap.of (ov b L v u)) u rfl hinv hX hY f'' hC
      · -- the known-size test normalised the range decoder: SEQ_IS_MATCH cannot starve
        have hfr := symPrelude_frame ev mf (ov b L v u)
        rw [hpre] at hfr
        have hinp : t1.inp = b := by rw [h5]; rfl
        have hlim : t1.dp.limit = L := by rw [h5]; rfl
        have hun : t1.uncomp = v := by rw [h5]; rfl
        have hfix : ov b L v t1 = t1 := ov_fix hinp hlim hun
        have hdp : t1.dp.pos = u.dp.pos := by rw [h5]; rfl
        have hn : rcNormalize t1 = .ok () t1 := rcNormalize_of_top t1 h1
        have hn' : rcNormalize (ov b' L' v' t1) = .ok () (ov b' L' v' t1) := rcNormalize_of_top _ h1
        have hrq1 : RcQ t1 := by
          have h := rcq_symPrelude ev mf _ hrq0
          rw [hpre] at h; exact h
        have hinv1 : LInv b L v ev1 t1 :=
          ⟨hfr.2.2 hinv.inPos, (by rw [hdp]; exact hinv.pos), hrq1, (by rw [h2, h3, Bool.or_true])⟩
        have hXe : symLoopR (f + 1) ev mf (ov b L v u)
            = afterSym f ev1 mf (SymSnap.of t1) (decodeSymbol ev1 t1) := by
          rw [symLoopR_succ, hpre]; simp only [hn]
        have hYe : symLoopR (f' + 1) ev mf' (ov b' L' v' u)
            = afterSym f' ev1 mf' (SymSnap.of t1) (decodeSymbol ev1 (ov b' L' v' t1)) := by
          rw [symLoopR_succ, ht']; simp only [hn']; rfl
        rw [hXe] at hX hC ⊢
        rw [hYe] at hY ⊢
        have := sym_absorb hp f ih f' ev1 (SymSnap.of t1) t1 rfl hinv1
        rw [hfix] at this
        exact this hX hY f'' hC

theorem head_absorb (hp : Par b b' L L' v v' mf mf') (f fuel' : Nat) (ev : Bool) (p : Pending) (k : Option SymSnap) (u : St)
    (hinv : LInv b L v ev u) (hkin : ∀ kk, k = some kk → kk.inPos ≤ b.size ∧ RcQk kk)
    (hX : NoFuel (headR f ev mf p k (ov b L v u)))
    (hY : NoFuel (headR fuel' ev mf' p k (ov b' L' v' u)))
    (f'' : Nat) (hC : NoFuel (cont (ov b' L' v') v'.isNone f'' mf' (headR f ev mf p k (ov b L v u)))) :
    headR fuel' ev mf' p k (ov b' L' v' u)
      = cont (ov b' L' v') v'.isNone f'' mf' (headR f ev mf p k (ov b L v u)) := by
  cases k with
  | none => exact write_absorb hp f (loop_absorb hp f) fuel' ev p u hinv hX hY f'' hC
  | some kk =>
    have hinv2 : LInv b L v ev (kk.restore u) := ⟨(hkin kk rfl).1, hinv.pos, rcq_restore kk u (hkin kk rfl).2, hinv.ev⟩
    exact sym_absorb hp f (loop_absorb hp f) fuel' ev kk (kk.restore u) rfl hinv2 hX hY f'' hC

end absorb

/-- the main part of a call (after `rc_read_init`); `hBlk`: the case "all known-size output produced and a write pending"
    (LZMA_DATA_ERROR of the small call) is left as a hypothesis -/
theorem run_absorb (k : Option SymSnap) (o : Bool) (b b' : ByteArray) (L L' : Nat) (w : Option Nat) (s0 : St)
    (hag : Agree b.size b b') (hL : L ≤ L') (hin : s0.inPos ≤ b.size) (hpos : s0.dp.pos ≤ L) (hil : s0.initLeft = 0)
    (hrcq : RcQ s0) (hkin : ∀ kk, k = some kk → kk.inPos ≤ b.size ∧ RcQk kk)
    (hBlk : ∀ q t kx, headR (clN w s0.dp.pos L - s0.dp.pos + 2) (w.isNone || s0.eopmValid) (mfN w s0.dp.pos L) s0.pending k
        (ov b (clN w s0.dp.pos L) w { s0 with pending := .none }) = (.error (.outFull q) t, kx) →
      (w.map (· - (t.hist.size - s0.hist.size)) == some 0 && isW q) = true →
      Same (finK k o (ov b' L' w s0)) (finK k o (ov b L w s0))) :
    Same (finK k o (ov b' L' w s0))
      (if (finK k o (ov b L w s0)).1 = .ok then lzmaCallR ((finK k o (ov b L w s0)).2.view b' L') else finK k o (ov b L w s0)) := by
  have hBlk' := hBlk
  rw [finK_eq k o b L w s0, finK_eq k o b' L' w s0] at hBlk' ⊢
  have hPR := pr_call w s0.dp.pos L L' hpos hL
  have hcb := clN_bounds w s0.dp.pos L hpos
  have hcb' := clN_bounds w s0.dp.pos L' (by omega)
  have hmfv : mfN w s0.dp.pos L = true → w ≠ none := by
    intro h hw; subst hw; cases h
  have hdle : ∀ u, w = some u → ∀ d, s0.dp.pos + d ≤ clN w s0.dp.pos L → d ≤ u := by
    intro u hu d hd
    subst hu
    unfold clN at hd
    simp only [] at hd
    split at hd <;> omega
  generalize clN w s0.dp.pos L = Lc at *
  generalize hLc' : clN w s0.dp.pos L' = Lc' at *
  generalize mfN w s0.dp.pos L = mfX at *
  generalize hmfY : mfN w s0.dp.pos L' = mfY at *
  have hpar : ∀ w'', w.isNone = w''.isNone → Par b b' Lc Lc' w w'' mfX mfY := fun w'' h => ⟨hag, hPR, h, hmfv⟩
  have hinv : LInv b Lc w (w.isNone || s0.eopmValid) { s0 with pending := .none } := ⟨hin, hcb.1, rcq_congr s0 _ hrcq rfl rfl rfl, rfl⟩
  have hnfX := headR_nofuel (Lc - s0.dp.pos + 2) (w.isNone || s0.eopmValid) mfX s0.pending k
    (ov b Lc w { s0 with pending := .none }) hcb.1 (by show Lc - s0.dp.pos < _; omega)
  have hpostX := post_headR (Lc - s0.dp.pos + 2) (w.isNone || s0.eopmValid) mfX s0.pending k
    (ov b Lc w { s0 with pending := .none })
  have habs : ∀ w'', w.isNone = w''.isNone → ∀ f'',
      NoFuel (cont (ov b' Lc' w'') w''.isNone f'' mfY (headR (Lc - s0.dp.pos + 2) (w.isNone || s0.eopmValid) mfX s0.pending k
        (ov b Lc w { s0 with pending := .none }))) →
      headR (Lc' - s0.dp.pos + 2) (w.isNone || s0.eopmValid) mfY s0.pending k (ov b' Lc' w'' { s0 with pending := .none })
        = cont (ov b' Lc' w'') w''.isNone f'' mfY (headR (Lc - s0.dp.pos + 2) (w.isNone || s0.eopmValid) mfX s0.pending k
            (ov b Lc w { s0 with pending := .none })) := by
    intro w'' h f'' hC
    exact head_absorb (hpar w'' h) (Lc - s0.dp.pos + 2) (Lc' - s0.dp.pos + 2) _ s0.pending k _ hinv hkin hnfX
      (headR_nofuel _ _ _ _ _ (ov b' Lc' w'' { s0 with pending := .none }) hcb'.1 (by show Lc' - s0.dp.pos < _; omega)) f'' hC
  generalize headR (Lc - s0.dp.pos + 2) (w.isNone || s0.eopmValid) mfX s0.pending k
    (ov b Lc w { s0 with pending := .none }) = runX at *
  generalize hrunY : headR (Lc' - s0.dp.pos + 2) (w.isNone || s0.eopmValid) mfY s0.pending k
    (ov b' Lc' w { s0 with pending := .none }) = runY at *
  have hunc : ∀ w'', headR (Lc' - s0.dp.pos + 2) (w.isNone || s0.eopmValid) mfY s0.pending k
      (ov b' Lc' w'' { s0 with pending := .none }) = mapRes (setU w'') runY := by
    intro w''
    rw [← hrunY]
    exact headR_uncomp w'' _ _ _ _ _ (ov b' Lc' w { s0 with pending := .none })
  obtain ⟨resX, kx⟩ := runX
  cases resX with
  | ok a t => exact absurd rfl (hpostX.noOk a t)
  | error e t =>
    have hstp : Stp (ov b Lc w { s0 with pending := .none }) t := hpostX.stp
    have hkx : ∀ e', e' ≠ Exit.needInput → e = e' → kx = none := by
      intro e' hne he
      cases kx with
      | none => rfl
      | some kk =>
        obtain ⟨t', ht'⟩ := hpostX.snd kk rfl
        have : e = .needInput := by injection ht' with h1 _
        exact absurd (he ▸ this) hne
    have hpend : t.pending = .none := hstp.pending
    have hil' : t.initLeft = 0 := hstp.initLeft.trans hil
    have hHle : s0.hist.size ≤ t.hist.size := by
      have h1 : t.hist.size + s0.dp.pos = s0.hist.size + t.dp.pos := hstp.hist
      have h2 : s0.dp.pos ≤ t.dp.pos := hstp.mono
      omega
    have htpos : t.dp.pos = s0.dp.pos + (t.hist.size - s0.hist.size) := by
      have h1 : t.hist.size + s0.dp.pos = s0.hist.size + t.dp.pos := hstp.hist
      omega
    have htle : t.dp.pos ≤ Lc := by
      have h1 : t.dp.pos ≤ t.dp.limit := hstp.inlim hcb.1
      have h2 : t.dp.limit = Lc := hstp.limit
      omega
    have hshift := shiftN w (t.hist.size - s0.hist.size) s0.dp.pos L'
      (fun u hu => hdle u hu _ (by omega)) (by omega)
    rw [← htpos, hmfY, hLc'] at hshift
    have hisn : w.isNone = (w.map (· - (t.hist.size - s0.hist.size))).isNone := by cases w <;> rfl
    cases e with
    | fuel => exact absurd rfl (hnfX t)
    | dataError =>
      have := hkx .dataError (by intro h; cases h) rfl
      subst this
      have hy := habs w rfl 0 (by intro t' he; cases he)
      rw [hrunY] at hy
      rw [hy, if_neg (by rw [finOf_fst_dataError]; decide)]
      exact finOf_same o L L' s0.hist.size w b' Lc' w .dataError t none
    | streamEnd =>
      have := hkx .streamEnd (by intro h; cases h) rfl
      subst this
      have hy := habs w rfl 0 (by intro t' he; cases he)
      rw [hrunY] at hy
      rw [hy, if_neg (by rw [finOf_fst_streamEnd]; decide)]
      exact finOf_same o L L' s0.hist.size w b' Lc' w .streamEnd t none
    | needInput =>
      rw [finOf_needInput, ite_fst_ok]
      rw [resume_tail o b' L L' w _ s0.hist.size t kx .none .none runY mfY Lc' rfl (fun _ _ _ _ => rfl) hil' hpend hHle
        hshift.1 hshift.2 (Nat.le_trans htle hPR.1)
        (fun f'' hC => by
          have := habs _ hisn f'' hC
          rw [hunc] at this
          exact this)]
      exact Same.refl _
    | outFull q =>
      have := hkx (.outFull q) (by intro h; cases h) rfl
      subst this
      cases hc : (w.map (· - (t.hist.size - s0.hist.size)) == some 0 && isW q) with
      | true =>
        have hb := hBlk' q t none rfl hc
        rw [if_neg (finOf_outFull_err o L s0.hist.size w t none q hc)]
        exact hb
      | false =>
        rw [finOf_outFull o L s0.hist.size w t none q hc, ite_fst_ok]
        rw [resume_tail o b' L L' w _ s0.hist.size t none (if q == .stuck then .none else q) q runY mfY Lc' rfl
          (fun f ev mf s => headR_unstuck q none f ev mf s) hil' hpend hHle
          hshift.1 hshift.2 (Nat.le_trans htle hPR.1)
          (fun f'' hC => by
            have := habs _ hisn f'' hC
            rw [hunc] at this
            exact this)]
        exact Same.refl _

/-- The part of `L1Absorb` that is NOT proved here: the small call produced all of the known uncompressed size and stopped at
    a pending write (its `lzma_decode` returns LZMA_DATA_ERROR); the call with more resources must stop at the same write. -/
def BlockedWriteCase : Prop :=
  ∀ (k : Option SymSnap) (o : Bool) (b b' : ByteArray) (L L' : Nat) (w : Option Nat) (s0 : St),
    Agree b.size b b' → L ≤ L' → s0.inPos ≤ b.size → s0.dp.pos ≤ L → s0.initLeft = 0 →
    RcQ s0 → (∀ kk, k = some kk → kk.inPos ≤ b.size ∧ RcQk kk) →
    ∀ q t kx, headR (clN w s0.dp.pos L - s0.dp.pos + 2) (w.isNone || s0.eopmValid) (mfN w s0.dp.pos L) s0.pending k
        (ov b (clN w s0.dp.pos L) w { s0 with pending := .none }) = (.error (.outFull q) t, kx) →
      (w.map (· - (t.hist.size - s0.hist.size)) == some 0 && isW q) = true →
      Same (finK k o (ov b' L' w s0)) (finK k o (ov b L w s0))

theorem l1AbsorbQ_partial (hB : BlockedWriteCase) : L1AbsorbQ := by
  intro r b b' L L' hpre hag hL
  obtain ⟨s, k, o⟩ := r
  have hin : s.inPos ≤ b.size := hpre.inPos
  have hpos : s.dp.pos ≤ L := hpre.pos
  have hrq : RcQ s := hpre.rcq.1
  have hkin : ∀ kk, k = some kk → kk.inPos ≤ b.size ∧ RcQk kk := by
    intro kk hk
    have h1 : kk.inPos ≤ s.inPos := (hpre.sym kk hk).2.1
    exact ⟨by omega, hpre.rcq.2 kk hk⟩
  show Same (lzmaCallR ⟨ov b' L' s.uncomp s, k, o⟩)
    (if (lzmaCallR ⟨ov b L s.uncomp s, k, o⟩).1 = .ok then lzmaCallR ((lzmaCallR ⟨ov b L s.uncomp s, k, o⟩).2.view b' L')
     else lzmaCallR ⟨ov b L s.uncomp s, k, o⟩)
  rw [lzmaCallR_eq ⟨ov b L s.uncomp s, k, o⟩, lzmaCallR_eq ⟨ov b' L' s.uncomp s, k, o⟩]
  show Same (callK k o (rcReadInit (ov b' L' s.uncomp s)))
    (if (callK k o (rcReadInit (ov b L s.uncomp s))).1 = .ok
     then lzmaCallR ((callK k o (rcReadInit (ov b L s.uncomp s))).2.view b' L')
     else callK k o (rcReadInit (ov b L s.uncomp s)))
  have hfr := rcReadInit_frame (ov b L s.uncomp s)
  cases hri : rcReadInit (ov b L s.uncomp s) with
  | error e t =>
    have ht := rcReadInit_transport s b b' L L' s.uncomp s.uncomp hag hin (by intro t' h; rw [hri] at h; cases h)
    rw [hri] at ht hfr
    have ht' : rcReadInit (ov b' L' s.uncomp s) = .error e (ov b' L' s.uncomp t) := ht
    rw [ht']
    show Same (.dataError, ⟨ov b' L' s.uncomp t, k, o⟩) (if Ret.dataError = .ok then _ else (.dataError, ⟨t, k, o⟩))
    rw [if_neg (by decide)]
    have hun : t.uncomp = s.uncomp := by have h1 := congrArg St.uncomp hfr.1; exact h1
    refine ⟨rfl, ?_⟩
    show (⟨normS (ov b' L' s.uncomp t), k, o⟩ : RSt) = ⟨normS t, k, o⟩
    rw [← hun]
    rfl
  | ok a t =>
    rw [hri] at hfr
    have hun : t.uncomp = s.uncomp := by have h1 := congrArg St.uncomp hfr.1; exact h1
    cases a with
    | false =>
      have hab := rcReadInit_absorb s t b b' L L' s.uncomp s.uncomp hag hin hri
      show Same _ (if Ret.ok = .ok then lzmaCallR ((⟨t, k, o⟩ : RSt).view b' L') else _)
      rw [if_pos rfl, lzmaCallR_eq]
      show Same (callK k o (rcReadInit (ov b' L' s.uncomp s))) (callK k o (rcReadInit (ov b' L' t.uncomp t)))
      rw [hun, hab]
      exact Same.refl _
    | true =>
      have ht := rcReadInit_transport s b b' L L' s.uncomp s.uncomp hag hin (by intro t' h; rw [hri] at h; cases h)
      rw [hri] at ht
      have ht' : rcReadInit (ov b' L' s.uncomp s) = .ok true (ov b' L' s.uncomp t) := ht
      rw [ht']
      show Same (finK k o (ov b' L' s.uncomp t))
        (if (finK k o t).1 = .ok then lzmaCallR ((finK k o t).2.view b' L') else finK k o t)
      have hinp : t.inp = b := by have h1 := congrArg St.inp hfr.1; exact h1
      have hlim : t.dp.limit = L := by have h1 := congrArg (fun x : St => x.dp.limit) hfr.1; exact h1
      have hfix : ov b L s.uncomp t = t := ov_fix hinp hlim hun
      have hdp : t.dp.pos = s.dp.pos := by have h1 := congrArg (fun x : St => x.dp.pos) hfr.1; exact h1
      have hrt : RcQ t := by
        have h := rcq_rcReadInit (ov b L s.uncomp s) (rcq_ov hrq)
        rw [hri] at h; exact h
      have := run_absorb k o b b' L L' s.uncomp t hag hL (hfr.2.2.1 hin) (by rw [hdp]; exact hpos)
        (hfr.2.2.2 t rfl) hrt hkin
        (hB k o b b' L L' s.uncomp t hag hL (hfr.2.2.1 hin) (by rw [hdp]; exact hpos)
          (hfr.2.2.2 t rfl) hrt hkin)
      rw [hfix] at this
      exact this

theorem blockedWriteCase : BlockedWriteCase := by
  intro k o b b' L L' w s0 hag hL hin hpos hil hrcq hkin q t kx hrun hc
  rw [finK_eq k o b L w s0, finK_eq k o b' L' w s0]
  have hPR := pr_call w s0.dp.pos L L' hpos hL
  have hcb := clN_bounds w s0.dp.pos L hpos
  have hcb' := clN_bounds w s0.dp.pos L' (by omega)
  have hmfv : mfN w s0.dp.pos L = true → w ≠ none := by
    intro h hw; subst hw; cases h
  have hfull : ∀ u, w = some u → s0.dp.pos + u ≤ clN w s0.dp.pos L →
      clN w s0.dp.pos L = s0.dp.pos + u ∧ clN w s0.dp.pos L' = s0.dp.pos + u := by
    intro u hu hd
    subst hu
    unfold clN at hd ⊢
    simp only [] at hd ⊢
    by_cases h1 : u ≤ L - s0.dp.pos
    · have h2 : u ≤ L' - s0.dp.pos := by omega
      rw [if_pos h1, if_pos h2]; exact ⟨rfl, rfl⟩
    · rw [if_neg h1] at hd; omega
  generalize clN w s0.dp.pos L = Lc at *
  generalize clN w s0.dp.pos L' = Lc' at *
  generalize mfN w s0.dp.pos L = mfX at *
  generalize mfN w s0.dp.pos L' = mfY at *
  have hpar : Par b b' Lc Lc' w w mfX mfY := ⟨hag, hPR, rfl, hmfv⟩
  have hinv : LInv b Lc w (w.isNone || s0.eopmValid) { s0 with pending := .none } := ⟨hin, hcb.1, rcq_congr s0 _ hrcq rfl rfl rfl, rfl⟩
  have hnfX := headR_nofuel (Lc - s0.dp.pos + 2) (w.isNone || s0.eopmValid) mfX s0.pending k
    (ov b Lc w { s0 with pending := .none }) hcb.1 (by show Lc - s0.dp.pos < _; omega)
  have hpostX := post_headR (Lc - s0.dp.pos + 2) (w.isNone || s0.eopmValid) mfX s0.pending k
    (ov b Lc w { s0 with pending := .none })
  have habs := fun f'' hC => head_absorb hpar (Lc - s0.dp.pos + 2) (Lc' - s0.dp.pos + 2) (w.isNone || s0.eopmValid)
    s0.pending k { s0 with pending := .none } hinv hkin hnfX
    (headR_nofuel _ _ _ _ _ (ov b' Lc' w { s0 with pending := .none }) hcb'.1 (by show Lc' - s0.dp.pos < _; omega)) f'' hC
  rw [hrun] at hpostX habs ⊢
  have hstp : Stp (ov b Lc w { s0 with pending := .none }) t := hpostX.stp
  have hkx : kx = none := by
    cases kx with
    | none => rfl
    | some kk =>
      obtain ⟨t', ht'⟩ := hpostX.snd kk rfl
      injection ht' with h1 _
      cases h1
  subst hkx
  have hblk : doWrite q t = .error (.outFull q) t := hpostX.blk q t rfl
  have hlim : t.dp.limit = Lc := hstp.limit
  have htle : t.dp.pos ≤ Lc := by
    have h1 : t.dp.pos ≤ t.dp.limit := hstp.inlim hcb.1
    omega
  have h1 : t.hist.size + s0.dp.pos = s0.hist.size + t.dp.pos := hstp.hist
  have h2 : s0.dp.pos ≤ t.dp.pos := hstp.mono
  -- the known size is used up
  have hLcc : Lc' = Lc := by
    cases w with
    | none => simp at hc
    | some u =>
      have hu0 : u - (t.hist.size - s0.hist.size) = 0 := by
        have : (some (u - (t.hist.size - s0.hist.size)) == some 0) = true := by
          cases hx : (Option.map (fun x => x - (t.hist.size - s0.hist.size)) (some u) == some 0)
          · rw [hx] at hc; simp at hc
          · exact hx
        simpa using this
      by_cases hle : s0.dp.pos + u ≤ Lc
      · have := hfull u rfl hle
        omega
      · -- then the run cannot have produced `u` bytes
        omega
  subst hLcc
  have hbo := doWrite_blocked_ov q t b' Lc' w hlim hblk
  have hcont : cont (ov b' Lc' w) w.isNone 0 mfY ((.error (.outFull q) t : EStateM.Result Exit St Unit), (none : Option SymSnap))
      = (.error (.outFull q) (ov b' Lc' w t), none) := by
    show afterWrite 0 _ mfY (doWrite q (ov b' Lc' w t)) = _
    rw [hbo]
    rfl
  have hy := habs 0 (by rw [hcont]; intro t' he; cases he)
  rw [hcont] at hy
  rw [hy]
  exact finOf_same o L L' s0.hist.size w b' Lc' w (.outFull q) t none

end L1Q

theorem l1AbsorbQ : L1AbsorbQ := L1Q.l1AbsorbQ_partial L1Q.blockedWriteCase

end XzVerif.LzmaR
