/-
  Causality of the LZMA decoder model, part 4: the LZ layer (`decode_buffer`) around a local inner coder is local in the
  input; instances for LZMA1 and LZMA2 (`Coder.code`).

  Final form (`decodeBuffer_rel`): for two states that differ only in their input buffers, the buffers agreeing on the first `n`
  bytes, and ANY two loop fuels: the results are the same (same return code, states again related), or both have diverged
  (`DivF`: cursor beyond `n`, or the return code is not LZMA_STREAM_END), or one of them is LZMA_PROG_ERROR (fuel exhausted —
  excluded for well-formed coders by `Coder.code_no_prog_error`).
-/
import XzVerif.Lemmas.LzmaCausalL2Rel

namespace XzVerif.Lzma2
open XzVerif.RangeDec XzVerif.LzDict XzVerif.Lzma

/-! ### `decode_buffer` as the iteration of a step -/

/-- wrap the dictionary if needed, compute the limit -/
def dbPrep (cap : Nat) (s : St) : St := { s with dp := (s.dp.wrap).setLimit (cap - s.produced) }

/-- what `decode_buffer` does with the result of the inner coder -/
def dbPost (cap : Nat) (r : Ret × St) : Step :=
  if r.2.dp.needReset then
    if r.1 != .ok || ({ r.2 with dp := r.2.dp.reset } : St).produced == cap then .done (r.1, { r.2 with dp := r.2.dp.reset })
    else .next { r.2 with dp := r.2.dp.reset }
  else
    if r.1 != .ok || r.2.produced == cap || r.2.dp.pos < r.2.dp.size then .done (r.1, r.2) else .next r.2

theorem decodeBuffer_succ (code : St → Ret × St) (f cap : Nat) (s : St) :
    decodeBuffer code (f + 1) cap s = runStep (decodeBuffer code f cap) (dbPost cap (code (dbPrep cap s))) := by
  rw [decodeBuffer]
  unfold dbPost dbPrep
  generalize code { s with dp := (s.dp.wrap).setLimit (cap - s.produced) } = r
  obtain ⟨ret, s2⟩ := r
  simp only [runStep_ite]
  rfl

theorem dbPost_pos (cap : Nat) (r : Ret × St) : (dbPost cap r).pos = r.2.inPos := by
  unfold dbPost
  split
  · split <;> rfl
  · split <;> rfl

theorem dbPost_withInp (cap : Nat) (ret : Ret) (w : St) (c : ByteArray) :
    dbPost cap (ret, St.withInp w c) = (dbPost cap (ret, w)).mapInp c := by
  unfold dbPost
  show (if w.dp.needReset = true then _ else _) = Step.mapInp c (if w.dp.needReset = true then _ else _)
  split
  · show (if (ret != .ok || ({ w with dp := w.dp.reset } : St).produced == cap) = true then _ else _) =
      Step.mapInp c (if (ret != .ok || ({ w with dp := w.dp.reset } : St).produced == cap) = true then _ else _)
    split <;> rfl
  · show (if (ret != .ok || w.produced == cap || decide (w.dp.pos < w.dp.size)) = true then _ else _) =
      Step.mapInp c (if (ret != .ok || w.produced == cap || decide (w.dp.pos < w.dp.size)) = true then _ else _)
    split <;> rfl

/-- what the LZ layer needs from the inner coder -/
structure CodeLoc (n : Nat) (K : St → Prop) (code : St → Ret × St) : Prop where
  mono : ∀ s, s.inPos ≤ (code s).2.inPos
  stay : ∀ s, K s → Div2 n K (code s)
  frame : ∀ s dp, K s → K { s with dp := dp }
  rel : ∀ s s', Rel n s s' → Out2 n K (code s) (code s')

/-- diverged final result: cursor beyond the common prefix, or not LZMA_STREAM_END -/
def DivF (n : Nat) (r : Ret × St) : Prop := n < r.2.inPos ∨ r.1 ≠ .streamEnd

def SDivF (n : Nat) (K : St → Prop) : Step → Prop
  | .done r => DivF n r
  | .next s => n < s.inPos ∨ K s

def OutF (n : Nat) (r r' : Ret × St) : Prop :=
  Same2 n r r' ∨ (DivF n r ∧ DivF n r') ∨ r.1 = .progError ∨ r'.1 = .progError

theorem dbPost_div {n : Nat} {K : St → Prop} (hframe : ∀ s dp, K s → K { s with dp := dp }) (cap : Nat) (r : Ret × St)
    (h : Div2 n K r) : SDivF n K (dbPost cap r) := by
  rcases h with h | ⟨hne, hok⟩
  · have hp := dbPost_pos cap r
    cases hst : dbPost cap r with
    | done r' => rw [hst] at hp; exact Or.inl (by rw [show r'.2.inPos = r.2.inPos from hp]; exact h)
    | next s1 => rw [hst] at hp; exact Or.inl (by rw [show s1.inPos = r.2.inPos from hp]; exact h)
  · unfold dbPost
    split
    · split
      · exact Or.inr hne
      · next hc =>
        have hk : r.1 = .ok := by
          cases hr : r.1 <;> simp [hr] at hc ⊢
        exact Or.inr (hframe _ _ (hok hk))
    · split
      · exact Or.inr hne
      · next hc =>
        have hk : r.1 = .ok := by
          cases hr : r.1 <;> simp [hr] at hc ⊢
        exact Or.inr (hok hk)

theorem dbPost_prog (cap : Nat) (r : Ret × St) (h : r.1 = .progError) :
    ∃ r', dbPost cap r = .done r' ∧ r'.1 = .progError := by
  unfold dbPost
  split
  · rw [if_pos (by simp [h])]; exact ⟨_, rfl, h⟩
  · rw [if_pos (by simp [h])]; exact ⟨_, rfl, h⟩

section
variable {n : Nat} {K : St → Prop} {code : St → Ret × St}

theorem decodeBuffer_mono (hc : CodeLoc n K code) : ∀ f cap s, s.inPos ≤ (decodeBuffer code f cap s).2.inPos
  | 0, cap, s => by unfold decodeBuffer; exact Nat.le_refl _
  | f + 1, cap, s => by
    rw [decodeBuffer_succ]
    have h1 : s.inPos ≤ (code (dbPrep cap s)).2.inPos := hc.mono (dbPrep cap s)
    have hp := dbPost_pos cap (code (dbPrep cap s))
    cases hst : dbPost cap (code (dbPrep cap s)) with
    | done r' =>
      rw [hst] at hp
      show s.inPos ≤ r'.2.inPos
      rw [show r'.2.inPos = _ from hp]; exact h1
    | next s1 =>
      rw [hst] at hp
      refine Nat.le_trans ?_ (decodeBuffer_mono hc f cap s1)
      rw [show s1.inPos = _ from hp]; exact h1

theorem decodeBuffer_div (hc : CodeLoc n K code) : ∀ f cap s, (n < s.inPos ∨ K s) → DivF n (decodeBuffer code f cap s)
  | 0, cap, s, h => by
    unfold decodeBuffer
    rcases h with h | _
    · exact Or.inl h
    · exact Or.inr (by simp)
  | f + 1, cap, s, h => by
    rw [decodeBuffer_succ]
    have hd : Div2 n K (code (dbPrep cap s)) := by
      rcases h with h | h
      · exact Or.inl (Nat.lt_of_lt_of_le h (hc.mono (dbPrep cap s)))
      · exact hc.stay _ (hc.frame s _ h)
    have hs := dbPost_div hc.frame cap _ hd
    cases hst : dbPost cap (code (dbPrep cap s)) with
    | done r' => rw [hst] at hs; exact hs
    | next s1 => rw [hst] at hs; exact decodeBuffer_div hc f cap s1 hs

theorem sdivf_run (hc : CodeLoc n K code) (f cap : Nat) (st : Step) (h : SDivF n K st) :
    DivF n (runStep (decodeBuffer code f cap) st) := by
  cases st with
  | done r => exact h
  | next s1 => exact decodeBuffer_div hc f cap s1 h

/-- THE LZ LAYER IS LOCAL IN THE INPUT. -/
theorem decodeBuffer_rel (hc : CodeLoc n K code) : ∀ (f f' cap : Nat) (s s' : St), Rel n s s' →
    OutF n (decodeBuffer code f cap s) (decodeBuffer code f' cap s')
  | 0, _, cap, s, s', _ => Or.inr (Or.inr (Or.inl (by unfold decodeBuffer; rfl)))
  | _ + 1, 0, cap, s, s', _ => Or.inr (Or.inr (Or.inr (by unfold decodeBuffer; rfl)))
  | f + 1, f' + 1, cap, s, s', h => by
    rw [decodeBuffer_succ, decodeBuffer_succ]
    obtain ⟨v, b, b', rfl, rfl, hag⟩ := h
    have hrel : Rel n (dbPrep cap (St.withInp v b)) (dbPrep cap (St.withInp v b')) := ⟨dbPrep cap v, b, b', rfl, rfl, hag⟩
    rcases hc.rel _ _ hrel with hs | ⟨h1, h2⟩ | hp | hp
    · generalize code (dbPrep cap (St.withInp v b)) = r at hs ⊢
      generalize code (dbPrep cap (St.withInp v b')) = r' at hs ⊢
      obtain ⟨ret, t⟩ := r
      obtain ⟨ret', t'⟩ := r'
      obtain ⟨hret, w, c, c', hw, hw', hag'⟩ := hs
      have hret' : ret = ret' := hret
      have hw1 : t = St.withInp w c := hw
      have hw2 : t' = St.withInp w c' := hw'
      subst hret' hw1 hw2
      rw [dbPost_withInp, dbPost_withInp]
      cases dbPost cap (ret, w) with
      | done r0 => exact Or.inl ⟨rfl, r0.2, c, c', rfl, rfl, hag'⟩
      | next s0 => exact decodeBuffer_rel hc f f' cap _ _ ⟨s0, c, c', rfl, rfl, hag'⟩
    · exact Or.inr (Or.inl ⟨sdivf_run hc f cap _ (dbPost_div hc.frame cap _ h1), sdivf_run hc f' cap _ (dbPost_div hc.frame cap _ h2)⟩)
    · obtain ⟨r0, e, hr0⟩ := dbPost_prog cap _ hp
      rw [e]
      exact Or.inr (Or.inr (Or.inl hr0))
    · obtain ⟨r0, e, hr0⟩ := dbPost_prog cap _ hp
      rw [e]
      exact Or.inr (Or.inr (Or.inr hr0))

end

/-! ### the two inner coders -/

theorem codeLoc_lzma1 (n : Nat) : CodeLoc n (Stv1 n) lzmaCall where
  mono := lzmaCall_mono
  stay := fun s h => by
    rw [lzmaCall_starved n s h]
    exact Or.inr ⟨by simp, fun _ => h⟩
  frame := fun _ _ h => ⟨h.1, h.2⟩
  rel := fun s s' h => by
    rcases lzmaCall_rel n s s' h with hs | hd
    · exact Or.inl hs
    · exact Or.inr (Or.inl hd)

theorem codeLoc_lzma2 (n : Nat) : CodeLoc n (K2 n) lzma2Call where
  mono := lzma2Call_mono
  stay := lzma2Call_k2 n
  frame := fun _ _ h => ⟨h.1, h.2⟩
  rel := lzma2Call_rel n

/-! ### `Coder.code` -/

theorem Coder.code_lzma1 (s : St) (cap : Nat) :
    Coder.code ⟨.lzma1, s⟩ cap =
      ((decodeBuffer lzmaCall (decodeBufferFuel s (s.produced + cap)) (s.produced + cap) s).1,
       ⟨.lzma1, (decodeBuffer lzmaCall (decodeBufferFuel s (s.produced + cap)) (s.produced + cap) s).2⟩) := by
  unfold Coder.code
  simp only []


theorem Coder.code_lzma2 (s : St) (cap : Nat) :
    Coder.code ⟨.lzma2, s⟩ cap =
      ((decodeBuffer lzma2Call (decodeBufferFuel s (s.produced + cap)) (s.produced + cap) s).1,
       ⟨.lzma2, (decodeBuffer lzma2Call (decodeBufferFuel s (s.produced + cap)) (s.produced + cap) s).2⟩) := by
  unfold Coder.code
  simp only []


/-- One call of `code` on two coders that differ only in their input buffers (agreeing on the first `n` bytes). -/
theorem Coder.code_rel (n : Nat) (kind : Kind) (v : St) (b b' : ByteArray) (hag : Agree n b b') (cap : Nat) :
    OutF n ((Coder.code ⟨kind, St.withInp v b⟩ cap).1, (Coder.code ⟨kind, St.withInp v b⟩ cap).2.s)
      ((Coder.code ⟨kind, St.withInp v b'⟩ cap).1, (Coder.code ⟨kind, St.withInp v b'⟩ cap).2.s) := by
  cases kind with
  | lzma1 =>
    rw [Coder.code_lzma1, Coder.code_lzma1]
    exact decodeBuffer_rel (codeLoc_lzma1 n) _ _ (v.produced + cap) _ _ ⟨v, b, b', rfl, rfl, hag⟩
  | lzma2 =>
    rw [Coder.code_lzma2, Coder.code_lzma2]
    exact decodeBuffer_rel (codeLoc_lzma2 n) _ _ (v.produced + cap) _ _ ⟨v, b, b', rfl, rfl, hag⟩

theorem Coder.code_kind (c : Coder) (cap : Nat) : (c.code cap).2.kind = c.kind := by
  unfold Coder.code
  simp only []
  split <;> simp_all

end XzVerif.Lzma2
