/-
  C01: the context renaming between the ENCODER's and the DECODER's indexing of the probability variables.

  Two facts of the C code make the two sides use different variables for the same decision, consistently:
    * positions: `pos_state` and the literal-position bits come from `position` (`coder->uncomp_size`, lagging by
      `mf->read_ahead` after an uncompressed LZMA2 chunk) in the encoder and from `dict.pos` (starting at
      `LZ_DICT_INIT_POS` + preset dictionary size) in the decoder — the two differ by a constant `k` modulo 16 between
      two state resets;
    * `rc_bittree_rev4` of range_decoder.h indexes `pos_align[]` by `2^i + (bits so far, least significant first)`,
      `rc_bittree_reverse` of range_encoder.h by the usual `model_index = (model_index << 1) + bit`.
  `ctxMap p k` sends the encoder's index to the decoder's index. It is injective, maps the array of `probsSize lc lp`
  entries onto itself, and translates every block (bit tree) the symbol coder uses as a whole.
-/
import XzVerif.Lemmas.LzmaRoundtrip
import XzVerif.Lemmas.RangeCoderRename
import Mathlib.Tactic.IntervalCases

namespace XzVerif.LzmaExec
open XzVerif.RangeDec XzVerif.RangeEnc XzVerif.RangeCoder XzVerif.Lzma XzVerif.LzmaEnc XzVerif.LzmaSym

/-- add `k` to the low `bits` bits of `x` (modulo `2^bits`), keep the rest -/
def shLow (bits k x : Nat) : Nat := x / 2 ^ bits * 2 ^ bits + (x % 2 ^ bits + k) % 2 ^ bits

/-- encoder index ↦ decoder index inside `pos_align[16]` -/
def alignPerm (m : Nat) : Nat := [0, 1, 2, 3, 4, 6, 5, 7, 8, 12, 10, 14, 9, 13, 11, 15].getD m m

/-- inside one length coder (offset `o < 514` from its base) -/
def lenMap (pb k o : Nat) : Nat :=
  if o < 2 then o
  else if o < 258 then 2 + ((o - 2) / 128 * 128 + shLow pb k ((o - 2) % 128 / 8) * 8 + (o - 2) % 8)
  else o

/-- inside the literal coders (offset from `P_LITERAL`) -/
def litMap (lc lp k o : Nat) : Nat :=
  768 * (shLow lp k (o / 768 / 2 ^ lc) * 2 ^ lc + o / 768 % 2 ^ lc) + o % 768

def ctxMap (p : Props) (k c : Nat) : Nat :=
  if c < 192 then c / 16 * 16 + shLow p.pb k (c % 16)
  else if c < 240 then c
  else if c < 432 then 240 + ((c - 240) / 16 * 16 + shLow p.pb k ((c - 240) % 16))
  else if c < 802 then c
  else if c < 818 then 802 + alignPerm (c - 802)
  else if c < 1332 then 818 + lenMap p.pb k (c - 818)
  else if c < 1846 then 1332 + lenMap p.pb k (c - 1332)
  else 1846 + litMap p.lc p.lp k (c - 1846)

/-! ### shLow -/

theorem shLow_lt16 (bits k x : Nat) (hb : bits ≤ 4) (hx : x < 16) : shLow bits k x < 16 := by
  unfold shLow
  interval_cases bits <;> simp only [Nat.reducePow] <;> omega

theorem shLow_inj (bits k x y : Nat) (hb : bits ≤ 4) (h : shLow bits k x = shLow bits k y) : x = y := by
  unfold shLow at h
  interval_cases bits <;> simp only [Nat.reducePow] at h <;> omega

theorem shLow_small (bits k x : Nat) (hb : bits ≤ 4) (hx : x < 2 ^ bits) : shLow bits k x = (x + k) % 2 ^ bits := by
  unfold shLow
  interval_cases bits <;> simp only [Nat.reducePow] at hx ⊢ <;> omega

/-- positions that agree modulo 16 up to the shift `k` -/
theorem shLow_pos (bits k pos pos' : Nat) (hb : bits ≤ 4) (h : pos' % 16 = (pos + k) % 16) :
    shLow bits k (pos % 2 ^ bits) = pos' % 2 ^ bits := by
  unfold shLow
  interval_cases bits <;> simp only [Nat.reducePow] <;> omega

theorem alignPerm_lt (m : Nat) (h : m < 16) : alignPerm m < 16 := by
  interval_cases m <;> decide

theorem alignPerm_inj (a b : Nat) (ha : a < 16) (hb : b < 16) (h : alignPerm a = alignPerm b) : a = b := by
  interval_cases a <;> interval_cases b <;> first | rfl | (exfalso; revert h; decide)

/-! ### the length coders -/

theorem lenMap_lt (pb k o : Nat) (hb : pb ≤ 4) (ho : o < 514) : lenMap pb k o < 514 := by
  unfold lenMap
  split
  · omega
  · split
    · have := shLow_lt16 pb k ((o - 2) % 128 / 8) hb (by omega)
      omega
    · omega

theorem lenMap_inj (pb k a b : Nat) (hb : pb ≤ 4) (ha : a < 514) (hb' : b < 514) (h : lenMap pb k a = lenMap pb k b) :
    a = b := by
  unfold lenMap at h
  have h1 := shLow_lt16 pb k ((a - 2) % 128 / 8) hb (by omega)
  have h2 := shLow_lt16 pb k ((b - 2) % 128 / 8) hb (by omega)
  by_cases ha2 : a < 2 <;> by_cases hb2 : b < 2 <;> by_cases ha3 : a < 258 <;> by_cases hb3 : b < 258 <;>
    simp only [ha2, hb2, ha3, hb3, if_true, if_false] at h <;> try omega
  have : shLow pb k ((a - 2) % 128 / 8) = shLow pb k ((b - 2) % 128 / 8) := by omega
  have := shLow_inj pb k _ _ hb this
  omega

/-! ### the literal coders -/

theorem litMap_lt (lc lp k o : Nat) (h : lc + lp ≤ 4) : litMap lc lp k o < 768 <<< (lc + lp) ↔ o < 768 <<< (lc + lp) := by
  unfold litMap shLow
  have hlc : lc ≤ 4 := by omega
  have hlp : lp ≤ 4 := by omega
  interval_cases lc <;> interval_cases lp <;> simp only [Nat.reducePow, Nat.shiftLeft_eq] at h ⊢ <;>
    omega

theorem litMap_inj (lc lp k a b : Nat) (h : lc + lp ≤ 4) (hab : litMap lc lp k a = litMap lc lp k b) : a = b := by
  unfold litMap shLow at hab
  have hlc : lc ≤ 4 := by omega
  have hlp : lp ≤ 4 := by omega
  interval_cases lc <;> interval_cases lp <;> simp only [Nat.reducePow] at h hab <;>
    omega

/-! ### the whole map -/

/-- every segment of the layout is mapped into itself -/
theorem ctxMap_seg (p : Props) (k c : Nat) (hp : PropsOk p) :
    (c < 192 → ctxMap p k c < 192) ∧ (192 ≤ c → c < 240 → ctxMap p k c = c) ∧
    (240 ≤ c → c < 432 → 240 ≤ ctxMap p k c ∧ ctxMap p k c < 432) ∧ (432 ≤ c → c < 802 → ctxMap p k c = c) ∧
    (802 ≤ c → c < 818 → 802 ≤ ctxMap p k c ∧ ctxMap p k c < 818) ∧
    (818 ≤ c → c < 1332 → 818 ≤ ctxMap p k c ∧ ctxMap p k c < 1332) ∧
    (1332 ≤ c → c < 1846 → 1332 ≤ ctxMap p k c ∧ ctxMap p k c < 1846) ∧ (1846 ≤ c → 1846 ≤ ctxMap p k c) := by
  obtain ⟨_, hpb⟩ := hp
  refine ⟨?_, ?_, ?_, ?_, ?_, ?_, ?_, ?_⟩
  · intro h
    have := shLow_lt16 p.pb k (c % 16) hpb (by omega)
    simp only [ctxMap, h, if_true]; omega
  · intro h1 h2
    have : ¬ c < 192 := by omega
    simp only [ctxMap, this, h2, if_true, if_false]
  · intro h1 h2
    have h3 : ¬ c < 192 := by omega
    have h4 : ¬ c < 240 := by omega
    have := shLow_lt16 p.pb k ((c - 240) % 16) hpb (by omega)
    simp only [ctxMap, h3, h4, h2, if_true, if_false]; omega
  · intro h1 h2
    have h3 : ¬ c < 192 := by omega
    have h4 : ¬ c < 240 := by omega
    have h5 : ¬ c < 432 := by omega
    simp only [ctxMap, h3, h4, h5, h2, if_true, if_false]
  · intro h1 h2
    have h3 : ¬ c < 192 := by omega
    have h4 : ¬ c < 240 := by omega
    have h5 : ¬ c < 432 := by omega
    have h6 : ¬ c < 802 := by omega
    have := alignPerm_lt (c - 802) (by omega)
    simp only [ctxMap, h3, h4, h5, h6, h2, if_true, if_false]; omega
  · intro h1 h2
    have h3 : ¬ c < 192 := by omega
    have h4 : ¬ c < 240 := by omega
    have h5 : ¬ c < 432 := by omega
    have h6 : ¬ c < 802 := by omega
    have h7 : ¬ c < 818 := by omega
    have := lenMap_lt p.pb k (c - 818) hpb (by omega)
    simp only [ctxMap, h3, h4, h5, h6, h7, h2, if_true, if_false]; omega
  · intro h1 h2
    have h3 : ¬ c < 192 := by omega
    have h4 : ¬ c < 240 := by omega
    have h5 : ¬ c < 432 := by omega
    have h6 : ¬ c < 802 := by omega
    have h7 : ¬ c < 818 := by omega
    have h8 : ¬ c < 1332 := by omega
    have := lenMap_lt p.pb k (c - 1332) hpb (by omega)
    simp only [ctxMap, h3, h4, h5, h6, h7, h8, h2, if_true, if_false]; omega
  · intro h1
    have h3 : ¬ c < 192 := by omega
    have h4 : ¬ c < 240 := by omega
    have h5 : ¬ c < 432 := by omega
    have h6 : ¬ c < 802 := by omega
    have h7 : ¬ c < 818 := by omega
    have h8 : ¬ c < 1332 := by omega
    have h9 : ¬ c < 1846 := by omega
    simp only [ctxMap, h3, h4, h5, h6, h7, h8, h9, if_false]; omega

theorem ctxMap_lit (p : Props) (k c : Nat) (h : 1846 ≤ c) : ctxMap p k c = 1846 + litMap p.lc p.lp k (c - 1846) := by
  have h3 : ¬ c < 192 := by omega
  have h4 : ¬ c < 240 := by omega
  have h5 : ¬ c < 432 := by omega
  have h6 : ¬ c < 802 := by omega
  have h7 : ¬ c < 818 := by omega
  have h8 : ¬ c < 1332 := by omega
  have h9 : ¬ c < 1846 := by omega
  simp only [ctxMap, h3, h4, h5, h6, h7, h8, h9, if_false]

/-- the map keeps the array of `probsSize lc lp` variables -/
theorem ctxMap_lt (p : Props) (k c : Nat) (hp : PropsOk p) :
    ctxMap p k c < probsSize p.lc p.lp ↔ c < probsSize p.lc p.lp := by
  obtain ⟨h1, h2, h3, h4, h5, h6, h7, h8⟩ := ctxMap_seg p k c hp
  rw [probsSize_eq]
  have hN := shl_ge (p.lc + p.lp)
  by_cases hc : c < 1846
  · have : ctxMap p k c < 1846 := by
      by_cases a1 : c < 192
      · have := h1 a1; omega
      by_cases a2 : c < 240
      · have := h2 (by omega) a2; omega
      by_cases a3 : c < 432
      · have := h3 (by omega) a3; omega
      by_cases a4 : c < 802
      · have := h4 (by omega) a4; omega
      by_cases a5 : c < 818
      · have := h5 (by omega) a5; omega
      by_cases a6 : c < 1332
      · have := h6 (by omega) a6; omega
      · have := h7 (by omega) hc; omega
    omega
  · rw [ctxMap_lit p k c (by omega)]
    have := litMap_lt p.lc p.lp k (c - 1846) hp.1
    omega

theorem ctxMap_inj (p : Props) (k : Nat) (hp : PropsOk p) (a b : Nat) (h : ctxMap p k a = ctxMap p k b) : a = b := by
  obtain ⟨a1, a2, a3, a4, a5, a6, a7, a8⟩ := ctxMap_seg p k a hp
  obtain ⟨b1, b2, b3, b4, b5, b6, b7, b8⟩ := ctxMap_seg p k b hp
  obtain ⟨hlclp, hpb⟩ := hp
  -- which segment
  by_cases s1 : a < 192
  · have := a1 s1
    have t1 : b < 192 := by
      by_contra hb
      by_cases c2 : b < 240
      · have := b2 (by omega) c2; omega
      by_cases c3 : b < 432
      · have := b3 (by omega) c3; omega
      by_cases c4 : b < 802
      · have := b4 (by omega) c4; omega
      by_cases c5 : b < 818
      · have := b5 (by omega) c5; omega
      by_cases c6 : b < 1332
      · have := b6 (by omega) c6; omega
      by_cases c7 : b < 1846
      · have := b7 (by omega) c7; omega
      · have := b8 (by omega); omega
    simp only [ctxMap, s1, t1, if_true] at h
    have u1 := shLow_lt16 p.pb k (a % 16) hpb (by omega)
    have u2 := shLow_lt16 p.pb k (b % 16) hpb (by omega)
    have : shLow p.pb k (a % 16) = shLow p.pb k (b % 16) := by omega
    have := shLow_inj p.pb k _ _ hpb this
    omega
  by_cases s2 : a < 240
  · have ea := a2 (by omega) s2
    have t : 192 ≤ b ∧ b < 240 := by
      by_contra hb
      by_cases c1 : b < 192
      · have := b1 c1; omega
      by_cases c2 : b < 240
      · omega
      by_cases c3 : b < 432
      · have := b3 (by omega) c3; omega
      by_cases c4 : b < 802
      · have := b4 (by omega) c4; omega
      by_cases c5 : b < 818
      · have := b5 (by omega) c5; omega
      by_cases c6 : b < 1332
      · have := b6 (by omega) c6; omega
      by_cases c7 : b < 1846
      · have := b7 (by omega) c7; omega
      · have := b8 (by omega); omega
    have := b2 t.1 t.2; omega
  by_cases s3 : a < 432
  · have ea := a3 (by omega) s3
    have t : 240 ≤ b ∧ b < 432 := by
      by_contra hb
      by_cases c1 : b < 192
      · have := b1 c1; omega
      by_cases c2 : b < 240
      · have := b2 (by omega) c2; omega
      by_cases c3 : b < 432
      · omega
      by_cases c4 : b < 802
      · have := b4 (by omega) c4; omega
      by_cases c5 : b < 818
      · have := b5 (by omega) c5; omega
      by_cases c6 : b < 1332
      · have := b6 (by omega) c6; omega
      by_cases c7 : b < 1846
      · have := b7 (by omega) c7; omega
      · have := b8 (by omega); omega
    have t3 : ¬ b < 192 := by omega
    have t4 : ¬ b < 240 := by omega
    simp only [ctxMap, s1, s2, s3, t3, t4, t.2, if_true, if_false] at h
    have u1 := shLow_lt16 p.pb k ((a - 240) % 16) hpb (by omega)
    have u2 := shLow_lt16 p.pb k ((b - 240) % 16) hpb (by omega)
    have : shLow p.pb k ((a - 240) % 16) = shLow p.pb k ((b - 240) % 16) := by omega
    have := shLow_inj p.pb k _ _ hpb this
    omega
  by_cases s4 : a < 802
  · have ea := a4 (by omega) s4
    have t : 432 ≤ b ∧ b < 802 := by
      by_contra hb
      by_cases c1 : b < 192
      · have := b1 c1; omega
      by_cases c2 : b < 240
      · have := b2 (by omega) c2; omega
      by_cases c3 : b < 432
      · have := b3 (by omega) c3; omega
      by_cases c4 : b < 802
      · omega
      by_cases c5 : b < 818
      · have := b5 (by omega) c5; omega
      by_cases c6 : b < 1332
      · have := b6 (by omega) c6; omega
      by_cases c7 : b < 1846
      · have := b7 (by omega) c7; omega
      · have := b8 (by omega); omega
    have := b4 t.1 t.2; omega
  by_cases s5 : a < 818
  · have ea := a5 (by omega) s5
    have t : 802 ≤ b ∧ b < 818 := by
      by_contra hb
      by_cases c1 : b < 192
      · have := b1 c1; omega
      by_cases c2 : b < 240
      · have := b2 (by omega) c2; omega
      by_cases c3 : b < 432
      · have := b3 (by omega) c3; omega
      by_cases c4 : b < 802
      · have := b4 (by omega) c4; omega
      by_cases c5 : b < 818
      · omega
      by_cases c6 : b < 1332
      · have := b6 (by omega) c6; omega
      by_cases c7 : b < 1846
      · have := b7 (by omega) c7; omega
      · have := b8 (by omega); omega
    have t3 : ¬ b < 192 := by omega
    have t4 : ¬ b < 240 := by omega
    have t5 : ¬ b < 432 := by omega
    have t6 : ¬ b < 802 := by omega
    simp only [ctxMap, s1, s2, s3, s4, s5, t3, t4, t5, t6, t.2, if_true, if_false] at h
    have := alignPerm_inj (a - 802) (b - 802) (by omega) (by omega) (by omega)
    omega
  by_cases s6 : a < 1332
  · have ea := a6 (by omega) s6
    have t : 818 ≤ b ∧ b < 1332 := by
      by_contra hb
      by_cases c1 : b < 192
      · have := b1 c1; omega
      by_cases c2 : b < 240
      · have := b2 (by omega) c2; omega
      by_cases c3 : b < 432
      · have := b3 (by omega) c3; omega
      by_cases c4 : b < 802
      · have := b4 (by omega) c4; omega
      by_cases c5 : b < 818
      · have := b5 (by omega) c5; omega
      by_cases c6 : b < 1332
      · omega
      by_cases c7 : b < 1846
      · have := b7 (by omega) c7; omega
      · have := b8 (by omega); omega
    have t3 : ¬ b < 192 := by omega
    have t4 : ¬ b < 240 := by omega
    have t5 : ¬ b < 432 := by omega
    have t6 : ¬ b < 802 := by omega
    have t7 : ¬ b < 818 := by omega
    simp only [ctxMap, s1, s2, s3, s4, s5, s6, t3, t4, t5, t6, t7, t.2, if_true, if_false] at h
    have := lenMap_inj p.pb k (a - 818) (b - 818) hpb (by omega) (by omega) (by omega)
    omega
  by_cases s7 : a < 1846
  · have ea := a7 (by omega) s7
    have t : 1332 ≤ b ∧ b < 1846 := by
      by_contra hb
      by_cases c1 : b < 192
      · have := b1 c1; omega
      by_cases c2 : b < 240
      · have := b2 (by omega) c2; omega
      by_cases c3 : b < 432
      · have := b3 (by omega) c3; omega
      by_cases c4 : b < 802
      · have := b4 (by omega) c4; omega
      by_cases c5 : b < 818
      · have := b5 (by omega) c5; omega
      by_cases c6 : b < 1332
      · have := b6 (by omega) c6; omega
      by_cases c7 : b < 1846
      · omega
      · have := b8 (by omega); omega
    have t3 : ¬ b < 192 := by omega
    have t4 : ¬ b < 240 := by omega
    have t5 : ¬ b < 432 := by omega
    have t6 : ¬ b < 802 := by omega
    have t7 : ¬ b < 818 := by omega
    have t8 : ¬ b < 1332 := by omega
    simp only [ctxMap, s1, s2, s3, s4, s5, s6, s7, t3, t4, t5, t6, t7, t8, t.2, if_true, if_false] at h
    have := lenMap_inj p.pb k (a - 1332) (b - 1332) hpb (by omega) (by omega) (by omega)
    omega
  · have ea := a8 (by omega)
    have t : 1846 ≤ b := by
      by_contra hb
      by_cases c1 : b < 192
      · have := b1 c1; omega
      by_cases c2 : b < 240
      · have := b2 (by omega) c2; omega
      by_cases c3 : b < 432
      · have := b3 (by omega) c3; omega
      by_cases c4 : b < 802
      · have := b4 (by omega) c4; omega
      by_cases c5 : b < 818
      · have := b5 (by omega) c5; omega
      by_cases c6 : b < 1332
      · have := b6 (by omega) c6; omega
      · have := b7 (by omega) (by omega); omega
    rw [ctxMap_lit p k a (by omega), ctxMap_lit p k b t] at h
    have := litMap_inj p.lc p.lp k (a - 1846) (b - 1846) hlclp (by omega)
    omega

/-! ### closed forms of the bit expressions -/

theorem posState_eq (pos pb : Nat) : pos &&& ((1 <<< pb) - 1) = pos % 2 ^ pb := by
  rw [Nat.one_shiftLeft, Nat.and_two_pow_sub_one_eq_mod]

/-- `x & (2^a − 2^b)` keeps the bits `b ≤ i < a` -/
theorem and_mask (x a b : Nat) (h : b ≤ a) : x &&& (2 ^ a - 2 ^ b) = x % 2 ^ a / 2 ^ b * 2 ^ b := by
  have e : 2 ^ a - 2 ^ b = (2 ^ (a - b) - 1) * 2 ^ b := by
    have : 2 ^ a = 2 ^ (a - b) * 2 ^ b := by rw [← pow_add]; congr 1; omega
    rw [this, Nat.sub_mul, Nat.one_mul]
  apply Nat.eq_of_testBit_eq
  intro i
  rw [Nat.testBit_and, e, Nat.testBit_mul_two_pow, Nat.testBit_two_pow_sub_one, Nat.testBit_mul_two_pow,
    Nat.testBit_div_two_pow, Nat.testBit_mod_two_pow]
  by_cases h1 : b ≤ i
  · have e2 : i - b + b = i := by omega
    rw [e2]
    by_cases h2 : i < a
    · have : i - b < a - b := by omega
      simp [h1, h2, this]
    · have : ¬ i - b < a - b := by omega
      simp [h1, h2, this]
  · simp [h1]

/-- number of the literal coder: position bits above the high bits of the previous byte -/
def litIdx (lc lp pos prev : Nat) : Nat := pos % 2 ^ lp * 2 ^ lc + prev / 2 ^ (8 - lc)

theorem literalSubcoder_eq (lc lp pos prev : Nat) (h : lc + lp ≤ 4) (hprev : prev < 256) :
    literalSubcoder lc lp pos prev = 768 * litIdx lc lp pos prev := by
  unfold literalSubcoder literalMask litIdx
  have e1 : (0x100 : Nat) <<< lp = 2 ^ (8 + lp) := by rw [Nat.shiftLeft_eq, pow_add]; norm_num
  have e2 : (0x100 : Nat) >>> lc = 2 ^ (8 - lc) := by
    rw [Nat.shiftRight_eq_div_pow]
    have : (0x100 : Nat) = 2 ^ (8 - lc) * 2 ^ lc := by
      rw [← pow_add]
      have : 8 - lc + lc = 8 := by omega
      rw [this]; norm_num
    rw [this, Nat.mul_div_cancel _ (Nat.pow_pos (by norm_num))]
  rw [e1, e2, and_mask _ _ _ (by omega), Nat.shiftLeft_eq, Nat.shiftLeft_eq]
  have hlc : lc ≤ 4 := by omega
  have hlp : lp ≤ 4 := by omega
  interval_cases lc <;> interval_cases lp <;> simp only [Nat.reducePow, Nat.reduceAdd, Nat.reduceSub] at h ⊢ <;> omega

/-! ### every block the symbol coder uses is translated as a whole -/

section blocks
variable (p : Props) (k pos pos' : Nat) (hp : PropsOk p) (hk : pos' % 16 = (pos + k) % 16)
include hp hk

theorem ctxMap_isMatch (st : Nat) (hst : st < 12) :
    ctxMap p k (P_IS_MATCH + st * POS_STATES_MAX + (pos &&& ((1 <<< p.pb) - 1)))
      = P_IS_MATCH + st * POS_STATES_MAX + (pos' &&& ((1 <<< p.pb) - 1)) := by
  rw [posState_eq, posState_eq]
  have h1 := shLow_pos p.pb k pos pos' hp.2 hk
  have hx : pos % 2 ^ p.pb < 16 := by
    have := posState_lt pos p.pb hp.2; rwa [posState_eq] at this
  generalize pos % 2 ^ p.pb = x at h1 hx
  have hlt : 0 + st * 16 + x < 192 := by omega
  simp only [ctxMap, P_IS_MATCH, POS_STATES_MAX, hlt, if_true]
  have e1 : (0 + st * 16 + x) / 16 = st := by omega
  have e2 : (0 + st * 16 + x) % 16 = x := by omega
  rw [e1, e2, h1]; omega

theorem ctxMap_isRep0Long (st : Nat) (hst : st < 12) :
    ctxMap p k (P_IS_REP0_LONG + st * POS_STATES_MAX + (pos &&& ((1 <<< p.pb) - 1)))
      = P_IS_REP0_LONG + st * POS_STATES_MAX + (pos' &&& ((1 <<< p.pb) - 1)) := by
  rw [posState_eq, posState_eq]
  have h1 := shLow_pos p.pb k pos pos' hp.2 hk
  have hx : pos % 2 ^ p.pb < 16 := by
    have := posState_lt pos p.pb hp.2; rwa [posState_eq] at this
  generalize pos % 2 ^ p.pb = x at h1 hx
  have a1 : ¬ 240 + st * 16 + x < 192 := by omega
  have a2 : ¬ 240 + st * 16 + x < 240 := by omega
  have a3 : 240 + st * 16 + x < 432 := by omega
  simp only [ctxMap, P_IS_REP0_LONG, POS_STATES_MAX, a1, a2, a3, if_true, if_false]
  have e1 : (240 + st * 16 + x - 240) / 16 = st := by omega
  have e2 : (240 + st * 16 + x - 240) % 16 = x := by omega
  rw [e1, e2, h1]; omega

omit hk in
/-- is_rep, is_rep0, is_rep1, is_rep2, dist_slot, pos_special: untouched -/
theorem ctxMap_id (c : Nat) (h : (192 ≤ c ∧ c < 240) ∨ (432 ≤ c ∧ c < 802)) : ctxMap p k c = c := by
  obtain ⟨_, h2, _, h4, _⟩ := ctxMap_seg p k c hp
  rcases h with h | h
  · exact h2 h.1 h.2
  · exact h4 h.1 h.2

omit hp hk in
theorem ctxMap_align (m : Nat) (h : m < 16) : ctxMap p k (P_POS_ALIGN + m) = P_POS_ALIGN + alignPerm m := by
  have a1 : ¬ 802 + m < 192 := by omega
  have a2 : ¬ 802 + m < 240 := by omega
  have a3 : ¬ 802 + m < 432 := by omega
  have a4 : ¬ 802 + m < 802 := by omega
  have a5 : 802 + m < 818 := by omega
  simp only [ctxMap, P_POS_ALIGN, a1, a2, a3, a4, a5, if_true, if_false, Nat.add_sub_cancel_left]

omit hp hk in
theorem ctxMap_lenCoder (L : Nat) (hL : L = P_MATCH_LEN ∨ L = P_REP_LEN) (o : Nat) (ho : o < 514) :
    ctxMap p k (L + o) = L + lenMap p.pb k o := by
  rcases hL with rfl | rfl
  · have a1 : ¬ 818 + o < 192 := by omega
    have a2 : ¬ 818 + o < 240 := by omega
    have a3 : ¬ 818 + o < 432 := by omega
    have a4 : ¬ 818 + o < 802 := by omega
    have a5 : ¬ 818 + o < 818 := by omega
    have a6 : 818 + o < 1332 := by omega
    simp only [ctxMap, P_MATCH_LEN, a1, a2, a3, a4, a5, a6, if_true, if_false, Nat.add_sub_cancel_left]
  · have a1 : ¬ 1332 + o < 192 := by omega
    have a2 : ¬ 1332 + o < 240 := by omega
    have a3 : ¬ 1332 + o < 432 := by omega
    have a4 : ¬ 1332 + o < 802 := by omega
    have a5 : ¬ 1332 + o < 818 := by omega
    have a6 : ¬ 1332 + o < 1332 := by omega
    have a7 : 1332 + o < 1846 := by omega
    simp only [ctxMap, P_REP_LEN, a1, a2, a3, a4, a5, a6, a7, if_true, if_false, Nat.add_sub_cancel_left]

/-- the three parts of a length coder -/
theorem ctxMap_len (L : Nat) (hL : L = P_MATCH_LEN ∨ L = P_REP_LEN) :
    ctxMap p k (L + LEN_CHOICE) = L + LEN_CHOICE ∧ ctxMap p k (L + LEN_CHOICE2) = L + LEN_CHOICE2 ∧
    (∀ j, j < 8 → ctxMap p k (L + LEN_LOW + (pos &&& ((1 <<< p.pb) - 1)) * LEN_LOW_SYMBOLS + j)
        = L + LEN_LOW + (pos' &&& ((1 <<< p.pb) - 1)) * LEN_LOW_SYMBOLS + j) ∧
    (∀ j, j < 8 → ctxMap p k (L + LEN_MID + (pos &&& ((1 <<< p.pb) - 1)) * LEN_MID_SYMBOLS + j)
        = L + LEN_MID + (pos' &&& ((1 <<< p.pb) - 1)) * LEN_MID_SYMBOLS + j) ∧
    (∀ j, j < 256 → ctxMap p k (L + LEN_HIGH + j) = L + LEN_HIGH + j) := by
  rw [posState_eq, posState_eq]
  have h1 := shLow_pos p.pb k pos pos' hp.2 hk
  have hx : pos % 2 ^ p.pb < 16 := by
    have := posState_lt pos p.pb hp.2; rwa [posState_eq] at this
  generalize pos % 2 ^ p.pb = x at h1 hx
  simp only [LEN_CHOICE, LEN_CHOICE2, LEN_LOW, LEN_MID, LEN_HIGH, LEN_LOW_SYMBOLS, LEN_MID_SYMBOLS]
  refine ⟨?_, ?_, ?_, ?_, ?_⟩
  · rw [ctxMap_lenCoder p k L hL 0 (by omega)]; simp [lenMap]
  · rw [ctxMap_lenCoder p k L hL 1 (by omega)]; simp [lenMap]
  · intro j hj
    have : L + 2 + x * 8 + j = L + (2 + x * 8 + j) := by omega
    rw [this, ctxMap_lenCoder p k L hL _ (by omega)]
    have a1 : ¬ 2 + x * 8 + j < 2 := by omega
    have a2 : 2 + x * 8 + j < 258 := by omega
    have e1 : (2 + x * 8 + j - 2) / 128 = 0 := by omega
    have e2 : (2 + x * 8 + j - 2) % 128 / 8 = x := by omega
    have e3 : (2 + x * 8 + j - 2) % 8 = j := by omega
    simp only [lenMap, a1, a2, if_true, if_false, e1, e2, e3, h1]; omega
  · intro j hj
    have : L + 130 + x * 8 + j = L + (130 + x * 8 + j) := by omega
    rw [this, ctxMap_lenCoder p k L hL _ (by omega)]
    have a1 : ¬ 130 + x * 8 + j < 2 := by omega
    have a2 : 130 + x * 8 + j < 258 := by omega
    have e1 : (130 + x * 8 + j - 2) / 128 = 1 := by omega
    have e2 : (130 + x * 8 + j - 2) % 128 / 8 = x := by omega
    have e3 : (130 + x * 8 + j - 2) % 8 = j := by omega
    simp only [lenMap, a1, a2, if_true, if_false, e1, e2, e3, h1]; omega
  · intro j hj
    have : L + 258 + j = L + (258 + j) := by omega
    rw [this, ctxMap_lenCoder p k L hL _ (by omega)]
    have a1 : ¬ 258 + j < 2 := by omega
    have a2 : ¬ 258 + j < 258 := by omega
    simp only [lenMap, a1, a2, if_false]

/-- a literal coder (0x300 variables) -/
theorem ctxMap_literal (prev : Nat) (hprev : prev < 256) (j : Nat) (hj : j < 768) :
    ctxMap p k (P_LITERAL + literalSubcoder p.lc p.lp pos prev + j)
      = P_LITERAL + literalSubcoder p.lc p.lp pos' prev + j := by
  rw [literalSubcoder_eq _ _ _ _ hp.1 hprev, literalSubcoder_eq _ _ _ _ hp.1 hprev]
  rw [ctxMap_lit p k _ (by simp only [P_LITERAL]; omega)]
  obtain ⟨hlclp, _⟩ := hp
  have hlc : p.lc ≤ 4 := by omega
  have hlp : p.lp ≤ 4 := by omega
  simp only [P_LITERAL, litMap, litIdx, shLow]
  generalize p.lc = lc at *
  generalize p.lp = lp at *
  interval_cases lc <;> interval_cases lp <;> simp only [Nat.reducePow, Nat.reduceSub] at hlclp ⊢ <;> omega

end blocks

/-! ### renaming of probability arrays -/

/-- `ps2` is `ps1` seen through the renaming `f` (total version: also outside the array) -/
def RenamedT (f : Nat → Nat) (ps1 ps2 : Probs) : Prop :=
  ps1.size = ps2.size ∧ ∀ c, (f c < ps2.size ↔ c < ps1.size) ∧ ps2.getD (f c) 0 = ps1.getD c 0

theorem RenamedT.toRenamed {f : Nat → Nat} {ps1 ps2 : Probs} (h : RenamedT f ps1 ps2) : Renamed f ps1 ps2 :=
  fun c hc => ⟨(h.2 c).1.mpr hc, (h.2 c).2⟩

/-- fresh probabilities look the same through every `ctxMap` -/
theorem renamedT_init (p : Props) (k : Nat) (hp : PropsOk p) : RenamedT (ctxMap p k) (initProbs p) (initProbs p) := by
  refine ⟨rfl, fun c => ?_⟩
  have hs : (initProbs p).size = probsSize p.lc p.lp := by simp [initProbs]
  have hlt := ctxMap_lt p k c hp
  refine ⟨by rw [hs]; exact hlt, ?_⟩
  by_cases hc : c < probsSize p.lc p.lp
  · have hc' := hlt.mpr hc
    simp [initProbs, Array.getD_eq_getD_getElem?, hc, hc']
  · have hc' : ¬ ctxMap p k c < probsSize p.lc p.lp := fun h => hc (hlt.mp h)
    simp [initProbs, Array.getD_eq_getD_getElem?, hc, hc']

theorem renamedT_set {f : Nat → Nat} (hinj : ∀ a b, f a = f b → a = b) {ps1 ps2 : Probs} (h : RenamedT f ps1 ps2)
    (c v : Nat) : RenamedT f (ps1.setIfInBounds c v) (ps2.setIfInBounds (f c) v) := by
  refine ⟨by simp [h.1], fun c' => ?_⟩
  obtain ⟨h1, h2⟩ := h.2 c'
  refine ⟨by simpa using h1, ?_⟩
  rw [getD_set, getD_set]
  by_cases hcc : c = c'
  · subst hcc
    simp only [true_and]
    by_cases hc : c < ps1.size
    · simp [hc, h1.mpr hc]
    · have : ¬ f c < ps2.size := fun hh => hc (h1.mp hh)
      simp [hc, this, h2]
  · have : ¬ f c = f c' := fun hh => hcc (hinj _ _ hh)
    simp [hcc, this, h2]

end XzVerif.LzmaExec
