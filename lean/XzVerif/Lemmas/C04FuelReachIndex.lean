/-
  C04 (termination / totality), direct form, part 2 (see Lemmas/C04FuelReachXz.lean): Option-valued twins `f?` (`none` iff the
  `0` branch is reached) of the fuelled loops of Model/Vli.lean (`vliSizeAux`), Model/Container.lean (`indexDecodeRecords`),
  Model/IndexSpec.lean (`vliSizeGo`, `Spec.nextStreamFrom`), Model/FileInfo.lean (`streamLoop`), Model/IndexImpl.lean
  (`bsearch`, `nextStreamFrom`, `iterAllGo`), and `measure < fuel → f? fuel x = some (f fuel x)`.

  Two loops DO reach their `0` branch with the fuel their caller supplies, and the twins make that visible:
    * `Vli.vliSizeAux` (fuel = continuation bytes still allowed): for a 9-byte VLI `vliSize`'s 8 units run out and the `0`
      branch supplies the last byte's `1` — a base case, not an error. `vliSize_reach`: with 9 units the branch is never
      reached and the value is `vliSize`'s.
    * `Container.indexDecodeRecords` (fuel `r1.length` from `indexDecode`): when the input is EMPTY and Records are still owed
      the `0` branch answers LZMA_DATA_ERROR — the answer `vliDecode [] = none` gives one line later. `indexDecode_reach`: with
      `r1.length + 1` units the branch is never reached and the result is `indexDecode`'s.
  In both cases the statement is "one more unit than the model supplies is never exhausted, and gives the model's result".
-/
import XzVerif.Lemmas.C04FuelIndex
import XzVerif.Lemmas.C04FuelIter

/-! ### Model/Vli.lean -/
namespace XzVerif.Vli

/-- `vliSizeAux` with the `0` branch made visible. NOTE: in the model that branch is a genuine base case ("no more
    continuation bytes allowed: this is the last byte"), reached by `vliSize` (fuel 8) for every 9-byte VLI; the twin shows
    that with ONE MORE unit it is never reached, and `vliSizeAux_fuel` that the value is the same. -/
def vliSizeAux? : Nat → Nat → Option Nat
  | 0, _ => none
  | f + 1, v => if v < 128 then some 1 else (vliSizeAux? f (v / 128)).map (1 + ·)

theorem vliSizeAux_reach : ∀ (fuel v : Nat), v < 128 ^ (fuel + 1) →
    vliSizeAux? (fuel + 1) v = some (vliSizeAux (fuel + 1) v)
  | 0, v, h => by
    have hv : v < 128 := by simpa using h
    simp [vliSizeAux?, vliSizeAux, hv]
  | f + 1, v, h => by
    rw [vliSizeAux?, vliSizeAux]
    split
    · rfl
    · rw [vliSizeAux_reach f (v / 128) (by rw [Nat.pow_succ] at h; exact Nat.div_lt_of_lt_mul (by omega))]
      rfl

/-- `vliSize` (fuel 8, after `v ≤ VLI_MAX < 128^9`): with 9 units the `0` branch is never reached and the value is `vliSize`'s -/
theorem vliSize_reach (v : Nat) (h : ¬ v > VLI_MAX) : vliSizeAux? 9 v = some (vliSize v) := by
  have hv : v < 128 ^ 9 := by unfold VLI_MAX at h; omega
  rw [vliSizeAux_reach 8 v hv]
  unfold vliSize
  rw [if_neg h, ← vliSizeAux_fuel 8 v hv 1]

end XzVerif.Vli

/-! ### Model/Container.lean -/
namespace XzVerif.Container
open XzVerif.Vli

/-- `indexDecodeRecords` with the out-of-fuel branch made visible -/
def indexDecodeRecords? : Nat → Nat → IndexAcc → List UInt8 → Option (Res (List IndexRecord × IndexAcc × List UInt8))
  | _, 0, a, b => some (.ok ([], a, b))
  | 0, _ + 1, _, _ => none
  | fuel + 1, count + 1, a, b =>
    match vliDecode b with
    | none => some (.error .dataError)
    | some (u, r1) =>
      if u < UNPADDED_SIZE_MIN ∨ u > UNPADDED_SIZE_MAX then some (.error .dataError)
      else match vliDecode r1 with
        | none => some (.error .dataError)
        | some (c, r2) =>
          match indexAppend a u c with
          | .error e => some (.error e)
          | .ok a' =>
            match indexDecodeRecords? fuel count a' r2 with
            | none => none
            | some (.error e) => some (.error e)
            | some (.ok (rs, a'', r3)) => some (.ok (⟨u, c⟩ :: rs, a'', r3))

theorem indexDecodeRecords_reach : ∀ (fuel count : Nat) (a : IndexAcc) (b : List UInt8), b.length < fuel →
    indexDecodeRecords? fuel count a b = some (indexDecodeRecords fuel count a b)
  | 0, _, _, _, h => by omega
  | f + 1, 0, a, b, _ => by simp [indexDecodeRecords?, indexDecodeRecords]
  | f + 1, count + 1, a, b, h => by
    simp only [indexDecodeRecords?, indexDecodeRecords]
    split
    · rename_i heq; simp only [heq]
    · rename_i u r1 h1
      simp only [h1]
      split
      · rfl
      · split
        · rename_i heq; simp only [heq]
        · rename_i c r2 h2
          simp only [h2]
          split
          · rename_i heq; simp only [heq]
          · rename_i heq; simp only [heq]
            have l1 := vliDecode_rest_lt _ _ _ h1
            have l2 := vliDecode_rest_lt _ _ _ h2
            rw [indexDecodeRecords_reach f count _ r2 (by omega)]
            cases indexDecodeRecords f count _ r2 with
            | error e => rfl
            | ok v => obtain ⟨rs, a'', r3⟩ := v; rfl

/-- `indexDecode` supplies `r1.length`, which an EMPTY remaining input with Records still owed does exhaust (the `0` branch
    then answers the same LZMA_DATA_ERROR that the truncated input gives one line later); with one more unit the branch is never
    reached, and the result is the one `indexDecode` computes. -/
theorem indexDecode_reach (count : Nat) (a : IndexAcc) (r1 : List UInt8) :
    indexDecodeRecords? (r1.length + 1) count a r1 = some (indexDecodeRecords r1.length count a r1) := by
  rw [indexDecodeRecords_reach (r1.length + 1) count a r1 (by omega),
    indexDecodeRecords_fuel r1.length count a r1 (Nat.le_refl _) 1]

end XzVerif.Container

namespace XzVerif.Index

/-! ### Model/IndexSpec.lean: the `lzma_vli_size` loop -/

def vliSizeGo? : Nat → Nat → Nat → Option Nat
  | 0, _, _ => none
  | f + 1, v, i => if v / 128 = 0 then some (i + 1) else vliSizeGo? f (v / 128) (i + 1)

theorem vliSizeGo_reach : ∀ (fuel v i : Nat), v < 128 ^ (fuel + 1) →
    vliSizeGo? (fuel + 1) v i = some (vliSizeGo (fuel + 1) v i)
  | 0, v, i, h => by
    have hv : v / 128 = 0 := Nat.div_eq_of_lt (by simpa using h)
    simp [vliSizeGo?, vliSizeGo, hv]
  | f + 1, v, i, h => by
    rw [vliSizeGo?, vliSizeGo]
    split
    · rfl
    · exact vliSizeGo_reach f (v / 128) (i + 1)
        (by rw [Nat.pow_succ] at h; exact Nat.div_lt_of_lt_mul (by omega))

/-- `vliSize` supplies 10 units after checking `v ≤ VLI_MAX < 128^9`: the `0` branch is never reached -/
theorem vliSize_reach (v : Nat) (h : ¬ v > VLI_MAX) : vliSizeGo? 10 v 0 = some (vliSize v) := by
  unfold vliSize
  rw [if_neg h]
  exact vliSizeGo_reach 9 v 0 (by unfold VLI_MAX at h; omega)

/-! ### Model/FileInfo.lean -/

def streamLoop? (file : Array UInt8) (memlimit : Nat) (firstCheck : Nat) : Nat → Bool → FI → Option (Ret × Option Impl.Index)
  | 0, _, _ => none
  | fuel + 1, needSeek, st =>
    match streamStep file memlimit firstCheck needSeek st with
    | .done r => some r
    | .next needSeek' st' => streamLoop? file memlimit firstCheck fuel needSeek' st'

theorem streamLoop_reach (file : Array UInt8) (ml fc : Nat) :
    ∀ (fuel : Nat) (ns : Bool) (st : FI), fiMeasure ns st < fuel →
      streamLoop? file ml fc fuel ns st = some (streamLoop file ml fc fuel ns st) := by
  intro fuel
  induction fuel with
  | zero => intro _ _ h; omega
  | succ f ih =>
    intro ns st h
    simp only [streamLoop?, streamLoop]
    split
    · rename_i heq; simp only [heq]
    · rename_i ns' st' hs
      simp only [hs]
      have := streamStep_next hs
      exact ih ns' st' (by omega)

/-- `fileInfo` supplies `file.size + 2` for the initial state: the out-of-fuel branch is never reached -/
theorem fileInfo_reach (file : Array UInt8) (ml fc : Nat) :
    streamLoop? file ml fc (file.size + 2) true
        { target := file.size, tempStart := 0, tempPos := 0, tempSize := 0, streamPadding := 0, combined := none }
      = some (streamLoop file ml fc (file.size + 2) true
        { target := file.size, tempStart := 0, tempPos := 0, tempSize := 0, streamPadding := 0, combined := none }) :=
  streamLoop_reach file ml fc (file.size + 2) true _ (by unfold fiMeasure; simp only [↓reduceIte]; omega)

/-! ### iterator loops -/

namespace Spec

def nextStreamFrom? (i : Index) (mode : Nat) : Nat → Nat → Option (Option Nat)
  | 0, _ => none
  | fuel + 1, si =>
    match i[si]? with
    | none => some none
    | some s => if mode ≥ 2 ∧ s.blocks.isEmpty then nextStreamFrom? i mode fuel (si + 1) else some (some si)

theorem nextStreamFrom_reach (i : Index) (mode : Nat) : ∀ (fuel si : Nat), i.length - si < fuel →
    nextStreamFrom? i mode fuel si = some (nextStreamFrom i mode fuel si)
  | 0, _, h => by omega
  | f + 1, si, h => by
    simp only [nextStreamFrom?, nextStreamFrom]
    split
    · rename_i heq; simp only [heq]
    · rename_i s heq
      simp only [heq]
      have hsi : si < i.length := (List.getElem?_eq_some_iff.mp heq).1
      split
      · exact nextStreamFrom_reach i mode f (si + 1) (by omega)
      · rfl

theorem advance_reach (i : Index) (mode si : Nat) :
    nextStreamFrom? i mode (i.length + 1) si = some (nextStreamFrom i mode (i.length + 1) si) :=
  nextStreamFrom_reach i mode (i.length + 1) si (by omega)

end Spec

namespace Impl

def bsearch? (g : Group) (target : Nat) : Nat → Nat → Nat → Option Nat
  | 0, _, _ => none
  | fuel + 1, left, right =>
    if left < right then
      let pos := left + (right - left) / 2
      if (g.recAt pos).uncompressedSum ≤ target then bsearch? g target fuel (pos + 1) right
      else bsearch? g target fuel left pos
    else some left

theorem bsearch_reach (g : Group) (t : Nat) : ∀ (fuel left right : Nat), right - left < fuel →
    bsearch? g t fuel left right = some (bsearch g t fuel left right)
  | 0, _, _, h => by omega
  | f + 1, left, right, h => by
    simp only [bsearch?, bsearch]
    split
    · split
      · exact bsearch_reach g t f _ right (by omega)
      · exact bsearch_reach g t f left _ (by omega)
    · rfl

theorem iterLocate_reach (g : Group) (t : Nat) :
    bsearch? g t (g.records.size + 1) 0 g.last = some (bsearch g t (g.records.size + 1) 0 g.last) :=
  bsearch_reach g t (g.records.size + 1) 0 g.last (by unfold Group.last; omega)

def nextStreamFrom? (i : Index) (mode : Nat) : Nat → Nat → Option (Option Nat)
  | 0, _ => none
  | fuel + 1, si =>
    match streamAt i si with
    | none => some none
    | some s => if mode ≥ 2 ∧ !hasGroups s then nextStreamFrom? i mode fuel (si + 1) else some (some si)

theorem nextStreamFrom?_sim {i : Index} (hi : Inv i) (mode : Nat) : ∀ (fuel a : Nat),
    Impl.nextStreamFrom? i mode fuel a = Spec.nextStreamFrom? (abs i) mode fuel a
  | 0, _ => rfl
  | fuel + 1, a => by
    unfold Impl.nextStreamFrom? Spec.nextStreamFrom?
    rw [streamAt_eq, abs_getElem?]
    cases hs : i.streams.toList[a]? with
    | none => rfl
    | some s =>
      simp only [Option.map_some]
      have hsi : StreamInv s := hi.streams s (List.mem_of_getElem? hs)
      rw [noGroups_eq hsi, nextStreamFrom?_sim hi mode fuel (a + 1)]

theorem nextStreamFrom_reach {i : Index} (hi : Inv i) (mode si : Nat) :
    nextStreamFrom? i mode (i.streams.count + 1) si = some (nextStreamFrom i mode (i.streams.count + 1) si) := by
  rw [nextStreamFrom?_sim hi, nextStreamFrom_sim hi, count_eq_length hi]
  exact Spec.advance_reach (abs i) mode si

/-- `iterAllGo` with the out-of-fuel branch made visible -/
def iterAllGo? (i : Index) (mode : Nat) : Nat → Iter → Option (List Spec.IterInfo)
  | 0, _ => none
  | fuel + 1, it =>
    match iterNext i it mode with
    | none => some []
    | some (it', info) => (iterAllGo? i mode fuel it').map (info :: ·)

/-- every unit of fuel spent yields a list element: a listing shorter than the fuel was ended by `iterNext`, not by the fuel -/
theorem iterAllGo_reach_of_length (i : Index) (mode : Nat) : ∀ (fuel : Nat) (it : Iter),
    (iterAllGo i mode fuel it).length < fuel → iterAllGo? i mode fuel it = some (iterAllGo i mode fuel it)
  | 0, _, h => by omega
  | f + 1, it, h => by
    unfold iterAllGo at h ⊢
    unfold iterAllGo?
    cases hn : iterNext i it mode with
    | none => rfl
    | some x =>
      obtain ⟨it', info⟩ := x
      rw [hn] at h
      simp only [List.length_cons] at h ⊢
      rw [iterAllGo_reach_of_length i mode f it' (by omega)]
      rfl

/-- `iterAll` supplies `iterFuel i` = (number of Records) + (number of Streams) + 2, more than any listing has items -/
theorem iterAll_reach {i : Index} (hi : Inv i) (mode : Nat) :
    iterAllGo? i mode (iterFuel i) Iter.rewind = some (iterAll i mode) := by
  have hlen : (iterAll i mode).length < iterFuel i := by
    rw [iterAll_refines hi mode, Spec.iterAll_eq_listing, iterFuel_eq hi]
    have h1 := List.length_filterMap_le (fun p => Spec.infoAt (abs i) p.1 p.2) (Spec.listingM (abs i) mode)
    have h2 := Spec.listingM_length_le (abs i) mode
    unfold Spec.iterFuel
    omega
  exact iterAllGo_reach_of_length i mode (iterFuel i) Iter.rewind hlen

end Impl
end XzVerif.Index
