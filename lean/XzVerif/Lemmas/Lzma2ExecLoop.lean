/-
  C01, LZMA2 decoder side, part 1: the sequence steps of `Lzma2.lzma2Loop` (SEQ_CONTROL … SEQ_COPY) as equations, the
  control bytes the encoder writes, and `dict_write`.
-/
import XzVerif.Lemmas.Lzma2EncExec
import XzVerif.Model.Lzma2

namespace XzVerif.LzmaExec
open XzVerif.RangeDec XzVerif.RangeEnc XzVerif.RangeCoder XzVerif.LzDict XzVerif.Lzma XzVerif.LzmaEnc XzVerif.LzmaSymDec
open XzVerif.LzmaSym XzVerif.LzmaSpec XzVerif.Lzma2Enc XzVerif.Lzma2

/-- the byte at the input cursor -/
def curByte (s : St) : Nat := (if hlt : s.inPos < s.inp.size then s.inp[s.inPos] else 0).toNat

theorem curByte_of_drop {s : St} {b : UInt8} {rest : List UInt8} (h : s.inp.data.toList.drop s.inPos = b :: rest) :
    s.inPos < s.inp.size ∧ curByte s = b.toNat ∧ s.inp.data.toList.drop (s.inPos + 1) = rest := by
  have hlt : s.inPos < s.inp.size := by
    by_contra hc
    have : s.inp.data.toList.drop s.inPos = [] := by
      apply List.drop_eq_nil_of_le
      rw [Array.length_toList, ByteArray.size_data]; omega
    rw [this] at h; cases h
  have hlt' : s.inPos < s.inp.data.toList.length := by
    rw [Array.length_toList, ByteArray.size_data]; exact hlt
  refine ⟨hlt, ?_, ?_⟩
  · have := List.drop_eq_getElem_cons hlt'
    rw [h] at this
    simp only [List.cons.injEq] at this
    unfold curByte
    rw [dif_pos hlt]
    show (s.inp.data[s.inPos]).toNat = b.toNat
    rw [this.1]; simp
  · rw [← List.drop_drop, h]; rfl

/-! ### one iteration of `lzma2Loop` in each sequence state -/

theorem loop_control (f : Nat) (s : St) (hlt : s.inPos < s.inp.size) (hseq : s.l2.seq = .control) :
    lzma2Loop (f + 1) s =
      (let a := controlStep (curByte s) s.l2.needProperties s.l2.needDictionaryReset
       let s1 : St := { s with inPos := s.inPos + 1 }
       if a.isEnd then (.streamEnd, s1)
       else if a.isError then (.dataError, s1)
       else if a.dictReset then (.ok, { controlApply s1 a with dp := { (controlApply s1 a).dp with needReset := true } })
       else lzma2Loop f (controlApply s1 a)) := by
  rw [lzma2Loop, if_neg (by simp [hlt])]
  simp only [hseq]
  rfl

theorem loop_u1 (f : Nat) (s : St) (hlt : s.inPos < s.inp.size) (hseq : s.l2.seq = .uncompressed1) :
    lzma2Loop (f + 1) s = lzma2Loop f (setL2 { s with inPos := s.inPos + 1 } fun l =>
      { l with uncompressedSize := l.uncompressedSize + (curByte s <<< 8), seq := .uncompressed2 }) := by
  rw [lzma2Loop, if_neg (by simp [hlt])]
  simp only [hseq]
  rfl

theorem loop_u2 (f : Nat) (s : St) (hlt : s.inPos < s.inp.size) (hseq : s.l2.seq = .uncompressed2) :
    lzma2Loop (f + 1) s =
      (let s1 := setL2 { s with inPos := s.inPos + 1 } fun l =>
         { l with uncompressedSize := l.uncompressedSize + curByte s + 1, seq := .compressed0 }
       lzma2Loop f { s1 with uncomp := some s1.l2.uncompressedSize, allowEopm := false, eopmValid := false }) := by
  rw [lzma2Loop, if_neg (by simp [hlt])]
  simp only [hseq]
  rfl

theorem loop_c0 (f : Nat) (s : St) (hlt : s.inPos < s.inp.size) (hseq : s.l2.seq = .compressed0) :
    lzma2Loop (f + 1) s = lzma2Loop f (setL2 { s with inPos := s.inPos + 1 } fun l =>
      { l with compressedSize := curByte s <<< 8, seq := .compressed1 }) := by
  rw [lzma2Loop, if_neg (by simp [hlt])]
  simp only [hseq]
  rfl

theorem loop_c1 (f : Nat) (s : St) (hlt : s.inPos < s.inp.size) (hseq : s.l2.seq = .compressed1) :
    lzma2Loop (f + 1) s = lzma2Loop f (setL2 { s with inPos := s.inPos + 1 } fun l =>
      { l with compressedSize := l.compressedSize + curByte s + 1, seq := l.nextSeq }) := by
  rw [lzma2Loop, if_neg (by simp [hlt])]
  simp only [hseq]
  rfl

theorem loop_props (f : Nat) (s : St) (hlt : s.inPos < s.inp.size) (hseq : s.l2.seq = .properties) (p : Props)
    (hp : propsDecode (curByte s) = some p) :
    lzma2Loop (f + 1) s =
      lzma2Loop f ((setL2 { s with inPos := s.inPos + 1 } fun l => { l with props := p, seq := .lzma }).resetLzma p) := by
  rw [lzma2Loop, if_neg (by simp [hlt])]
  simp only [hseq]
  have : (if hlt : s.inPos < s.inp.size then s.inp[s.inPos] else 0).toNat = curByte s := rfl
  simp only [this, hp]

theorem loop_lzma (f : Nat) (s : St) (hseq : s.l2.seq = .lzma) :
    lzma2Loop (f + 1) s =
      (let r := lzmaCall s
       let inUsed := r.2.inPos - s.inPos
       if inUsed > r.2.l2.compressedSize then (.dataError, r.2)
       else
         let s2 := setL2 r.2 fun l => { l with compressedSize := l.compressedSize - inUsed }
         if r.1 != .streamEnd then (r.1, s2)
         else if s2.l2.compressedSize != 0 then (.dataError, s2)
         else lzma2Loop f (setL2 s2 fun l => { l with seq := .control })) := by
  rw [lzma2Loop, if_neg (by simp [hseq])]
  simp only [hseq]

theorem loop_copy (f : Nat) (s : St) (hlt : s.inPos < s.inp.size) (hseq : s.l2.seq = .copy) :
    lzma2Loop (f + 1) s =
      (let r := dictWrite s s.l2.compressedSize
       let s2 := setL2 r.2 fun l => { l with compressedSize := l.compressedSize - r.1 }
       if s2.l2.compressedSize != 0 then (.ok, s2)
       else lzma2Loop f (setL2 s2 fun l => { l with seq := .control })) := by
  rw [lzma2Loop, if_neg (by simp [hlt])]
  simp only [hseq]


/-! ### the control bytes the encoder writes -/

theorem ctl_lzma (np nsr ndr : Bool) (x : Nat) (hx : x < 32) (h : ndr = true → np = true) :
    controlStep ((if np then (if ndr then 0x80 + 3 * 32 else 0x80 + 2 * 32) else (if nsr then 0x80 + 32 else 0x80)) + x) np ndr =
      { isLzma := true, newProps := np, stateResetNow := !np && nsr, uncompHigh := x, dictReset := ndr,
        needProps' := false, needDictReset' := false } := by
  cases np <;> cases nsr <;> cases ndr <;> simp at h <;> interval_cases x <;> rfl

theorem ctl_uncomp (np ndr : Bool) :
    controlStep (if ndr then 1 else 2) np ndr =
      { dictReset := ndr, needProps' := if ndr then true else np, needDictReset' := false } := by
  cases np <;> cases ndr <;> rfl

theorem ctl_end (np ndr : Bool) : controlStep 0 np ndr = { isEnd := true, needProps' := np, needDictReset' := ndr } := rfl

/-- `lzma_lzma_lclppb_decode` inverts `lzma_lzma_lclppb_encode` on valid lc/lp/pb -/
theorem propsDecode_encode (p : Props) (hp : PropsOk p) : propsDecode p.encode = some p := by
  obtain ⟨h1, h2⟩ := hp
  obtain ⟨lc, lp, pb⟩ := p
  simp only [] at h1 h2
  show propsDecode ((pb * 5 + lp) * 9 + lc) = some ⟨lc, lp, pb⟩
  unfold propsDecode
  have e1 : ((pb * 5 + lp) * 9 + lc) / (9 * 5) = pb := by omega
  have e2 : ((pb * 5 + lp) * 9 + lc - pb * 9 * 5) / 9 = lp := by omega
  have e3 : (pb * 5 + lp) * 9 + lc - pb * 9 * 5 - lp * 9 = lc := by omega
  rw [if_neg (by omega)]
  simp only [e1, e2, e3]
  rw [if_neg (by simp only [LZMA_LCLP_MAX]; omega)]

/-! ### bytes of the headers -/

theorem ofNat_toNat_of_lt (n : Nat) (h : n < 256) : (UInt8.ofNat n).toNat = n := by
  simp [Nat.mod_eq_of_lt h]

/-- fields the header steps do not touch -/
structure SameLz (s t : St) : Prop where
  inp : t.inp = s.inp
  range : t.range = s.range
  code : t.code = s.code
  initLeft : t.initLeft = s.initLeft
  probs : t.probs = s.probs
  state : t.state = s.state
  rep0 : t.rep0 = s.rep0
  rep1 : t.rep1 = s.rep1
  rep2 : t.rep2 = s.rep2
  rep3 : t.rep3 = s.rep3
  lc : t.lc = s.lc
  lp : t.lp = s.lp
  pb : t.pb = s.pb
  pending : t.pending = s.pending
  dp : t.dp = s.dp
  hist : t.hist = s.hist
  outBase : t.outBase = s.outBase

theorem SameLz.refl (s : St) : SameLz s s :=
  ⟨rfl, rfl, rfl, rfl, rfl, rfl, rfl, rfl, rfl, rfl, rfl, rfl, rfl, rfl, rfl, rfl, rfl⟩

theorem SameLz.trans {a b c : St} (h1 : SameLz a b) (h2 : SameLz b c) : SameLz a c :=
  ⟨h2.inp.trans h1.inp, h2.range.trans h1.range, h2.code.trans h1.code, h2.initLeft.trans h1.initLeft,
   h2.probs.trans h1.probs, h2.state.trans h1.state, h2.rep0.trans h1.rep0, h2.rep1.trans h1.rep1, h2.rep2.trans h1.rep2,
   h2.rep3.trans h1.rep3, h2.lc.trans h1.lc, h2.lp.trans h1.lp, h2.pb.trans h1.pb, h2.pending.trans h1.pending,
   h2.dp.trans h1.dp, h2.hist.trans h1.hist, h2.outBase.trans h1.outBase⟩

/-- SEQ_UNCOMPRESSED_1 … SEQ_COMPRESSED_1: the two size fields of an LZMA chunk header -/
theorem loop_sizes (f : Nat) (t : St) (u c : Nat) (_hu : u < 2097152) (hc : c < 65536) (rest : List UInt8)
    (hseq : t.l2.seq = .uncompressed1) (hhigh : t.l2.uncompressedSize = (u / 65536) <<< 16)
    (hin : t.inp.data.toList.drop t.inPos =
      UInt8.ofNat ((u / 256) % 256) :: UInt8.ofNat (u % 256) :: UInt8.ofNat (c / 256) :: UInt8.ofNat (c % 256) :: rest) :
    ∃ t4, lzma2Loop (f + 4) t = lzma2Loop f t4 ∧ SameLz t t4 ∧ t4.inPos = t.inPos + 4 ∧
      t4.inp.data.toList.drop t4.inPos = rest ∧ t4.uncomp = some (u + 1) ∧ t4.allowEopm = false ∧ t4.eopmValid = false ∧
      t4.l2.seq = t.l2.nextSeq ∧ t4.l2.nextSeq = t.l2.nextSeq ∧ t4.l2.compressedSize = c + 1 ∧
      t4.l2.needProperties = t.l2.needProperties ∧ t4.l2.needDictionaryReset = t.l2.needDictionaryReset ∧
      t4.l2.props = t.l2.props := by
  obtain ⟨hlt1, hb1, hd1⟩ := curByte_of_drop hin
  rw [show f + 4 = (f + 3) + 1 from rfl, loop_u1 _ t hlt1 hseq]
  generalize ht1 : (setL2 { t with inPos := t.inPos + 1 } fun l =>
      { l with uncompressedSize := l.uncompressedSize + (curByte t <<< 8), seq := L2Seq.uncompressed2 }) = t1
  have h1in : t1.inp.data.toList.drop t1.inPos = UInt8.ofNat (u % 256) :: UInt8.ofNat (c / 256) :: UInt8.ofNat (c % 256) :: rest := by
    rw [← ht1]; exact hd1
  have h1seq : t1.l2.seq = .uncompressed2 := by rw [← ht1]; rfl
  obtain ⟨hlt2, hb2, hd2⟩ := curByte_of_drop h1in
  rw [show f + 3 = (f + 2) + 1 from rfl, loop_u2 _ t1 hlt2 h1seq]
  simp only []
  generalize ht2 : ({ (setL2 { t1 with inPos := t1.inPos + 1 } fun l =>
        { l with uncompressedSize := l.uncompressedSize + curByte t1 + 1, seq := L2Seq.compressed0 }) with
      uncomp := some (setL2 { t1 with inPos := t1.inPos + 1 } fun l =>
        { l with uncompressedSize := l.uncompressedSize + curByte t1 + 1, seq := L2Seq.compressed0 }).l2.uncompressedSize,
      allowEopm := false, eopmValid := false } : St) = t2
  have h2in : t2.inp.data.toList.drop t2.inPos = UInt8.ofNat (c / 256) :: UInt8.ofNat (c % 256) :: rest := by
    rw [← ht2]; exact hd2
  have h2seq : t2.l2.seq = .compressed0 := by rw [← ht2]; rfl
  obtain ⟨hlt3, hb3, hd3⟩ := curByte_of_drop h2in
  rw [show f + 2 = (f + 1) + 1 from rfl, loop_c0 _ t2 hlt3 h2seq]
  generalize ht3 : (setL2 { t2 with inPos := t2.inPos + 1 } fun l =>
      { l with compressedSize := curByte t2 <<< 8, seq := L2Seq.compressed1 }) = t3
  have h3in : t3.inp.data.toList.drop t3.inPos = UInt8.ofNat (c % 256) :: rest := by rw [← ht3]; exact hd3
  have h3seq : t3.l2.seq = .compressed1 := by rw [← ht3]; rfl
  obtain ⟨hlt4, hb4, hd4⟩ := curByte_of_drop h3in
  rw [loop_c1 _ t3 hlt4 h3seq]
  refine ⟨_, rfl, ?_, ?_, hd4, ?_, ?_, ?_, ?_, ?_, ?_, ?_, ?_, ?_⟩
  · rw [← ht3, ← ht2, ← ht1]
    exact ⟨rfl, rfl, rfl, rfl, rfl, rfl, rfl, rfl, rfl, rfl, rfl, rfl, rfl, rfl, rfl, rfl, rfl⟩
  · rw [← ht3, ← ht2, ← ht1]; rfl
  · -- the uncompressed size
    rw [← ht3, ← ht2]
    show some (t1.l2.uncompressedSize + curByte t1 + 1) = some (u + 1)
    rw [hb2, ← ht1]
    show some (t.l2.uncompressedSize + (curByte t <<< 8) + (UInt8.ofNat (u % 256)).toNat + 1) = some (u + 1)
    rw [hhigh, hb1, ofNat_toNat_of_lt _ (by omega), ofNat_toNat_of_lt _ (by omega), Nat.shiftLeft_eq, Nat.shiftLeft_eq]
    congr 1; norm_num; omega
  · rw [← ht3, ← ht2]; rfl
  · rw [← ht3, ← ht2]; rfl
  · rw [← ht3, ← ht2, ← ht1]; rfl
  · rw [← ht3, ← ht2, ← ht1]; rfl
  · show t3.l2.compressedSize + curByte t3 + 1 = c + 1
    have : t3.l2.compressedSize = curByte t2 <<< 8 := by rw [← ht3]; rfl
    rw [this, hb3, hb4, ofNat_toNat_of_lt _ (by omega), ofNat_toNat_of_lt _ (by omega), Nat.shiftLeft_eq]
    norm_num; omega
  · rw [← ht3, ← ht2, ← ht1]; rfl
  · rw [← ht3, ← ht2, ← ht1]; rfl
  · rw [← ht3, ← ht2, ← ht1]; rfl

end XzVerif.LzmaExec
