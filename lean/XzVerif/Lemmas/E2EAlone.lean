/-
  C01 end-to-end, step 6: the .lzma payload.  `alone_encoder.c` stores the dictionary size ROUNDED UP
  (`XzEncode.aloneDictField`), so the decoder runs the LZMA1 model with a dictionary at least as large as the encoder's;
  a description valid for `d` is valid for `d' ≥ d` (`describes_mono`), which carries `lzma1_model_refines_spec` +
  `lzma1_decoder_model_roundtrip` over to the stored size.
-/
import XzVerif.Lemmas.E2EPayload
import XzVerif.Lemmas.XzEncodeAlone
import XzVerif.Lemmas.Lzma1ExecFinal

namespace XzVerif.E2E
open XzVerif XzVerif.Container XzVerif.XzEncode XzVerif.XzEncEnv XzVerif.LzmaEnc XzVerif.LzmaSym

theorem dictSmear_ge (d : Nat) : d ≤ dictSmear d := by
  unfold dictSmear
  exact Nat.le_trans (Nat.le_trans (Nat.le_trans (Nat.le_trans Nat.left_le_or Nat.left_le_or) Nat.left_le_or) Nat.left_le_or)
    Nat.left_le_or

theorem aloneDictField_ge (d : Nat) (hd : d < 4294967296) : d ≤ aloneDictField d := by
  have := dictSmear_ge (d - 1)
  unfold aloneDictField
  simp only []
  split
  · omega
  · rename_i h
    have h' : dictSmear (d - 1) = UINT32_MAX := by
      cases Nat.decEq (dictSmear (d - 1)) UINT32_MAX with
      | isTrue e => exact e
      | isFalse e => exact absurd e h
    rw [h']; unfold UINT32_MAX; omega

theorem aloneChain_inv (fs : List FilterOpts) (h : aloneChain fs = true) :
    ∃ lc lp pb d, fs = [.lzma1 FILTER_LZMA1 lc lp pb d] ∧ lclppbValid lc lp pb = true ∧ dictOk d = true := by
  unfold aloneChain at h
  split at h
  · rename_i id lc lp pb d
    simp only [Bool.and_eq_true, decide_eq_true_eq] at h
    obtain ⟨⟨hid, hv⟩, hd⟩ := h
    subst hid
    exact ⟨lc, lp, pb, d, rfl, hv, hd⟩
  · cases h

theorem xzChain_lzma1 (p : Lzma.Props) (id lc lp pb d : Nat) : xzChain p [.lzma1 id lc lp pb d] = false := by
  unfold xzChain
  simp

theorem rawInitStd_lzma1 (p : Lzma.Props) (id lc lp pb d : Nat) (h : rawInitStd p [.lzma1 id lc lp pb d] = .ok) :
    id = FILTER_LZMA1 ∧ lclppbValid lc lp pb = true ∧ dictOk d = true := by
  unfold rawInitStd at h
  split at h
  · subst h
    rename_i e he
    -- `validateChain` never answers LZMA_OK as an error code
    exfalso
    revert he
    unfold validateChain
    split
    · intro he; cases he
    · split
      · intro he; cases he; rename_i h2; revert h2
        unfold validateChainLoop
        simp only [List.map_cons, List.map_nil, FilterOpts.id]
        split
        · intro h2; cases h2
        · split
          · intro h2; cases h2
          · intro h2; simp [validateChainLoop] at h2
      · split
        · intro he; cases he
        · intro he; cases he
  · rw [xzChain_lzma1, Bool.false_or] at h
    split at h
    · rename_i hc
      obtain ⟨lc', lp', pb', d', he, hv, hd⟩ := aloneChain_inv _ hc
      cases he
      exact ⟨rfl, hv, hd⟩
    · cases h

/-- **The LZMA1 payload of a .lzma file**: executable encoder model with dictionary size `d`, executable decoder model
    with any dictionary size `d' ≥ d` (below 2^32), end marker required. -/
theorem lzma1_roundtrip_mono (p : Lzma.Props) (hp : PropsOk p) (d d' : Nat) (hdd : d ≤ d') (hd' : d' ≤ 4294967295)
    (y : List UInt8) (trace : Array TraceRec) (res : EncResult)
    (h : lzma1Encode p d true 0 (toBuf y) 0 trace = .ok res) (cap : Nat) (hcap : y.length < cap) :
    Lzma.lzmaDecode p d' none true res.out [] cap = { ret := .streamEnd, out := y, consumed := res.out.length } := by
  have he : ByteArray.empty ++ toBuf y = toBuf y := ByteArray.empty_append
  have h' : lzma1Encode p d true 0 (ByteArray.empty ++ toBuf y) ByteArray.empty.size trace = .ok res := by
    rw [he]; exact h
  obtain ⟨syms, hdesc, hspec⟩ := LzmaExec.lzma1_exec_refines p d (by omega) ByteArray.empty (toBuf y) trace res h'
  have hl0 : (ByteArray.empty).toList = [] := by rw [LzmaExec.toList_eq]; rfl
  have hl1 : (toBuf y).toList = y := by rw [LzmaExec.toList_eq]; exact hl_toBuf y
  rw [hl0, hl1] at hdesc
  rw [hl0] at hspec
  exact LzmaExec.lzmaDecode_spec_bytes p hp d' hd' [] y syms (LzmaExec.describes_mono hdd _ _ _ _ hdesc) res.out
    (LzmaExec.lzma1EncodeSpec_mono p hdd _ _ _ hspec) cap hcap

end XzVerif.E2E
