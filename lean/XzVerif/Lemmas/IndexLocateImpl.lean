/-
  C13 helper lemmas: `lzma_index_iter_locate` of the concrete model (descent in the Stream tree, descent in the group
  tree of that Stream, binary search over the cumulative sums of the group) returns the Block the specification's
  `locate` returns.
-/
import XzVerif.Lemmas.IndexIterInfo
import XzVerif.Lemmas.IndexLocate

namespace XzVerif.Index

/-! ### `index_tree_locate` on a tree whose in-order keys are sorted -/

namespace Tree
variable {α : Type}

/-- Either every key is above the target (the caller's `res` is returned), or the node returned is the last one in
    in-order whose key is `≤ target`: its successor (if any) has a key above the target. -/
theorem locateIdx_spec (key : α → Nat) (target : Nat) : ∀ (t : Tree α) (off : Nat) (res : Option (Nat × α)),
    t.toList.Pairwise (fun a b => key a ≤ key b) →
    ((∀ v ∈ t.toList, target < key v) ∧ t.locateIdx key target off res = res)
    ∨ (∃ k v, t.locateIdx key target off res = some (off + k, v) ∧ t.toList[k]? = some v ∧ key v ≤ target
        ∧ ∀ w, t.toList[k + 1]? = some w → target < key w)
  | nil, off, res, _ => Or.inl ⟨by simp [toList], rfl⟩
  | node l v r, off, res, hp => by
    simp only [toList] at hp
    rw [List.pairwise_append] at hp
    obtain ⟨hpl, hpvr, hlr⟩ := hp
    rw [List.pairwise_cons] at hpvr
    obtain ⟨hvr, hpr⟩ := hpvr
    have hsz : l.size = l.toList.length := size_eq_length l
    by_cases hv : key v > target
    · -- descend to the left
      have hstep : (node l v r).locateIdx key target off res = l.locateIdx key target off res := by
        simp only [locateIdx, hv, if_true]
      rcases locateIdx_spec key target l off res hpl with ⟨hall, hres⟩ | ⟨k, w, hres, hk, hkw, hnext⟩
      · left
        refine ⟨?_, by rw [hstep, hres]⟩
        intro x hx
        simp only [toList, List.mem_append, List.mem_cons] at hx
        rcases hx with hx | hx | hx
        · exact hall x hx
        · subst hx; exact hv
        · have := hvr x hx; omega
      · right
        have hkl : k < l.toList.length := (List.getElem?_eq_some_iff.mp hk).1
        refine ⟨k, w, by rw [hstep, hres], ?_, hkw, ?_⟩
        · simp only [toList]; rw [List.getElem?_append_left hkl]; exact hk
        · intro x hx
          simp only [toList] at hx
          by_cases hk1 : k + 1 < l.toList.length
          · rw [List.getElem?_append_left hk1] at hx; exact hnext x hx
          · rw [List.getElem?_append_right (by omega)] at hx
            have : k + 1 - l.toList.length = 0 := by omega
            rw [this] at hx
            have : x = v := by simpa using hx.symm
            subst this; exact hv
    · -- this node is a candidate; continue to the right
      have hstep : (node l v r).locateIdx key target off res
          = r.locateIdx key target (off + l.size + 1) (some (off + l.size, v)) := by
        simp only [locateIdx, hv, if_false]
      right
      rcases locateIdx_spec key target r (off + l.size + 1) (some (off + l.size, v)) hpr with
        ⟨hall, hres⟩ | ⟨k, w, hres, hk, hkw, hnext⟩
      · refine ⟨l.toList.length, v, by rw [hstep, hres, hsz], ?_, by omega, ?_⟩
        · simp only [toList]; rw [List.getElem?_append_right (Nat.le_refl _)]; simp
        · intro x hx
          simp only [toList] at hx
          rw [List.getElem?_append_right (by omega)] at hx
          have : l.toList.length + 1 - l.toList.length = 1 := by omega
          rw [this] at hx
          simp only [List.getElem?_cons_succ] at hx
          exact hall x (List.mem_of_getElem? hx)
      · refine ⟨l.toList.length + 1 + k, w, by rw [hstep, hres, hsz]; congr 2; omega, ?_, hkw, ?_⟩
        · simp only [toList]; rw [List.getElem?_append_right (by omega)]
          have : l.toList.length + 1 + k - l.toList.length = k + 1 := by omega
          rw [this]; simpa using hk
        · intro x hx
          simp only [toList] at hx
          rw [List.getElem?_append_right (by omega)] at hx
          have : l.toList.length + 1 + k + 1 - l.toList.length = (k + 1) + 1 := by omega
          rw [this] at hx
          simp only [List.getElem?_cons_succ] at hx
          exact hnext x hx

end Tree

/-! ### sums over prefixes are monotone -/

theorem sum_take_mono {α : Type} (f : α → Nat) (l : List α) {a b : Nat} (h : a ≤ b) :
    ((l.take a).map f).sum ≤ ((l.take b).map f).sum := by
  have : l.take a = (l.take b).take a := by rw [List.take_take]; congr 1; omega
  rw [this]
  exact sum_take_le_all f (l.take b) a

theorem sum_take_succ {α : Type} (f : α → Nat) (l : List α) (k : Nat) (x : α) (h : l[k]? = some x) :
    ((l.take (k + 1)).map f).sum = ((l.take k).map f).sum + f x := by
  have hk : k < l.length := (List.getElem?_eq_some_iff.mp h).1
  rw [List.take_succ_eq_append_getElem hk, (List.getElem?_eq_some_iff.mp h).2]
  simp

theorem take_of_getElem?_none {α : Type} (l : List α) (k : Nat) (h : l[k]? = none) : l.take k = l := by
  apply List.take_of_length_le
  exact List.getElem?_eq_none_iff.mp h

namespace Impl

/-! ### the binary search -/

theorem bsearch_spec (g : Group) (t : Nat)
    (hmono : ∀ a b, a ≤ b → b ≤ g.last → (g.recAt a).uncompressedSum ≤ (g.recAt b).uncompressedSum) :
    ∀ (fuel left right : Nat), left ≤ right → right ≤ g.last → right - left < fuel →
      (∀ j, j < left → (g.recAt j).uncompressedSum ≤ t) →
      (right = g.last ∨ t < (g.recAt right).uncompressedSum) →
      bsearch g t fuel left right ≤ g.last
      ∧ (∀ j, j < bsearch g t fuel left right → (g.recAt j).uncompressedSum ≤ t)
      ∧ (bsearch g t fuel left right = g.last ∨ t < (g.recAt (bsearch g t fuel left right)).uncompressedSum)
  | 0, _, _, _, _, hf, _, _ => by omega
  | fuel + 1, left, right, hlr, hrl, hf, hL, hR => by
    unfold bsearch
    by_cases hlt : left < right
    · simp only [hlt, if_true]
      by_cases hpos : (g.recAt (left + (right - left) / 2)).uncompressedSum ≤ t
      · simp only [hpos, if_true]
        apply bsearch_spec g t hmono fuel _ right (by omega) hrl (by omega) _ hR
        intro j hj
        have := hmono j (left + (right - left) / 2) (by omega) (by omega)
        omega
      · simp only [hpos, if_false]
        exact bsearch_spec g t hmono fuel left _ (by omega) (by omega) (by omega) hL (Or.inr (by omega))
    · simp only [hlt, if_false]
      have : left = right := by omega
      subst this
      exact ⟨hrl, hL, hR⟩

/-! ### sortedness of the keys -/

theorem streams_sorted {i : Index} (hi : Inv i) :
    i.streams.root.toList.Pairwise (fun a b => a.uncompressedBase ≤ b.uncompressedBase) := by
  rw [List.pairwise_iff_getElem]
  intro a b ha hb hab
  have e1 := (hi.bases a _ (List.getElem?_eq_getElem ha)).2.1
  have e2 := (hi.bases b _ (List.getElem?_eq_getElem hb)).2.1
  rw [e1, e2]
  exact sum_take_mono (fun s : StreamRec => s.uncompressedSize) (abs i) (by omega)

theorem length_flatMap_take_le {α β : Type} (f : α → List β) : ∀ (l : List α) (k : Nat),
    ((l.take k).flatMap f).length ≤ (l.flatMap f).length
  | [], _ => by simp
  | _ :: _, 0 => by simp
  | x :: r, k + 1 => by
    have := length_flatMap_take_le f r k
    simp only [List.take_succ_cons, List.flatMap_cons, List.length_append]; omega

theorem recsBefore_length_mono (gs : List Group) {a b : Nat} (h : a ≤ b) :
    (recsBefore gs a).length ≤ (recsBefore gs b).length := by
  unfold recsBefore
  have : gs.take a = (gs.take b).take a := by rw [List.take_take]; congr 1; omega
  rw [this]
  exact length_flatMap_take_le _ _ _

/-- the group base as a prefix sum of the Stream's Blocks -/
theorem group_base {s : Stream} (hs : StreamInv s) {gi : Nat} {g : Group} (hg : s.groups.toList[gi]? = some g) :
    g.uncompressedBase = uncompSize ((absStream s).blocks.take (recsBefore s.groups.toList gi).length) := by
  have hpos : 0 < g.records.size := by
    have := hs.groupsNe g (List.mem_of_getElem? hg); omega
  have := (group_rec_facts hs hg (rec := 0) hpos).1
  simpa using this

theorem groups_sorted {s : Stream} (hs : StreamInv s) :
    s.groups.root.toList.Pairwise (fun a b => a.uncompressedBase ≤ b.uncompressedBase) := by
  rw [List.pairwise_iff_getElem]
  intro a b ha hb hab
  have e1 := group_base hs (gi := a) (List.getElem?_eq_getElem ha)
  have e2 := group_base hs (gi := b) (List.getElem?_eq_getElem hb)
  rw [e1, e2]
  exact sum_take_mono (fun b : Block => b.uncompressed) _ (recsBefore_length_mono _ (by omega))

/-- cumulative uncompressed sum of Record `rec` of group `gi`: the sum of the Blocks up to and including it -/
theorem recAt_sum {s : Stream} (hs : StreamInv s) {gi rec : Nat} {g : Group} (hg : s.groups.toList[gi]? = some g)
    (hrec : rec < g.records.size) :
    (g.recAt rec).uncompressedSum
      = uncompSize ((absStream s).blocks.take ((recsBefore s.groups.toList gi).length + rec + 1)) := by
  obtain ⟨_, _, _, b, hb, _, e⟩ := group_rec_facts hs hg hrec
  rw [e]
  exact (sum_take_succ (fun b : Block => b.uncompressed) _ _ b hb).symm

/-- the end of group `gi`: the base of the next group, or the end of the Stream -/
theorem group_end {s : Stream} (hs : StreamInv s) {gi : Nat} {g : Group} (hg : s.groups.toList[gi]? = some g) :
    (∀ g', s.groups.toList[gi + 1]? = some g' → g'.uncompressedBase = (g.recAt g.last).uncompressedSum)
    ∧ (s.groups.toList[gi + 1]? = none → uncompSize (absStream s).blocks = (g.recAt g.last).uncompressedSum) := by
  have hpos : 0 < g.records.size := by
    have := hs.groupsNe g (List.mem_of_getElem? hg); omega
  have hlast : g.last < g.records.size := by unfold Group.last; omega
  have hsum := recAt_sum hs hg hlast
  have hn : (recsBefore s.groups.toList gi).length + g.last + 1 = (recsBefore s.groups.toList gi).length + g.records.size := by
    unfold Group.last; omega
  rw [hn] at hsum
  constructor
  · intro g' hg'
    rw [group_base hs hg', recsBefore_succ hg, hsum]
    simp
  · intro hnone
    rw [hsum]
    have hall : s.allRecs.length = (recsBefore s.groups.toList gi).length + g.records.size := by
      rw [allRecs_split hg]
      have : s.groups.toList.drop (gi + 1) = [] := by
        apply List.drop_eq_nil_of_le
        exact List.getElem?_eq_none_iff.mp hnone
      rw [this]; simp
    rw [← hall]
    have : (absStream s).blocks.length = s.allRecs.length := blocksOfRecs_length _ _ _
    rw [← this, List.take_length]

/-! ### the located Block contains the target -/

/-- What `lzma_index_iter_locate` finds for a target inside the data: Stream `si`, group `gi`, Record `rec`, and that
    Block (number `n + rec` of the Stream in the specification) contains the target. -/
theorem iterLocate_some {i : Index} (hi : Inv i) {t : Nat} (ht : ¬ i.uncompressedSize ≤ t) :
    ∃ si s gi g rec, iterLocate i t = some (iterSetInfo i si s (some gi) rec)
      ∧ i.streams.toList[si]? = some s ∧ s.groups.toList[gi]? = some g ∧ rec < g.records.size
      ∧ Spec.Contains (abs i) si ((recsBefore s.groups.toList gi).length + rec) t := by
  have htot : t < Spec.uncompressedSize (abs i) := by rw [← hi.unc]; omega
  -- the Stream
  obtain ⟨front, last, hfl⟩ := exists_snoc hi.ne
  have hfirst : ∃ s0, i.streams.root.toList[0]? = some s0 ∧ s0.uncompressedBase = 0 := by
    have hne := hi.ne
    unfold CTree.toList at hne
    cases hl : i.streams.root.toList with
    | nil => exact absurd hl hne
    | cons s0 r =>
      refine ⟨s0, by simp, ?_⟩
      have := (hi.bases 0 s0 (by unfold CTree.toList; rw [hl]; simp)).2.1
      simpa [Spec.uncompressedSize] using this
  rcases Tree.locateIdx_spec (fun s : Stream => s.uncompressedBase) t i.streams.root 0 none (streams_sorted hi) with
    ⟨hall, _⟩ | ⟨si, s, hres, hs, hkey, hnext⟩
  · obtain ⟨s0, h0, hb0⟩ := hfirst
    have := hall s0 (List.mem_of_getElem? h0)
    omega
  have hs' : i.streams.toList[si]? = some s := hs
  have hsi : StreamInv s := hi.streams s (List.mem_of_getElem? hs')
  obtain ⟨_, b2, _, _⟩ := hi.bases si s hs'
  -- the target is inside this Stream
  have habs_si : (abs i)[si]? = some (absStream s) := by rw [abs_getElem?, hs']; rfl
  have hin : t - s.uncompressedBase < uncompSize (absStream s).blocks := by
    have hsucc := sum_take_succ (fun s : StreamRec => s.uncompressedSize) (abs i) si (absStream s) habs_si
    have hsz : (absStream s).uncompressedSize = uncompSize (absStream s).blocks := rfl
    cases hn : i.streams.root.toList[si + 1]? with
    | some s' =>
      have := hnext s' hn
      have e := (hi.bases (si + 1) s' hn).2.1
      unfold Spec.uncompressedSize at e b2
      omega
    | none =>
      have hnone : (abs i)[si + 1]? = none := by
        rw [abs_getElem?]; unfold CTree.toList; rw [hn]; rfl
      have := take_of_getElem?_none _ _ hnone
      unfold Spec.uncompressedSize at htot b2
      rw [this] at hsucc
      omega
  -- the group
  have hgne : s.groups.root.toList ≠ [] := by
    intro h
    have := (blocks_nil_iff hsi).mpr h
    rw [this] at hin; simp [uncompSize] at hin
  rcases Tree.locateIdx_spec (fun g : Group => g.uncompressedBase) (t - s.uncompressedBase) s.groups.root 0 none
      (groups_sorted hsi) with ⟨hall, _⟩ | ⟨gi, g, hgres, hg, hgkey, hgnext⟩
  · cases hl : s.groups.root.toList with
    | nil => exact absurd hl hgne
    | cons g0 r =>
      have h0 : s.groups.toList[0]? = some g0 := by unfold CTree.toList; rw [hl]; simp
      have := group_base hsi h0
      have hlt := hall g0 (by rw [hl]; simp)
      simp [recsBefore, uncompSize] at this
      omega
  have hg' : s.groups.toList[gi]? = some g := hg
  have hpos : 0 < g.records.size := by
    have := hsi.groupsNe g (List.mem_of_getElem? hg'); omega
  have hlastlt : g.last < g.records.size := by unfold Group.last; omega
  -- the target is before the end of this group
  have hend : t - s.uncompressedBase < (g.recAt g.last).uncompressedSum := by
    obtain ⟨e1, e2⟩ := group_end hsi hg'
    cases hn : s.groups.root.toList[gi + 1]? with
    | some g' =>
      have := hgnext g' hn
      rw [← e1 g' hn]; exact this
    | none => rw [← e2 hn]; exact hin
  -- the binary search
  have hmono : ∀ a b, a ≤ b → b ≤ g.last → (g.recAt a).uncompressedSum ≤ (g.recAt b).uncompressedSum := by
    intro a b hab hb
    rw [recAt_sum hsi hg' (rec := a) (by omega), recAt_sum hsi hg' (rec := b) (by omega)]
    exact sum_take_mono (fun b : Block => b.uncompressed) _ (by omega)
  obtain ⟨r1, r2, r3⟩ := bsearch_spec g (t - s.uncompressedBase) hmono (g.records.size + 1) 0 g.last (by omega)
    (Nat.le_refl _) (by unfold Group.last; omega) (by intro j hj; omega) (Or.inl rfl)
  generalize hleft : bsearch g (t - s.uncompressedBase) (g.records.size + 1) 0 g.last = left at r1 r2 r3
  have hleftlt : left < g.records.size := by omega
  have hupper : t - s.uncompressedBase < (g.recAt left).uncompressedSum := by
    rcases r3 with r3 | r3
    · rw [r3]; exact hend
    · exact r3
  refine ⟨si, s, gi, g, left, ?_, hs', hg', hleftlt, ?_⟩
  · unfold iterLocate
    rw [if_neg ht, hres]
    simp only [Nat.zero_add]
    rw [hgres]
    simp only [Nat.zero_add, hleft]
  · obtain ⟨f1, _, _, b, hb, _, f5⟩ := group_rec_facts hsi hg' hleftlt
    refine ⟨absStream s, b, habs_si, hb, ?_, ?_⟩
    · unfold Spec.ufo
      rw [habs_si]
      simp only [Option.map_some, Option.getD_some]
      rw [← f1, ← b2]
      by_cases h0 : left = 0
      · simp only [h0, if_true]; omega
      · simp only [h0, if_false]
        have := r2 (left - 1) (by omega)
        omega
    · unfold Spec.ufo
      rw [habs_si]
      simp only [Option.map_some, Option.getD_some]
      rw [← b2]
      rw [f5] at hupper
      omega

/-- `lzma_index_iter_locate` of the concrete model shows exactly what the specification's `locate` shows -/
theorem iterLocate_refines {i : Index} (hi : Inv i) (t : Nat) :
    (iterLocate i t).map (·.2) = Spec.locate (abs i) t := by
  by_cases ht : i.uncompressedSize ≤ t
  · have h1 : iterLocate i t = none := by unfold iterLocate; rw [if_pos ht]
    have h2 : Spec.locatePos (abs i) t = none := Spec.locatePos_none (by rw [← hi.unc]; exact ht)
    rw [h1]; unfold Spec.locate; rw [h2]; rfl
  · obtain ⟨si, s, gi, g, rec, hloc, hs, hg, hrec, hc⟩ := iterLocate_some hi ht
    obtain ⟨p, hp⟩ := Spec.locatePos_some (i := abs i) (t := t) (by rw [← hi.unc]; omega)
    obtain ⟨e1, e2⟩ := Spec.contains_unique (Spec.locatePos_contains hp) hc
    unfold Spec.locate
    rw [hloc, hp]
    simp only [Option.map_some, Option.bind_some, e1, e2]
    exact (infoAt_of_group hi hs hg hrec).symm

end Impl
end XzVerif.Index
