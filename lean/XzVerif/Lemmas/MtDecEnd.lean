/-
  threads_end: every worker is told to exit before any is joined, a joined worker has exited, and an exited worker takes no
  further step (so nothing touches its freed structures).
-/
import XzVerif.Lemmas.MtDecAlloc2

namespace XzVerif.MtDec

/-- No transition of an exited worker is enabled. -/
theorem exited_stuck {s : State} {l : Label} {i : Nat} (hl : l.worker? = some i) (hp : (getW s i).pc = .exited) :
    step s l = none := by
  cases l <;> simp only [Label.worker?, Option.some.injEq, reduceCtorEq] at hl <;> subst hl <;> simp only [step]
  all_goals (repeat' split)
  all_goals first
    | rfl
    | (exfalso; simp_all; done)

structure EndInv (s : State) : Prop where
  set : ∀ j k, s.pc = .endSet j k → ∀ i, i < j → i < s.workers.length → (getW s i).st = .exit
  join : ∀ j k, s.pc = .endJoin j k →
    (∀ i, i < s.workers.length → (getW s i).st = .exit) ∧ (∀ i, i < j → i < s.workers.length → (getW s i).pc = .exited)

theorem EndInv.init (cfg : Cfg) (blocks : List Block) : EndInv (init cfg blocks) := by
  constructor <;> simp [MtDec.init]

/-- Worker steps keep THR_EXIT and leave exited workers alone. -/
theorem worker_keeps_exit {s s' : State} {l : Label} {i : Nat} (hl : l.worker? = some i) (hs : step s l = some s') :
    s'.pc = s.pc ∧ s'.workers.length = s.workers.length ∧
    (∀ j, (getW s j).st = .exit → (getW s' j).st = .exit) ∧ (∀ j, (getW s j).pc = .exited → (getW s' j).pc = .exited) := by
  have sh := workerShape hl hs
  refine ⟨sh.pc, sh.len, ?_, ?_⟩
  · intro j hj
    by_cases e : i = j
    · subst e; exact sh.stExit hj
    · rw [sh.getW_ne e]; exact hj
  · intro j hj
    by_cases e : i = j
    · subst e
      have := exited_stuck hl hj
      rw [this] at hs; cases hs
    · rw [sh.getW_ne e]; exact hj

theorem EndInv.worker {s s' : State} {l : Label} {i : Nat} (h : EndInv s) (hl : l.worker? = some i)
    (hs : step s l = some s') : EndInv s' := by
  obtain ⟨e1, e2, e3, e4⟩ := worker_keeps_exit hl hs
  refine ⟨?_, ?_⟩
  · intro j k hp a ha hal
    rw [e1] at hp; rw [e2] at hal
    exact e3 a (h.set j k hp a ha hal)
  · intro j k hp
    rw [e1] at hp
    have := h.join j k hp
    refine ⟨fun a ha => e3 a (this.1 a (e2 ▸ ha)), fun a ha hal => e4 a (this.2 a ha (e2 ▸ hal))⟩

theorem EndInv.main {s s' : State} {l : Label} (h : EndInv s) (hl : l.worker? = none) (hs : step s l = some s') :
    EndInv s' := by
  obtain ⟨h1, h2⟩ := h
  cases l <;> simp only [Label.worker?, reduceCtorEq] at hl <;> simp only [step] at hs
  case rowIter c =>
    have hk : (rowKOf s'.pc).isSome = true := by
      have key : ∀ k w, s' = rowIterate s k w → (rowKOf s'.pc).isSome = true := by
        intro k w e; rw [e, (rowIterate_core s k w).2]; rfl
      split at hs
      · cases hs; exact key _ _ rfl
      · split at hs
        · cases hs; exact key _ _ rfl
        · cases hs
      · cases hs; exact key _ _ rfl
      · cases hs
    refine ⟨(fun j k hp => by rw [hp] at hk; simp [rowKOf] at hk), (fun j k hp => by rw [hp] at hk; simp [rowKOf] at hk)⟩
  case enablePartial =>
    split at hs
    · cases hs; exact ⟨(fun j k hp => by cases hp), (fun j k hp => by cases hp)⟩
    · cases hs
  case endSet =>
    split at hs
    case h_2 => cases hs
    rename_i j k hpc
    split at hs
    · rename_i hj
      cases hs
      refine ⟨?_, (fun _ _ hp => by cases hp)⟩
      intro j' k' hp a ha hal
      injection hp with e1 e2
      subst e1
      simp only [setW_workers_length] at hal
      show (getW (MtDec.setW s j (signalW { getW s j with st := .exit })) a).st = .exit
      rw [getW_setW s j a _ hj]
      split
      · rfl
      · exact h1 j k hpc a (by omega) hal
    · rename_i hj
      cases hs
      refine ⟨(fun _ _ hp => by cases hp), ?_⟩
      intro j' k' hp
      injection hp with e1 e2
      subst e1
      exact ⟨fun a ha => h1 j k hpc a (by have : a < s.workers.length := ha; omega) ha, fun a ha => by omega⟩
  case endJoin =>
    split at hs
    case h_2 => cases hs
    rename_i j k hpc
    have hj := h2 j k hpc
    split at hs
    · split at hs
      · rename_i hx
        cases hs
        refine ⟨(fun _ _ hp => by cases hp), ?_⟩
        intro j' k' hp
        injection hp with e1 e2
        subst e1
        refine ⟨hj.1, ?_⟩
        intro a ha hal
        by_cases e : a < j
        · exact hj.2 a e hal
        · have : a = j := by omega
          subst this
          show (getW s a).pc = .exited
          simpa using hx
      · cases hs
    · cases k <;> (cases hs; exact ⟨(fun _ _ hp => by cases hp), (fun _ _ hp => by cases hp)⟩)
  all_goals (repeat' split at hs)
  all_goals first | (cases hs; done) | skip
  all_goals (cases hs)
  all_goals (constructor <;> intro j k hp <;> first
    | (cases hp; done)
    | (simp_all; done)
    | (intro a ha hal; injection hp with e1 e2; omega)
    | (intro a ha hal; simp_all; omega))

theorem EndInv.reachable {cfg : Cfg} {blocks : List Block} {s : State} (h : Reachable cfg blocks s) : EndInv s := by
  induction h with
  | init => exact EndInv.init cfg blocks
  | @step s s' l _ hs ih =>
    cases hw : l.worker? with
    | some i => exact ih.worker hw hs
    | none => exact ih.main hw hs

end XzVerif.MtDec
