/-
  The .lzma header written by `XzEncode.aloneEncode` (alone_encoder.c) is read back by the .lzma decoder model
  (Model/Alone.lean, alone_decoder.c) as the same lc/lp/pb, the stored dictionary size and "size unknown", and the
  whole file decodes to the input given the contract of the LZMA1 payload coder.  Kernel proofs, core Lean only.
-/
import XzVerif.Lemmas.XzEncodeBuf
import XzVerif.Model.Alone
namespace XzVerif.XzEncode
open XzVerif XzVerif.Vli XzVerif.Container

theorem alone_lclppbDecode_eq (b : Nat) : Alone.lclppbDecode b = Container.lclppbDecode b := rfl

theorem leNat_le32 (d : Nat) (h : d < 4294967296) (t : List UInt8) : Alone.leNat ((le32 d ++ t).take 4) = d := by
  have e : (le32 d ++ t).take 4 = le32 d := List.take_left' (le32_length d)
  rw [e]
  simp only [le32, Alone.leNat]
  rw [u8_toNat_ofNat _ (Nat.mod_lt _ (by decide)), u8_toNat_ofNat _ (Nat.mod_lt _ (by decide)),
    u8_toNat_ofNat _ (Nat.mod_lt _ (by decide)), u8_toNat_ofNat _ (Nat.mod_lt _ (by decide))]
  omega

theorem or_shift_lt (d k : Nat) (h : d < 4294967296) : d ||| (d >>> k) < 4294967296 := by
  have h2 : d >>> k < 2 ^ 32 := Nat.lt_of_le_of_lt (Nat.shiftRight_le d k) h
  exact Nat.or_lt_two_pow (n := 32) h h2

theorem dictSmear_lt (d : Nat) (h : d < 4294967296) : dictSmear d < 4294967296 := by
  unfold dictSmear
  exact or_shift_lt _ 16 (or_shift_lt _ 8 (or_shift_lt _ 4 (or_shift_lt _ 3 (or_shift_lt _ 2 h))))

theorem aloneDictField_lt (d : Nat) (h : d < 4294967296) : aloneDictField d < 4294967296 := by
  have := dictSmear_lt (d - 1) (by omega)
  unfold aloneDictField
  simp only []
  split
  · rename_i hne; unfold UINT32_MAX at hne; omega
  · exact this

/-- **.lzma output is valid.**  What `lzma_alone_encoder` writes is accepted by `lzma_alone_decoder` (not the picky mode of
    the auto decoder; memory limit permitting) and decodes to the input: the properties byte gives lc/lp/pb back, the
    dictionary size field is the rounded-up size the encoder stored, the uncompressed size field says "unknown" so the
    payload decoder is run with the end marker required. -/
theorem aloneEncode_decodes (P : Alone.Payload) (E : EncEnv) (lc lp pb dict : Nat) (data out : List UInt8) (cfg : Alone.Cfg)
    (hd : dict < 4294967296) (hnp : cfg.picky = false)
    (hmem : cfg.memK + aloneDictField dict ≤ Alone.effMemlimit cfg.memlimit)
    (hpc : P (Alone.aloneOpts lc lp pb (aloneDictField dict) Alone.UNKNOWN64)
              (E.encPayload [.lzma1 FILTER_LZMA1 lc lp pb dict] data)
            = ⟨.streamEnd, data, (E.encPayload [.lzma1 FILTER_LZMA1 lc lp pb dict] data).length⟩)
    (h : aloneEncode E lc lp pb dict data = .ok out) :
    Alone.aloneDecode P cfg out = { ret := .streamEnd, out := data, consumed := out.length } := by
  unfold aloneEncode at h
  cases hb : lclppbEncode lc lp pb with
  | none => simp [hb] at h
  | some b =>
    simp only [hb] at h
    by_cases g1 : dict < DICT_SIZE_MIN
    · rw [if_pos g1] at h; simp at h
    rw [if_neg g1] at h
    by_cases g2 : E.rawInit [.lzma1 FILTER_LZMA1 lc lp pb dict] ≠ .ok
    · rw [if_pos g2] at h; simp at h
    rw [if_neg g2] at h
    simp only [Except.ok.injEq] at h
    subst h
    have hdec := lclppb_decode_encode lc lp pb b hb
    have hb224 : b < 256 := by
      unfold lclppbDecode at hdec
      split at hdec
      · simp at hdec
      · omega
    generalize hp : E.encPayload [.lzma1 FILTER_LZMA1 lc lp pb dict] data = p at hpc ⊢
    unfold Alone.aloneDecode
    simp only []
    rw [u8_toNat_ofNat b hb224, alone_lclppbDecode_eq, hdec]
    simp only []
    rw [if_neg (by simp [le32])]
    have e1 : le32 (aloneDictField dict) ++ List.replicate 8 0xFF ++ p
        = le32 (aloneDictField dict) ++ (List.replicate 8 0xFF ++ p) := by simp
    rw [e1, leNat_le32 _ (aloneDictField_lt dict hd), hnp]
    simp only [Bool.false_and, Bool.false_eq_true, if_false]
    rw [List.drop_left' (le32_length _)]
    rw [if_neg (by simp)]
    have e2 : Alone.leNat ((List.replicate 8 (0xFF : UInt8) ++ p).take 8) = Alone.UNKNOWN64 := by
      rw [List.take_left' (by simp)]; decide
    rw [e2, if_neg (by omega), List.drop_left' (by simp), hpc]
    simp [le32]
    omega

end XzVerif.XzEncode
