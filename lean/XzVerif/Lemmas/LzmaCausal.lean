/-
  Causality (locality in the input) of the LZMA symbol decoder of Model/Lzma.lean, part 1: the decoding monad.

  Two runs of the same monadic decoding step on states that differ ONLY in their input buffers, the two buffers agreeing on
  their first `n` bytes (both at least `n` long), either proceed in lock step (same value / same exit, final states again
  related), or BOTH have "diverged": the cursor is beyond `n`, or the run stopped for lack of input at the end of its
  buffer.  Together with "the cursor never moves backwards" this is compositional (`Loc.bind`).

  Part 2 (LzmaCausalCall.lean) lifts this to `lzmaCall`, part 3 (LzmaCausalLz.lean) to `lzma2Call`/`decodeBuffer`/`rawDecode`.
  Core Lean only.
-/
import XzVerif.Model.Lzma

namespace XzVerif.Lzma
open XzVerif.RangeDec XzVerif.LzDict

/-- the same decoder state over another input buffer -/
def St.withInp (s : St) (b : ByteArray) : St := { s with inp := b }

/-- the buffers agree on their first `n` bytes -/
structure Agree (n : Nat) (b b' : ByteArray) : Prop where
  le : n ≤ b.size
  le' : n ≤ b'.size
  eq : ∀ i (h : i < b.size) (h' : i < b'.size), i < n → b[i] = b'[i]

/-- the states differ only in the input buffer, and the buffers agree on the first `n` bytes -/
def Rel (n : Nat) (s s' : St) : Prop := ∃ u b b', s = St.withInp u b ∧ s' = St.withInp u b' ∧ Agree n b b'

theorem Rel.inPos {n : Nat} {s s' : St} (h : Rel n s s') : s'.inPos = s.inPos := by
  obtain ⟨u, b, b', rfl, rfl, _⟩ := h; rfl

/-- lock step: same kind of outcome, same value or exit reason, related final states -/
def MSame {α : Type} (n : Nat) : EStateM.Result Exit St α → EStateM.Result Exit St α → Prop
  | .ok a t, .ok a' t' => a = a' ∧ Rel n t t'
  | .error e t, .error e' t' => e = e' ∧ Rel n t t'
  | _, _ => False

/-- diverged: the cursor is beyond the common prefix, or the run starved (at the end of its buffer) at or beyond it -/
def MDiv {α : Type} (n : Nat) (r : EStateM.Result Exit St α) : Prop :=
  n < (resSt r).inPos ∨ ∃ t, r = .error .needInput t ∧ n ≤ t.inPos

def MOut {α : Type} (n : Nat) (r r' : EStateM.Result Exit St α) : Prop := MSame n r r' ∨ (MDiv n r ∧ MDiv n r')

/-- `x` is local in the input -/
structure Loc {α : Type} (x : M α) : Prop where
  mono : ∀ s, s.inPos ≤ (resSt (x s)).inPos
  rel : ∀ n s s', Rel n s s' → MOut n (x s) (x s')

theorem MDiv.bind {α β : Type} {n : Nat} {x : M α} {f : α → M β} {s : St}
    (hf : ∀ a t, t.inPos ≤ (resSt (f a t)).inPos) (h : MDiv n (x s)) : MDiv n ((x >>= f) s) := by
  show MDiv n (EStateM.bind x f s)
  unfold EStateM.bind
  cases hx : x s with
  | ok a t =>
    rw [hx] at h
    simp only []
    rcases h with h | ⟨t', h, _⟩
    · left
      have := hf a t
      have h' : n < t.inPos := h
      omega
    · cases h
  | error e t =>
    rw [hx] at h
    simp only []
    rcases h with h | ⟨t', h, h2⟩
    · left; exact h
    · cases h
      right; exact ⟨t, rfl, h2⟩

theorem Loc.bind {α β : Type} {x : M α} {f : α → M β} (hx : Loc x) (hf : ∀ a, Loc (f a)) : Loc (x >>= f) where
  mono := by
    intro s
    show s.inPos ≤ (resSt (EStateM.bind x f s)).inPos
    unfold EStateM.bind
    have h1 := hx.mono s
    cases hxs : x s with
    | ok a t =>
      rw [hxs] at h1
      have h2 := (hf a).mono t
      simp only []
      exact Nat.le_trans h1 h2
    | error e t =>
      rw [hxs] at h1
      exact h1
  rel := by
    intro n s s' hr
    rcases hx.rel n s s' hr with hs | ⟨h1, h2⟩
    · show MOut n (EStateM.bind x f s) (EStateM.bind x f s')
      unfold EStateM.bind
      cases h1 : x s with
      | ok a t =>
        cases h2 : x s' with
        | ok a' t' =>
          rw [h1, h2] at hs
          obtain ⟨rfl, hrel⟩ := hs
          simp only []
          exact (hf a).rel n t t' hrel
        | error e' t' => rw [h1, h2] at hs; exact absurd hs id
      | error e t =>
        cases h2 : x s' with
        | ok a' t' => rw [h1, h2] at hs; exact absurd hs id
        | error e' t' =>
          rw [h1, h2] at hs
          simp only []
          exact Or.inl hs
    · exact Or.inr ⟨MDiv.bind (fun a t => (hf a).mono t) h1, MDiv.bind (fun a t => (hf a).mono t) h2⟩

theorem Loc.pure {α : Type} (a : α) : Loc (pure a : M α) where
  mono := fun _ => Nat.le_refl _
  rel := fun n s s' hr => Or.inl (show MSame n (EStateM.Result.ok a s) (EStateM.Result.ok a s') from ⟨rfl, hr⟩)

theorem Loc.throw {α : Type} (e : Exit) : Loc (throw e : M α) where
  mono := fun _ => Nat.le_refl _
  rel := fun n s s' hr => Or.inl (show MSame n (EStateM.Result.error e s) (EStateM.Result.error e s') from ⟨rfl, hr⟩)

/-- a step that neither looks at the input buffer nor moves the cursor backwards -/
theorem Loc.step {α : Type} (g : St → α) (u : St → St)
    (hg : ∀ s b, g (St.withInp s b) = g s) (hu : ∀ s b, u (St.withInp s b) = St.withInp (u s) b)
    (hpos : ∀ s, s.inPos ≤ (u s).inPos) :
    Loc (fun s => EStateM.Result.ok (g s) (u s) : M α) where
  mono := fun s => hpos s
  rel := by
    intro n s s' hr
    obtain ⟨v, b, b', rfl, rfl, hag⟩ := hr
    left
    show MSame n (EStateM.Result.ok (g (St.withInp v b)) (u (St.withInp v b)))
      (EStateM.Result.ok (g (St.withInp v b')) (u (St.withInp v b')))
    refine ⟨by rw [hg, hg], ?_⟩
    exact ⟨u v, b, b', hu v b, hu v b', hag⟩

theorem Loc.read {α : Type} (g : St → α) (hg : ∀ s b, g (St.withInp s b) = g s) :
    Loc (fun s => EStateM.Result.ok (g s) s : M α) :=
  Loc.step g id hg (fun _ _ => rfl) (fun _ => Nat.le_refl _)

theorem Loc.modify (f : St → St) (hu : ∀ s b, f (St.withInp s b) = St.withInp (f s) b)
    (hpos : ∀ s, s.inPos ≤ (f s).inPos) : Loc (modify f : M PUnit) :=
  Loc.step (fun _ => PUnit.unit) f (fun _ _ => rfl) hu hpos

theorem Loc.ite {α : Type} {c : Prop} [Decidable c] {x y : M α} (hx : Loc x) (hy : Loc y) :
    Loc (if c then x else y) := by
  split
  · exact hx
  · exact hy

/-- replace the input buffer in the final state of a result -/
def mapInp {α : Type} (b : ByteArray) : EStateM.Result Exit St α → EStateM.Result Exit St α
  | .ok a t => .ok a (St.withInp t b)
  | .error e t => .error e (St.withInp t b)

/-- an operation that does not look at the input at all -/
theorem Loc.of_indep {α : Type} (x : M α) (h : ∀ s b, x (St.withInp s b) = mapInp b (x s))
    (hpos : ∀ s, s.inPos ≤ (resSt (x s)).inPos) : Loc x where
  mono := hpos
  rel := by
    intro n s s' hr
    obtain ⟨v, b, b', rfl, rfl, hag⟩ := hr
    left
    rw [h v b, h v b']
    cases x v with
    | ok a t => exact ⟨rfl, t, b, b', rfl, rfl, hag⟩
    | error e t => exact ⟨rfl, t, b, b', rfl, rfl, hag⟩

end XzVerif.Lzma
