/-
  Trace-level invariants of the C17 model (which events can appear, and in which order).
-/
import XzVerif.Lemmas.XzIoFrame

namespace XzVerif.XzIo
variable {α : Type}

/-- every `unlink target` is directly preceded by an lstat()/stat() of the target whose inode is the one fstat()
    reported right after the target was created (`tr` is newest first) -/
def UnlinkGuarded : List Event → Prop
  | [] => True
  | e :: rest =>
      (e.call = .unlink .dst →
        ∃ f v r', rest = ⟨.stat .dst f, .ok v⟩ :: r' ∧ ⟨.fstat .dst, .ok v⟩ ∈ r' ∧ v ≠ 0) ∧ UnlinkGuarded rest

structure Q5 (s : St α) : Prop where
  guarded : UnlinkGuarded s.trace
  atUnlink : s.pc = .unlinkDest →
    ∃ f r', s.trace = ⟨.stat .dst f, .ok s.destStIno⟩ :: r' ∧ ⟨.fstat .dst, .ok s.destStIno⟩ ∈ r' ∧ s.destStIno ≠ 0
  stIno : s.destStIno ≠ 0 → ⟨.fstat .dst, .ok s.destStIno⟩ ∈ s.trace
  name0 : s.fs.dstName ≠ some 0

theorem q5_preActions {c : Cfg α} {s : St α} (h : Q5 s) : Q5 (preActions c s) := by
  unfold preActions FS.replace
  simp only
  refine ⟨?_, ?_, ?_, ?_⟩
  · repeat' split
    all_goals exact h.guarded
  · repeat' split
    all_goals exact h.atUnlink
  · repeat' split
    all_goals exact h.stIno
  · have := h.name0
    repeat' split
    all_goals simp_all [inoForeign]

set_option linter.unusedSimpArgs false

/-- a step that records any call but `unlink target`, keeps the remembered inode and does not stop at `unlinkDest` -/
theorem q5_of {s s' : St α} (h : Q5 s) (call : Call) (r : Res) (ht : s'.trace = ⟨call, r⟩ :: s.trace)
    (hc : call ≠ .unlink .dst) (hd : s'.destStIno = s.destStIno) (hn : s'.fs.dstName ≠ some 0)
    (hp : s'.pc ≠ .unlinkDest) : Q5 s' := by
  refine ⟨?_, fun e => absurd e hp, ?_, hn⟩
  · rw [ht]; exact ⟨fun e => absurd e hc, h.guarded⟩
  · rw [ht, hd]; intro hh; exact List.mem_cons_of_mem _ (h.stIno hh)

end XzVerif.XzIo
