/- C17 trace invariant Q5 (only the own target is unlinked): preservation by `exec`, part 2 (generated layout, hand-checked proofs). -/
import XzVerif.Lemmas.XzIoTrace

namespace XzVerif.XzIo
variable {α : Type}
set_option linter.unusedSimpArgs false

theorem q5_exec_readPoll {c : Cfg α} {s : St α} (hpc : s.pc = .readPoll) (h : Q5 s) : Q5 (exec c s) := by
  obtain ⟨h1, h2, h3, h4⟩ := h
  unfold exec; simp only [hpc]
  repeat' split
  all_goals
    refine ⟨?_, ?_, ?_, ?_⟩ <;>
    simp_all [UnlinkGuarded, emit, msgWarn, msgError, FS.unlinkDstName, FS.unlinkSrcName, FS.unlinkIno, inoOwn]

theorem q5_exec_write {c : Cfg α} {s : St α} (hpc : s.pc = .write) (h : Q5 s) : Q5 (exec c s) := by
  obtain ⟨h1, h2, h3, h4⟩ := h
  unfold exec; simp only [hpc]
  repeat' split
  all_goals
    refine ⟨?_, ?_, ?_, ?_⟩ <;>
    simp_all [UnlinkGuarded, emit, msgWarn, msgError, FS.unlinkDstName, FS.unlinkSrcName, FS.unlinkIno, inoOwn]

theorem q5_exec_writePoll {c : Cfg α} {s : St α} (hpc : s.pc = .writePoll) (h : Q5 s) : Q5 (exec c s) := by
  obtain ⟨h1, h2, h3, h4⟩ := h
  unfold exec; simp only [hpc]
  repeat' split
  all_goals
    refine ⟨?_, ?_, ?_, ?_⟩ <;>
    simp_all [UnlinkGuarded, emit, msgWarn, msgError, FS.unlinkDstName, FS.unlinkSrcName, FS.unlinkIno, inoOwn]

theorem q5_exec_seekHole {c : Cfg α} {s : St α} (hpc : s.pc = .seekHole) (h : Q5 s) : Q5 (exec c s) := by
  obtain ⟨h1, h2, h3, h4⟩ := h
  unfold exec; simp only [hpc]
  repeat' split
  all_goals
    refine ⟨?_, ?_, ?_, ?_⟩ <;>
    simp_all [UnlinkGuarded, emit, msgWarn, msgError, FS.unlinkDstName, FS.unlinkSrcName, FS.unlinkIno, inoOwn]

theorem q5_exec_fixPos {c : Cfg α} {s : St α} (hpc : s.pc = .fixPos) (h : Q5 s) : Q5 (exec c s) := by
  obtain ⟨h1, h2, h3, h4⟩ := h
  unfold exec; simp only [hpc]
  repeat' split
  all_goals
    refine ⟨?_, ?_, ?_, ?_⟩ <;>
    simp_all [UnlinkGuarded, emit, msgWarn, msgError, FS.unlinkDstName, FS.unlinkSrcName, FS.unlinkIno, inoOwn]

theorem q5_exec_tailSeek {c : Cfg α} {s : St α} (hpc : s.pc = .tailSeek) (h : Q5 s) : Q5 (exec c s) := by
  obtain ⟨h1, h2, h3, h4⟩ := h
  unfold exec; simp only [hpc]
  repeat' split
  all_goals
    refine ⟨?_, ?_, ?_, ?_⟩ <;>
    simp_all [UnlinkGuarded, emit, msgWarn, msgError, FS.unlinkDstName, FS.unlinkSrcName, FS.unlinkIno, inoOwn]

theorem q5_exec_fchownUid {c : Cfg α} {s : St α} (hpc : s.pc = .fchownUid) (h : Q5 s) : Q5 (exec c s) := by
  obtain ⟨h1, h2, h3, h4⟩ := h
  unfold exec; simp only [hpc]
  repeat' split
  all_goals
    refine ⟨?_, ?_, ?_, ?_⟩ <;>
    simp_all [UnlinkGuarded, emit, msgWarn, msgError, FS.unlinkDstName, FS.unlinkSrcName, FS.unlinkIno, inoOwn]

theorem q5_exec_fchownGid {c : Cfg α} {s : St α} (hpc : s.pc = .fchownGid) (h : Q5 s) : Q5 (exec c s) := by
  obtain ⟨h1, h2, h3, h4⟩ := h
  unfold exec; simp only [hpc]
  repeat' split
  all_goals
    refine ⟨?_, ?_, ?_, ?_⟩ <;>
    simp_all [UnlinkGuarded, emit, msgWarn, msgError, FS.unlinkDstName, FS.unlinkSrcName, FS.unlinkIno, inoOwn]

theorem q5_exec_fchmod {c : Cfg α} {s : St α} (hpc : s.pc = .fchmod) (h : Q5 s) : Q5 (exec c s) := by
  obtain ⟨h1, h2, h3, h4⟩ := h
  unfold exec; simp only [hpc]
  repeat' split
  all_goals
    refine ⟨?_, ?_, ?_, ?_⟩ <;>
    simp_all [UnlinkGuarded, emit, msgWarn, msgError, FS.unlinkDstName, FS.unlinkSrcName, FS.unlinkIno, inoOwn]

theorem q5_exec_futimens {c : Cfg α} {s : St α} (hpc : s.pc = .futimens) (h : Q5 s) : Q5 (exec c s) := by
  obtain ⟨h1, h2, h3, h4⟩ := h
  unfold exec; simp only [hpc]
  repeat' split
  all_goals
    refine ⟨?_, ?_, ?_, ?_⟩ <;>
    simp_all [UnlinkGuarded, emit, msgWarn, msgError, FS.unlinkDstName, FS.unlinkSrcName, FS.unlinkIno, inoOwn]

end XzVerif.XzIo
